(* Executable correspondence check between Model/Demux.v and the real
   goat.Demux, on lock-step scenarios (after every environment action the real
   code ran to quiescence and was observed; the observation must equal the
   prediction of one of the quiescent states the model reaches over all orders
   of its internal rules), and the C18 property predicates evaluated on the
   history observed on the real code. *)
From Coq Require Import List ZArith Bool Lia.
Import ListNotations.
From Goat Require Import Base.Explore Model.Demux.
Open Scope Z_scope.

Record dobs := mkDObs {
  o_ann : list Z;               (* keys announced during this step *)
  o_rets : list (Z * cres);     (* calls that returned during this step *)
  o_shw : list env;             (* envelopes put on the shared transport during this step, in order *)
  o_pending : list Z;           (* calls still blocked *)
  o_run : bool;                 (* the Run goroutine is alive *)
  o_dw : Z;                     (* live writer goroutines *)
  o_keys : list Z;              (* registered keys, sorted *)
  o_crash : bool;               (* a panic was caught *)
  o_ctl : Z }.                  (* Demux.Cancel / Demux.Stop calls that have not returned at this quiescent point
                                   (the rig issues them on goroutines of their own). The model's Cancel and Stop
                                   are single atomic steps: always 0. A Cancel that waits for a hand-off in
                                   progress, for a consumer that is not reading, or for another key's traffic
                                   shows here, and as reason 5. *)

(* the virtual clock advances (time.Sleep inside the bubble) and nothing else happens: the model has no timers,
   so for it this is the no-op action - cancelling a call that does not exist (the rig never makes 9999 calls).
   A timer that a change of the code introduces ("wait at most 50 ms, then drop") fires here and shows as a
   difference. *)
Definition ATick : act := ACancelCall 9999.

Inductive c18case :=
| CDemux (acts : list act) (observed : list dobs)
| CDemuxE2E (results : list (Z * Z))    (* (expected, observed) outcome tokens of RPCs run through a real Demux *)
(* free-running stress (real concurrency, no bubble): several goroutines call Cancel on the SAME key while the first
   envelope of that key arrives, for many rounds - interleavings inside what the lock-step model treats as one critical
   section. After the demultiplexer has settled and every key has been cancelled once more: [orphans] = connections that
   were announced and are neither registered nor cancelled (a Read on them does not fail with the cancellation error: it
   returns an envelope or waits), [extra] = announcements beyond one per envelope-carrying round. A panic (close of a closed
   channel) ends the process: reported as a process event. *)
| CDemuxStress (rounds orphans extra : Z).

(* ---- decidable equality ---- *)
Definition env_eqb (a b : env) : bool := (ekey a =? ekey b) && (eval a =? eval b).
Definition cres_eqb (a b : cres) : bool :=
  match a, b with
  | RGot x, RGot y => env_eqb x y
  | RWrote, RWrote | RErrCtx, RErrCtx | RErrCancelled, RErrCancelled => true
  | _, _ => false
  end.
Definition ckind_eqb (a b : ckind) : bool :=
  match a, b with KRead, KRead => true | KWrite x, KWrite y => env_eqb x y | _, _ => false end.
Definition call_eqb (a b : call) : bool :=
  Nat.eqb (cl_conn a) (cl_conn b) && ckind_eqb (cl_kind a) (cl_kind b) && Bool.eqb (cl_ctx a) (cl_ctx b)
  && option_eqb cres_eqb (cl_res a) (cl_res b).
Definition dwpc_eqb (a b : dwpc) : bool :=
  match a, b with DWSel, DWSel | DWDead, DWDead => true | DWWrite x, DWWrite y => env_eqb x y | _, _ => false end.
Definition conn_eqb (a b : conn) : bool :=
  (c_key a =? c_key b) && Bool.eqb (c_reg a) (c_reg b) && Bool.eqb (c_done a) (c_done b) && dwpc_eqb (c_dw a) (c_dw b).
Definition rnpc_eqb (a b : rnpc) : bool :=
  match a, b with
  | RNRead, RNRead | RNDead, RNDead => true
  | RNHand c x, RNHand d y => Nat.eqb c d && env_eqb x y
  | _, _ => false
  end.
Definition wmode_eqb (a b : wmode) : bool :=
  match a, b with WOk, WOk | WFail, WFail | WBlock, WBlock => true | _, _ => false end.
Definition dev_eqb (a b : dev) : bool :=
  match a, b with
  | EvShRead c x, EvShRead d y => Nat.eqb c d && env_eqb x y
  | EvAnnounce c k, EvAnnounce d j => Nat.eqb c d && (k =? j)
  | EvHand c x i, EvHand d y j => Nat.eqb c d && env_eqb x y && Nat.eqb i j
  | EvDropped c x, EvDropped d y => Nat.eqb c d && env_eqb x y
  | EvLost c x, EvLost d y => Nat.eqb c d && env_eqb x y
  | EvRet i r, EvRet j q => Nat.eqb i j && cres_eqb r q
  | EvAccept c x i, EvAccept d y j => Nat.eqb c d && env_eqb x y && Nat.eqb i j
  | EvShWrite c x o, EvShWrite d y p => Nat.eqb c d && env_eqb x y && Bool.eqb o p
  | _, _ => false
  end.
Definition state_eqb (a b : state) : bool :=
  rnpc_eqb (rn a) (rn b) && list_eqb env_eqb (inbox a) (inbox b) && Bool.eqb (rfail a) (rfail b)
  && Bool.eqb (stopped a) (stopped b) && wmode_eqb (wm a) (wm b) && list_eqb conn_eqb (conns a) (conns b)
  && list_eqb call_eqb (calls a) (calls b) && Bool.eqb (crashed a) (crashed b) && list_eqb dev_eqb (log a) (log b).

(* a total preorder on events, to canonicalise the order of the events of one reaction *)
Definition cres_code (r : cres) : list Z :=
  match r with RGot e => [1; ekey e; eval e] | RWrote => [2] | RErrCtx => [3] | RErrCancelled => [4] end.
Definition dev_code (e : dev) : list Z :=
  match e with
  | EvShRead c x => [1; Z.of_nat c; ekey x; eval x]
  | EvAnnounce c k => [2; Z.of_nat c; k]
  | EvHand c x i => [3; Z.of_nat c; ekey x; eval x; Z.of_nat i]
  | EvDropped c x => [4; Z.of_nat c; ekey x; eval x]
  | EvLost c x => [5; Z.of_nat c; ekey x; eval x]
  | EvRet i r => 6 :: Z.of_nat i :: cres_code r
  | EvAccept c x i => [7; Z.of_nat c; ekey x; eval x; Z.of_nat i]
  | EvShWrite c x o => [8; Z.of_nat c; ekey x; eval x; if o then 1 else 0]
  end.
Fixpoint lex_leb (a b : list Z) : bool :=
  match a, b with
  | [], _ => true
  | _ :: _, [] => false
  | x :: a', y :: b' => if x <? y then true else if y <? x then false else lex_leb a' b'
  end.
Definition dev_leb (a b : dev) : bool := lex_leb (dev_code a) (dev_code b).

Definition canon (base : nat) (s : state) : state :=
  mkState (rn s) (inbox s) (rfail s) (stopped s) (wm s) (conns s) (calls s) (crashed s)
          (firstn base (log s) ++ sort_by dev_leb (skipn base (log s))).

Definition int_succs (base : nat) (s : state) : list state :=
  map (canon base) (Explore.filter_map (fun r => r s) (rules s)).

Definition react_all (s : state) (a : act) : option (list state) :=
  let s1 := ext s a in
  explore state_eqb (int_succs (length (log s))) 20000 [s1] [s1] [].

(* ---- what the model predicts at a quiescent point ---- *)
Fixpoint pending_from (n : nat) (ks : list call) : list Z :=
  match ks with
  | [] => []
  | k :: t => (if call_blocked k then [Z.of_nat n] else []) ++ pending_from (S n) t
  end.

Definition zleb (a b : Z) : bool := a <=? b.

Definition predict (prev s : state) : dobs :=
  let news := skipn (length (log prev)) (log s) in
  mkDObs (Explore.filter_map (fun e => match e with EvAnnounce _ k => Some k | _ => None end) news)
         (Explore.filter_map (fun e => match e with EvRet i r => Some (Z.of_nat i, r) | _ => None end) news)
         (Explore.filter_map (fun e => match e with EvShWrite _ x true => Some x | _ => None end) news)
         (pending_from 0 (calls s))
         (match rn s with RNDead => false | _ => true end)
         (Z.of_nat (length (filter (fun x => match c_dw x with DWDead => false | _ => true end) (conns s))))
         (sort_by zleb (map c_key (filter c_reg (conns s))))
         (crashed s)
         0.

Definition count {A} (f : A -> A -> bool) (x : A) (l : list A) : nat := length (filter (f x) l).
Definition multiset_eqb {A} (f : A -> A -> bool) (a b : list A) : bool :=
  Nat.eqb (length a) (length b) && forallb (fun x => Nat.eqb (count f x a) (count f x b)) a.
Definition ret_eqb (a b : Z * cres) : bool := (fst a =? fst b) && cres_eqb (snd a) (snd b).

Definition obs_eqb (a b : dobs) : bool :=
  multiset_eqb Z.eqb (o_ann a) (o_ann b)
  && multiset_eqb ret_eqb (o_rets a) (o_rets b)
  && multiset_eqb env_eqb (o_shw a) (o_shw b)
  && multiset_eqb Z.eqb (o_pending a) (o_pending b)
  && Bool.eqb (o_run a) (o_run b) && (o_dw a =? o_dw b)
  && list_eqb Z.eqb (sort_by zleb (o_keys a)) (sort_by zleb (o_keys b))
  && Bool.eqb (o_crash a) (o_crash b)
  && (o_ctl a =? o_ctl b).

Fixpoint agree_from (i : nat) (cands : list state) (acts : list act) (observed : list dobs) : option nat :=
  match acts, observed with
  | a :: acts', o :: obs' =>
      let nexts := flat_map (fun s => match react_all s a with
                                      | Some qs => filter (fun s' => obs_eqb (predict s s') o) qs
                                      | None => []
                                      end) cands in
      match dedup state_eqb nexts with
      | [] => Some i
      | ns => agree_from (S i) ns acts' obs'
      end
  | [], [] => None
  | _, _ => Some i
  end.

Definition first_disagreement (c : c18case) : option nat :=
  match c with
  | CDemux acts observed => agree_from 0 [init] acts observed
  | CDemuxE2E _ => None
  | CDemuxStress _ _ _ => None
  end.

(* ================= the property predicates, on the observed history ================= *)
(* The scenario is replayed symbolically only as far as the *environment* is concerned: which call index an
   ARead / AWrite action creates, which instance index an announcement creates, which instance a Cancel hits. *)

(* calls: (conn, kind, step at which it was issued) in call-index order. A call action is valid iff the
   instance had been announced before the step. *)
Record cinfo := mkCI { ci_conn : nat; ci_kind : ckind; ci_step : nat }.

Fixpoint calls_of (step : nat) (nconn : nat) (acts : list act) (observed : list dobs) : list cinfo :=
  match acts, observed with
  | a :: acts', o :: obs' =>
      let nconn' := (nconn + length (o_ann o))%nat in
      match a with
      | ARead c => if Nat.ltb c nconn then mkCI c KRead step :: calls_of (S step) nconn' acts' obs'
                   else calls_of (S step) nconn' acts' obs'
      | AWrite c e => if Nat.ltb c nconn then mkCI c (KWrite e) step :: calls_of (S step) nconn' acts' obs'
                      else calls_of (S step) nconn' acts' obs'
      | _ => calls_of (S step) nconn' acts' obs'
      end
  | _, _ => []
  end.

(* instances: key and, if it was cancelled, the step of the Cancel; instance ids are announcement order *)
Record iinfo := mkII { ii_key : Z; ii_cancel : option nat }.

Fixpoint cancel_live (k : Z) (step : nat) (is : list iinfo) : list iinfo :=
  match is with
  | [] => []
  | i :: t => match ii_cancel i with
              | None => if ii_key i =? k then mkII k (Some step) :: t else i :: cancel_live k step t
              | Some _ => i :: cancel_live k step t
              end
  end.

Fixpoint insts_of (step : nat) (is : list iinfo) (acts : list act) (observed : list dobs) : list iinfo :=
  match acts, observed with
  | a :: acts', o :: obs' =>
      let is1 := match a with ACancelKey k => cancel_live k step is | _ => is end in
      insts_of (S step) (is1 ++ map (fun k => mkII k None) (o_ann o)) acts' obs'
  | _, _ => is
  end.

Definition delivered (k : Z) (acts : list act) : list Z :=
  Explore.filter_map (fun a => match a with ADeliver e => if ekey e =? k then Some (eval e) else None | _ => None end) acts.

Definition has_stop (acts : list act) : bool := existsb (fun a => match a with AStop => true | _ => false end) acts.
Definition has_wmode (acts : list act) : bool := existsb (fun a => match a with ASetWrite WOk => false | ASetWrite _ => true | _ => false end) acts.
Definition has_wblock (acts : list act) : bool := existsb (fun a => match a with ASetWrite WBlock => true | _ => false end) acts.
Definition no_wfail (acts : list act) : bool := negb (existsb (fun a => match a with ASetWrite WFail => true | _ => false end) acts).
(* the shared transport accepts writes after the last action (it does initially) *)
Fixpoint final_wok (m : bool) (acts : list act) : bool :=
  match acts with
  | [] => m
  | ASetWrite WOk :: t => final_wok true t
  | ASetWrite _ :: t => final_wok false t
  | _ :: t => final_wok m t
  end.
Definition ncancel (k : Z) (acts : list act) : nat :=
  length (filter (fun a => match a with ACancelKey k' => k' =? k | _ => false end) acts).

Definition index_of (x : Z) (l : list Z) : nat :=
  (fix go (l : list Z) (n : nat) := match l with [] => n | y :: t => if y =? x then n else go t (S n) end) l 0%nat.

(* the payloads that the Read calls on instances of key k returned, step by step; within one step (reads
   that returned during the same reaction have no observable order) sorted by delivery position *)
Definition reads_of_key (k : Z) (cs : list cinfo) (is : list iinfo) (dl : list Z) (observed : list dobs) : list Z :=
  flat_map (fun o =>
    sort_by (fun a b => Nat.leb (index_of a dl) (index_of b dl))
      (Explore.filter_map (fun r =>
         match snd r with
         | RGot e =>
             match nth_error cs (Z.to_nat (fst r)) with
             | Some ci => match nth_error is (ci_conn ci) with
                          | Some ii => if ii_key ii =? k then Some (eval e) else None
                          | None => None
                          end
             | None => None
             end
         | _ => None
         end) (o_rets o))) observed.

(* [r] is an in-order sub-sequence of [d]; returns the number of elements of [d] skipped before the last match *)
Fixpoint subseq_gaps (r d : list Z) (gaps : nat) : option nat :=
  match r with
  | [] => Some gaps
  | x :: r' =>
      (fix skip (d : list Z) (g : nat) : option nat :=
         match d with
         | [] => None
         | y :: d' => if y =? x then subseq_gaps r' d' g else skip d' (S g)
         end) d gaps
  end.

(* which envelopes of key k were LOST: delivered before the last one that was read, and never read *)
Fixpoint upto (x : Z) (d : list Z) : list Z :=
  match d with [] => [] | y :: t => if y =? x then [] else y :: upto x t end.
Definition lost_of (r d : list Z) : list Z :=
  match rev r with
  | [] => []
  | x :: _ => filter (fun v => negb (existsb (Z.eqb v) r)) (upto x d)
  end.
(* position of the delivery of (k, v) in the action list; positions of the Cancels of k *)
Fixpoint pos_deliver (k v : Z) (acts : list act) (n : nat) : nat :=
  match acts with
  | [] => n
  | ADeliver e :: t => if (ekey e =? k) && (eval e =? v) then n else pos_deliver k v t (S n)
  | _ :: t => pos_deliver k v t (S n)
  end.
Fixpoint cancel_positions (k : Z) (acts : list act) (n : nat) : list nat :=
  match acts with
  | [] => []
  | ACancelKey k' :: t => if k' =? k then n :: cancel_positions k t (S n) else cancel_positions k t (S n)
  | _ :: t => cancel_positions k t (S n)
  end.
(* every lost envelope (positions ascending) is covered by a Cancel of its key of its own that comes LATER in the
   action list: a Cancel can only cost the envelope whose hand-off is in progress when it happens, never one that
   arrives after the Cancel has returned *)
Fixpoint drop_le (p : nat) (cs : list nat) : list nat :=
  match cs with [] => [] | c :: t => if Nat.leb c p then drop_le p t else cs end.
Fixpoint covered (lost_pos cancels : list nat) : bool :=
  match lost_pos with
  | [] => true
  | p :: t => match drop_le p cancels with [] => false | _ :: rest => covered t rest end
  end.

Definition keys_of (acts : list act) : list Z :=
  dedup Z.eqb (Explore.filter_map (fun a => match a with ADeliver e => Some (ekey e) | _ => None end) acts).

(* reason 2: per key, what the logical connections of the key returned is an in-order sub-sequence of what was
   delivered with that key, each envelope at most once, unchanged, and at most one envelope is lost per Cancel
   of the key (none when the key is never cancelled and the demultiplexer is not stopped: an exact prefix);
   every envelope was returned by a connection announced for its own key. The allowance is per Cancel and only
   for an envelope delivered before that Cancel (the one whose hand-off was in progress): an envelope that
   arrives after Cancel(k) has returned is never lost (seeded/C18_5) *)
Definition spec_route (acts : list act) (observed : list dobs) : bool :=
  let cs := calls_of 0 0 acts observed in
  let is := insts_of 0 [] acts observed in
  forallb (fun k =>
    let dl := delivered k acts in
    let rd := reads_of_key k cs is dl observed in
    match subseq_gaps rd dl 0 with
    | None => false
    | Some g => Nat.leb g (ncancel k acts)
                (* ... and each lost envelope was delivered BEFORE a Cancel of the key that is its own *)
                && covered (map (fun v => pos_deliver k v acts 0) (lost_of rd dl)) (cancel_positions k acts 0)
    end) (keys_of acts)
  && forallb (fun o => forallb (fun r =>
       match snd r with
       | RGot e => match nth_error cs (Z.to_nat (fst r)) with
                   | Some ci => match nth_error is (ci_conn ci) with
                                | Some ii => (ii_key ii =? ekey e) && existsb (Z.eqb (eval e)) (delivered (ekey e) acts)
                                | None => false
                                end
                   | None => false
                   end
       | _ => true
       end) (o_rets o)) observed.

(* reason 3: a key is announced only while it has no live (announced, not yet cancelled) instance, and only
   after an envelope with that key was delivered *)
Fixpoint spec_announce_from (live seen : list Z) (acts : list act) (observed : list dobs) : bool :=
  match acts, observed with
  | a :: acts', o :: obs' =>
      let live1 := match a with ACancelKey k => filter (fun x => negb (x =? k)) live | _ => live end in
      let seen1 := match a with ADeliver e => ekey e :: seen | _ => seen end in
      (fix ann (ks : list Z) (live : list Z) : bool :=
         match ks with
         | [] => spec_announce_from live seen1 acts' obs'
         | k :: t => negb (existsb (Z.eqb k) live) && existsb (Z.eqb k) seen1 && ann t (k :: live)
         end) (o_ann o) live1
  | _, _ => true
  end.

(* reason 3, the other direction: first use of a key IS announced. When an envelope with key k is delivered while
   the run loop is known to be free - the demultiplexer was not stopped, the shared Read has not failed, the run
   loop was alive at the previous quiescent point and every envelope delivered before has been returned by a Read -
   and k has no live instance (never announced, or cancelled since), then this very step announces k: the envelope
   opens a NEW connection, whether or not the key was used and cancelled before. *)
Fixpoint spec_fresh_from (live dl rd : list Z) (idle : bool) (acts : list act) (observed : list dobs) : bool :=
  match acts, observed with
  | a :: acts', o :: obs' =>
      let live1 := match a with ACancelKey k => filter (fun x => negb (x =? k)) live | _ => live end in
      let idle1 := match a with AStop | AFailRead => false | _ => idle end in
      let ok := match a with
                | ADeliver e =>
                    if idle && forallb (fun v => existsb (Z.eqb v) rd) dl && negb (existsb (Z.eqb (ekey e)) live1)
                    then existsb (Z.eqb (ekey e)) (o_ann o) else true
                | _ => true
                end in
      let dl1 := match a with ADeliver e => eval e :: dl | _ => dl end in
      let rd1 := Explore.filter_map (fun r => match snd r with RGot e => Some (eval e) | _ => None end) (o_rets o) ++ rd in
      ok && spec_fresh_from (o_ann o ++ live1) dl1 rd1 (idle1 && o_run o) acts' obs'
  | _, _ => true
  end.

Definition shw_all (observed : list dobs) : list Z := flat_map (fun o => map eval (o_shw o)) observed.

Fixpoint ret_step (i : Z) (step : nat) (observed : list dobs) : option (nat * cres) :=
  match observed with
  | [] => None
  | o :: t => match find (fun r => fst r =? i) (o_rets o) with
              | Some r => Some (step, snd r)
              | None => ret_step i (S step) t
              end
  end.

(* reason 4: every envelope on the shared transport is the unchanged envelope of a Write call that returned
   nil no later than that step, once; per instance the shared order respects the order of non-overlapping
   Write calls, and an earlier accepted envelope is never missing before a later one; while the shared
   transport accepts writes nothing accepted is missing at the quiescent point; and once it accepts writes again
   (no failure, no Stop) nothing accepted on a live connection is missing and no Write is left parked *)
Definition spec_write (acts : list act) (observed : list dobs) : bool :=
  let cs := calls_of 0 0 acts observed in
  let sh := shw_all observed in
  let writes := Explore.filter_map (fun p => match ci_kind (snd p) with
                                    | KWrite e => Some (fst p, ci_conn (snd p), e, ci_step (snd p))
                                    | KRead => None end)
                                   (combine (map Z.of_nat (seq 0 (length cs))) cs) in
  let accepted_w := Explore.filter_map (fun w => match w with (i, c, e, st) =>
                        match ret_step i 0 observed with
                        | Some (rs, RWrote) => Some (c, e, st, rs)
                        | _ => None end end) writes in
  (* every shared envelope is an accepted one, whole envelope equal, at most once *)
  list_eqb Z.eqb (dedup Z.eqb sh) sh
  && forallb (fun o => forallb (fun x => existsb (fun w => match w with (c, e, st, rs) => env_eqb e x end) accepted_w) (o_shw o)) observed
  (* shared at a step no earlier than the return of the call *)
  && (fix chk (step : nat) (obs : list dobs) : bool :=
        match obs with
        | [] => true
        | o :: t => forallb (fun x => existsb (fun w => match w with (c, e, st, rs) => env_eqb e x && Nat.leb rs step end) accepted_w) (o_shw o)
                    && chk (S step) t
        end) 0%nat observed
  (* order and no gap among non-overlapping writes of one instance *)
  && forallb (fun wa => forallb (fun wb =>
        match wa, wb with
        | (ca, ea, sta, rsa), (cb, eb, stb, rsb) =>
            if Nat.eqb ca cb && Nat.ltb rsa stb && existsb (Z.eqb (eval eb)) sh
            then existsb (Z.eqb (eval ea)) sh && Nat.ltb (index_of (eval ea) sh) (index_of (eval eb) sh)
            else true
        end) accepted_w) accepted_w
  (* completeness while the shared transport works *)
  && (has_wmode acts || forallb (fun w => match w with (c, e, st, rs) => existsb (Z.eqb (eval e)) sh end) accepted_w)
  (* completeness once the shared transport works AGAIN: when the transport never failed, the demultiplexer was not
     stopped and the scenario ends with the transport accepting writes, then at the last quiescent point every envelope
     whose logical Write returned nil on a connection that was not cancelled is on the shared transport - whatever
     happened to the caller's context after the Write had returned (seeded/C18_9) - and no Write call on such a
     connection is still parked (a later Write completes) *)
  && (negb (no_wfail acts && final_wok true acts && negb (has_stop acts))
      || (let is := insts_of 0 [] acts observed in
          let live c := match nth_error is c with
                        | Some ii => match ii_cancel ii with None => true | Some _ => false end
                        | None => false end in
          forallb (fun w => match w with (c, e, st, rs) => negb (live c) || existsb (Z.eqb (eval e)) sh end) accepted_w
          && match rev observed with
             | [] => true
             | o :: _ => forallb (fun i => match nth_error cs (Z.to_nat i) with
                                           | Some ci => match ci_kind ci with
                                                        | KWrite _ => negb (live (ci_conn ci))
                                                        | KRead => true end
                                           | None => true end) (o_pending o)
             end)).

(* reason 5: no crash; at a quiescent point no call on a cancelled instance is blocked; a Read issued on an
   instance after the step of its Cancel returns an error, so does a Write unless the shared transport was
   ever blocked (its writer goroutine may then still be inside the blocked shared Write) *)
Definition spec_cancel (acts : list act) (observed : list dobs) : bool :=
  let cs := calls_of 0 0 acts observed in
  let is := insts_of 0 [] acts observed in
  forallb (fun o => negb (o_crash o)) observed
  (* Cancel(key) and Stop return: whatever the consumers of this or any other key are (not) doing *)
  && forallb (fun o => o_ctl o =? 0) observed
  && (fix chk (step : nat) (obs : list dobs) : bool :=
        match obs with
        | [] => true
        | o :: t =>
            forallb (fun i => match nth_error cs (Z.to_nat i) with
                              | Some ci => match nth_error is (ci_conn ci) with
                                           | Some ii => match ii_cancel ii with
                                                        | Some cstep => Nat.ltb step cstep   (* blocked only before the Cancel *)
                                                        | None => true end
                                           | None => true end
                              | None => false end) (o_pending o)
            && forallb (fun r => match nth_error cs (Z.to_nat (fst r)) with
                                 | Some ci => match nth_error is (ci_conn ci) with
                                              | Some ii => match ii_cancel ii with
                                                           | Some cstep =>
                                                               if Nat.ltb cstep (ci_step ci)
                                                               then match ci_kind ci with
                                                                    | KRead => is_err (snd r)
                                                                    | KWrite _ => is_err (snd r) || has_wblock acts
                                                                    end
                                                               else true
                                                           | None => true end
                                              | None => true end
                                 | None => false end) (o_rets o)
            && chk (S step) t
        end) 0%nat observed.

(* reason 6: at every quiescent point after Stop the run loop and every writer goroutine are gone *)
Fixpoint spec_stop_from (stopped : bool) (acts : list act) (observed : list dobs) : bool :=
  match acts, observed with
  | a :: acts', o :: obs' =>
      let st := stopped || match a with AStop => true | _ => false end in
      (if st then negb (o_run o) && (o_dw o =? 0) else true) && spec_stop_from st acts' obs'
  | _, _ => true
  end.

(* reason 8: the run loop ends only by Stop or by a failure of the shared transport's Read (theorem C18_run_alive):
   at every quiescent point before the first Stop / read failure the Run goroutine is alive *)
Fixpoint spec_alive_from (may_end : bool) (acts : list act) (observed : list dobs) : bool :=
  match acts, observed with
  | a :: acts', o :: obs' =>
      let me := may_end || match a with AStop | AFailRead => true | _ => false end in
      (me || o_run o) && spec_alive_from me acts' obs'
  | _, _ => true
  end.

Definition check (c : c18case) : list nat :=
  match c with
  | CDemux acts observed =>
      (match agree_from 0 [init] acts observed with None => [] | Some _ => [1%nat] end)
      ++ (if spec_route acts observed then [] else [2%nat])
      ++ (if spec_announce_from [] [] acts observed && spec_fresh_from [] [] [] true acts observed then [] else [3%nat])
      ++ (if spec_write acts observed then [] else [4%nat])
      ++ (if spec_cancel acts observed then [] else [5%nat])
      ++ (if spec_stop_from false acts observed then [] else [6%nat])
      ++ (if spec_alive_from false acts observed then [] else [8%nat])
  | CDemuxE2E results =>
      if forallb (fun p => fst p =? snd p) results then [] else [7%nat]
  | CDemuxStress _ orphans extra =>
      (if orphans =? 0 then [] else [5%nat]) ++ (if extra <=? 0 then [] else [3%nat])
  end.

Fixpoint find_bad_from (i : nat) (cs : list c18case) : list (nat * list nat) :=
  match cs with
  | [] => []
  | c :: rest =>
      match check c with
      | [] => find_bad_from (S i) rest
      | rs => (i, rs) :: find_bad_from (S i) rest
      end
  end.

(* Executable checks for C15: the access table regenerated from /repo's source
   by tools/locksets (one case per tracked field) is evaluated by the lockset
   checker of Model/Access.v (row classes JPlain / JAtomic / JInit = object-level
   initialisation / JConfined / JPub tag = field-level publication / JAfter tag =
   a site listed as ordered after that publication; a JPub write next to a site
   that no justification line lists is rejected: reason 2, the case carries the
   field, its rows and the unsafe pairs); the race-detector runs contribute one case per
   workload run (number of reports with a goat frame) and one per report. *)
From Coq Require Import List ZArith Bool Lia.
Import ListNotations.
From Goat Require Import Model.Access.
Open Scope Z_scope.

Inductive c15case :=
| CField (field : Z) (rows : list row)    (* every access site of one field *)
| CStale (n : Z)                          (* a line of tools/locksets/justify.txt that no longer matches the source *)
| CUnanalysed (n : Z)                     (* a function whose locking is path-sensitive: rejected, not analysed *)
| CRaceRun (workload : Z) (procs : Z) (reports : Z) (traffic : Z)
    (* a workload under the race detector: reports with a goat frame; how much went through (successful calls +
       messages + envelopes): a workload that does nothing proves nothing, so zero traffic is a broken tie *)
| CRace (n : Z).                          (* one such report (the replay is the report) *)

Definition check (c : c15case) : list nat :=
  match c with
  | CField f rows =>
      (if forallb (fun r => r_field r =? f) rows then [] else [1%nat]) ++
      (if race_free_table rows then [] else [2%nat])
  | CStale _ => [1%nat]
  | CUnanalysed _ => [1%nat]
  | CRaceRun _ _ n traffic => (if 0 <? traffic then [] else [1%nat]) ++ (if n =? 0 then [] else [2%nat])
  | CRace _ => [2%nat]
  end.

Fixpoint find_bad_from (i : nat) (cs : list c15case) : list (nat * list nat) :=
  match cs with
  | [] => []
  | c :: rest =>
      match check c with
      | [] => find_bad_from (S i) rest
      | rs => (i, rs) :: find_bad_from (S i) rest
      end
  end.

(* C01 on recorded end-to-end histories: the boolean predicates evaluated on
   what the REAL client connection / server (harness/sy_rig.go) did.

   A case is one run: a schedule of rig actions with the history events that
   each action produced (free-running runs have the single action SFree).
   Every C01 schedule is fault-free and is run until no action is enabled, so
   at its end every call must have returned. *)
From Coq Require Import List ZArith Bool Lia.
Import ListNotations.
From Goat Require Import Check.SysC.
Open Scope Z_scope.

Inductive c01case :=
| C01Run (steps : list (sact * list hev)).

(* ---- projections of the history ---- *)
Definition calls_of (evs : list hev) : list (Z * (Z * Z)) :=
  filter_map' (fun e => match e with CInvS c q x => Some (c, (q, x)) | _ => None end) evs.
Definition rets_of (evs : list hev) : list (Z * res) :=
  filter_map' (fun e => match e with CInvR c r => Some (c, r) | _ => None end) evs.
Definition hstarts_of (evs : list hev) : list (Z * Z) :=
  filter_map' (fun e => match e with HUnS c q => Some (c, q) | _ => None end) evs.
Definition hrets_of (evs : list hev) : list (Z * (Z * Z)) :=
  filter_map' (fun e => match e with HUnR c q r => Some (c, (q, r)) | _ => None end) evs.
Definition c2s_of (evs : list hev) : list (Z * wenv) :=
  filter_map' (fun e => match e with WC2S w => Some (w_id w, w) | _ => None end) evs.
Definition s2c_of (evs : list hev) : list (Z * wenv) :=
  filter_map' (fun e => match e with WS2C w => Some (w_id w, w) | _ => None end) evs.

(* 2: a caller's result is not Ok (f (its own request)) *)
Definition pairing_ok (evs : list hev) : bool :=
  join_all (fun (qx : Z * Z) (r : res) => res_eqb r (ROk (snd qx))) (msort (calls_of evs)) (msort (rets_of evs)).

(* 3: some call has no result at the end of the schedule, or two, or a result belongs to no call *)
Definition results_once (evs : list hev) : bool :=
  let cs := keys (msort (calls_of evs)) in
  strictly_increasing cs && zlist_eqb cs (keys (msort (rets_of evs))).

(* 4: the handler did not run exactly once per call (entered and returned), or ran for no call *)
(* calls whose request Write was reported as failed although the envelope was delivered ("acknowledgement lost") are
   recorded only by the entries of their handler (HStS n): the call may fail, its handler must not run twice *)
Definition faulted_starts (evs : list hev) : list (Z * unit) :=
  filter_map' (fun e => match e with HStS n => Some (n, tt) | _ => None end) evs.

Definition handler_once (evs : list hev) : bool :=
  let cs := keys (msort (calls_of evs)) in
  zlist_eqb cs (keys (msort (hstarts_of evs))) && zlist_eqb cs (keys (msort (hrets_of evs)))
  && strictly_increasing (keys (msort (faulted_starts evs))).

(* 5: the request the handler saw (on entry, and again just before returning) is not the caller's message *)
Definition request_ok (evs : list hev) : bool :=
  let cs := msort (calls_of evs) in
  join_all (fun (qx : Z * Z) (q : Z) => fst qx =? q) cs (msort (hstarts_of evs))
  && join_all (fun (qx : Z * Z) (qr : Z * Z) => fst qx =? fst qr) cs (msort (hrets_of evs)).

(* 6: the caller's result is not the reply its handler produced *)
Definition reply_ok (evs : list hev) : bool :=
  join_all (fun (qr : Z * Z) (r : res) => res_eqb r (ROk (snd qr))) (msort (hrets_of evs)) (msort (rets_of evs)).

(* 7: the wire: one request envelope per call, ids pairwise distinct, bodies = the callers' requests;
      one response per request id, echoing the id, body = f (body of the request with that id), no
      reset, no error status *)
Definition wire_ok (evs : list hev) : bool :=
  let c2s := c2s_of evs in
  let s2c := s2c_of evs in
  let by_id := msort c2s in
  let ids := keys by_id in
  strictly_increasing ids
  && zlist_eqb ids (keys (msort s2c))
  && forallb (fun kw => match w_body (snd kw) with Some _ => negb (w_rst (snd kw)) | None => false end) c2s
  && (* requests by body token against calls by request token: same multiset; yields (id, expect) *)
     let by_body := msort (map (fun kw => (match w_body (snd kw) with Some b => b | None => -1 end, fst kw)) c2s) in
     let by_req := msort (map (fun cqx => (fst (snd cqx), snd (snd cqx))) (calls_of evs)) in
     zlist_eqb (keys by_body) (keys by_req)
     && let expect_by_id := msort (map (fun p => (snd (fst p), snd (snd p))) (combine by_body by_req)) in
        zipb (fun (ix : Z * Z) (kw : Z * wenv) =>
                (fst ix =? fst kw)
                && optZ_eqb (w_body (snd kw)) (Some (snd ix))
                && negb (w_rst (snd kw))
                && match w_status (snd kw) with None => true | Some c => c =? 0 end)
             expect_by_id (msort s2c).

Definition spec_c01 (evs : list hev) : list nat :=
  (if pairing_ok evs then [] else [2%nat]) ++
  (if results_once evs then [] else [3%nat]) ++
  (if handler_once evs then [] else [4%nat]) ++
  (if request_ok evs then [] else [5%nat]) ++
  (if reply_ok evs then [] else [6%nat]) ++
  (if wire_ok evs then [] else [7%nat]).

Definition judge (c : c01case) : list nat :=
  match c with C01Run steps => spec_c01 (events steps) end.

Definition find_bad_from (i : nat) (cs : list c01case) : list (nat * list nat) := find_bad_with judge i cs.

(* ---- the predicates are not vacuous: a correct two-call history passes, each kind of damage is named ---- *)
Definition w_req (id b : Z) := WC2S (mkW id (Some b) None false false).
Definition w_rep (id b : Z) := WS2C (mkW id (Some b) None true false).
Definition good2 : list hev :=
  [CInvS 0 11 21; w_req 1 11; CInvS 1 12 22; w_req 2 12; HUnS 1 12; HUnS 0 11; HUnR 1 12 22; w_rep 2 22;
   HUnR 0 11 21; w_rep 1 21; CInvR 1 (ROk 22); CInvR 0 (ROk 21)].
Example good2_ok : spec_c01 good2 = []. Proof. vm_compute. reflexivity. Qed.
(* swapped replies *)
Example swapped_bad :
  spec_c01 [CInvS 0 11 21; w_req 1 11; CInvS 1 12 22; w_req 2 12; HUnS 1 12; HUnS 0 11; HUnR 1 12 22; w_rep 1 22;
            HUnR 0 11 21; w_rep 2 21; CInvR 1 (ROk 21); CInvR 0 (ROk 22)] = [2; 6; 7]%nat.
Proof. vm_compute. reflexivity. Qed.
(* same id twice: second caller gets the first reply, first caller times out *)
Example same_id_bad :
  spec_c01 [CInvS 0 11 21; w_req 1 11; CInvS 1 12 22; w_req 1 12; HUnS 1 12; HUnS 0 11; HUnR 1 12 22; w_rep 1 22;
            HUnR 0 11 21; w_rep 1 21; CInvR 1 (ROk 21); CInvR 0 (RErr 3)] = [2; 6; 7]%nat.
Proof. vm_compute. reflexivity. Qed.
Example missing_result_bad :
  spec_c01 [CInvS 0 11 21; w_req 1 11; HUnS 0 11; HUnR 0 11 21; w_rep 1 21] = [3]%nat.
Proof. vm_compute. reflexivity. Qed.
Example handler_twice_bad :
  spec_c01 [CInvS 0 11 21; w_req 1 11; HUnS 0 11; HUnS 0 11; HUnR 0 11 21; HUnR 0 11 21; w_rep 1 21; CInvR 0 (ROk 21)] = [4]%nat.
Proof. vm_compute. reflexivity. Qed.
Example faulted_handler_twice_bad :
  spec_c01 [CInvS 0 11 21; w_req 1 11; HUnS 0 11; HStS 1; HStS 1; HUnR 0 11 21; w_rep 1 21; CInvR 0 (ROk 21)] = [4]%nat.
Proof. vm_compute. reflexivity. Qed.
Example faulted_handler_once_ok :
  spec_c01 [CInvS 0 11 21; w_req 1 11; HUnS 0 11; HStS 1; HUnR 0 11 21; w_rep 1 21; CInvR 0 (ROk 21)] = [].
Proof. vm_compute. reflexivity. Qed.
Example altered_request_bad :
  spec_c01 [CInvS 0 11 21; w_req 1 11; HUnS 0 11; HUnR 0 13 23; w_rep 1 23; CInvR 0 (ROk 23)] = [2; 5; 7]%nat.
Proof. vm_compute. reflexivity. Qed.

(* Executable correspondence / specification checks for C20 (chain part; the
   stats part is appended below the chain part). *)
From Coq Require Import List ZArith Bool Lia.
Import ListNotations.
From Goat Require Import Model.Chain Model.Stats.
Open Scope Z_scope.

(* ---- interceptor programs ---- *)
Inductive beh := Pass | ModCtx | ModReq | ModRep | ModErr | Short (e : Z) | Twice.

Record carg := mkArg { a_ctx : list Z; a_req : list Z }.

Inductive cev :=
| EPre (j : Z) (ctx req : list Z)        (* stage j entered with this context / request *)
| EPost (j : Z) (rep : list Z) (err : Z) (* stage j got this reply / error back from the next stage *)
| EHandler (ctx req : list Z).           (* the final handler ran with this context / request *)

Definition cres := (list Z * Z * list cev)%type.   (* reply tokens, error code (0 = nil), log *)

(* The behaviour of the harness' recording interceptor number j (harness/st_chain.go: recInterceptor). *)
Definition interp (j : Z) (b : beh) : interceptor carg cres :=
  fun k a =>
    let a' := match b with
              | ModCtx => mkArg (a_ctx a ++ [j]) (a_req a)
              | ModReq => mkArg (a_ctx a) (a_req a ++ [j])
              | _ => a
              end in
    let pre := EPre j (a_ctx a) (a_req a) in
    match b with
    | Short e => ([], e, [pre])
    | Twice =>
        let '(_, _, l1) := k a' in
        let '(r2, e2, l2) := k a' in
        (r2, e2, pre :: l1 ++ l2 ++ [EPost j r2 e2])
    | _ =>
        let '(r, e, l) := k a' in
        let r' := match b with ModRep => r ++ [j] | _ => r end in
        let e' := match b with ModErr => 10 + j | _ => e end in
        (r', e', pre :: l ++ [EPost j r e])
    end.

(* final handler of the harness: echoes the request (unary) or returns no reply (stream twin) *)
Definition final_handler (echo : bool) (herr : Z) : handler carg cres :=
  fun a => ((if echo then a_req a else []), herr, [EHandler (a_ctx a) (a_req a)]).

Fixpoint number {X} (j : Z) (l : list X) : list (Z * X) :=
  match l with [] => [] | x :: r => (j, x) :: number (j + 1) r end.

Definition interps (bs : list beh) : list (interceptor carg cres) :=
  map (fun p => interp (fst p) (snd p)) (number 1 bs).

(* the model of the code: index recursion of chained.go *)
Definition run_chain (bs : list beh) (echo : bool) (herr : Z) (a : carg) : option cres :=
  match chain (interps bs) with
  | None => None
  | Some c => Some (c (final_handler echo herr) a)
  end.

(* the specification: nesting in registration order *)
Definition run_nest (bs : list beh) (echo : bool) (herr : Z) (a : carg) : cres :=
  nest (interps bs) (final_handler echo herr) a.

(* ---- equality of observations ---- *)
Fixpoint zlist_eqb (a b : list Z) : bool :=
  match a, b with
  | [], [] => true
  | x :: a', y :: b' => Z.eqb x y && zlist_eqb a' b'
  | _, _ => false
  end.

Definition cev_eqb (x y : cev) : bool :=
  match x, y with
  | EPre j c r, EPre j' c' r' => Z.eqb j j' && zlist_eqb c c' && zlist_eqb r r'
  | EPost j r e, EPost j' r' e' => Z.eqb j j' && zlist_eqb r r' && Z.eqb e e'
  | EHandler c r, EHandler c' r' => zlist_eqb c c' && zlist_eqb r r'
  | _, _ => false
  end.

Fixpoint list_eqb {X} (eqb : X -> X -> bool) (a b : list X) : bool :=
  match a, b with
  | [], [] => true
  | x :: a', y :: b' => eqb x y && list_eqb eqb a' b'
  | _, _ => false
  end.

Definition cres_eqb (x y : cres) : bool :=
  let '(r, e, l) := x in let '(r', e', l') := y in
  zlist_eqb r r' && Z.eqb e e' && list_eqb cev_eqb l l'.

(* property predicates on the observed log alone *)
Definition beh_plain (b : beh) : bool :=
  match b with Short _ => false | Twice => false | _ => true end.

Definition count_pre (j : Z) (l : list cev) : nat :=
  length (filter (fun e => match e with EPre j' _ _ => Z.eqb j j' | _ => false end) l).
Definition count_post (j : Z) (l : list cev) : nat :=
  length (filter (fun e => match e with EPost j' _ _ => Z.eqb j j' | _ => false end) l).
Definition count_handler (l : list cev) : nat :=
  length (filter (fun e => match e with EHandler _ _ => true | _ => false end) l).

(* when every stage calls the next one exactly once: every stage entered and
   left exactly once, the handler ran exactly once, entries in registration
   order before the handler, exits in reverse order after it *)
Definition stage_of (e : cev) : Z :=
  match e with EPre j _ _ => j | EPost j _ _ => - j | EHandler _ _ => 0 end.

Definition spec_once (bs : list beh) (l : list cev) : bool :=
  if forallb beh_plain bs then
    let n := Z.of_nat (length bs) in
    let js := map fst (number 1 bs) in
    zlist_eqb (map stage_of l) (js ++ [0] ++ map Z.opp (rev js))
  else true.

(* ---- end to end: client interceptor (0 or 1) - wire - server chain ---- *)
(* the wire between Invoke and the server: the context tokens travel as
   metadata, the request as the body; a reply only comes back with a nil error *)
Definition wire : interceptor carg cres := fun k a =>
  let '(r, e, l) := k a in ((if e =? 0 then r else []), e, l).

Definition srv_part (use_nest stream : bool) (bs : list beh) (herr : Z) : handler carg cres :=
  let h := final_handler (negb stream) herr in
  match bs with
  | [] => h                                   (* no interceptor installed: site calls the handler *)
  | _ => if use_nest then nest (interps bs) h
         else match chain (interps bs) with Some c => c h | None => h end
  end.

Definition init_arg : carg := mkArg [] [7].

Definition e2e_unary (use_nest : bool) (cbeh : option beh) (bs : list beh) (herr : Z) : cres :=
  let inner := wire (srv_part use_nest false bs herr) in
  match cbeh with None => inner init_arg | Some b => interp 100 b inner init_arg end.

(* streams: the client interceptor surrounds newStream (which returns once the
   stream is open); the server chain runs around the stream handler. The log is
   client events then server events; the error is what the caller ends with. *)
Definition e2e_stream (use_nest : bool) (cbeh : option beh) (bs : list beh) (herr : Z) : cres :=
  let opened : handler carg cres := fun _ => ([], 0, []) in
  let '(_, ce, cl) := match cbeh with None => opened init_arg | Some b => interp 100 b opened init_arg end in
  let cctx := match cbeh with Some ModCtx => [100] | _ => [] end in
  if ce =? 0 then
    let '(_, e, sl) := srv_part use_nest true bs herr (mkArg cctx []) in ([], e, cl ++ sl)
  else ([], ce, cl).

(* ---- stats: one RPC as seen by one handler ---- *)
Inductive sexit :=
| XCU (x : cu_exit)
| XCS (o : cs_open) (ops : list cs_op)
| XSU (x : su_exit)
| XSS (x : ss_exit).

Definition model_events (x : sexit) : list sev :=
  match x with
  | XCU x => cu_events x
  | XCS o ops => cs_events o ops
  | XSU x => su_events x
  | XSS x => ss_events x
  end.

Definition sev_eqb (a b : sev) : bool :=
  match a, b with
  | TagRPC, TagRPC | Begin, Begin | OutHeader, OutHeader | OutPayload, OutPayload
  | InHeader, InHeader | InPayload, InPayload | OutTrailer, OutTrailer => true
  | End x, End y => Bool.eqb x y
  | _, _ => false
  end.

Definition refused (x : sexit) : bool :=
  match x with XSU SU_bad_metadata | XSU SU_undispatched | XSS SS_bad_metadata => true | _ => false end.
Definition client_stream (x : sexit) : bool := match x with XCS _ _ => true | _ => false end.

Definition ev_is_end (e : sev) : bool := match e with End _ => true | _ => false end.
Definition ev_plain (e : sev) : bool := match e with TagRPC | Begin | End _ => false | _ => true end.

(* property predicates on the observed list alone.
   shape: tagging call, one Begin first, nothing but plain events up to the End;
   a finished RPC has exactly one End; after it nothing (client streams: only
   OutTrailer events of late CloseSend calls); an unfinished one has none *)
Fixpoint after_begin (late_trailers finished : bool) (l : list sev) : bool :=
  match l with
  | [] => negb finished
  | End _ :: rest => finished && forallb (fun e => match e with OutTrailer => late_trailers | _ => false end) rest
  | e :: rest => ev_plain e && after_begin late_trailers finished rest
  end.

Definition spec_shape (x : sexit) (finished : bool) (obs : list sev) : bool :=
  match obs with
  | [] => refused x
  | TagRPC :: Begin :: rest => negb (refused x) && after_begin (client_stream x) finished rest
  | _ => false
  end.

(* End.Error is nil iff the RPC succeeded at that role *)
Definition spec_end (succ : bool) (obs : list sev) : bool :=
  forallb (fun e => match e with End b => Bool.eqb b succ | _ => true end) obs.

(* connection events *)
Definition conn_eqb (a b : Stats.cev) : bool :=
  match a, b with
  | TagConn, TagConn => true
  | ConnBegin x, ConnBegin y => Bool.eqb x y
  | ConnEnd x, ConnEnd y => Bool.eqb x y
  | _, _ => false
  end.

Inductive c20case :=
(* chain built by ChainUnaryInterceptor / ChainStreamInterceptor on a real server
   (stream = false/true), interceptor programs bs, handler error herr; observed
   result of calling the installed interceptor *)
| CChain (stream : bool) (bs : list beh) (herr : Z) (obs : cres)
(* the exported index recursion getChain*Handler(interceptors, curr, info, final),
   called at index curr directly: equals the nesting of the interceptors after curr *)
| CChainAt (stream : bool) (bs : list beh) (curr : nat) (herr : Z) (obs : cres)
(* end to end through a real client and a real server: chain bs on the server
   ([] = no interceptor), optional single interceptor on the client; what the
   interceptors logged and what the peer (the caller) observes *)
| CChainE2E (stream : bool) (cbeh : option beh) (bs : list beh) (herr : Z) (obs : cres)
(* one RPC as seen by handler number h of nh installed ones: the exit of the
   model it took, whether the RPC finished and succeeded at that role (observed
   by the rig independently of the events), the events recorded under the RPC's
   tag, the number of events of this scenario that carried no / a foreign tag *)
| CStats (x : sexit) (nh h : Z) (finished succ : bool) (obs : list sev) (untagged : Z)
(* connection events of one handler: served connection (one Serve call, its exit)
   or client connection (number of Close calls) *)
(* the same RPC with, for every event, the number of installed handlers whose tag
   was present in the context the event was delivered with (TagRPC: in the context
   it returned) *)
| CStatsCtx (x : sexit) (nh h : Z) (obs : list (sev * Z))
| CConnS (x : serve_exit) (obs : list Stats.cev)
| CConnC (closes : nat) (obs : list Stats.cev).

Definition check (c : c20case) : list nat :=
  match c with
  | CChain stream bs herr obs =>
      let echo := negb stream in
      let a := if stream then mkArg [] [] else init_arg in
      (match run_chain bs echo herr a with
       | Some m => if cres_eqb m obs then [] else [1%nat]
       | None => [1%nat]
       end) ++
      (if cres_eqb (run_nest bs echo herr a) obs then [] else [2%nat]) ++
      (if spec_once bs (snd obs) then [] else [3%nat])
  | CChainAt stream bs curr herr obs =>
      let echo := negb stream in
      let a := if stream then mkArg [] [] else init_arg in
      let m := get_chain (length bs - 1 - curr) (interps bs) curr (final_handler echo herr) a in
      (if cres_eqb m obs then [] else [1%nat]) ++
      (if cres_eqb (nest (skipn (S curr) (interps bs)) (final_handler echo herr) a) obs then [] else [2%nat])
  | CChainE2E stream cbeh bs herr obs =>
      let f := if stream then e2e_stream else e2e_unary in
      (* the caller's reply buffer is only looked at when the call succeeded *)
      let norm (x : cres) : cres := let '(r, e, l) := x in ((if e =? 0 then r else []), e, l) in
      (if cres_eqb (norm (f false cbeh bs herr)) obs then [] else [1%nat]) ++
      (if cres_eqb (norm (f true cbeh bs herr)) obs then [] else [2%nat])
  | CStats x nh h finished succ obs untagged =>
      (if list_eqb sev_eqb (model_events x) obs then [] else [1%nat]) ++
      (if spec_end succ obs then [] else [5%nat]) ++
      (if spec_shape x finished obs then [] else [6%nat]) ++
      (if untagged =? 0 then [] else [7%nat])
  | CStatsCtx x nh h obs =>
      let server := match x with XSU _ | XSS _ => true | _ => false end in
      let m := map (fun p => (fst p, Z.of_nat (snd p))) (tag_depths server (Z.to_nat nh) (Z.to_nat h) (map fst obs)) in
      (if list_eqb (fun a b : sev * Z => sev_eqb (fst a) (fst b) && Z.eqb (snd a) (snd b)) m obs then [] else [1%nat]) ++
      (* the property: every event carries this handler's own tag *)
      (if forallb (fun p => h + 1 <=? snd p) obs then [] else [7%nat])
  | CConnS x obs =>
      (if list_eqb conn_eqb (serve_events x) obs then [] else [1%nat]) ++
      (if list_eqb conn_eqb [TagConn; ConnBegin true; ConnEnd true] obs then [] else [8%nat])
  | CConnC closes obs =>
      (if list_eqb conn_eqb (client_conn_events closes) obs then [] else [1%nat])
  end.

Fixpoint find_bad_from (i : nat) (cs : list c20case) : list (nat * list nat) :=
  match cs with
  | [] => []
  | c :: rest =>
      match check c with
      | [] => find_bad_from (S i) rest
      | rs => (i, rs) :: find_bad_from (S i) rest
      end
  end.

(* C10: cases and property predicates evaluated on the history observed on the real
   server connection: a base conversation with handlers in flight, a trigger (read
   failure, write failure, Stop) at some position, handlers that honour their context,
   and at the end every handler returned. Reason 1 = model disagreement (Check/ServerC.v). *)
From Coq Require Import List ZArith Bool Lia.
Import ListNotations.
From Goat Require Import Base.Explore Model.Client Model.Server Check.ServerC.
Open Scope Z_scope.

Inductive c10case :=
| C10Run (c : svcase)
| C10Spec (c : svcase)       (* a scenario outside the model (request deadlines): judged by the property predicates only *)
| C10Dead (wedged : bool).   (* the server process died (false) or never became quiescent again (true) in this scenario *)

Definition invoked_of (l : list sev) : list Z :=
  filter_map (fun e => match e with SvInvoke h _ _ _ _ _ => Some (Z.of_nat h) | _ => None end) l.
Definition returned_of (l : list sev) : list Z :=
  filter_map (fun e => match e with SvRet h => Some (Z.of_nat h) | _ => None end) l.
Definition has_serve_ret (l : list sev) : bool := existsb (fun e => match e with SvServeRet _ => true | _ => false end) l.
Definition memZ (x : Z) (l : list Z) : bool := existsb (Z.eqb x) l.

(* walk the observations; [inv], [ret] = handlers invoked / returned so far *)
Fixpoint walk (observed : list obs) (inv ret : list Z) : list nat :=
  match observed with
  | [] => []
  | o :: rest =>
      if unobserved o then walk rest inv ret else
      let inv' := inv ++ invoked_of (o_events o) in
      let ret' := ret ++ returned_of (o_events o) in
      (* 3: at the return of Serve no stream handler goroutine is left *)
      (if has_serve_ret (o_events o) && negb (o_hs o =? 0) then [3%nat] else [])
      (* 4: once Serve has returned the context of every handler still running is done *)
      ++ (if o_serve o && negb (forallb (fun h => memZ h ret' || memZ h (o_ctx o)) inv') then [4%nat] else [])
      (* 5: whenever Serve has returned and every handler started so far has returned, nothing of the connection is alive *)
      ++ (if o_serve o && forallb (fun h => memZ h ret') inv'
             && negb ((o_writer o =? 0) && (o_workers o =? 0) && (o_hs o =? 0)) then [5%nat] else [])
      (* 3: no handler is started once Serve has returned (for an envelope read before the return or after) *)
      ++ (if o_serve o && negb (has_serve_ret (o_events o)) && negb (match invoked_of (o_events o) with [] => true | _ => false end)
          then [3%nat] else [])
      (* 3: Serve's return is reported by both the event and the flag *)
      ++ (if has_serve_ret (o_events o) && negb (o_serve o) then [3%nat] else [])
      ++ walk rest inv' ret'
  end.

(* 2, at every observation: once Stop was called - or the transport's read failed and writes are not blocked -, in a
   quiescent point at which every handler started so far has returned, Serve has returned (C10_returns,
   C10_returns_readfail) *)
Fixpoint walk2 (acts : list act) (observed : list obs) (stop failread wb : bool) (inv ret : list Z) : list nat :=
  match acts, observed with
  | a :: acts', o :: obs' =>
      let stop' := stop || match a with AStop => true | _ => false end in
      let fr' := failread || match a with AFailRead => true | _ => false end in
      let wb' := match a with ABlockWrites b => b | _ => wb end in
      if unobserved o then walk2 acts' obs' stop' fr' wb' inv ret else
      let inv' := inv ++ invoked_of (o_events o) in
      let ret' := ret ++ returned_of (o_events o) in
      (if (stop' || (fr' && negb wb')) && forallb (fun h => memZ h ret') inv' && negb (o_serve o) then [2%nat] else [])
      (* 2, the composed form (C10_trigger_returns): after Stop it is enough that no handler whose context is seen done
         is still running - handlers whose context is not done need not have returned *)
      ++ (if stop' && forallb (fun h => memZ h ret' || negb (memZ h (o_ctx o))) inv' && negb (o_serve o) then [2%nat] else [])
      ++ walk2 acts' obs' stop' fr' wb' inv' ret'
  | _, _ => []
  end.

Definition triggered (acts : list act) : bool :=
  existsb (fun a => match a with AFailRead | AStop | ASetWriteFail true => true | _ => false end) acts.

Definition final_checks (c : svcase) : list nat :=
  match c with
  | CSrv acts observed =>
      match last (map Some observed) None with
      | Some o =>
          let evs := flat_map o_events observed in
          let all_ret := forallb (fun h => memZ h (returned_of evs)) (invoked_of evs) in
          (* 2: after the trigger, with every handler returned, Serve has returned *)
          (if triggered acts && all_ret && negb (o_serve o) then [2%nat] else [])
          (* 5: ... and no goroutine of the connection is left *)
          ++ (if triggered acts && all_ret && o_serve o
                 && negb ((o_writer o =? 0) && (o_workers o =? 0) && (o_hs o =? 0)) then [5%nat] else [])
          (* 6: the scenario is complete: it contains a trigger and ends with every handler returned *)
          ++ (if triggered acts && all_ret then [] else [6%nat])
      | None => [6%nat]
      end
  end.

(* the property predicates first: they are cheap and a failure is a failing input by itself; the comparison with
   the model (which may need the all-orders exploration) only for histories that satisfy them *)
Definition check_case_f (fuel : nat) (c : c10case) : list nat :=
  match c with
  | C10Run sc =>
      match nodup Nat.eq_dec (match sc with CSrv acts observed => walk observed [] [] ++ walk2 acts observed false false false [] [] end
                              ++ final_checks sc) with
      | [] => check_agree_f fuel sc
      | rs => rs
      end
  | C10Spec sc => nodup Nat.eq_dec (match sc with CSrv acts observed => walk observed [] [] ++ walk2 acts observed false false false [] [] end
                                    ++ final_checks sc)
  | C10Dead wedged => if wedged then [8%nat] else [7%nat]
  end.

Fixpoint find_bad_fuel (fuel i : nat) (cs : list c10case) : list (nat * list nat) :=
  match cs with
  | [] => []
  | c :: rest =>
      match check_case_f fuel c with
      | [] => find_bad_fuel fuel (S i) rest
      | rs => (i, rs) :: find_bad_fuel fuel (S i) rest
      end
  end.
Definition find_bad_from := find_bad_fuel explore_fuel.

(* Executable correspondence / specification checks for C03. Messages, error
   texts, detail values and bodies are tokens (Z) handed out by the rig's
   registry (equal strings / Any values <-> equal tokens). *)
From Coq Require Import List ZArith Bool Lia.
Import ListNotations.
From Goat Require Import Model.Status.
Open Scope Z_scope.

Definition st3 := (Z * Z * list Z)%type.           (* code, message token, detail tokens *)

(* the Go error values the rig's handlers return; [text] is the token of Error() *)
Inductive hkind :=
| KStatus (c m : Z) (d : list Z) (text : Z)       (* status.FromProto({c,m,d}).Err(), c <> 0 *)
| KWrapped (c m : Z) (d : list Z) (text : Z)      (* fmt.Errorf("..: %w", the above) *)
| KOkStatus (m : Z) (d : list Z) (text : Z)       (* error value whose GRPCStatus() has code OK *)
| KPlain (text : Z)                               (* errors.New *)
| KCanceled (text : Z)                            (* context.Canceled, bare or wrapped *)
| KDeadline (text : Z)                            (* context.DeadlineExceeded, bare or wrapped *)
| KEof (text : Z).                                (* io.EOF *)

(* grpc v1.66 status.FromError / status.FromContextError on these values: the
   concrete instance of the model's arguments; validated by CConv cases *)
Definition text_of (k : hkind) : Z :=
  match k with
  | KStatus _ _ _ t | KWrapped _ _ _ t | KOkStatus _ _ t | KPlain t | KCanceled t | KDeadline t | KEof t => t
  end.

Definition g_from_error (k : hkind) : status Z Z * bool :=
  match k with
  | KStatus c m d _ => (mkSt c m d, true)
  | KWrapped c _ d t => (mkSt c t d, true)         (* the message becomes the whole error text *)
  | KOkStatus m d _ => (mkSt 0 m d, true)
  | KPlain t | KCanceled t | KDeadline t | KEof t => (mkSt cUnknown t [], false)
  end.

Definition g_from_ctx (k : hkind) : status Z Z :=
  match k with
  | KCanceled t => mkSt cCanceled t []
  | KDeadline t => mkSt cDeadlineExceeded t []
  | _ => mkSt cUnknown (text_of k) []
  end.

Definition st_obs (s : status Z Z) : st3 := (st_code s, st_msg s, st_det s).
Definition ws_obs (s : wstatus Z Z) : st3 := (ws_code s, ws_msg s, ws_det s).

(* final-envelope fields as observed on the wire: status (int32 code), body, trailer?, reset? *)
Definition oenv := (option st3 * option Z * bool * bool)%type.

Definition env_obs (v : fenv Z Z Z) : oenv :=
  (option_map ws_obs (e_status v), e_body v, e_trailer v, e_reset v).
Definition env_of (o : oenv) : fenv Z Z Z :=
  let '(s, b, t, r) := o in
  mkEnv (option_map (fun x : st3 => let '(c, m, d) := x in mkWs c m d) s) b t r.

(* what the caller of Invoke observes *)
Inductive uobs :=
| OOk (b : Z)            (* nil error, reply = body b *)
| OStatus (st : st3)     (* a status error *)
| OMalformed             (* the plain error "malformed response: no body or status" *)
| OBadBody.              (* the codec's unmarshal error *)

(* what the caller of a stream observes: bodies received, then the terminal
   error of RecvMsg: None = none yet, Some None = io.EOF, Some (Some st) = status error *)
Definition sobs := (list Z * option (option st3))%type.

Fixpoint zlist_eqb (a b : list Z) : bool :=
  match a, b with
  | [], [] => true
  | x :: a', y :: b' => Z.eqb x y && zlist_eqb a' b'
  | _, _ => false
  end.
Definition st3_eqb (a b : st3) : bool :=
  let '(c, m, d) := a in let '(c', m', d') := b in Z.eqb c c' && Z.eqb m m' && zlist_eqb d d'.
Definition opt_eqb {X} (eqb : X -> X -> bool) (a b : option X) : bool :=
  match a, b with
  | None, None => true
  | Some x, Some y => eqb x y
  | _, _ => false
  end.
Definition oenv_eqb (a b : oenv) : bool :=
  let '(s, bo, t, r) := a in let '(s', bo', t', r') := b in
  opt_eqb st3_eqb s s' && opt_eqb Z.eqb bo bo' && Bool.eqb t t' && Bool.eqb r r'.
Definition uobs_eqb (a b : uobs) : bool :=
  match a, b with
  | OOk x, OOk y => Z.eqb x y
  | OStatus x, OStatus y => st3_eqb x y
  | OMalformed, OMalformed => true
  | OBadBody, OBadBody => true
  | _, _ => false
  end.
Definition sobs_eqb (a b : sobs) : bool :=
  zlist_eqb (fst a) (fst b) && opt_eqb (opt_eqb st3_eqb) (snd a) (snd b).

Definition uout_obs (o : uoutcome Z Z Z) : uobs :=
  match o with
  | UOk b => OOk b
  | UErr st => OStatus (st_obs st)
  | UMalformed => OMalformed
  | UBadBody => OBadBody
  end.
Definition sout_obs (o : soutcome Z Z) : option st3 :=
  match o with SEof => None | SErr st => Some (st_obs st) end.

(* tokens of the two fixed messages; the rig registers them first *)
Definition tok_ok : Z := 1.        (* "OK" *)
Definition tok_reset : Z := 2.     (* "stream reset by peer" *)

(* bodies with token < 0 are undecodable garbage *)
Definition decodes (b : Z) : bool := 0 <=? b.

Definition msg_env_c (b : Z) : fenv Z Z Z := mkEnv None (Some b) false false.
Fixpoint list_eqb_env (a b : list oenv) : bool :=
  match a, b with
  | [], [] => true
  | x :: a', y :: b' => oenv_eqb x y && list_eqb_env a' b'
  | _, _ => false
  end.

Definition m_unary (k : option hkind) (reply : option Z) : fenv Z Z Z :=
  unary_final g_from_error g_from_ctx k reply.
Definition m_trailer (k : option hkind) : fenv Z Z Z :=
  @stream_final Z Z Z hkind g_from_error tok_ok k.

(* ---- the specification, on observations alone ---- *)
(* expected terminal observation of the caller for handler result k *)
Definition spec_status (stream : bool) (k : hkind) : st3 :=
  st_obs (if stream then spec_stream g_from_error k else spec_unary g_from_error g_from_ctx k).

(* never success when the handler failed; success when it did not *)
Definition spec_unary_obs (k : option hkind) (reply : option Z) (o : uobs) : bool :=
  match k with
  | None => match reply with
            | Some b => uobs_eqb o (if decodes b then OOk b else OBadBody)
            | None => uobs_eqb o OMalformed
            end
  | Some k => uobs_eqb o (OStatus (spec_status false k))
  end.

Definition is_prefix (a b : list Z) : bool := zlist_eqb a (firstn (length a) b).

Definition spec_stream_obs (k : option hkind) (sent : list Z) (o : sobs) : bool :=
  match k with
  | None => sobs_eqb o (sent, Some None)
  | Some k => sobs_eqb o (sent, Some (Some (spec_status true k)))
  end.

(* the no-false-success predicate on a foreign final envelope and the caller's observation *)
Definition nfs_unary (v : oenv) (o : uobs) : bool :=
  let '(s, b, _, _) := v in
  match o with
  | OOk x => opt_eqb Z.eqb b (Some x) && match s with None => true | Some (c, _, _) => c =? 0 end
  | _ => true
  end.

Fixpoint nfs_stream (vs : list oenv) (term : option (option st3)) : bool :=
  match term with
  | Some None =>
      (* reported io.EOF: the first envelope with a reset or a trailer must be a clean trailer *)
      match vs with
      | [] => false
      | (s, _, t, r) :: rest =>
          if r then false
          else if t then match s with None => true | Some (c, _, _) => c =? 0 end
          else nfs_stream rest term
      end
  | _ => true
  end.

Inductive c03case :=
(* grpc's conversions on the real library vs the instance used by the model *)
| CConv (k : hkind) (obs_from : st3) (obs_ok : bool) (obs_ctx : st3)
(* unary pipeline: handler result k (+ reply), the reply envelope the real
   processUnaryRpc built, what the real Invoke made of that envelope *)
| CPipeU (k : option hkind) (reply : option Z) (obs_env : oenv) (obs : uobs)
(* stream pipeline: the real server stream object sends msgs and the trailer for
   k; the envelopes it wrote; what the real client stream made of them *)
| CPipeS (k : option hkind) (msgs : list Z) (obs_envs : list oenv) (obs : sobs)
(* real client against a scripted peer: foreign final envelopes *)
| CCliUnary (v : oenv) (obs : uobs)
| CCliStream (vs : list oenv) (obs : sobs)
(* end to end, lock-step: real client - link - real server; rpc kind (0 unary,
   1 client stream, 2 server stream, 3 bidi), handler result k returned after
   the handler sent [sent]; caller's observation *)
| CE2EU (k : option hkind) (reply : option Z) (obs : uobs)
| CE2ES (rk : Z) (k : option hkind) (sent : list Z) (obs : sobs)
(* end to end, the caller gives up (cancel / own deadline) while messages the
   handler sent are still unread and the handler has returned k: the caller must
   then observe an error - its own cancellation (Canceled / DeadlineExceeded) or
   the handler's status - never a success, and no invented message *)
| CE2EAbort (rk : Z) (k : option hkind) (sent : list Z) (obs : sobs)
(* the model regenerated from the Go source by tools/go2coq and the committed
   equivalence proof coq/Gen/<Name>Equiv.v, re-checked on this run: status 0 =
   proved equal to the hand-written model, 1 = proof broken, 2 = untranslatable *)
| CGen (name : Z) (status : Z).

Definition check (c : c03case) : list nat :=
  match c with
  | CGen _ status => if Z.eqb status 0 then [] else [1%nat]
  | CConv k obs_from obs_ok obs_ctx =>
      (if st3_eqb (st_obs (fst (g_from_error k))) obs_from && Bool.eqb (snd (g_from_error k)) obs_ok
          && st3_eqb (st_obs (g_from_ctx k)) obs_ctx then [] else [4%nat]) ++
      (* the premises of the theorems: uint32 codes; FromContextError of a non-status error is
         non-OK and carries the error text *)
      (let '(c, _, _) := obs_from in let '(c', m', d') := obs_ctx in
       if (0 <=? c) && (c <? two32) && (0 <=? c') && (c' <? two32) &&
          (obs_ok || (negb (c' =? 0) && (m' =? text_of k) && zlist_eqb d' [])) then [] else [4%nat])
  | CPipeU k reply obs_env obs =>
      (if oenv_eqb (env_obs (m_unary k reply)) obs_env then [] else [1%nat]) ++
      (if uobs_eqb (uout_obs (client_unary decodes (env_of obs_env))) obs then [] else [1%nat]) ++
      (if spec_unary_obs k reply obs then [] else [2%nat])
  | CPipeS k msgs obs_envs obs =>
      let m_envs := map (fun b => msg_env_c b) msgs ++ [m_trailer k] in
      (if list_eqb_env (map env_obs m_envs) obs_envs then [] else [1%nat]) ++
      (let '(bs, o) := client_stream_run tok_reset (map env_of obs_envs) in
       if sobs_eqb (bs, option_map sout_obs o) obs then [] else [1%nat]) ++
      (if spec_stream_obs k msgs obs then [] else [2%nat])
  | CCliUnary v obs =>
      (if uobs_eqb (uout_obs (client_unary decodes (env_of v))) obs then [] else [1%nat]) ++
      (if nfs_unary v obs then [] else [3%nat])
  | CCliStream vs obs =>
      (let '(bs, o) := client_stream_run tok_reset (map env_of vs) in
       if sobs_eqb (bs, option_map sout_obs o) obs then [] else [1%nat]) ++
      (if nfs_stream vs (snd obs) then [] else [3%nat])
  | CE2EU k reply obs =>
      (if uobs_eqb (uout_obs (client_unary decodes (m_unary k reply))) obs then [] else [1%nat]) ++
      (if spec_unary_obs k reply obs then [] else [2%nat])
  | CE2EAbort rk k sent obs =>
      (if is_prefix (fst obs) sent then [] else [2%nat]) ++
      (match snd obs with
       | Some (Some (c, m, d)) =>
           (* rk >= 10: the caller's deadline passed (DeadlineExceeded); else it cancelled (Canceled) *)
           if (c =? (if rk >=? 10 then cDeadlineExceeded else cCanceled))
              || match k with Some k' => st3_eqb (c, m, d) (spec_status true k') | None => false end
           then [] else [2%nat]
       | _ => [2%nat]      (* io.EOF, or still "succeeding" *)
       end)
  | CE2ES rk k sent obs =>
      (let '(bs, o) := client_stream_run tok_reset (map (fun b => msg_env_c b) sent ++ [m_trailer k]) in
       if sobs_eqb (bs, option_map sout_obs o) obs then [] else [1%nat]) ++
      (if spec_stream_obs k sent obs then [] else [2%nat])
  end.

Fixpoint find_bad_from (i : nat) (cs : list c03case) : list (nat * list nat) :=
  match cs with
  | [] => []
  | c :: rest =>
      match check c with
      | [] => find_bad_from (S i) rest
      | rs => (i, rs) :: find_bad_from (S i) rest
      end
  end.

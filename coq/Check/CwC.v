(* Shared check file of work package cw (C06, C07, C11): the case type of the
   end-to-end lock-step rig (harness/cw_e2e.go), the lock-step agreement of the
   client half of every run with Model/Client.v, and the property predicates
   evaluated on the real history. *)
From Coq Require Import List ZArith Bool Lia.
Import ListNotations.
From Goat Require Import Base.Explore Model.Client Check.ClientC Model.Protocol.
Open Scope Z_scope.

(* ---------- what the rig records ---------- *)
Inductive herr := HNil | HEof | HCanceled | HDeadline | HHdrSent | HStatus (c : Z) | HOther.
Inductive hres := HMsg (b : Z) | HErr (e : herr).
Inductive hev :=
| HStarted (c : Z) | HRecv (c : Z) (r : hres) | HSend (c : Z) (e : herr) | HSendHeader (c : Z) (e : herr)
| HSetHeader (c : Z) (e : herr) | HSetTrailer (c : Z) | HAwaited (c : Z) | HReturn (c : Z).
Inductive hopk := HoRecv | HoSend (b : Z) | HoSendHeader | HoSetHeader | HoSetTrailer | HoAwait | HoReturn (code : Z).
Inductive skind := KUser | KH (c : Z) (op : hopk) | KC2S | KS2C | KTick (d : Z) | KPeer | KCli | KHU | KSrvFail | KSBlock.

Record sobs := mkSO {
  so_hev : list hev;            (* handler events of this step *)
  so_hctx : list (Z * bool);    (* (call, context done) for every handler that has started and not returned *)
  so_sreg : Z;                  (* server stream registry size; -1 = the registry lock is held; -2 = no server *)
  so_wc : Z; so_ws : Z;         (* envelopes written so far by the client / by the server *)
  so_dc : Z; so_ds : Z;         (* envelopes handed so far to the server's / the client's transport *)
  so_srvg : Z;                  (* live goroutines of the server side *)
  so_serve : bool;              (* Serve has returned *)
  so_hbusy : list Z;            (* calls whose handler is parked inside an operation (RecvMsg, SendMsg, ...) *)
  so_urun : Z }.                (* unary handler invocations that have not returned *)

Record step := mkStep { st_kind : skind; st_acts : list act; st_co : obs; st_so : sobs }.

(* MFree: end to end, the client half NOT compared with Model/Client.v (a cancellation landing inside NewStream's
   transport Write is not a state of the model: its open is atomic between quiescent points); predicates only *)
Inductive mode := ME2E | MClient | MServer | MFree.

Inductive cwcase :=
| CwRun (m : mode) (steps : list step) (c2s s2c : list penv) (ids : list Z)
| CwWedged (m : mode) (steps : list step) (c2s s2c : list penv) (ids : list Z).

(* ---------- agreement of the client half with Model/Client.v ---------- *)
Definition react_all_l (s : state) (acts : list act) : option (list state) :=
  let s1 := fold_left ext acts s in
  explore state_eqb (int_succs (length (log s))) 20000 [s1] [s1] [].

Fixpoint agree_steps (i : nat) (cands : list state) (steps : list step) : option nat :=
  match steps with
  | [] => None
  | st :: rest =>
      let nexts := flat_map (fun s => match react_all_l s (st_acts st) with
                                      | Some qs => filter (fun s' => obs_eqb (predict s s') (st_co st)) qs
                                      | None => []
                                      end) cands in
      match dedup state_eqb nexts with
      | [] => Some i
      | ns => agree_steps (S i) ns rest
      end
  end.

Definition cw_agrees (c : cwcase) : option nat :=
  match c with
  | CwRun MServer _ _ _ _ | CwRun MFree _ _ _ _ => None
  | CwRun _ steps _ _ _ => agree_steps 0 [init] steps
  | CwWedged MServer _ _ _ _ | CwWedged MFree _ _ _ _ => None
  | CwWedged _ steps _ _ _ => agree_steps 0 [init] steps
  end.

Definition check_agree (c : cwcase) : list nat :=
  match cw_agrees c with
  | None => []
  | Some _ => [1%nat]
  end.

(* ---------- helpers over the recorded run ---------- *)
Definition zlen {A} (l : list A) : Z := Z.of_nat (length l).
Definition zfirstn {A} (n : Z) (l : list A) : list A := firstn (Z.to_nat n) l.
Definition zskipn {A} (n : Z) (l : list A) : list A := skipn (Z.to_nat n) l.
Definition id_of (ids : list Z) (c : Z) : Z := if c <? 0 then -1 else nth (Z.to_nat c) ids (-1).

Definition is_cancel_of (c : nat) (a : act) : option bool :=     (* Some deadline? *)
  match a with
  | ACancel d => if Nat.eqb c d then Some false else None
  | AExpire d => if Nat.eqb c d then Some true else None
  | _ => None
  end.

Fixpoint first_some {A B} (f : A -> option B) (l : list A) : option B :=
  match l with [] => None | x :: t => match f x with Some y => Some y | None => first_some f t end end.

(* (steps before, the step, steps after, deadline?) of the first cancellation of call c *)
Fixpoint split_cancel (c : nat) (before : list step) (l : list step) : option (list step * step * list step * bool) :=
  match l with
  | [] => None
  | st :: rest =>
      match first_some (is_cancel_of c) (st_acts st) with
      | Some dl => Some (rev before, st, rest, dl)
      | None => split_cancel c (st :: before) rest
      end
  end.

Definition events_of (l : list step) : list cev := flat_map (fun st => o_events (st_co st)) l.
Definition acts_of (l : list step) : list act := flat_map st_acts l.

Definition ncalls_of (l : list act) : nat :=
  length (filter (fun a => match a with ANewUnary _ _ | ANewStream _ => true | _ => false end) l).

Definition opened (c : nat) (evs : list cev) : bool :=
  existsb (fun e => match e with EvOpenRet d None => Nat.eqb c d | _ => false end) evs.

Definition faulty (l : list step) : bool :=
  existsb (fun a => match a with AFailRead | ASetWriteFail _ => true | _ => false end) (acts_of l)
  || existsb (fun st => match st_kind st with KSrvFail => true | _ => false end) l.

(* faults that end the conversation: the client's Read fails, the server's transport fails *)
Definition hard_faulty (l : list step) : bool :=
  existsb (fun a => match a with AFailRead => true | _ => false end) (acts_of l)
  || existsb (fun st => match st_kind st with KSrvFail => true | _ => false end) l.

(* a write fault hits a user operation that writes: a call was started, a message sent or a stream half-closed while
   the client's Write was failing. (A write fault that covers only a teardown - the reset of a cancelled stream - hits
   no user operation: the connection stays healthy and every property is judged.) *)
Fixpoint wfault_hits (on : bool) (l : list act) : bool :=
  match l with
  | [] => false
  | ASetWriteFail b :: t => wfault_hits b t
  | ANewUnary _ _ :: t | ANewStream _ :: t | ASend _ _ :: t | ACloseSend _ :: t => on || wfault_hits on t
  | _ :: t => wfault_hits on t
  end.

(* a terminal envelope (trailer or reset) of the stream was handed to the client's transport *)
Definition terminal_delivered (i : Z) (l : list step) : bool :=
  existsb (fun a => match a with
                    | ADeliver e => (eid e =? i) && (has (etrl e) || erst e)
                    | _ => false
                    end) (acts_of l).

Definition bad_md_delivered (i : Z) (l : list step) : bool :=
  existsb (fun a => match a with
                    | ADeliver e => (eid e =? i) && match ehdr e with Some MdBad => true | _ => false end
                    | _ => false
                    end) (acts_of l).

Definition ctx_class (dl : bool) (e : cerr) : bool :=
  match e, dl with
  | ECanceled, false | ERawCanceled, false => true
  | EDeadline, true | ERawDeadline, true => true
  | _, _ => false
  end.
Definition ctx_status_class (dl : bool) (e : cerr) : bool :=
  match e, dl with ECanceled, false | EDeadline, true => true | _, _ => false end.
Definition terminal_class (e : cerr) : bool :=
  match e with EEof | EStatus _ | EReset | EUnmarshal => true | _ => false end.

Definition count_rst (i : Z) (l : list penv) : Z := zlen (filter (fun e => (p_id e =? i) && p_rst e) l).

Definition pending_on (c : nat) (o : obs) : bool :=
  existsb (fun p => (fst p =? Z.of_nat c) && ((snd p =? 1) || (snd p =? 2) || (snd p =? 3) || (snd p =? 4))) (o_pending o).

Definition hctx_live (c : Z) (so : sobs) : bool :=
  existsb (fun p => (fst p =? c) && negb (snd p)) (so_hctx so).

(* ---------- C07: the predicates of the property on the observed history ---------- *)
(* reasons: 2 = a receive / send after the cancellation did not return the context's status / error;
            3 = an operation of the cancelled stream is still blocked at a quiescent point;
            4 = the reset rule is broken (missing, duplicated, for another id, after a received trailer);
            5 = the handler's context is live at a quiescent point after the reset reached the server,
                or a handler is left with a live context at the end although its caller has gone *)
Definition c07_call (c : nat) (steps : list step) (c2s : list penv) (ids : list Z) : list nat :=
  match split_cancel c [] steps with
  | None => []
  | Some (before, st, after, dl) =>
      let i := id_of ids (Z.of_nat c) in
      if negb (opened c (events_of before)) || hard_faulty steps || wfault_hits false (acts_of steps) then []
      else
        let term := terminal_delivered i before in
        (* the caller had already seen the end of the stream: the call had completed *)
        let seen_end := existsb (fun e => match e with EvRecvRet d (RErr x) => Nat.eqb c d && terminal_class x | _ => false end)
                                (events_of before) in
        let ok_recv_at (e : cev) := match e with
                                    | EvRecvRet d r =>
                                        if Nat.eqb c d then
                                          match r with
                                          | RMsg _ => true     (* taken from the wire before the cancellation *)
                                          | RErr x => ctx_status_class dl x || (term && terminal_class x)
                                          end
                                        else true
                                    | _ => true
                                    end in
        let ok_after (e : cev) := match e with
                                  | EvRecvRet d r =>
                                      if Nat.eqb c d then
                                        match r with
                                        | RMsg _ => false
                                        | RErr x => ctx_status_class dl x || (term && terminal_class x)
                                        end
                                      else true
                                  | EvSendRet d r =>
                                      if Nat.eqb c d then
                                        match r with
                                        | None => false
                                        | Some x => ctx_class dl x || (term && terminal_class x)
                                        end
                                      else true
                                  | EvCloseSendRet d r =>
                                      (* a stream that had ended before the cancellation has had its own context cancelled by its teardown *)
                                      if Nat.eqb c d then match r with None => false | Some x => ctx_class dl x || (term && ctx_class false x) end else true
                                  | _ => true
                                  end in
        (* a SendMsg / CloseSend that returns in the step of the cancellation (parked in the transport when it landed, or
           issued right after it): nil (it had gone through) or the context's error - never EOF / another error unless the
           stream's terminal envelope had been delivered before *)
        let ok_send_at (e : cev) := match e with
                                    | EvSendRet d (Some x) | EvCloseSendRet d (Some x) =>
                                        if Nat.eqb c d then ctx_class dl x || (term && (terminal_class x || ctx_class false x)) else true
                                    | _ => true
                                    end in
        let r2 := forallb ok_recv_at (o_events (st_co st)) && forallb ok_send_at (o_events (st_co st)) && forallb ok_after (events_of after) in
        let r3 := forallb (fun s => negb (pending_on c (st_co s))) (st :: after) in
        (* resets *)
        let wc_at := so_wc (st_so st) in
        let n_at := count_rst i (zfirstn wc_at c2s) in
        let n_end := count_rst i c2s in
        let r4 := (if seen_end then n_end =? 0 else if term then n_end <=? 1 else (n_at =? 1) && (n_end =? 1)) in
        (* the handler *)
        let rst_pos := (* 1 + index of the reset of i in c2s, 0 if none *)
            (fix pos (l : list penv) (k : Z) : Z :=
               match l with [] => 0 | e :: t => if (p_id e =? i) && p_rst e then k + 1 else pos t (k + 1) end) c2s 0 in
        let r5a := forallb (fun s => if (0 <? rst_pos) && (rst_pos <=? so_dc (st_so s)) then negb (hctx_live (Z.of_nat c) (st_so s)) else true)
                           (st :: after) in
        let last := last (st :: after) st in
        let r5b := if so_dc (st_so last) =? so_wc (st_so last) then negb (hctx_live (Z.of_nat c) (st_so last)) else true in
        (* "handler reads / writes unblock on its context": at no quiescent point after the reset reached the server is the
           handler parked inside an operation; and at the end, with everything delivered, the handler has returned *)
        let r5c := forallb (fun s => if (0 <? rst_pos) && (rst_pos <=? so_dc (st_so s))
                                     then negb (existsb (Z.eqb (Z.of_nat c)) (so_hbusy (st_so s))) else true) (st :: after) in
        let r5d := if (0 <? rst_pos) && (so_dc (st_so last) =? so_wc (st_so last))
                   then negb (existsb (fun p => fst p =? Z.of_nat c) (so_hctx (st_so last))) else true in
        (* a write fault (it covers the teardown only, see wfault_hits): the reset may be lost and with it the handler's
           cancellation; the caller's side is judged *)
        if faulty steps then (if r2 then [] else [2%nat]) ++ (if r3 then [] else [3%nat])
        else
        (if r2 then [] else [2%nat]) ++ (if r3 then [] else [3%nat]) ++ (if r4 then [] else [4%nat]) ++
        (* 7 is reported only where 5 is not: a handler whose context is live is parked as a consequence *)
        (if r5a && r5b then (if r5c && r5d then [] else [7%nat]) else [5%nat])
  end.

(* a cancellation that lands WHILE the stream is being opened (the step that starts call c also cancels it: the
   caller's context ends inside NewStream's transport Write, right after the transport accepted the opener, or while
   that Write is held up). Either the opener never reaches the wire, or exactly one reset follows it and the handler's
   context is done once everything is delivered; NewStream returns nil or the context's error; no operation hangs. *)
Definition c07_open_cancel (c : nat) (steps : list step) (c2s : list penv) (ids : list Z) : list nat :=
  match split_cancel c [] steps with
  | None => []
  | Some (before, st, after, dl) =>
      if negb (Nat.eqb (ncalls_of (acts_of before)) c) || hard_faulty steps || faulty steps then []
      else
        let i := id_of ids (Z.of_nat c) in
        let on_wire := existsb (fun e => p_id e =? i) c2s in
        let lst := last (st :: after) st in
        let ok_ev (e : cev) := match e with
                               | EvOpenRet d (Some x) => if Nat.eqb c d then ctx_class dl x else true
                               | EvRecvRet d r => if Nat.eqb c d then match r with RMsg _ => false | RErr x => ctx_status_class dl x end else true
                               | EvSendRet d r => if Nat.eqb c d then match r with None => false | Some x => ctx_class dl x end else true
                               | _ => true
                               end in
        let r2 := forallb ok_ev (events_of (st :: after)) in
        let r3 := forallb (fun s => negb (pending_on c (st_co s))) after
                  && negb (existsb (fun p => (fst p =? Z.of_nat c) && (snd p =? 0)) (o_pending (st_co lst))) in
        let r4 := if on_wire then count_rst i c2s =? 1 else true in
        let r5 := if so_dc (st_so lst) =? so_wc (st_so lst) then negb (hctx_live (Z.of_nat c) (st_so lst)) else true in
        (if r2 then [] else [2%nat]) ++ (if r3 then [] else [3%nat]) ++ (if r4 then [] else [4%nat]) ++ (if r5 then [] else [5%nat])
  end.

(* every reset the client wrote belongs to a call that had been cancelled (or whose first response was
   undecodable) by the step in which it was written *)
Fixpoint resets_owned (prev : Z) (done : list step) (todo : list step) (c2s : list penv) (ids : list Z) : bool :=
  match todo with
  | [] => true
  | st :: rest =>
      let done' := done ++ [st] in
      let wc := so_wc (st_so st) in
      let fresh := zfirstn (wc - prev) (zskipn prev c2s) in
      forallb (fun e => if p_rst e then
                          existsb (fun a => match a with
                                            | ACancel d | AExpire d => id_of ids (Z.of_nat d) =? p_id e
                                            | ADeliver x => (eid x =? p_id e) && match ehdr x with Some MdBad => true | _ => false end
                                            | _ => false
                                            end) (acts_of done')
                        else true) fresh
      && resets_owned wc done' rest c2s ids
  end.

Definition ncalls (steps : list step) : nat :=
  length (filter (fun a => match a with ANewUnary _ _ | ANewStream _ => true | _ => false end) (acts_of steps)).

Definition dedupn (l : list nat) : list nat := nodup Nat.eq_dec l.

Definition spec_c07 (c : cwcase) : list nat :=
  match c with
  | CwRun MServer _ _ _ _ => []
  | CwRun _ steps c2s s2c ids =>
      dedupn (flat_map (fun c => c07_call c steps c2s ids ++ c07_open_cancel c steps c2s ids) (seq 0 (ncalls steps))
              ++ (if faulty steps || resets_owned 0 [] steps c2s ids then [] else [4%nat]))
  | CwWedged _ _ _ _ _ => [6%nat]
  end.

(* ---------- C06: the protocol monitor over both wire histories ---------- *)
(* reasons: 2 = a per-id projection of what the client wrote is rejected by proto_c2s;
            3 = a per-id projection of what the server wrote is rejected by proto_s2c;
            4 = a handler returned on a stream that its caller had not reset, on a live connection, and no trailer was written;
            5 = the server wrote an envelope for an id it had not received, or a response does not swap the request's
                source and destination, or a reset that answers no received body *)
Definition provoking (e : penv) : bool := has (p_body e) || (md_of e =? -1).

Fixpoint srv_emits_ok (prev : Z) (todo : list step) (c2s s2c : list penv) : bool :=
  match todo with
  | [] => true
  | st :: rest =>
      let ws := so_ws (st_so st) in
      let seen := zfirstn (so_dc (st_so st)) c2s in
      let fresh := zfirstn (ws - prev) (zskipn prev s2c) in
      forallb (fun e =>
                 match proj (p_id e) seen with
                 | [] => false                                   (* an id the server has not received *)
                 | q :: _ =>
                     match p_hdr q, p_hdr e with
                     | Some hq, Some he => (h_src he =? h_dst hq) && (h_dst he =? h_src hq)
                     | _, _ => false
                     end
                 end) fresh
      && forallb (fun i => count_rst i (zfirstn ws s2c) <=? zlen (filter provoking (proj i seen))) (ids_of fresh [])
      && srv_emits_ok ws rest c2s s2c
  end.

Definition returned_in (so : sobs) : list Z :=
  flat_map (fun e => match e with HReturn c => [c] | _ => [] end) (so_hev so).

(* the trailer is on the wire at the quiescent point that follows the handler's return; in a run with back-pressure
   on the server's Writes or a held return path (steps KSBlock) it is on the wire by the end of the run (the scenarios
   release it), unless the caller's reset was written at any time: the trailer is offered only after the release *)
Definition trailer_ok (steps : list step) (c2s s2c : list penv) (ids : list Z) : bool :=
  let blocked := existsb (fun st => match st_kind st with KSBlock => true | _ => false end) steps in
  forallb (fun st =>
             forallb (fun c =>
                        let i := id_of ids c in
                        let so := st_so st in
                        if so_serve so || (0 <? count_rst i (if blocked then c2s else zfirstn (so_wc so) c2s)) then true
                        else existsb is_trailer (proj i (if blocked then s2c else zfirstn (so_ws so) s2c)))
                     (returned_in (st_so st)))
          steps.

Definition srv_faulty (steps : list step) : bool :=
  existsb (fun st => match st_kind st with KSrvFail => true | _ => false end) steps.

(* presence of the unary response ("exactly one response per unary request"; proto_s2c true [] accepts an absent one): at
   the end of a run in which nothing failed - Serve serving, every envelope handed to the server, no unary method still
   running, the server's read loop not parked under the registry lock (a live handler that is not reading holds it
   legitimately and the request behind is not read) - every id whose ONLY client envelope is a unary-method request
   with a header has exactly one envelope from the server *)
Definition unary_answered (steps : list step) (c2s s2c : list penv) : bool :=
  match rev steps with
  | [] => true
  | lst :: _ =>
      let so := st_so lst in
      if so_serve so || negb (so_dc so =? so_wc so) || negb (so_urun so =? 0) || (so_sreg so =? -1) || hard_faulty steps || faulty steps then true
      else forallb (fun i => match proj i c2s with
                             | [e] => match p_hdr e with
                                      | Some h => if (h_meth h =? 1) && has (p_body e) && negb (p_rst e) && negb (h_md h =? -1)
                                                  then zlen (proj i s2c) =? 1 else true
                                      | None => true
                                      end
                             | _ => true
                             end) (ids_of c2s [])
  end.

Definition spec_c06 (c : cwcase) : list nat :=
  match c with
  | CwRun m steps c2s s2c ids =>
      (match m with MServer => [] | _ => if monitor_c2s c2s then [] else [2%nat] end) ++
      (match m with
       | MClient => []
       | _ => (if monitor_s2c c2s s2c then [] else [3%nat]) ++
              (if srv_faulty steps || trailer_ok steps c2s s2c ids then [] else [4%nat]) ++
              (if srv_emits_ok 0 steps c2s s2c then [] else [5%nat]) ++
              (if unary_answered steps c2s s2c then [] else [7%nat])
       end)
  | CwWedged _ _ _ _ _ => [6%nat]
  end.

(* ---------- C11: nothing stays blocked ---------- *)
(* reasons: 2 = at the final quiescent point, with both wires drained, a call is still blocked or a unary call
                did not get its answer (or its context's error);
            3 = the run wedged: a goroutine waits for a mutex for ever (watchdog);
            4 = a registry lock is held at the final quiescent point *)
Definition unary_payloads (steps : list step) : list (nat * Z) :=
  (fix go (l : list act) (n : nat) : list (nat * Z) :=
     match l with
     | [] => []
     | ANewUnary b _ :: t => (n, b) :: go t (S n)
     | ANewStream _ :: t => go t (S n)
     | _ :: t => go t n
     end) (acts_of steps) 0%nat.

(* a unary call got its answer, or - cancelled / past its deadline - its context's error; but NOT the context's error when
   its reply had been handed to the client's transport before the cancellation / the deadline (the probe with a deadline:
   a read loop held for ever by an abandoned stream must not pass as "DeadlineExceeded") *)
Definition unary_ok (steps : list step) (ids : list Z) (cb : nat * Z) : bool :=
  let (c, b) := cb in
  let rets := filter (fun e => match e with EvUnaryRet d _ => Nat.eqb c d | _ => false end) (events_of steps) in
  let cancelled := first_some (is_cancel_of c) (acts_of steps) in
  let i := id_of ids (Z.of_nat c) in
  let delivered_before := match split_cancel c [] steps with
                          | Some (before, _, _, _) =>
                              existsb (fun a => match a with ADeliver e => eid e =? i | _ => false end) (acts_of before)
                          | None => false
                          end in
  match rets with
  | [EvUnaryRet _ (UOk x)] => x =? b
  | [EvUnaryRet _ (UErr e)] => match cancelled with Some dl => ctx_class dl e && negb delivered_before | None => false end
  | _ => false
  end.

Definition spec_c11 (c : cwcase) : list nat :=
  match c with
  | CwRun m steps c2s s2c ids =>
      match rev steps with
      | [] => []
      | lst :: _ =>
          let so := st_so lst in
          let drained := match m with ME2E => (so_dc so =? so_wc so) && (so_ds so =? so_ws so) | _ => true end in
          if hard_faulty steps || wfault_hits false (acts_of steps) || negb drained then []
          else
            (if (match o_pending (st_co lst) with [] => true | _ => false end)
                && forallb (unary_ok steps ids) (unary_payloads steps) then [] else [2%nat]) ++
            (if (so_sreg so =? -1) || (match o_reg (st_co lst) with None => true | Some _ => false end)
             then [4%nat] else []) ++
            (* nothing failed (no transport fault in the run): Serve is still serving *)
            (match m with ME2E => if so_serve so then [5%nat] else [] | _ => [] end)
      end
  | CwWedged _ _ _ _ _ => [3%nat]
  end.

(* ---------- checkers ---------- *)
Definition judge (spec : cwcase -> list nat) (c : cwcase) : list nat := check_agree c ++ spec c.

Fixpoint find_bad_with (spec : cwcase -> list nat) (i : nat) (cs : list cwcase) : list (nat * list nat) :=
  match cs with
  | [] => []
  | c :: rest =>
      match judge spec c with
      | [] => find_bad_with spec (S i) rest
      | rs => (i, rs) :: find_bad_with spec (S i) rest
      end
  end.

(* Executable correspondence / specification checks for C04. *)
From Goat Require Import Base.Bytes Model.Base64 Model.Meta Model.SrvStream Model.MetaSys.
Open Scope Z_scope.

Inductive c04case :=
(* ToKeyValue(mds...): the argument maps (entries in any order), the order in
   which the joined map's keys were observed to be emitted, the emitted list,
   and what ToMetadata made of that list *)
| CCodec (mds : list mdmap) (order : list bytes) (obs_kvs : list kv) (obs_md : option mdmap)
(* ToMetadata on an arbitrary (possibly malformed) list *)
| CToMd (kvs : list kv) (obs : option mdmap)
(* base64 alone *)
| CB64 (raw : bytes) (obs_enc : bytes) (obs_dec : option bytes)
| CB64Dec (s : bytes) (obs : option bytes)
(* server stream object: program over metadata tokens, observed results and
   observed envelopes as (kind, header tokens, trailer tokens) *)
| CStream (ops : list (sop Z Z Z)) (obs_res : list Z) (obs_envs : list (Z * list Z * list Z))
(* unary collector *)
| CUnary (ops : list (uop Z)) (obs_res : list bool) (obs_h obs_t : list Z)
(* whole RPC, request direction: the metadata the caller attached (keys as given),
   the key order on the wire, the injected timeout value (None = no deadline), the
   request header list seen on the wire, the handler's incoming metadata *)
| CSysReq (sent : mdmap) (order : list bytes) (tmo : option bytes) (wire : list kv) (got : mdmap)
(* whole RPC, response direction (which = 0 headers, 1 trailers): the maps the
   handler's accepted Set/Send calls passed (in call order), the key order on the
   wire, the list carried by the first envelope the caller received (headers) /
   the trailer envelope, whether any later envelope carried header metadata, and
   what the caller got from Header() / Trailer() (unary: stats InHeader / the
   decoded wire list) *)
| CSysResp (which : Z) (accepted : list mdmap) (order : list bytes) (wire : list kv) (later : bool) (got : option mdmap)
(* unary RPC, what the caller's API delivers of the response metadata (which = 0
   headers, 1 trailers): the list on the wire, whether Invoke with grpc.Header /
   grpc.Trailer call options panicked, and the metadata those options received
   (None = nothing was delivered) *)
| CSysUnaryApi (which : Z) (wire : list kv) (panicked : bool) (api : option mdmap)
(* the model regenerated from the Go source by tools/go2coq and the committed
   equivalence proof coq/Gen/<Name>Equiv.v, re-checked by coqc on this run:
   status 0 = proved equal to the hand-written model, 1 = the equivalence proof no
   longer checks (the code says something else now), 2 = the source uses a
   construct outside the translator's subset (tie broken, never skipped) *)
| CGen (name : Z) (status : Z)
(* server stream object with a transport whose writes fail where the program says
   (wok = false): per-call results and the envelopes that REACHED the transport's peer *)
| CStreamW (ops : list (sop Z Z Z * bool)) (obs_res : list Z) (obs_envs : list (Z * list Z * list Z)).

Fixpoint reorder (order : list bytes) (m : mdmap) : mdmap :=
  match order with
  | [] => []
  | k :: rest => match lookup k m with
                 | Some vs => (k, vs) :: reorder rest m
                 | None => reorder rest m
                 end
  end.

Definition kv_eqb (a b : kv) : bool := bytes_eqb (fst a) (fst b) && bytes_eqb (snd a) (snd b).
Fixpoint list_eqb {X} (eqb : X -> X -> bool) (a b : list X) : bool :=
  match a, b with
  | [], [] => true
  | x :: a', y :: b' => eqb x y && list_eqb eqb a' b'
  | _, _ => false
  end.

Definition opt_md_eqb (a b : option mdmap) : bool :=
  match a, b with
  | None, None => true
  | Some x, Some y => md_eqb x y
  | _, _ => false
  end.

Definition opt_bytes_eqb (a b : option bytes) : bool :=
  match a, b with
  | None, None => true
  | Some x, Some y => bytes_eqb x y
  | _, _ => false
  end.

(* property, on the observation alone: every value set under a key arrives
   under the lower-cased key, in order, byte-exact (keys colliding after
   lower-casing: concatenation in emission order), nothing else arrives *)
Definition spec_codec (mds : list mdmap) (order : list bytes) (obs_md : option mdmap) : bool :=
  match obs_md with
  | None => false
  | Some r =>
      let sent := reorder order (join mds) in
      forallb (fun e => vals_eqb (match lookup (lower (fst e)) r with Some v => v | None => [] end)
                                 (flat_map (fun e' => if bytes_eqb (lower (fst e')) (lower (fst e)) then snd e' else []) sent))
              sent
      && forallb (fun e => existsb (fun e' => bytes_eqb (lower (fst e')) (fst e)) sent) r
  end.

Definition res_code (r : sres) : Z :=
  match r with ROk => 0 | RErrHeadersSent => 1 | RErrTrailersSent => 2 | RErrWrite => 3 | RErrMarshal => 4 end.

Definition env_obs (e : wenv Z Z Z) : Z * list Z * list Z :=
  match e with
  | WHeader h => (0, h, [])
  | WMsg h _ => (1, match h with Some l => l | None => [] end, [])
  | WTrailer h t _ => (2, match h with Some l => l | None => [] end, t)
  end.

Definition obs_eqb (a b : Z * list Z * list Z) : bool :=
  Z.eqb (fst (fst a)) (fst (fst b)) && list_eqb Z.eqb (snd (fst a)) (snd (fst b)) && list_eqb Z.eqb (snd a) (snd b).

(* property on the observation alone: header tokens only on the first
   envelope, and they are exactly the accepted ones; trailer tokens = accepted *)
Fixpoint accepted_h_obs (ops : list (sop Z Z Z)) (res : list Z) : list Z :=
  match ops, res with
  | SetHeader md :: o, 0 :: r => md :: accepted_h_obs o r
  | SendHeader md :: o, 0 :: r => md :: accepted_h_obs o r
  | _ :: o, _ :: r => accepted_h_obs o r
  | _, _ => []
  end.

Definition spec_stream (ops : list (sop Z Z Z)) (res : list Z) (envs : list (Z * list Z * list Z)) : bool :=
  match envs with
  | [] => true
  | e :: rest =>
      list_eqb Z.eqb (snd (fst e)) (accepted_h_obs ops res)
      && forallb (fun e' => match snd (fst e') with [] => true | _ => false end) rest
  end.

(* grpc's metadata.FromOutgoingContext lower-cases the keys before ToKeyValue sees them *)
Definition lower_md (m : mdmap) : mdmap := map (fun e => (lower (fst e), snd e)) m.

(* the property on observations alone: same keys (lower-cased), same values in
   per-key order, byte-exact; nothing else - whatever the order of the entries *)
Definition spec_same (sent got : mdmap) : bool :=
  forallb (fun e => match snd e with
                    | [] => true
                    | _ => vals_eqb (match lookup (lower (fst e)) got with Some v => v | None => [] end)
                                    (flat_map (fun e' => if bytes_eqb (lower (fst e')) (lower (fst e)) then snd e' else []) sent)
                    end) sent
  && forallb (fun e => match snd e with
                       | [] => true
                       | _ => existsb (fun e' => bytes_eqb (lower (fst e')) (fst e)) sent
                       end) got.

(* header tokens the object retains, from the observed results alone: SetHeader
   accepted (0), SendHeader accepted (0) or failed in the write (3) *)
Fixpoint retained_obs (ops : list (sop Z Z Z * bool)) (res : list Z) : list Z :=
  match ops, res with
  | (SetHeader md, _) :: o, 0 :: r => md :: retained_obs o r
  | (SendHeader md, _) :: o, 0 :: r => md :: retained_obs o r
  | (SendHeader md, _) :: o, 3 :: r => md :: retained_obs o r
  | _ :: o, _ :: r => retained_obs o r
  | _, _ => []
  end.

(* under write failures: at most one delivered envelope carries header tokens,
   and then all the retained ones; at most one trailer envelope *)
(* the first call that marks the headers sent, from the API results alone, and
   whether its write succeeded: SendHeader accepted (0), SendMsg (always marks),
   SendTrailer not refused (not 2) *)
Fixpoint first_flush (ops : list (sop Z Z Z * bool)) (res : list Z) : option bool :=
  match ops, res with
  | (SendHeader _, _) :: o, 0 :: r => Some true
  | (SendMsg _, wok) :: o, _ :: r => Some wok
  | (SendTrailer _, wok) :: o, c :: r => if c =? 2 then first_flush o r else Some wok
  | _ :: o, _ :: r => first_flush o r
  | _, _ => None
  end.

Definition spec_faults (ops : list (sop Z Z Z * bool)) (res : list Z) (envs : list (Z * list Z * list Z)) : bool :=
  (match filter (fun e => match snd (fst e) with [] => false | _ => true end) envs, first_flush ops res with
   | [], Some true => match retained_obs ops res with [] => true | _ => false end   (* the flush was delivered: so were the headers *)
   | [], _ => true
   | [e], Some true => list_eqb Z.eqb (snd (fst e)) (retained_obs ops res)
   | _, _ => false
   end)
  && Nat.leb (length (filter (fun e => Z.eqb (fst (fst e)) 2) envs)) 1.

Definition check (c : c04case) : list nat :=
  match c with
  | CStreamW ops obs_res obs_envs =>
      (if list_eqb Z.eqb (map res_code (sresultsw sinit ops)) obs_res then [] else [1%nat]) ++
      (if list_eqb obs_eqb (map env_obs (sdelivered sinit ops)) obs_envs then [] else [1%nat]) ++
      (if spec_faults ops obs_res obs_envs then [] else [5%nat])
  | CGen _ status => if Z.eqb status 0 then [] else [1%nat]
  | CCodec mds order obs_kvs obs_md =>
      let m := reorder order (join mds) in
      (if list_eqb kv_eqb (to_kv m) obs_kvs then [] else [1%nat]) ++
      (if opt_md_eqb (to_md obs_kvs) obs_md then [] else [1%nat]) ++
      (if spec_codec mds order obs_md then [] else [2%nat]) ++
      (* the emitted key order must cover every key that has values: a key ToKeyValue drops entirely
         would otherwise vanish from both sides of the comparison *)
      (if Nat.eqb (length m) (length (filter (fun e => match snd e with [] => false | _ => true end) (join mds)))
       then [] else [2%nat])
  | CToMd kvs obs =>
      if opt_md_eqb (to_md kvs) obs then [] else [1%nat]
  | CB64 raw obs_enc obs_dec =>
      (if bytes_eqb (enc raw) obs_enc then [] else [1%nat]) ++
      (if opt_bytes_eqb obs_dec (Some raw) then [] else [2%nat])
  | CB64Dec s obs =>
      if opt_bytes_eqb (dec s) obs then [] else [1%nat]
  | CStream ops obs_res obs_envs =>
      (if list_eqb Z.eqb (map res_code (sresults sinit ops)) obs_res then [] else [1%nat]) ++
      (if list_eqb obs_eqb (map env_obs (swritten sinit ops)) obs_envs then [] else [1%nat]) ++
      (if spec_stream ops obs_res obs_envs then [] else [2%nat])
  | CUnary ops obs_res obs_h obs_t =>
      let '(s, rs) := urun uinit ops in
      (if list_eqb Bool.eqb rs obs_res then [] else [1%nat]) ++
      (if list_eqb Z.eqb (uh s) obs_h && list_eqb Z.eqb (ut s) obs_t then [] else [1%nat]) ++
      (* property: every accepted header / trailer token is delivered, in order *)
      (let acc_h := flat_map (fun p => match fst p, snd p with
                                       | USetHeader md, true => [md] | USendHeader md, true => [md] | _, _ => [] end)
                             (combine ops obs_res) in
       let acc_t := flat_map (fun p => match fst p with USetTrailer md => [md] | _ => [] end) (combine ops obs_res) in
       if list_eqb Z.eqb acc_h obs_h && list_eqb Z.eqb acc_t obs_t then [] else [2%nat])
  | CSysReq sent order tmo wire got =>
      let om := reorder order (lower_md sent) in
      (if list_eqb kv_eqb (request_kvs om tmo) wire then [] else [1%nat]) ++
      (if opt_md_eqb (handler_md (request_kvs om tmo)) (Some got) then [] else [1%nat]) ++
      (if spec_same sent (drop_key injected_lkey got) then [] else [2%nat]) ++
      (* the injected entry: present iff there is a deadline *)
      (match tmo, lookup injected_lkey got with
       | Some v, Some [v'] => if bytes_eqb v v' then [] else [2%nat]
       | None, None => []
       | _, _ => [2%nat]
       end)
  | CSysResp which accepted order wire later got =>
      let j := reorder order (join accepted) in
      (if list_eqb kv_eqb (to_kv j) wire then [] else [1%nat]) ++
      (if opt_md_eqb (to_md wire) got then [] else [1%nat]) ++
      (* judged in the order in which the joined map was emitted: keys that differ only by
         letter case are concatenated in that order *)
      (match got with
       | Some g => if spec_same j g && Nat.eqb (length j) (length (filter (fun e => match snd e with [] => false | _ => true end) (join accepted)))
                   then [] else [2%nat]
       | None => [2%nat]
       end) ++
      (if later then [3%nat] else [])
  | CSysUnaryApi which wire panicked api =>
      (* metadata that is on the wire must reach the caller through the API *)
      match wire with
      | [] => []
      | _ => if panicked then [4%nat]
             else match api, to_md wire with
                  | Some a, Some w => if md_eqb a w then [] else [4%nat]
                  | _, _ => [4%nat]
                  end
      end
  end.

Fixpoint find_bad_from (i : nat) (cs : list c04case) : list (nat * list nat) :=
  match cs with
  | [] => []
  | c :: rest =>
      match check c with
      | [] => find_bad_from (S i) rest
      | rs => (i, rs) :: find_bad_from (S i) rest
      end
  end.

(* Property predicates on the OBSERVED history of a lock-step client scenario
   (actions performed on the real client and what was observed after each),
   independent of the model's state: used by the checks of C05, C09, C13. *)
From Coq Require Import List ZArith Bool Lia.
Import ListNotations.
From Goat Require Import Base.Explore Model.Client Check.ClientC.
Open Scope Z_scope.

Definition c_acts (c : ccase) : list act := match c with CClient a _ => a | CClientWedged a _ _ => a end.
Definition c_obs (c : ccase) : list obs := match c with CClient _ o => o | CClientWedged _ o _ => o end.

Fixpoint lookup (c : nat) (m : list (nat * Z)) : option Z :=
  match m with [] => None | (c', i) :: t => if Nat.eqb c c' then Some i else lookup c t end.

Definition first_write (evs : list cev) : option Z :=
  match flat_map (fun e => match e with EvWrite w => if erst w then [] else [eid w] | _ => [] end) evs with
  | i :: _ => Some i
  | [] => None
  end.

Definition is_nonresponse (e : cerr) : bool :=
  match e with EConn | EClosed | ECanceled | EDeadline | ERawCanceled | ERawDeadline | EWrite => true | _ => false end.

(* the state of the walk *)
Record wst := mkW {
  w_n : nat;                      (* calls issued *)
  w_ids : list (nat * Z);         (* call -> id, learnt from the wire *)
  w_del : list env;               (* envelopes delivered so far, in order *)
  w_parkc : list nat;             (* calls parked after their fail-fast check *)
  w_parkr : list nat;             (* streams with a RecvMsg parked after its done-check *)
  w_dead : bool;                  (* the multiplexer read loop has been seen dead *)
  w_msgs : list (nat * Z);        (* (stream, body) of the successful RecvMsg returns, in order *)
  w_pre : list env;               (* envelopes delivered before the read failure was injected: the transport hands all of
                                     them to the read loop before it reports the failure *)
  w_failed : bool;                (* the read failure has been injected *)
  w_gone : list nat }.            (* calls whose context the environment ended, or whose SendMsg / CloseSend failed *)

Definition memn (x : nat) (l : list nat) : bool := existsb (Nat.eqb x) l.
Definition remn (x : nat) (l : list nat) : list nat := filter (fun y => negb (Nat.eqb x y)) l.

Definition mine (w : wst) (c : nat) : list env :=
  match lookup c (w_ids w) with
  | Some i => filter (fun e => eid e =? i) (w_del w)
  | None => []
  end.

(* bodies a stream can hand to RecvMsg: those of its envelopes before the first final one *)
Fixpoint stream_bodies (es : list env) : list Z :=
  match es with
  | [] => []
  | e :: t => match final_of e with
              | Some _ => []
              | None => match ebody e with Some b => if b <? 0 then stream_bodies t else b :: stream_bodies t | None => stream_bodies t end
              end
  end.

Fixpoint is_prefix (a b : list Z) : bool :=
  match a, b with
  | [], _ => true
  | x :: a', y :: b' => (x =? y) && is_prefix a' b'
  | _ :: _, [] => false
  end.

Definition msgs_of (c : nat) (l : list (nat * Z)) : list Z :=
  flat_map (fun p => if Nat.eqb (fst p) c then [snd p] else []) l.

(* reasons: 2 ids not unique on the wire; 3 a unary result is not what the FIRST envelope with its id says;
   4 a stream's messages are not, in order, the bodies of the envelopes with its id; 5 success without a delivered
   envelope of that id carrying that body; 6 an operation pending after the read loop died although nobody is
   parked; 7 a call started after the read loop died did not fail at once; 8 panic *)
Definition ev_reasons (w : wst) (ev : cev) : list nat :=
  match ev with
  | EvUnaryRet c (UOk b) =>
      (if existsb (fun e => opt_eqb Z.eqb (ebody e) (Some b)) (mine w c) then [] else [5%nat]) ++
      (match mine w c with e :: _ => if ures_eqb (classify e) (UOk b) then [] else [3%nat] | [] => [3%nat] end)
  | EvUnaryRet c (UErr x) =>
      if is_nonresponse x then []
      else match mine w c with e :: _ => if ures_eqb (classify e) (UErr x) then [] else [3%nat] | [] => [3%nat] end
  | EvRecvRet c (RMsg b) =>
      if existsb (fun e => opt_eqb Z.eqb (ebody e) (Some b)) (mine w c) then [] else [5%nat]
  (* reason 13: a clean end of stream (io.EOF) is reported only if an envelope that ENDS the stream with an OK status - a
     trailer, with status OK or none: errorIfDone - was delivered for its id (an envelope with a status but no trailer, a
     message, a header does not end a stream: what follows it must still be delivered) *)
  | EvRecvRet c (RErr EEof) =>
      if existsb (fun e => match final_of e with Some EEof => true | _ => false end) (mine w c) then [] else [13%nat]
  (* ... and an error STATUS of the peer only if an envelope that ends the stream with one (status + trailer) was *)
  | EvRecvRet c (RErr (EStatus _)) =>
      if existsb (fun e => match final_of e with Some (EStatus _) => true | _ => false end) (mine w c) then [] else [13%nat]
  | EvPanic _ => [8%nat]
  | _ => []
  end.

Definition step_w (w : wst) (a : act) (o : obs) : wst * list nat :=
  let n := w_n w in
  let w1 := match a with
            | ANewUnary _ park | ANewStream park =>
                mkW (S n) (match first_write (o_events o) with Some i => (n, i) :: w_ids w | None => w_ids w end)
                    (w_del w) (if park then n :: w_parkc w else w_parkc w) (w_parkr w) (w_dead w) (w_msgs w) (w_pre w) (w_failed w) (w_gone w)
            | ARelease c =>
                mkW n (match lookup c (w_ids w), first_write (o_events o) with None, Some i => (c, i) :: w_ids w | _, _ => w_ids w end)
                    (w_del w) (remn c (w_parkc w)) (w_parkr w) (w_dead w) (w_msgs w) (w_pre w) (w_failed w) (w_gone w)
            | ARecv c true => mkW n (w_ids w) (w_del w) (w_parkc w) (c :: w_parkr w) (w_dead w) (w_msgs w) (w_pre w) (w_failed w) (w_gone w)
            | AReleaseRecv c => mkW n (w_ids w) (w_del w) (w_parkc w) (remn c (w_parkr w)) (w_dead w) (w_msgs w) (w_pre w) (w_failed w) (w_gone w)
            | ADeliver e => mkW n (w_ids w) (w_del w ++ [e]) (w_parkc w) (w_parkr w) (w_dead w) (w_msgs w)
                                (if w_failed w then w_pre w else w_pre w ++ [e]) (w_failed w) (w_gone w)
            | AFailRead => mkW n (w_ids w) (w_del w) (w_parkc w) (w_parkr w) (w_dead w) (w_msgs w) (w_pre w) true (w_gone w)
            | ACancel c | AExpire c => mkW n (w_ids w) (w_del w) (w_parkc w) (w_parkr w) (w_dead w) (w_msgs w) (w_pre w) (w_failed w) (c :: w_gone w)
            | _ => w
            end in
  let was_dead := w_dead w in
  let dead := was_dead || (o_mux o =? 0) in
  let w2 := mkW (w_n w1) (w_ids w1) (w_del w1) (w_parkc w1) (w_parkr w1) dead
                (w_msgs w1 ++ flat_map (fun ev => match ev with EvRecvRet c (RMsg b) => [(c, b)] | _ => [] end) (o_events o))
                (w_pre w1) (w_failed w1)
                (* a failed SendMsg tears the stream down; a failed CloseSend means its context / the connection is gone *)
                (w_gone w1 ++ flat_map (fun ev => match ev with EvSendRet c (Some _) | EvCloseSendRet c (Some _) => [c] | _ => [] end) (o_events o)) in
  (* reason 10 (C09: "... or the exact result, if its complete response had already been delivered"): what was delivered
     before the read failure reaches the call before the failure does: a unary call whose reply was among it, a stream
     that has not yet been handed all of its messages or whose final envelope was among it, must not get the
     connection error *)
  let pre_of (c : nat) := match lookup c (w_ids w2) with
                          | Some i => filter (fun e => eid e =? i) (w_pre w2)
                          | None => [] end in
  let has_final (es : list env) := existsb (fun e => match final_of e with Some _ => true | None => false end) es
                                   || match es with e :: _ => match ehdr e with Some MdBad => true | _ => false end | [] => false end in
  let r_exact := flat_map (fun ev => match ev with
                    | EvUnaryRet c (UErr EConn) | EvUnaryRet c (UErr EClosed) =>
                        if memn c (w_gone w2) then [] else match pre_of c with [] => [] | _ :: _ => [10%nat] end
                    | EvRecvRet c (RErr EConn) | EvRecvRet c (RErr EClosed) =>
                        if memn c (w_gone w2) then []
                        else if has_final (pre_of c) || (Nat.ltb (length (msgs_of c (w_msgs w2))) (length (stream_bodies (pre_of c))))
                             then [10%nat] else []
                    | _ => [] end) (o_events o) in
  let r_ev := flat_map (ev_reasons w2) (o_events o) in
  let r_pend := if dead
                then flat_map (fun p => let c := Z.to_nat (fst p) in
                                        if ((snd p =? 0) && memn c (w_parkc w2)) || ((snd p =? 1) && memn c (w_parkr w2))
                                        then [] else [6%nat]) (o_pending o)
                else [] in
  let r_after := if was_dead
                 then match a with
                      | ANewUnary _ false | ANewStream false =>
                          if existsb (fun ev => match ev with
                                                | EvUnaryRet c (UErr _) => Nat.eqb c n
                                                | EvOpenRet c (Some _) => Nat.eqb c n
                                                | _ => false end) (o_events o)
                             && negb (existsb (fun ev => match ev with EvWrite _ => true | _ => false end) (o_events o))
                          then [] else [7%nat]
                      | _ => []
                      end
                 else [] in
  (w2, r_ev ++ r_pend ++ r_after ++ r_exact).

Fixpoint walk (w : wst) (acts : list act) (observed : list obs) : wst * list nat :=
  match acts, observed with
  | a :: acts', o :: obs' =>
      let (w1, r1) := step_w w a o in
      let (w2, r2) := walk w1 acts' obs' in (w2, r1 ++ r2)
  | _, _ => (w, [])
  end.

Definition w0 : wst := mkW 0 [] [] [] [] false [] [] false [].

Fixpoint nodupZ (l : list Z) : bool :=
  match l with [] => true | x :: t => negb (existsb (Z.eqb x) t) && nodupZ t end.

(* reason 12: the transport's read failure has been injected, the scenario is at a quiescent point, and the multiplexer's
   read loop is still alive although EVERY stream of the scenario is gone (its context was ended by the environment): the
   read loop can only miss the failure while it is parked behind a live stream that does not read
   (C09_unrecorded_only_behind_a_full_queue); with no such stream it is stuck for ever - it never notices the transport
   closing, and every call waiting for a reply waits for ever *)
Fixpoint stuck_walk (acts : list act) (observed : list obs) (n : nat) (streams gone : list nat) (failed : bool) : list nat :=
  match acts, observed with
  | a :: acts', o :: obs' =>
      let n' := match a with ANewUnary _ _ | ANewStream _ => S n | _ => n end in
      let streams' := match a with ANewStream _ => n :: streams | _ => streams end in
      let gone' := match a with ACancel c | AExpire c => c :: gone | _ => gone end in
      let failed' := match a with AFailRead => true | _ => failed end in
      (if failed' && negb (o_mux o =? 0) && forallb (fun c => memn c gone') streams' then [12%nat] else []) ++
      stuck_walk acts' obs' n' streams' gone' failed'
  | _, _ => []
  end.

Definition all_reasons (c : ccase) : list nat :=
  let (w, rs) := walk w0 (c_acts c) (c_obs c) in
  let r_ids := if nodupZ (map snd (w_ids w)) then [] else [2%nat] in
  let r_str := if forallb (fun c => is_prefix (msgs_of c (w_msgs w)) (stream_bodies (mine w c))) (seq 0 (w_n w)) then [] else [4%nat] in
  dedup Nat.eqb (r_ids ++ r_str ++ rs ++ stuck_walk (c_acts c) (c_obs c) 0 [] [] false).

Definition reasons_in (keep : list nat) (c : ccase) : list nat := filter (fun r => memn r keep) (all_reasons c).

(* ---- the predicates can fail: one minimal observed history per reason code ---- *)
Definition ex_req := mkEnv 1 (Some (MdOk 0)) None (Some 7) None false.
Definition ex_reply (b : Z) := mkEnv 1 (Some (MdOk 0)) None (Some b) (Some (MdOk 0)) false.
Definition ex_o (evs : list cev) (pend : list (Z * Z)) (mux : Z) := mkObs evs (Some 0) pend 0 mux.

Example reason_2 : all_reasons (CClient [ANewUnary 7 false; ANewUnary 8 false]
    [ex_o [EvWrite ex_req] [(0, 0)] 1; ex_o [EvWrite ex_req] [(0, 0); (1, 0)] 1]) = [2%nat].
Proof. vm_compute. reflexivity. Qed.
Example reason_3_5 : all_reasons (CClient [ANewUnary 7 false; ADeliver (ex_reply 8)]
    [ex_o [EvWrite ex_req] [(0, 0)] 1; ex_o [EvUnaryRet 0 (UOk 9)] [] 1]) = [5%nat; 3%nat].
Proof. vm_compute. reflexivity. Qed.
Example reason_4 : all_reasons (CClient [ANewStream false; ADeliver (mkEnv 1 (Some (MdOk 0)) None (Some 50) None false);
                                          ADeliver (mkEnv 1 (Some (MdOk 0)) None (Some 51) None false); ARecv 0 false; ARecv 0 false]
    [ex_o [EvWrite (mkEnv 1 (Some (MdOk 0)) None None None false); EvOpenRet 0 None] [] 1; ex_o [] [] 1; ex_o [] [] 1;
     ex_o [EvRecvRet 0 (RMsg 51)] [] 1; ex_o [EvRecvRet 0 (RMsg 50)] [] 1]) = [4%nat].
Proof. vm_compute. reflexivity. Qed.
Example reason_6 : all_reasons (CClient [ANewUnary 7 false; AFailRead]
    [ex_o [EvWrite ex_req] [(0, 0)] 1; ex_o [] [(0, 0)] 0]) = [6%nat].
Proof. vm_compute. reflexivity. Qed.
Example reason_7 : all_reasons (CClient [AFailRead; ANewUnary 7 false]
    [ex_o [] [] 0; ex_o [EvWrite ex_req] [(0, 0)] 0]) = [6%nat; 7%nat].
Proof. vm_compute. reflexivity. Qed.
Example reason_8 : all_reasons (CClient [ANewStream false; ARecv 0 false]
    [ex_o [EvWrite (mkEnv 1 (Some (MdOk 0)) None None None false); EvOpenRet 0 None] [] 1; ex_o [EvPanic 0] [] 1]) = [8%nat].
Proof. vm_compute. reflexivity. Qed.
Example reason_10 : all_reasons (CClient [ANewStream false; ADeliver (mkEnv 1 (Some (MdOk 0)) None (Some 50) None false); AFailRead; ARecv 0 false]
    [ex_o [EvWrite (mkEnv 1 (Some (MdOk 0)) None None None false); EvOpenRet 0 None] [] 1; ex_o [] [] 1; ex_o [] [] 0;
     ex_o [EvRecvRet 0 (RErr EConn)] [] 0]) = [10%nat].
Proof. vm_compute. reflexivity. Qed.

Example reason_12 : all_reasons (CClient [ANewStream false; ACancel 0; AFailRead]
    [ex_o [EvWrite (mkEnv 1 (Some (MdOk 0)) None None None false); EvOpenRet 0 None] [] 1; ex_o [] [] 1; ex_o [] [] 1]) = [12%nat].
Proof. vm_compute. reflexivity. Qed.

Example reason_13 : all_reasons (CClient [ANewStream false; ADeliver (mkEnv 1 (Some (MdOk 0)) (Some (mkSt 0 0)) (Some 5) None false); ARecv 0 false]
    [ex_o [EvWrite (mkEnv 1 (Some (MdOk 0)) None None None false); EvOpenRet 0 None] [] 1; ex_o [] [] 1; ex_o [EvRecvRet 0 (RErr EEof)] [] 1]) = [13%nat].
Proof. vm_compute. reflexivity. Qed.

(* Executable correspondence / specification checks for C08, evaluated by
   vm_compute on the cases the Go harness observed on the real code. *)
From Goat Require Import Base.Bytes Model.Timeout.
Open Scope Z_scope.

Inductive c08case :=
| CParse (s : bytes) (obs : option Z)
| CEncode (remaining : Z) (obs : bytes)
| CPick (hdrs : list (bytes * bytes)) (obs : option Z)
| CE2E (timeout transit : Z) (obs : option Z)   (* handler's remaining time at invocation *)
(* a whole RPC through a real client and a real server on the virtual clock:
   kind (false unary / true streaming), caller clock t0 when the call is made,
   server clock t1 when the request is dispatched, caller metadata as emitted,
   caller's remaining time at t0 (None = no deadline); observed: the handler's
   remaining time (ctx.Deadline() - t1) *)
| CSys (stream : bool) (t0 t1 : Z) (md : list (bytes * bytes)) (remaining : option Z) (obs : option Z)
(* a request whose header list was put on the wire by a scripted peer, served by
   a real server: the handler's remaining time at invocation *)
| CSrv (stream : bool) (hdrs : list (bytes * bytes)) (obs : option Z)
(* the model regenerated from the Go source by tools/go2coq and the committed
   equivalence proof coq/Gen/<Name>Equiv.v, re-checked by coqc on this run:
   status 0 = proved equal to the hand-written model, 1 = the equivalence proof no
   longer checks (the code says something else now), 2 = the source uses a
   construct outside the translator's subset (tie broken, never skipped) *)
| CGen (name : Z) (status : Z).

Definition optZ_eqb (a b : option Z) : bool :=
  match a, b with
  | None, None => true
  | Some x, Some y => Z.eqb x y
  | _, _ => false
  end.

(* reason codes: 1 = implementation differs from the model,
                 2 = implementation output violates the property itself *)

(* the property, stated on an observed (input, output) pair without the model *)
Definition in_grammar (s : bytes) : bool :=
  match rev s with
  | [] => false
  | u :: rds =>
      match unit_of u with
      | None => false
      | Some _ => forallb is_digit rds && Nat.leb 1 (length rds) && Nat.leb (length rds) 8
      end
  end.

Definition natural_value (s : bytes) : option Z :=
  match rev s with
  | [] => None
  | u :: rds =>
      match unit_of u with
      | None => None
      | Some unit =>
          if forallb is_digit rds && Nat.leb 1 (length rds)
          then Some (Z.min (val_le rds * unit) maxInt64) else None
      end
  end.

Definition spec_parse_ok (s : bytes) (obs : option Z) : bool :=
  match obs with
  | Some d =>
      (* never misread: accepted only at its saturated natural value *)
      match natural_value s with
      | Some n => Z.eqb d n
      | None => false
      end
  | None => negb (in_grammar s)   (* a grammar value must not be ignored *)
  end.

Definition spec_transfer_ok (timeout transit : Z) (obs : option Z) : bool :=
  match obs with
  | None => false
  | Some rem =>
      (* handler deadline = t1 + rem, caller deadline = t0 + timeout, t1 = t0 + transit *)
      if timeout <? 1000000 then Z.eqb rem 1000000
      else (timeout - 1000000 <=? transit + rem) && (transit + rem <=? timeout + transit)
  end.

Definition check (c : c08case) : list nat :=
  match c with
  | CGen _ status => if Z.eqb status 0 then [] else [1%nat]
  | CParse s obs =>
      (if optZ_eqb (parse s) obs then [] else [1%nat]) ++
      (if spec_parse_ok s obs then [] else [2%nat])
  | CEncode r obs =>
      (if bytes_eqb (encode r) obs then [] else [1%nat]) ++
      (match parse obs with
       | Some d => if (Z.max (r - 1000000) 1000000 <=? d) && (d <=? Z.max r 1000000)
                   then [] else [2%nat]
       | None => [2%nat]
       end)
  | CPick hdrs obs =>
      (if optZ_eqb (pick hdrs) obs then [] else [1%nat]) ++
      (match obs with
       | Some _ => if existsb (fun kv => bytes_eqb (lower (fst kv)) timeout_key) hdrs
                   then [] else [2%nat]
       | None => if existsb (fun kv => bytes_eqb (lower (fst kv)) timeout_key
                                        && in_grammar (snd kv)) hdrs
                 then [2%nat] else []
       end)
  | CE2E timeout transit obs =>
      (if optZ_eqb (parse (encode timeout)) obs then [] else [1%nat]) ++
      (if spec_transfer_ok timeout transit obs then [] else [2%nat])
  | CSys stream t0 t1 md remaining obs =>
      let k := if stream then KStream else KUnary in
      let dl := match remaining with Some r => Some (t0 + r) | None => None end in
      (if optZ_eqb (sys_deadline k t0 t1 md dl) (match obs with Some rem => Some (t1 + rem) | None => None end)
       then [] else [1%nat]) ++
      (* the property, when the caller's metadata does not use the reserved key *)
      (if existsb (fun kv => bytes_eqb (lower (fst kv)) timeout_key) md then []
       else match remaining with
            | Some r => if spec_transfer_ok r (t1 - t0) obs then [] else [2%nat]
            | None => match obs with None => [] | Some _ => [2%nat] end
            end)
  | CSrv stream hdrs obs =>
      (if optZ_eqb (server_deadline 0 hdrs) obs then [] else [1%nat]) ++
      (match obs with
       | Some d =>
           (* never misread: the duration is the saturated natural value of a grpc-timeout header *)
           if existsb (fun kv => bytes_eqb (lower (fst kv)) timeout_key
                                 && match natural_value (snd kv) with Some n => Z.eqb n d | None => false end) hdrs
           then [] else [2%nat]
       | None => if existsb (fun kv => bytes_eqb (lower (fst kv)) timeout_key && in_grammar (snd kv)) hdrs
                 then [2%nat] else []
       end)
  end.

Fixpoint find_bad_from (i : nat) (cs : list c08case) : list (nat * list nat) :=
  match cs with
  | [] => []
  | c :: rest =>
      match check c with
      | [] => find_bad_from (S i) rest
      | rs => (i, rs) :: find_bad_from (S i) rest
      end
  end.

Definition find_bad := find_bad_from 0.

(* Re-check of the exploration reduction of Check/C16c.v on the model alone, with SMALL buffers (1, 2), where the
   race between the write loop's take and the forwarding loop's enqueue at a full buffer - which the 16-slot
   buffer of the real proxy makes too wide for the full exploration - is within reach: for every scenario, at every
   step and from every outcome of the previous step, the reduced exploration ([react_all]) and the full one
   ([react_full]: every enabled rule from every state, grouped actions performed at any moment) must reach the same
   set of quiescent states. Evaluated at build time. (The same comparison runs on lock-step scenarios of the real
   proxy: case kind CProxyRed.) *)
From Coq Require Import List ZArith Bool.
Import ListNotations.
From Goat Require Import Base.Explore Model.Proxy Check.C16c.
Open Scope Z_scope.

Fixpoint reduction_free (fuel : nat) (cf : cfg) (cands : list state) (steps : list (list act)) : bool :=
  match steps with
  | [] => true
  | acts :: steps' =>
      let per := map (fun s => match react_all cf s acts, react_full fuel cf s acts with
                               | Some qs, Some fs => (same_set qs fs, qs)
                               | _, _ => (false, [])
                               end) cands in
      forallb fst per && reduction_free fuel cf (dedup state_eqb (flat_map snd per)) steps'
  end.

Definition m (src dst pay : Z) : env := mkEnv true src dst [] None pay.
Definition cfb (b : nat) : cfg := mkCfg 99 b (fun _ d => Some d).
Definition two : list (list act) := [[AAttach 1 true]; [AAttach 2 true]].

Definition red_scenarios : list (nat * list (list act)) :=
  [ (* a group of deliveries to a free writer: take / enqueue race at the full buffer *)
    (1%nat, two ++ [[ADeliver 0 (m 1 2 1); ADeliver 0 (m 1 2 2); ADeliver 0 (m 1 2 3)]; [ADeliver 1 (m 2 1 4)]]);
    (2%nat, two ++ [[ADeliver 0 (m 1 2 1); ADeliver 0 (m 1 2 2); ADeliver 0 (m 1 2 3); ADeliver 0 (m 1 2 4)]]);
    (* two sources, one destination (a third record), and an answer *)
    (2%nat, two ++ [[AAttach 3 true]; [ADeliver 0 (m 1 3 1); ADeliver 1 (m 2 3 2); ADeliver 0 (m 1 3 3); ADeliver 1 (m 2 3 4)];
                    [ADeliver 2 (m 3 1 5)]]);
    (* blocked writer released while envelopes arrive *)
    (1%nat, two ++ [[ASetWrite 1 WBlock]; [ADeliver 0 (m 1 2 1); ADeliver 0 (m 1 2 2)];
                    [ASetWrite 1 WOk; ADeliver 0 (m 1 2 3); ADeliver 0 (m 1 2 4)]]);
    (2%nat, two ++ [[ASetWrite 1 WBlock]; [ADeliver 0 (m 1 2 1); ADeliver 0 (m 1 2 2); ADeliver 0 (m 1 2 3); ADeliver 0 (m 1 2 4)];
                    [ASetWrite 1 WOk]; [ADeliver 0 (m 1 2 5); ADeliver 0 (m 1 2 6)]]);
    (* a dial answered with a full buffer and queued envelopes *)
    (1%nat, two ++ [[ADeliver 0 (m 1 6 1); ADeliver 1 (m 2 6 2)]; [ADeliver 2 (m 6 1 4)];
                    [ADialOk 2 true]; [ADeliver 0 (m 1 6 5)]]);
    (* cancellation, read failure, write failure in the middle of traffic *)
    (1%nat, two ++ [[ADeliver 0 (m 1 2 1); ACancel]; [ADeliver 0 (m 1 2 3)]]);
    (2%nat, two ++ [[ADeliver 0 (m 1 2 1); AFailRead 0; ADeliver 1 (m 2 1 2)]; [ADeliver 1 (m 2 1 3)]; [ADialOk 2 true]]);
    (2%nat, two ++ [[ASetWrite 1 WFail]; [ADeliver 0 (m 1 2 1); ADeliver 0 (m 1 2 2)]; [ADeliver 0 (m 1 2 3)]; [ACancel]]);
    (1%nat, two ++ [[ASetWrite 1 WBlock]; [ADeliver 0 (m 1 2 1)]; [ACancel]; [ASetWrite 1 WOk]]);
    (* a transport that ignores its context *)
    (2%nat, [[AAttach 1 false]; [AAttach 2 true]; [ADeliver 0 (m 1 2 1); ADeliver 1 (m 2 1 2)]; [ACancel]; [ADeliver 0 (m 1 2 3)]]) ].

Definition red_ok : bool :=
  Eval vm_compute in forallb (fun p => reduction_free 30000 (cfb (fst p)) [init] (snd p)) red_scenarios.

Example reduction_agrees_with_full_exploration : red_ok = true.
Proof. reflexivity. Qed.

(* The C17 property predicates, evaluated on the history observed on the real
   goat.Proxy (case type, model comparison and helpers: Check/C16c.v). *)
From Coq Require Import List ZArith Bool Lia.
Import ListNotations.
From Goat Require Import Base.Explore Model.Proxy Model.ProxyHeld Check.C16c.
Open Scope Z_scope.

(* steps as (step number, actions) / (step number, observation) *)
Definition isteps (steps : list (list act)) : list (nat * list act) := combine (seq 0 (length steps)) steps.
Definition iobs (observed : list pobs) : list (nat * pobs) := combine (seq 0 (length observed)) observed.

(* some action satisfying f on record r was performed at a step <= t (strictly before when [strict]) *)
Definition acted (steps : list (list act)) (f : act -> bool) (t : nat) (strict : bool) : bool :=
  existsb (fun p => (if strict then Nat.ltb (fst p) t else Nat.leb (fst p) t) && existsb f (snd p)) (isteps steps).

Definition is_fault_on (r : nat) (a : act) : bool :=
  match a with
  | AFailRead r' => Nat.eqb r r'
  | ASetWrite r' WFail => Nat.eqb r r'
  | ADialFail r' => Nat.eqb r r'
  | _ => false
  end.
Definition is_wtouch_on (r : nat) (a : act) : bool :=
  match a with ASetWrite r' WOk => false | ASetWrite r' _ => Nat.eqb r r' | _ => false end.
Definition is_dialok_on (r : nat) (a : act) : bool := match a with ADialOk r' _ => Nat.eqb r r' | _ => false end.
Definition is_dialans_on (r : nat) (a : act) : bool :=
  match a with ADialOk r' _ | ADialFail r' => Nat.eqb r r' | _ => false end.
Definition is_cancel (a : act) : bool := match a with ACancel => true | _ => false end.

Definition cancelled_by (steps : list (list act)) (t : nat) : bool := acted steps is_cancel t false.

(* record r runs its two loops at step t and nothing was done to it that may end them *)
Definition rec_live_gen (strict : bool) (rs : list rinfo) (steps : list (list act)) (r t : nat) : bool :=
  match nth_error rs r with
  | Some ri =>
      Nat.ltb (ri_step ri) t
      && (if ri_dialled ri then acted steps (is_dialok_on r) t true else true)
      && negb (acted steps (is_fault_on r) t strict)
  | None => false
  end.
Definition rec_live := rec_live_gen false.
(* ... nothing was done to it before step t *)
Definition rec_live_before := rec_live_gen true.

(* the newest record named n created before step t *)
Definition newest (rs : list rinfo) (n : Z) (t : nat) : option nat :=
  fold_left (fun acc k => match nth_error rs k with
                          | Some ri => if (ri_name ri =? n) && Nat.ltb (ri_step ri) t then Some k else acc
                          | None => acc end) (seq 0 (length rs)) None.
(* ... created up to and including step t *)
Definition newest_incl (rs : list rinfo) (n : Z) (t : nat) : option nat := newest rs n (S t).

Definition has_deaf (steps : list (list act)) : bool :=
  existsb (fun a => match a with AAttach _ false | ADialOk _ false => true | _ => false end) (all_acts steps).

(* reason 2: nothing a connection was handed stems from an envelope without header or with a source other than the
   name its sender is attached under (or rejected by the interceptor); no such envelope makes the proxy dial *)
Definition spec_source (icp : Z -> Z -> option Z) (steps : list (list act)) (observed : list pobs) : bool :=
  let rs := recs_of 0 steps observed in
  let ds := dels_of 0 steps in
  forallb (fun w => match w with (tw, r, x) =>
     match find (fun d => e_pay (snd d) =? e_pay x) ds with
     | Some (td, j, e) => match target_of icp (name_of rs j) e with Some _ => Nat.leb td tw | None => false end
     | None => false
     end end) (writes_of 0 observed)
  && forallb (fun ri =>
       if ri_dialled ri then
         existsb (fun d => match d with (td, j, e) =>
                    Nat.leb td (ri_step ri)
                    && match target_of icp (name_of rs j) e with Some n => n =? ri_name ri | None => false end end) ds
       else true) rs.

(* reason 3: no panic; the forwarding loop lives as long as the context does *)
Definition spec_alive (steps : list (list act)) (observed : list pobs) : bool :=
  forallb (fun p => negb (o_crash (snd p)) && (cancelled_by steps (fst p) || o_fw (snd p))) (iobs observed).

(* reason 4 (isolation): while the context lives, an accepted envelope from a live record to a name whose newest
   record is live and was never stalled reaches that record's connection within the very step of its delivery -
   whatever any other peer is doing (stuck, failing, dialling) *)
Definition spec_isolation (icp : Z -> Z -> option Z) (steps : list (list act)) (observed : list pobs) : bool :=
  let rs := recs_of 0 steps observed in
  let ws := writes_of 0 observed in
  forallb (fun d => match d with (t, j, e) =>
     if negb (cancelled_by steps t) && rec_live rs steps j t then
       match target_of icp (name_of rs j) e with
       | Some n =>
           match newest rs n t with
           | Some q =>
               if rec_live rs steps q t && negb (acted steps (is_wtouch_on q) t false)
               then existsb (fun w => match w with (tw, r, x) => Nat.eqb tw t && Nat.eqb r q && (e_pay x =? e_pay e) end) ws
               else true
           | None => true
           end
       | None => true
       end
     else true end) (dels_of 0 steps).

(* reason 5 (removal): while the context lives
   - a record whose Read fails / whose dial fails is reported to the callback (with its name and its own error)
     in that very step; a record whose Write fails, no later than the step in which an envelope for it arrives;
   - a callback invocation carrying a record's own error names that record, and the record was made to fail;
   - the reported record has lost its table entry at the end of the step, unless a newer record carries the name;
   - the newest record of a name that was never made to fail keeps its table entry: the failure of an older
     connection under the same name does not disturb it *)
Definition disc_at (observed : list pobs) (n : Z) (r : nat) (f : nat -> bool) : bool :=
  existsb (fun p => f (fst p) && existsb (fun d => (fst d =? n) && (snd d =? znat r)) (o_disc (snd p))) (iobs observed).

Definition spec_removal (icp : Z -> Z -> option Z) (steps : list (list act)) (observed : list pobs) : bool :=
  let rs := recs_of 0 steps observed in
  (* read failure / dial failure: reported in the step *)
  forallb (fun p => let t := fst p in
     forallb (fun a =>
        match a with
        | AFailRead r =>
            if negb (cancelled_by steps t) && rec_live_before rs steps r t
            then disc_at observed (name_of rs r) r (Nat.eqb t) else true
        | ADialFail r =>
            if negb (cancelled_by steps t) then disc_at observed (name_of rs r) r (Nat.eqb t) else true
        | _ => true
        end) (snd p)) (isteps steps)
  (* write failure: reported once an envelope arrives for the record *)
  && forallb (fun d => match d with (t, j, e) =>
       if negb (cancelled_by steps t) && rec_live rs steps j t then
         match target_of icp (name_of rs j) e with
         | Some n =>
             match newest rs n t with
             | Some q =>
                 match nth_error rs q with
                 | Some qi =>
                     if (if ri_dialled qi then acted steps (is_dialok_on q) t true else true)
                        && negb (acted steps (fun b => match b with AFailRead r' | ADialFail r' => Nat.eqb q r' | _ => false end) t false)
                        && match fold_left (fun m p => if Nat.leb (fst p) t
                                                      then fold_left (fun m a => match a with ASetWrite r' w => if Nat.eqb q r' then w else m | _ => m end) (snd p) m
                                                      else m) (isteps steps) WOk with
                           | WFail => true | _ => false end
                     then disc_at observed n q (fun k => Nat.leb k t) else true
                 | None => true
                 end
             | None => true
             end
         | None => true
         end
       else true end) (dels_of 0 steps)
  (* reports name the failed record *)
  && forallb (fun p => forallb (fun d =>
       if 0 <=? snd d then
         (name_of rs (Z.to_nat (snd d)) =? fst d) && acted steps (is_fault_on (Z.to_nat (snd d))) (fst p) false
       else
         (* a context error: only after cancellation, or from the other loop of a record already reported *)
         cancelled_by steps (fst p)
         || existsb (fun r => (name_of rs r =? fst d) && disc_at observed (fst d) r (fun k => Nat.leb k (fst p))) (seq 0 (length rs)))
       (o_disc (snd p))) (iobs observed)
  (* the reported record has lost its entry *)
  && forallb (fun p => forallb (fun d =>
       if (0 <=? snd d) && negb (cancelled_by steps (fst p)) then
         match newest_incl rs (fst d) (fst p) with
         | Some k => if Nat.eqb k (Z.to_nat (snd d)) then negb (existsb (Z.eqb (fst d)) (o_reg (snd p))) else true
         | None => true
         end
       else true) (o_disc (snd p))) (iobs observed)
  (* an unharmed newest record keeps its entry *)
  && forallb (fun p => let t := fst p in
       if cancelled_by steps t then true else
       forallb (fun k => match nth_error rs k with
                         | Some ri =>
                             if Nat.leb (ri_step ri) t
                                && match newest_incl rs (ri_name ri) t with Some k' => Nat.eqb k k' | None => false end
                                && negb (acted steps (is_fault_on k) t false)
                             then existsb (Z.eqb (ri_name ri)) (o_reg (snd p)) else true
                         | None => true end) (seq 0 (length rs))) (iobs observed).

(* reason 6 (shutdown): from the cancellation step on the forwarding loop is gone; afterwards nothing is dialled,
   nothing reported, nothing that arrives is handed on; with transports that honour their context the only
   goroutines of the proxy left are those inside an unanswered newConnection call *)
Definition pending_dials (steps : list (list act)) (observed : list pobs) (t : nat) : Z :=
  let rs := recs_of 0 steps observed in
  znat (length (filter (fun k => match nth_error rs k with
                                 | Some ri => ri_dialled ri && Nat.leb (ri_step ri) t && negb (acted steps (is_dialans_on k) t false)
                                 | None => false end) (seq 0 (length rs)))).

Definition spec_shutdown (steps : list (list act)) (observed : list pobs) : bool :=
  match cancel_step 0 steps with
  | None => true
  | Some tc =>
      forallb (fun p => let t := fst p in let o := snd p in
        if Nat.leb tc t then
          negb (o_fw o)
          && (if Nat.ltb tc t then match o_dials o, o_disc o with [], [] => true | _, _ => false end else true)
          && (if has_deaf steps then true
              else (o_nrd o =? 0) && (o_nwr o =? 0) && (o_nrw o =? 0)
                   && (o_ndl o =? pending_dials steps observed t) && (o_ngoat o =? pending_dials steps observed t))
        else true) (iobs observed)
      (* no envelope delivered after the cancellation step is ever handed on (an envelope accepted before it may
         still be written by a write loop whose select sees both its buffer and the context ready) *)
      && forallb (fun w => match w with (tw, r, x) =>
           match find (fun d => e_pay (snd d) =? e_pay x) (dels_of 0 steps) with
           | Some (td, _, _) => Nat.leb td tc
           | None => false
           end end) (writes_of 0 observed)
  end.

(* ---- comparison with the held-loop model (Model/ProxyHeld.v) ---- *)
(* exploration state: base state, is the loop inside a callback, the record whose callback will hold it *)
Record hx := mkHX { hx_s : state; hx_held : bool; hx_armed : option nat }.
Definition hx_eqb (a b : hx) : bool :=
  Bool.eqb (hx_held a) (hx_held b) && option_eqb Nat.eqb (hx_armed a) (hx_armed b) && state_eqb (hx_s a) (hx_s b).

Definition all_kinds : list rk :=
  [KFwExit; KFwCmd; KFwErrRd; KFwErrWr; KFwErrDl; KRdRead; KRdCtx; KRdGiveup; KWrTake; KWrExit; KWrWrite; KWrCtx; KWrGiveup; KDlGiveup].
Definition is_err_rule (k : rk) : bool := match k with KFwErrRd | KFwErrWr | KFwErrDl => true | _ => false end.

(* every enabled rule of the held model: the serve loop's only while it is not held; handling the failure of the
   armed record puts the loop into that record's callback *)
Definition hx_succs (cf : cfg) (x : hx) : list hx :=
  flat_map (fun k =>
    if hx_held x && is_loop_rule k then [] else
    flat_map (fun j =>
      match apply_rule cf k j (hx_s x) with
      | Some s' =>
          let hold := is_err_rule k && match hx_armed x with Some a => Nat.eqb a j | None => false end in
          [mkHX (canon s') (hx_held x || hold) (if hold then None else hx_armed x)]
      | None => []
      end) (match k with KFwExit => [0%nat] | _ => seq 0 (length (clients (hx_s x))) end)) all_kinds.

Definition hx_settle (cf : cfg) (xs : list (hx * list nat)) : list (hx * list nat) :=
  flat_map (fun p => match explore hx_eqb (hx_succs cf) 20000 [fst p] [fst p] [] with
                     | Some qs => map (fun q => (q, snd p)) qs
                     | None => [] end) xs.

Fixpoint hx_group (cf : cfg) (xs : list (hx * list nat)) (g : list hact) : list (hx * list nat) :=
  match g with
  | [] => hx_settle cf xs
  | HA a :: t =>
      hx_group cf (Explore.filter_map (fun p => match tr_act (snd p) a with
                                                | Some a' => Some (mkHX (canon (ext (hx_s (fst p)) a')) (hx_held (fst p)) (hx_armed (fst p)),
                                                                   match a with AAttach _ _ => snd p ++ [length (clients (hx_s (fst p)))] | _ => snd p end)
                                                | None => None end) xs) t
  | HHold r :: t => hx_group cf (map (fun p => (mkHX (hx_s (fst p)) (hx_held (fst p)) (nth_error (snd p) r), snd p)) xs) t
  | HRelease :: t => hx_group cf (map (fun p => (mkHX (hx_s (fst p)) false None, snd p)) xs) t
  | HWait :: t => hx_group cf (hx_settle cf xs) t
  end.

Fixpoint hagree_from (cf : cfg) (i : nat) (cands : list cand) (hsteps : list (list hact)) (observed : list pobs) : option nat :=
  match hsteps, observed with
  | g :: steps', o :: obs' =>
      let xs := map (fun c : cand => (mkHX (clear_log (fst c)) false None, snd c)) cands in
      let ends := hx_group cf xs g in
      let nexts := Explore.filter_map (fun p => if hx_held (fst p) then None else
                                                match obs_match (snd p) (hx_s (fst p)) o with
                                                | Some m2 => Some (hx_s (fst p), m2)
                                                | None => None end) ends in
      match dedup cand_eqb nexts with
      | [] => Some i
      | ns => hagree_from cf (S i) ns steps' obs'
      end
  | [], [] => None
  | _, _ => Some i
  end.

Definition plain_steps (hsteps : list (list hact)) : list (list act) :=
  map (fun g => Explore.filter_map (fun h => match h with HA a => Some a | _ => None end) g) hsteps.

Definition check17 (c : pxcase) : list nat :=
  match c with
  | CProxy pname buf icp steps observed =>
      let f := icp_of icp in
      (match agree_from (cfg_of pname buf icp) 0 [(init, [])] steps observed with None => [] | Some _ => [1%nat] end)
      ++ (if spec_source f steps observed then [] else [2%nat])
      ++ (if spec_alive steps observed then [] else [3%nat])
      ++ (if spec_isolation f steps observed then [] else [4%nat])
      ++ (if spec_removal f steps observed then [] else [5%nat])
      ++ (if spec_shutdown steps observed then [] else [6%nat])
  | CProxyLoose pname buf icp steps observed =>
      let f := icp_of icp in
      (if spec_source f steps observed then [] else [2%nat])
      ++ (if spec_alive steps observed then [] else [3%nat])
      ++ (if spec_isolation f steps observed then [] else [4%nat])
      ++ (if spec_removal f steps observed then [] else [5%nat])
      ++ (if spec_shutdown steps observed then [] else [6%nat])
  | CProxyHeld pname buf icp hsteps observed =>
      let f := icp_of icp in
      let steps := plain_steps hsteps in
      (match hagree_from (cfg_of pname buf icp) 0 [(init, [])] hsteps observed with None => [] | Some _ => [1%nat] end)
      ++ (if spec_source f steps observed then [] else [2%nat])
      ++ (if spec_alive steps observed then [] else [3%nat])
      ++ (if spec_isolation f steps observed then [] else [4%nat])
      ++ (if spec_removal f steps observed then [] else [5%nat])
      ++ (if spec_shutdown steps observed then [] else [6%nat])
  | CProxyRed _ _ _ _ _ => []
  | CProxyRace _ => []
  | CProxyReply _ => []
  | CProxyE2E results =>
      if forallb (fun p => fst p =? snd p) results then [] else [7%nat]
  | CProxyFree pname buf icp names sent got drops clean =>
      (* nothing handed on stems from a spoofed / header-less / rejected envelope *)
      let nm k := nth (Z.to_nat k) names (-1) in
      if forallb (fun w => match find (fun d => e_pay (snd d) =? e_pay (snd w)) sent with
                           | Some (j, e) => match target_of (icp_of icp) (nm j) e with Some _ => true | None => false end
                           | None => false end) got
      then [] else [2%nat]
  end.

Fixpoint find_bad_from17 (i : nat) (cs : list pxcase) : list (nat * list nat) :=
  match cs with
  | [] => []
  | c :: rest =>
      match check17 c with
      | [] => find_bad_from17 (S i) rest
      | rs => (i, rs) :: find_bad_from17 (S i) rest
      end
  end.

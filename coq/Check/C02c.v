(* C02 on recorded end-to-end histories (harness/sy_rig.go): one pass over the
   events in the order in which they were recorded, with the state of every
   stream.  The schedules are fault-free and nothing is cancelled, so:

   2  the handler received a message that is not the next one its caller sent
      (loss, duplication, reordering, alteration, fabrication), position-wise;
   3  the same for what the caller received from its handler;
   4  the handler saw io.EOF before the caller half-closed, or while messages
      the caller had sent were still unreceived;
   5  the caller saw io.EOF although its handler had not returned nil, or before
      having received all the handler's messages;
   6  a receive failed with something else than io.EOF although the handler
      did not fail (the "Canceled instead of EOF" outcome is this code);
   7  at the end of a complete schedule an operation never returned;
   8  an open / send / half-close failed on a stream whose handler had not
      returned;
   9  two stream-opening envelopes on the client's transport carry the same id. *)
From Coq Require Import List ZArith Bool Lia.
Import ListNotations.
From Goat Require Import Check.SysC.
Open Scope Z_scope.

Inductive c02case :=
| C02Run (complete : bool) (steps : list (sact * list hev)).

Record sst := mkS {
  q_c2h : list Z;          (* started by the caller (SendMsg entered), not yet received by the handler *)
  c_pend : bool;           (* the last of them belongs to a SendMsg that has not returned yet *)
  c_close : bool;          (* CloseSend entered *)
  q_h2c : list Z;
  h_ret : option Z;        (* the handler returned this code (0 = nil) *)
  open_ops : Z }.          (* operations entered and not yet returned *)

Definition s0 : sst := mkS [] false false [] None 0.

Fixpoint get (k : Z) (m : list (Z * sst)) : sst :=
  match m with
  | [] => s0
  | (k', s) :: t => if k' =? k then s else get k t
  end.

Fixpoint put (k : Z) (s : sst) (m : list (Z * sst)) : list (Z * sst) :=
  match m with
  | [] => [(k, s)]
  | (k', s') :: t => if k' =? k then (k, s) :: t else (k', s') :: put k s t
  end.

Definition bump (s : sst) (d : Z) : sst := mkS (q_c2h s) (c_pend s) (c_close s) (q_h2c s) (h_ret s) (open_ops s + d).

(* one event: new state of its stream and the reason codes it raises *)
Definition step1 (s : sst) (e : hev) : sst * list nat :=
  match e with
  | COpenS _ _ => (bump s 1, [])
  | COpenR _ err => (bump s (-1), if err =? 0 then [] else [8%nat])
  | CSendS _ tok => (mkS (q_c2h s ++ [tok]) true (c_close s) (q_h2c s) (h_ret s) (open_ops s + 1), [])
  | CSendR _ err =>
      if err =? 0 then (mkS (q_c2h s) false (c_close s) (q_h2c s) (h_ret s) (open_ops s - 1), [])
      else if err =? 77 then
        (* an injected write fault "delivered, then an error reported": the message may still arrive (once); the stream is
           torn down by the failed SendMsg, so whatever fails afterwards is excused (recorded as a handler return -77) *)
        (mkS (q_c2h s) false (c_close s) (q_h2c s) (match h_ret s with None => Some (-77) | x => x end) (open_ops s - 1), [])
      else (* the message of a failed SendMsg is not owed to the handler; failing is legitimate once the handler has returned *)
        (mkS (if c_pend s then removelast (q_c2h s) else q_c2h s) false (c_close s) (q_h2c s) (h_ret s) (open_ops s - 1),
         match h_ret s with Some _ => [] | None => [8%nat] end)
  | CCloseS _ => (mkS (q_c2h s) (c_pend s) true (q_h2c s) (h_ret s) (open_ops s + 1), [])
  | CCloseR _ err => (bump s (-1), if err =? 0 then [] else match h_ret s with Some _ => [] | None => [8%nat] end)
  | CRecvS _ => (bump s 1, [])
  | CRecvR _ (ROk x) =>
      match q_h2c s with
      | h :: t => (mkS (q_c2h s) (c_pend s) (c_close s) t (h_ret s) (open_ops s - 1), if h =? x then [] else [3%nat])
      | [] => (bump s (-1), [3%nat])
      end
  | CRecvR _ (RErr cls) =>
      (bump s (-1),
       if cls =? 1 then
         match h_ret s, q_h2c s with Some 0, [] => [] | _, _ => [5%nat] end
       else match h_ret s with
            | Some c => if c =? 0 then [6%nat] else []
            | None => [6%nat]
            end)
  | HStS _ => (s, [])
  | HRecvS _ => (bump s 1, [])
  | HRecvR _ (ROk x) =>
      match q_c2h s with
      | h :: t => (mkS t (match t with [] => false | _ => c_pend s end) (c_close s) (q_h2c s) (h_ret s) (open_ops s - 1),
                   if h =? x then [] else [2%nat])
      | [] => (bump s (-1), [2%nat])
      end
  | HRecvR _ (RErr cls) =>
      (bump s (-1),
       if cls =? 1 then
         (if c_close s then match q_c2h s with [] => [] | _ => [4%nat] end else [4%nat])
       else (* a RecvMsg of a concurrent handler's receiver goroutine that ends after the handler function has returned:
               the stream's context is cancelled then *)
            match h_ret s with Some _ => [] | None => [6%nat] end)
  | HSendS _ tok => (mkS (q_c2h s) (c_pend s) (c_close s) (q_h2c s ++ [tok]) (h_ret s) (open_ops s + 1), [])
  | HSendR _ err => (bump s (-1), if err =? 0 then [] else
                                    match h_ret s with Some r => if r =? -77 then [] else [8%nat] | None => [8%nat] end)
  | HRet _ code => (mkS (q_c2h s) (c_pend s) (c_close s) (q_h2c s)
                        (match h_ret s with Some r => if r =? -77 then Some r else Some code | None => Some code end) (open_ops s), [])
  | _ => (s, [])
  end.

Definition stream_of (e : hev) : option Z :=
  match e with
  | COpenS k _ | COpenR k _ | CSendS k _ | CSendR k _ | CCloseS k | CCloseR k _ | CRecvS k | CRecvR k _
  | HStS k | HRecvS k | HRecvR k _ | HSendS k _ | HSendR k _ | HRet k _ => Some k
  | _ => None
  end.

Fixpoint scan (m : list (Z * sst)) (evs : list hev) (acc : list nat) : list (Z * sst) * list nat :=
  match evs with
  | [] => (m, acc)
  | e :: rest =>
      match stream_of e with
      | None => scan m rest acc
      | Some k =>
          let '(s', bad) := step1 (get k m) e in
          scan (put k s' m) rest (acc ++ bad)
      end
  end.

Definition norm (l : list nat) : list nat :=
  filter (fun c => existsb (Nat.eqb c) l) [2; 3; 4; 5; 6; 7; 8; 9]%nat.

(* ids of the stream-opening envelopes (header only) written by the client *)
Definition open_ids (evs : list hev) : list (Z * unit) :=
  filter_map' (fun e => match e with
                        | WC2S w => match w_body w, w_status w with
                                    | None, None => if w_trl w || w_rst w then None else Some (w_id w, tt)
                                    | _, _ => None
                                    end
                        | _ => None
                        end) evs.
Definition open_ids_distinct (evs : list hev) : bool := strictly_increasing (keys (msort (open_ids evs))).

Definition spec_c02 (complete : bool) (evs : list hev) : list nat :=
  let '(m, bad) := scan [] evs [] in
  let hung := complete && existsb (fun ks => negb (open_ops (snd ks) =? 0)) m in
  norm (bad ++ (if hung then [7%nat] else []) ++ (if open_ids_distinct evs then [] else [9%nat])).

Definition judge (c : c02case) : list nat :=
  match c with C02Run complete steps => spec_c02 complete (events steps) end.

Definition find_bad_from (i : nat) (cs : list c02case) : list (nat * list nat) := find_bad_with judge i cs.

(* ---- not vacuous ---- *)
Definition ok_bidi : list hev :=
  [COpenS 0 2; COpenR 0 0; HStS 0; CSendS 0 11; CSendR 0 0; HRecvS 0; HRecvR 0 (ROk 11); HSendS 0 11; HSendR 0 0;
   CRecvS 0; CRecvR 0 (ROk 11); CCloseS 0; CCloseR 0 0; HRecvS 0; HRecvR 0 (RErr 1); HRet 0 0; CRecvS 0; CRecvR 0 (RErr 1)].
Example ok_bidi_ok : spec_c02 true ok_bidi = []. Proof. vm_compute. reflexivity. Qed.
Example canceled_instead_of_eof :
  spec_c02 true [COpenS 0 2; COpenR 0 0; HStS 0; CCloseS 0; CCloseR 0 0; CRecvS 0; HRecvS 0; HRecvR 0 (RErr 1); HRet 0 0;
                 CRecvR 0 (RErr 2)] = [6]%nat.
Proof. vm_compute. reflexivity. Qed.
Example reordered :
  spec_c02 false [COpenS 0 2; COpenR 0 0; CSendS 0 11; CSendR 0 0; CSendS 0 12; CSendR 0 0; HRecvS 0; HRecvR 0 (ROk 12)] = [2]%nat.
Proof. vm_compute. reflexivity. Qed.
Example early_handler_eof :
  spec_c02 false [COpenS 0 2; COpenR 0 0; CSendS 0 11; CSendR 0 0; CCloseS 0; CCloseR 0 0; HRecvS 0; HRecvR 0 (RErr 1)] = [4]%nat.
Proof. vm_compute. reflexivity. Qed.
Example eof_with_message_missing :
  spec_c02 false [COpenS 0 1; COpenR 0 0; HStS 0; HSendS 0 5; HSendR 0 0; HRet 0 0; CRecvS 0; CRecvR 0 (RErr 1)] = [5]%nat.
Proof. vm_compute. reflexivity. Qed.
Example same_open_id :
  spec_c02 false [WC2S (mkW 1 None None false false); COpenS 0 2; COpenR 0 0; WC2S (mkW 1 None None false false); COpenS 1 2; COpenR 1 0] = [9]%nat.
Proof. vm_compute. reflexivity. Qed.
(* a concurrent handler: its receiver goroutine sits in RecvMsg while the handler pushes two messages and returns nil *)
Example return_while_receiving_ok :
  spec_c02 true [COpenS 0 1; COpenR 0 0; HStS 0; HRecvS 0; HSendS 0 5; HSendR 0 0; CRecvS 0; CRecvR 0 (ROk 5); HRet 0 0;
                 HRecvR 0 (RErr 2); CRecvS 0; CRecvR 0 (RErr 1)] = [].
Proof. vm_compute. reflexivity. Qed.
(* ... and the same handler stuck behind its own receiver: the pushes never leave, the caller hangs *)
Example return_while_receiving_stuck :
  spec_c02 true [COpenS 0 1; COpenR 0 0; HStS 0; HRecvS 0; HSendS 0 5; CRecvS 0] = [7]%nat.
Proof. vm_compute. reflexivity. Qed.
(* a SendMsg / CloseSend that fails on a live stream whose handler has not returned *)
Example failed_send_on_live_stream :
  spec_c02 false [COpenS 0 2; COpenR 0 0; HStS 0; CSendS 0 11; CSendR 0 9] = [8]%nat.
Proof. vm_compute. reflexivity. Qed.
Example failed_close_on_live_stream :
  spec_c02 false [COpenS 0 2; COpenR 0 0; HStS 0; CCloseS 0; CCloseR 0 2] = [8]%nat.
Proof. vm_compute. reflexivity. Qed.
(* ... but a SendMsg that fails after the handler returned is legitimate, and its message is not owed to the handler *)
Example failed_send_after_return_ok :
  spec_c02 true [COpenS 0 2; COpenR 0 0; HStS 0; HRet 0 0; CSendS 0 11; CSendR 0 9; CRecvS 0; CRecvR 0 (RErr 1)] = [].
Proof. vm_compute. reflexivity. Qed.
(* the write fault "delivered, then an error": the message arrives once (fine), twice (a duplicate: code 2) *)
Example ackloss_once_ok :
  spec_c02 true [COpenS 0 2; COpenR 0 0; HStS 0; CSendS 0 11; CSendR 0 77; HRecvS 0; HRecvR 0 (ROk 11); HRecvS 0; HRecvR 0 (RErr 2); HRet 0 1002;
                 CRecvS 0; CRecvR 0 (RErr 2)] = [].
Proof. vm_compute. reflexivity. Qed.
Example ackloss_retry_duplicates :
  spec_c02 false [COpenS 0 2; COpenR 0 0; HStS 0; CSendS 0 11; CSendR 0 0; HRecvS 0; HRecvR 0 (ROk 11); HRecvS 0; HRecvR 0 (ROk 11)] = [2]%nat.
Proof. vm_compute. reflexivity. Qed.
Example hung_recv :
  spec_c02 true [COpenS 0 1; COpenR 0 0; HStS 0; HRet 0 0; CRecvS 0] = [7]%nat.
Proof. vm_compute. reflexivity. Qed.

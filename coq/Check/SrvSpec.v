(* Server-side cases of the properties whose checks belong to the client package (C05, C14): predicates on the
   history observed on the real server connection (rig harness/sv_*.go), plus model agreement (Check/ServerC.v).
   Kept in its own file and referred to by qualified names from Check/C05c.v / C14c.v: Model.Server and Model.Client
   share constructor names. *)
From Coq Require Import List ZArith Bool Lia.
Import ListNotations.
From Goat Require Import Base.Explore Model.Client Model.Server Check.ServerC.
Open Scope Z_scope.

Fixpoint subseqZ (a b : list Z) : bool :=
  match a, b with
  | [], _ => true
  | _ :: _, [] => false
  | x :: a', y :: b' => if x =? y then subseqZ a' b' else subseqZ a b'
  end.

Definition events_of (observed : list obs) : list sev := flat_map o_events observed.
Definition writes_of_obs (observed : list obs) : list frame := flat_map o_writes observed.

(* C05, per-stream order on the server->client wire: for every stream handler the message bodies written under its id
   are, in order and without repetition, among the messages it sent (a subsequence of its SendMsg calls) *)
Definition stream_order_ok (acts : list act) (observed : list obs) : bool :=
  forallb (fun e => match e with
                    | SvInvoke h false id _ _ _ =>
                        let sent := flat_map (fun a => match a with AHandlerStep g (HSend b) => if Nat.eqb g h then [b] else [] | _ => [] end) acts in
                        let wr := flat_map (fun w => if (fid w =? id) && negb (is_rst w) && negb (has_trl w)
                                                     then match ebody (f_env w) with Some b => [b] | None => [] end else [])
                                           (writes_of_obs observed) in
                        subseqZ wr sent
                    | _ => true end) (events_of observed).

(* C05, per-stream order on the way in (C05_server_order, C05_server_recv_results): the messages RecvMsg returned to a
   stream handler are, in order and without repetition, among the message envelopes delivered under its id *)
Definition recv_order_ok (acts : list act) (observed : list obs) : bool :=
  forallb (fun e => match e with
                    | SvInvoke h false id _ _ _ =>
                        let got := flat_map (fun e' => match e' with SvOp g (ORecvMsg b) => if Nat.eqb g h then [b] else [] | _ => [] end)
                                            (events_of observed) in
                        let sent := flat_map (fun a => match a with
                                                       | ADeliver f => if (fid f =? id) && negb (is_rst f) && negb (has_trl f)
                                                                       then match ebody (f_env f) with Some b => [b] | None => [0] end else []
                                                       | _ => [] end) acts in
                        subseqZ got sent
                    | _ => true end) (events_of observed).

(* C05, unary requests are isolated per request, not per id: every qualifying unary request delivered is handed to its
   own handler (same id, payload, in delivery order), and the reply a handler returns is written under the request's
   id to the request's source *)
Definition qualifies_unary (f : frame) : bool :=
  match dispatch f with DUnary => negb (md_bad f) && negb (body_tok f <? 0) | _ => false end.
Definition unary_pairing_ok (acts : list act) (observed : list obs) : bool :=
  let reqs := filter_map (fun a => match a with ADeliver f => if qualifies_unary f then Some f else None | _ => None end) acts in
  let invs := filter_map (fun e => match e with SvInvoke h true id _ p _ => Some (h, (id, p)) | _ => None end) (events_of observed) in
  list_eqb (fun a b => (fst a =? fst b) && (snd a =? snd b)) (map snd invs) (map (fun f => (fid f, body_tok f)) reqs)
  && forallb (fun a => match a with
                       | AHandlerStep h (HReturn (Some rep) HNil) =>
                           match find (fun p => Nat.eqb (fst p) h) (combine (map fst invs) reqs) with
                           | Some (_, f) =>
                               existsb (fun w => (fid w =? fid f) && (f_dst w =? f_src f)
                                                 && match ebody (f_env w) with Some b => b =? rep | None => false end)
                                       (writes_of_obs observed)
                           | None => true
                           end
                       | _ => true end) acts.

(* reasons: 6 per-stream order, 7 unary pairing (numbers not used by the client-side cases of C05) *)
Definition check_c05srv (c : svcase) : list nat :=
  match c with
  | CSrv acts observed =>
      match (if stream_order_ok acts observed && recv_order_ok acts observed then [] else [6%nat]) ++ (if unary_pairing_ok acts observed then [] else [7%nat]) with
      | [] => check_agree c
      | rs => rs
      end
  end.

(* two connections on one Server (connection B is outside the model): the predicates on this connection's history, and
   connection B's handlers received exactly, in order, the messages delivered on connection B (reason 6) *)
Definition check_c05srv2 (c : svcase) (bsent brecv : list Z) : list nat :=
  match c with
  | CSrv acts observed =>
      nodup Nat.eq_dec ((if stream_order_ok acts observed && recv_order_ok acts observed then [] else [6%nat])
                        ++ (if unary_pairing_ok acts observed then [] else [7%nat])
                        ++ (if list_eqb Z.eqb bsent brecv then [] else [6%nat]))
  end.

(* C14, server half: at the end of the conversation every handler that was started has returned; then nothing is held
   for them: registry empty, no goroutine beyond the connection's own (writer + workers while it is served) *)
Definition invoked_h (l : list sev) : list nat := filter_map (fun e => match e with SvInvoke h _ _ _ _ _ => Some h | _ => None end) l.
Definition returned_h (l : list sev) : list nat := filter_map (fun e => match e with SvRet h => Some h | _ => None end) l.
Definition idle_at_end (observed : list obs) : bool :=
  match last (map Some observed) None with
  | Some o =>
      let evs := events_of observed in
      negb (forallb (fun h => existsb (Nat.eqb h) (returned_h evs)) (invoked_h evs))
      || ((o_hs o =? 0) && opt_eqb Z.eqb (o_reg o) (Some 0)
          && (if o_serve o then (o_workers o =? 0) && (o_writer o =? 0) else (o_workers o =? Z.of_nat nworkers) && (o_writer o =? 1)))
  | None => true
  end.
(* reason 8; [with_model] = the scenario is inside the model (no request deadlines) *)
Definition check_c14srv (with_model : bool) (c : svcase) : list nat :=
  match c with
  | CSrv acts observed =>
      if idle_at_end observed then (if with_model then check_agree c else []) else [8%nat]
  end.

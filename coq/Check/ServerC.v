(* Executable correspondence check between Model/Server.v and the real server
   connection (goat.Server.Serve on a scripted transport, handler bodies gated by
   the schedule), on lock-step scenarios: after every environment action the real
   code was run to quiescence (synctest.Wait) and observed; the model must be able
   to reach, by some order of its internal rules, a quiescent state that predicts
   the same observation. *)
From Coq Require Import List ZArith Bool Lia.
Import ListNotations.
From Goat Require Import Base.Explore Model.Client Model.Server.
Open Scope Z_scope.

(* ---- helpers on envelopes (kept local: this file does not depend on Check/ClientC.v) ---- *)
Definition opt_eqb {A} (f : A -> A -> bool) (a b : option A) : bool :=
  match a, b with None, None => true | Some x, Some y => f x y | _, _ => false end.
Definition mdv_eqb (a b : mdv) : bool :=
  match a, b with MdOk x, MdOk y => x =? y | MdBad, MdBad => true | _, _ => false end.
Definition status_eqb (a b : status) : bool := (st_code a =? st_code b) && (st_msg a =? st_msg b).
Definition env_eqb (a b : env) : bool :=
  (eid a =? eid b) && opt_eqb mdv_eqb (ehdr a) (ehdr b) && opt_eqb status_eqb (estatus a) (estatus b)
  && opt_eqb Z.eqb (ebody a) (ebody b) && opt_eqb mdv_eqb (etrl a) (etrl b) && Bool.eqb (erst a) (erst b).
Definition count {A} (f : A -> A -> bool) (x : A) (l : list A) : nat := length (filter (f x) l).
Definition multiset_eqb {A} (f : A -> A -> bool) (a b : list A) : bool :=
  Nat.eqb (length a) (length b) && forallb (fun x => Nat.eqb (count f x a) (count f x b)) a.
Definition optZ_code (o : option Z) : list Z := match o with None => [0] | Some x => [1; x] end.
Definition mdv_code (m : option mdv) : list Z := match m with None => [0] | Some MdBad => [1] | Some (MdOk t) => [2; t] end.
Definition env_code (e : env) : list Z :=
  eid e :: mdv_code (ehdr e) ++ match estatus e with None => [0] | Some s => [1; st_code s; st_msg s] end
  ++ optZ_code (ebody e) ++ mdv_code (etrl e) ++ [if erst e then 1 else 0].
Fixpoint lex_leb (a b : list Z) : bool :=
  match a, b with
  | [], _ => true
  | _ :: _, [] => false
  | x :: a', y :: b' => if x <? y then true else if y <? x then false else lex_leb a' b'
  end.

Record obs := mkObs {
  o_events : list sev;      (* handler invocations / operation results / returns / Serve return since the
                               previous action (any order) *)
  o_writes : list frame;    (* envelopes the transport accepted since the previous action, in order *)
  o_reg : option Z;         (* len(h.streams); None = h.mu was held *)
  o_inbox : Z;              (* delivered envelopes the read loop has not taken *)
  o_blocked : list Z;       (* handlers parked inside an operation of their body *)
  o_ctx : list Z;           (* handlers that have not returned and whose context is done *)
  o_serve : bool;           (* Serve has returned *)
  o_writer : Z;             (* writer goroutine alive *)
  o_workers : Z;            (* live worker goroutines *)
  o_hs : Z;                 (* live runStream goroutines *)
  o_wblocked : bool }.      (* a transport Write is blocked *)

Inductive svcase := CSrv (acts : list act) (observed : list obs).

(* ---- decidable equality ---- *)
Definition mkind_eqb (a b : mkind) : bool :=
  match a, b with
  | MBad, MBad | MUnkSvc, MUnkSvc | MUnkMeth, MUnkMeth => true
  | MUnary x, MUnary y | MStream x, MStream y => x =? y
  | _, _ => false
  end.
Definition frame_eqb (a b : frame) : bool :=
  env_eqb (f_env a) (f_env b) && mkind_eqb (f_mth a) (f_mth b) && (f_src a =? f_src b) && (f_dst a =? f_dst b).
Definition opres_eqb (a b : opres) : bool :=
  match a, b with
  | ORecvMsg x, ORecvMsg y => x =? y
  | ORecvStatus x, ORecvStatus y => status_eqb x y
  | ORecvEof, ORecvEof | ORecvUnmarshal, ORecvUnmarshal | OCtx, OCtx | OOk, OOk | OHdrSent, OHdrSent
  | OAwaited, OAwaited => true
  | _, _ => false
  end.
Definition serr_eqb (a b : serr) : bool :=
  match a, b with SRead, SRead | SReadCtx, SReadCtx | SCtx, SCtx | SWrite, SWrite => true | _, _ => false end.
Definition sev_eqb (a b : sev) : bool :=
  match a, b with
  | SvRead x, SvRead y => frame_eqb x y
  | SvJob w x, SvJob v y => Nat.eqb w v && frame_eqb x y
  | SvInvoke h u i m p d, SvInvoke h' u' i' m' p' d' =>
      Nat.eqb h h' && Bool.eqb u u' && (i =? i') && mkind_eqb m m' && (p =? p') && (d =? d')
  | SvOp h r, SvOp h' r' => Nat.eqb h h' && opres_eqb r r'
  | SvRet h, SvRet h' => Nat.eqb h h'
  | SvWrite x, SvWrite y | SvTaken x, SvTaken y | SvWFail x, SvWFail y | SvAbandon x, SvAbandon y => frame_eqb x y
  | SvUnreg h, SvUnreg h' => Nat.eqb h h'
  | SvReply h x, SvReply h' y | SvTrailer h x, SvTrailer h' y => Nat.eqb h h' && frame_eqb x y
  | SvLost x, SvLost y => frame_eqb x y
  | SvFwd h x, SvFwd h' y | SvDrop h x, SvDrop h' y | SvTake h x, SvTake h' y => Nat.eqb h h' && frame_eqb x y
  | SvServeRet x, SvServeRet y => serr_eqb x y
  | _, _ => false
  end.
Definition skind_eqb (a b : skind) : bool :=
  match a, b with KMsg, KMsg | KHdr, KHdr | KTrl, KTrl => true | _, _ => false end.
Definition hpc_eqb (a b : hpc) : bool :=
  match a, b with
  | HGate, HGate | HInRecv, HInRecv | HInAwait, HInAwait | HUnreg, HUnreg | HDead, HDead => true
  | HInSend f k, HInSend g j => frame_eqb f g && skind_eqb k j
  | _, _ => false
  end.
Definition hnd_eqb (a b : hnd) : bool :=
  Bool.eqb (h_unary a) (h_unary b) && frame_eqb (h_req a) (h_req b) && hpc_eqb (h_pc a) (h_pc b)
  && Bool.eqb (h_cancel a) (h_cancel b) && Bool.eqb (h_reg a) (h_reg b) && opt_eqb frame_eqb (h_q a) (h_q b)
  && Bool.eqb (h_donesig a) (h_donesig b) && Bool.eqb (h_hsent a) (h_hsent b) && (h_hdr a =? h_hdr b)
  && (h_trl a =? h_trl b).
Definition rdpc_eqb (a b : rdpc) : bool :=
  match a, b with
  | RdRead, RdRead => true
  | RdOffer f, RdOffer g | RdRst f, RdRst g => frame_eqb f g
  | RdFwd h f, RdFwd i g => Nat.eqb h i && frame_eqb f g
  | RdCws e, RdCws e' | RdDead e, RdDead e' => serr_eqb e e'
  | RdWait h e, RdWait i e' => Nat.eqb h i && serr_eqb e e'
  | _, _ => false
  end.
Definition wkpc_eqb (a b : wkpc) : bool :=
  match a, b with
  | WkIdle, WkIdle | WkDead, WkDead => true
  | WkRun h, WkRun i => Nat.eqb h i
  | WkHand f, WkHand g => frame_eqb f g
  | _, _ => false
  end.
Definition wrpc_eqb (a b : wrpc) : bool :=
  match a, b with
  | WrSel, WrSel | WrDead, WrDead => true
  | WrWrite f, WrWrite g => frame_eqb f g
  | _, _ => false
  end.
Definition state_eqb (a b : state) : bool :=
  rdpc_eqb (rd a) (rd b) && wrpc_eqb (wr a) (wr b) && list_eqb wkpc_eqb (wk a) (wk b)
  && Bool.eqb (conn_cancel a) (conn_cancel b) && Bool.eqb (cause_write a) (cause_write b)
  && Bool.eqb (exit_cancel a) (exit_cancel b) && Bool.eqb (crashed a) (crashed b)
  && list_eqb frame_eqb (inbox a) (inbox b) && Bool.eqb (inbox_failed a) (inbox_failed b)
  && Bool.eqb (wfail a) (wfail b) && Bool.eqb (wblock a) (wblock b) && Bool.eqb (srv_stop a) (srv_stop b)
  && Bool.eqb (serve_ctx a) (serve_ctx b)
  && list_eqb hnd_eqb (hs a) (hs b) && list_eqb sev_eqb (log a) (log b).

(* ---- canonical form of a state inside one reaction ---- *)
Definition mkind_code (m : mkind) : list Z :=
  match m with MBad => [0] | MUnkSvc => [1] | MUnkMeth => [2] | MUnary x => [3; x] | MStream x => [4; x] end.
Definition frame_code (f : frame) : list Z := env_code (f_env f) ++ mkind_code (f_mth f) ++ [f_src f; f_dst f].
Definition opres_code (r : opres) : list Z :=
  match r with
  | ORecvMsg b => [0; b] | ORecvEof => [1] | ORecvStatus st => [2; st_code st; st_msg st] | ORecvUnmarshal => [3]
  | OCtx => [4] | OOk => [5] | OHdrSent => [6] | OAwaited => [7]
  end.
Definition sev_code (e : sev) : list Z :=
  match e with
  | SvRead f => 0 :: frame_code f
  | SvJob w f => 1 :: Z.of_nat w :: frame_code f
  | SvInvoke h u i m p d => 2 :: Z.of_nat h :: (if u then 1 else 0) :: i :: p :: d :: mkind_code m
  | SvOp h r => 3 :: Z.of_nat h :: opres_code r
  | SvRet h => [4; Z.of_nat h]
  | SvWrite f => 5 :: frame_code f
  | SvFwd h f => 6 :: Z.of_nat h :: frame_code f
  | SvDrop h f => 7 :: Z.of_nat h :: frame_code f
  | SvTake h f => 8 :: Z.of_nat h :: frame_code f
  | SvServeRet e => [9; match e with SRead => 0 | SReadCtx => 1 | SCtx => 2 | SWrite => 3 end]
  | SvTaken f => 10 :: frame_code f
  | SvWFail f => 11 :: frame_code f
  | SvUnreg h => [12; Z.of_nat h]
  | SvAbandon f => 13 :: frame_code f
  | SvReply h f => 14 :: Z.of_nat h :: frame_code f
  | SvTrailer h f => 15 :: Z.of_nat h :: frame_code f
  | SvLost f => 16 :: frame_code f
  end.
Definition sev_leb (a b : sev) : bool := lex_leb (sev_code a) (sev_code b).
Definition is_write (e : sev) : bool := match e with SvWrite _ => true | _ => false end.
(* events the rig can see *)
Definition visible (e : sev) : bool :=
  match e with SvInvoke _ _ _ _ _ _ | SvOp _ _ | SvRet _ | SvServeRet _ => true | _ => false end.

Definition wk_code (p : wkpc) : list Z :=
  match p with WkIdle => [0] | WkDead => [1] | WkRun h => [2; Z.of_nat h] | WkHand f => 3 :: frame_code f end.
Definition wk_leb (a b : wkpc) : bool := lex_leb (wk_code a) (wk_code b).

(* Inside one reaction only the visible events and the writes (in order) matter, and workers are
   interchangeable: drop the ghost events, sort the others, keep the writes in order, sort the workers. *)
Definition canon (s : state) : state :=
  mkState (inbox s) (inbox_failed s) (wfail s) (wblock s) (srv_stop s) (serve_ctx s) (conn_cancel s)
          (* the cause of the cancellation is only read by a read loop that is still serving *)
          (match rd s with RdCws _ | RdWait _ _ | RdDead _ => false | _ => cause_write s end)
          (exit_cancel s) (rd s) (sort_by wk_leb (wk s)) (wr s) (hs s) (crashed s)
          (sort_by sev_leb (filter visible (log s)) ++ filter is_write (log s)).

Definition clear_log (s : state) : state :=
  mkState (inbox s) (inbox_failed s) (wfail s) (wblock s) (srv_stop s) (serve_ctx s) (conn_cancel s) (cause_write s)
          (exit_cancel s) (rd s) (wk s) (wr s) (hs s) (crashed s) [].

(* Partial-order reduction. A rule instance that (a) stays enabled whatever else happens, (b) disables no other
   rule and (c) commutes with every other rule up to the order of log entries (which [canon] forgets) can be
   taken first without losing any quiescent state. Such are: a handler leaving <-ctx.Done(); once the read loop
   has left serve (nothing is offered to workers or forwarded to queues any more): an idle worker's exit and a
   handler leaving RecvMsg on an empty queue by its context; once the writer is dead (nothing is taken from
   writeChan any more): a worker or a handler giving up its hand-off by the context; the writer's transport
   Write once it can complete (it only frees the writer and, on failure, cancels the connection: every other
   rule's guard is monotone in both). *)
Definition rd_left (s : state) : bool := match rd s with RdCws _ | RdWait _ _ | RdDead _ => true | _ => false end.
Definition wr_dead (s : state) : bool := match wr s with WrDead => true | _ => false end.
Definition r_h_recv_ctx_empty (h : nat) (s : state) : option state :=
  match nth_error (hs s) h with
  | Some k => match h_q k with None => r_h_recv_ctx h s | Some _ => None end
  | None => None
  end.
Definition eager_rules (s : state) : list rule :=
  r_wr_write :: map r_h_await (seq 0 (length (hs s)))
  ++ (if rd_left s then map r_wk_exit (seq 0 (length (wk s))) ++ map r_h_recv_ctx_empty (seq 0 (length (hs s))) else [])
  ++ (if wr_dead s then map r_wk_hand_ctx (seq 0 (length (wk s))) ++ map r_h_send_ctx (seq 0 (length (hs s))) else []).

Definition int_succs (s : state) : list state :=
  match first_enabled (eager_rules s) s with
  | Some s' => [canon s']
  | None => map canon (filter_map (fun r => r s) (rules s))
  end.

(* exploration with a bucketed visited set: states are first compared by a cheap fingerprint *)
Definition mixz (acc z : Z) : Z := (acc * 31 + z) mod 1000003.
Definition hpc_code (p : hpc) : Z :=
  match p with HGate => 1 | HInRecv => 2 | HInSend _ KMsg => 3 | HInSend _ KHdr => 4 | HInSend _ KTrl => 5
             | HInAwait => 6 | HUnreg => 7 | HDead => 8 end.
Definition hnd_fp (k : hnd) : Z :=
  hpc_code (h_pc k) * 16 + (if h_cancel k then 8 else 0) + (if h_reg k then 4 else 0)
  + (match h_q k with Some _ => 2 | None => 0 end) + (if h_donesig k then 1 else 0).
Definition rd_fp (p : rdpc) : Z :=
  match p with RdRead => 1 | RdOffer _ => 2 | RdFwd h _ => 10 + Z.of_nat h | RdRst _ => 3 | RdCws _ => 4
             | RdWait h _ => 40 + Z.of_nat h | RdDead _ => 5 end.
Definition wk_fp (p : wkpc) : Z := match p with WkIdle => 1 | WkDead => 2 | WkRun h => 3 + Z.of_nat h | WkHand _ => 100 end.
Definition state_fp (s : state) : Z :=
  fold_left mixz (map hnd_fp (hs s))
    (fold_left mixz (map wk_fp (wk s))
       (mixz (mixz (mixz (rd_fp (rd s)) (match wr s with WrSel => 1 | WrWrite _ => 2 | WrDead => 3 end))
                   (Z.of_nat (length (log s))))
             ((if conn_cancel s then 1 else 0) + Z.of_nat (length (inbox s)) * 2))).

Definition bseen := list (Z * list state).
Fixpoint b_mem (k : Z) (x : state) (b : bseen) : bool :=
  match b with
  | [] => false
  | (k', l) :: t => if k =? k' then existsb (state_eqb x) l else b_mem k x t
  end.
Fixpoint b_add (k : Z) (x : state) (b : bseen) : bseen :=
  match b with
  | [] => [(k, [x])]
  | (k', l) :: t => if k =? k' then (k', x :: l) :: t else (k', l) :: b_add k x t
  end.
(* add the states of [l] that are new; returns them (in order) and the extended visited set *)
Fixpoint b_fresh (l : list state) (b : bseen) : list state * bseen :=
  match l with
  | [] => ([], b)
  | x :: t => let k := state_fp x in
              if b_mem k x b then b_fresh t b
              else let (r, b') := b_fresh t (b_add k x b) in (x :: r, b')
  end.

(* [keep] prunes successors that can no longer lead to the observation (a state without successors BEFORE
   pruning is quiescent; a state all of whose successors are pruned is a dead end) *)
Fixpoint explore_b (succs : state -> list state) (keep : state -> bool) (fuel : nat) (todo : list state) (seen : bseen)
         (quiet : list state) : option (list state) :=
  match todo with
  | [] => Some quiet
  | s :: rest =>
      match fuel with
      | O => None
      | S f =>
          match succs s with
          | [] => explore_b succs keep f rest seen (if mem state_eqb s quiet then quiet else s :: quiet)
          | ss => let (fresh, seen') := b_fresh (filter keep ss) seen in explore_b succs keep f (fresh ++ rest) seen' quiet
          end
      end
  end.

(* every quiescent state the model can reach in reaction to one environment action; [fuel] bounds the number of
   states expanded (None when it runs out) *)
Definition react_all_f (fuel : nat) (s : state) (a : act) : option (list state) :=
  let s1 := canon (ext (clear_log s) a) in
  explore_b int_succs (fun _ => true) fuel [s1] (b_add (state_fp s1) s1 []) [].

(* The bound used by the checks (states expanded per reaction); see docs/notes-sv.md for the measurement of what
   the unchanged tree needs. *)
Definition explore_fuel : nat := 60000.
Definition react_all := react_all_f explore_fuel.

(* ---- what the model predicts at a quiescent point ---- *)
Fixpoint idx_where {A} (p : A -> bool) (n : nat) (l : list A) : list Z :=
  match l with
  | [] => []
  | x :: t => (if p x then [Z.of_nat n] else []) ++ idx_where p (S n) t
  end.

Definition writes_of (l : list sev) : list frame :=
  filter_map (fun e => match e with SvWrite f => Some f | _ => None end) l.

Definition predict (s : state) : obs :=
  mkObs (filter visible (log s))
        (writes_of (log s))
        (if mu_free s then Some (Z.of_nat (registry_size s)) else None)
        (Z.of_nat (length (inbox s)))
        (idx_where (fun k => h_blocked k && negb (h_returned k)) 0 (hs s))
        (idx_where (fun k => negb (h_returned k) && hdone s k) 0 (hs s))
        (serve_returned s)
        (if wr_alive s then 1 else 0)
        (Z.of_nat (length (filter wk_alive (wk s))))
        (Z.of_nat (length (filter hs_alive (hs s))))
        (wr_blocked s).

Definition obs_eqb (a b : obs) : bool :=
  multiset_eqb sev_eqb (o_events a) (o_events b)
  && list_eqb frame_eqb (o_writes a) (o_writes b)
  && opt_eqb Z.eqb (o_reg a) (o_reg b)
  && (o_inbox a =? o_inbox b)
  && list_eqb Z.eqb (o_blocked a) (o_blocked b)
  && list_eqb Z.eqb (o_ctx a) (o_ctx b)
  && Bool.eqb (o_serve a) (o_serve b)
  && (o_writer a =? o_writer b) && (o_workers a =? o_workers b) && (o_hs a =? o_hs b)
  && Bool.eqb (o_wblocked a) (o_wblocked b).

(* Guided exploration. The log of a reaction only grows, so a state can lead to a quiescent state that predicts
   observation [o] only if the envelopes it has written so far are a prefix of those observed (in order) and
   every visible event it has logged was observed: every other state is pruned. *)
Fixpoint prefix_eqb {A} (eqb : A -> A -> bool) (p l : list A) : bool :=
  match p, l with
  | [], _ => true
  | x :: p', y :: l' => eqb x y && prefix_eqb eqb p' l'
  | _ :: _, [] => false
  end.
Definition consistent (o : obs) (s : state) : bool :=
  prefix_eqb frame_eqb (writes_of (log s)) (o_writes o)
  && forallb (fun e => negb (visible e) || mem sev_eqb e (o_events o)) (log s).
Definition react_guided (fuel : nat) (s : state) (a : act) (o : obs) : option (list state) :=
  let s1 := canon (ext (clear_log s) a) in
  explore_b int_succs (consistent o) fuel [s1] (b_add (state_fp s1) s1 []) [].

(* fast path: the deterministic scheduler ([settle]: first enabled rule) *)
(* an observation with o_inbox < 0 stands for "no quiescent point was awaited after this action": the next action
   follows at once (a fault queued directly behind an envelope); only the environment action is applied *)
Definition unobserved (o : obs) : bool := o_inbox o <? 0.

Fixpoint agree_fast (s : state) (acts : list act) (observed : list obs) : bool :=
  match acts, observed with
  | a :: acts', o :: obs' =>
      if unobserved o then agree_fast (ext s a) acts' obs' else
      let s1 := ext (clear_log s) a in
      let s2 := settle (fuel_of s1) s1 in
      quiescent s2 && obs_eqb (predict s2) o && agree_fast s2 acts' obs'
  | [], [] => true
  | _, _ => false
  end.

(* index of the first step at which no outcome of the model matches the observation; the candidates
   are the model states compatible with everything observed so far *)
Fixpoint agree_from_f (fuel i : nat) (cands : list state) (acts : list act) (observed : list obs) : option nat :=
  match acts, observed with
  | a :: acts', o :: obs' =>
      if unobserved o then agree_from_f fuel (S i) (map (fun s => ext s a) cands) acts' obs' else
      let nexts := flat_map (fun s => match react_guided fuel s a o with
                                      | Some qs => filter (fun s' => obs_eqb (predict s') o) qs
                                      | None => []
                                      end) cands in
      match dedup state_eqb nexts with
      | [] => Some i
      | ns => agree_from_f fuel (S i) ns acts' obs'
      end
  | [], [] => None
  | _, _ => Some i
  end.

Definition agree_from := agree_from_f explore_fuel.

Definition first_disagreement (c : svcase) : option nat :=
  match c with CSrv acts observed => agree_from 0 [init] acts observed end.

Definition agrees (c : svcase) : bool :=
  match c with
  | CSrv acts observed =>
      if agree_fast init acts observed then true
      else match agree_from 0 [init] acts observed with None => true | Some _ => false end
  end.

Definition check_agree_f (fuel : nat) (c : svcase) : list nat :=
  match c with
  | CSrv acts observed =>
      if agree_fast init acts observed then []
      else match agree_from_f fuel 0 [init] acts observed with
           | None => []
           | Some i => [1%nat; (100 + i)%nat]
           end
  end.
Definition check_agree := check_agree_f explore_fuel.

(* how many cases need the all-orders exploration (evidence) *)
Definition needs_fallback (c : svcase) : bool :=
  match c with CSrv acts observed => negb (agree_fast init acts observed) end.

(* ---- the whole observed history of a case (for the property predicates) ---- *)
Definition all_events (c : svcase) : list sev :=
  match c with CSrv _ observed => flat_map (fun o => o_events o ++ map SvWrite (o_writes o)) observed end.
Definition all_writes (c : svcase) : list frame :=
  match c with CSrv _ observed => flat_map o_writes observed end.
Definition delivered (c : svcase) : list frame :=
  match c with CSrv acts _ => filter_map (fun a => match a with ADeliver f => Some f | _ => None end) acts end.

Fixpoint find_bad_fuel (fuel i : nat) (cs : list svcase) : list (nat * list nat) :=
  match cs with
  | [] => []
  | c :: rest =>
      match check_agree_f fuel c with
      | [] => find_bad_fuel fuel (S i) rest
      | rs => (i, rs) :: find_bad_fuel fuel (S i) rest
      end
  end.
Definition find_bad_from := find_bad_fuel explore_fuel.

(* Executable correspondence check between Model/Server.v and the real server
   connection (goat.Server.Serve on a scripted transport, handler bodies gated by
   the schedule), on lock-step scenarios: after every environment action the real
   code was run to quiescence (synctest.Wait) and observed; the model must be able
   to reach, by some order of its internal rules, a quiescent state that predicts
   the same observation. *)
From Coq Require Import List ZArith Bool Lia.
Import ListNotations.
From Goat Require Import Base.Explore Model.Client Model.Server.
Open Scope Z_scope.

(* ---- helpers on envelopes (kept local: this file does not depend on Check/ClientC.v) ---- *)
Definition opt_eqb {A} (f : A -> A -> bool) (a b : option A) : bool :=
  match a, b with None, None => true | Some x, Some y => f x y | _, _ => false end.
Definition mdv_eqb (a b : mdv) : bool :=
  match a, b with MdOk x, MdOk y => x =? y | MdBad, MdBad => true | _, _ => false end.
Definition status_eqb (a b : status) : bool := (st_code a =? st_code b) && (st_msg a =? st_msg b).
Definition env_eqb (a b : env) : bool :=
  (eid a =? eid b) && opt_eqb mdv_eqb (ehdr a) (ehdr b) && opt_eqb status_eqb (estatus a) (estatus b)
  && opt_eqb Z.eqb (ebody a) (ebody b) && opt_eqb mdv_eqb (etrl a) (etrl b) && Bool.eqb (erst a) (erst b).
Definition count {A} (f : A -> A -> bool) (x : A) (l : list A) : nat := length (filter (f x) l).
Definition multiset_eqb {A} (f : A -> A -> bool) (a b : list A) : bool :=
  Nat.eqb (length a) (length b) && forallb (fun x => Nat.eqb (count f x a) (count f x b)) a.
Definition optZ_code (o : option Z) : list Z := match o with None => [0] | Some x => [1; x] end.
Definition mdv_code (m : option mdv) : list Z := match m with None => [0] | Some MdBad => [1] | Some (MdOk t) => [2; t] end.
Definition env_code (e : env) : list Z :=
  eid e :: mdv_code (ehdr e) ++ match estatus e with None => [0] | Some s => [1; st_code s; st_msg s] end
  ++ optZ_code (ebody e) ++ mdv_code (etrl e) ++ [if erst e then 1 else 0].
Fixpoint lex_leb (a b : list Z) : bool :=
  match a, b with
  | [], _ => true
  | _ :: _, [] => false
  | x :: a', y :: b' => if x <? y then true else if y <? x then false else lex_leb a' b'
  end.

Record obs := mkObs {
  o_events : list sev;      (* handler invocations / operation results / returns / Serve return since the
                               previous action (any order) *)
  o_writes : list frame;    (* envelopes the transport accepted since the previous action, in order *)
  o_reg : option Z;         (* len(h.streams); None = h.mu was held *)
  o_inbox : Z;              (* delivered envelopes the read loop has not taken *)
  o_blocked : list Z;       (* handlers parked inside an operation of their body *)
  o_ctx : list Z;           (* handlers that have not returned and whose context is done *)
  o_serve : bool;           (* Serve has returned *)
  o_writer : Z;             (* writer goroutine alive *)
  o_workers : Z;            (* live worker goroutines *)
  o_hs : Z;                 (* live runStream goroutines *)
  o_wblocked : bool }.      (* a transport Write is blocked *)

Inductive svcase := CSrv (acts : list act) (observed : list obs).

(* ---- decidable equality ---- *)
Definition mkind_eqb (a b : mkind) : bool :=
  match a, b with
  | MBad, MBad | MUnkSvc, MUnkSvc | MUnkMeth, MUnkMeth => true
  | MUnary x, MUnary y | MStream x, MStream y => x =? y
  | _, _ => false
  end.
Definition frame_eqb (a b : frame) : bool :=
  env_eqb (f_env a) (f_env b) && mkind_eqb (f_mth a) (f_mth b) && (f_src a =? f_src b) && (f_dst a =? f_dst b).
Definition opres_eqb (a b : opres) : bool :=
  match a, b with
  | ORecvMsg x, ORecvMsg y => x =? y
  | ORecvStatus x, ORecvStatus y => status_eqb x y
  | ORecvEof, ORecvEof | ORecvUnmarshal, ORecvUnmarshal | OCtx, OCtx | OOk, OOk | OHdrSent, OHdrSent
  | OAwaited, OAwaited => true
  | _, _ => false
  end.
Definition serr_eqb (a b : serr) : bool :=
  match a, b with SRead, SRead | SReadCtx, SReadCtx | SCtx, SCtx | SWrite, SWrite => true | _, _ => false end.
Definition sev_eqb (a b : sev) : bool :=
  match a, b with
  | SvRead x, SvRead y => frame_eqb x y
  | SvJob w x, SvJob v y => Nat.eqb w v && frame_eqb x y
  | SvInvoke h u i m p d, SvInvoke h' u' i' m' p' d' =>
      Nat.eqb h h' && Bool.eqb u u' && (i =? i') && mkind_eqb m m' && (p =? p') && (d =? d')
  | SvOp h r, SvOp h' r' => Nat.eqb h h' && opres_eqb r r'
  | SvRet h, SvRet h' => Nat.eqb h h'
  | SvWrite x, SvWrite y | SvTaken x, SvTaken y | SvWFail x, SvWFail y | SvAbandon x, SvAbandon y => frame_eqb x y
  | SvUnreg h, SvUnreg h' => Nat.eqb h h'
  | SvReply h x, SvReply h' y | SvTrailer h x, SvTrailer h' y => Nat.eqb h h' && frame_eqb x y
  | SvLost x, SvLost y => frame_eqb x y
  | SvFwd h x, SvFwd h' y | SvDrop h x, SvDrop h' y | SvTake h x, SvTake h' y => Nat.eqb h h' && frame_eqb x y
  | SvServeRet x, SvServeRet y => serr_eqb x y
  | _, _ => false
  end.
Definition skind_eqb (a b : skind) : bool :=
  match a, b with KMsg, KMsg | KHdr, KHdr | KTrl, KTrl => true | _, _ => false end.
Definition hpc_eqb (a b : hpc) : bool :=
  match a, b with
  | HGate, HGate | HInRecv, HInRecv | HInAwait, HInAwait | HUnreg, HUnreg | HDead, HDead => true
  | HInSend f k, HInSend g j => frame_eqb f g && skind_eqb k j
  | _, _ => false
  end.
Definition hnd_eqb (a b : hnd) : bool :=
  Bool.eqb (h_unary a) (h_unary b) && frame_eqb (h_req a) (h_req b) && hpc_eqb (h_pc a) (h_pc b)
  && Bool.eqb (h_cancel a) (h_cancel b) && Bool.eqb (h_reg a) (h_reg b) && opt_eqb frame_eqb (h_q a) (h_q b)
  && Bool.eqb (h_donesig a) (h_donesig b) && Bool.eqb (h_hsent a) (h_hsent b) && (h_hdr a =? h_hdr b)
  && (h_trl a =? h_trl b).
Definition rdpc_eqb (a b : rdpc) : bool :=
  match a, b with
  | RdRead, RdRead => true
  | RdOffer f, RdOffer g | RdRst f, RdRst g => frame_eqb f g
  | RdFwd h f, RdFwd i g => Nat.eqb h i && frame_eqb f g
  | RdCws e, RdCws e' | RdDead e, RdDead e' => serr_eqb e e'
  | RdWait h e, RdWait i e' => Nat.eqb h i && serr_eqb e e'
  | _, _ => false
  end.
Definition wkpc_eqb (a b : wkpc) : bool :=
  match a, b with
  | WkIdle, WkIdle | WkDead, WkDead => true
  | WkRun h, WkRun i => Nat.eqb h i
  | WkHand f, WkHand g => frame_eqb f g
  | _, _ => false
  end.
Definition wrpc_eqb (a b : wrpc) : bool :=
  match a, b with
  | WrSel, WrSel | WrDead, WrDead => true
  | WrWrite f, WrWrite g => frame_eqb f g
  | _, _ => false
  end.
Definition state_eqb (a b : state) : bool :=
  rdpc_eqb (rd a) (rd b) && wrpc_eqb (wr a) (wr b) && list_eqb wkpc_eqb (wk a) (wk b)
  && Bool.eqb (conn_cancel a) (conn_cancel b) && Bool.eqb (cause_write a) (cause_write b)
  && Bool.eqb (exit_cancel a) (exit_cancel b) && Bool.eqb (crashed a) (crashed b)
  && list_eqb frame_eqb (inbox a) (inbox b) && Bool.eqb (inbox_failed a) (inbox_failed b)
  && Bool.eqb (wfail a) (wfail b) && Bool.eqb (wblock a) (wblock b) && Bool.eqb (srv_stop a) (srv_stop b)
  && Bool.eqb (serve_ctx a) (serve_ctx b)
  && list_eqb hnd_eqb (hs a) (hs b) && list_eqb sev_eqb (log a) (log b).

(* ---- canonical form of a state inside one reaction ---- *)
Definition mkind_code (m : mkind) : list Z :=
  match m with MBad => [0] | MUnkSvc => [1] | MUnkMeth => [2] | MUnary x => [3; x] | MStream x => [4; x] end.
Definition frame_code (f : frame) : list Z := env_code (f_env f) ++ mkind_code (f_mth f) ++ [f_src f; f_dst f].
Definition opres_code (r : opres) : list Z :=
  match r with
  | ORecvMsg b => [0; b] | ORecvEof => [1] | ORecvStatus st => [2; st_code st; st_msg st] | ORecvUnmarshal => [3]
  | OCtx => [4] | OOk => [5] | OHdrSent => [6] | OAwaited => [7]
  end.
Definition sev_code (e : sev) : list Z :=
  match e with
  | SvRead f => 0 :: frame_code f
  | SvJob w f => 1 :: Z.of_nat w :: frame_code f
  | SvInvoke h u i m p d => 2 :: Z.of_nat h :: (if u then 1 else 0) :: i :: p :: d :: mkind_code m
  | SvOp h r => 3 :: Z.of_nat h :: opres_code r
  | SvRet h => [4; Z.of_nat h]
  | SvWrite f => 5 :: frame_code f
  | SvFwd h f => 6 :: Z.of_nat h :: frame_code f
  | SvDrop h f => 7 :: Z.of_nat h :: frame_code f
  | SvTake h f => 8 :: Z.of_nat h :: frame_code f
  | SvServeRet e => [9; match e with SRead => 0 | SReadCtx => 1 | SCtx => 2 | SWrite => 3 end]
  | SvTaken f => 10 :: frame_code f
  | SvWFail f => 11 :: frame_code f
  | SvUnreg h => [12; Z.of_nat h]
  | SvAbandon f => 13 :: frame_code f
  | SvReply h f => 14 :: Z.of_nat h :: frame_code f
  | SvTrailer h f => 15 :: Z.of_nat h :: frame_code f
  | SvLost f => 16 :: frame_code f
  end.
Definition sev_leb (a b : sev) : bool := lex_leb (sev_code a) (sev_code b).
Definition is_write (e : sev) : bool := match e with SvWrite _ => true | _ => false end.
(* events the rig can see *)
Definition visible (e : sev) : bool :=
  match e with SvInvoke _ _ _ _ _ _ | SvOp _ _ | SvRet _ | SvServeRet _ => true | _ => false end.

Definition wk_code (p : wkpc) : list Z :=
  match p with WkIdle => [0] | WkDead => [1] | WkRun h => [2; Z.of_nat h] | WkHand f => 3 :: frame_code f end.
Definition wk_leb (a b : wkpc) : bool := lex_leb (wk_code a) (wk_code b).

(* Inside one reaction only the visible events and the writes (in order) matter, and workers are
   interchangeable: drop the ghost events, sort the others, keep the writes in order, sort the workers. *)
Definition canon (s : state) : state :=
  mkState (inbox s) (inbox_failed s) (wfail s) (wblock s) (srv_stop s) (serve_ctx s) (conn_cancel s) (cause_write s)
          (exit_cancel s) (rd s) (sort_by wk_leb (wk s)) (wr s) (hs s) (crashed s)
          (sort_by sev_leb (filter visible (log s)) ++ filter is_write (log s)).

Definition clear_log (s : state) : state :=
  mkState (inbox s) (inbox_failed s) (wfail s) (wblock s) (srv_stop s) (serve_ctx s) (conn_cancel s) (cause_write s)
          (exit_cancel s) (rd s) (wk s) (wr s) (hs s) (crashed s) [].

Definition int_succs (s : state) : list state := map canon (filter_map (fun r => r s) (rules s)).

(* every quiescent state the model can reach in reaction to one environment action *)
Definition react_all (s : state) (a : act) : option (list state) :=
  let s1 := canon (ext (clear_log s) a) in
  explore state_eqb int_succs 5000 [s1] [s1] [].

(* ---- what the model predicts at a quiescent point ---- *)
Fixpoint idx_where {A} (p : A -> bool) (n : nat) (l : list A) : list Z :=
  match l with
  | [] => []
  | x :: t => (if p x then [Z.of_nat n] else []) ++ idx_where p (S n) t
  end.

Definition writes_of (l : list sev) : list frame :=
  filter_map (fun e => match e with SvWrite f => Some f | _ => None end) l.

Definition predict (s : state) : obs :=
  mkObs (filter visible (log s))
        (writes_of (log s))
        (if mu_free s then Some (Z.of_nat (registry_size s)) else None)
        (Z.of_nat (length (inbox s)))
        (idx_where (fun k => h_blocked k && negb (h_returned k)) 0 (hs s))
        (idx_where (fun k => negb (h_returned k) && hdone s k) 0 (hs s))
        (serve_returned s)
        (if wr_alive s then 1 else 0)
        (Z.of_nat (length (filter wk_alive (wk s))))
        (Z.of_nat (length (filter hs_alive (hs s))))
        (wr_blocked s).

Definition obs_eqb (a b : obs) : bool :=
  multiset_eqb sev_eqb (o_events a) (o_events b)
  && list_eqb frame_eqb (o_writes a) (o_writes b)
  && opt_eqb Z.eqb (o_reg a) (o_reg b)
  && (o_inbox a =? o_inbox b)
  && list_eqb Z.eqb (o_blocked a) (o_blocked b)
  && list_eqb Z.eqb (o_ctx a) (o_ctx b)
  && Bool.eqb (o_serve a) (o_serve b)
  && (o_writer a =? o_writer b) && (o_workers a =? o_workers b) && (o_hs a =? o_hs b)
  && Bool.eqb (o_wblocked a) (o_wblocked b).

(* fast path: the deterministic scheduler ([settle]: first enabled rule) *)
Fixpoint agree_fast (s : state) (acts : list act) (observed : list obs) : bool :=
  match acts, observed with
  | a :: acts', o :: obs' =>
      let s1 := ext (clear_log s) a in
      let s2 := settle (fuel_of s1) s1 in
      quiescent s2 && obs_eqb (predict s2) o && agree_fast s2 acts' obs'
  | [], [] => true
  | _, _ => false
  end.

(* index of the first step at which no outcome of the model matches the observation; the candidates
   are the model states compatible with everything observed so far *)
Fixpoint agree_from (i : nat) (cands : list state) (acts : list act) (observed : list obs) : option nat :=
  match acts, observed with
  | a :: acts', o :: obs' =>
      let nexts := flat_map (fun s => match react_all s a with
                                      | Some qs => filter (fun s' => obs_eqb (predict s') o) qs
                                      | None => []
                                      end) cands in
      match dedup state_eqb nexts with
      | [] => Some i
      | ns => agree_from (S i) ns acts' obs'
      end
  | [], [] => None
  | _, _ => Some i
  end.

Definition first_disagreement (c : svcase) : option nat :=
  match c with CSrv acts observed => agree_from 0 [init] acts observed end.

Definition agrees (c : svcase) : bool :=
  match c with
  | CSrv acts observed =>
      if agree_fast init acts observed then true
      else match agree_from 0 [init] acts observed with None => true | Some _ => false end
  end.

Definition check_agree (c : svcase) : list nat :=
  match c with
  | CSrv acts observed =>
      if agree_fast init acts observed then []
      else match agree_from 0 [init] acts observed with
           | None => []
           | Some i => [1%nat; (100 + i)%nat]
           end
  end.

(* ---- the whole observed history of a case (for the property predicates) ---- *)
Definition all_events (c : svcase) : list sev :=
  match c with CSrv _ observed => flat_map (fun o => o_events o ++ map SvWrite (o_writes o)) observed end.
Definition all_writes (c : svcase) : list frame :=
  match c with CSrv _ observed => flat_map o_writes observed end.
Definition delivered (c : svcase) : list frame :=
  match c with CSrv acts _ => filter_map (fun a => match a with ADeliver f => Some f | _ => None end) acts end.

Fixpoint find_bad_from (i : nat) (cs : list svcase) : list (nat * list nat) :=
  match cs with
  | [] => []
  | c :: rest =>
      match check_agree c with
      | [] => find_bad_from (S i) rest
      | rs => (i, rs) :: find_bad_from (S i) rest
      end
  end.

(* Executable correspondence check between Model/Client.v and the real client,
   on lock-step scenarios: after every environment action the real code was run
   to quiescence (synctest.Wait) and observed; the model reacts to the same
   action ([react]) and must predict the same observation. *)
From Coq Require Import List ZArith Bool Lia.
Import ListNotations.
From Goat Require Import Base.Explore Model.Client.
Open Scope Z_scope.

Record obs := mkObs {
  o_events : list cev;            (* API returns and wire writes since the previous action, in any order *)
  o_reg : option Z;               (* registry size; None = the registry lock was held *)
  o_pending : list (Z * Z);       (* (call, op): op 0 call itself, 1 Recv, 2 Send/CloseSend, 3 Header, 4 Trailer *)
  o_loops : Z;                    (* live stream read-loop goroutines *)
  o_mux : Z }.                    (* live multiplexer read-loop goroutines *)

Inductive ccase :=
| CClient (acts : list act) (observed : list obs)
| CClientWedged (acts : list act) (observed : list obs) (pending : list (Z * Z)).

(* ---- decidable equality on events ---- *)
Definition mdv_eqb (a b : mdv) : bool :=
  match a, b with MdOk x, MdOk y => x =? y | MdBad, MdBad => true | _, _ => false end.
Definition opt_eqb {A} (f : A -> A -> bool) (a b : option A) : bool :=
  match a, b with None, None => true | Some x, Some y => f x y | _, _ => false end.
Definition status_eqb (a b : status) : bool := (st_code a =? st_code b) && (st_msg a =? st_msg b).
Definition env_eqb (a b : env) : bool :=
  (eid a =? eid b) && opt_eqb mdv_eqb (ehdr a) (ehdr b) && opt_eqb status_eqb (estatus a) (estatus b)
  && opt_eqb Z.eqb (ebody a) (ebody b) && opt_eqb mdv_eqb (etrl a) (etrl b) && Bool.eqb (erst a) (erst b).
Definition cerr_eqb (a b : cerr) : bool :=
  match a, b with
  | EConn, EConn | EClosed, EClosed | ECanceled, ECanceled | EDeadline, EDeadline
  | ERawCanceled, ERawCanceled | ERawDeadline, ERawDeadline | EWrite, EWrite
  | EMalformed, EMalformed | EUnmarshal, EUnmarshal | EReset, EReset | EBadMd, EBadMd | EEof, EEof => true
  | EStatus x, EStatus y => status_eqb x y
  | _, _ => false
  end.
Definition ures_eqb (a b : ures) : bool :=
  match a, b with UOk x, UOk y => x =? y | UErr x, UErr y => cerr_eqb x y | _, _ => false end.
Definition rres_eqb (a b : rres) : bool :=
  match a, b with RMsg x, RMsg y => x =? y | RErr x, RErr y => cerr_eqb x y | _, _ => false end.
Definition hres_eqb (a b : mdv + cerr) : bool :=
  match a, b with inl x, inl y => mdv_eqb x y | inr x, inr y => cerr_eqb x y | _, _ => false end.
Definition cev_eqb (a b : cev) : bool :=
  match a, b with
  | EvWrite x, EvWrite y => env_eqb x y
  | EvUnhandled x, EvUnhandled y => x =? y
  | EvUnaryRet c x, EvUnaryRet d y => Nat.eqb c d && ures_eqb x y
  | EvOpenRet c x, EvOpenRet d y => Nat.eqb c d && opt_eqb cerr_eqb x y
  | EvRecvRet c x, EvRecvRet d y => Nat.eqb c d && rres_eqb x y
  | EvSendRet c x, EvSendRet d y => Nat.eqb c d && opt_eqb cerr_eqb x y
  | EvCloseSendRet c x, EvCloseSendRet d y => Nat.eqb c d && opt_eqb cerr_eqb x y
  | EvHeaderRet c x, EvHeaderRet d y => Nat.eqb c d && hres_eqb x y
  | EvTrailerRet c x, EvTrailerRet d y => Nat.eqb c d && opt_eqb Z.eqb x y
  | EvPanic c, EvPanic d => Nat.eqb c d
  | EvRead x t, EvRead y u => env_eqb x y && opt_eqb Nat.eqb t u
  | EvTake c x, EvTake d y => Nat.eqb c d && env_eqb x y
  | EvDrop c x, EvDrop d y => Nat.eqb c d && env_eqb x y
  | _, _ => false
  end.

Definition count {A} (f : A -> A -> bool) (x : A) (l : list A) : nat := length (filter (f x) l).
Definition multiset_eqb {A} (f : A -> A -> bool) (a b : list A) : bool :=
  Nat.eqb (length a) (length b) && forallb (fun x => Nat.eqb (count f x a) (count f x b)) a.

Definition pair_eqb (a b : Z * Z) : bool := (fst a =? fst b) && (snd a =? snd b).

(* ---- structural equality on states (for the visited set of the exploration) ---- *)
Definition chan_eqb (a b : chan) : bool := opt_eqb env_eqb (cbuf a) (cbuf b) && Bool.eqb (cclosed a) (cclosed b).
Definition cpc_eqb (a b : cpc) : bool :=
  match a, b with
  | PCheck x, PCheck y => Bool.eqb x y
  | PParked, PParked | PReg, PReg | PWait, PWait | PRet, PRet | POpen, POpen | POpenFailed, POpenFailed => true
  | PUnreg x, PUnreg y => ures_eqb x y
  | POpenUnreg x, POpenUnreg y => cerr_eqb x y
  | _, _ => false
  end.
Definition slpc_eqb (a b : slpc) : bool :=
  match a, b with
  | LRead, LRead | LExit, LExit | LTdUnreg, LTdUnreg | LDead, LDead => true
  | LHand x, LHand y => x =? y
  | _, _ => false
  end.
Definition rpc_eqb (a b : rpc) : bool :=
  match a, b with
  | RNone, RNone | RParked, RParked | RSel, RSel | RFinal, RFinal => true
  | RCheck x, RCheck y => Bool.eqb x y
  | _, _ => false
  end.
Definition opc_eqb (a b : opc) : bool := match a, b with ONone, ONone | OPending, OPending => true | _, _ => false end.
Definition ctxst_eqb (a b : ctxst) : bool :=
  match a, b with CtxLive, CtxLive | CtxCanceled, CtxCanceled | CtxDeadline, CtxDeadline => true | _, _ => false end.
Definition call_eqb (a b : call) : bool :=
  Bool.eqb (k_unary a) (k_unary b) && (k_payload a =? k_payload b) && cpc_eqb (k_pc a) (k_pc b) && (k_id a =? k_id b)
  && chan_eqb (k_chan a) (k_chan b) && Bool.eqb (k_reg a) (k_reg b) && ctxst_eqb (k_ctx a) (k_ctx b)
  && slpc_eqb (s_loop a) (s_loop b) && Bool.eqb (s_ctxc a) (s_ctxc b) && opt_eqb hres_eqb (s_latch a) (s_latch b)
  && Bool.eqb (s_rchclosed a) (s_rchclosed b) && Bool.eqb (s_done a) (s_done b) && opt_eqb cerr_eqb (s_rerr a) (s_rerr b)
  && opt_eqb mdv_eqb (s_trl a) (s_trl b) && opt_eqb cerr_eqb (l_rerr a) (l_rerr b) && opt_eqb mdv_eqb (l_trl a) (l_trl b)
  && Bool.eqb (l_hastrl a) (l_hastrl b) && Bool.eqb (l_abort a) (l_abort b) && rpc_eqb (s_recv a) (s_recv b)
  && opc_eqb (s_header a) (s_header b) && list_eqb (opt_eqb Z.eqb) (s_sendq a) (s_sendq b)
  && opc_eqb (s_trailerq a) (s_trailerq b).
Definition rlpc_eqb (a b : rlpc) : bool :=
  match a, b with
  | RLRead, RLRead | RLDead, RLDead => true
  | RLHold c x, RLHold d y => Nat.eqb c d && env_eqb x y
  | _, _ => false
  end.
Definition state_eqb (a b : state) : bool :=
  (counter a =? counter b) && Bool.eqb (rerr a) (rerr b) && rlpc_eqb (rl a) (rl b)
  && list_eqb env_eqb (inbox a) (inbox b) && Bool.eqb (inbox_failed a) (inbox_failed b)
  && Bool.eqb (wfail a) (wfail b) && list_eqb call_eqb (calls a) (calls b) && list_eqb cev_eqb (log a) (log b).

(* a total preorder on events, to canonicalise the order of the events of one reaction *)
Definition cerr_code (e : cerr) : list Z :=
  match e with
  | EConn => [1] | EClosed => [2] | ECanceled => [3] | EDeadline => [4] | ERawCanceled => [5] | ERawDeadline => [6]
  | EWrite => [7] | EStatus s => [8; st_code s; st_msg s] | EMalformed => [9] | EUnmarshal => [10] | EReset => [11]
  | EBadMd => [12] | EEof => [13]
  end.
Definition optZ_code (o : option Z) : list Z := match o with None => [0] | Some x => [1; x] end.
Definition mdv_code (m : option mdv) : list Z := match m with None => [0] | Some MdBad => [1] | Some (MdOk t) => [2; t] end.
Definition env_code (e : env) : list Z :=
  eid e :: mdv_code (ehdr e) ++ match estatus e with None => [0] | Some s => [1; st_code s; st_msg s] end
  ++ optZ_code (ebody e) ++ mdv_code (etrl e) ++ [if erst e then 1 else 0].
Definition cev_code (e : cev) : list Z :=
  match e with
  | EvWrite x => 1 :: env_code x
  | EvUnhandled i => [2; i]
  | EvUnaryRet c r => 3 :: Z.of_nat c :: match r with UOk b => [0; b] | UErr x => 1 :: cerr_code x end
  | EvOpenRet c r => 4 :: Z.of_nat c :: match r with None => [0] | Some x => 1 :: cerr_code x end
  | EvRecvRet c r => 5 :: Z.of_nat c :: match r with RMsg b => [0; b] | RErr x => 1 :: cerr_code x end
  | EvSendRet c r => 6 :: Z.of_nat c :: match r with None => [0] | Some x => 1 :: cerr_code x end
  | EvCloseSendRet c r => 7 :: Z.of_nat c :: match r with None => [0] | Some x => 1 :: cerr_code x end
  | EvHeaderRet c r => 8 :: Z.of_nat c :: match r with inl m => 0 :: mdv_code (Some m) | inr x => 1 :: cerr_code x end
  | EvTrailerRet c r => 9 :: Z.of_nat c :: optZ_code r
  | EvPanic c => [10; Z.of_nat c]
  | EvRead x t => 11 :: match t with None => [0] | Some c => [1; Z.of_nat c] end ++ env_code x
  | EvTake c x => 12 :: Z.of_nat c :: env_code x
  | EvDrop c x => 13 :: Z.of_nat c :: env_code x
  end.
Fixpoint lex_leb (a b : list Z) : bool :=
  match a, b with
  | [], _ => true
  | _ :: _, [] => false
  | x :: a', y :: b' => if x <? y then true else if y <? x then false else lex_leb a' b'
  end.
Definition cev_leb (a b : cev) : bool := lex_leb (cev_code a) (cev_code b).

(* the events logged since [base] in canonical order *)
Definition canon (base : nat) (s : state) : state :=
  mkState (counter s) (rerr s) (rl s) (inbox s) (inbox_failed s) (wfail s) (calls s)
          (firstn base (log s) ++ sort_by cev_leb (skipn base (log s))).

Definition int_succs (base : nat) (s : state) : list state :=
  map (canon base) (filter_map (fun r => r s) (rules s)).

(* every quiescent state the model can reach in reaction to one environment action,
   over all orders of the internal rules *)
Definition react_all (s : state) (a : act) : option (list state) :=
  let s1 := ext s a in
  explore state_eqb (int_succs (length (log s))) 20000 [s1] [s1] [].

(* ---- what the model predicts at a quiescent point ---- *)
(* not observed on the real code: the log line of an unhandled id and the ghost events *)
Definition is_unhandled (e : cev) : bool :=
  match e with EvUnhandled _ | EvRead _ _ | EvTake _ _ | EvDrop _ _ => true | _ => false end.

Fixpoint pending_from (n : nat) (ks : list call) : list (Z * Z) :=
  match ks with
  | [] => []
  | k :: t =>
      (if call_pending k then [(Z.of_nat n, 0)] else []) ++
      (if recv_pending k then [(Z.of_nat n, 1)] else []) ++
      (if send_pending k then [(Z.of_nat n, 2)] else []) ++
      (if header_pending k then [(Z.of_nat n, 3)] else []) ++
      (if trailer_pending k then [(Z.of_nat n, 4)] else []) ++
      pending_from (S n) t
  end.

Definition predict (prev s : state) : obs :=
  mkObs (filter (fun e => negb (is_unhandled e)) (skipn (length (log prev)) (log s)))
        (Some (Z.of_nat (registry_size s)))
        (pending_from 0 (calls s))
        (Z.of_nat (length (filter loop_alive (calls s))))
        (match rl s with RLDead => 0 | _ => 1 end).

Definition obs_eqb (a b : obs) : bool :=
  multiset_eqb cev_eqb (o_events a) (o_events b)
  && opt_eqb Z.eqb (o_reg a) (o_reg b)
  && multiset_eqb pair_eqb (o_pending a) (o_pending b)
  && (o_loops a =? o_loops b) && (o_mux a =? o_mux b).

(* index of the first step at which no predicted outcome matches the observation; the candidates are
   the model states compatible with everything observed so far *)
Fixpoint agree_from (i : nat) (cands : list state) (acts : list act) (observed : list obs) : option nat :=
  match acts, observed with
  | a :: acts', o :: obs' =>
      let nexts := flat_map (fun s => match react_all s a with
                                      | Some qs => filter (fun s' => obs_eqb (predict s s') o) qs
                                      | None => []
                                      end) cands in
      match dedup state_eqb nexts with
      | [] => Some i
      | ns => agree_from (S i) ns acts' obs'
      end
  | [], [] => None
  | _, _ => Some i
  end.

Definition agrees (c : ccase) : bool :=
  match c with
  | CClient acts observed => match agree_from 0 [init] acts observed with None => true | Some _ => false end
  | CClientWedged acts observed pending =>
      (* the model has no state in which a goroutine waits for a mutex for ever: a wedge observed on the
         real code is always a disagreement *)
      false
  end.

Definition first_disagreement (c : ccase) : option nat :=
  match c with
  | CClient acts observed => agree_from 0 [init] acts observed
  | CClientWedged acts observed _ => agree_from 0 [init] (firstn (length observed) acts) observed
  end.

(* generic checker: reason 1 = disagreement; the second number is 100 + the
   index of the first disagreeing step (for diagnosis) *)
Definition check_agree (c : ccase) : list nat :=
  if agrees c then []
  else 1%nat :: match first_disagreement c with Some i => [(100 + i)%nat] | None => [99%nat] end.

Fixpoint find_bad_from (i : nat) (cs : list ccase) : list (nat * list nat) :=
  match cs with
  | [] => []
  | c :: rest =>
      match check_agree c with
      | [] => find_bad_from (S i) rest
      | rs => (i, rs) :: find_bad_from (S i) rest
      end
  end.

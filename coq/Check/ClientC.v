(* Executable correspondence check between Model/Client.v and the real client,
   on lock-step scenarios: after every environment action the real code was run
   to quiescence (synctest.Wait) and observed; the model reacts to the same
   action ([react]) and must predict the same observation. *)
From Coq Require Import List ZArith Bool Lia.
Import ListNotations.
From Goat Require Import Model.Client.
Open Scope Z_scope.

Record obs := mkObs {
  o_events : list cev;            (* API returns and wire writes since the previous action, in any order *)
  o_reg : option Z;               (* registry size; None = the registry lock was held *)
  o_pending : list (Z * Z);       (* (call, op): op 0 call itself, 1 Recv, 2 Send/CloseSend, 3 Header, 4 Trailer *)
  o_loops : Z;                    (* live stream read-loop goroutines *)
  o_mux : Z }.                    (* live multiplexer read-loop goroutines *)

Inductive ccase :=
| CClient (acts : list act) (observed : list obs)
| CClientWedged (acts : list act) (observed : list obs) (pending : list (Z * Z)).

(* ---- decidable equality on events ---- *)
Definition mdv_eqb (a b : mdv) : bool :=
  match a, b with MdOk x, MdOk y => x =? y | MdBad, MdBad => true | _, _ => false end.
Definition opt_eqb {A} (f : A -> A -> bool) (a b : option A) : bool :=
  match a, b with None, None => true | Some x, Some y => f x y | _, _ => false end.
Definition status_eqb (a b : status) : bool := (st_code a =? st_code b) && (st_msg a =? st_msg b).
Definition env_eqb (a b : env) : bool :=
  (eid a =? eid b) && opt_eqb mdv_eqb (ehdr a) (ehdr b) && opt_eqb status_eqb (estatus a) (estatus b)
  && opt_eqb Z.eqb (ebody a) (ebody b) && opt_eqb mdv_eqb (etrl a) (etrl b) && Bool.eqb (erst a) (erst b).
Definition cerr_eqb (a b : cerr) : bool :=
  match a, b with
  | EConn, EConn | EClosed, EClosed | ECanceled, ECanceled | EDeadline, EDeadline
  | ERawCanceled, ERawCanceled | ERawDeadline, ERawDeadline | EWrite, EWrite
  | EMalformed, EMalformed | EUnmarshal, EUnmarshal | EReset, EReset | EBadMd, EBadMd | EEof, EEof => true
  | EStatus x, EStatus y => status_eqb x y
  | _, _ => false
  end.
Definition ures_eqb (a b : ures) : bool :=
  match a, b with UOk x, UOk y => x =? y | UErr x, UErr y => cerr_eqb x y | _, _ => false end.
Definition rres_eqb (a b : rres) : bool :=
  match a, b with RMsg x, RMsg y => x =? y | RErr x, RErr y => cerr_eqb x y | _, _ => false end.
Definition hres_eqb (a b : mdv + cerr) : bool :=
  match a, b with inl x, inl y => mdv_eqb x y | inr x, inr y => cerr_eqb x y | _, _ => false end.
Definition cev_eqb (a b : cev) : bool :=
  match a, b with
  | EvWrite x, EvWrite y => env_eqb x y
  | EvUnhandled x, EvUnhandled y => x =? y
  | EvUnaryRet c x, EvUnaryRet d y => Nat.eqb c d && ures_eqb x y
  | EvOpenRet c x, EvOpenRet d y => Nat.eqb c d && opt_eqb cerr_eqb x y
  | EvRecvRet c x, EvRecvRet d y => Nat.eqb c d && rres_eqb x y
  | EvSendRet c x, EvSendRet d y => Nat.eqb c d && opt_eqb cerr_eqb x y
  | EvCloseSendRet c x, EvCloseSendRet d y => Nat.eqb c d && opt_eqb cerr_eqb x y
  | EvHeaderRet c x, EvHeaderRet d y => Nat.eqb c d && hres_eqb x y
  | EvTrailerRet c x, EvTrailerRet d y => Nat.eqb c d && opt_eqb Z.eqb x y
  | EvPanic c, EvPanic d => Nat.eqb c d
  | _, _ => false
  end.

Definition count {A} (f : A -> A -> bool) (x : A) (l : list A) : nat := length (filter (f x) l).
Definition multiset_eqb {A} (f : A -> A -> bool) (a b : list A) : bool :=
  Nat.eqb (length a) (length b) && forallb (fun x => Nat.eqb (count f x a) (count f x b)) a.

Definition pair_eqb (a b : Z * Z) : bool := (fst a =? fst b) && (snd a =? snd b).

(* ---- what the model predicts at a quiescent point ---- *)
Definition is_unhandled (e : cev) : bool := match e with EvUnhandled _ => true | _ => false end.

Fixpoint pending_from (n : nat) (ks : list call) : list (Z * Z) :=
  match ks with
  | [] => []
  | k :: t =>
      (if call_pending k then [(Z.of_nat n, 0)] else []) ++
      (if recv_pending k then [(Z.of_nat n, 1)] else []) ++
      (if send_pending k then [(Z.of_nat n, 2)] else []) ++
      (if header_pending k then [(Z.of_nat n, 3)] else []) ++
      (if trailer_pending k then [(Z.of_nat n, 4)] else []) ++
      pending_from (S n) t
  end.

Definition predict (prev s : state) : obs :=
  mkObs (filter (fun e => negb (is_unhandled e)) (skipn (length (log prev)) (log s)))
        (if mutex_free s then Some (Z.of_nat (registry_size s)) else None)
        (pending_from 0 (calls s))
        (Z.of_nat (length (filter loop_alive (calls s))))
        (match rl s with RLDead => 0 | _ => 1 end).

Definition obs_eqb (a b : obs) : bool :=
  multiset_eqb cev_eqb (o_events a) (o_events b)
  && opt_eqb Z.eqb (o_reg a) (o_reg b)
  && multiset_eqb pair_eqb (o_pending a) (o_pending b)
  && (o_loops a =? o_loops b) && (o_mux a =? o_mux b).

(* index of the first step at which prediction and observation differ *)
Fixpoint agree_from (i : nat) (s : state) (acts : list act) (observed : list obs) : option nat :=
  match acts, observed with
  | a :: acts', o :: obs' =>
      let s' := react s a in
      if obs_eqb (predict s s') o && quiescent s' then agree_from (S i) s' acts' obs' else Some i
  | [], [] => None
  | _, _ => Some i
  end.

Fixpoint run_acts (s : state) (acts : list act) : state :=
  match acts with [] => s | a :: t => run_acts (react s a) t end.

Definition agrees (c : ccase) : bool :=
  match c with
  | CClient acts observed => match agree_from 0 init acts observed with None => true | Some _ => false end
  | CClientWedged acts observed pending =>
      (* the steps completed before the wedge agree, and the model too ends with the registry lock held
         by the blocked read loop and the same operations pending *)
      match agree_from 0 init (firstn (length observed) acts) observed with
      | None => let s := run_acts init acts in
                wedged s && multiset_eqb pair_eqb (pending_from 0 (calls s)) pending
      | Some _ => false
      end
  end.

Definition first_disagreement (c : ccase) : option nat :=
  match c with
  | CClient acts observed => agree_from 0 init acts observed
  | CClientWedged acts observed _ => agree_from 0 init (firstn (length observed) acts) observed
  end.

(* generic checker: reason 1 = disagreement; the second number is 100 + the
   index of the first disagreeing step (for diagnosis) *)
Definition check_agree (c : ccase) : list nat :=
  if agrees c then []
  else 1%nat :: match first_disagreement c with Some i => [(100 + i)%nat] | None => [99%nat] end.

Fixpoint find_bad_from (i : nat) (cs : list ccase) : list (nat * list nat) :=
  match cs with
  | [] => []
  | c :: rest =>
      match check_agree c with
      | [] => find_bad_from (S i) rest
      | rs => (i, rs) :: find_bad_from (S i) rest
      end
  end.

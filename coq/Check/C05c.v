(* C05 cases: lock-step permutation scenarios (model agreement + routing
   predicates on the observed history) and free-running histories (ids on the
   wire, reply = function of the request). *)
From Coq Require Import List ZArith Bool Lia.
Import ListNotations.
From Goat Require Import Base.Explore Model.Client Check.ClientC Check.ClientSpec.
Open Scope Z_scope.

Inductive c05case :=
| C05Step (c : ccase)
| C05Free (ncalls : Z) (first_ids_sorted : list Z) (pairs : list (Z * Z)).   (* (request token, reply token) *)

Fixpoint increasing (l : list Z) : bool :=
  match l with x :: ((y :: _) as t) => (x <? y) && increasing t | _ => true end.

Definition check_c05 (c : c05case) : list nat :=
  match c with
  | C05Step cc => (if agrees cc then [] else [1%nat]) ++ reasons_in [2; 3; 4; 5]%nat cc
  | C05Free n ids pairs =>
      (if increasing ids && (Z.of_nat (length ids) =? n) && forallb (fun i => 0 <? i) ids then [] else [2%nat]) ++
      (if forallb (fun p => snd p =? fst p + 1) pairs then [] else [9%nat])
  end.

Fixpoint find_bad_from (i : nat) (cs : list c05case) : list (nat * list nat) :=
  match cs with
  | [] => []
  | c :: rest => match check_c05 c with [] => find_bad_from (S i) rest | rs => (i, rs) :: find_bad_from (S i) rest end
  end.

(* C05 cases: lock-step permutation scenarios (model agreement + routing
   predicates on the observed history) and free-running histories (ids on the
   wire, reply = function of the request). *)
From Coq Require Import List ZArith Bool Lia.
Import ListNotations.
From Goat Require Import Base.Explore Model.Client Check.ClientC Check.ClientSpec.
From Goat Require Check.ServerC Check.SrvSpec.   (* server-side cases (builder sv), by qualified names only *)
Open Scope Z_scope.

Inductive c05case :=
| C05Step (c : ccase)
(* a lock-step conversation on the real SERVER connection (rig harness/sv_c05_test.go): model agreement (Model/Server.v)
   and the server-side routing predicates of Check/SrvSpec.v (reasons 6, 7) *)
| C05Srv (c : ServerC.svcase)
(* the same with a SECOND connection on the same Server (outside the model): property predicates only; what connection B
   was sent / what its handlers received *)
| C05Srv2 (c : ServerC.svcase) (bsent brecv : list Z)
| C05Free (ncalls : Z) (first_ids_sorted : list Z) (pairs : list (Z * Z))   (* (request token, reply token) *)
(* write faults while other calls are in flight (TestC05Fault): mode 0 = the faulty call's Write is held by the
   transport and fails when its context ends, 1 = two such calls, 2 = the Write fails at once; k calls started after
   it are in flight, then m new calls; the peer answers every request with token + 1 *)
| C05FaultM (mode k m : Z) (first_ids_sorted : list Z) (pairs : list (Z * Z))
(* a slow reader: what was sent to call A / what A received when it finally drained everything (-1 = clean end,
   -2 = RecvMsg still pending, -3 = an error), the same for a call B that kept up *)
| C05Order (sentA gotA sentB gotB : list Z)
(* the width of the id allocator (TestC05Wide; white-box: the verif accessor VerifSetIdCounter sets the allocation counter
   of a connection to `base` while the calls with the ids `live` are in flight - the model's state `next_id = base`,
   reached there by `base` allocations, C05_counter -; `ids` = the ids on the first envelopes of the calls started
   afterwards, in order of creation; pairs = (request token, reply token) of the unary ones, the peer answering under
   the request's id; sent / got = what the long-lived FIRST stream was sent and what it received afterwards *)
| C05Wide (base : Z) (live ids : list Z) (pairs : list (Z * Z)) (sent got : list Z).

Fixpoint increasing (l : list Z) : bool :=
  match l with x :: ((y :: _) as t) => (x <? y) && increasing t | _ => true end.

(* ---- the model's run for a TestC05Fault scenario: a call whose Write is held by the transport is, in the model,
   a call that has allocated its id and not yet registered + written (pc PReg: the registration and the write are one
   atomic rule); the explicit schedule below keeps the faulty calls there while the later calls allocate, fails their
   write by context, then lets everybody write. What is compared is the projection both sides observe: the ids on
   the wire and what every caller got. ---- *)
Definition rule_idx (c j : nat) : label := LInt (2 + 15 * c + j)%nat.
Definition reply_to (w : env) : env :=
  mkEnv (eid w) (Some (MdOk 0)) None (match ebody w with Some b => Some (b + 1) | None => None end) (Some (MdOk 0)) false.

Definition fault_labels (mode k m : nat) : list label :=
  let faulty := match mode with 0%nat => 1%nat | 1%nat => 2%nat | _ => 1%nat end in
  let starts (base : Z) (first n : nat) (write : bool) :=
    flat_map (fun i => [LExt (ANewUnary (base + Z.of_nat i) false); rule_idx (first + i) 0] ++
                       (if write then [rule_idx (first + i) 1] else [])) (seq 0 n) in
  match mode with
  | 2%nat =>
      [LExt (ASetWriteFail true); LExt (ANewUnary 900 false); rule_idx 0 0; rule_idx 0 1; rule_idx 0 4; LExt (ASetWriteFail false)] ++
      starts 100 1%nat k true ++ starts 200 (1 + k)%nat m true
  | _ =>
      starts 900 0%nat faulty false ++ starts 100 faulty k false ++
      flat_map (fun i => [LExt (ACancel i); rule_idx i 1; rule_idx i 4]) (seq 0 faulty) ++
      map (fun i => rule_idx (faulty + i) 1) (seq 0 k) ++
      starts 200 (faulty + k)%nat m true
  end.

Definition fault_model (mode k m : nat) : option (list Z * list (Z * Z)) :=
  match lrun init (fault_labels mode k m) with
  | None => None
  | Some s1 =>
      let writes := flat_map (fun ev => match ev with EvWrite w => [w] | _ => [] end) (log s1) in
      let s2 := fold_left react (map (fun w => ADeliver (reply_to w)) writes) s1 in
      let faulty := match mode with 1%nat => 2%nat | _ => 1%nat end in
      let res (c : nat) (k : call) : Z * Z :=
        (k_payload k,
         match flat_map (fun ev => match ev with EvUnaryRet c' r => if Nat.eqb c' c then [r] else [] | _ => [] end) (log s2) with
         | UOk b :: _ => b
         | UErr _ :: _ => -3
         | [] => -2
         end) in
      Some (sort_by Z.leb (map eid writes),
            map (fun c => match nth_error (calls s2) c with Some k => res c k | None => (0, -9) end) (seq faulty (k + m)))
  end.

Definition pairs_eqb (a b : list (Z * Z)) : bool := list_eqb (fun x y => (fst x =? fst y) && (snd x =? snd y)) a b.

Fixpoint nodupZ (l : list Z) : bool :=
  match l with [] => true | x :: t => negb (existsb (Z.eqb x) t) && nodupZ t end.

Definition two64 : Z := 18446744073709551616.

Definition check_wide (base : Z) (live ids : list Z) (pairs : list (Z * Z)) (sent got : list Z) : list nat :=
  (* reason 1: the model (C05_counter): the n-th allocation after the counter stood at base is base + n, as a 64-bit value,
     under the hypothesis of C05_unique that the counter stays below 2^64 (a history outside it is not judged) *)
  (if (base + Z.of_nat (length ids) <? two64) then
     (if list_eqb Z.eqb ids (map (fun i => base + 1 + Z.of_nat i) (seq 0 (length ids))) then [] else [1%nat])
   else []) ++
  (* reason 2: the statement itself: pairwise distinct, distinct from every call still alive, never 0 *)
  (if nodupZ (live ++ ids) && forallb (fun i => 0 <? i) ids then [] else [2%nat]) ++
  (if list_eqb Z.eqb sent got then [] else [4%nat]) ++
  (if forallb (fun p => snd p =? fst p + 1) pairs then [] else [9%nat]).

Example wide_ok : check_wide 4294967293 [1] [4294967294; 4294967295; 4294967296; 4294967297] [(5, 6)] [7; 8] [7; 8] = [].
Proof. vm_compute. reflexivity. Qed.
(* a 32-bit allocator: wraps to 0 and then collides with the live first stream *)
Example wide_bad_32 : check_wide 4294967293 [1] [4294967294; 4294967295; 0; 1] [] [] [] = [1; 2]%nat.
Proof. vm_compute. reflexivity. Qed.
Example wide_bad_32_far : check_wide 4294967301 [1] [6; 7] [] [] [] = [1]%nat.
Proof. vm_compute. reflexivity. Qed.
Example wide_bad_stolen : check_wide 10 [1] [11] [(5, 9)] [7] [] = [4; 9]%nat.
Proof. vm_compute. reflexivity. Qed.

Definition check_c05 (c : c05case) : list nat :=
  match c with
  | C05Step cc => (if agrees cc then [] else [1%nat]) ++ reasons_in [2; 3; 4; 5; 13]%nat cc ++ (match cc with CClientWedged _ _ _ => [11%nat] | _ => [] end)
  | C05Srv sc => SrvSpec.check_c05srv sc
  | C05Srv2 sc bs br => SrvSpec.check_c05srv2 sc bs br
  | C05Free n ids pairs =>
      (if increasing ids && (Z.of_nat (length ids) =? n) && forallb (fun i => 0 <? i) ids then [] else [2%nat]) ++
      (if forallb (fun p => snd p =? fst p + 1) pairs then [] else [9%nat])
  | C05FaultM mode k m ids pairs =>
      (* reason 1: the ids on the wire and what every caller got are those of the model's run *)
      (match fault_model (Z.to_nat mode) (Z.to_nat k) (Z.to_nat m) with
       | Some (mids, mpairs) => if list_eqb Z.eqb ids mids && pairs_eqb pairs mpairs then [] else [1%nat]
       | None => [1%nat]
       end) ++
      (if increasing ids && (Z.of_nat (length ids) =? k + m) && forallb (fun i => 0 <? i) ids then [] else [2%nat]) ++
      (if forallb (fun p => snd p =? fst p + 1) pairs then [] else [9%nat])
  | C05Order sa ga sb gb =>
      (* position by position: per-call order preserved, nothing lost, nothing duplicated, the end last *)
      if list_eqb Z.eqb sa ga && list_eqb Z.eqb sb gb then [] else [4%nat]
  | C05Wide base live ids pairs sent got => check_wide base live ids pairs sent got
  end.

Fixpoint find_bad_from (i : nat) (cs : list c05case) : list (nat * list nat) :=
  match cs with
  | [] => []
  | c :: rest => match check_c05 c with [] => find_bad_from (S i) rest | rs => (i, rs) :: find_bad_from (S i) rest end
  end.

(* Executable correspondence check between Model/Proxy.v and the real
   goat.Proxy, on lock-step scenarios, and the C16 property predicates
   evaluated on the history observed on the real code.

   A scenario is a list of steps; a step is a group of environment actions
   (one action, or several ADeliver performed without waiting in between:
   genuinely concurrent senders) after which the real code ran to quiescence
   (testing/synctest) and was observed. The observation must equal the
   prediction of one of the quiescent states the model reaches over all
   orders of its internal rules (Base/Explore.v).

   Record numbering: the rig numbers the proxy's connection records in the
   order it learns of them (AddClient calls; newConnection callbacks of one
   step sorted by name); the model numbers them in creation order. Each
   candidate model state carries the map rig index -> model index; the names
   of the records dialled within one step are pairwise distinct (a dialled
   record keeps its table entry through the reaction), which determines the
   map. *)
From Coq Require Import List ZArith Bool Lia.
Import ListNotations.
From Goat Require Import Base.Explore Model.Proxy.
Open Scope Z_scope.

Record pobs := mkPObs {
  o_outs : list (Z * env);      (* (rig record, envelope) handed to the record's connection during this step; per record in order *)
  o_dials : list Z;             (* names newConnection was called with during this step (sorted: rig numbering order) *)
  o_disc : list (Z * Z);        (* disconnect callback: (name, rig record whose injected error was reported | -1: a context error) *)
  o_reg : list Z;               (* names in the proxy's table, sorted *)
  o_fw : bool;                  (* the forwarding loop goroutine is alive *)
  o_nrd : Z;                    (* goroutines in readLoop *)
  o_nwr : Z;                    (* goroutines in writeLoop *)
  o_nrw : Z;                    (* goroutines in readWrite (waiting for the two loops) *)
  o_ndl : Z;                    (* goroutines in connect *)
  o_ngoat : Z;                  (* goroutines with any frame of package goat *)
  o_drops : Z;                  (* increments of the proxy.drop counter during this step *)
  o_crash : bool;               (* a panic was caught *)
  o_wfail : list (Z * env * bool) }.
                                (* (rig record, envelope, reached): conn.Write calls of this step that returned an error;
                                   reached = the transport had handed the envelope to the peer before failing *)

(* actions of a step in which the serve loop may be held (Model/ProxyHeld.v): a model action; arm the hold (the loop
   stays inside the disconnect callback of rig record r once it handles r's failure); release it; let the proxy
   settle (no step boundary) *)
Inductive hact := HA (a : act) | HHold (r : nat) | HRelease | HWait.

Inductive pxcase :=
| CProxy (pname : Z) (buf : nat) (icp : Z) (steps : list (list act)) (observed : list pobs)
    (* buf: the per-destination buffer size measured on the running code (calibration) *)
| CProxyLoose (pname : Z) (buf : nat) (icp : Z) (steps : list (list act)) (observed : list pobs)
    (* the same, for steps that group faults and cancellation with traffic (no waiting in between): judged by the
       property predicates alone *)
| CProxyRed (pname : Z) (buf : nat) (icp : Z) (steps : list (list act)) (observed : list pobs)
    (* a lock-step scenario used to re-check the reduction of the exploration: at every step the outcome set of the
       reduced exploration must equal that of the full one *)
| CProxyRace (rounds : list (list Z * list Z * Z))
    (* attach race: peer X is attached (AddClient) at the very moment the first envelope addressed to X is being
       routed (dial on demand). Per round: the tokens of the envelopes for X delivered after AddClient had returned
       and the proxy had settled; the tokens X's attached connection was handed (-777: altered); the number of
       newConnection(X) calls made after that point *)
| CProxyReply (replies : list (list Z * (Z * Z) * (option (list Z) * (Z * Z))))
    (* tie of [reply_of] (Model/Proxy.v) to server.go: the real Server was sent a request with this route record,
       source and destination; its reply (unary reply / error reply / RST_STREAM) carried this return route, source
       and destination *)
| CProxyHeld (pname : Z) (buf : nat) (icp : Z) (hsteps : list (list hact)) (observed : list pobs)
    (* lock-step with a slow disconnect callback: compared with the held-loop model *)
| CProxyE2E (results : list (Z * Z))
    (* (expected, observed) outcome tokens of RPCs run through a real Proxy (+ Demux + Server) *)
| CProxyFree (pname : Z) (buf : nat) (icp : Z) (names : list Z) (sent : list (Z * env)) (got : list (Z * env)) (drops : Z) (clean : bool).
    (* free-running stress: peer k (index into names) sent / was handed these envelopes, in per-peer order *)

(* the interceptor family (the rig installs the same functions on the real proxy) *)
Definition icp_of (code : Z) : Z -> Z -> option Z :=
  fun src d =>
    if code =? 1 then Some 2                                        (* constant map: everything goes to name 2 *)
    else if code =? 2 then Some (if 100 <=? d then d - 100 else d)  (* prefix strip: "x-<name>" -> "<name>" *)
    else if code =? 3 then (if d =? 3 then None else Some d)        (* rejects one destination *)
    else if code =? 4 then (if src =? 1 then None else Some d)      (* rejects one source *)
    else Some d.                                                    (* 0: identity; 5: no interceptor installed *)

(* ---- decidable equality ---- *)
Definition lz_eqb := list_eqb Z.eqb.
Definition env_eqb (a b : env) : bool :=
  Bool.eqb (e_hdr a) (e_hdr b) && (e_src a =? e_src b) && (e_dst a =? e_dst b) && lz_eqb (e_rec a) (e_rec b)
  && option_eqb lz_eqb (e_next a) (e_next b) && (e_pay a =? e_pay b).
(* what comes out of a serialising transport cannot tell an empty return route from an absent one *)
Definition next_canon (o : option (list Z)) : option (list Z) := match o with Some [] => None | x => x end.
Definition env_obs_eqb (a b : env) : bool :=
  Bool.eqb (e_hdr a) (e_hdr b) && (e_src a =? e_src b) && (e_dst a =? e_dst b) && lz_eqb (e_rec a) (e_rec b)
  && option_eqb lz_eqb (next_canon (e_next a)) (next_canon (e_next b)) && (e_pay a =? e_pay b).

Definition dlpc_eqb (a b : dlpc) : bool :=
  match a, b with DLNone, DLNone | DLDial, DLDial | DLOffer, DLOffer | DLDead, DLDead => true | _, _ => false end.
Definition rdpc_eqb (a b : rdpc) : bool :=
  match a, b with
  | RDIdle, RDIdle | RDRead, RDRead | RDOfferErr, RDOfferErr | RDDead, RDDead => true
  | RDOffer x, RDOffer y => env_eqb x y
  | _, _ => false
  end.
Definition wrpc_eqb (a b : wrpc) : bool :=
  match a, b with
  | WRIdle, WRIdle | WRSel, WRSel | WROfferErr, WROfferErr | WRDead, WRDead => true
  | WRWrite x, WRWrite y => env_eqb x y
  | _, _ => false
  end.
Definition wmode_eqb (a b : wmode) : bool :=
  match a, b with WOk, WOk | WFail, WFail | WBlock, WBlock => true | _, _ => false end.
Definition client_eqb (a b : client) : bool :=
  (p_name a =? p_name b) && Bool.eqb (p_dialled a) (p_dialled b) && Bool.eqb (p_reg a) (p_reg b)
  && dlpc_eqb (p_dl a) (p_dl b) && rdpc_eqb (p_rd a) (p_rd b) && wrpc_eqb (p_wr a) (p_wr b)
  && Bool.eqb (p_gctx a) (p_gctx b) && list_eqb env_eqb (p_buf a) (p_buf b) && list_eqb env_eqb (p_inbox a) (p_inbox b)
  && Bool.eqb (p_rfail a) (p_rfail b) && wmode_eqb (p_wmode a) (p_wmode b) && Bool.eqb (p_honour a) (p_honour b)
  && Nat.eqb (length (p_delivered a)) (length (p_delivered b)).
Definition pev_eqb (a b : pev) : bool :=
  match a, b with
  | EvCmd j x, EvCmd k y | EvBad j x, EvBad k y | EvRej j x, EvRej k y | EvRdLost j x, EvRdLost k y
  | EvTake j x, EvTake k y | EvOut j x, EvOut k y | EvWFail j x, EvWFail k y => Nat.eqb j k && env_eqb x y
  | EvFwd j x i x' o, EvFwd k y l y' p => Nat.eqb j k && env_eqb x y && Nat.eqb i l && env_eqb x' y' && Bool.eqb o p
  | EvDial i n, EvDial k m => Nat.eqb i k && (n =? m)
  | EvDisc i n r, EvDisc k m q => Nat.eqb i k && (n =? m) && Bool.eqb r q
  | _, _ => false
  end.
Definition state_eqb (a b : state) : bool :=
  Bool.eqb (fw a) (fw b) && Bool.eqb (cancelled a) (cancelled b) && Bool.eqb (crashed a) (crashed b)
  && list_eqb client_eqb (clients a) (clients b) && list_eqb pev_eqb (log a) (log b).

(* The rules never read the history, so it is cut at the beginning of every step: the states explored carry
   the events of the current reaction only. The events are put into a canonical order that keeps, per record
   and kind, the order in which they happened (stable sort on (kind, record)). *)
Definition pev_key (e : pev) : Z * Z :=
  match e with
  | EvCmd j _ => (1, Z.of_nat j) | EvBad j _ => (2, Z.of_nat j) | EvRej j _ => (3, Z.of_nat j)
  | EvFwd j _ _ _ _ => (4, Z.of_nat j) | EvDial _ _ => (5, 0) | EvRdLost j _ => (6, Z.of_nat j)
  | EvTake i _ => (7, Z.of_nat i) | EvOut i _ => (8, Z.of_nat i) | EvWFail i _ => (9, Z.of_nat i)
  | EvDisc i _ _ => (10, Z.of_nat i)
  end.
Definition pev_leb (a b : pev) : bool :=
  let (ka, ra) := pev_key a in let (kb, rb) := pev_key b in (ka <? kb) || ((ka =? kb) && (ra <=? rb)).
Definition canon (s : state) : state :=
  mkState (fw s) (cancelled s) (clients s) (crashed s) (sort_by pev_leb (log s)).
Definition clear_log (s : state) : state := mkState (fw s) (cancelled s) (clients s) (crashed s) [].

(* Reduction of the exploration. A rule is taken alone ("eagerly") when it is, and stays until it fires, the only
   enabled rule of its goroutine, cannot be disabled by any other goroutine or by the rest of the reaction, and
   commutes with every rule of the other goroutines (they touch other fields; the history is compared modulo
   the order of events of different records): every maximal run can then be reordered to begin with it, so the
   set of quiescent states reached is unchanged.
   - a write loop inside conn.Write whose transport answers (WOk / WFail), or is blocked with its context done;
   - a write loop in its select with an empty buffer and its context done, when no envelope can be forwarded any
     more in this reaction (the forwarding loop is gone, or no read loop holds or can read an envelope);
   - a read loop inside conn.Read with nothing queued: the context error / the transport's error;
   - any goroutine offering to the forwarding loop once that loop is gone: it gives up;
   - while the context of a record is live and nothing in this reaction can end it (no failure armed, no loop
     returning): its read loop taking the next queued envelope; its write loop taking the next buffered envelope,
     provided no enqueue of this reaction can find the buffer full whichever comes first (buffer length + number
     of envelopes still to be forwarded <= capacity), so that take and enqueue commute. *)
Definition no_more_forwards (s : state) : bool :=
  negb (fw s)
  || forallb (fun c => match p_rd c with
                       | RDOffer _ => false
                       | RDRead => match p_inbox c with [] => true | _ => false end
                       | _ => true end) (clients s).

(* the context of record c is live and stays live through the reaction: nothing can make one of its loops return *)
Definition ctx_stable (s : state) (c : client) : bool :=
  negb (ctx_done s c) && negb (p_rfail c)
  && match p_wmode c with WFail => false | _ => true end
  && match p_rd c with RDOfferErr | RDDead => false | _ => true end
  && match p_wr c with WROfferErr | WRDead => false | _ => true end.

(* an upper bound on the number of envelopes the forwarding loop can still receive in this reaction *)
Definition pending_forwards (s : state) : nat :=
  fold_right (fun c acc => (length (p_inbox c) + match p_rd c with RDOffer _ => 1 | _ => 0 end + acc)%nat) 0%nat (clients s).

Definition first_some {A} (l : list (option A)) : option A :=
  fold_right (fun o acc => match o with Some x => Some x | None => acc end) None l.

Definition eager_client (cf : cfg) (s : state) (nf : bool) (j : nat) (c : client) : option state :=
  first_some
    [ match p_wr c with
      | WRWrite _ => match p_wmode c with WBlock => r_wr_ctx j s | _ => r_wr_write j s end
      | WRSel => match p_buf c with
                 | [] => if nf then r_wr_exit j s else None
                 | _ => if ctx_stable s c && (nf || Nat.leb (length (p_buf c) + pending_forwards s) (cf_buf cf))
                        then r_wr_take j s else None
                 end
      | WROfferErr => if fw s then None else r_wr_giveup j s
      | _ => None
      end;
      match p_rd c with
      | RDRead => match p_inbox c with
                  | [] => match r_rd_ctx j s with Some s' => Some s' | None => r_rd_read j s end
                  | _ => if ctx_stable s c then r_rd_read j s else None end
      | RDOffer _ | RDOfferErr => if fw s then None else r_rd_giveup j s
      | _ => None
      end;
      match p_dl c with DLOffer => if fw s then None else r_dl_giveup j s | _ => None end ].

Definition eager (cf : cfg) (s : state) : option state :=
  let nf := no_more_forwards s in
  first_some (map (fun p => eager_client cf s nf (fst p) (snd p)) (combine (seq 0 (length (clients s))) (clients s))).

Definition int_succs (cf : cfg) (s : state) : list state :=
  match eager cf s with
  | Some s' => [canon s']
  | None => map canon (Explore.filter_map (fun r => r s) (rules cf s))
  end.

Definition all_succs (cf : cfg) (s : state) : list state :=
  map canon (Explore.filter_map (fun r => r s) (rules cf s)).

(* A step may be a group of environment actions performed one after the other without waiting in between: the
   goroutines of the proxy react while the later actions are still to come. Exploration state: model state and
   the actions not yet performed; the next action may be performed at any moment. (The reduction above argues
   about a reaction without further environment actions, so it is used only once the group is exhausted.) *)
Definition xstate := (state * list act)%type.
Definition xeqb (a b : xstate) : bool := Nat.eqb (length (snd a)) (length (snd b)) && state_eqb (fst a) (fst b).
Definition xsuccs (cf : cfg) (x : xstate) : list xstate :=
  match snd x with
  | [] => map (fun s => (s, [])) (int_succs cf (fst x))
  | a :: rest => (canon (ext (fst x) a), rest) :: map (fun s => (s, a :: rest)) (all_succs cf (fst x))
  end.

Definition is_attach (a : act) : bool := match a with AAttach _ _ => true | _ => false end.

Definition react_all (cf : cfg) (s : state) (acts : list act) : option (list state) :=
  if existsb is_attach acts || forallb (fun a => match a with ADeliver _ _ => true | _ => false end) acts then
    (* AddClient is performed at a quiescent point, alone (its record number is fixed beforehand); deliveries
       only add to the queues of the transports and commute with every rule: performing them first loses nothing *)
    let s1 := fold_left ext acts (clear_log s) in
    explore state_eqb (int_succs cf) 60000 [s1] [s1] []
  else
    let x1 := (clear_log s, acts) in
    option_map (map fst) (explore xeqb (xsuccs cf) 60000 [x1] [x1] []).

(* ---- comparing a quiescent model state with the observation ---- *)
Definition zleb (a b : Z) : bool := a <=? b.
Definition count {A} (f : A -> A -> bool) (x : A) (l : list A) : nat := length (filter (f x) l).
Definition multiset_eqb {A} (f : A -> A -> bool) (a b : list A) : bool :=
  Nat.eqb (length a) (length b) && forallb (fun x => Nat.eqb (count f x a) (count f x b)) a.

(* rig numbers of the records dialled in this step: the model indices that carry the observed names *)
Fixpoint assign (names : list Z) (ds : list (nat * Z)) : option (list nat) :=
  match names with
  | [] => match ds with [] => Some [] | _ => None end
  | n :: t =>
      match find (fun d => snd d =? n) ds with
      | Some d =>
          match assign t (filter (fun x => negb (Nat.eqb (fst x) (fst d))) ds) with
          | Some l => Some (fst d :: l)
          | None => None
          end
      | None => None
      end
  end.

Definition znat (n : nat) : Z := Z.of_nat n.
Definition bcount (f : client -> bool) (s : state) : Z := znat (length (filter f (clients s))).

(* every failed Write call is one EvWFail of the model: per record, in order *)
Definition wfails_agree (m : list nat) (s : state) (o : pobs) : bool :=
  forallb (fun p => Nat.ltb (Z.to_nat (fst (fst p))) (length m) && (0 <=? fst (fst p))) (o_wfail o)
  && forallb (fun r =>
       match nth_error m r with
       | Some i => list_eqb env_obs_eqb (wfails i (log s))
                            (map (fun p => snd (fst p)) (filter (fun p => fst (fst p) =? znat r) (o_wfail o)))
       | None => false
       end) (seq 0 (length m)).

Definition outs_agree (m : list nat) (s : state) (o : pobs) : bool :=
  forallb (fun p => Nat.ltb (Z.to_nat (fst p)) (length m) && (0 <=? fst p)) (o_outs o)
  && forallb (fun r =>
       match nth_error m r with
       | Some i => list_eqb env_obs_eqb (outs i (log s))
                            (map snd (filter (fun p => fst p =? znat r) (o_outs o)))
       | None => false
       end) (seq 0 (length m)).

(* [m]: the map before the step, [nattach]: model indices of the records the step's AAttach actions created *)
Definition obs_match (m : list nat) (s : state) (o : pobs) : option (list nat) :=
  match assign (o_dials o) (dials (log s)) with
  | None => None
  | Some nd =>
      let m' := m ++ nd in
      if outs_agree m' s o && wfails_agree m' s o
         && multiset_eqb Z.eqb (map fst (o_disc o))
                         (pick (fun ev => match ev with EvDisc _ n _ => Some n | _ => None end) (log s))
         && lz_eqb (sort_by zleb (o_reg o)) (sort_by zleb (map p_name (filter p_reg (clients s))))
         && Bool.eqb (o_fw o) (fw s)
         && (o_nrd o =? bcount rd_alive s) && (o_nwr o =? bcount wr_alive s)
         && (o_nrw o =? bcount (fun c => rd_alive c || wr_alive c) s)
         && (o_ndl o =? bcount dl_alive s)
         && (o_ngoat o =? (if fw s then 1 else 0) + bcount rd_alive s + bcount wr_alive s
                          + bcount (fun c => rd_alive c || wr_alive c) s + bcount dl_alive s)
         && (o_drops o =? znat (total_drops (log s)))
         && Bool.eqb (o_crash o) (crashed s)
      then Some m' else None
  end.

(* environment actions speak of rig record numbers *)
Definition tr_act (m : list nat) (a : act) : option act :=
  let tr r := nth_error m r in
  match a with
  | AAttach n h => Some (AAttach n h)
  | ADeliver r e => option_map (fun j => ADeliver j e) (tr r)
  | AFailRead r => option_map AFailRead (tr r)
  | ASetWrite r w => option_map (fun j => ASetWrite j w) (tr r)
  | ADialOk r h => option_map (fun j => ADialOk j h) (tr r)
  | ADialFail r => option_map ADialFail (tr r)
  | ACancel => Some ACancel
  end.

(* translate the actions of a step; an AAttach extends the map with the model index its record will get *)
Fixpoint tr_acts (m : list nat) (nmodel : nat) (acts : list act) : option (list act * list nat) :=
  match acts with
  | [] => Some ([], m)
  | a :: t =>
      match tr_act m a with
      | None => None
      | Some a' =>
          let (m1, n1) := match a with AAttach _ _ => (m ++ [nmodel], S nmodel) | _ => (m, nmodel) end in
          match tr_acts m1 n1 t with
          | Some (l, m2) => Some (a' :: l, m2)
          | None => None
          end
      end
  end.

Definition cand := (state * list nat)%type.
Definition cand_eqb (a b : cand) : bool := state_eqb (fst a) (fst b) && list_eqb Nat.eqb (snd a) (snd b).

Fixpoint agree_from (cf : cfg) (i : nat) (cands : list cand) (steps : list (list act)) (observed : list pobs) : option nat :=
  match steps, observed with
  | acts :: steps', o :: obs' =>
      let nexts := flat_map (fun c : cand =>
                     match tr_acts (snd c) (length (clients (fst c))) acts with
                     | None => []
                     | Some (acts', m1) =>
                         match react_all cf (fst c) acts' with
                         | Some qs => Explore.filter_map (fun s' => match obs_match m1 s' o with
                                                                    | Some m2 => Some (s', m2)
                                                                    | None => None end) qs
                         | None => []
                         end
                     end) cands in
      match dedup cand_eqb nexts with
      | [] => Some i
      | ns => agree_from cf (S i) ns steps' obs'
      end
  | [], [] => None
  | _, _ => Some i
  end.

(* ---- re-checking the reduction: full exploration (every enabled rule from every state; the actions of a group
   performed at any moment; no rule taken alone) against the reduced one, outcome set against outcome set ---- *)
Definition xsuccs_full (cf : cfg) (x : xstate) : list xstate :=
  match snd x with
  | [] => map (fun s => (s, [])) (all_succs cf (fst x))
  | a :: rest => (canon (ext (fst x) a), rest) :: map (fun s => (s, a :: rest)) (all_succs cf (fst x))
  end.

Definition react_full (fuel : nat) (cf : cfg) (s : state) (acts : list act) : option (list state) :=
  if existsb is_attach acts then
    (* performed alone at a quiescent point: no rule is enabled before it *)
    let s1 := fold_left ext acts (clear_log s) in
    explore state_eqb (all_succs cf) fuel [s1] [s1] []
  else
    let x1 := (clear_log s, acts) in
    option_map (map fst) (explore xeqb (xsuccs_full cf) fuel [x1] [x1] []).

Definition same_set (a b : list state) : bool :=
  forallb (fun x => mem state_eqb x b) a && forallb (fun x => mem state_eqb x a) b.

(* walks the scenario like [agree_from]; at every step, for every candidate: 8 = the outcome sets differ,
   9 = the full exploration ran out of fuel (not compared), 1 = the observation matches no outcome *)
Fixpoint reduction_from (fuel : nat) (cf : cfg) (cands : list cand) (steps : list (list act)) (observed : list pobs) : list nat :=
  match steps, observed with
  | acts :: steps', o :: obs' =>
      let per := map (fun c : cand =>
                     match tr_acts (snd c) (length (clients (fst c))) acts with
                     | None => ([1%nat], [])
                     | Some (acts', m1) =>
                         match react_all cf (fst c) acts', react_full fuel cf (fst c) acts' with
                         | Some qs, Some fs =>
                             (if same_set qs fs then [] else [8%nat],
                              Explore.filter_map (fun s' => match obs_match m1 s' o with
                                                            | Some m2 => Some (s', m2)
                                                            | None => None end) qs)
                         | _, _ => ([9%nat], [])
                         end
                     end) cands in
      let bad := flat_map fst per in
      match bad with
      | _ :: _ => bad
      | [] => match dedup cand_eqb (flat_map snd per) with
              | [] => [1%nat]
              | ns => reduction_from fuel cf ns steps' obs'
              end
      end
  | [], [] => []
  | _, _ => [1%nat]    (* steps and observations of different length: as in [agree_from] *)
  end.

Definition cfg_of (pname : Z) (buf : nat) (icp : Z) : cfg := mkCfg pname buf (icp_of icp).

Definition first_disagreement (c : pxcase) : option nat :=
  match c with
  | CProxy pname buf icp steps observed => agree_from (cfg_of pname buf icp) 0 [(init, [])] steps observed
  | _ => None
  end.

(* ================= facts read off a scenario (environment side only) ================= *)
(* rig record table: name, step of creation, dialled? - in rig numbering *)
Record rinfo := mkRI { ri_name : Z; ri_step : nat; ri_dialled : bool }.

Fixpoint recs_of (step : nat) (steps : list (list act)) (observed : list pobs) : list rinfo :=
  match steps, observed with
  | acts :: steps', o :: obs' =>
      Explore.filter_map (fun a => match a with AAttach n _ => Some (mkRI n step false) | _ => None end) acts
      ++ map (fun n => mkRI n step true) (o_dials o)
      ++ recs_of (S step) steps' obs'
  | _, _ => []
  end.

(* deliveries: (step, rig record, envelope), in the order they were performed *)
Fixpoint dels_of (step : nat) (steps : list (list act)) : list (nat * nat * env) :=
  match steps with
  | [] => []
  | acts :: t => Explore.filter_map (fun a => match a with ADeliver r e => Some (step, r, e) | _ => None end) acts
                 ++ dels_of (S step) t
  end.

(* what the connections were handed: (step, rig record, envelope) *)
Fixpoint writes_of (step : nat) (observed : list pobs) : list (nat * nat * env) :=
  match observed with
  | [] => []
  | o :: t => map (fun p => (step, Z.to_nat (fst p), snd p)) (o_outs o) ++ writes_of (S step) t
  end.

Definition all_acts (steps : list (list act)) : list act := concat steps.
Definition has_cancel (steps : list (list act)) : bool :=
  existsb (fun a => match a with ACancel => true | _ => false end) (all_acts steps).
Fixpoint cancel_step (step : nat) (steps : list (list act)) : option nat :=
  match steps with
  | [] => None
  | acts :: t => if existsb (fun a => match a with ACancel => true | _ => false end) acts then Some step
                 else cancel_step (S step) t
  end.
Definition total_drops_obs (observed : list pobs) : Z := fold_right Z.add 0 (map o_drops observed).

(* ---- the route transformation as the property states it ---- *)
(* [x] (handed to a record named [target]) is what the proxy named [pname] with interceptor [icp] must make of
   [e] received from the connection attached as [from]: header present, source = attaching name, interceptor
   accepts; unchanged except for the routing fields: destination rewritten, own name appended to the route record
   exactly once, last hop of the return route popped and used as the target *)
Definition route_ok (pname : Z) (icp : Z -> Z -> option Z) (from : Z) (e x : env) (target : Z) : bool :=
  e_hdr e && (e_src e =? from) &&
  match icp (e_src e) (e_dst e) with
  | None => false
  | Some d1 =>
      e_hdr x && (e_src x =? e_src e) && (e_dst x =? d1) && (e_pay x =? e_pay e) && negb (e_pay x =? -777)
      && lz_eqb (e_rec x) (e_rec e ++ [pname])
      && match e_next e with
         | Some (h :: l) => (target =? last (h :: l) 0)
                            && option_eqb lz_eqb (next_canon (e_next x)) (next_canon (Some (removelast (h :: l))))
         | _ => (target =? d1) && option_eqb lz_eqb (next_canon (e_next x)) None
         end
  end.

(* the name an accepted envelope is routed to; None: the proxy must not forward it *)
Definition target_of (icp : Z -> Z -> option Z) (from : Z) (e : env) : option Z :=
  if e_hdr e && (e_src e =? from) then
    match icp (e_src e) (e_dst e) with
    | None => None
    | Some d1 => Some (match e_next e with Some (h :: l) => last (h :: l) 0 | _ => d1 end)
    end
  else None.

Definition name_of (rs : list rinfo) (r : nat) : Z := match nth_error rs r with Some ri => ri_name ri | None => -1 end.

Fixpoint index_where {A} (f : A -> bool) (l : list A) (n : nat) : option nat :=
  match l with [] => None | x :: t => if f x then Some n else index_where f t (S n) end.

(* a record is stale for an envelope delivered at step t when a newer record with its name was created at a step < t *)
Definition stale (rs : list rinfo) (r : nat) (t : nat) : bool :=
  existsb (fun k => match nth_error rs k with
                    | Some ri => (ri_name ri =? name_of rs r) && Nat.ltb (ri_step ri) t
                    | None => false end)
          (seq (S r) (length rs - S r)).

(* reason 2 (a)-(c): every envelope a connection was handed is the route transformation of exactly one delivered
   envelope that passed the source check, handed to a record that carries the routed name and was not superseded
   before the delivery; nothing is handed on twice; per source record and destination record the order of
   delivery is kept *)
Definition spec_delivered (pname : Z) (icp : Z -> Z -> option Z) (steps : list (list act)) (observed : list pobs) : bool :=
  let rs := recs_of 0 steps observed in
  let ds := dels_of 0 steps in
  let ws := writes_of 0 observed in
  let pays := map (fun d => e_pay (snd d)) ds in
  (* the rig's tokens are pairwise distinct (precondition of the oracle) *)
  lz_eqb (dedup Z.eqb pays) pays
  && forallb (fun w => match w with (tw, r, x) =>
       match find (fun d => e_pay (snd d) =? e_pay x) ds with
       | Some (td, j, e) =>
           Nat.leb td tw && route_ok pname icp (name_of rs j) e x (name_of rs r)
           && negb (stale rs r td)
           && match nth_error rs r with Some ri => Nat.leb (ri_step ri) tw | None => false end
       | None => false
       end end) ws
  && (let wp := map (fun w => e_pay (snd w)) ws
                ++ flat_map (fun o => Explore.filter_map (fun p : Z * env * bool => if snd p then Some (e_pay (snd (fst p))) else None) (o_wfail o)) observed in
      (* at most once - counting the hand-overs that reached the peer although their Write returned an error *)
      lz_eqb (dedup Z.eqb wp) wp)
  && forallb (fun w1 => forallb (fun w2 =>
       match w1, w2 with
       | (i1, (t1, r1, x1)), (i2, (t2, r2, x2)) =>
           if Nat.ltb i1 i2 && Nat.eqb r1 r2 then
             match index_where (fun d => e_pay (snd d) =? e_pay x1) ds 0, index_where (fun d => e_pay (snd d) =? e_pay x2) ds 0 with
             | Some d1, Some d2 =>
                 match nth_error ds d1, nth_error ds d2 with
                 | Some (_, j1, _), Some (_, j2, _) => if Nat.eqb j1 j2 then Nat.ltb d1 d2 else true
                 | _, _ => false
                 end
             | _, _ => false
             end
           else true
       end) (combine (seq 0 (length ws)) ws)) (combine (seq 0 (length ws)) ws).

(* ---- accounting of loss ---- *)
(* A name is healthy in a scenario when nothing was ever done to any record carrying it that may legitimately
   lose envelopes: no read failure, no failing writes, no dial failure, every dial answered, writes not blocked
   at the end; a source record is healthy likewise. Without cancellation every accepted envelope from a healthy
   source to a healthy name must have been handed on when the scenario ends - or be accounted for by the
   proxy.drop counter. *)
Definition rec_faulted (steps : list (list act)) (r : nat) : bool :=
  existsb (fun a => match a with
                    | AFailRead r' => Nat.eqb r r'
                    | ASetWrite r' WFail => Nat.eqb r r'
                    | ADialFail r' => Nat.eqb r r'
                    | _ => false end) (all_acts steps).
Definition last_wmode (steps : list (list act)) (r : nat) : wmode :=
  fold_left (fun m a => match a with ASetWrite r' w => if Nat.eqb r r' then w else m | _ => m end) (all_acts steps) WOk.
Definition dial_answered (steps : list (list act)) (r : nat) : bool :=
  existsb (fun a => match a with ADialOk r' _ => Nat.eqb r r' | _ => false end) (all_acts steps).
Definition rec_healthy (rs : list rinfo) (steps : list (list act)) (r : nat) : bool :=
  negb (rec_faulted steps r)
  && match last_wmode steps r with WOk => true | _ => false end
  && match nth_error rs r with Some ri => if ri_dialled ri then dial_answered steps r else true | None => false end.
Definition name_healthy (rs : list rinfo) (steps : list (list act)) (n : Z) : bool :=
  forallb (fun r => if name_of rs r =? n then rec_healthy rs steps r else true) (seq 0 (length rs)).
(* a dialled source starts reading only once its dial is answered: deliveries are kept; a record attached twice
   under one name: the old connection keeps forwarding - both are fine for the source side *)
Definition src_healthy (rs : list rinfo) (steps : list (list act)) (j : nat) : bool := rec_healthy rs steps j.

Definition accepted_healthy (icp : Z -> Z -> option Z) (steps : list (list act)) (observed : list pobs) : list (nat * nat * env) :=
  let rs := recs_of 0 steps observed in
  filter (fun d => match d with (t, j, e) =>
            src_healthy rs steps j &&
            match target_of icp (name_of rs j) e with
            | Some n => name_healthy rs steps n && existsb (fun r => name_of rs r =? n) (seq 0 (length rs))
            | None => false
            end end) (dels_of 0 steps).

Definition missing_healthy (icp : Z -> Z -> option Z) (steps : list (list act)) (observed : list pobs) : Z :=
  let ws := writes_of 0 observed in
  znat (length (filter (fun d => negb (existsb (fun w => e_pay (snd w) =? e_pay (snd d)) ws))
                       (accepted_healthy icp steps observed))).

(* outstanding for name n at the end of step t: accepted envelopes routed to n delivered so far minus those
   handed to records named n so far *)
Definition outstanding (icp : Z -> Z -> option Z) (rs : list rinfo) (ds ws : list (nat * nat * env)) (n : Z) (t : nat) : Z :=
  znat (length (filter (fun d => match d with (td, j, e) =>
                          Nat.leb td t && match target_of icp (name_of rs j) e with Some n' => n' =? n | None => false end end) ds))
  - znat (length (filter (fun w => match w with (tw, r, _) => Nat.leb tw t && (name_of rs r =? n) end) ws)).

(* reason 2 (d): loss only where the drop counter accounts for it: without cancellation no more envelopes for
   healthy names are missing than the counter says, and the counter moves only in a step at the end of which
   some name has more than [buf] envelopes outstanding *)
Definition spec_loss_accounted (buf : nat) (icp : Z -> Z -> option Z) (steps : list (list act)) (observed : list pobs) : bool :=
  let rs := recs_of 0 steps observed in
  let ds := dels_of 0 steps in
  let ws := writes_of 0 observed in
  (has_cancel steps || (missing_healthy icp steps observed <=? total_drops_obs observed))
  && forallb (fun p => match p with (t, o) =>
       (0 <=? o_drops o) &&
       ((o_drops o =? 0)
        || existsb (fun n => znat buf <? outstanding icp rs ds ws n t) (dedup Z.eqb (map ri_name rs)))
       end) (combine (seq 0 (length observed)) observed).

(* reason 3 (finding proxy-overflow>buf when the drop counter explains it): without cancellation nothing for a
   healthy name is missing at the end *)
Definition spec_no_loss (icp : Z -> Z -> option Z) (steps : list (list act)) (observed : list pobs) : bool :=
  has_cancel steps || (missing_healthy icp steps observed =? 0).

(* reason 5: dial on demand, exactly once: newConnection(n) is called only in a step by whose end an accepted
   envelope routed to n was delivered, and only when the newest earlier record named n had been reported failed
   (so never twice for one missing peer); and an accepted envelope from a healthy source whose routed name has
   no record at all when the step begins makes the proxy dial in that very step *)
Definition disc_before (observed : list pobs) (r : nat) (t : nat) : bool :=
  existsb (fun p => match p with (k, o) => Nat.leb k t && existsb (fun d => snd d =? znat r) (o_disc o) end)
          (combine (seq 0 (length observed)) observed).

(* the newest record named n among those satisfying f: the one that holds (or last held) the table entry - an
   older record of the name lost the entry when the newer one was created (AddClient replaces; the proxy dials
   only when there is no entry) *)
Definition last_named (rs : list rinfo) (n : Z) (f : nat -> rinfo -> bool) : option nat :=
  fold_left (fun acc k => match nth_error rs k with
                          | Some r => if (ri_name r =? n) && f k r then Some k else acc
                          | None => acc end) (seq 0 (length rs)) None.

Definition spec_dial (icp : Z -> Z -> option Z) (steps : list (list act)) (observed : list pobs) : bool :=
  let rs := recs_of 0 steps observed in
  let ds := dels_of 0 steps in
  forallb (fun k => match nth_error rs k with
                    | Some ri =>
                        if ri_dialled ri then
                          existsb (fun d => match d with (td, j, e) =>
                                     Nat.leb td (ri_step ri)
                                     && match target_of icp (name_of rs j) e with Some n => n =? ri_name ri | None => false end end) ds
                          && match last_named rs (ri_name ri) (fun k' r' => Nat.ltb k' k) with
                             | Some k' => disc_before observed k' (ri_step ri)
                             | None => true
                             end
                        else true
                    | None => true end) (seq 0 (length rs))
  && (has_cancel steps ||
      forallb (fun d => match d with (td, j, e) =>
                 if src_healthy rs steps j
                    && match nth_error rs j with Some ri => negb (ri_dialled ri) | None => false end then
                   match target_of icp (name_of rs j) e with
                   | Some n =>
                       (* some record named n exists by the end of the step whose failure had not been reported
                          before the step: the one the envelope went to, or the one just dialled for it *)
                       match last_named rs n (fun k r => Nat.leb (ri_step r) td) with
                       | Some k => negb (match td with O => false | S t0 => disc_before observed k t0 end)
                       | None => false
                       end
                   | None => true
                   end
                 else true end) ds).

(* reason 4: the measured buffer is at least what the property's quantifier presupposes *)
Definition wf_buf (buf : nat) : bool := Nat.leb 12 buf.

(* ---- free-running stress: only sent / received logs per peer ---- *)
Definition spec_free (pname : Z) (buf : nat) (icp : Z -> Z -> option Z) (names : list Z) (sent got : list (Z * env)) (drops : Z) (clean : bool) : list nat :=
  let nm k := nth (Z.to_nat k) names (-1) in
  let pays := map (fun d => e_pay (snd d)) sent in
  let gp := map (fun w => e_pay (snd w)) got in
  let ok2 :=
    lz_eqb (dedup Z.eqb pays) pays
    && forallb (fun w => match find (fun d => e_pay (snd d) =? e_pay (snd w)) sent with
                         | Some (j, e) => route_ok pname icp (nm j) e (snd w) (nm (fst w))
                         | None => false end) got
    && lz_eqb (dedup Z.eqb gp) gp
    && forallb (fun w1 => forallb (fun w2 =>
         match w1, w2 with
         | (i1, (r1, x1)), (i2, (r2, x2)) =>
             if Nat.ltb i1 i2 && (r1 =? r2) then
               match index_where (fun d => e_pay (snd d) =? e_pay x1) sent 0, index_where (fun d => e_pay (snd d) =? e_pay x2) sent 0 with
               | Some d1, Some d2 =>
                   match nth_error sent d1, nth_error sent d2 with
                   | Some (j1, _), Some (j2, _) => if j1 =? j2 then Nat.ltb d1 d2 else true
                   | _, _ => false
                   end
               | _, _ => false
               end
             else true
         end) (combine (seq 0 (length got)) got)) (combine (seq 0 (length got)) got) in
  let accepted := filter (fun d => match target_of icp (nm (fst d)) (snd d) with
                                   | Some n => existsb (Z.eqb n) names | None => false end) sent in
  let missing := znat (length (filter (fun d => negb (existsb (Z.eqb (e_pay (snd d))) gp)) accepted)) in
  (if ok2 && (negb clean || (missing <=? drops)) then [] else [2%nat])
  ++ (if negb clean || (missing =? 0) then [] else [3%nat])
  ++ (if wf_buf buf then [] else [4%nat]).

Definition check (c : pxcase) : list nat :=
  match c with
  | CProxy pname buf icp steps observed =>
      let f := icp_of icp in
      (match agree_from (cfg_of pname buf icp) 0 [(init, [])] steps observed with None => [] | Some _ => [1%nat] end)
      ++ (if spec_delivered pname f steps observed && spec_loss_accounted buf f steps observed then [] else [2%nat])
      ++ (if spec_no_loss f steps observed then [] else [3%nat])
      ++ (if wf_buf buf then [] else [4%nat])
      ++ (if spec_dial f steps observed then [] else [5%nat])
  | CProxyLoose pname buf icp steps observed =>
      let f := icp_of icp in
      (if spec_delivered pname f steps observed && spec_loss_accounted buf f steps observed then [] else [2%nat])
      ++ (if wf_buf buf then [] else [4%nat])
  | CProxyRed pname buf icp steps observed =>
      dedup Nat.eqb (reduction_from 20000 (cfg_of pname buf icp) [(init, [])] steps observed)
  | CProxyRace rounds =>
      (* everything accepted for X after its attach completed is handed to X's attached connection, in order, once;
         X is not dialled once attached *)
      if forallb (fun r => match r with (sent, got, dials) =>
                    lz_eqb (filter (fun x => mem Z.eqb x sent) got) sent && (dials =? 0) end) rounds
      then [] else [7%nat]
  | CProxyReply replies =>
      if forallb (fun r => match r with (rc, (src, dst), (next, (rsrc, rdst))) =>
                    let rp := reply_of (mkEnv true src dst rc None 0) 0 in
                    option_eqb lz_eqb (next_canon (e_next rp)) (next_canon next)
                    && (e_src rp =? rsrc) && (e_dst rp =? rdst) end) replies
      then [] else [10%nat]
  | CProxyHeld _ _ _ _ _ => []   (* a C17 case kind: Check/C17c.v *)
  | CProxyE2E results =>
      if forallb (fun p => fst p =? snd p) results then [] else [6%nat]
  | CProxyFree pname buf icp names sent got drops clean =>
      spec_free pname buf (icp_of icp) names sent got drops clean
  end.

Fixpoint find_bad_from (i : nat) (cs : list pxcase) : list (nat * list nat) :=
  match cs with
  | [] => []
  | c :: rest =>
      match check c with
      | [] => find_bad_from (S i) rest
      | rs => (i, rs) :: find_bad_from (S i) rest
      end
  end.

(* C12: cases and property predicates evaluated on the history observed on the
   real server connection.
   - C12Seq: a sequential conversation (every delivered envelope was processed to
     quiescence, handlers follow the scripted policy, the transport never blocks
     or fails): model agreement (reason 1, Check/ServerC.v) + the predicates below;
   - C12Method / C12Shape: parseRawMethod against Model/Method.v, and the rig's
     classification of the method strings it uses against the model's. *)
From Coq Require Import List ZArith Bool Lia.
Import ListNotations.
From Goat Require Import Base.Bytes Base.Explore Model.Method Model.Client Model.Server Check.ServerC.
Open Scope Z_scope.

Inductive c12case :=
| C12Seq (c : svcase)
| C12Walk (c : svcase)      (* any conversation without transport faults that ends with every handler returned and the probe *)
| C12Dead (wedged : bool)   (* the server process died (false) or never became quiescent again (true) in this scenario *)
| C12Gen (name status : Z)  (* builder st: parseRawMethod re-translated from server.go proved equal to Model/Method.v in this run (status 0) *)
| C12Method (raw : bytes) (r : option (bytes * bytes))
| C12Shape (raw : bytes) (k : mkind).

(* ---- the registered table of the harness service verif.Echo ---- *)
Definition svc_name : bytes := B"verif.Echo".
Definition kind_of_method (raw : bytes) : mkind :=
  match parse_method raw with
  | None => MBad
  | Some (svc, m) =>
      if negb (bytes_eqb svc svc_name) then MUnkSvc
      else if bytes_eqb m (B"Unary") then MUnary 1
      else if bytes_eqb m (B"Unary2") then MUnary 2
      else if bytes_eqb m (B"CStream") then MStream 1
      else if bytes_eqb m (B"SStream") then MStream 2
      else if bytes_eqb m (B"Bidi") then MStream 3
      else MUnkMeth
  end.

Definition pair_bytes_eqb (a b : bytes * bytes) : bool := bytes_eqb (fst a) (fst b) && bytes_eqb (snd a) (snd b).

(* ---- sequential conversations ---- *)
Record hinfo := mkHi { hi_unary : bool; hi_req : frame; hi_open : bool }.

Definition is_open (id : Z) (tbl : list hinfo) : bool :=
  existsb (fun k => negb (hi_unary k) && hi_open k && (fid (hi_req k) =? id)) tbl.

Definition close (h : nat) (tbl : list hinfo) : list hinfo :=
  match nth_error tbl h with
  | Some k => upd h (mkHi (hi_unary k) (hi_req k) false) tbl
  | None => tbl
  end.

(* the handler invocation the property demands for envelope f *)
Definition expected_invoke (tbl : list hinfo) (f : frame) : option sev :=
  match dispatch f with
  | DSkip => None
  | DUnary =>
      if md_bad f || (body_tok f <? 0) then None
      else Some (SvInvoke (length tbl) true (fid f) (f_mth f) (body_tok f) (md_tok f))
  | DStream =>
      if is_open (fid f) tbl || is_rst f || has_body f || has_trl f || md_bad f then None
      else Some (SvInvoke (length tbl) false (fid f) (f_mth f) 0 (md_tok f))
  end.

(* what the server itself must write in answer to f (handlers write the rest) *)
Definition expected_writes (tbl : list hinfo) (f : frame) : list frame :=
  match dispatch f with
  | DSkip => []
  | DUnary => if md_bad f then [badmd_reply f] else if body_tok f <? 0 then [undec_reply f] else []
  | DStream =>
      if is_open (fid f) tbl || is_rst f then []
      else if has_body f then [rst_reply f]
      else if has_trl f then []
      else if md_bad f then [rst_reply f]
      else []
  end.

Definition is_invoke (e : sev) : bool := match e with SvInvoke _ _ _ _ _ _ => true | _ => false end.

(* the unary reply of handler [k] to [HReturn rep e], up to its metadata *)
Definition reply_matches (k : hinfo) (rep : option Z) (e : herr) (w : frame) : bool :=
  let f := hi_req k in
  (eid (f_env w) =? fid f) && mkind_eqb (f_mth w) (f_mth f) && (f_src w =? f_dst f) && (f_dst w =? f_src f)
  && has_hdr w && has_trl w && negb (is_rst w)
  && opt_eqb status_eqb (estatus (f_env w)) (ustatus e) && opt_eqb Z.eqb (ebody (f_env w)) rep.

Definition sequential (observed : list obs) : bool :=
  forallb (fun o => (o_inbox o =? 0) && match o_reg o with Some _ => true | None => false end
                    && negb (o_wblocked o) && negb (o_serve o)) observed.

Definition no_faults (acts : list act) : bool :=
  forallb (fun a => match a with ADeliver _ | AHandlerStep _ _ => true | _ => false end) acts.

Definition has_rst_frame (l : list frame) : bool := existsb is_rst l.

(* reasons: 2 dispatch, 3 reset, 4 unary reply / probe, 5 anything else written by the server itself *)
Fixpoint walk (acts : list act) (observed : list obs) (tbl : list hinfo) : list nat :=
  match acts, observed with
  | a :: acts', o :: obs' =>
      let invs := filter is_invoke (o_events o) in
      match a with
      | ADeliver f =>
          let ei := expected_invoke tbl f in
          let ew := expected_writes tbl f in
          (if list_eqb sev_eqb invs (match ei with Some e => [e] | None => [] end) then [] else [2%nat])
          ++ (if list_eqb frame_eqb (o_writes o) ew then []
              else if has_rst_frame ew || has_rst_frame (o_writes o) then [3%nat] else [5%nat])
          ++ walk acts' obs'
               (match ei with
                | Some (SvInvoke _ u _ _ _ _) => tbl ++ [mkHi u f true]
                | _ => tbl
                end)
      | AHandlerStep h (HReturn rep e) =>
          (match invs with [] => [] | _ => [2%nat] end)
          ++ match nth_error tbl h with
             | Some k =>
                 if hi_open k then
                   (if hi_unary k
                    then match o_writes o with
                         | [w] => if reply_matches k rep e w then [] else [4%nat]
                         | _ => [4%nat]
                         end
                    else [])
                   ++ walk acts' obs' (close h tbl)
                 else walk acts' obs' tbl
             | None => walk acts' obs' tbl
             end
      | _ => (match invs with [] => [] | _ => [2%nat] end) ++ walk acts' obs' tbl
      end
  | _, _ => []
  end.

(* the last delivery of a conversation is the probe: a valid unary request that must be answered *)
Fixpoint last_deliver (acts : list act) : option frame :=
  match acts with
  | [] => None
  | ADeliver f :: rest => match last_deliver rest with Some g => Some g | None => Some f end
  | _ :: rest => last_deliver rest
  end.

Definition probe_answered (c : svcase) : bool :=
  match c with
  | CSrv acts observed =>
      match last_deliver acts with
      | Some f =>
          (* the probe is the only envelope with its id *)
          existsb (fun w => (eid (f_env w) =? fid f) && has_body w && negb (is_rst w)
                            && match estatus (f_env w) with None => true | Some _ => false end)
                  (flat_map o_writes observed)
      | None => true
      end
  end.

Definition spec_seq (c : svcase) : list nat :=
  match c with
  | CSrv acts observed =>
      if no_faults acts && sequential observed
      then walk acts observed [] ++ (if probe_answered c then [] else [4%nat])
      else [6%nat]    (* a conversation of this rig must never block the read loop or end the connection *)
  end.

(* isolation (C05, server side): every message RecvMsg returned to stream handler h is the body of an envelope that
   was delivered, with h's id, after the envelope that started h; per handler in delivery order, each at most once *)
Fixpoint drop_until (h : nat) (pairs : list (act * obs)) : list (act * obs) :=
  match pairs with
  | [] => []
  | (a, o) :: rest =>
      if existsb (fun e => match e with SvInvoke g _ _ _ _ _ => Nat.eqb g h | _ => false end) (o_events o)
      then rest else drop_until h rest
  end.
Definition bodies_for (id : Z) (pairs : list (act * obs)) : list Z :=
  flat_map (fun p => match fst p with
                     | ADeliver f => if (fid f =? id) && negb (has_trl f) && negb (is_rst f)
                                     then [body_tok f] else []
                     | _ => [] end) pairs.
Fixpoint subseqZ (a b : list Z) : bool :=
  match a, b with
  | [], _ => true
  | _ :: _, [] => false
  | x :: a', y :: b' => if x =? y then subseqZ a' b' else subseqZ a b'
  end.
Definition isolated (c : svcase) : bool :=
  match c with
  | CSrv acts observed =>
      let pairs := combine acts observed in
      let evs := flat_map o_events observed in
      forallb (fun e => match e with
                        | SvInvoke h false id _ _ _ =>
                            let got := flat_map (fun e' => match e' with SvOp g (ORecvMsg b) => if Nat.eqb g h then [b] else [] | _ => [] end) evs in
                            (* the envelopes of its id delivered in the whole conversation: the opener may have been
                               delivered (and messages behind it) long before the invocation is observed, when the
                               read loop was parked; an id that is used again later is only checked as one id *)
                            subseqZ got (bodies_for id pairs)
                        | _ => true end) evs
  end.

(* resets (C12_reset over a whole conversation that ends idle): for an id under which no stream handler was ever
   started, the resets written for it are exactly as many as the envelopes delivered for it that call for one (a
   stream-method envelope for this server that is no reset and carries a body, or - without body and trailer -
   undecodable metadata) *)
Definition calls_for_reset (f : frame) : bool :=
  match dispatch f with
  | DStream => negb (is_rst f) && (has_body f || (negb (has_trl f) && md_bad f))
  | _ => false
  end.
Definition resets_exact (c : svcase) : bool :=
  match c with
  | CSrv acts observed =>
      let evs := flat_map o_events observed in
      let opened := flat_map (fun e => match e with SvInvoke _ false id _ _ _ => [id] | _ => [] end) evs in
      let dl := filter_map (fun a => match a with ADeliver f => Some f | _ => None end) acts in
      let ws := flat_map o_writes observed in
      forallb (fun f => existsb (Z.eqb (fid f)) opened
                        || Nat.eqb (length (filter (fun g => calls_for_reset g && (fid g =? fid f)) dl))
                                   (length (filter (fun w => is_rst w && (fid w =? fid f)) ws)))
              (filter (fun f => match dispatch f with DStream => true | _ => false end) dl)
  end.

(* at the end: nothing unread, registry empty, no handler goroutine, connection alive *)
Definition ends_idle (c : svcase) : bool :=
  match c with
  | CSrv _ observed =>
      match last (map Some observed) None with
      | Some o => (o_inbox o =? 0) && opt_eqb Z.eqb (o_reg o) (Some 0) && (o_hs o =? 0) && negb (o_serve o)
                  && (o_writer o =? 1) && (o_workers o =? Z.of_nat nworkers)
      | None => true
      end
  end.

Definition spec_first (fuel : nat) (spec : list nat) (sc : svcase) : list nat :=
  match spec with [] => check_agree_f fuel sc | rs => rs end.

Definition check_case_f (fuel : nat) (c : c12case) : list nat :=
  match c with
  | C12Seq sc => spec_first fuel (nodup Nat.eq_dec (spec_seq sc)) sc
  | C12Walk sc => spec_first fuel ((if probe_answered sc then [] else [4%nat]) ++ (if ends_idle sc then [] else [6%nat])
                                   ++ (if isolated sc then [] else [9%nat])
                                   ++ (if negb (ends_idle sc) || resets_exact sc then [] else [3%nat])) sc
  | C12Dead wedged => if wedged then [8%nat] else [7%nat]
  | C12Gen _ status => if status =? 0 then [] else [1%nat]
  | C12Method raw r => if opt_eqb pair_bytes_eqb (parse_method raw) r then [] else [1%nat]
  | C12Shape raw k => if mkind_eqb (kind_of_method raw) k then [] else [1%nat]
  end.

Fixpoint find_bad_fuel (fuel i : nat) (cs : list c12case) : list (nat * list nat) :=
  match cs with
  | [] => []
  | c :: rest =>
      match check_case_f fuel c with
      | [] => find_bad_fuel fuel (S i) rest
      | rs => (i, rs) :: find_bad_fuel fuel (S i) rest
      end
  end.
Definition find_bad_from := find_bad_fuel explore_fuel.

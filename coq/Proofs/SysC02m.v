(* C02_caller_eof_complete, the client half: why a stream loop ends.  EX: an open stream whose loop has ended
   recorded io.EOF, unless the stream's context ended (caller cancellation, deadline, teardown by a failed SendMsg),
   the connection's read failed, or the call took an envelope with undecodable metadata or a final envelope that
   does not say OK; and every error RecvMsg returned is io.EOF or an Unmarshal error, with the same exceptions. *)
From Coq Require Import List ZArith Bool Lia Arith.
Import ListNotations.
From Goat Require Import Model.Client Model.Server Proofs.ClientBase Proofs.ClientInv Proofs.ClientLog Proofs.ClientProps Proofs.ProtocolClient
  Model.Sys Proofs.SysLog Proofs.SysProofs Proofs.SysC02 Proofs.SysC02e Proofs.SysC02f Proofs.SysC02i Proofs.SysC02j.
Open Scope Z_scope.

Definition bad_env (e : env) : Prop := ehdr e = Some MdBad \/ exists err, final_of e = Some err /\ err <> EEof.
Definition sendfail (c : nat) (l : list cev) : Prop := exists e, In (EvSendRet c (Some e)) l.

(* an exceptional cause for the end of the stream: the caller's context ended, a SendMsg failed, the connection's
   read failed, or the call took an undecodable / non-OK final envelope *)
Definition badc (s : Client.state) (c : nat) (k : call) : Prop :=
  ctx_done (k_ctx k) = true \/ sendfail c (Client.log s) \/ rerr s = true \/ exists e, In e (ctakes c (Client.log s)) /\ bad_env e.

Definition EXh (s : Client.state) (c : nat) (k : call) : Prop :=
  k_unary k = false ->
  (running_loop (s_loop k) = true -> cclosed (k_chan k) = true -> badc s c k) /\
  (running_loop (s_loop k) = false -> k_pc k = POpen -> l_rerr k = Some EEof \/ badc s c k) /\
  (forall e, In (EvRecvRet c (RErr e)) (Client.log s) -> e = EEof \/ e = EUnmarshal \/ badc s c k) /\
  (s_ctxc k = true -> s_done k = true \/ sendfail c (Client.log s)).
Definition EX (s : Client.state) : Prop := forall c k, nth_error (calls s) c = Some k -> EXh s c k.

Lemma sendfail_mono c l evs : sendfail c l -> sendfail c (l ++ evs).
Proof. intros (e & H). exists e. apply in_or_app. left. exact H. Qed.

Lemma badc_mono s s' c k k' evs :
  Client.log s' = Client.log s ++ evs -> (rerr s = true -> rerr s' = true) -> (ctx_done (k_ctx k) = true -> ctx_done (k_ctx k') = true) ->
  badc s c k -> badc s' c k'.
Proof.
  intros Hl Hr Hc [B | [B | [B | (e & Hin & B)]]]; [left; auto | right; left; rewrite Hl; apply sendfail_mono; exact B | right; right; left; auto | right; right; right].
  exists e. split; auto. rewrite Hl, ctakes_app. apply in_or_app. left. exact Hin.
Qed.

Definition quietX (c0 : nat) (evs : list cev) : Prop :=
  forall c, c <> c0 -> ctakes c evs = [] /\ forall e, ~ In (EvRecvRet c (RErr e)) evs.

Lemma EX_upd s s' c0 k0 k' evs :
  EX s -> calls s' = upd c0 k' (calls s) -> nth_error (calls s) c0 = Some k0 ->
  Client.log s' = Client.log s ++ evs -> (rerr s = true -> rerr s' = true) -> quietX c0 evs ->
  k_unary k' = k_unary k0 -> (ctx_done (k_ctx k0) = true -> ctx_done (k_ctx k') = true) ->
  (running_loop (s_loop k') = true -> cclosed (k_chan k') = true ->
     (running_loop (s_loop k0) = true /\ cclosed (k_chan k0) = true) \/ badc s' c0 k') ->
  (running_loop (s_loop k') = false -> k_pc k' = POpen ->
     (running_loop (s_loop k0) = false /\ k_pc k0 = POpen /\ l_rerr k' = l_rerr k0) \/ l_rerr k' = Some EEof \/ badc s' c0 k' \/
     (running_loop (s_loop k0) = true /\ cclosed (k_chan k0) = true) \/ (s_ctxc k0 = true /\ s_done k0 = false)) ->
  (forall e, In (EvRecvRet c0 (RErr e)) evs ->
     e = EEof \/ e = EUnmarshal \/ badc s' c0 k' \/ (running_loop (s_loop k0) = false /\ k_pc k0 = POpen /\ l_rerr k0 = Some e) \/
     (s_ctxc k0 = true /\ s_done k0 = false)) ->
  (s_ctxc k' = true -> (s_ctxc k0 = true /\ (s_done k0 = true -> s_done k' = true)) \/ s_done k' = true \/ sendfail c0 (Client.log s')) ->
  EX s'.
Proof.
  intros HX Hc Hn Hl Hr Hq Hu Hctx HA HB HC HD c k P Hu'. rewrite Hc in P. destruct (Nat.eq_dec c c0) as [->|Hne].
  - rewrite nth_upd_eq in P by (eapply nth_some_lt; eauto). inversion P; subst k. rewrite Hu in Hu'.
    destruct (HX _ _ Hn Hu') as (A & B & C & D).
    assert (M : badc s c0 k0 -> badc s' c0 k') by (apply (badc_mono _ _ _ _ _ _ Hl Hr Hctx)).
    assert (SF : s_ctxc k0 = true -> s_done k0 = false -> badc s' c0 k').
    { intros X Y. destruct (D X) as [Z | Z]; [congruence|]. right. left. rewrite Hl. apply sendfail_mono. exact Z. }
    split; [|split; [|split]].
    + intros R Cl. destruct (HA R Cl) as [(R0 & C0) | X]; auto.
    + intros R Pc. destruct (HB R Pc) as [(R0 & P0 & E) | [X | [X | [(R0 & C0) | (X & Y)]]]]; auto.
      rewrite E. destruct (B R0 P0); auto.
    + intros e Hin. rewrite Hl in Hin. apply in_app_or in Hin. destruct Hin as [Hin|Hin].
      * destruct (C _ Hin) as [X | [X | X]]; auto.
      * destruct (HC _ Hin) as [X | [X | [X | [(R0 & P0 & E) | (X & Y)]]]]; auto.
        destruct (B R0 P0) as [Y | Y]; [left; congruence | auto].
    + intros X. destruct (HD X) as [(X0 & Dn) | [Y | Y]]; auto.
      destruct (D X0) as [Z | Z]; [left; auto | right; rewrite Hl; apply sendfail_mono; exact Z].
  - rewrite nth_upd_neq in P by auto. destruct (HX _ _ P Hu') as (A & B & C & D).
    assert (M : badc s c k -> badc s' c k) by (apply (badc_mono _ _ _ _ _ _ Hl Hr); auto).
    destruct (Hq c Hne) as (Q1 & Q2).
    split; [|split; [|split]].
    + intros R Cl. auto.
    + intros R Pc. destruct (B R Pc); auto.
    + intros e Hin. rewrite Hl in Hin. apply in_app_or in Hin. destruct Hin as [Hin|Hin]; [|exfalso; eapply Q2; eauto].
      destruct (C _ Hin) as [X | [X | X]]; auto.
    + intros X. destruct (D X) as [Z | Z]; [left; auto | right; rewrite Hl; apply sendfail_mono; exact Z].
Qed.

Lemma EX_same s s' evs :
  EX s -> calls s' = calls s -> Client.log s' = Client.log s ++ evs -> (rerr s = true -> rerr s' = true) ->
  (forall c, ctakes c evs = [] /\ forall e, ~ In (EvRecvRet c (RErr e)) evs) -> EX s'.
Proof.
  intros HX Hc Hl Hr Hq c k P Hu'. rewrite Hc in P. destruct (HX _ _ P Hu') as (A & B & C & D).
  assert (M : badc s c k -> badc s' c k) by (apply (badc_mono _ _ _ _ _ _ Hl Hr); auto).
  destruct (Hq c) as (Q1 & Q2). split; [|split; [|split]].
  - intros R Cl. auto.
  - intros R Pc. destruct (B R Pc); auto.
  - intros e Hin. rewrite Hl in Hin. apply in_app_or in Hin. destruct Hin as [Hin|Hin]; [|exfalso; eapply Q2; eauto].
    destruct (C _ Hin) as [X | [X | X]]; auto.
  - intros X. destruct (D X) as [Z | Z]; [left; auto | right; rewrite Hl; apply sendfail_mono; exact Z].
Qed.

Ltac noret_tac := let e := fresh in let X := fresh in
  intros e X; simpl in X; repeat (destruct X as [X|X]; [discriminate X|]); exact X.
Ltac quietX_tac := let c := fresh in let hZ := fresh in intros c hZ; split; [reflexivity | noret_tac].
Ltac quietX_take_tac := let c := fresh in let hZ := fresh in
  intros c hZ; split; [simpl; match goal with |- context [Nat.eqb ?a c] => destruct (Nat.eqb_spec a c); [congruence|reflexivity] end | noret_tac].
Ltac quietX_ret_tac := let c := fresh in let hZ := fresh in let e := fresh in let X := fresh in
  intros c hZ; split; [reflexivity | intros e X; simpl in X; destruct X as [X|[]]; inversion X; congruence].
Ltac quietA_tac := let c := fresh in intros c; split; [reflexivity | noret_tac].

Ltac rerr_tac := csimpl; intros; first [assumption | congruence].
Ltac sl_rw := csimpl; repeat match goal with E : s_loop _ = _ |- _ => rewrite E in * end; csimpl.
Ltac exn1 := csimpl; reflexivity.
Ltac exn2 := csimpl; let hZ := fresh in intros hZ; first [exact hZ | reflexivity].
Ltac exn3 := sl_rw; let h1 := fresh in let h2 := fresh in intros h1 h2; first [discriminate h1 | discriminate h2 | left; split; first [assumption | reflexivity]].
Ltac exn4 := sl_rw; let h1 := fresh in let h2 := fresh in intros h1 h2;
  first [discriminate h1 | discriminate h2 | left; split; [first [exact h1 | reflexivity] | split; [exact h2 | reflexivity]]].
Ltac exn5 := csimpl; let e := fresh in let X := fresh in intros e X; exfalso; revert e X; noret_tac.
Ltac exn6 := csimpl; let h1 := fresh in intros h1; first [discriminate h1 | left; split; [exact h1 | let d := fresh in intros d; exact d]].

Ltac exu HX c k0 evs :=
  eapply (EX_upd _ _ c k0 _ evs);
  [ exact HX | csimpl; reflexivity | eassumption | csimpl; rewrite <- ?app_assoc, ?app_nil_r; reflexivity | rerr_tac
  | first [quietX_tac | quietX_take_tac | quietX_ret_tac] | csimpl; reflexivity | exn2 | .. ].

Ltac EX_done HX :=
  csimpl;
  try match goal with |- context [if k_reg ?k then _ else _] => destruct (k_reg k) eqn:? end;
  csimpl;
  first [ eapply (EX_same _ _ []); [exact HX | reflexivity | csimpl; rewrite app_nil_r; reflexivity | rerr_tac | quietA_tac]
        | eapply EX_same; [exact HX | reflexivity | csimpl; rewrite <- ?app_assoc; reflexivity | rerr_tac | quietA_tac]
        | match goal with E : nth_error (calls ?s) ?c = Some ?k |- EX _ =>
            first [ exu HX c k (@nil cev); [exn3 | exn4 | exn5 | exn6]
                  | eapply (EX_upd s _ c k); [exact HX | csimpl; reflexivity | exact E | csimpl; rewrite <- ?app_assoc; reflexivity
                                             | rerr_tac | quietX_tac | exn1 | exn2 | exn3 | exn4 | exn5 | exn6 ] ]
          end ].

Lemma EX_unary s s' c0 k0 k' evs :
  EX s -> calls s' = upd c0 k' (calls s) -> nth_error (calls s) c0 = Some k0 ->
  Client.log s' = Client.log s ++ evs -> (rerr s = true -> rerr s' = true) -> quietX c0 evs -> k_unary k' = true -> EX s'.
Proof.
  intros HX Hc Hn Hl Hr Hq Hu c k P Hu'. rewrite Hc in P. destruct (Nat.eq_dec c c0) as [->|Hne].
  - rewrite nth_upd_eq in P by (eapply nth_some_lt; eauto). inversion P; subst k. congruence.
  - rewrite nth_upd_neq in P by auto. destruct (HX _ _ P Hu') as (A & B & C & D).
    assert (M : badc s c k -> badc s' c k) by (apply (badc_mono _ _ _ _ _ _ Hl Hr); auto).
    destruct (Hq c Hne) as (Q1 & Q2).
    split; [|split; [|split]].
    + intros R Cl. auto.
    + intros R Pc. destruct (B R Pc); auto.
    + intros e Hin. rewrite Hl in Hin. apply in_app_or in Hin. destruct Hin as [Hin|Hin]; [|exfalso; eapply Q2; eauto].
      destruct (C _ Hin) as [X | [X | X]]; auto.
    + intros X. destruct (D X) as [Z | Z]; [left; auto | right; rewrite Hl; apply sendfail_mono; exact Z].
Qed.

Lemma in_ctakes_snoc c e l : In e (ctakes c (l ++ [EvTake c e])).
Proof. rewrite ctakes_app. apply in_or_app. right. simpl. rewrite Nat.eqb_refl. left. reflexivity. Qed.

Lemma running_not_done k : kinv k -> running_loop (s_loop k) = true -> s_done k = false.
Proof.
  intros K R. destruct (s_done k) eqn:D; auto. destruct (ki_done_dead _ K D) as (A & _).
  unfold loop_alive in A. destruct (s_loop k); simpl in *; congruence.
Qed.

Lemma EX_int s r s' : cinv s -> sinv s -> linv s ->
  (forall c k, nth_error (calls s) c = Some k -> s_done k = true -> s_rerr k = l_rerr k) ->
  EX s -> In r (Client.rules s) -> r s = Some s' -> EX s'.
Proof.
  intros HI HS HL HD HX Hin H. apply rules_in in Hin. destruct Hin as [->|[->|(c & _ & Hin)]].
  - unfold r_rl_unblock in H. open_rule H; try (EX_done HX).
  - unfold r_rl_read in H. open_rule H; try (EX_done HX).
    intros c k P Hu. assert (B : badc {| counter := counter s; rerr := true; rl := RLDead; Client.inbox := []; Client.inbox_failed := true;
                                         Client.wfail := Client.wfail s; calls := close_all (calls s); Client.log := Client.log s |} c k)
      by (right; right; left; reflexivity).
    split; [|split; [|split]]; auto.
    csimpl. unfold close_all in P. rewrite nth_error_map in P. destruct (nth_error (calls s) c) as [k1|] eqn:Ek1; [|discriminate]. simpl in P.
    assert (Q : s_ctxc k = s_ctxc k1 /\ s_done k = s_done k1 /\ k_unary k = k_unary k1) by (destruct (k_reg k1); inversion P; subst k; auto).
    destruct Q as (Q1 & Q2 & Q3). rewrite Q1, Q2. rewrite Q3 in Hu. destruct (HX _ _ Ek1 Hu) as (_ & _ & _ & D). exact D.
  - simpl in Hin.
    repeat (destruct Hin as [<-|Hin];
            [ unfold r_check, r_reg, r_wait, r_wait_ctx, r_unreg, r_loop_read, r_loop_read_ctx, r_loop_hand,
                     r_loop_hand_ctx, r_loop_exit, r_loop_unreg, r_recv, r_header, r_trailer, r_send in H;
              open_rule H; try (EX_done HX) | ]).
    all: try destruct Hin.
    + (* r_wait: a unary call *)
      pose proof (ki_kind _ (cinv_call _ _ _ HI E)) as K. rewrite E0 in K.
      eapply (EX_unary s _ c c0); [exact HX | csimpl; reflexivity | exact E | csimpl; reflexivity | rerr_tac | quietX_take_tac
                                  | csimpl; destruct (k_unary c0); [reflexivity | discriminate K]].
    + (* r_unreg, unary *)
      assert (X : s_loop c0 = LDead) by (apply (kinv_dead _ (cinv_call _ _ _ HI E)); rewrite E0; discriminate).
      destruct (k_reg c0); (exu HX c c0 [EvUnaryRet c r]; [sl_rw; intros hZ; discriminate hZ | exn4 | exn5 | exn6]).
    + assert (X : s_loop c0 = LDead) by (apply (kinv_dead _ (cinv_call _ _ _ HI E)); rewrite E0; discriminate).
      destruct (k_reg c0); (exu HX c c0 [EvOpenRet c (Some e)]; [sl_rw; intros hZ; discriminate hZ | exn4 | exn5 | exn6]).
    + (* r_loop_read: undecodable metadata *)
      assert (B : bad_env e) by (left; destruct (s_latch c0); [discriminate|]; destruct (ehdr e) as [[|]|]; try discriminate; reflexivity).
      exu HX c c0 [EvTake c e]; [exn3 | | exn5 | exn6].
      intros _ _. right. right. left. right. right. right. exists e. split; [csimpl; apply in_ctakes_snoc | exact B].
    + (* r_loop_read: a final envelope *)
      exu HX c c0 [EvTake c e]; [exn3 | | exn5 | exn6].
      intros _ _. csimpl. destruct c1; try (right; right; left; right; right; right; exists e; split; [csimpl; apply in_ctakes_snoc | right; eexists; split; [exact E3 | discriminate]]).
      right. left. reflexivity.
    + exu HX c c0 [EvTake c e]; [exn3 | exn4 | exn5 | exn6].
    + exu HX c c0 [EvTake c e]; [exn3 | exn4 | exn5 | exn6].
    + (* r_loop_read: closed and empty *)
      exu HX c c0 (@nil cev); [exn3 | | exn5 | exn6].
      intros _ _. right. right. right. left. rewrite E0. split; [reflexivity | exact E2].
    + (* r_loop_read_ctx *)
      exu HX c c0 (@nil cev); [exn3 | | exn5 | exn6]. intros _ _.
      unfold sctx_done in E1. destruct (s_ctxc c0) eqn:Ec.
      * right. right. right. right. split; [reflexivity|]. apply running_not_done; [exact (cinv_call _ _ _ HI E) | rewrite E0; reflexivity].
      * right. right. left. left. csimpl. exact E1.
    + (* r_loop_hand *)
      destruct (b <? 0).
      * exu HX c c0 [EvRecvRet c (RErr EUnmarshal)]; [exn3 | exn4 | | exn6].
        intros e0 X. destruct X as [X|[]]; inversion X. right. left. reflexivity.
      * exu HX c c0 [EvRecvRet c (RMsg b)]; [exn3 | exn4 | exn5 | exn6].
    + (* r_loop_hand_ctx *)
      exu HX c c0 (@nil cev); [exn3 | | exn5 | exn6]. intros _ _.
      unfold sctx_done in E1. destruct (s_ctxc c0) eqn:Ec.
      * right. right. right. right. split; [reflexivity|]. apply running_not_done; [exact (cinv_call _ _ _ HI E) | rewrite E0; reflexivity].
      * right. right. left. left. csimpl. exact E1.
    + (* r_loop_unreg: the terminal state is published together with the cancellation of the stream context *)
      exu HX c c0 (@nil cev); [exn3 | exn4 | exn5 | ]. intros _. right. left. reflexivity.
    + (* r_recv: the terminal state *)
      destruct (ki_done_dead _ (cinv_call _ _ _ HI E) E2) as (Ka & _ & Kp).
      assert (Kr : running_loop (s_loop c0) = false) by (unfold loop_alive in Ka; destruct (s_loop c0); try discriminate Ka; reflexivity).
      exu HX c c0 [EvRecvRet c (recv_final c0)]; [exn3 | exn4 | | exn6].
      intros e0 X. destruct X as [X|[]]. unfold recv_final in X. rewrite (HD _ _ E E2) in X.
      destruct (l_rerr c0) eqn:El; inversion X; subst; [right; right; right; left; auto | left; reflexivity].
    + destruct (ki_done_dead _ (cinv_call _ _ _ HI E) E2) as (Ka & _ & Kp).
      assert (Kr : running_loop (s_loop c0) = false) by (unfold loop_alive in Ka; destruct (s_loop c0); try discriminate Ka; reflexivity).
      exu HX c c0 [EvRecvRet c (recv_final c0)]; [exn3 | exn4 | | exn6].
      intros e0 X. destruct X as [X|[]]. unfold recv_final in X. rewrite (HD _ _ E E2) in X.
      destruct (l_rerr c0) eqn:El; inversion X; subst; [right; right; right; left; auto | left; reflexivity].
    + (* r_recv: the context *)
      exu HX c c0 [EvRecvRet c (RErr (ctx_status c0))]; [exn3 | exn4 | | exn6].
      intros e0 X. unfold sctx_done in E3. destruct (s_ctxc c0) eqn:Ec.
      * right. right. right. right. split; [reflexivity | exact E2].
      * right. right. left. left. csimpl. exact E3.
    + (* r_send: teardown *)
      match goal with |- EX (Client.add_log _ ?evs) => exu HX c c0 evs; [ | exn4 | exn5 | ] end.
      * intros _ _. right. right. left. eexists. csimpl. apply in_or_app. right. left. reflexivity.
      * intros _. right. right. eexists. csimpl. apply in_or_app. right. left. reflexivity.
Qed.

(* ---------- RecvMsg returns errors only on open streams ---------- *)
Definition ED (s : Client.state) : Prop :=
  forall c e, In (EvRecvRet c (RErr e)) (Client.log s) -> exists k, nth_error (calls s) c = Some k /\ k_pc k = POpen.

Lemma ED_upd s s' c0 k0 k' evs :
  ED s -> calls s' = upd c0 k' (calls s) -> nth_error (calls s) c0 = Some k0 -> Client.log s' = Client.log s ++ evs ->
  (k_pc k0 = POpen -> k_pc k' = POpen) ->
  (forall c e, In (EvRecvRet c (RErr e)) evs -> c = c0 /\ k_pc k' = POpen) -> ED s'.
Proof.
  intros HE Hc Hn Hl Hp Hev c e Hin. rewrite Hl in Hin. apply in_app_or in Hin. rewrite Hc. destruct Hin as [Hin|Hin].
  - destruct (HE _ _ Hin) as (k & Hk & Pk). destruct (Nat.eq_dec c c0) as [->|Hne].
    + rewrite Hn in Hk. inversion Hk; subst k. exists k'. split; [apply nth_upd_eq; eapply nth_some_lt; eauto | auto].
    + exists k. split; [rewrite nth_upd_neq by auto; exact Hk | exact Pk].
  - destruct (Hev _ _ Hin) as (-> & Pk). exists k'. split; [apply nth_upd_eq; eapply nth_some_lt; eauto | exact Pk].
Qed.

Lemma ED_same s s' evs :
  ED s -> calls s' = calls s -> Client.log s' = Client.log s ++ evs -> (forall c e, ~ In (EvRecvRet c (RErr e)) evs) -> ED s'.
Proof.
  intros HE Hc Hl Hev c e Hin. rewrite Hl in Hin. apply in_app_or in Hin. rewrite Hc. destruct Hin as [Hin|Hin]; [eauto | exfalso; eapply Hev; eauto].
Qed.

Ltac noret2_tac := let c := fresh in let e := fresh in let X := fresh in
  intros c e X; simpl in X; repeat (destruct X as [X|X]; [discriminate X|]); exact X.
Ltac noret3_tac := let c := fresh in let e := fresh in let X := fresh in
  intros c e X; exfalso; simpl in X; repeat (destruct X as [X|X]; [discriminate X|]); exact X.
Ltac pc_keep := csimpl; let hZ := fresh in intros hZ; first [exact hZ | reflexivity | congruence].

Ltac ED_done HE :=
  csimpl;
  try match goal with |- context [if k_reg ?k then _ else _] => destruct (k_reg k) eqn:? end;
  csimpl;
  first [ eapply (ED_same _ _ []); [exact HE | reflexivity | csimpl; rewrite app_nil_r; reflexivity | noret2_tac]
        | eapply ED_same; [exact HE | reflexivity | csimpl; rewrite <- ?app_assoc; reflexivity | noret2_tac]
        | match goal with E : nth_error (calls ?s) ?c = Some ?k |- ED _ =>
            first [ eapply (ED_upd s _ c k _ []); [exact HE | csimpl; reflexivity | exact E | csimpl; rewrite app_nil_r; reflexivity | pc_keep | noret3_tac]
                  | eapply (ED_upd s _ c k); [exact HE | csimpl; reflexivity | exact E | csimpl; rewrite <- ?app_assoc; reflexivity | pc_keep | noret3_tac] ]
          end ].

Lemma ED_int s r s' : cinv s -> ED s -> In r (Client.rules s) -> r s = Some s' -> ED s'.
Proof.
  intros HI HE Hin H. apply rules_in in Hin. destruct Hin as [->|[->|(c & _ & Hin)]].
  - unfold r_rl_unblock in H. open_rule H; try (ED_done HE).
  - unfold r_rl_read in H. open_rule H; try (ED_done HE).
    intros c e Hin. csimpl. destruct (HE _ _ Hin) as (k & Hk & Pk). unfold close_all. rewrite nth_error_map, Hk. simpl.
    eexists. split; [reflexivity|]. destruct (k_reg k); exact Pk.
  - simpl in Hin.
    repeat (destruct Hin as [<-|Hin];
            [ unfold r_check, r_reg, r_wait, r_wait_ctx, r_unreg, r_loop_read, r_loop_read_ctx, r_loop_hand,
                     r_loop_hand_ctx, r_loop_exit, r_loop_unreg, r_recv, r_header, r_trailer, r_send in H;
              open_rule H; try (ED_done HE) | ]).
    all: try destruct Hin.
    all: match goal with Hn : nth_error (calls ?s0) ?c1 = Some ?k0 |- _ =>
           assert (Po : k_pc k0 = POpen)
             by (first [ apply (ki_loop_open _ (cinv_call _ _ _ HI Hn)); unfold loop_alive;
                         match goal with X : s_loop k0 = _ |- _ => rewrite X end; reflexivity
                       | apply (ki_ops_open _ (cinv_call _ _ _ HI Hn)); unfold ops_pending, recv_pending;
                         match goal with X : s_recv k0 = _ |- _ => rewrite X end; reflexivity ]);
           eapply (ED_upd s0 _ c1 k0); [exact HE | csimpl; reflexivity | exact Hn | csimpl; reflexivity | pc_keep | ]
         end.
    all: intros c' e' X; destruct X as [X|[]]; csimpl.
    + destruct (b <? 0); inversion X. split; [reflexivity | exact Po].
    + unfold recv_final in X. destruct (s_rerr c0); inversion X; split; [reflexivity | exact Po | reflexivity | exact Po].
    + unfold recv_final in X. destruct (s_rerr c0); inversion X; split; [reflexivity | exact Po | reflexivity | exact Po].
    + inversion X. split; [reflexivity | exact Po].
Qed.

Lemma EX_with_call s c g :
  EX s -> (forall k k', g k = Some k' -> k_unary k' = k_unary k /\ s_loop k' = s_loop k /\ k_chan k' = k_chan k /\ k_pc k' = k_pc k /\
                                         l_rerr k' = l_rerr k /\ (ctx_done (k_ctx k) = true -> ctx_done (k_ctx k') = true) /\
                                         s_ctxc k' = s_ctxc k /\ s_done k' = s_done k) -> EX (with_call s c g).
Proof.
  intros HX Hg. unfold with_call. destruct (nth_error (calls s) c) as [k|] eqn:E; [|exact HX].
  destruct (g k) as [k'|] eqn:G; [|exact HX]. destruct (Hg _ _ G) as (A & B & C & D & F & M & N1 & N2).
  eapply (EX_upd s _ c k k' []); [exact HX | reflexivity | exact E | simpl; rewrite app_nil_r; reflexivity | auto | quietX_tac | exact A | exact M | | | | ].
  - rewrite B, C. intros; left; auto.
  - rewrite B, D, F. intros; left; auto.
  - intros e [].
  - rewrite N1, N2. intros; left; auto.
Qed.

Lemma EX_new s k0 : ED s -> EX s -> s_loop k0 = LDead -> k_pc k0 <> POpen -> s_ctxc k0 = false ->
  EX (Client.mkState (counter s) (rerr s) (rl s) (Client.inbox s) (Client.inbox_failed s) (Client.wfail s) (calls s ++ [k0]) (Client.log s)).
Proof.
  intros HE HX Hd Hp Hc0 c k P Hu. csimpl. destruct (nth_app_cases _ _ _ _ P) as [(P' & _) | (-> & ->)].
  - destruct (HX _ _ P' Hu) as (A & B & C & D). split; [|split; [|split]]; auto.
  - split; [rewrite Hd; discriminate|]. split; [intros _ X; contradiction|]. split; [|intros X; congruence].
    intros e Hin. exfalso. destruct (HE _ _ Hin) as (k1 & Hk1 & _). apply nth_some_lt in Hk1. lia.
Qed.

Lemma EX_ext s a : ED s -> EX s -> EX (Client.ext s a).
Proof.
  intros HE HX. destruct a; simpl;
    try (apply EX_with_call; [exact HX|]; intros k k' G;
         repeat match type of G with
                | match ?x with _ => _ end = Some _ => destruct x eqn:?; try discriminate G
                end; inversion G; subst; csimpl; repeat split; auto);
    try (eapply (EX_same _ _ []); [exact HX | reflexivity | simpl; rewrite app_nil_r; reflexivity | auto | quietA_tac]).
  - apply EX_new; auto; discriminate.
  - apply EX_new; auto; discriminate.
  - destruct (nth_error (calls s) c) as [k|] eqn:E; [|exact HX].
    destruct (k_pc k) eqn:P; try exact HX.
    exu HX c k (@nil cev); [exn3 | | exn5 | exn6]. csimpl. intros _ X. discriminate X.
Qed.

Lemma ED_ext s a : ED s -> ED (Client.ext s a).
Proof.
  intros HE. assert (G : forall s', Client.log s' = Client.log s ->
    (forall c k, nth_error (calls s) c = Some k -> k_pc k = POpen -> exists k', nth_error (calls s') c = Some k' /\ k_pc k' = POpen) -> ED s').
  { intros s' Hl Hc c e Hin. rewrite Hl in Hin. destruct (HE _ _ Hin) as (k & Hk & Pk). eauto. }
  assert (W : forall c g, (forall k k', g k = Some k' -> k_pc k' = k_pc k) -> ED (with_call s c g)).
  { intros c g Hg. apply G.
    - unfold with_call. destruct (nth_error (calls s) c); [destruct (g c0)|]; reflexivity.
    - intros c1 k Hk Pk. unfold with_call. destruct (nth_error (calls s) c) as [k0|] eqn:E; [|eauto].
      destruct (g k0) as [k'|] eqn:Gk; [|eauto]. simpl. destruct (Nat.eq_dec c c1) as [->|Hne].
      + rewrite E in Hk. inversion Hk; subst k0. exists k'. split; [apply nth_upd_eq; eapply nth_some_lt; eauto | rewrite (Hg _ _ Gk); exact Pk].
      + exists k. split; [rewrite nth_upd_neq by auto; exact Hk | exact Pk]. }
  destruct a; simpl;
    try (apply W; intros k k' G0;
         repeat match type of G0 with
                | match ?x with _ => _ end = Some _ => destruct x eqn:?; try discriminate G0
                end; inversion G0; subst; csimpl; auto);
    try solve [apply G; [reflexivity | intros c1 k Hk Pk; csimpl; eauto]].
  - apply G; [reflexivity|]. intros c1 k Hk Pk. csimpl. exists k. split; [rewrite nth_error_app1 by (eapply nth_some_lt; eauto); exact Hk | exact Pk].
  - apply G; [reflexivity|]. intros c1 k Hk Pk. csimpl. exists k. split; [rewrite nth_error_app1 by (eapply nth_some_lt; eauto); exact Hk | exact Pk].
  - destruct (nth_error (calls s) c) as [k0|] eqn:E; [|exact HE]. destruct (k_pc k0) eqn:P; try exact HE.
    apply G; [reflexivity|]. intros c1 k Hk Pk. csimpl. destruct (Nat.eq_dec c c1) as [->|Hne].
    + rewrite E in Hk. inversion Hk; subst k0. congruence.
    + exists k. split; [rewrite nth_upd_neq by auto; exact Hk | exact Pk].
Qed.

Theorem EX_reach ls s : Client.lrun Client.init ls = Some s -> EX s /\ ED s.
Proof.
  revert s. induction ls as [|l ls IH] using rev_ind; intros s H.
  - inversion H; subst. split; [intros c k P; destruct c; discriminate P | intros c e []].
  - destruct (lrun_snoc_inv _ _ _ _ H) as (s1 & H1 & Hl). destruct (IH _ H1) as (HX & HE).
    destruct (all_inv_reach _ _ H1) as (HI & HS & HL). destruct l as [a|n]; simpl in Hl.
    + inversion Hl; subst. split; [apply EX_ext; auto | apply ED_ext; auto].
    + destruct (nth_error (Client.rules s1) n) as [r|] eqn:E; [|discriminate]. apply nth_error_In in E.
      split; [eapply EX_int; eauto; intros; eapply C07_rerr_l; eauto | eapply ED_int; eauto].
Qed.

From Goat Require Import Base.Bytes Model.Base64 Model.Meta Proofs.Base64Proofs.
Open Scope N_scope.

Lemma to_md_acc_entry k vs acc rest :
  (is_bin (lower k) = true -> forallb wf_bytes vs = true) ->
  to_md_acc (entry_kvs (k, vs) ++ rest) acc =
  to_md_acc rest (add_entry acc (k, vs)).
Proof.
  unfold entry_kvs, add_entry. cbn [fst snd].
  revert acc. induction vs as [|v vs IH]; intros acc Hwf; [reflexivity|].
  cbn [map app to_md_acc fold_left].
  destruct (is_bin (lower k)) eqn:Eb.
  - specialize (Hwf eq_refl). cbn [forallb] in Hwf. apply andb_true_iff in Hwf as [Hv Hvs].
    rewrite dec_enc by exact Hv. apply IH. intros _. exact Hvs.
  - apply IH. intro. discriminate.
Qed.

Lemma to_md_acc_to_kv m acc :
  wf_md m = true -> to_md_acc (to_kv m) acc = Some (fold_left add_entry m acc).
Proof.
  revert acc. induction m as [|[k vs] m IH]; intros acc Hwf; [reflexivity|].
  cbn [wf_md forallb] in Hwf. apply andb_true_iff in Hwf as [He Hm].
  cbn [to_kv flat_map fold_left]. rewrite to_md_acc_entry.
  - apply IH. exact Hm.
  - cbn [fst snd] in He. intro Hb. rewrite Hb in He. exact He.
Qed.

(* the round trip is exact, for every iteration order of the map *)
Theorem codec_exact m : wf_md m = true -> to_md (to_kv m) = Some (norm m).
Proof. intro H. apply to_md_acc_to_kv. exact H. Qed.

(* ---- what [norm] contains ---- *)

Lemma lookup_md_append k k' v m :
  lookup k (md_append k' v m) =
  if bytes_eqb k k'
  then Some (match lookup k m with Some vs => vs | None => [] end ++ [v])
  else lookup k m.
Proof.
  induction m as [|[k0 vs0] m IH]; cbn [md_append lookup].
  - destruct (bytes_eqb k k') eqn:E; reflexivity.
  - destruct (bytes_eqb k' k0) eqn:E0.
    + apply bytes_eqb_eq in E0. subst k0. cbn [lookup].
      destruct (bytes_eqb k k') eqn:E; reflexivity.
    + cbn [lookup]. destruct (bytes_eqb k k0) eqn:E1.
      * apply bytes_eqb_eq in E1. subst k0.
        destruct (bytes_eqb k k') eqn:E; [|reflexivity].
        apply bytes_eqb_eq in E. subst k'. rewrite bytes_eqb_refl in E0. discriminate.
      * exact IH.
Qed.

Definition vals_of (k : bytes) (m : mdmap) : list bytes :=
  match lookup k m with Some vs => vs | None => [] end.

Lemma vals_of_md_append k k' v m :
  vals_of k (md_append k' v m) =
  if bytes_eqb k k' then vals_of k m ++ [v] else vals_of k m.
Proof.
  unfold vals_of. rewrite lookup_md_append.
  destruct (bytes_eqb k k'); reflexivity.
Qed.

Lemma vals_of_add_entry k acc e :
  vals_of k (add_entry acc e) =
  if bytes_eqb k (lower (fst e)) then vals_of k acc ++ snd e else vals_of k acc.
Proof.
  destruct e as [k' vs]. unfold add_entry. cbn [fst snd].
  revert acc. induction vs as [|v vs IH]; intro acc; cbn [fold_left].
  - destruct (bytes_eqb k (lower k')); [rewrite app_nil_r|]; reflexivity.
  - rewrite IH, vals_of_md_append.
    destruct (bytes_eqb k (lower k')) eqn:E.
    + rewrite <- app_assoc. reflexivity.
    + reflexivity.
Qed.

Lemma lookup_add_entry_some k acc e :
  lookup k (add_entry acc e) = None <->
  lookup k acc = None /\ (bytes_eqb k (lower (fst e)) = false \/ snd e = []).
Proof.
  destruct e as [k' vs]. unfold add_entry. cbn [fst snd].
  revert acc. induction vs as [|v vs IH]; intro acc; cbn [fold_left].
  - split; [intro H; split; [exact H|right; reflexivity]|intros [H _]; exact H].
  - rewrite IH. rewrite lookup_md_append.
    destruct (bytes_eqb k (lower k')) eqn:E; split.
    + intros [H _]. discriminate.
    + intros [_ [H|H]]; discriminate.
    + intros [H _]. split; [exact H|left; reflexivity].
    + intros [H _]. split; [exact H|left; reflexivity].
Qed.

(* concatenation, in entry order, of the values whose key lower-cases to k *)
Fixpoint collect (k : bytes) (m : mdmap) : list bytes :=
  match m with
  | [] => []
  | e :: rest => (if bytes_eqb k (lower (fst e)) then snd e else []) ++ collect k rest
  end.

Lemma vals_of_fold k m acc :
  vals_of k (fold_left add_entry m acc) = vals_of k acc ++ collect k m.
Proof.
  revert acc. induction m as [|e m IH]; intro acc; cbn [fold_left collect].
  - rewrite app_nil_r. reflexivity.
  - rewrite IH, vals_of_add_entry.
    destruct (bytes_eqb k (lower (fst e))); [rewrite app_assoc|]; reflexivity.
Qed.

Theorem vals_of_norm k m : vals_of k (norm m) = collect k m.
Proof. unfold norm. rewrite vals_of_fold. reflexivity. Qed.

(* with keys that stay distinct after lower-casing, each key keeps exactly its
   own values, whatever the iteration order *)
Lemma collect_unique k vs m :
  NoDup (map (fun e => lower (fst e)) m) -> In (k, vs) m -> collect (lower k) m = vs.
Proof.
  induction m as [|e m IH]; intros Hnd Hin; [contradiction|].
  cbn [map] in Hnd. inversion Hnd as [|x l Hnotin Hnd']; subst.
  cbn [collect]. destruct Hin as [->|Hin].
  - cbn [fst snd]. rewrite bytes_eqb_refl.
    assert (Hz : forall m', ~ In (lower k) (map (fun e => lower (fst e)) m') -> collect (lower k) m' = []).
    { induction m' as [|e' m' IH']; intro Hn; [reflexivity|].
      cbn [collect]. cbn [map In] in Hn.
      destruct (bytes_eqb (lower k) (lower (fst e'))) eqn:E.
      - apply bytes_eqb_eq in E. exfalso. apply Hn. left. symmetry. exact E.
      - cbn [app]. apply IH'. intro. apply Hn. right. assumption. }
    rewrite Hz by exact Hnotin. apply app_nil_r.
  - destruct (bytes_eqb (lower k) (lower (fst e))) eqn:E.
    + apply bytes_eqb_eq in E. exfalso. apply Hnotin. rewrite <- E.
      apply (in_map (fun e => lower (fst e)) m (k, vs)). exact Hin.
    + cbn [app]. apply IH; assumption.
Qed.

Theorem norm_keeps k vs m :
  NoDup (map (fun e => lower (fst e)) m) -> In (k, vs) m ->
  vals_of (lower k) (norm m) = vs.
Proof. intros. rewrite vals_of_norm. apply collect_unique; assumption. Qed.

Lemma collect_perm_inv k m :
  (forall e, In e m -> lower (fst e) <> k) -> collect k m = [].
Proof.
  induction m as [|e m IH]; intro H; [reflexivity|].
  cbn [collect]. destruct (bytes_eqb k (lower (fst e))) eqn:E.
  - apply bytes_eqb_eq in E. exfalso. apply (H e); [left; reflexivity|auto].
  - cbn [app]. apply IH. intros e' Hin. apply H. right. exact Hin.
Qed.

Theorem norm_no_invention k m :
  (forall e, In e m -> lower (fst e) <> k) -> vals_of k (norm m) = [].
Proof. intro H. rewrite vals_of_norm. apply collect_perm_inv. exact H. Qed.

(* C18, liveness beyond the quiescent-state form: the internal rules of the demultiplexer terminate (a measure that every
   internal step decreases), so every internal continuation is finite and can be extended to a MAXIMAL one, whose last
   state is quiescent; in the last state of a maximal continuation every envelope taken from the shared transport for a
   connection that is not cancelled and whose consumer is reading has been handed to it, in order. *)
From Coq Require Import List ZArith Bool Lia.
Import ListNotations.
From Goat Require Import Model.Demux Proofs.DemuxProofs.
Open Scope nat_scope.

(* ---------- the measure ---------- *)
Definition w_rn (r : rnpc) : nat := match r with RNRead => 1 | RNHand _ _ => 2 | RNDead => 0 end.
Definition w_call (k : call) : nat := match cl_res k with None => 2 | Some _ => 0 end.
Definition w_conn (x : conn) : nat := match c_dw x with DWWrite _ => 2 | DWSel => 1 | DWDead => 0 end.
Fixpoint sum {A} (f : A -> nat) (l : list A) : nat := match l with [] => 0 | x :: t => f x + sum f t end.
Definition mu (s : state) : nat := 3 * length (inbox s) + w_rn (rn s) + sum w_call (calls s) + sum w_conn (conns s).

Lemma sum_upd {A} (f : A -> nat) l n x y : nth_error l n = Some x -> sum f (upd n y l) + f x = sum f l + f y.
Proof.
  revert n. induction l as [|a l IH]; intros [|n] H; cbn in *; try discriminate.
  - inversion H; subst. lia.
  - specialize (IH n H). lia.
Qed.
Lemma sum_app {A} (f : A -> nat) l m : sum f (l ++ m) = sum f l + sum f m.
Proof. induction l; cbn; lia. Qed.

Lemma sum_ret ks i k r : nth_error ks i = Some k -> cl_res k = None -> sum w_call (upd i (ret_call k r) ks) + 2 = sum w_call ks.
Proof.
  intros H E. pose proof (sum_upd w_call ks i k (ret_call k r) H) as Hs.
  assert (w_call k = 2) by (unfold w_call; rewrite E; reflexivity). assert (w_call (ret_call k r) = 0) by reflexivity. lia.
Qed.
Lemma sum_dw cs c x d : nth_error cs c = Some x ->
  sum w_conn (upd c (set_dw x d) cs) + w_conn x = sum w_conn cs + match d with DWWrite _ => 2 | DWSel => 1 | DWDead => 0 end.
Proof.
  intro H. pose proof (sum_upd w_conn cs c x (set_dw x d) H) as Hs.
  assert (Hd : w_conn (set_dw x d) = match d with DWWrite _ => 2 | DWSel => 1 | DWDead => 0 end) by (destruct d; reflexivity). lia.
Qed.

Ltac rw_s :=
  repeat match goal with
         | H : rn ?s = _ |- context [rn ?s] => rewrite H
         | H : inbox ?s = _ |- context [inbox ?s] => rewrite H
         end; cbn [length w_rn].

(* every internal step strictly decreases the measure *)
Lemma mu_rule s r s' : In r (rules s) -> r s = Some s' -> mu s' < mu s.
Proof.
  intros Hin H0. apply rules_in in Hin.
  destruct Hin as [->|[->|[->|[->|[(i & [->|[->|[->| ->]]])|(c & [->| ->])]]]]].
  - unfold r_rn_read in H0; open_rule H0; unfold mu; cbn [inbox rn calls conns set_rn set_inbox set_conns add_log length w_rn];
      rewrite ?sum_app; cbn [sum w_conn c_dw]; rw_s; lia.
  - unfold r_rn_readerr in H0; open_rule H0; unfold mu; cbn [inbox rn calls conns set_rn w_rn]; rw_s; lia.
  - unfold r_rn_hand_done in H0; open_rule H0; unfold mu; cbn [inbox rn calls conns set_rn add_log w_rn]; rw_s; lia.
  - unfold r_rn_hand_stop in H0; open_rule H0; unfold mu; cbn [inbox rn calls conns set_rn add_log w_rn]; rw_s; lia.
  - unfold r_read_rdv in H0; open_rule H0; unfold mu; cbn [inbox rn calls conns set_rn set_calls add_log w_rn].
    match goal with E : nth_error (calls s) i = Some ?k, E2 : cl_res ?k = None |- context [ret_call ?k ?r] => pose proof (sum_ret _ _ _ r E E2) end. rw_s. lia.
  - unfold r_call_ctx in H0; open_rule H0; unfold mu; cbn [inbox rn calls conns set_calls add_log].
    match goal with E : nth_error (calls s) i = Some ?k, E2 : cl_res ?k = None |- context [ret_call ?k ?r] => pose proof (sum_ret _ _ _ r E E2) end. lia.
  - unfold r_call_done in H0; open_rule H0; unfold mu; cbn [inbox rn calls conns set_calls add_log].
    match goal with E : nth_error (calls s) i = Some ?k, E2 : cl_res ?k = None |- context [ret_call ?k ?r] => pose proof (sum_ret _ _ _ r E E2) end. lia.
  - unfold r_write_rdv in H0; open_rule H0; unfold mu; cbn [inbox rn calls conns set_calls set_conns add_log].
    match goal with E : nth_error (calls s) i = Some ?k, E2 : cl_res ?k = None |- context [ret_call ?k ?r] => pose proof (sum_ret _ _ _ r E E2) end.
    match goal with E : nth_error (conns s) ?c = Some ?x, E2 : c_dw ?x = DWSel |- context [set_dw ?x ?d] =>
      pose proof (sum_dw _ _ _ d E) as Hc; unfold w_conn at 2 in Hc; rewrite E2 in Hc end. lia.
  - unfold r_dw_exit in H0; open_rule H0; unfold mu; cbn [inbox rn calls conns set_conns].
    match goal with E : nth_error (conns s) c = Some ?x, E2 : c_dw ?x = DWSel |- context [set_dw ?x ?d] =>
      pose proof (sum_dw _ _ _ d E) as Hc; unfold w_conn at 2 in Hc; rewrite E2 in Hc end. lia.
  - unfold r_dw_write in H0; open_rule H0; unfold mu; cbn [inbox rn calls conns set_conns add_log];
    match goal with E : nth_error (conns s) c = Some ?x, E2 : c_dw ?x = DWWrite _ |- context [set_dw ?x ?d] =>
      pose proof (sum_dw _ _ _ d E) as Hc; unfold w_conn at 2 in Hc; rewrite E2 in Hc end; lia.
Qed.

(* ---------- termination of the internal rules ---------- *)
Lemma lstep_int s n s' : lstep s (LInt n) = Some s' -> exists r, In r (rules s) /\ r s = Some s'.
Proof. unfold lstep. destruct (nth_error (rules s) n) as [r|] eqn:E; [|intro H; discriminate H]. intro H. exists r. split; [eapply nth_error_In; exact E|exact H]. Qed.

(* an internal continuation of n steps lowers the measure by at least n: no internal continuation is longer than mu s *)
Theorem demux_terminates : forall ns s s', lrun s (map LInt ns) = Some s' -> length ns + mu s' <= mu s.
Proof.
  induction ns as [|n ns IH]; intros s s' H.
  - cbn in H. inversion H; subst. cbn. lia.
  - change (lrun s (map LInt (n :: ns))) with (match lstep s (LInt n) with Some s1 => lrun s1 (map LInt ns) | None => None end) in H.
    destruct (lstep s (LInt n)) as [s1|] eqn:E; [|discriminate].
    destruct (lstep_int _ _ _ E) as (r & Hin & Hr). pose proof (mu_rule _ _ _ Hin Hr). specialize (IH _ _ H). cbn [length]. lia.
Qed.

(* hence every state has a MAXIMAL internal continuation: one that ends in a quiescent state *)
Theorem demux_maximal_exists : forall s, exists ns s', lrun s (map LInt ns) = Some s' /\ quiescent s' = true.
Proof.
  intro s. remember (mu s) as m eqn:Hm. revert s Hm. induction m as [m IH] using lt_wf_ind. intros s Hm.
  destruct (quiescent s) eqn:Q; [exists [], s; split; [reflexivity|exact Q]|].
  unfold quiescent in Q. apply negb_false_iff, existsb_exists in Q as (r & Hin & Hen).
  unfold enabled in Hen. destruct (r s) as [s1|] eqn:Hr; [|discriminate].
  pose proof (mu_rule _ _ _ Hin Hr) as Hlt. destruct (IH (mu s1) ltac:(lia) s1 eq_refl) as (ns & s' & Hrun & Hq).
  apply In_nth_error in Hin as (n & Hn). exists (n :: ns), s'. split; [|exact Hq].
  cbn [map lrun lstep]. rewrite Hn, Hr. exact Hrun.
Qed.

(* ---------- what holds at the end of a maximal continuation ---------- *)
(* the consumer of instance c keeps reading: a Read call on c is pending, its context not done *)
Definition reading (s : state) (c : nat) : Prop :=
  exists i k, nth_error (calls s) i = Some k /\ cl_conn k = c /\ cl_kind k = KRead /\ cl_res k = None.

Lemma quiescent_reader_served s c : quiescent s = true -> reading s c -> rn_pend s c = [].
Proof.
  intros Q (i & k & Hk & Hc & Hkind & Hres). unfold rn_pend. destruct (rn s) as [|c' e|] eqn:Hrn; try reflexivity.
  destruct (Nat.eqb_spec c' c) as [->|Hne]; [|reflexivity]. exfalso.
  assert (Hi : (i < length (calls s))%nat) by (apply nth_error_Some; congruence).
  pose proof (quiescent_none s (r_read_rdv i) Q (rules_has_call r_read_rdv i s Hi ltac:(cbn; auto))) as Hnone.
  unfold r_read_rdv in Hnone. rewrite Hk, Hrn, Hkind, Hres, Hc, Nat.eqb_refl in Hnone. discriminate.
Qed.

Lemma quiescent_inbox_taken s : quiescent s = true -> rn s = RNRead -> inbox s = [].
Proof.
  intros Q Hrn. destruct (inbox s) as [|e rest] eqn:Hi; [reflexivity|]. exfalso.
  pose proof (quiescent_none s r_rn_read Q (rules_has_global r_rn_read s ltac:(auto))) as Hnone.
  unfold r_rn_read in Hnone. rewrite Hrn, Hi in Hnone. destruct (find_reg (ekey e) (conns s) 0); discriminate.
Qed.

(* delivered: from any reachable state, at the end of ANY maximal internal continuation (they all are finite:
   demux_terminates; one exists: demux_maximal_exists), while the demultiplexer is not stopped: every envelope the run loop
   took from the shared transport for an instance that is not cancelled and whose consumer is reading has been handed to
   that instance's Reads, in order, each once; and unless the run loop is parked in a hand-off to ANOTHER instance (whose
   consumer is not reading: head-of-line, by design) it has taken everything that arrived *)
Theorem demux_delivered : forall ls s, lrun init ls = Some s ->
  forall ns s', lrun s (map LInt ns) = Some s' -> quiescent s' = true -> stopped s' = false ->
  (forall c, conn_done s' c = false -> reading s' c -> routed c (log s') = handed c (log s')) /\
  (rn s' = RNRead -> inbox s' = []) /\
  (forall c e, rn s' = RNHand c e -> ~ reading s' c).
Proof.
  intros ls s Hs ns s' Hrun Q Hstop.
  assert (R : reachable s') by (eapply reachable_lrun; [exists ls; exact Hs|exact Hrun]).
  split; [|split].
  - intros c Hd Hr. rewrite (route_live s' R c Hd Hstop), (quiescent_reader_served s' c Q Hr). apply app_nil_r.
  - apply quiescent_inbox_taken, Q.
  - intros c e Hrn Hr. pose proof (quiescent_reader_served s' c Q Hr) as H. unfold rn_pend in H. rewrite Hrn, Nat.eqb_refl in H. discriminate.
Qed.

(* The client of a fault-free system run sees no fault: its read never failed, its transport accepts writes. *)
From Coq Require Import List ZArith Bool Lia Arith.
Import ListNotations.
From Goat Require Import Model.Client Model.Server Proofs.ClientBase Proofs.ClientInv Model.Sys Proofs.SysLog Proofs.SysProofs Proofs.SysC01d.
Open Scope Z_scope.

(* ---------- the client sees no fault ---------- *)
Definition cff (s : Client.state) : Prop := Client.inbox_failed s = false /\ rerr s = false /\ Client.wfail s = false.

Lemma cff_int s r s' : cff s -> In r (Client.rules s) -> r s = Some s' -> cff s'.
Proof.
  intros (A & B & C) Hin H. apply rules_in in Hin. destruct Hin as [->|[->|(c & _ & Hin)]].
  - unfold r_rl_unblock in H. open_rule H; repeat split; auto.
  - unfold r_rl_read in H. open_rule H; repeat split; auto; congruence.
  - simpl in Hin.
    repeat (destruct Hin as [<-|Hin];
            [ unfold r_check, r_reg, r_wait, r_wait_ctx, r_unreg, r_loop_read, r_loop_read_ctx, r_loop_hand,
                     r_loop_hand_ctx, r_loop_exit, r_loop_unreg, r_recv, r_header, r_trailer, r_send in H;
              open_rule H; try (repeat split; auto; congruence) | ]).
    all: try destruct Hin.
Qed.

Lemma cff_ext s a : cff s -> match a with Client.AFailRead | Client.ASetWriteFail _ => False | _ => True end -> cff (Client.ext s a).
Proof.
  intros (A & B & C) Ha. destruct a; try contradiction; simpl; unfold with_call;
    repeat match goal with |- context [match ?x with _ => _ end] => destruct x end; repeat split; auto.
Qed.

Lemma cff_sys pol ls : forall s, Sys.lrun pol Sys.init ls = Some s -> fault_free ls = true -> cff (cl s).
Proof.
  induction ls as [|l ls IH] using rev_ind; intros s H Hff.
  - inversion H; subst. repeat split.
  - unfold fault_free in Hff. rewrite forallb_app in Hff. apply andb_prop in Hff. destruct Hff as (Hff & Hl0). simpl in Hl0. rewrite andb_true_r in Hl0.
    destruct (sys_lrun_snoc _ _ _ _ _ H) as (s1 & H1 & Hl). pose proof (IH _ H1 Hff) as HP.
    pose proof (lstep_cl _ _ _ _ Hl) as X. destruct l as [x|x| |].
    + destruct X as (Hc & _ & _). destruct x as [a|n]; simpl in Hc.
      * inversion Hc. apply cff_ext; auto. destruct a; simpl in Hl0; try discriminate; exact I.
      * destruct (nth_error (Client.rules (cl s1)) n) as [r|] eqn:E; [|discriminate]. apply nth_error_In in E. eapply cff_int; eauto.
    + destruct X as (_ & _ & _ & ->). exact HP.
    + destruct X as (f & rest & _ & _ & -> & _). exact HP.
    + destruct X as (e & rest & _ & -> & _). apply cff_ext; auto.
Qed.


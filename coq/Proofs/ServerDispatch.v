(* C12, dispatch of unary requests: complete direction (Model/Server.v). *)
From Coq Require Import List ZArith Bool Lia Arith.
Import ListNotations.
From Goat Require Import Model.Client Model.Server Proofs.ServerProofs Proofs.ServerInv Proofs.ServerTrace Proofs.ServerLive Proofs.ServerRoute.
Open Scope Z_scope.

(* ---------- dispatch, complete direction for unary requests ---------- *)
Definition unary_ok (f : frame) : bool := negb (md_bad f) && negb (body_tok f <? 0).
(* the envelopes that started the unary handlers, in start order *)
Definition ureqs (s : state) : list frame := map snd (filter fst (sigs s)).

Definition inv_uc (s : state) : Prop :=
  ureqs s = filter unary_ok (jobs (log s))
  /\ match rd s with RdOffer f => dispatch f = DUnary | _ => True end.

Lemma jobs_app l1 l2 : jobs (l1 ++ l2) = jobs l1 ++ jobs l2.
Proof. apply flat_map_app. Qed.

Lemma uc_quiet s s' evs :
  inv_uc s -> log s' = log s ++ evs -> jobs evs = [] -> sigs s' = sigs s ->
  match rd s' with RdOffer f => rd s = RdOffer f | _ => True end -> inv_uc s'.
Proof.
  intros [I1 I2] El Ej Es Hrd. split.
  - unfold ureqs. rewrite Es, El, jobs_app, Ej, app_nil_r. exact I1.
  - destruct (rd s') eqn:E; auto. rewrite Hrd in I2. exact I2.
Qed.

Lemma uc_ext s a : inv_uc s -> inv_uc (ext s a).
Proof.
  intros I. destruct a; simpl; try (apply (uc_quiet s _ [] I); [simpl; now rewrite app_nil_r | reflexivity | reflexivity | simpl; destruct (rd s); auto]; fail).
  destruct (nth_error (hs s) h) as [k|] eqn:Hn; [|exact I]. destruct (h_pc k) eqn:Hg; try exact I.
  destruct (hstep_log s h k o) as [evs [E Hev]]. destruct (hstep_other s h k o) as [E1 _].
  apply (uc_quiet s _ evs I E).
  - clear -Hev. induction evs as [|e evs IH]; [reflexivity|]. unfold jobs in *. simpl. rewrite IH by (intros x Hx; apply Hev; now right).
    specialize (Hev e (or_introl eq_refl)). destruct e; try contradiction; reflexivity.
  - destruct (hstep_shape s h k o Hn Hg) as [k' [Hhs [Hu [_ [_ [_ [Hq _]]]]]]].
    unfold sigs. rewrite Hhs. apply (map_upd_same hsig h k k' _ Hn). unfold hsig. now rewrite Hu, Hq.
  - rewrite E1. destruct (rd s); auto.
Qed.

Lemma jobs_single e : (forall w f, e <> SvJob w f) -> jobs [e] = [].
Proof. intros H. unfold jobs. simpl. destruct e; try reflexivity. exfalso. eapply H. reflexivity. Qed.

Ltac uc_tac I :=
  eapply (uc_quiet _ _ _ I);
  [ sproj; first [reflexivity | rewrite app_nil_r; reflexivity | symmetry; apply app_nil_r]
  | reflexivity
  | unfold sigs; sproj; try reflexivity;
    try (match goal with Hn : nth_error (hs _) ?h = Some ?k |- _ => apply (map_upd_same hsig h k _ _ Hn); reflexivity end)
  | sproj; repeat match goal with E : rd _ = _ |- _ => rewrite E end; auto; match goal with |- match rd ?x with _ => _ end => destruct (rd x); auto end ].

Lemma uc_int s i s' : inv_hdr s -> inv_uc s -> rule_of i s = Some s' -> inv_uc s'.
Proof.
  intros Ih I H. destruct i; simpl in H.
  all: try (start_rule H; uc_tac I; fail).
  - (* r_rd_read *)
    destruct Ih as [_ Ihd]. unfold r_rd_read in H. destruct (rd s) eqn:Erd; try discriminate. destruct (inbox s) as [|f rest].
    + destr_in H; inv_some H; uc_tac I.
    + destruct (dispatch f) eqn:Ed; inv_some H.
      * uc_tac I.
      * destruct I as [I1 _]. split; [unfold ureqs, sigs in *; sproj; rewrite jobs_app; simpl; rewrite app_nil_r; exact I1 | sproj; exact Ed].
      * destruct (stream_dispatch_step (add_log (set_inbox s rest) [SvRead f]) f Ed) as [[E1 E2] | [E1 [E2 E3]]].
        -- apply (uc_quiet s _ [SvRead f] I); [rewrite E1; reflexivity | reflexivity | rewrite E2; reflexivity|].
           pose proof (stream_dispatch_rd (add_log (set_inbox s rest) [SvRead f]) f Erd) as Hr.
           destruct (rd (stream_dispatch (add_log (set_inbox s rest) [SvRead f]) f)); auto; contradiction.
        -- destruct I as [I1 _]. split.
           ++ unfold ureqs. rewrite E2, E1. sproj. unfold sigs at 1. sproj. rewrite filter_app, map_app. simpl. rewrite app_nil_r.
              rewrite !jobs_app. simpl. rewrite !app_nil_r. exact I1.
           ++ pose proof (stream_dispatch_rd (add_log (set_inbox s rest) [SvRead f]) f Erd) as Hr.
              destruct (rd (stream_dispatch (add_log (set_inbox s rest) [SvRead f]) f)); auto; contradiction.
  - (* r_rd_offer *)
    destruct Ih as [_ Ihd]. unfold r_rd_offer in H. destruct (rd s) eqn:Erd; try discriminate.
    destruct (find_idle (wk s) 0); [|discriminate]. inv_some H. destruct I as [I1 I2].
    assert (Hh : has_hdr f = true) by (apply dispatch_hdr; congruence).
    unfold start_unary. rewrite Hh. simpl negb. cbv iota.
    destruct (md_bad f) eqn:Em; [|destruct (body_tok f <? 0) eqn:Eb].
    + split; [|sproj; exact Logic.I]. unfold ureqs, sigs in *. sproj. rewrite jobs_app. simpl. rewrite filter_app. simpl.
      unfold unary_ok at 2. rewrite Em. simpl. rewrite app_nil_r. exact I1.
    + split; [|sproj; exact Logic.I]. unfold ureqs, sigs in *. sproj. rewrite jobs_app. simpl. rewrite filter_app. simpl.
      unfold unary_ok at 2. rewrite Em, Eb. simpl. rewrite app_nil_r. exact I1.
    + split; [|sproj; exact Logic.I]. unfold ureqs, sigs in *. sproj. rewrite map_app, filter_app, map_app. simpl.
      rewrite !jobs_app. simpl. rewrite !filter_app. simpl. unfold unary_ok at 2. rewrite Em, Eb. simpl. rewrite !app_nil_r.
      rewrite I1. reflexivity.
  - (* r_h_unreg *)
    unfold r_h_unreg in H. destruct (nth_error (hs s) h) as [k|] eqn:Hn; [|discriminate].
    destruct (h_pc k); try discriminate. destruct (mu_free s); [|discriminate].
    assert (E0 : map hsig (upd h (hset_pc k HDead) (hs s)) = map hsig (hs s))
      by (apply (map_upd_same hsig h k _ _ Hn); reflexivity).
    destruct (find_reg _ _ _) as [g|]; [destruct (nth_error _ g) as [kg|] eqn:Hg|]; inv_some H.
    + apply (uc_quiet s _ [SvUnreg g] I); [reflexivity | reflexivity | | simpl; destruct (rd s); auto].
      unfold sigs; sproj. rewrite (map_upd_same hsig g kg _ _ Hg) by reflexivity. exact E0.
    + apply (uc_quiet s _ [] I); [sproj; now rewrite app_nil_r | reflexivity | exact E0 | simpl; destruct (rd s); auto].
    + apply (uc_quiet s _ [] I); [sproj; now rewrite app_nil_r | reflexivity | exact E0 | simpl; destruct (rd s); auto].
Qed.

Theorem srv_dispatch_unary nw ls s : lrun (init_n nw) ls = Some s -> ureqs s = filter unary_ok (jobs (log s)).
Proof.
  intros H. assert (G : inv_hdr s /\ inv_uc s).
  { revert H. apply (lrun_inv (fun s => inv_hdr s /\ inv_uc s)).
    - intros s0 a [I1 I2]. split; [now apply inv_hdr_ext | now apply uc_ext].
    - intros s0 i s1 [I1 I2] Hr. split; [eapply inv_hdr_int; eassumption | eapply uc_int; eassumption].
    - split; [apply inv_hdr_init | split; [reflexivity | exact Logic.I]]. }
  apply G.
Qed.

(* Q-form: in every reachable quiescent state in which the read loop still serves and some worker is idle, every
   unary request read so far has been handed to a worker, and a handler was started for exactly those whose
   metadata and body decode - in order, once each *)
Theorem srv_dispatch_complete nw ls s : lrun (init_n nw) ls = Some s ->
  quiescent s = true -> rd_exited s = false -> (exists w, nth_error (wk s) w = Some WkIdle) ->
  ureads (log s) = jobs (log s) /\ ureqs s = filter unary_ok (ureads (log s)).
Proof.
  intros H Q Hx [w Hw].
  assert (Ho : offered s = []).
  { unfold offered. destruct (rd s) eqn:Erd; auto. exfalso.
    pose proof (q_fixed s RRdOffer Q Logic.I) as H1. simpl in H1. unfold r_rd_offer in H1. rewrite Erd in H1.
    destruct (find_idle (wk s) 0) eqn:Ef; [discriminate|]. exact (find_idle_none _ _ Ef w Hw). }
  pose proof (srv_unary_once_serving nw ls s H Hx) as E. rewrite Ho, app_nil_r in E.
  split; [exact E|]. rewrite E. apply (srv_dispatch_unary nw ls s H).
Qed.

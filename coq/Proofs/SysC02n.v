(* C02_caller_eof_complete (Q-form), end to end: fault-free, the caller's context not ended (no cancellation, no
   deadline), no SendMsg of the stream failed, the handler returned nil and its trailer was accepted by the writer.  In every
   quiescent state with empty wires and inboxes, either the stream loop still holds a message for a RecvMsg the
   caller has not issued, or the terminal state (done, io.EOF) is published, no RecvMsg is pending, RecvMsg has
   returned ALL the messages the handler sent, and no RecvMsg ever returned an error other than io.EOF (or the
   Unmarshal error of an undecodable message): never Canceled. *)
From Coq Require Import List ZArith Bool Lia Arith.
Import ListNotations.
From Goat Require Import Model.Client Model.Protocol Model.Server Proofs.ClientBase Proofs.ClientInv Proofs.ClientLog Proofs.ClientProps
  Proofs.ProtocolClient Proofs.ServerProofs Proofs.ServerInv Proofs.ServerTrace Proofs.ServerWriter Proofs.ServerProto Proofs.ServerLive
  Model.Sys Proofs.SysLog Proofs.SysProofs Proofs.SysFacts Proofs.SysFacts2 Proofs.SysC01 Proofs.SysC01b Proofs.SysC01d
  Proofs.SysC02 Proofs.SysC02b Proofs.SysC02c Proofs.SysC02e Proofs.SysC02f Proofs.SysC02g Proofs.SysC02h Proofs.SysC02i Proofs.SysC02j
  Proofs.SysC02k Proofs.SysC02m Proofs.SysCff.
Open Scope Z_scope.

(* ---------- every frame of the server carries decodable metadata ---------- *)
Definition mdok (fr : frame) : Prop := exists t, ehdr (f_env fr) = Some (MdOk t).
Definition MD (v : Server.state) : Prop := forall fr, pending v fr -> mdok fr.
Definition pend_oldM (s s' : Server.state) : Prop := forall fr, pending s' fr -> pending s fr \/ mdok fr.

Lemma MD_from_old s s' : MD s -> pend_oldM s s' -> MD s'.
Proof. intros HM PO fr P. destruct (PO fr P) as [P0 | M]; auto. Qed.

Ltac mdok_tac := unfold mdok; simpl; eexists; reflexivity.

Ltac pend_oldM_tac :=
  let fr := fresh "fr" in let P := fresh "P" in
  intros fr P; destruct P as [P | wX P | hX kX skX P Q | P]; sproj;
  [ try discriminate P; try (inversion P; subst; clear P); first [ left; eauto using pending; fail | right; mdok_tac | eauto using pending ]
  | try (apply nth_upd_cases in P; destruct P as [(-> & P & _) | (_ & P)]; [try discriminate P; try (inversion P; subst; clear P) | ]);
    first [ left; eauto using pending; fail | right; mdok_tac | eauto using pending ]
  | try (apply nth_upd_cases in P; destruct P as [(-> & -> & _) | (_ & P)]; [simpl in Q; try discriminate Q; try (inversion Q; subst; clear Q) | ]);
    first [ left; eauto using pending; fail | right; mdok_tac | eauto using pending ]
  | in_log P; eauto using pending ].

Lemma MD_stream_dispatch s fr0 : MD s -> MD (stream_dispatch s fr0).
Proof.
  intros HE. unfold stream_dispatch.
  destruct (find_reg (fid fr0) (hs s) 0) as [h|].
  - destruct (Server.is_rst fr0).
    + destruct (nth_error (hs s) h) as [k|] eqn:Hn; [|exact HE].
      apply (MD_from_old s); [exact HE | pend_oldM_tac].
    + apply (MD_from_old s); [exact HE | pend_oldM_tac].
  - destruct (Server.is_rst fr0); [exact HE|].
    destruct (has_body fr0); [apply (MD_from_old s); [exact HE | pend_oldM_tac]|].
    destruct (has_trl fr0); [exact HE|].
    destruct (md_bad fr0); [apply (MD_from_old s); [exact HE | pend_oldM_tac]|].
    apply (MD_from_old s); [exact HE | ].
    intros fr P. left. destruct P as [P | wX P | hX kX skX P Q | P]; sproj; eauto using pending.
    + apply nth_app_new in P. destruct P as [P | (_ & ->)]; [eauto using pending | simpl in Q; discriminate Q].
    + in_log P; eauto using pending.
Qed.

Lemma MD_start_unary s w fr0 : MD s -> MD (start_unary s w fr0).
Proof.
  intros HE. unfold start_unary.
  destruct (negb (has_hdr fr0)); [apply (MD_from_old s); [exact HE | pend_oldM_tac]|].
  destruct (md_bad fr0); [apply (MD_from_old s); [exact HE | pend_oldM_tac]|].
  destruct (body_tok fr0 <? 0); [apply (MD_from_old s); [exact HE | pend_oldM_tac]|].
  apply (MD_from_old s); [exact HE | ].
  intros fr P. left. destruct P as [P | wX P | hX kX skX P Q | P]; sproj; eauto using pending.
  - apply nth_upd_cases in P. destruct P as [(-> & P & _) | (_ & P)]; [discriminate P | eauto using pending].
  - apply nth_app_new in P. destruct P as [P | (_ & ->)]; [eauto using pending | simpl in Q; discriminate Q].
  - in_log P; eauto using pending.
Qed.

Lemma MD_hunregister s g kg : MD s -> nth_error (hs s) g = Some kg -> MD (add_log (set_h s g (hunregister kg)) [SvUnreg g]).
Proof.
  intros HE Hg. apply (MD_from_old s); [exact HE | ].
  intros fr P. left. destruct P as [P | wX P | hX kX skX P Q | P]; sproj; eauto using pending.
  - apply nth_upd_cases in P. destruct P as [(-> & -> & _) | (_ & P)]; [ | eauto using pending].
    eapply PHs; [exact Hg | exact Q].
  - in_log P; eauto using pending.
Qed.

Lemma MD_int s i s' : MD s -> rule_of i s = Some s' -> MD s'.
Proof.
  intros HE H. destruct i; simpl in H.
  all: try solve [ start_rule H; (apply (MD_from_old s); [exact HE | try pend_oldM_tac]) ].
  - unfold r_rd_read in H. destruct (rd s) eqn:Erd; try discriminate.
    destruct (Server.inbox s) as [|fr0 rest] eqn:Ei.
    + destr_in H; inv_some H; apply (MD_from_old s); [exact HE | pend_oldM_tac | exact HE | pend_oldM_tac].
    + assert (E1 : MD (add_log (set_inbox s rest) [SvRead fr0])).
      { apply (MD_from_old s); [exact HE | pend_oldM_tac]. }
      destruct (dispatch fr0); inv_some H.
      * exact E1.
      * apply (MD_from_old s); [exact HE | pend_oldM_tac].
      * apply MD_stream_dispatch. exact E1.
  - unfold r_rd_offer in H. destruct (rd s) eqn:Erd; try discriminate.
    destruct (find_idle (wk s) 0) as [w|]; [|discriminate]. inv_some H.
    apply MD_start_unary. apply (MD_from_old s); [exact HE | pend_oldM_tac].
  - unfold r_h_unreg in H. destruct (nth_error (hs s) h) as [k|] eqn:Hn; [|discriminate].
    destruct (h_pc k) eqn:Hpc; try discriminate. destruct (mu_free s); [|discriminate].
    assert (E1 : MD (set_h s h (hset_pc k HDead))).
    { apply (MD_from_old s); [exact HE | pend_oldM_tac]. }
    destruct (find_reg _ _ _) as [g|]; [destruct (nth_error _ g) as [kg|] eqn:Hg|]; inv_some H; try exact E1.
    apply MD_hunregister; [exact E1 | exact Hg].
Qed.

Lemma MD_hstep s h k o : MD s -> nth_error (hs s) h = Some k -> h_pc k = HGate -> MD (hstep s h k o).
Proof.
  intros HE Hn Hg fr P.
  assert (G : pending s fr \/ mdok fr).
  { unfold hstep in *. destruct (h_unary k) eqn:Hun.
    - destruct o; try destruct (h_hsent k) eqn:Hs;
        first [ left; exact P
              | (eapply pend_upd_h in P;
                 [ | sproj; reflexivity | sproj; reflexivity
                   | sproj; first [reflexivity | symmetry; apply upd_same; exact Hn] | sproj; no_write ]);
                [ destruct P as [P | (sk & P)]; [left; exact P | simpl in P; rewrite ?Hg in P; discriminate P] ]
              | idtac ].
      all: destruct P as [P | wX P | hX kX skX P Q | P]; sproj;
        [ left; eauto using pending
        | apply finish_unary_nth in P; destruct P as (p0 & P0 & [(E & _) | (E1 & E2)]);
          [subst p0; left; eauto using pending | inversion E2; subst fr; right; mdok_tac]
        | apply nth_upd_cases in P; destruct P as [(-> & -> & _) | (_ & P)]; [simpl in Q; discriminate Q | left; eauto using pending]
        | in_log P; left; eauto using pending ].
    - destruct o; try destruct (h_hsent k) eqn:Hs;
        (eapply pend_upd_h in P; [ | sproj; reflexivity | sproj; reflexivity | sproj; try reflexivity | sproj; no_write ]);
        try (destruct P as [P | (sk & P)]; [left; exact P | ]).
      all: try (simpl in P; try discriminate P; inversion P; subst; clear P).
      all: try (right; mdok_tac).
      all: try (left; assumption).
      all: try (symmetry; apply upd_same; exact Hn).
      all: try (exfalso; match goal with X : h_pc _ = HInSend _ _ |- _ => rewrite Hg in X; discriminate X end). }
  destruct G as [G | G]; auto.
Qed.

Lemma MD_ext s a : MD s -> MD (Server.ext s a).
Proof.
  intros HE. destruct a; simpl.
  all: try solve [apply (MD_from_old s); [exact HE | pend_oldM_tac]].
  destruct (nth_error (hs s) h) as [k|] eqn:Hn; [|exact HE]. destruct (h_pc k) eqn:Hg; try exact HE.
  apply MD_hstep; auto.
Qed.

Theorem MD_reach nw ls s : Server.lrun (init_n nw) ls = Some s -> MD s.
Proof.
  apply lrun_inv; [intros; apply MD_ext; auto | intros; eapply MD_int; eauto | ].
  intros fr P. destruct P as [P | w P | h k sk P Q | P]; simpl in *; try discriminate; try tauto.
  - apply nth_error_In in P. apply repeat_spec in P. discriminate.
  - destruct h; discriminate.
Qed.

(* ---------- before the trailer of a stream id, only header / message envelopes ---------- *)
Lemma step_rst st r st1 : s2c_step st r = Some st1 -> p_rst r = true -> st1 = SSClosed \/ st1 = SSReset.
Proof.
  intros H Hr.
  assert (A : is_open r = false) by (unfold is_open; rewrite Hr, !andb_false_r; reflexivity).
  assert (B : is_body r = false) by (unfold is_body; rewrite Hr, !andb_false_r; reflexivity).
  assert (C : is_trailer r = false) by (unfold is_trailer; rewrite Hr, !andb_false_r; reflexivity).
  destruct st; simpl in H; rewrite ?A, ?B, ?C in H.
  - destruct (Protocol.is_rst r); inversion H; auto.
  - destruct (negb (md_of r =? 0)); [discriminate|]. destruct (Protocol.is_rst r); inversion H; auto.
  - destruct (Protocol.is_rst r && (md_of r =? 0)); inversion H; auto.
  - destruct (Protocol.is_rst r && (md_of r =? 0)); inversion H; auto.
Qed.

Lemma shape_before_trailer st F1 f F2 st' :
  s2c_end st (map pf (F1 ++ f :: F2)) = Some st' -> has (p_trl (pf f)) = true -> p_rst (pf f) = false ->
  forall g, In g F1 -> final_of (f_env g) = None.
Proof.
  intros H Ht Hr g Hg. apply in_split in Hg. destruct Hg as (G1 & G2 & ->).
  rewrite <- app_assoc, map_app in H. simpl in H.
  assert (Hin : In (pf f) (map pf (G2 ++ f :: F2))) by (apply in_map; apply in_or_app; right; left; reflexivity).
  assert (Nr : Protocol.is_rst (pf f) = false) by (unfold Protocol.is_rst; rewrite Hr, andb_false_r; reflexivity).
  destruct (erst (f_env g)) eqn:Er.
  - exfalso. destruct (s2c_end_app _ _ _ _ H) as (st1 & _ & H2). simpl in H2.
    destruct (s2c_step st1 (pf g)) as [st2|] eqn:E; [|discriminate].
    assert (X : p_rst (pf g) = true) by exact Er.
    pose proof (after_rst_only_rst _ _ _ (step_rst _ _ _ E X) H2 _ Hin). congruence.
  - unfold final_of. rewrite Er. destruct (etrl (f_env g)) as [m|] eqn:Et; [exfalso|reflexivity].
    assert (X : has (p_trl (pf g)) = true) by (unfold pf; simpl; rewrite Et; destruct m; reflexivity).
    pose proof (after_trailer_rst _ _ _ _ _ H X Er _ Hin). congruence.
Qed.

(* ---------- the theorem ---------- *)
Theorem C02_caller_eof_complete pol ls s c k t :
  Sys.lrun pol Sys.init ls = Some s -> fault_free ls = true ->
  Sys.quiescent s = true -> Server.inbox (sv s) = [] -> Client.inbox (cl s) = [] ->
  nth_error (calls (cl s)) c = Some k -> k_unary k = false -> k_pc k = POpen ->
  ctx_done (k_ctx k) = false -> ~ sendfail c (Client.log (cl s)) ->
  In t (accepted (k_id k) (sv s)) -> final_of t = Some EEof ->
  (exists b, s_loop k = LHand b) \/
  (s_done k = true /\ s_rerr k = Some EEof /\ (s_recv k = RNone \/ s_recv k = RParked) /\
   msgs c (Client.log (cl s)) = pb (accepted (k_id k) (sv s)) /\
   forall e, In (EvRecvRet c (RErr e)) (Client.log (cl s)) -> e = EEof \/ e = EUnmarshal).
Proof.
  intros H Hff Q Hi1 Hi2 Hn Hu Hp Hctx Hns Ht Hfin.
  pose proof (proj_c_run _ _ _ _ H) as Hc. pose proof (proj_s_run _ _ _ _ H) as Hs.
  destruct (all_inv_reach _ _ Hc) as (HI & HS & HL). pose proof (cinv_call _ _ _ HI Hn) as K.
  destruct (cff_sys _ _ _ H Hff) as (_ & Hre & _).
  pose proof (proj_s_lbl_ok pol ls Sys.init Hff) as Hlo.
  destruct (sff_fields _ (sff_reach _ _ _ Hs Hlo)) as (_ & Hwf & Hwb & _).
  unfold Sys.quiescent in Q. repeat (apply andb_prop in Q; destruct Q as [Q ?]).
  assert (Qc : Client.quiescent (cl s) = true) by assumption.
  assert (Qs : Server.quiescent (sv s) = true) by assumption.
  assert (Ec2s : c2s s = []) by (destruct (c2s s); [reflexivity | discriminate]).
  assert (Es2c : s2c s = []) by (destruct (s2c s); [reflexivity | discriminate]).
  assert (Hlt : (c < length (calls (cl s)))%nat) by (eapply nth_some_lt; eauto).
  (* the writer is idle: what it accepted is written *)
  assert (Einf : inflight (sv s) = []).
  { unfold inflight. destruct (Server.wr (sv s)) eqn:Ew; auto. exfalso.
    assert (X : rule_of RWrWrite (sv s) = None) by (apply q_fixed; [exact Qs | exact I]).
    simpl in X. unfold r_wr_write in X. rewrite Ew, Hwf, Hwb in X. discriminate X. }
  assert (Etk : tk (Server.log (sv s)) = swrites (Server.log (sv s))).
  { rewrite (srv_taken_is_written _ _ _ Hs Hlo), Einf, app_nil_r. reflexivity. }
  (* ... delivered, read *)
  destruct (wire_complete_id _ _ _ (k_id k) H Ec2s Es2c Hi1 Hi2) as (_ & W).
  destruct (PC_sys _ _ _ H _ _ Hn Hp) as (post & EP & Hpost). unfold idr in EP. rewrite W in EP.
  assert (EA : accepted (k_id k) (sv s) = ctakes c (Client.log (cl s)) ++ bufpart k ++ holdpart c (rl (cl s)) ++ post).
  { unfold accepted. rewrite Etk. exact EP. }
  (* the shape of the accepted envelopes *)
  assert (Hpos : 0 < k_id k) by (apply open_pos; auto).
  destruct (pv_shape _ _ (pinv_reach _ (k_id k) _ _ Hs) (sys_sconf _ _ _ _ _ H Hn Hu Hpos)) as (st & Est & _).
  assert (EF : accepted (k_id k) (sv s) = map f_env (idf (k_id k) (tk (Server.log (sv s))))) by (unfold accepted; apply by_id_map_env).
  destruct (RE_sys _ _ _ H _ _ Hn Hu) as (_ & R2 & _ & R4).
  destruct (EX_reach _ _ Hc) as (HX & _). destruct (HX _ _ Hn Hu) as (_ & XB & XC & _).
  (* no exceptional cause *)
  assert (NB : ~ badc (cl s) c k).
  { intros [X | [X | [X | (e & He & [Hb | (err & Hf & Hne)])]]]; [congruence | contradiction | congruence | | ].
    - assert (Ia : In e (accepted (k_id k) (sv s))) by (rewrite EA; apply in_or_app; left; exact He).
      rewrite EF in Ia. apply in_map_iff in Ia. destruct Ia as (g & Eg & Hg).
      unfold idf in Hg. apply filter_In in Hg. destruct Hg as (Hg & _). rewrite Etk in Hg.
      destruct (MD_reach _ _ _ Hs g (PLog _ _ (proj1 (in_swrites _ _) Hg))) as (m & Em). congruence.
    - assert (Fn : final_of e <> None) by congruence.
      destruct (R4 _ He Fn) as (_ & P & ET).
      assert (Ia : In t (P ++ e :: bufpart k ++ holdpart c (rl (cl s)) ++ post)).
      { rewrite EA, ET, <- app_assoc in Ht. exact Ht. }
      apply in_app_or in Ia. destruct Ia as [Ia | [Ia | Ia]].
      + assert (It : In t (ctakes c (Client.log (cl s)))) by (rewrite ET; apply in_or_app; left; exact Ia).
        destruct (R4 _ It ltac:(congruence)) as (_ & P' & ET'). rewrite ET in ET'. apply app_inj_tail in ET'. destruct ET' as (_ & <-). congruence.
      + subst t. congruence.
      + apply in_split in Ia. destruct Ia as (R1 & R2' & ER).
        assert (EA' : accepted (k_id k) (sv s) = (P ++ e :: R1) ++ t :: R2').
        { rewrite EA, ET, <- !app_assoc. simpl. rewrite ER. reflexivity. }
        rewrite EF in EA'. destruct (map_split _ _ _ _ _ EA') as (F1 & ft & F2 & EFs & M1 & Mt & _).
        rewrite EFs in Est.
        assert (Tt : has (p_trl (pf ft)) = true /\ p_rst (pf ft) = false).
        { unfold pf. simpl. rewrite Mt. unfold final_of in Hfin. destruct (erst t); [discriminate|]. destruct (etrl t) as [[|]|]; try discriminate; auto. }
        assert (Ie : In e (map f_env F1)) by (rewrite M1; apply in_or_app; right; left; reflexivity).
        apply in_map_iff in Ie. destruct Ie as (g & Eg & Hg).
        pose proof (shape_before_trailer _ _ _ _ _ Est (proj1 Tt) (proj2 Tt) g Hg) as Z. rewrite Eg in Z. congruence. }
  destruct (s_loop k) eqn:El.
  - (* LRead: impossible *)
    exfalso.
    assert (X : r_loop_read c (cl s) = None) by (apply quiescent_call; [exact Qc | exact Hlt | simpl; tauto]).
    unfold r_loop_read in X. rewrite Hn, El in X.
    destruct (cbuf (k_chan k)) as [eb|] eqn:Eb.
    { cbv zeta in X.
      repeat match type of X with
             | (if ?b then _ else _) = None => destruct b
             | match ?x with _ => _ end = None => destruct x
             end; discriminate X. }
    destruct (cclosed (k_chan k)) eqn:Ecl; [discriminate X|].
    assert (Er : k_reg k = true).
    { destruct (k_reg k) eqn:Er; auto. pose proof (ki_unreg_closed _ K Er) as Y. rewrite Ecl in Y.
      assert (loop_alive k = true) by (unfold loop_alive; rewrite El; reflexivity). apply Y. auto. }
    assert (Eh : holdpart c (rl (cl s)) = []).
    { unfold holdpart. destruct (rl (cl s)) as [|c1 e1|] eqn:Erl; auto. destruct (Nat.eqb_spec c1 c) as [->|]; auto. exfalso.
      assert (Y : r_rl_unblock (cl s) = None) by (apply ClientBase.quiescent_none; [exact Qc | left; reflexivity]).
      unfold r_rl_unblock in Y. rewrite Erl, Hn, Eb in Y. discriminate Y. }
    unfold bufpart in EA. rewrite Eb, Eh, (Hpost Er), !app_nil_r in EA. rewrite EA in Ht.
    destruct (R2 (ex_intro _ t (conj Ht Hfin))) as (Y & _). rewrite ?El in Y. discriminate Y.
  - left. eauto.
  - exfalso. assert (X : r_loop_exit c (cl s) = None) by (apply quiescent_call; [exact Qc | exact Hlt | simpl; tauto]).
    unfold r_loop_exit in X. rewrite Hn, El in X. cbv zeta in X. destruct (_ && _); discriminate X.
  - exfalso. assert (X : r_loop_unreg c (cl s) = None) by (apply quiescent_call; [exact Qc | exact Hlt | simpl; tauto]).
    unfold r_loop_unreg in X. rewrite Hn, El in X. discriminate X.
  - right.
    assert (Hla : loop_alive k = false) by (unfold loop_alive; rewrite El; reflexivity).
    destruct (ki_dead_done _ K Hp Hla) as (Hrc & Hd).
    assert (Hle : l_rerr k = Some EEof) by (destruct (XB eq_refl Hp) as [Y | Y]; [exact Y | contradiction]).
    assert (Hse : s_rerr k = Some EEof) by (rewrite (C07_rerr_l _ _ _ _ Hc Hn Hd); exact Hle).
    split; [exact Hd|]. split; [exact Hse|]. split; [|split].
    + assert (X : r_recv c (cl s) = None) by (apply quiescent_call; [exact Qc | exact Hlt | simpl; tauto]).
      unfold r_recv in X. rewrite Hn in X. unfold protected_free in X. rewrite El, Hd in X.
      destruct (s_recv k); auto; try discriminate X. rewrite Hrc in X. discriminate X.
    + destruct (ce_l _ (CE_reach _ _ Hc) _ _ Hn Hle) as (e & He & Hf). apply in_ctakes in He.
      eapply eof_taken_after_all; eauto.
    + intros e Hin. destruct (XC _ Hin) as [Y | [Y | Y]]; auto. contradiction.
Qed.

(* ---------- Q-form for the messages before the trailer ---------- *)
(* fault-free, quiescent, empty wires and inboxes: a stream whose loop waits for the next envelope (LRead) has handed to
   RecvMsg EVERY message the server's writer accepted under its id - nothing is stuck or lost in between, whatever the
   caller's context did (a cancelled stream's loop is not in LRead at quiescence); a loop holding message b for a
   RecvMsg that was not issued has handed over everything before b *)
Theorem C02_caller_msgs_complete pol ls s c k :
  Sys.lrun pol Sys.init ls = Some s -> fault_free ls = true ->
  Sys.quiescent s = true -> Server.inbox (sv s) = [] -> Client.inbox (cl s) = [] ->
  nth_error (calls (cl s)) c = Some k -> k_unary k = false -> k_pc k = POpen ->
  (s_loop k = LRead -> msgs c (Client.log (cl s)) = pb (accepted (k_id k) (sv s))) /\
  (forall b, s_loop k = LHand b -> is_prefix (msgs c (Client.log (cl s)) ++ handpart k) (pb (accepted (k_id k) (sv s)))).
Proof.
  intros H Hff Q Hi1 Hi2 Hn Hu Hp.
  pose proof (proj_c_run _ _ _ _ H) as Hc. pose proof (proj_s_run _ _ _ _ H) as Hs.
  destruct (all_inv_reach _ _ Hc) as (HI & HS & HL). pose proof (cinv_call _ _ _ HI Hn) as K.
  pose proof (proj_s_lbl_ok pol ls Sys.init Hff) as Hlo.
  destruct (sff_fields _ (sff_reach _ _ _ Hs Hlo)) as (_ & Hwf & Hwb & _).
  unfold Sys.quiescent in Q. repeat (apply andb_prop in Q; destruct Q as [Q ?]).
  assert (Qc : Client.quiescent (cl s) = true) by assumption.
  assert (Qs : Server.quiescent (sv s) = true) by assumption.
  assert (Ec2s : c2s s = []) by (destruct (c2s s); [reflexivity | discriminate]).
  assert (Es2c : s2c s = []) by (destruct (s2c s); [reflexivity | discriminate]).
  assert (Hlt : (c < length (calls (cl s)))%nat) by (eapply nth_some_lt; eauto).
  assert (Einf : inflight (sv s) = []).
  { unfold inflight. destruct (Server.wr (sv s)) eqn:Ew; auto. exfalso.
    assert (X : rule_of RWrWrite (sv s) = None) by (apply q_fixed; [exact Qs | exact I]).
    simpl in X. unfold r_wr_write in X. rewrite Ew, Hwf, Hwb in X. discriminate X. }
  assert (Etk : tk (Server.log (sv s)) = swrites (Server.log (sv s))).
  { rewrite (srv_taken_is_written _ _ _ Hs Hlo), Einf, app_nil_r. reflexivity. }
  destruct (wire_complete_id _ _ _ (k_id k) H Ec2s Es2c Hi1 Hi2) as (_ & W).
  destruct (PC_sys _ _ _ H _ _ Hn Hp) as (post & EP & Hpost). unfold idr in EP. rewrite W in EP.
  assert (EA : accepted (k_id k) (sv s) = ctakes c (Client.log (cl s)) ++ bufpart k ++ holdpart c (rl (cl s)) ++ post).
  { unfold accepted. rewrite Etk. exact EP. }
  destruct (RE_sys _ _ _ H _ _ Hn Hu) as (R1 & _ & _ & _).
  split.
  - intros El.
    assert (X : r_loop_read c (cl s) = None) by (apply quiescent_call; [exact Qc | exact Hlt | simpl; tauto]).
    unfold r_loop_read in X. rewrite Hn, El in X.
    destruct (cbuf (k_chan k)) as [eb|] eqn:Eb.
    { exfalso. cbv zeta in X.
      repeat match type of X with
             | (if ?b then _ else _) = None => destruct b
             | match ?x with _ => _ end = None => destruct x
             end; discriminate X. }
    destruct (cclosed (k_chan k)) eqn:Ecl; [discriminate X|].
    assert (Er : k_reg k = true).
    { destruct (k_reg k) eqn:Er; auto. pose proof (ki_unreg_closed _ K Er) as Y. rewrite Ecl in Y.
      assert (loop_alive k = true) by (unfold loop_alive; rewrite El; reflexivity). apply Y. auto. }
    assert (Eh : holdpart c (rl (cl s)) = []).
    { unfold holdpart. destruct (rl (cl s)) as [|c1 e1|] eqn:Erl; auto. destruct (Nat.eqb_spec c1 c) as [->|]; auto. exfalso.
      assert (Y : r_rl_unblock (cl s) = None) by (apply ClientBase.quiescent_none; [exact Qc | left; reflexivity]).
      unfold r_rl_unblock in Y. rewrite Erl, Hn, Eb in Y. discriminate Y. }
    unfold bufpart in EA. rewrite Eb, Eh, (Hpost Er), !app_nil_r in EA. rewrite EA.
    rewrite El in R1. unfold handpart in R1. rewrite El in R1. rewrite (R1 eq_refl), app_nil_r. reflexivity.
  - intros b El. rewrite El in R1. rewrite <- (R1 eq_refl). rewrite EA. apply pb_prefix. eexists. reflexivity.
Qed.

(* SendMsg returns nil only when it has written its message: the middle case of C02_link_send is unreachable *)
Theorem C02_link_send_reach ls s c k b rest s' :
  Client.lrun Client.init ls = Some s -> nth_error (calls s) c = Some k -> s_sendq k = Some b :: rest -> r_send c s = Some s' ->
  (exists e, Client.log s' = Client.log s ++ [EvSendRet c (Some e)]) \/
  Client.log s' = Client.log s ++ [EvWrite (body_env (k_id k) b); EvSendRet c None].
Proof.
  intros Hr Hn Hq H. destruct (C02_link_send _ _ _ _ _ _ Hn Hq H) as [X | [(D & E & _) | X]]; auto.
  exfalso. destruct (all_inv_reach _ _ Hr) as (HI & _). destruct (ki_done_dead _ (cinv_call _ _ _ HI Hn) D) as (_ & Y & _).
  rewrite E in Y. discriminate Y.
Qed.

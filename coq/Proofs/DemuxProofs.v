(* Invariants of Model/Demux.v over all label sequences, and the lemmas the
   theorems of Props/C18.v are closed with. *)
From Coq Require Import List ZArith Bool Lia Arith.
Import ListNotations.
From Goat Require Import Model.Demux.
Open Scope Z_scope.

(* ---------- lists ---------- *)
Lemma length_upd {A} (n : nat) (x : A) l : length (upd n x l) = length l.
Proof. revert n; induction l; destruct n; simpl; auto. Qed.

Lemma nth_upd_eq {A} (n : nat) (x : A) l : (n < length l)%nat -> nth_error (upd n x l) n = Some x.
Proof. revert n; induction l; destruct n; simpl; intros; try lia; auto. apply IHl; lia. Qed.

Lemma nth_upd_neq {A} (n m : nat) (x : A) l : n <> m -> nth_error (upd n x l) m = nth_error l m.
Proof. revert n m; induction l; destruct n, m; simpl; intros; try congruence; auto. Qed.

Lemma nth_upd {A} (n m : nat) (x : A) l :
  nth_error (upd n x l) m = if Nat.eqb n m then (if Nat.ltb n (length l) then Some x else None) else nth_error l m.
Proof.
  destruct (Nat.eqb_spec n m).
  - subst. destruct (Nat.ltb_spec m (length l)).
    + apply nth_upd_eq; auto.
    + apply nth_error_None. rewrite length_upd. lia.
  - apply nth_upd_neq; auto.
Qed.

Lemma nth_some_lt {A} (l : list A) n x : nth_error l n = Some x -> (n < length l)%nat.
Proof. intros H. apply nth_error_Some. congruence. Qed.

Lemma nth_app_last {A} (l : list A) x : nth_error (l ++ [x]) (length l) = Some x.
Proof. rewrite nth_error_app2 by lia. rewrite Nat.sub_diag. reflexivity. Qed.

Lemma map_upd {A B} (f : A -> B) n x l y :
  nth_error l n = Some y -> f x = f y -> map f (upd n x l) = map f l.
Proof.
  revert n; induction l; destruct n; simpl; intros; try congruence.
  f_equal. eauto.
Qed.

Lemma pick_app {A B} (f : A -> option B) l1 l2 : pick f (l1 ++ l2) = pick f l1 ++ pick f l2.
Proof. induction l1; simpl; auto. destruct (f a); simpl; congruence. Qed.

Lemma pick_In {A B} (f : A -> option B) l y : In y (pick f l) <-> exists x, In x l /\ f x = Some y.
Proof.
  induction l; simpl.
  - split; [tauto | intros (x & [] & _)].
  - destruct (f a) eqn:E; simpl; rewrite IHl; split.
    + intros [-> | (x & Hx & Hf)]; eauto.
    + intros (x & [-> | Hx] & Hf); [left; congruence | eauto].
    + intros (x & Hx & Hf); eauto.
    + intros (x & [-> | Hx] & Hf); [congruence | eauto].
Qed.

Lemma pick_ext_in {A B} (f g : A -> option B) l : (forall x, In x l -> f x = g x) -> pick f l = pick g l.
Proof.
  induction l; simpl; intros; auto.
  rewrite (H a) by auto. rewrite IHl by auto. reflexivity.
Qed.

(* ---------- find_reg ---------- *)
Lemma find_reg_some k cs n c :
  find_reg k cs n = Some c ->
  (n <= c)%nat /\ exists x, nth_error cs (c - n) = Some x /\ c_reg x = true /\ c_key x = k.
Proof.
  revert n; induction cs; simpl; intros; try discriminate.
  destruct (c_reg a && (c_key a =? k)) eqn:E.
  - inversion H; subst. split; [lia|]. rewrite Nat.sub_diag. simpl. exists a.
    apply andb_true_iff in E. destruct E. split; auto. split; auto. lia.
  - apply IHcs in H. destruct H as (Hle & x & Hn & Hr & Hk). split; [lia|].
    exists x. replace (c - n)%nat with (S (c - S n)) by lia. simpl. auto.
Qed.

Lemma find_reg_none k cs n :
  find_reg k cs n = None -> forall x, In x cs -> c_reg x = true -> c_key x <> k.
Proof.
  revert n; induction cs; simpl; intros; try tauto.
  destruct (c_reg a && (c_key a =? k)) eqn:E; try discriminate.
  destruct H0.
  - subst. rewrite H1 in E. simpl in E. lia.
  - eauto.
Qed.

Lemma find_reg0_some k cs c :
  find_reg k cs 0 = Some c -> exists x, nth_error cs c = Some x /\ c_reg x = true /\ c_key x = k.
Proof. intros H. apply find_reg_some in H. rewrite Nat.sub_0_r in H. tauto. Qed.

(* ---------- case analysis of one step ---------- *)
Inductive step_kind (s s' : state) : Prop :=
| SkExt (a : act) (H : s' = ext s a)
| SkRnRead (H : r_rn_read s = Some s')
| SkRnReadErr (H : r_rn_readerr s = Some s')
| SkRnHandDone (H : r_rn_hand_done s = Some s')
| SkRnHandStop (H : r_rn_hand_stop s = Some s')
| SkReadRdv (i : nat) (H : r_read_rdv i s = Some s')
| SkCallCtx (i : nat) (H : r_call_ctx i s = Some s')
| SkCallDone (i : nat) (H : r_call_done i s = Some s')
| SkWriteRdv (i : nat) (H : r_write_rdv i s = Some s')
| SkDwExit (c : nat) (H : r_dw_exit c s = Some s')
| SkDwWrite (c : nat) (H : r_dw_write c s = Some s').

Lemma rules_in r s :
  In r (rules s) ->
  r = r_rn_read \/ r = r_rn_readerr \/ r = r_rn_hand_done \/ r = r_rn_hand_stop \/
  (exists i, r = r_read_rdv i \/ r = r_call_ctx i \/ r = r_call_done i \/ r = r_write_rdv i) \/
  (exists c, r = r_dw_exit c \/ r = r_dw_write c).
Proof.
  unfold rules. intros H. simpl in H.
  destruct H as [<-|[<-|[<-|[<-|H]]]]; auto.
  apply in_app_or in H. destruct H as [H|H]; apply in_flat_map in H; destruct H as (i & _ & H); simpl in H.
  - do 4 right; left. exists i. intuition auto.
  - do 5 right. exists i. intuition auto.
Qed.

Lemma lstep_kind s l s' : lstep s l = Some s' -> step_kind s s'.
Proof.
  destruct l; simpl; intros H.
  - inversion H. eapply SkExt; eauto.
  - destruct (nth_error (rules s) n) eqn:E; try discriminate.
    apply nth_error_In in E. apply rules_in in E.
    destruct E as [->|[->|[->|[->|[(i & [->|[->|[->| ->]]])|(c & [->| ->])]]]]].
    + apply SkRnRead; auto.
    + apply SkRnReadErr; auto.
    + apply SkRnHandDone; auto.
    + apply SkRnHandStop; auto.
    + eapply SkReadRdv; eauto.
    + eapply SkCallCtx; eauto.
    + eapply SkCallDone; eauto.
    + eapply SkWriteRdv; eauto.
    + eapply SkDwExit; eauto.
    + eapply SkDwWrite; eauto.
Qed.

(* every rule instance of an existing call / connection is in [rules] *)
Lemma rules_has_global r s :
  r = r_rn_read \/ r = r_rn_readerr \/ r = r_rn_hand_done \/ r = r_rn_hand_stop -> In r (rules s).
Proof. unfold rules; simpl; intuition auto. Qed.

Lemma rules_has_call r i s : (i < length (calls s))%nat -> In r per_call_rules -> In (r i) (rules s).
Proof.
  intros Hi Hr. unfold rules. apply in_or_app. right. apply in_or_app. left.
  apply in_flat_map. exists i. split. apply in_seq; lia. apply (in_map (fun r0 : nat -> rule => r0 i)); auto.
Qed.

Lemma rules_has_conn r c s : (c < length (conns s))%nat -> In r per_conn_rules -> In (r c) (rules s).
Proof.
  intros Hi Hr. unfold rules. apply in_or_app. right. apply in_or_app. right.
  apply in_flat_map. exists c. split. apply in_seq; lia. apply (in_map (fun r0 : nat -> rule => r0 c)); auto.
Qed.

Lemma quiescent_none s r : quiescent s = true -> In r (rules s) -> r s = None.
Proof.
  unfold quiescent. intros H Hin. apply negb_true_iff in H.
  destruct (r s) eqn:E; auto.
  assert (existsb (enabled s) (rules s) = true).
  { apply existsb_exists. exists r. split; auto. unfold enabled. rewrite E. auto. }
  congruence.
Qed.

(* invariants are proved by induction over the label sequence *)
Lemma lrun_inv (P : state -> Prop) :
  (forall s l s', P s -> lstep s l = Some s' -> P s') ->
  forall ls s s', P s -> lrun s ls = Some s' -> P s'.
Proof.
  intros Hstep. induction ls; simpl; intros.
  - inversion H0; subst; auto.
  - destruct (lstep s a) eqn:E; try discriminate. eauto.
Qed.

Lemma reachable_inv (P : state -> Prop) :
  P init -> (forall s l s', P s -> lstep s l = Some s' -> P s') -> forall s, reachable s -> P s.
Proof. intros H0 Hs s (ls & Hr). eapply lrun_inv; eauto. Qed.

Lemma lrun_app s ls1 ls2 s1 : lrun s ls1 = Some s1 -> lrun s (ls1 ++ ls2) = lrun s1 ls2.
Proof.
  revert s. induction ls1; simpl; intros.
  - inversion H; auto.
  - destruct (lstep s a); try discriminate. auto.
Qed.

Lemma reachable_lrun s ls s' : reachable s -> lrun s ls = Some s' -> reachable s'.
Proof. intros (l0 & H0) H. exists (l0 ++ ls). rewrite (lrun_app _ _ _ _ H0). auto. Qed.

(* open a rule hypothesis: destruct every scrutinee, keep the successful branches *)
Ltac open_rule H :=
  repeat match type of H with
         | match ?x with _ => _ end = Some _ => let E := fresh "E" in destruct x eqn:E; try discriminate H
         | (if ?x then _ else _) = Some _ => let E := fresh "E" in destruct x eqn:E; try discriminate H
         end;
  try (inversion H; subst; clear H).

Ltac nu :=
  repeat match goal with
         | H : context [nth_error (upd ?n ?x ?l) ?m] |- _ => rewrite (nth_upd n m x l) in H
         | |- context [nth_error (upd ?n ?x ?l) ?m] => rewrite (nth_upd n m x l)
         | H : context [length (upd _ _ _)] |- _ => rewrite length_upd in H
         | |- context [length (upd _ _ _)] => rewrite length_upd
         end.

Ltac eqb_cases :=
  repeat match goal with
         | H : context [Nat.eqb ?a ?b] |- _ => destruct (Nat.eqb_spec a b); try subst
         | |- context [Nat.eqb ?a ?b] => destruct (Nat.eqb_spec a b); try subst
         | H : context [Nat.ltb ?a ?b] |- _ => destruct (Nat.ltb_spec a b)
         | |- context [Nat.ltb ?a ?b] => destruct (Nat.ltb_spec a b)
         end.

(* ---------- validity ---------- *)
Record valid (s : state) : Prop := mkValid {
  v_calls : forall i k, nth_error (calls s) i = Some k -> (cl_conn k < length (conns s))%nat;
  v_rn : forall c e, rn s = RNHand c e -> exists x, nth_error (conns s) c = Some x /\ c_key x = ekey e;
  v_conn : forall c x, nth_error (conns s) c = Some x -> c_reg x = negb (c_done x);
  v_crash : crashed s = false;
  v_uniq : forall c1 c2 x1 x2, nth_error (conns s) c1 = Some x1 -> nth_error (conns s) c2 = Some x2 ->
                               c_key x1 = c_key x2 -> (c1 < c2)%nat -> c_done x1 = true }.

Lemma valid_init : valid init.
Proof.
  constructor; simpl; intros; try discriminate; auto;
  repeat match goal with H : nth_error [] ?i = Some _ |- _ => destruct i; discriminate H end.
Qed.

Lemma nth_app_cases {A} (l : list A) y n x :
  nth_error (l ++ [y]) n = Some x -> (nth_error l n = Some x /\ (n < length l)%nat) \/ (n = length l /\ x = y).
Proof.
  intros H. destruct (Nat.ltb_spec n (length l)).
  - rewrite nth_error_app1 in H by auto. auto.
  - rewrite nth_error_app2 in H by auto. destruct (n - length l)%nat eqn:E; simpl in H.
    + inversion H. right. split; auto. lia.
    + destruct n0; discriminate.
Qed.

Lemma nth_upd_inv {A} n (x' : A) l c y :
  nth_error (upd n x' l) c = Some y -> (c = n /\ y = x') \/ (c <> n /\ nth_error l c = Some y).
Proof.
  rewrite nth_upd. destruct (Nat.eqb_spec n c).
  - subst. destruct (Nat.ltb c (length l)); intros H; inversion H; auto.
  - intros; right; split; auto.
Qed.

(* a step that creates no connection and keeps keys; done flags only grow *)
Lemma valid_frame s s' :
  valid s ->
  length (conns s') = length (conns s) ->
  (forall c x', nth_error (conns s') c = Some x' ->
     exists x, nth_error (conns s) c = Some x /\ c_key x' = c_key x /\ c_reg x' = negb (c_done x') /\
               (c_done x = true -> c_done x' = true)) ->
  (forall i k', nth_error (calls s') i = Some k' -> (cl_conn k' < length (conns s))%nat) ->
  (forall c e, rn s' = RNHand c e -> rn s = RNHand c e) ->
  crashed s' = false -> valid s'.
Proof.
  intros [Vc Vr Vx Vk Vu] Hlen Hc Hk Hr Hcr. constructor; auto.
  - intros. rewrite Hlen. eauto.
  - intros c e H. apply Hr in H. destruct (Vr _ _ H) as (x & Hx & Hkey).
    destruct (nth_error (conns s') c) eqn:E.
    + destruct (Hc _ _ E) as (x0 & Hx0 & K & _). rewrite Hx in Hx0. inversion Hx0; subst. eexists; split; eauto. congruence.
    + apply nth_error_None in E. apply nth_some_lt in Hx. lia.
  - intros c x H. destruct (Hc _ _ H) as (x0 & _ & _ & R & _). auto.
  - intros c1 c2 x1 x2 H1 H2 K L.
    destruct (Hc _ _ H1) as (y1 & Y1 & K1 & _ & D1). destruct (Hc _ _ H2) as (y2 & Y2 & K2 & _ & _).
    apply D1. eapply Vu; eauto. congruence.
Qed.

Lemma frame_same_conn (x : conn) (cs : list conn) c :
  (forall c x, nth_error cs c = Some x -> c_reg x = negb (c_done x)) ->
  nth_error cs c = Some x ->
  exists x0, nth_error cs c = Some x0 /\ c_key x = c_key x0 /\ c_reg x = negb (c_done x) /\ (c_done x0 = true -> c_done x = true).
Proof. intros. exists x. eauto. Qed.

(* replacing one connection by one with the same key, consistent flags and a done flag at least as large *)
Lemma frame_upd_conn (cs : list conn) n x x' :
  (forall c x, nth_error cs c = Some x -> c_reg x = negb (c_done x)) ->
  nth_error cs n = Some x -> c_key x' = c_key x -> c_reg x' = negb (c_done x') -> (c_done x = true -> c_done x' = true) ->
  forall c y', nth_error (upd n x' cs) c = Some y' ->
    exists y, nth_error cs c = Some y /\ c_key y' = c_key y /\ c_reg y' = negb (c_done y') /\ (c_done y = true -> c_done y' = true).
Proof.
  intros Vx Hx K R D c y' H. apply nth_upd_inv in H. destruct H as [[-> ->]|[Hne H]].
  - exists x. auto.
  - exists y'. eauto.
Qed.

Lemma calls_upd_conn (ks : list call) i k k' n :
  (forall i k, nth_error ks i = Some k -> (cl_conn k < n)%nat) ->
  nth_error ks i = Some k -> cl_conn k' = cl_conn k ->
  forall j kj, nth_error (upd i k' ks) j = Some kj -> (cl_conn kj < n)%nat.
Proof.
  intros Vc Hk E j kj H. apply nth_upd_inv in H. destruct H as [[-> ->]|[_ H]]; eauto. rewrite E. eauto.
Qed.

Lemma valid_step s l s' : valid s -> lstep s l = Some s' -> valid s'.
Proof.
  intros V H. apply lstep_kind in H. pose proof V as [Vc Vr Vx Vk Vu]. destruct H.
  - (* environment *)
    subst. destruct a; simpl.
    + eapply valid_frame; eauto; simpl; eauto using frame_same_conn.
    + eapply valid_frame; eauto; simpl; eauto using frame_same_conn.
    + eapply valid_frame; eauto; simpl; eauto using frame_same_conn.
    + destruct (Nat.ltb_spec c (length (conns s))); auto.
      eapply valid_frame; eauto; simpl; eauto using frame_same_conn.
      intros i k Hn. apply nth_app_cases in Hn. destruct Hn as [[Hn _]|[_ ->]]; eauto.
    + destruct (Nat.ltb_spec c (length (conns s))); auto.
      eapply valid_frame; eauto; simpl; eauto using frame_same_conn.
      intros i k Hn. apply nth_app_cases in Hn. destruct Hn as [[Hn _]|[_ ->]]; eauto.
    + destruct (nth_error (calls s) i) eqn:E; auto.
      eapply valid_frame; eauto; simpl; eauto using frame_same_conn.
      eapply calls_upd_conn; eauto.
    + destruct (find_reg k (conns s) 0) eqn:E; auto.
      destruct (nth_error (conns s) n) eqn:E1; auto.
      apply find_reg0_some in E. destruct E as (x & Hx & Hreg & Hkey). rewrite Hx in E1. inversion E1; subst c.
      pose proof (Vx _ _ Hx) as Hd. rewrite Hreg in Hd. destruct (c_done x) eqn:Ed; try discriminate.
      eapply valid_frame; eauto; simpl.
      * apply length_upd.
      * eapply frame_upd_conn; eauto.
      * rewrite Vk. auto.
    + eapply valid_frame; eauto; simpl; eauto using frame_same_conn.
  - (* r_rn_read *)
    unfold r_rn_read in H. open_rule H.
    + apply find_reg0_some in E1. destruct E1 as (x & Hx & _ & Hk).
      constructor; simpl; auto. intros c e' Hr. inversion Hr; subst. eauto.
    + constructor; simpl; auto.
      * intros i k Hn. rewrite app_length. simpl. apply Vc in Hn. lia.
      * intros c e' Hr. inversion Hr; subst. rewrite nth_app_last. eexists; split; eauto.
      * intros c x Hn. apply nth_app_cases in Hn. destruct Hn as [[Hn _]|[_ ->]]; eauto.
      * intros c1 c2 x1 x2 H1 H2 Hk Hlt.
        apply nth_app_cases in H1. apply nth_app_cases in H2.
        destruct H1 as [[H1 L1]|[-> ->]]; destruct H2 as [[H2 L2]|[-> ->]]; try lia; eauto.
        simpl in Hk. pose proof (find_reg_none _ _ _ E1 x1 (nth_error_In _ _ H1)) as Hnr.
        pose proof (Vx _ _ H1) as Hd. destruct (c_done x1); auto. simpl in Hd. apply Hnr in Hd. congruence.
  - unfold r_rn_readerr in H. open_rule H.
    eapply valid_frame; eauto; simpl; eauto using frame_same_conn. intros; discriminate.
  - unfold r_rn_hand_done in H. open_rule H.
    eapply valid_frame; eauto; simpl; eauto using frame_same_conn. intros; discriminate.
  - unfold r_rn_hand_stop in H. open_rule H.
    eapply valid_frame; eauto; simpl; eauto using frame_same_conn. intros; discriminate.
  - unfold r_read_rdv in H. open_rule H.
    eapply valid_frame; eauto; simpl; eauto using frame_same_conn.
    + eapply calls_upd_conn; eauto.
    + intros; discriminate.
  - unfold r_call_ctx in H. open_rule H.
    eapply valid_frame; eauto; simpl; eauto using frame_same_conn. eapply calls_upd_conn; eauto.
  - unfold r_call_done in H. open_rule H.
    eapply valid_frame; eauto; simpl; eauto using frame_same_conn. eapply calls_upd_conn; eauto.
  - unfold r_write_rdv in H. open_rule H.
    eapply valid_frame; eauto; simpl.
    + apply length_upd.
    + eapply frame_upd_conn; eauto. simpl; eauto.
    + eapply calls_upd_conn; eauto.
  - unfold r_dw_exit in H. open_rule H.
    eapply valid_frame; eauto; simpl.
    + apply length_upd.
    + eapply frame_upd_conn; eauto. simpl; eauto.
  - unfold r_dw_write in H.
    open_rule H; (eapply valid_frame; eauto; simpl; [apply length_upd | eapply frame_upd_conn; eauto; simpl; eauto]).
Qed.

Lemma reachable_valid s : reachable s -> valid s.
Proof. apply reachable_inv. apply valid_init. apply valid_step. Qed.

(* ---------- what the environment cannot touch ---------- *)
Lemma ext_log s a : log (ext s a) = log s.
Proof.
  destruct a; simpl; auto;
  repeat match goal with |- context [match ?x with _ => _ end] => destruct x; simpl; auto end.
Qed.

Lemma ext_rn s a : rn (ext s a) = rn s.
Proof.
  destruct a; simpl; auto;
  repeat match goal with |- context [match ?x with _ => _ end] => destruct x; simpl; auto end.
Qed.

Ltac proj :=
  unfold routed, disposed, handed, dropped, announces, accepted, sh_attempts, sh_written, sh_failed, rets, sh_reads in *;
  rewrite ?pick_app in *; simpl in *.

(* ---------- C18 route: per instance, exact accounting ---------- *)
Definition inv_route (s : state) : Prop :=
  forall c, routed c (log s) = disposed c (log s) ++ rn_pend s c.

Lemma inv_route_step s l s' : inv_route s -> lstep s l = Some s' -> inv_route s'.
Proof.
  intros I H c. specialize (I c). apply lstep_kind in H. destruct H.
  - subst. unfold rn_pend in *. rewrite ext_log, ext_rn. auto.
  - unfold r_rn_read in H; open_rule H; unfold rn_pend in *; simpl in *; rewrite E in I; proj;
      rewrite I, !app_nil_r; destruct (Nat.eqb _ c); auto.
  - unfold r_rn_readerr in H; open_rule H; unfold rn_pend in *; simpl in *; rewrite E in I; auto.
  - unfold r_rn_hand_done in H; open_rule H; unfold rn_pend in *; simpl in *; rewrite E in I; proj;
      rewrite I; destruct (Nat.eqb _ c); rewrite ?app_nil_r; auto.
  - unfold r_rn_hand_stop in H; open_rule H; unfold rn_pend in *; simpl in *; rewrite E in I; proj;
      rewrite I; destruct (Nat.eqb _ c); rewrite ?app_nil_r; auto.
  - unfold r_read_rdv in H; open_rule H; unfold rn_pend in *; simpl in *; rewrite E0 in I; proj;
      rewrite I; destruct (Nat.eqb _ c); rewrite ?app_nil_r; auto.
  - unfold r_call_ctx in H; open_rule H; unfold rn_pend in *; simpl in *; proj; rewrite I, !app_nil_r; auto.
  - unfold r_call_done in H; open_rule H; unfold rn_pend in *; simpl in *; proj; rewrite I, !app_nil_r; auto.
  - unfold r_write_rdv in H; open_rule H; unfold rn_pend in *; simpl in *; proj; rewrite I, !app_nil_r; auto.
  - unfold r_dw_exit in H; open_rule H; unfold rn_pend in *; simpl in *; auto.
  - unfold r_dw_write in H; open_rule H; unfold rn_pend in *; simpl in *; proj; rewrite I, !app_nil_r; auto.
Qed.

Lemma route_exact s : reachable s -> forall c, routed c (log s) = disposed c (log s) ++ rn_pend s c.
Proof. apply (reachable_inv inv_route). intro; reflexivity. apply inv_route_step. Qed.

(* ---------- done / stopped only grow ---------- *)
Lemma conn_done_upd_dw s c n x d cs' :
  nth_error (conns s) n = Some x -> cs' = upd n (set_dw x d) (conns s) ->
  match nth_error cs' c with Some y => c_done y | None => false end = conn_done s c.
Proof.
  intros Hx ->. unfold conn_done. rewrite nth_upd. destruct (Nat.eqb_spec n c); auto. subst.
  rewrite Hx. pose proof (nth_some_lt _ _ _ Hx). destruct (Nat.ltb_spec c (length (conns s))); try lia. auto.
Qed.

Lemma done_mono s l s' c : lstep s l = Some s' -> conn_done s c = true -> conn_done s' c = true.
Proof.
  intros H D. apply lstep_kind in H. destruct H.
  - subst. destruct a; simpl; auto;
      repeat match goal with |- context [match ?x with _ => _ end] => destruct x eqn:?; simpl; auto end.
    unfold conn_done in *. simpl. rewrite nth_upd. destruct (Nat.eqb_spec n c); auto. subst.
    apply nth_some_lt in Heqo0. destruct (Nat.ltb_spec c (length (conns s))); auto. lia.
  - unfold r_rn_read in H; open_rule H; unfold conn_done in *; simpl; auto.
    destruct (nth_error (conns s) c) eqn:E2; try discriminate.
    rewrite nth_error_app1; [rewrite E2; auto | eapply nth_some_lt; eauto].
  - unfold r_rn_readerr in H; open_rule H; auto.
  - unfold r_rn_hand_done in H; open_rule H; auto.
  - unfold r_rn_hand_stop in H; open_rule H; auto.
  - unfold r_read_rdv in H; open_rule H; auto.
  - unfold r_call_ctx in H; open_rule H; auto.
  - unfold r_call_done in H; open_rule H; auto.
  - unfold r_write_rdv in H; open_rule H. unfold conn_done at 1. simpl. erewrite conn_done_upd_dw; eauto.
  - unfold r_dw_exit in H; open_rule H; unfold conn_done at 1; simpl; erewrite conn_done_upd_dw; eauto.
  - unfold r_dw_write in H; open_rule H; unfold conn_done at 1; simpl; erewrite conn_done_upd_dw; eauto.
Qed.

Lemma stopped_mono s l s' : lstep s l = Some s' -> stopped s = true -> stopped s' = true.
Proof.
  intros H D. apply lstep_kind in H. destruct H.
  - subst. destruct a; simpl; auto;
      repeat match goal with |- context [match ?x with _ => _ end] => destruct x eqn:?; simpl; auto end.
  - unfold r_rn_read in H; open_rule H; auto.
  - unfold r_rn_readerr in H; open_rule H; auto.
  - unfold r_rn_hand_done in H; open_rule H; auto.
  - unfold r_rn_hand_stop in H; open_rule H; auto.
  - unfold r_read_rdv in H; open_rule H; auto.
  - unfold r_call_ctx in H; open_rule H; auto.
  - unfold r_call_done in H; open_rule H; auto.
  - unfold r_write_rdv in H; open_rule H; auto.
  - unfold r_dw_exit in H; open_rule H; auto.
  - unfold r_dw_write in H; open_rule H; auto.
Qed.

(* ---------- C18 route: nothing is dropped on a live connection of a running demultiplexer ---------- *)
Definition inv_live (s : state) : Prop :=
  forall c, conn_done s c = false -> stopped s = false -> disposed c (log s) = handed c (log s).

Lemma inv_live_step s l s' : inv_live s -> lstep s l = Some s' -> inv_live s'.
Proof.
  intros I H c Hd Hs.
  assert (conn_done s c = false) as Hd0.
  { destruct (conn_done s c) eqn:E; auto. rewrite (done_mono _ _ _ _ H E) in Hd. discriminate. }
  assert (stopped s = false) as Hs0.
  { destruct (stopped s) eqn:E; auto. rewrite (stopped_mono _ _ _ H E) in Hs. discriminate. }
  specialize (I c Hd0 Hs0). apply lstep_kind in H. destruct H.
  - subst. rewrite ext_log. auto.
  - unfold r_rn_read in H; open_rule H; simpl; proj; rewrite I; auto.
  - unfold r_rn_readerr in H; open_rule H; auto.
  - unfold r_rn_hand_done in H; open_rule H; simpl in *; proj; rewrite I.
    destruct (Nat.eqb_spec c0 c); auto. subst. congruence.
  - unfold r_rn_hand_stop in H; open_rule H; simpl in *; congruence.
  - unfold r_read_rdv in H; open_rule H; simpl in *; proj; rewrite I. auto.
  - unfold r_call_ctx in H; open_rule H; simpl in *; proj; rewrite I; auto.
  - unfold r_call_done in H; open_rule H; simpl in *; proj; rewrite I; auto.
  - unfold r_write_rdv in H; open_rule H; simpl in *; proj; rewrite I; auto.
  - unfold r_dw_exit in H; open_rule H; simpl in *; auto.
  - unfold r_dw_write in H; open_rule H; simpl in *; proj; rewrite I; auto.
Qed.

Lemma route_live s : reachable s -> forall c, conn_done s c = false -> stopped s = false ->
  routed c (log s) = handed c (log s) ++ rn_pend s c.
Proof.
  intros R c Hd Hs. rewrite route_exact by auto. f_equal.
  revert c Hd Hs. apply (reachable_inv inv_live); auto. intros c _ _; reflexivity. apply inv_live_step.
Qed.

(* ---------- instances keep their key; the table only grows ---------- *)
Lemma key_stable s l s' c x :
  lstep s l = Some s' -> nth_error (conns s) c = Some x ->
  exists x', nth_error (conns s') c = Some x' /\ c_key x' = c_key x.
Proof.
  intros H Hx. apply lstep_kind in H.
  assert (forall n y y', nth_error (conns s) n = Some y -> c_key y' = c_key y ->
            exists x', nth_error (upd n y' (conns s)) c = Some x' /\ c_key x' = c_key x) as Hupd.
  { intros n y y' Hy K. rewrite nth_upd. destruct (Nat.eqb_spec n c).
    - subst. pose proof (nth_some_lt _ _ _ Hx). destruct (Nat.ltb_spec c (length (conns s))); try lia.
      eexists; split; eauto. congruence.
    - eauto. }
  destruct H.
  - subst. destruct a; simpl; eauto;
      repeat match goal with |- context [match ?x with _ => _ end] => destruct x eqn:?; simpl; eauto end.
  - unfold r_rn_read in H; open_rule H; simpl; eauto.
    rewrite nth_error_app1; eauto. eapply nth_some_lt; eauto.
  - unfold r_rn_readerr in H; open_rule H; eauto.
  - unfold r_rn_hand_done in H; open_rule H; eauto.
  - unfold r_rn_hand_stop in H; open_rule H; eauto.
  - unfold r_read_rdv in H; open_rule H; eauto.
  - unfold r_call_ctx in H; open_rule H; eauto.
  - unfold r_call_done in H; open_rule H; eauto.
  - unfold r_write_rdv in H; open_rule H; simpl; eauto.
  - unfold r_dw_exit in H; open_rule H; simpl; eauto.
  - unfold r_dw_write in H; open_rule H; simpl; eauto.
Qed.

(* ---------- C18 route: the run loop selects the instance by the key ---------- *)
Definition inv_key (s : state) : Prop :=
  forall c e, In (EvShRead c e) (log s) -> exists x, nth_error (conns s) c = Some x /\ c_key x = ekey e.

Lemma inv_key_step s l s' : valid s -> inv_key s -> lstep s l = Some s' -> inv_key s'.
Proof.
  intros V I H c e Hin.
  assert (In (EvShRead c e) (log s) -> exists x, nth_error (conns s') c = Some x /\ c_key x = ekey e) as Hold.
  { intros Hi. destruct (I _ _ Hi) as (x & Hx & K). destruct (key_stable _ _ _ _ _ H Hx) as (x' & Hx' & K').
    exists x'. split; auto. congruence. }
  pose proof H as H0. apply lstep_kind in H0. destruct H0 as [a H0|H0|H0|H0|H0|i H0|i H0|i H0|i H0|n H0|n H0].
  - subst. rewrite ext_log in Hin. auto.
  - pose proof (valid_step _ _ _ V H) as V'.
    unfold r_rn_read in H0; open_rule H0; simpl in *; apply in_app_or in Hin; destruct Hin as [Hin|Hin]; auto;
      simpl in Hin; intuition (try discriminate).
    + inversion H0; subst. destruct (v_rn _ V' c e eq_refl) as (x & Hx & K). eauto.
    + inversion H1; subst. destruct (v_rn _ V' (length (conns s)) e eq_refl) as (x & Hx & K). eauto.
  - unfold r_rn_readerr in H0; open_rule H0; auto.
  - unfold r_rn_hand_done in H0; open_rule H0; simpl in *; apply in_app_or in Hin; destruct Hin as [Hin|Hin]; auto;
      simpl in Hin; intuition (try discriminate).
  - unfold r_rn_hand_stop in H0; open_rule H0; simpl in *; apply in_app_or in Hin; destruct Hin as [Hin|Hin]; auto;
      simpl in Hin; intuition (try discriminate).
  - unfold r_read_rdv in H0; open_rule H0; simpl in *; apply in_app_or in Hin; destruct Hin as [Hin|Hin]; auto;
      simpl in Hin; intuition (try discriminate).
  - unfold r_call_ctx in H0; open_rule H0; simpl in *; apply in_app_or in Hin; destruct Hin as [Hin|Hin]; auto;
      simpl in Hin; intuition (try discriminate).
  - unfold r_call_done in H0; open_rule H0; simpl in *; apply in_app_or in Hin; destruct Hin as [Hin|Hin]; auto;
      simpl in Hin; intuition (try discriminate).
  - unfold r_write_rdv in H0; open_rule H0; simpl in *; apply in_app_or in Hin; destruct Hin as [Hin|Hin]; auto;
      simpl in Hin; intuition (try discriminate).
  - unfold r_dw_exit in H0; open_rule H0; simpl in *; auto.
  - unfold r_dw_write in H0; open_rule H0; simpl in *; apply in_app_or in Hin; destruct Hin as [Hin|Hin]; auto;
      simpl in Hin; intuition (try discriminate).
Qed.

Lemma route_key s : reachable s -> forall c e, In (EvShRead c e) (log s) ->
  exists x, nth_error (conns s) c = Some x /\ c_key x = ekey e.
Proof.
  intros R. assert (valid s /\ inv_key s) as [_ I]; auto.
  revert s R. apply (reachable_inv (fun s => valid s /\ inv_key s)).
  - split. apply valid_init. intros c e [].
  - intros s l s' [V I] H. split. eapply valid_step; eauto. eapply inv_key_step; eauto.
Qed.

(* two instances with the same key: the earlier one was cancelled before the later one was created *)
Lemma one_instance s : reachable s -> forall c1 c2 x1 x2,
  nth_error (conns s) c1 = Some x1 -> nth_error (conns s) c2 = Some x2 -> c_key x1 = c_key x2 -> (c1 < c2)%nat ->
  c_done x1 = true.
Proof. intros R. apply (v_uniq _ (reachable_valid _ R)). Qed.

(* a key that was never cancelled has one instance, which received exactly the envelopes of the shared
   read log that carry the key, in order *)
Lemma route_uncancelled s : reachable s -> forall c x,
  nth_error (conns s) c = Some x ->
  (forall c' x', nth_error (conns s) c' = Some x' -> c_key x' = c_key x -> c_done x' = false) ->
  routed c (log s) = filter (fun e => ekey e =? c_key x) (sh_reads (log s)).
Proof.
  intros R c x Hx Hnc.
  assert (forall c' x', nth_error (conns s) c' = Some x' -> c_key x' = c_key x -> c' = c) as Huniq.
  { intros c' x' Hx' K. destruct (Nat.lt_trichotomy c' c) as [L|[L|L]]; auto.
    - pose proof (one_instance _ R _ _ _ _ Hx' Hx K L). rewrite (Hnc _ _ Hx' K) in H. discriminate.
    - pose proof (one_instance _ R _ _ _ _ Hx Hx' (eq_sym K) L). rewrite (Hnc _ _ Hx eq_refl) in H. discriminate. }
  pose proof (route_key _ R) as RK. unfold routed, sh_reads. revert RK.
  generalize (log s). induction l; simpl; intros RK; auto.
  specialize (IHl (fun c e H => RK c e (or_intror H))).
  destruct a; simpl; auto.
  destruct (RK c0 e (or_introl eq_refl)) as (x0 & Hx0 & K0).
  destruct (Nat.eqb_spec c0 c).
  - subst. rewrite Hx in Hx0. inversion Hx0; subst.
    replace (ekey e =? c_key x0) with true by (symmetry; apply Z.eqb_eq; auto). f_equal. auto.
  - destruct (Z.eqb_spec (ekey e) (c_key x)).
    + exfalso. apply n. eapply Huniq; eauto. congruence.
    + auto.
Qed.

(* ---------- C18 announce ---------- *)
Definition inv_announce (s : state) : Prop :=
  announces (log s) = combine (seq 0 (length (conns s))) (map c_key (conns s)).

Lemma combine_app {A B} (a1 a2 : list A) (b1 b2 : list B) :
  length a1 = length b1 -> combine (a1 ++ a2) (b1 ++ b2) = combine a1 b1 ++ combine a2 b2.
Proof. revert b1; induction a1; destruct b1; simpl; intros; try discriminate; auto. f_equal. auto. Qed.

Lemma inv_announce_step s l s' : inv_announce s -> lstep s l = Some s' -> inv_announce s'.
Proof.
  unfold inv_announce. intros I H. apply lstep_kind in H.
  assert (forall n y y' evs, nth_error (conns s) n = Some y -> c_key y' = c_key y -> announces evs = [] ->
            announces (log s ++ evs) =
            combine (seq 0 (length (upd n y' (conns s)))) (map c_key (upd n y' (conns s)))) as Hupd.
  { intros n y y' evs Hy K Hev. rewrite length_upd. erewrite map_upd; eauto. unfold announces in *. rewrite pick_app, Hev, app_nil_r. auto. }
  destruct H.
  - subst. rewrite ext_log. destruct a; simpl; auto;
      repeat match goal with |- context [match ?x with _ => _ end] => destruct x eqn:?; simpl; auto end.
    rewrite <- (app_nil_r (log s)). eapply Hupd; eauto.
  - unfold r_rn_read in H; open_rule H; simpl; proj; rewrite ?app_nil_r; auto.
    rewrite I. rewrite app_length, map_app. simpl. rewrite seq_app. simpl.
    rewrite combine_app; auto. rewrite seq_length, map_length. auto.
  - unfold r_rn_readerr in H; open_rule H; auto.
  - unfold r_rn_hand_done in H; open_rule H; simpl; proj; rewrite app_nil_r; auto.
  - unfold r_rn_hand_stop in H; open_rule H; simpl; proj; rewrite app_nil_r; auto.
  - unfold r_read_rdv in H; open_rule H; simpl; proj; rewrite app_nil_r; auto.
  - unfold r_call_ctx in H; open_rule H; simpl; proj; rewrite app_nil_r; auto.
  - unfold r_call_done in H; open_rule H; simpl; proj; rewrite app_nil_r; auto.
  - unfold r_write_rdv in H; open_rule H; simpl. eapply Hupd; eauto.
  - unfold r_dw_exit in H; open_rule H; simpl. rewrite <- (app_nil_r (log s)). eapply Hupd; eauto.
  - unfold r_dw_write in H; open_rule H; simpl; eapply Hupd; eauto.
Qed.

Lemma announce_once s : reachable s ->
  announces (log s) = combine (seq 0 (length (conns s))) (map c_key (conns s)).
Proof. apply (reachable_inv inv_announce). reflexivity. apply inv_announce_step. Qed.

(* every instance was created for an envelope: its routed sequence is not empty *)
Definition inv_first (s : state) : Prop := forall c, (c < length (conns s))%nat -> routed c (log s) <> [].

Lemma conns_length_step s l s' : lstep s l = Some s' ->
  length (conns s') = length (conns s) \/
  (length (conns s') = S (length (conns s)) /\ exists e, routed (length (conns s)) (log s') = routed (length (conns s)) (log s) ++ [e]).
Proof.
  intros H. apply lstep_kind in H. destruct H.
  - subst. destruct a; simpl; auto;
      repeat match goal with |- context [match ?x with _ => _ end] => destruct x eqn:?; simpl; auto end.
    left. apply length_upd.
  - unfold r_rn_read in H; open_rule H; simpl; auto. right. rewrite app_length. simpl. split; [lia|].
    exists e. proj. rewrite Nat.eqb_refl. auto.
  - unfold r_rn_readerr in H; open_rule H; auto.
  - unfold r_rn_hand_done in H; open_rule H; auto.
  - unfold r_rn_hand_stop in H; open_rule H; auto.
  - unfold r_read_rdv in H; open_rule H; auto.
  - unfold r_call_ctx in H; open_rule H; auto.
  - unfold r_call_done in H; open_rule H; auto.
  - unfold r_write_rdv in H; open_rule H; simpl; left; apply length_upd.
  - unfold r_dw_exit in H; open_rule H; simpl; left; apply length_upd.
  - unfold r_dw_write in H; open_rule H; simpl; left; apply length_upd.
Qed.

Lemma log_grows s l s' : lstep s l = Some s' -> exists evs, log s' = log s ++ evs.
Proof.
  intros H. apply lstep_kind in H. destruct H.
  - subst. rewrite ext_log. exists []. rewrite app_nil_r. auto.
  - unfold r_rn_read in H; open_rule H; simpl; eauto.
  - unfold r_rn_readerr in H; open_rule H; simpl; exists []; rewrite app_nil_r; auto.
  - unfold r_rn_hand_done in H; open_rule H; simpl; eauto.
  - unfold r_rn_hand_stop in H; open_rule H; simpl; eauto.
  - unfold r_read_rdv in H; open_rule H; simpl; eauto.
  - unfold r_call_ctx in H; open_rule H; simpl; eauto.
  - unfold r_call_done in H; open_rule H; simpl; eauto.
  - unfold r_write_rdv in H; open_rule H; simpl; eauto.
  - unfold r_dw_exit in H; open_rule H; simpl; exists []; rewrite app_nil_r; auto.
  - unfold r_dw_write in H; open_rule H; simpl; eauto.
Qed.

Lemma inv_first_step s l s' : inv_first s -> lstep s l = Some s' -> inv_first s'.
Proof.
  intros I H c Hc. destruct (log_grows _ _ _ H) as (evs & Hl).
  destruct (conns_length_step _ _ _ H) as [L|[L (e & He)]].
  - rewrite L in Hc. specialize (I c Hc). rewrite Hl. unfold routed in *. rewrite pick_app.
    intro X. apply app_eq_nil in X. tauto.
  - destruct (Nat.eq_dec c (length (conns s))).
    + subst. rewrite He. intro X. apply app_eq_nil in X. destruct X; discriminate.
    + assert (c < length (conns s))%nat as Hc' by lia. specialize (I c Hc'). rewrite Hl. unfold routed in *.
      rewrite pick_app. intro X. apply app_eq_nil in X. tauto.
Qed.

Lemma announced_on_first_use s : reachable s -> forall c, (c < length (conns s))%nat -> routed c (log s) <> [].
Proof. apply (reachable_inv inv_first). intros c Hc; simpl in Hc; lia. apply inv_first_step. Qed.

(* ---------- C18 write: per instance, exact accounting ---------- *)
Definition inv_write (s : state) : Prop :=
  forall c, accepted c (log s) = sh_written c (log s) ++ sh_failed c (log s) ++ dw_pend s c /\
            (sh_failed c (log s) = [] \/ (dw_dead s c = true /\ length (sh_failed c (log s)) = 1%nat)).

Lemma dw_pend_upd s c n x d :
  nth_error (conns s) n = Some x ->
  match nth_error (upd n (set_dw x d) (conns s)) c with
  | Some y => match c_dw y with DWWrite e => [e] | _ => [] end
  | None => []
  end = if Nat.eqb n c then match d with DWWrite e => [e] | _ => [] end else dw_pend s c.
Proof.
  intros Hx. unfold dw_pend. rewrite nth_upd. destruct (Nat.eqb_spec n c); auto. subst.
  pose proof (nth_some_lt _ _ _ Hx). destruct (Nat.ltb_spec c (length (conns s))); try lia. auto.
Qed.

Lemma dw_dead_upd s c n x d :
  nth_error (conns s) n = Some x ->
  match nth_error (upd n (set_dw x d) (conns s)) c with
  | Some y => match c_dw y with DWDead => true | _ => false end
  | None => false
  end = if Nat.eqb n c then match d with DWDead => true | _ => false end else dw_dead s c.
Proof.
  intros Hx. unfold dw_dead. rewrite nth_upd. destruct (Nat.eqb_spec n c); auto. subst.
  pose proof (nth_some_lt _ _ _ Hx). destruct (Nat.ltb_spec c (length (conns s))); try lia. auto.
Qed.

Lemma ext_dw s a c : dw_pend (ext s a) c = dw_pend s c /\ dw_dead (ext s a) c = dw_dead s c.
Proof.
  destruct a; simpl; auto;
    repeat match goal with |- context [match ?x with _ => _ end] => destruct x eqn:?; simpl; auto end.
  unfold dw_pend, dw_dead; simpl. rewrite nth_upd. destruct (Nat.eqb_spec n c); auto. subst.
  rewrite Heqo0. apply nth_some_lt in Heqo0. destruct (Nat.ltb_spec c (length (conns s))); try lia. auto.
Qed.

Lemma inv_write_step s l s' : inv_write s -> lstep s l = Some s' -> inv_write s'.
Proof.
  intros I H c. specialize (I c). destruct I as [I1 I2]. apply lstep_kind in H. destruct H.
  - subst. destruct (ext_dw s a c) as [-> ->]. rewrite ext_log. auto.
  - unfold r_rn_read in H; open_rule H; unfold dw_pend, dw_dead in *; simpl; proj; rewrite ?app_nil_r; auto.
    destruct (nth_error (conns s) c) eqn:E2.
    + rewrite nth_error_app1 by (eapply nth_some_lt; eauto). rewrite E2. auto.
    + rewrite I1. simpl in I2. split.
      * destruct (nth_error (conns s ++ _) c) eqn:E3; auto.
        apply nth_app_cases in E3. destruct E3 as [[E3 _]|[_ ->]]; [congruence | simpl; auto].
      * destruct I2 as [I2|[I2 _]]; auto. discriminate.
  - unfold r_rn_readerr in H; open_rule H; auto.
  - unfold r_rn_hand_done in H; open_rule H; unfold dw_pend, dw_dead in *; simpl; proj; rewrite ?app_nil_r; auto.
  - unfold r_rn_hand_stop in H; open_rule H; unfold dw_pend, dw_dead in *; simpl; proj; rewrite ?app_nil_r; auto.
  - unfold r_read_rdv in H; open_rule H; unfold dw_pend, dw_dead in *; simpl; proj; rewrite ?app_nil_r; auto.
  - unfold r_call_ctx in H; open_rule H; unfold dw_pend, dw_dead in *; simpl; proj; rewrite ?app_nil_r; auto.
  - unfold r_call_done in H; open_rule H; unfold dw_pend, dw_dead in *; simpl; proj; rewrite ?app_nil_r; auto.
  - unfold r_write_rdv in H; open_rule H. unfold dw_pend at 1, dw_dead at 1. simpl.
    rewrite dw_pend_upd, dw_dead_upd by auto. proj. rewrite ?app_nil_r.
    destruct (Nat.eqb_spec (cl_conn c0) c); rewrite ?app_nil_r; auto. subst.
    unfold dw_pend, dw_dead in *. rewrite E2, E3 in *. rewrite I1. rewrite !app_nil_r. split.
    + rewrite <- !app_assoc. auto.
    + destruct I2 as [I2|[I2 _]]; auto. discriminate.
  - unfold r_dw_exit in H; open_rule H. unfold dw_pend at 1, dw_dead at 1. simpl.
    rewrite dw_pend_upd, dw_dead_upd by auto.
    destruct (Nat.eqb_spec c0 c); auto. subst. unfold dw_pend, dw_dead in *. rewrite E, E0 in *.
    split; auto. destruct I2 as [I2|[_ I2]]; auto.
  - unfold r_dw_write in H; open_rule H; unfold dw_pend at 1, dw_dead at 1; simpl;
      rewrite dw_pend_upd, dw_dead_upd by auto; proj; rewrite ?app_nil_r;
      (destruct (Nat.eqb_spec c0 c); rewrite ?app_nil_r; auto); subst;
      unfold dw_pend, dw_dead in *; rewrite E, E0 in *;
      (destruct I2 as [I2|[I2 _]]; [|discriminate]); rewrite I2 in *; rewrite I1; simpl; rewrite ?app_nil_r; auto.
Qed.

Lemma write_exact s : reachable s -> forall c,
  accepted c (log s) = sh_written c (log s) ++ sh_failed c (log s) ++ dw_pend s c /\
  (sh_failed c (log s) = [] \/ (dw_dead s c = true /\ length (sh_failed c (log s)) = 1%nat)).
Proof.
  apply (reachable_inv inv_write); [| apply inv_write_step].
  intros c. unfold dw_pend; simpl. destruct c; simpl; auto.
Qed.

(* ---------- calls: each returns at most once; what the history says about a call is what the call saw ---------- *)
Definition inv_calls (s : state) : Prop :=
  (forall i, rets i (log s) = res_list s i) /\
  (forall c e i, In (EvHand c e i) (log s) ->
     exists k, nth_error (calls s) i = Some k /\ cl_conn k = c /\ cl_kind k = KRead /\ cl_res k = Some (RGot e)) /\
  (forall c e i, In (EvAccept c e i) (log s) ->
     exists k, nth_error (calls s) i = Some k /\ cl_conn k = c /\ cl_kind k = KWrite e /\ cl_res k = Some RWrote).

Lemma res_list_upd s i j k r :
  nth_error (calls s) i = Some k ->
  match nth_error (upd i (ret_call k r) (calls s)) j with
  | Some k0 => match cl_res k0 with Some r0 => [r0] | None => [] end
  | None => []
  end = if Nat.eqb i j then [r] else res_list s j.
Proof.
  intros Hk. unfold res_list. rewrite nth_upd. destruct (Nat.eqb_spec i j); auto. subst.
  pose proof (nth_some_lt _ _ _ Hk). destruct (Nat.ltb_spec j (length (calls s))); try lia. auto.
Qed.

Lemma call_kept s i j k r (P : call -> Prop) :
  nth_error (calls s) i = Some k -> cl_res k = None ->
  (exists k0, nth_error (calls s) j = Some k0 /\ P k0 /\ cl_res k0 <> None) ->
  (forall k0, P k0 -> P (ret_call k0 r)) ->
  exists k0, nth_error (upd i (ret_call k r) (calls s)) j = Some k0 /\ P k0 /\ cl_res k0 <> None.
Proof.
  intros Hk Hn (k0 & H0 & HP & Hr) Hret. rewrite nth_upd. destruct (Nat.eqb_spec i j).
  - subst. rewrite Hk in H0. inversion H0; subst. congruence.
  - eauto.
Qed.

Lemma inv_calls_step s l s' : inv_calls s -> lstep s l = Some s' -> inv_calls s'.
Proof.
  intros (I1 & I2 & I3) H. apply lstep_kind in H.
  (* a call that returns: old facts about other calls are kept *)
  assert (forall i k r evs, nth_error (calls s) i = Some k -> cl_res k = None ->
            (forall c e j, In (EvHand c e j) (log s ++ evs) -> In (EvHand c e j) (log s) \/
                 (j = i /\ cl_conn k = c /\ cl_kind k = KRead /\ r = RGot e)) ->
            (forall c e j, In (EvAccept c e j) (log s ++ evs) -> In (EvAccept c e j) (log s) \/
                 (j = i /\ cl_conn k = c /\ cl_kind k = KWrite e /\ r = RWrote)) ->
            (forall c e j, In (EvHand c e j) (log s ++ evs) ->
               exists k0, nth_error (upd i (ret_call k r) (calls s)) j = Some k0 /\ cl_conn k0 = c /\ cl_kind k0 = KRead /\
                          cl_res k0 = Some (RGot e)) /\
            (forall c e j, In (EvAccept c e j) (log s ++ evs) ->
               exists k0, nth_error (upd i (ret_call k r) (calls s)) j = Some k0 /\ cl_conn k0 = c /\ cl_kind k0 = KWrite e /\
                          cl_res k0 = Some RWrote)) as Hret.
  { intros i k r evs Hk Hn HA HB. pose proof (nth_some_lt _ _ _ Hk) as Hlt. split; intros c e j Hin.
    - apply HA in Hin. destruct Hin as [Hin|(-> & Hc & Hkd & ->)].
      + destruct (I2 _ _ _ Hin) as (k0 & H0 & A & B & C). rewrite nth_upd. destruct (Nat.eqb_spec i j).
        * subst. rewrite Hk in H0. inversion H0; subst. congruence.
        * eauto.
      + rewrite nth_upd_eq by auto. eexists; split; eauto.
    - apply HB in Hin. destruct Hin as [Hin|(-> & Hc & Hkd & ->)].
      + destruct (I3 _ _ _ Hin) as (k0 & H0 & A & B & C). rewrite nth_upd. destruct (Nat.eqb_spec i j).
        * subst. rewrite Hk in H0. inversion H0; subst. congruence.
        * eauto.
      + rewrite nth_upd_eq by auto. eexists; split; eauto. }
  (* steps that do not touch the calls and log nothing about them *)
  assert (forall evs, (forall i, rets i evs = []) ->
            (forall c e j, ~ In (EvHand c e j) evs) -> (forall c e j, ~ In (EvAccept c e j) evs) ->
            forall s0, calls s0 = calls s -> log s0 = log s ++ evs -> inv_calls s0) as Hsame.
  { intros evs R A B s0 Hc Hl. unfold inv_calls, res_list. rewrite Hc, Hl. split; [|split].
    - intros i. unfold rets in *. rewrite pick_app, R, app_nil_r. apply I1.
    - intros c e j Hin. apply in_app_or in Hin. destruct Hin as [Hin|Hin]; [eauto | exfalso; eapply A; eauto].
    - intros c e j Hin. apply in_app_or in Hin. destruct Hin as [Hin|Hin]; [eauto | exfalso; eapply B; eauto]. }
  destruct H.
  - (* environment *)
    subst. unfold inv_calls. rewrite ext_log. destruct a; simpl; auto;
      repeat match goal with |- context [match ?x with _ => _ end] => destruct x eqn:?; simpl; auto end;
      try (split; [|split]; auto; fail).
    + (* ARead *)
      split; [|split].
      * intros i. rewrite I1. unfold res_list. simpl. destruct (nth_error (calls s) i) eqn:E.
        -- rewrite nth_error_app1 by (eapply nth_some_lt; eauto). rewrite E. auto.
        -- destruct (nth_error (calls s ++ _) i) eqn:E2; auto. apply nth_app_cases in E2.
           destruct E2 as [[E2 _]|[_ ->]]; [congruence | auto].
      * intros c0 e j Hin. destruct (I2 _ _ _ Hin) as (k0 & H0 & A). exists k0. split; auto.
        rewrite nth_error_app1; auto. eapply nth_some_lt; eauto.
      * intros c0 e j Hin. destruct (I3 _ _ _ Hin) as (k0 & H0 & A). exists k0. split; auto.
        rewrite nth_error_app1; auto. eapply nth_some_lt; eauto.
    + (* AWrite *)
      split; [|split].
      * intros i. rewrite I1. unfold res_list. simpl. destruct (nth_error (calls s) i) eqn:E.
        -- rewrite nth_error_app1 by (eapply nth_some_lt; eauto). rewrite E. auto.
        -- destruct (nth_error (calls s ++ _) i) eqn:E2; auto. apply nth_app_cases in E2.
           destruct E2 as [[E2 _]|[_ ->]]; [congruence | auto].
      * intros c0 e0 j Hin. destruct (I2 _ _ _ Hin) as (k0 & H0 & A). exists k0. split; auto.
        rewrite nth_error_app1; auto. eapply nth_some_lt; eauto.
      * intros c0 e0 j Hin. destruct (I3 _ _ _ Hin) as (k0 & H0 & A). exists k0. split; auto.
        rewrite nth_error_app1; auto. eapply nth_some_lt; eauto.
    + (* ACancelCall *)
      pose proof (nth_some_lt _ _ _ Heqo) as Hlt. split; [|split].
      * intros j. rewrite I1. unfold res_list. simpl. rewrite nth_upd. destruct (Nat.eqb_spec i j); auto. subst.
        rewrite Heqo. destruct (Nat.ltb_spec j (length (calls s))); try lia. auto.
      * intros c0 e j Hin. destruct (I2 _ _ _ Hin) as (k0 & H0 & A & B & C). rewrite nth_upd.
        destruct (Nat.eqb_spec i j); eauto. subst. rewrite Heqo in H0. inversion H0; subst.
        destruct (Nat.ltb_spec j (length (calls s))); try lia. eexists; split; eauto.
      * intros c0 e j Hin. destruct (I3 _ _ _ Hin) as (k0 & H0 & A & B & C). rewrite nth_upd.
        destruct (Nat.eqb_spec i j); eauto. subst. rewrite Heqo in H0. inversion H0; subst.
        destruct (Nat.ltb_spec j (length (calls s))); try lia. eexists; split; eauto.
  - unfold r_rn_read in H; open_rule H; eapply Hsame; simpl; eauto; intros; simpl; intuition discriminate.
  - unfold r_rn_readerr in H; open_rule H. eapply (Hsame []); simpl; eauto. rewrite app_nil_r; auto.
  - unfold r_rn_hand_done in H; open_rule H; eapply Hsame; simpl; eauto; intros; simpl; intuition discriminate.
  - unfold r_rn_hand_stop in H; open_rule H; eapply Hsame; simpl; eauto; intros; simpl; intuition discriminate.
  - unfold r_read_rdv in H; open_rule H. apply Nat.eqb_eq in E3. subst.
    destruct (Hret i c (RGot e) [EvHand (cl_conn c) e i; EvRet i (RGot e)] E E2) as [HA HB].
    { intros c9 e9 j Hin. apply in_app_or in Hin. destruct Hin as [Hin|Hin]; auto. simpl in Hin.
      destruct Hin as [Hin|[Hin|[]]]; inversion Hin; subst. right; auto. }
    { intros c9 e9 j Hin. apply in_app_or in Hin. destruct Hin as [Hin|Hin]; auto. simpl in Hin.
      destruct Hin as [Hin|[Hin|[]]]; inversion Hin. }
    split; [|split]; simpl; auto.
    intros j. unfold res_list at 1. simpl. proj. rewrite res_list_upd by auto. rewrite I1. destruct (Nat.eqb_spec i j); rewrite ?app_nil_r; auto.
    subst. unfold res_list. rewrite E, E2. auto.
  - unfold r_call_ctx in H; open_rule H.
    destruct (Hret i c RErrCtx [EvRet i RErrCtx] E E0) as [HA HB].
    { intros c9 e9 j Hin. apply in_app_or in Hin. destruct Hin as [Hin|Hin]; auto. simpl in Hin.
      destruct Hin as [Hin|[]]; inversion Hin. }
    { intros c9 e9 j Hin. apply in_app_or in Hin. destruct Hin as [Hin|Hin]; auto. simpl in Hin.
      destruct Hin as [Hin|[]]; inversion Hin. }
    split; [|split]; simpl; auto.
    intros j. unfold res_list at 1. simpl. proj. rewrite res_list_upd by auto. rewrite I1. destruct (Nat.eqb_spec i j); rewrite ?app_nil_r; auto.
    subst. unfold res_list. rewrite E, E0. auto.
  - unfold r_call_done in H; open_rule H.
    destruct (Hret i c RErrCancelled [EvRet i RErrCancelled] E E0) as [HA HB].
    { intros c9 e9 j Hin. apply in_app_or in Hin. destruct Hin as [Hin|Hin]; auto. simpl in Hin.
      destruct Hin as [Hin|[]]; inversion Hin. }
    { intros c9 e9 j Hin. apply in_app_or in Hin. destruct Hin as [Hin|Hin]; auto. simpl in Hin.
      destruct Hin as [Hin|[]]; inversion Hin. }
    split; [|split]; simpl; auto.
    intros j. unfold res_list at 1. simpl. proj. rewrite res_list_upd by auto. rewrite I1. destruct (Nat.eqb_spec i j); rewrite ?app_nil_r; auto.
    subst. unfold res_list. rewrite E, E0. auto.
  - unfold r_write_rdv in H; open_rule H.
    destruct (Hret i c RWrote [EvAccept (cl_conn c) e i; EvRet i RWrote] E E1) as [HA HB].
    { intros c9 e9 j Hin. apply in_app_or in Hin. destruct Hin as [Hin|Hin]; auto. simpl in Hin.
      destruct Hin as [Hin|[Hin|[]]]; inversion Hin. }
    { intros c9 e9 j Hin. apply in_app_or in Hin. destruct Hin as [Hin|Hin]; auto. simpl in Hin.
      destruct Hin as [Hin|[Hin|[]]]; inversion Hin; subst. right; auto. }
    split; [|split]; simpl; auto.
    intros j. unfold res_list at 1. simpl. proj. rewrite res_list_upd by auto. rewrite I1. destruct (Nat.eqb_spec i j); rewrite ?app_nil_r; auto.
    subst. unfold res_list. rewrite E, E1. auto.
  - unfold r_dw_exit in H; open_rule H. eapply (Hsame []); simpl; eauto. rewrite app_nil_r; auto.
  - unfold r_dw_write in H; open_rule H; eapply Hsame; simpl; eauto; intros; simpl; intuition discriminate.
Qed.

Lemma calls_history s : reachable s -> inv_calls s.
Proof.
  apply (reachable_inv inv_calls); [| apply inv_calls_step].
  split; [|split]; simpl; try tauto. intros i. unfold res_list. simpl. destruct i; auto.
Qed.

(* ---------- C18 cancel / stop ---------- *)
Lemma no_crash s : reachable s -> crashed s = false.
Proof. intros R. apply (v_crash _ (reachable_valid _ R)). Qed.

(* (Q) in a quiescent state no call on a cancelled instance is blocked *)
Lemma cancel_unblocks s : reachable s -> quiescent s = true ->
  forall i k, nth_error (calls s) i = Some k -> conn_done s (cl_conn k) = true -> cl_res k <> None.
Proof.
  intros R Q i k Hk Hd Hn.
  assert (In (r_call_done i) (rules s)) as Hin.
  { apply rules_has_call. eapply nth_some_lt; eauto. simpl; auto. }
  pose proof (quiescent_none _ _ Q Hin) as Hq. unfold r_call_done in Hq. rewrite Hk, Hn, Hd in Hq. discriminate.
Qed.

(* (Q) in a quiescent state a call whose context is done is not blocked either *)
Lemma ctx_unblocks s : quiescent s = true ->
  forall i k, nth_error (calls s) i = Some k -> cl_ctx k = true -> cl_res k <> None.
Proof.
  intros Q i k Hk Hd Hn.
  assert (In (r_call_ctx i) (rules s)) as Hin.
  { apply rules_has_call. eapply nth_some_lt; eauto. simpl; auto. }
  pose proof (quiescent_none _ _ Q Hin) as Hq. unfold r_call_ctx in Hq. rewrite Hk, Hn, Hd in Hq. discriminate.
Qed.

(* (Q) after Stop, in a quiescent state, the run loop and every writer goroutine are dead *)
Lemma stop_dead s : quiescent s = true -> stopped s = true ->
  rn s = RNDead /\ forall c, (c < length (conns s))%nat -> dw_dead s c = true.
Proof.
  intros Q S. split.
  - destruct (rn s) eqn:E; auto.
    + assert (In r_rn_readerr (rules s)) as Hin by (apply rules_has_global; auto).
      pose proof (quiescent_none _ _ Q Hin) as Hq. unfold r_rn_readerr in Hq. rewrite E, S in Hq. discriminate.
    + assert (In r_rn_hand_stop (rules s)) as Hin by (apply rules_has_global; auto).
      pose proof (quiescent_none _ _ Q Hin) as Hq. unfold r_rn_hand_stop in Hq. rewrite E, S in Hq. discriminate.
  - intros c Hc. unfold dw_dead. destruct (nth_error (conns s) c) eqn:E.
    + destruct (c_dw c0) eqn:Ed; auto.
      * assert (In (r_dw_exit c) (rules s)) as Hin by (apply rules_has_conn; simpl; auto).
        pose proof (quiescent_none _ _ Q Hin) as Hq. unfold r_dw_exit in Hq. rewrite E, Ed, S in Hq. discriminate.
      * assert (In (r_dw_write c) (rules s)) as Hin by (apply rules_has_conn; simpl; auto).
        pose proof (quiescent_none _ _ Q Hin) as Hq. unfold r_dw_write in Hq. rewrite E, Ed, S in Hq.
        destruct (wm s); discriminate.
    + apply nth_error_None in E. lia.
Qed.

(* (Q) in a quiescent state a cancelled instance is settled, unless its writer goroutine sits in a blocked
   Write on the shared transport *)
Lemma cancel_settles s : quiescent s = true -> forall c, conn_done s c = true -> dw_pend s c = [] -> settled s c = true.
Proof.
  intros Q c D P. unfold settled. rewrite D. simpl.
  assert (rn_pend s c = []) as ->.
  { unfold rn_pend. destruct (rn s) eqn:E; auto. destruct (Nat.eqb_spec c0 c); auto. subst.
    assert (In r_rn_hand_done (rules s)) as Hin by (apply rules_has_global; auto).
    pose proof (quiescent_none _ _ Q Hin) as Hq. unfold r_rn_hand_done in Hq. rewrite E, D in Hq. discriminate. }
  simpl. unfold dw_dead, dw_pend, conn_done in *. destruct (nth_error (conns s) c) eqn:E; try discriminate.
  destruct (c_dw c0) eqn:Ed; auto; try discriminate.
  assert (In (r_dw_exit c) (rules s)) as Hin.
  { apply rules_has_conn; simpl; auto. eapply nth_some_lt; eauto. }
  pose proof (quiescent_none _ _ Q Hin) as Hq. unfold r_dw_exit in Hq. rewrite E, Ed, D in Hq.
  rewrite orb_true_r in Hq. discriminate.
Qed.

(* once settled, always settled, and every call on the instance that returns afterwards returns an error *)
Definition settled_p (s : state) (c : nat) : Prop :=
  exists x, nth_error (conns s) c = Some x /\ c_done x = true /\ c_dw x = DWDead /\ forall e, rn s <> RNHand c e.

Lemma settled_iff s c : settled s c = true <-> settled_p s c.
Proof.
  unfold settled, settled_p, conn_done, dw_dead, rn_pend. split.
  - intros H. apply andb_true_iff in H. destruct H as [H H3]. apply andb_true_iff in H. destruct H as [H1 H2].
    destruct (nth_error (conns s) c); try discriminate. exists c0. split; auto. split; auto.
    split. destruct (c_dw c0); auto; discriminate.
    intros e E. rewrite E, Nat.eqb_refl in H2. discriminate.
  - intros (x & -> & -> & -> & Hr). simpl. destruct (rn s); auto. destruct (Nat.eqb_spec c0 c); auto.
    subst. exfalso. eapply Hr; eauto.
Qed.

Definition inv_settled (n0 c : nat) (s : state) : Prop :=
  valid s /\ settled_p s c /\
  forall i k r, (n0 <= i)%nat -> nth_error (calls s) i = Some k -> cl_conn k = c -> cl_res k = Some r -> is_err r = true.

Lemma inv_settled_step n0 c s l s' : inv_settled n0 c s -> lstep s l = Some s' -> inv_settled n0 c s'.
Proof.
  intros (V & (x & Hx & Hd & Hw & Hr) & HC) H. split; [eapply valid_step; eauto|].
  pose proof (v_conn _ V _ _ Hx) as Hreg. rewrite Hd in Hreg. simpl in Hreg.
  pose proof (nth_some_lt _ _ _ Hx) as Hlt.
  (* updating another instance / this instance is never updated *)
  assert (forall n y y', nth_error (conns s) n = Some y -> n <> c -> nth_error (upd n y' (conns s)) c = Some x) as Hupd.
  { intros. rewrite nth_upd_neq; auto. }
  (* a returning call *)
  assert (forall i k r, nth_error (calls s) i = Some k -> (cl_conn k = c -> is_err r = true) ->
            forall j kj rj, (n0 <= j)%nat -> nth_error (upd i (ret_call k r) (calls s)) j = Some kj -> cl_conn kj = c ->
                            cl_res kj = Some rj -> is_err rj = true) as Hret.
  { intros i k r Hk Hok j kj rj Hj Hn Hc Hres. apply nth_upd_inv in Hn. destruct Hn as [[-> ->]|[_ Hn]]; eauto.
    simpl in *. inversion Hres; subst. auto. }
  unfold settled_p. apply lstep_kind in H. destruct H.
  - subst. destruct a; simpl; try (split; [exists x; auto | auto]; fail).
    + destruct (Nat.ltb_spec c0 (length (conns s))); [|split; [exists x; auto | auto]].
      split; [exists x; auto|]. simpl. intros i k r Hi Hn Hc Hres. apply nth_app_cases in Hn.
      destruct Hn as [[Hn _]|[_ ->]]; eauto. discriminate.
    + destruct (Nat.ltb_spec c0 (length (conns s))); [|split; [exists x; auto | auto]].
      split; [exists x; auto|]. simpl. intros i k r Hi Hn Hc Hres. apply nth_app_cases in Hn.
      destruct Hn as [[Hn _]|[_ ->]]; eauto. discriminate.
    + destruct (nth_error (calls s) i) eqn:E; [|split; [exists x; auto | auto]].
      split; [exists x; auto|]. simpl. intros j k r Hj Hn Hc Hres. apply nth_upd_inv in Hn.
      destruct Hn as [[-> ->]|[_ Hn]]; eauto.
    + destruct (find_reg k (conns s) 0) eqn:E; [|split; [exists x; auto | auto]].
      destruct (nth_error (conns s) n) eqn:E1; [|split; [exists x; auto | auto]].
      apply find_reg0_some in E. destruct E as (y & Hy & Hyr & _).
      assert (n <> c) by (intro; subst; congruence).
      split; [exists x; simpl; split; eauto | auto].
  - unfold r_rn_read in H; open_rule H; simpl.
    + apply find_reg0_some in E1. destruct E1 as (y & Hy & Hyr & _).
      assert (n <> c) by (intro; subst; congruence).
      split; auto. exists x. repeat split; auto. intros e' X. inversion X. congruence.
    + split; auto. exists x. rewrite nth_error_app1 by auto. repeat split; auto.
      intros e' X. inversion X. lia.
  - unfold r_rn_readerr in H; open_rule H; simpl. split; auto. exists x. repeat split; auto. intros; discriminate.
  - unfold r_rn_hand_done in H; open_rule H; simpl. split; auto. exists x. repeat split; auto. intros; discriminate.
  - unfold r_rn_hand_stop in H; open_rule H; simpl. split; auto. exists x. repeat split; auto. intros; discriminate.
  - unfold r_read_rdv in H; open_rule H; simpl. apply Nat.eqb_eq in E3. subst. split.
    + exists x. repeat split; auto. intros; discriminate.
    + eapply Hret; eauto. intros X. exfalso. eapply Hr. rewrite <- X. eauto.
  - unfold r_call_ctx in H; open_rule H; simpl. split; [exists x; auto|]. eapply Hret; eauto.
  - unfold r_call_done in H; open_rule H; simpl. split; [exists x; auto|]. eapply Hret; eauto.
  - unfold r_write_rdv in H; open_rule H; simpl.
    assert (cl_conn c0 <> c) as Hne by (intro X; rewrite X in *; rewrite Hx in E2; inversion E2; subst; congruence).
    split; [exists x; split; eauto|]. eapply Hret; eauto; intros; congruence.
  - unfold r_dw_exit in H; open_rule H; simpl.
    assert (c0 <> c) as Hne by (intro X; subst; rewrite Hx in E; inversion E; subst; congruence).
    split; [exists x; split; eauto|]. auto.
  - unfold r_dw_write in H; open_rule H; simpl;
      (assert (c0 <> c) as Hne by (intro X; subst; rewrite Hx in E; inversion E; subst; congruence));
      (split; [exists x; split; eauto|]; auto).
Qed.

Lemma cancel_errors s c : reachable s -> settled s c = true ->
  forall ls s', lrun s ls = Some s' ->
    settled s' c = true /\
    forall i k r, (length (calls s) <= i)%nat -> nth_error (calls s') i = Some k -> cl_conn k = c -> cl_res k = Some r ->
                  is_err r = true.
Proof.
  intros R S ls s' H.
  assert (inv_settled (length (calls s)) c s') as (_ & S' & HC).
  { eapply (lrun_inv (inv_settled (length (calls s)) c)); eauto.
    - intros; eapply inv_settled_step; eauto.
    - split; [apply reachable_valid; auto|]. split; [apply settled_iff; auto|].
      intros i k r Hi Hn. apply nth_some_lt in Hn. lia. }
  split; auto. apply settled_iff; auto.
Qed.

(* ---------- the statements of Props/C18.v, over label sequences ---------- *)
Lemma ex_reach ls s : lrun init ls = Some s -> reachable s.
Proof. intros H. exists ls. auto. Qed.

Lemma C18_route_exact_l : forall ls s, lrun init ls = Some s ->
  forall c, routed c (log s) = disposed c (log s) ++ rn_pend s c.
Proof. intros ls s H. apply route_exact. eapply ex_reach; eauto. Qed.

Lemma C18_route_live_l : forall ls s, lrun init ls = Some s ->
  forall c, conn_done s c = false -> stopped s = false -> routed c (log s) = handed c (log s) ++ rn_pend s c.
Proof. intros ls s H. apply route_live. eapply ex_reach; eauto. Qed.

Lemma C18_route_key_l : forall ls s, lrun init ls = Some s ->
  forall c e, In (EvShRead c e) (log s) -> exists x, nth_error (conns s) c = Some x /\ c_key x = ekey e.
Proof. intros ls s H. apply route_key. eapply ex_reach; eauto. Qed.

Lemma C18_one_instance_l : forall ls s, lrun init ls = Some s ->
  forall c1 c2 x1 x2, nth_error (conns s) c1 = Some x1 -> nth_error (conns s) c2 = Some x2 ->
    c_key x1 = c_key x2 -> (c1 < c2)%nat -> c_done x1 = true.
Proof. intros ls s H. apply one_instance. eapply ex_reach; eauto. Qed.

Lemma C18_route_uncancelled_l : forall ls s, lrun init ls = Some s ->
  forall c x, nth_error (conns s) c = Some x ->
    (forall c' x', nth_error (conns s) c' = Some x' -> c_key x' = c_key x -> c_done x' = false) ->
    routed c (log s) = filter (fun e => ekey e =? c_key x) (sh_reads (log s)).
Proof. intros ls s H. apply route_uncancelled. eapply ex_reach; eauto. Qed.

Lemma C18_announce_once_l : forall ls s, lrun init ls = Some s ->
  announces (log s) = combine (seq 0 (length (conns s))) (map c_key (conns s)).
Proof. intros ls s H. apply announce_once. eapply ex_reach; eauto. Qed.

Lemma C18_announce_first_use_l : forall ls s, lrun init ls = Some s ->
  forall c, (c < length (conns s))%nat -> routed c (log s) <> [].
Proof. intros ls s H. apply announced_on_first_use. eapply ex_reach; eauto. Qed.

Lemma C18_write_exact_l : forall ls s, lrun init ls = Some s -> forall c,
  accepted c (log s) = sh_written c (log s) ++ sh_failed c (log s) ++ dw_pend s c /\
  (sh_failed c (log s) = [] \/ (dw_dead s c = true /\ length (sh_failed c (log s)) = 1%nat)).
Proof. intros ls s H. apply write_exact. eapply ex_reach; eauto. Qed.

Lemma C18_calls_l : forall ls s, lrun init ls = Some s ->
  (forall i, rets i (log s) = res_list s i) /\
  (forall c e i, In (EvHand c e i) (log s) ->
     exists k, nth_error (calls s) i = Some k /\ cl_conn k = c /\ cl_kind k = KRead /\ cl_res k = Some (RGot e)) /\
  (forall c e i, In (EvAccept c e i) (log s) ->
     exists k, nth_error (calls s) i = Some k /\ cl_conn k = c /\ cl_kind k = KWrite e /\ cl_res k = Some RWrote).
Proof. intros ls s H. apply calls_history. eapply ex_reach; eauto. Qed.

Lemma C18_no_crash_l : forall ls s, lrun init ls = Some s -> crashed s = false.
Proof. intros ls s H. apply no_crash. eapply ex_reach; eauto. Qed.

Lemma C18_cancel_unblocks_l : forall ls s, lrun init ls = Some s -> quiescent s = true ->
  forall i k, nth_error (calls s) i = Some k -> conn_done s (cl_conn k) = true -> cl_res k <> None.
Proof. intros ls s H. apply cancel_unblocks. eapply ex_reach; eauto. Qed.

Lemma C18_cancel_settles_l : forall ls s, lrun init ls = Some s -> quiescent s = true ->
  forall c, conn_done s c = true -> dw_pend s c = [] -> settled s c = true.
Proof. intros ls s _. apply cancel_settles. Qed.

Lemma C18_cancel_errors_l : forall ls s, lrun init ls = Some s -> forall c, settled s c = true ->
  forall ls' s', lrun s ls' = Some s' ->
    settled s' c = true /\
    forall i k r, (length (calls s) <= i)%nat -> nth_error (calls s') i = Some k -> cl_conn k = c -> cl_res k = Some r ->
                  is_err r = true.
Proof. intros ls s H c. apply cancel_errors. eapply ex_reach; eauto. Qed.

Lemma C18_stop_dead_l : forall ls s, lrun init ls = Some s -> quiescent s = true -> stopped s = true ->
  rn s = RNDead /\ forall c, (c < length (conns s))%nat -> dw_dead s c = true.
Proof. intros ls s _. apply stop_dead. Qed.

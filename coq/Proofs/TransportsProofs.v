(* Invariants and lemmas about the transport models (Model/Transports.v). *)
From Coq Require Import List ZArith Bool Lia.
Import ListNotations.
From Goat Require Import Model.Transports.
Open Scope Z_scope.

(* ---------- generic ---------- *)
Lemma lrun_inv {St Act} (ext : St -> Act -> St) (rules : St -> list (St -> option St)) (P : St -> Prop) :
  (forall s a, P s -> P (ext s a)) ->
  (forall s r s', P s -> In r (rules s) -> r s = Some s' -> P s') ->
  forall ls s0 s, P s0 -> lrun ext rules s0 ls = Some s -> P s.
Proof.
  intros Hext Hint. induction ls as [|l ls IH]; intros s0 s H0 Hrun; cbn [lrun] in Hrun.
  - inversion Hrun; subst; exact H0.
  - destruct l as [a|n]; cbn [lstep] in Hrun.
    + eapply IH; [|exact Hrun]. apply Hext, H0.
    + destruct (nth_error (rules s0) n) as [r|] eqn:En; [|discriminate].
      destruct (r s0) as [s1|] eqn:Er; [|discriminate].
      eapply IH; [|exact Hrun]. eapply Hint; [exact H0| |exact Er]. eapply nth_error_In, En.
Qed.

Lemma lrun_app {St Act} (ext : St -> Act -> St) rules (l1 l2 : list (label Act)) s0 :
  lrun ext rules s0 (l1 ++ l2) =
  match lrun ext rules s0 l1 with Some s1 => lrun ext rules s1 l2 | None => None end.
Proof.
  revert s0. induction l1 as [|l l1 IH]; intro s0; cbn [app lrun]; [reflexivity|].
  destruct (lstep ext rules s0 l); [apply IH|reflexivity].
Qed.

Lemma nth_error_upd_eq {A} (l : list A) n x : (n < length l)%nat -> nth_error (upd n x l) n = Some x.
Proof.
  revert n. induction l as [|h t IH]; intros [|n] H; cbn in *; try lia; [reflexivity|].
  apply IH. lia.
Qed.
Lemma nth_error_upd_neq {A} (l : list A) n m x : n <> m -> nth_error (upd n x l) m = nth_error l m.
Proof.
  revert n m. induction l as [|h t IH]; intros [|n] [|m] H; cbn; try reflexivity; try congruence.
  apply IH. congruence.
Qed.
Lemma upd_length {A} (l : list A) n x : length (upd n x l) = length l.
Proof. revert n. induction l as [|h t IH]; intros [|n]; cbn; try reflexivity. f_equal. apply IH. Qed.
Lemma nth_error_upd {A} (l : list A) n m x :
  nth_error (upd n x l) m = if Nat.eqb n m then (if Nat.ltb n (length l) then Some x else None) else nth_error l m.
Proof.
  destruct (Nat.eqb n m) eqn:E.
  - apply Nat.eqb_eq in E. subst m. destruct (Nat.ltb n (length l)) eqn:L.
    + apply Nat.ltb_lt in L. apply nth_error_upd_eq, L.
    + apply Nat.ltb_ge in L. apply nth_error_None. rewrite upd_length. exact L.
  - apply Nat.eqb_neq in E. apply nth_error_upd_neq, E.
Qed.
Lemma nth_error_some_lt {A} (l : list A) n x : nth_error l n = Some x -> (n < length l)%nat.
Proof. intro H. apply nth_error_Some. congruence. Qed.

(* ====================================================================== *)
(* (i) channel transport                                                   *)
(* ====================================================================== *)
Lemma ch_written_app {V} (a b : list (cev V)) : ch_written (a ++ b) = ch_written a ++ ch_written b.
Proof.
  induction a as [|e a IH]; [reflexivity|]. cbn [app ch_written].
  destruct e as [i v r|j r]; [destruct r|]; cbn [app]; rewrite IH; reflexivity.
Qed.
Lemma ch_read_app {V} (a b : list (cev V)) : ch_read (a ++ b) = ch_read a ++ ch_read b.
Proof.
  induction a as [|e a IH]; [reflexivity|]. cbn [app ch_read].
  destruct e as [i v r|j r]; [|destruct r]; cbn [app]; rewrite IH; reflexivity.
Qed.

Definition ch_fifo_inv {V} (s : chst V) : Prop :=
  ch_written (ch_log s) = ch_read (ch_log s) ++ ch_buf s /\ (length (ch_buf s) <= ch_cap s)%nat.

Lemma ch_rules_cases {V} (s : chst V) r :
  In r (ch_rules s) ->
  (exists i, r = ch_push i) \/ (exists i, r = ch_wctx i) \/ (exists j, r = ch_pop j) \/
  (exists j, r = ch_rctx j) \/ (exists j, r = ch_rclosed j) \/ (exists i j, r = ch_rdv i j).
Proof.
  unfold ch_rules. rewrite !in_app_iff, !in_flat_map.
  intros [(i & _ & H)|[(j & _ & H)|(i & _ & H)]].
  - cbn in H. destruct H as [<-|[<-|[]]]; eauto 8.
  - cbn in H. destruct H as [<-|[<-|[<-|[]]]]; eauto 10.
  - apply in_map_iff in H as (j & <- & _). eauto 10.
Qed.

Lemma ch_ext_fifo {V} (s : chst V) a : ch_fifo_inv s -> ch_fifo_inv (ch_ext s a).
Proof.
  unfold ch_fifo_inv. intros [H1 H2]. destruct a as [v d|d|i|j|]; cbn [ch_ext].
  - destruct (ch_closed s); cbn; auto.
  - cbn; auto.
  - destruct (nth_error (ch_ws s) i); cbn; auto.
  - destruct (nth_error (ch_rs s) j); cbn; auto.
  - destruct (ch_closed s || ch_pending_w s); cbn; auto.
Qed.

Lemma ch_int_fifo {V} (s : chst V) r s' : ch_fifo_inv s -> In r (ch_rules s) -> r s = Some s' -> ch_fifo_inv s'.
Proof.
  unfold ch_fifo_inv. intros [H1 H2] Hin Hr.
  apply ch_rules_cases in Hin as [(i & ->)|[(i & ->)|[(j & ->)|[(j & ->)|[(j & ->)|(i & j & ->)]]]]].
  - unfold ch_push in Hr. destruct (nth_error (ch_ws s) i) as [w|]; [|discriminate].
    destruct (cw_pend w && Nat.ltb (length (ch_buf s)) (ch_cap s)) eqn:E; [|discriminate].
    inversion Hr; subst; clear Hr. cbn [ch_log ch_buf ch_cap].
    apply andb_true_iff in E as [_ E]. apply Nat.ltb_lt in E.
    rewrite ch_written_app, ch_read_app, H1. cbn [ch_written ch_read]. rewrite app_nil_r, app_length. cbn [length].
    split; [rewrite app_assoc; reflexivity|lia].
  - unfold ch_wctx in Hr. destruct (nth_error (ch_ws s) i) as [w|]; [|discriminate].
    destruct (cw_pend w && cw_done w); [|discriminate].
    inversion Hr; subst; clear Hr. cbn [ch_log ch_buf ch_cap].
    rewrite ch_written_app, ch_read_app. cbn [ch_written ch_read]. rewrite ?app_nil_r in *. auto.
  - unfold ch_pop in Hr. destruct (nth_error (ch_rs s) j) as [x|]; [|discriminate].
    destruct (ch_buf s) as [|v rest] eqn:Eb; [discriminate|].
    destruct (cr_pend x); [|discriminate].
    inversion Hr; subst; clear Hr. cbn [ch_log ch_buf ch_cap].
    rewrite ch_written_app, ch_read_app, H1. cbn [ch_written ch_read length] in *. rewrite app_nil_r, <- app_assoc.
    split; [reflexivity|lia].
  - unfold ch_rctx in Hr. destruct (nth_error (ch_rs s) j) as [x|]; [|discriminate].
    destruct (cr_pend x && cr_done x); [|discriminate].
    inversion Hr; subst; clear Hr. cbn [ch_log ch_buf ch_cap].
    rewrite ch_written_app, ch_read_app. cbn [ch_written ch_read]. rewrite ?app_nil_r in *. auto.
  - unfold ch_rclosed in Hr. destruct (nth_error (ch_rs s) j) as [x|]; [|discriminate].
    destruct (ch_buf s) as [|v rest] eqn:Eb; [|discriminate].
    destruct (cr_pend x && ch_closed s); [|discriminate].
    inversion Hr; subst; clear Hr. cbn [ch_log ch_buf ch_cap].
    rewrite ch_written_app, ch_read_app. cbn [ch_written ch_read]. rewrite ?app_nil_r in *. auto.
  - unfold ch_rdv in Hr. destruct (nth_error (ch_ws s) i) as [w|]; [|discriminate].
    destruct (nth_error (ch_rs s) j) as [x|]; [|discriminate].
    destruct (ch_buf s) as [|v rest] eqn:Eb; [|discriminate].
    destruct (cw_pend w && cr_pend x); [|discriminate].
    inversion Hr; subst; clear Hr. cbn [ch_log ch_buf ch_cap].
    rewrite ch_written_app, ch_read_app, H1. cbn [ch_written ch_read length]. rewrite !app_nil_r.
    split; [reflexivity|lia].
Qed.

Lemma ch_fifo cap {V} (ls : list (label (cact V))) s :
  ch_run cap ls = Some s -> ch_fifo_inv s.
Proof.
  unfold ch_run. apply lrun_inv with (P := ch_fifo_inv).
  - intros; apply ch_ext_fifo; assumption.
  - intros; eapply ch_int_fifo; eassumption.
  - split; cbn; [reflexivity|lia].
Qed.

(* each call returns at most once *)
Lemma ch_wevents_app {V} i (a b : list (cev V)) : ch_wevents i (a ++ b) = (ch_wevents i a + ch_wevents i b)%nat.
Proof.
  induction a as [|e a IH]; [reflexivity|]. cbn [app ch_wevents]. destruct e; rewrite IH; lia.
Qed.
Lemma ch_revents_app {V} j (a b : list (cev V)) : ch_revents j (a ++ b) = (ch_revents j a + ch_revents j b)%nat.
Proof.
  induction a as [|e a IH]; [reflexivity|]. cbn [app ch_revents]. destruct e; rewrite IH; lia.
Qed.

Definition ch_once_inv {V} (s : chst V) : Prop :=
  (forall i, ch_wevents i (ch_log s) =
             match nth_error (ch_ws s) i with Some w => if cw_pend w then O else 1%nat | None => O end) /\
  (forall j, ch_revents j (ch_log s) =
             match nth_error (ch_rs s) j with Some r => if cr_pend r then O else 1%nat | None => O end).

Lemma nth_error_snoc {A} (l : list A) x n :
  nth_error (l ++ [x]) n = if Nat.ltb n (length l) then nth_error l n else if Nat.eqb n (length l) then Some x else None.
Proof.
  destruct (Nat.ltb n (length l)) eqn:L.
  - apply Nat.ltb_lt in L. apply nth_error_app1, L.
  - apply Nat.ltb_ge in L. rewrite nth_error_app2 by exact L.
    destruct (Nat.eqb n (length l)) eqn:E.
    + apply Nat.eqb_eq in E. subst. rewrite Nat.sub_diag. reflexivity.
    + apply Nat.eqb_neq in E. destruct (n - length l)%nat eqn:D; [lia|]. cbn. destruct n0; reflexivity.
Qed.

Lemma ch_ext_once {V} (s : chst V) a : ch_once_inv s -> ch_once_inv (ch_ext s a).
Proof.
  unfold ch_once_inv. intros [H1 H2]. destruct a as [v d|d|i|j|]; cbn [ch_ext].
  - destruct (ch_closed s); [auto|]. cbn [ch_log ch_ws ch_rs]. split; [|exact H2].
    intro i. rewrite H1, nth_error_snoc.
    destruct (Nat.ltb i (length (ch_ws s))) eqn:L; [reflexivity|].
    apply Nat.ltb_ge in L. replace (nth_error (ch_ws s) i) with (@None (cwriter V)) by (symmetry; apply nth_error_None, L).
    destruct (Nat.eqb i (length (ch_ws s))); reflexivity.
  - cbn [ch_log ch_ws ch_rs]. split; [exact H1|].
    intro j. rewrite H2, nth_error_snoc.
    destruct (Nat.ltb j (length (ch_rs s))) eqn:L; [reflexivity|].
    apply Nat.ltb_ge in L. replace (nth_error (ch_rs s) j) with (@None creader) by (symmetry; apply nth_error_None, L).
    destruct (Nat.eqb j (length (ch_rs s))); reflexivity.
  - destruct (nth_error (ch_ws s) i) as [w|] eqn:E; [|auto]. cbn [ch_log ch_ws ch_rs]. split; [|exact H2].
    intro i'. rewrite H1, nth_error_upd.
    destruct (Nat.eqb i i') eqn:Ei; [|reflexivity]. apply Nat.eqb_eq in Ei. subst i'.
    rewrite E. replace (Nat.ltb i (length (ch_ws s))) with true; [reflexivity|].
    symmetry. apply Nat.ltb_lt. eapply nth_error_some_lt, E.
  - destruct (nth_error (ch_rs s) j) as [x|] eqn:E; [|auto]. cbn [ch_log ch_ws ch_rs]. split; [exact H1|].
    intro j'. rewrite H2, nth_error_upd.
    destruct (Nat.eqb j j') eqn:Ej; [|reflexivity]. apply Nat.eqb_eq in Ej. subst j'.
    rewrite E. replace (Nat.ltb j (length (ch_rs s))) with true; [reflexivity|].
    symmetry. apply Nat.ltb_lt. eapply nth_error_some_lt, E.
  - destruct (ch_closed s || ch_pending_w s); auto.
Qed.

Definition w_inv {V} (ws : list (cwriter V)) (log : list (cev V)) : Prop :=
  forall i, ch_wevents i log = match nth_error ws i with Some w => if cw_pend w then O else 1%nat | None => O end.
Definition r_inv {V} (rs : list creader) (log : list (cev V)) : Prop :=
  forall j, ch_revents j log = match nth_error rs j with Some r => if cr_pend r then O else 1%nat | None => O end.

Lemma w_keep {V} (ws : list (cwriter V)) log evs :
  w_inv ws log -> (forall i, ch_wevents i evs = O) -> w_inv ws (log ++ evs).
Proof. intros H He i. rewrite ch_wevents_app, H, He. lia. Qed.
Lemma r_keep {V} rs (log evs : list (cev V)) :
  r_inv rs log -> (forall j, ch_revents j evs = O) -> r_inv rs (log ++ evs).
Proof. intros H He j. rewrite ch_revents_app, H, He. lia. Qed.

Lemma w_step {V} (ws : list (cwriter V)) log evs i w :
  w_inv ws log -> nth_error ws i = Some w -> cw_pend w = true ->
  (forall i', ch_wevents i' evs = if Nat.eqb i i' then 1%nat else O) ->
  w_inv (upd i (mkCW (cw_val w) (cw_done w) false) ws) (log ++ evs).
Proof.
  intros H Ew Hp He i'. rewrite ch_wevents_app, H, He, nth_error_upd.
  destruct (Nat.eqb i i') eqn:Ei.
  - apply Nat.eqb_eq in Ei. subst i'. rewrite Ew, Hp.
    replace (Nat.ltb i (length ws)) with true; [reflexivity|].
    symmetry. apply Nat.ltb_lt. eapply nth_error_some_lt, Ew.
  - lia.
Qed.
Lemma r_step {V} rs (log evs : list (cev V)) j x :
  r_inv rs log -> nth_error rs j = Some x -> cr_pend x = true ->
  (forall j', ch_revents j' evs = if Nat.eqb j j' then 1%nat else O) ->
  r_inv (upd j (mkCR (cr_done x) false) rs) (log ++ evs).
Proof.
  intros H Ex Hp He j'. rewrite ch_revents_app, H, He, nth_error_upd.
  destruct (Nat.eqb j j') eqn:Ej.
  - apply Nat.eqb_eq in Ej. subst j'. rewrite Ex, Hp.
    replace (Nat.ltb j (length rs)) with true; [reflexivity|].
    symmetry. apply Nat.ltb_lt. eapply nth_error_some_lt, Ex.
  - lia.
Qed.

Lemma wev1 {V} i (v : V) r i' : ch_wevents i' [CEvWrite i v r] = if Nat.eqb i i' then 1%nat else O.
Proof. cbn [ch_wevents]. rewrite (Nat.eqb_sym i' i). destruct (Nat.eqb i i'); reflexivity. Qed.
Lemma wev0 {V} j (r : crres V) i' : ch_wevents i' [CEvRead j r] = O.
Proof. reflexivity. Qed.
Lemma rev1 {V} j (r : crres V) j' : ch_revents j' [CEvRead j r] = if Nat.eqb j j' then 1%nat else O.
Proof. cbn [ch_revents]. rewrite (Nat.eqb_sym j' j). destruct (Nat.eqb j j'); reflexivity. Qed.
Lemma rev0 {V} i (v : V) r j' : ch_revents j' [CEvWrite i v r] = O.
Proof. reflexivity. Qed.

Lemma ch_int_once {V} (s : chst V) r s' : ch_once_inv s -> In r (ch_rules s) -> r s = Some s' -> ch_once_inv s'.
Proof.
  intros [H1 H2] Hin Hr. fold (w_inv (ch_ws s) (ch_log s)) in H1. fold (r_inv (ch_rs s) (ch_log s)) in H2.
  unfold ch_once_inv.
  apply ch_rules_cases in Hin as [(i & ->)|[(i & ->)|[(j & ->)|[(j & ->)|[(j & ->)|(i & j & ->)]]]]].
  - unfold ch_push in Hr. destruct (nth_error (ch_ws s) i) as [w|] eqn:Ew; [|discriminate].
    destruct (cw_pend w && Nat.ltb (length (ch_buf s)) (ch_cap s)) eqn:E; [|discriminate].
    apply andb_true_iff in E as [Ep _]. inversion Hr; subst; clear Hr. cbn [ch_log ch_ws ch_rs].
    split; [apply (w_step _ _ _ i w H1 Ew Ep); intro; apply wev1|apply (r_keep _ _ _ H2); intro; apply rev0].
  - unfold ch_wctx in Hr. destruct (nth_error (ch_ws s) i) as [w|] eqn:Ew; [|discriminate].
    destruct (cw_pend w && cw_done w) eqn:E; [|discriminate].
    apply andb_true_iff in E as [Ep _]. inversion Hr; subst; clear Hr. cbn [ch_log ch_ws ch_rs].
    split; [apply (w_step _ _ _ i w H1 Ew Ep); intro; apply wev1|apply (r_keep _ _ _ H2); intro; apply rev0].
  - unfold ch_pop in Hr. destruct (nth_error (ch_rs s) j) as [x|] eqn:Ex; [|discriminate].
    destruct (ch_buf s) as [|v rest]; [discriminate|].
    destruct (cr_pend x) eqn:Ep; [|discriminate]. inversion Hr; subst; clear Hr. cbn [ch_log ch_ws ch_rs].
    split; [apply (w_keep _ _ _ H1); intro; apply wev0|apply (r_step _ _ _ j x H2 Ex Ep); intro; apply rev1].
  - unfold ch_rctx in Hr. destruct (nth_error (ch_rs s) j) as [x|] eqn:Ex; [|discriminate].
    destruct (cr_pend x && cr_done x) eqn:E; [|discriminate].
    apply andb_true_iff in E as [Ep _]. inversion Hr; subst; clear Hr. cbn [ch_log ch_ws ch_rs].
    split; [apply (w_keep _ _ _ H1); intro; apply wev0|apply (r_step _ _ _ j x H2 Ex Ep); intro; apply rev1].
  - unfold ch_rclosed in Hr. destruct (nth_error (ch_rs s) j) as [x|] eqn:Ex; [|discriminate].
    destruct (ch_buf s) as [|v rest]; [|discriminate].
    destruct (cr_pend x && ch_closed s) eqn:E; [|discriminate].
    apply andb_true_iff in E as [Ep _]. inversion Hr; subst; clear Hr. cbn [ch_log ch_ws ch_rs].
    split; [apply (w_keep _ _ _ H1); intro; apply wev0|apply (r_step _ _ _ j x H2 Ex Ep); intro; apply rev1].
  - unfold ch_rdv in Hr. destruct (nth_error (ch_ws s) i) as [w|] eqn:Ew; [|discriminate].
    destruct (nth_error (ch_rs s) j) as [x|] eqn:Ex; [|discriminate].
    destruct (ch_buf s) as [|v rest]; [|discriminate].
    destruct (cw_pend w && cr_pend x) eqn:E; [|discriminate].
    apply andb_true_iff in E as [Epw Epr]. inversion Hr; subst; clear Hr. cbn [ch_log ch_ws ch_rs].
    split.
    + apply (w_step _ _ _ i w H1 Ew Epw). intro i'. cbn [ch_wevents]. rewrite (Nat.eqb_sym i' i). destruct (Nat.eqb i i'); reflexivity.
    + apply (r_step _ _ _ j x H2 Ex Epr). intro j'. cbn [ch_revents]. rewrite (Nat.eqb_sym j' j). destruct (Nat.eqb j j'); reflexivity.
Qed.

Lemma ch_once cap {V} (ls : list (label (cact V))) s : ch_run cap ls = Some s -> ch_once_inv s.
Proof.
  unfold ch_run. apply lrun_inv with (P := ch_once_inv).
  - intros; apply ch_ext_once; assumption.
  - intros; eapply ch_int_once; eassumption.
  - split; intro n; cbn; destruct n; reflexivity.
Qed.

(* membership of the rule instances *)
Lemma ch_rule_in_w {V} (s : chst V) i : (i < length (ch_ws s))%nat -> In (ch_push i) (ch_rules s) /\ In (ch_wctx i) (ch_rules s).
Proof.
  intro H. unfold ch_rules. split; apply in_or_app; left; apply in_flat_map; exists i;
    (split; [apply in_seq; lia|cbn; auto]).
Qed.
Lemma ch_rule_in_r {V} (s : chst V) j : (j < length (ch_rs s))%nat ->
  In (ch_pop j) (ch_rules s) /\ In (ch_rctx j) (ch_rules s) /\ In (ch_rclosed j) (ch_rules s).
Proof.
  intro H. unfold ch_rules. repeat split; apply in_or_app; right; apply in_or_app; left; apply in_flat_map; exists j;
    (split; [apply in_seq; lia|cbn; auto]).
Qed.
Lemma ch_rule_in_rdv {V} (s : chst V) i j : (i < length (ch_ws s))%nat -> (j < length (ch_rs s))%nat -> In (ch_rdv i j) (ch_rules s).
Proof.
  intros Hi Hj. unfold ch_rules. apply in_or_app; right; apply in_or_app; right. apply in_flat_map. exists i.
  split; [apply in_seq; lia|]. apply in_map_iff. exists j. split; [reflexivity|apply in_seq; lia].
Qed.

(* at a quiescent point a call is blocked only if its context is live and the channel gives it no way on *)
Lemma ch_quiescent_writer {V} (s : chst V) i w :
  quiescent ch_rules s -> nth_error (ch_ws s) i = Some w -> cw_pend w = true ->
  cw_done w = false /\ (ch_cap s <= length (ch_buf s))%nat /\
  (ch_buf s = [] -> forall j r, nth_error (ch_rs s) j = Some r -> cr_pend r = false).
Proof.
  intros Hq Ew Hp. pose proof (nth_error_some_lt _ _ _ Ew) as Hi.
  destruct (ch_rule_in_w s i Hi) as [Hpush Hctx].
  repeat split.
  - apply Hq in Hctx. unfold ch_wctx in Hctx. rewrite Ew, Hp in Hctx. destruct (cw_done w); [discriminate|reflexivity].
  - apply Hq in Hpush. unfold ch_push in Hpush. rewrite Ew, Hp in Hpush. cbn [andb] in Hpush.
    destruct (Nat.ltb (length (ch_buf s)) (ch_cap s)) eqn:E; [discriminate|]. apply Nat.ltb_ge in E. exact E.
  - intros Eb j r Er. pose proof (nth_error_some_lt _ _ _ Er) as Hj.
    pose proof (Hq _ (ch_rule_in_rdv s i j Hi Hj)) as Hr. unfold ch_rdv in Hr. rewrite Ew, Er, Eb, Hp in Hr.
    destruct (cr_pend r); [discriminate|reflexivity].
Qed.

Lemma ch_quiescent_reader {V} (s : chst V) j r :
  quiescent ch_rules s -> nth_error (ch_rs s) j = Some r -> cr_pend r = true ->
  cr_done r = false /\ ch_buf s = [] /\ ch_closed s = false.
Proof.
  intros Hq Er Hp. pose proof (nth_error_some_lt _ _ _ Er) as Hj.
  destruct (ch_rule_in_r s j Hj) as (Hpop & Hctx & Hcl).
  assert (Eb : ch_buf s = []).
  { apply Hq in Hpop. unfold ch_pop in Hpop. rewrite Er in Hpop. destruct (ch_buf s); [reflexivity|]. rewrite Hp in Hpop. discriminate. }
  repeat split; [| exact Eb |].
  - apply Hq in Hctx. unfold ch_rctx in Hctx. rewrite Er, Hp in Hctx. destruct (cr_done r); [discriminate|reflexivity].
  - apply Hq in Hcl. unfold ch_rclosed in Hcl. rewrite Er, Eb, Hp in Hcl. destruct (ch_closed s); [discriminate|reflexivity].
Qed.

(* ====================================================================== *)
(* (ii) WebSocket                                                          *)
(* ====================================================================== *)
Lemma ws_frame_results_app {E} (a b : list (wsev E)) : ws_frame_results (a ++ b) = ws_frame_results a ++ ws_frame_results b.
Proof.
  induction a as [|e a IH]; [reflexivity|]. cbn [app ws_frame_results].
  destruct e as [x ok|r]; [exact IH|]. destruct r; cbn [app]; rewrite IH; reflexivity.
Qed.
Lemma ws_written_app {E} (a b : list (wsev E)) : ws_written (a ++ b) = ws_written a ++ ws_written b.
Proof.
  induction a as [|e a IH]; [reflexivity|]. cbn [app ws_written].
  destruct e as [x ok|r]; [destruct ok; cbn [app]; rewrite IH; reflexivity|exact IH].
Qed.
Lemma ws_delivered_app {E} (a b : list (wsev E)) : ws_delivered (a ++ b) = ws_delivered a ++ ws_delivered b.
Proof.
  induction a as [|e a IH]; [reflexivity|]. cbn [app ws_delivered].
  destruct e as [x ok|r]; [exact IH|]. destruct r; cbn [app]; rewrite IH; reflexivity.
Qed.

Lemma ws_classify_result {E F} (dec : F -> option E) f :
  ws_frame_results [WsEvRead (ws_classify dec f)] = [ws_classify dec f].
Proof. unfold ws_classify. destruct (f_bin f); [destruct (dec (f_data f))|]; reflexivity. Qed.

Lemma ws_classify_msg {E F} (dec : F -> option E) f e :
  ws_classify dec f = WsMsg e <-> f_bin f = true /\ dec (f_data f) = Some e.
Proof.
  unfold ws_classify. destruct (f_bin f); [destruct (dec (f_data f)) as [x|]|]; split; intro H;
    try discriminate; try (destruct H; discriminate).
  - inversion H; auto.
  - destruct H as [_ H]. inversion H; reflexivity.
Qed.

Definition ws_inv {E F} (dec : F -> option E) (s : wsst E F) : Prop :=
  map (ws_classify dec) (ws_sent s) = ws_frame_results (ws_log s) ++ map (ws_classify dec) (ws_wire s).

Lemma ws_ext_inv {E F} (enc : E -> F) (dec : F -> option E) s a : ws_inv dec s -> ws_inv dec (ws_ext enc s a).
Proof.
  unfold ws_inv. intro H. destruct a as [e|f| | |]; cbn [ws_ext].
  - destruct (ws_wclosed s); cbn [ws_sent ws_log ws_wire].
    + rewrite ws_frame_results_app. cbn. rewrite app_nil_r. exact H.
    + rewrite ws_frame_results_app, !map_app, H. cbn. rewrite app_nil_r, app_assoc. reflexivity.
  - destruct (ws_wclosed s); cbn [ws_sent ws_log ws_wire]; [exact H|].
    rewrite !map_app, H, app_assoc. reflexivity.
  - destruct (ws_rd s); exact H.
  - destruct (ws_rd s); exact H.
  - exact H.
Qed.

Lemma ws_int_inv {E F} (dec : F -> option E) s r s' :
  ws_inv dec s -> In r (ws_rules dec s) -> r s = Some s' -> ws_inv dec s'.
Proof.
  unfold ws_inv, ws_rules. intros H [<-|[<-|[<-|[]]]] Hr.
  - unfold ws_read in Hr. destruct (ws_rd s); [|discriminate]. destruct (ws_wire s) as [|f rest] eqn:Ew; [discriminate|].
    destruct (ws_rclosed s); [discriminate|]. inversion Hr; subst; clear Hr. cbn [ws_sent ws_log ws_wire].
    rewrite ws_frame_results_app, ws_classify_result, H. cbn [map]. rewrite <- app_assoc. reflexivity.
  - unfold ws_read_ctx in Hr. destruct (ws_rd s) as [[|]|]; try discriminate.
    destruct (ws_rclosed s); [discriminate|]. inversion Hr; subst; clear Hr. cbn [ws_sent ws_log ws_wire].
    rewrite ws_frame_results_app. cbn. rewrite app_nil_r. exact H.
  - unfold ws_read_broken in Hr. destruct (ws_rd s); [|discriminate].
    destruct (ws_rclosed s); [|discriminate]. inversion Hr; subst; clear Hr. cbn [ws_sent ws_log ws_wire].
    rewrite ws_frame_results_app. cbn. rewrite app_nil_r. exact H.
Qed.

Lemma ws_results {E F} (enc : E -> F) (dec : F -> option E) ls s : ws_run enc dec ls = Some s -> ws_inv dec s.
Proof.
  unfold ws_run. apply lrun_inv with (P := ws_inv dec).
  - intros; apply ws_ext_inv; assumption.
  - intros; eapply ws_int_inv; eassumption.
  - reflexivity.
Qed.

(* what was delivered is exactly the messages among the frame results *)
Fixpoint ws_msgs {E} (rs : list (wsres E)) : list E :=
  match rs with
  | [] => []
  | WsMsg e :: t => e :: ws_msgs t
  | _ :: t => ws_msgs t
  end.
Lemma ws_delivered_results {E} (log : list (wsev E)) : ws_delivered log = ws_msgs (ws_frame_results log).
Proof.
  induction log as [|e log IH]; [reflexivity|]. destruct e as [x ok|r]; cbn; [exact IH|].
  destruct r; cbn; rewrite ?IH; reflexivity.
Qed.

(* without injected frames, what is on the wire is the encoding of what was written *)
Definition ws_clean {E F} (okE : E -> bool) (ls : list (label (wsact E F))) : Prop :=
  forall l, In l ls -> match l with
                       | LExt (WsInject _) => False
                       | LExt (WsWrite e) => okE e = true
                       | _ => True
                       end.

Definition ws_sent_inv {E F} (enc : E -> F) (okE : E -> bool) (s : wsst E F) : Prop :=
  ws_sent s = map (fun e => mkFrame true (enc e)) (ws_written (ws_log s)) /\
  Forall (fun e => okE e = true) (ws_written (ws_log s)).

Lemma ws_sent_clean {E F} (enc : E -> F) (dec : F -> option E) okE ls : forall s0 s,
  ws_clean okE ls -> ws_sent_inv enc okE s0 -> lrun (ws_ext enc) (ws_rules dec) s0 ls = Some s -> ws_sent_inv enc okE s.
Proof.
  induction ls as [|l ls IH]; intros s0 s Hc H0 Hrun; cbn [lrun] in Hrun.
  - inversion Hrun; subst; exact H0.
  - assert (Hc' : ws_clean okE ls) by (intros x Hx; apply Hc; right; exact Hx).
    pose proof (Hc l (or_introl eq_refl)) as Hl.
    destruct l as [a|n]; cbn [lstep] in Hrun.
    + eapply IH; [exact Hc'| |exact Hrun].
      destruct H0 as [H1 H2]. unfold ws_sent_inv. destruct a as [e|f| | |]; cbn [ws_ext].
      * destruct (ws_wclosed s0); cbn [ws_sent ws_log]; rewrite ws_written_app; cbn [ws_written].
        -- rewrite app_nil_r. auto.
        -- rewrite map_app, H1. cbn [map]. split; [reflexivity|]. apply Forall_app. split; [exact H2|]. constructor; [exact Hl|constructor].
      * destruct Hl.
      * destruct (ws_rd s0); cbn; auto.
      * destruct (ws_rd s0); cbn; auto.
      * cbn; auto.
    + destruct (nth_error (ws_rules dec s0) n) as [r|] eqn:En; [|discriminate].
      destruct (r s0) as [s1|] eqn:Er; [|discriminate].
      eapply IH; [exact Hc'| |exact Hrun].
      apply nth_error_In in En. destruct H0 as [H1 H2]. unfold ws_sent_inv.
      destruct En as [<-|[<-|[<-|[]]]].
      * unfold ws_read in Er. destruct (ws_rd s0); [|discriminate]. destruct (ws_wire s0); [discriminate|].
        destruct (ws_rclosed s0); [discriminate|]. inversion Er; subst; clear Er. cbn [ws_sent ws_log].
        rewrite ws_written_app. cbn. rewrite app_nil_r. auto.
      * unfold ws_read_ctx in Er. destruct (ws_rd s0) as [[|]|]; try discriminate.
        destruct (ws_rclosed s0); [discriminate|]. inversion Er; subst; clear Er. cbn [ws_sent ws_log].
        rewrite ws_written_app. cbn. rewrite app_nil_r. auto.
      * unfold ws_read_broken in Er. destruct (ws_rd s0); [|discriminate].
        destruct (ws_rclosed s0); [|discriminate]. inversion Er; subst; clear Er. cbn [ws_sent ws_log].
        rewrite ws_written_app. cbn. rewrite app_nil_r. auto.
Qed.

(* Q-form: a Read whose context is done is not left pending; a pending Read has nothing to read *)
Lemma ws_quiescent {E F} (dec : F -> option E) (s : wsst E F) d :
  quiescent (ws_rules dec) s -> ws_rd s = Some d -> d = false /\ ws_wire s = [] /\ ws_rclosed s = false.
Proof.
  intros Hq Hrd.
  assert (Hc : ws_rclosed s = false).
  { pose proof (Hq ws_read_broken) as H. unfold ws_read_broken in H. rewrite Hrd in H.
    destruct (ws_rclosed s); [|reflexivity]. discriminate H. cbn; auto. }
  repeat split; [| |exact Hc].
  - pose proof (Hq ws_read_ctx) as H. unfold ws_read_ctx in H. rewrite Hrd, Hc in H.
    destruct d; [|reflexivity]. discriminate H. cbn; auto.
  - pose proof (Hq (ws_read dec)) as H. unfold ws_read in H. rewrite Hrd, Hc in H.
    destruct (ws_wire s); [reflexivity|]. discriminate H. cbn; auto.
Qed.

(* ====================================================================== *)
(* (iii) HTTP                                                              *)
(* ====================================================================== *)
Lemma tbl_lookup_in a t c : tbl_lookup a t = Some c -> In (a, c) t.
Proof.
  induction t as [|[a' c'] t IH]; cbn [tbl_lookup]; [discriminate|].
  destruct (a =? a') eqn:E.
  - apply Z.eqb_eq in E. subst. intro H. inversion H. left. reflexivity.
  - intro H. right. apply IH, H.
Qed.
Lemma tbl_lookup_none a t : tbl_lookup a t = None -> ~ In a (map fst t).
Proof.
  induction t as [|[a' c'] t IH]; cbn [tbl_lookup map fst]; [tauto|].
  destruct (a =? a') eqn:E; [discriminate|]. apply Z.eqb_neq in E.
  intros H [H1|H1]; [congruence|]. apply IH; assumption.
Qed.
Lemma tbl_in_lookup a c t : NoDup (map fst t) -> In (a, c) t -> tbl_lookup a t = Some c.
Proof.
  induction t as [|[a' c'] t IH]; cbn [tbl_lookup map fst In]; [tauto|].
  intros Hnd [H|H].
  - inversion H; subst. rewrite Z.eqb_refl. reflexivity.
  - inversion Hnd as [|? ? Hni Hnd']; subst.
    destruct (a =? a') eqn:E.
    + apply Z.eqb_eq in E. subst. exfalso. apply Hni. apply in_map_iff. exists (a', c). auto.
    + apply IH; assumption.
Qed.
Lemma tbl_remove_in a t a' c' : In (a', c') (tbl_remove a t) <-> In (a', c') t /\ a' <> a.
Proof.
  unfold tbl_remove. rewrite filter_In. cbn [fst]. rewrite negb_true_iff, Z.eqb_neq. tauto.
Qed.
Lemma tbl_remove_nodup a t : NoDup (map fst t) -> NoDup (map fst (tbl_remove a t)).
Proof.
  induction t as [|[a' c'] t IH]; cbn; [auto|]. intro H. inversion H as [|? ? Hni Hnd]; subst.
  destruct (a' =? a); cbn [negb].
  - apply IH, Hnd.
  - cbn [map fst]. constructor; [|apply IH, Hnd].
    intro Hin. apply Hni. apply in_map_iff in Hin as ([x y] & Hx & Hy). cbn in Hx. subst.
    apply tbl_remove_in in Hy as [Hy _]. apply in_map_iff. exists (a', y). auto.
Qed.

Lemma NoDup_app_snoc {A} (l : list A) x : NoDup l -> ~ In x l -> NoDup (l ++ [x]).
Proof.
  induction l as [|y l IH]; cbn; intros H Hn; [constructor; [tauto|constructor]|].
  inversion H; subst. constructor.
  - rewrite in_app_iff. cbn. intuition.
  - apply IH; tauto.
Qed.

Definition h_tbl_inv {E F} (s : hst E F) : Prop :=
  (forall a c, In (a, c) (hs_tbl s) ->
     exists k, nth_error (hs_conns s) c = Some k /\ c_addr k = a /\ c_closed k = false) /\
  NoDup (map fst (hs_tbl s)) /\ hs_crashed s = false.

Lemma h_tbl_inv_same {E F} (s s' : hst E F) :
  hs_conns s' = hs_conns s -> hs_tbl s' = hs_tbl s -> hs_crashed s' = hs_crashed s -> h_tbl_inv s -> h_tbl_inv s'.
Proof. unfold h_tbl_inv. intros -> -> ->. auto. Qed.

Lemma h_retrieve_inv {E F} (s : hst E F) a s' c fresh :
  h_retrieve s a = (s', c, fresh) -> h_tbl_inv s -> h_tbl_inv s' /\ In (a, c) (hs_tbl s').
Proof.
  unfold h_retrieve. destruct (tbl_lookup a (hs_tbl s)) as [c0|] eqn:El; intro H; inversion H; subst; clear H.
  - intro Hi. split; [exact Hi|apply tbl_lookup_in, El].
  - intros (H1 & H2 & H3). unfold h_tbl_inv. cbn [set_conns hs_conns hs_tbl hs_crashed]. repeat split.
    + intros a' c' Hin. apply in_app_iff in Hin as [Hin|[Hin|[]]].
      * destruct (H1 _ _ Hin) as (k & Hk & Hk'). exists k. split; [|exact Hk'].
        rewrite nth_error_app1; [exact Hk|eapply nth_error_some_lt, Hk].
      * inversion Hin; subst. exists (mkConn a' 0 false). rewrite nth_error_app2, Nat.sub_diag by lia. cbn. auto.
    + rewrite map_app. cbn [map fst]. apply NoDup_app_snoc; [exact H2|apply tbl_lookup_none, El].
    + exact H3.
    + apply in_or_app. right. left. reflexivity.
Qed.

Lemma bump_inv {E F} (s : hst E F) c : h_tbl_inv s -> h_tbl_inv (bump s c).
Proof.
  unfold bump. destruct (nth_error (hs_conns s) c) as [k|] eqn:Ek; [|auto].
  intros (H1 & H2 & H3). unfold h_tbl_inv. cbn [set_conns hs_conns hs_tbl hs_crashed]. repeat split; [|exact H2|exact H3].
  intros a c' Hin. destruct (H1 _ _ Hin) as (k' & Hk' & Ha & Hc). rewrite nth_error_upd.
  destruct (Nat.eqb c c') eqn:Ec.
  - apply Nat.eqb_eq in Ec. subst c'. rewrite Ek in Hk'. inversion Hk'; subst k'.
    replace (Nat.ltb c (length (hs_conns s))) with true
      by (symmetry; apply Nat.ltb_lt; eapply nth_error_some_lt, Ek).
    eexists. split; [reflexivity|]. cbn. auto.
  - exists k'. auto.
Qed.

Lemma h_close_addr_inv {E F} (s : hst E F) a : h_tbl_inv s -> h_tbl_inv (h_close_addr s a).
Proof.
  unfold h_close_addr. destruct (tbl_lookup a (hs_tbl s)) as [c|] eqn:El; [|auto].
  destruct (nth_error (hs_conns s) c) as [k|] eqn:Ek; [|auto].
  intros (H1 & H2 & H3). apply tbl_lookup_in in El.
  destruct (H1 _ _ El) as (k0 & Hk0 & Ha & Hc). rewrite Ek in Hk0. inversion Hk0; subst k0.
  unfold h_tbl_inv. cbn [set_conns hs_conns hs_tbl hs_crashed]. repeat split.
  - intros a' c' Hin. apply tbl_remove_in in Hin as [Hin Hne].
    destruct (H1 _ _ Hin) as (k' & Hk' & Ha' & Hc'). rewrite nth_error_upd.
    destruct (Nat.eqb c c') eqn:Ec.
    + apply Nat.eqb_eq in Ec. subst c'. rewrite Ek in Hk'. inversion Hk'; subst k'. congruence.
    + exists k'. auto.
  - apply tbl_remove_nodup, H2.
  - rewrite H3, Hc. reflexivity.
Qed.

Lemma h_unregister_inv {E F} (s : hst E F) c : h_tbl_inv s -> h_tbl_inv (h_unregister s c).
Proof.
  unfold h_unregister. destruct (nth_error (hs_conns s) c) as [k|]; [|auto].
  destruct (tbl_lookup (c_addr k) (hs_tbl s)) as [c'|]; [|auto].
  destruct (Nat.eqb c c'); [|auto]. apply h_close_addr_inv.
Qed.

Definition clean_step {E F} (st : hst E F) (p : Z * nat) : hst E F :=
  match nth_error (hs_conns st) (snd p) with
  | Some k => if idle st k then h_close_addr st (c_addr k) else st
  | None => st
  end.

Lemma clean_fold_inv {E F} (l : list (Z * nat)) : forall st : hst E F,
  h_tbl_inv st -> h_tbl_inv (fold_left clean_step l st).
Proof.
  induction l as [|p l IH]; intros st H; cbn [fold_left]; [exact H|].
  apply IH. unfold clean_step. destruct (nth_error (hs_conns st) (snd p)) as [k|]; [|exact H].
  destruct (idle st k); [apply h_close_addr_inv, H|exact H].
Qed.

Lemma h_clean_unfold {E F} (s s' : hst E F) :
  h_clean s = Some s' ->
  hs_cl s <> ClDead /\ hs_tick s = true /\
  s' = fold_left clean_step (hs_tbl s) (set_clock s (hs_now s) (hs_next s) false (hs_cl s)).
Proof.
  unfold h_clean. destruct (hs_cl s) eqn:Ec; try discriminate;
    (destruct (hs_tick s); [|discriminate]); intro H; inversion H; (split; [discriminate|split; reflexivity]).
Qed.

Lemma h_rules_cases {E F} (s : hst E F) r :
  In r (h_rules s) ->
  r = h_clean \/ r = h_clexit \/ (exists q, r = h_qclosed q) \/ (exists x, r = h_rclosed x) \/
  (exists x, r = h_rctx x) \/ (exists w, r = h_wctx w) \/ (exists q x, r = h_handoff q x).
Proof.
  unfold h_rules. rewrite !in_app_iff, !in_flat_map. cbn [In].
  intros [[<-|[<-|[]]]|[(q & _ & H)|[(x & _ & H)|[(w & _ & H)|(q & _ & H)]]]]; auto.
  - cbn in H. destruct H as [<-|[]]. eauto 10.
  - cbn in H. destruct H as [<-|[<-|[]]]; eauto 10.
  - cbn in H. destruct H as [<-|[]]. eauto 10.
  - apply in_map_iff in H as (x & <- & _). eauto 12.
Qed.

Lemma h_ext_tbl_inv {E F} (dec : F -> option E) rt (s : hst E F) a : h_tbl_inv s -> h_tbl_inv (h_ext dec rt s a).
Proof.
  intro H. destruct a as [b|a|c d|r|c d|w ok|w|d|]; cbn [h_ext].
  - destruct (http_classify dec rt b) as [why|a e].
    + revert H. apply h_tbl_inv_same; reflexivity.
    + destruct (h_retrieve s a) as [[s1 c] fresh] eqn:Er.
      apply h_retrieve_inv in Er as [Hi _]; [|exact H]. revert Hi. apply h_tbl_inv_same; reflexivity.
  - destruct (h_retrieve s a) as [[s1 c] fresh] eqn:Er. apply h_retrieve_inv in Er as [Hi _]; auto.
  - destruct (Nat.ltb c (length (hs_conns s))); [|exact H]. revert H. apply h_tbl_inv_same; reflexivity.
  - destruct (nth_error (hs_rds s) r); [|exact H]. revert H. apply h_tbl_inv_same; reflexivity.
  - destruct (Nat.ltb c (length (hs_conns s))); [|exact H].
    apply bump_inv with (c := c) in H. revert H. apply h_tbl_inv_same; reflexivity.
  - destruct (nth_error (hs_wrs s) w) as [x|]; [|exact H]. destruct (hw_pend x); [|exact H].
    destruct ok.
    + revert H. apply h_tbl_inv_same; reflexivity.
    + match goal with |- h_tbl_inv (set_wrs ?s2 _ _) => assert (Hi : h_tbl_inv s2) end.
      { apply h_unregister_inv. revert H. apply h_tbl_inv_same; reflexivity. }
      revert Hi. apply h_tbl_inv_same; reflexivity.
  - destruct (nth_error (hs_wrs s) w); [|exact H]. revert H. apply h_tbl_inv_same; reflexivity.
  - destruct ((d <? 0) || (hs_interval s <=? 0)); [exact H|].
    destruct (hs_now s + d <? hs_next s); revert H; apply h_tbl_inv_same; reflexivity.
  - destruct (hs_cl s); exact H.
Qed.

Lemma h_int_tbl_inv {E F} (s : hst E F) r s' : h_tbl_inv s -> In r (h_rules s) -> r s = Some s' -> h_tbl_inv s'.
Proof.
  intros H Hin Hr.
  apply h_rules_cases in Hin as [->|[->|[(q & ->)|[(x & ->)|[(x & ->)|[(w & ->)|(q & x & ->)]]]]]].
  - apply h_clean_unfold in Hr as (_ & _ & ->). apply clean_fold_inv. revert H. apply h_tbl_inv_same; reflexivity.
  - unfold h_clexit in Hr. destruct (hs_cl s); try discriminate. inversion Hr; subst. revert H. apply h_tbl_inv_same; reflexivity.
  - unfold h_qclosed in Hr. destruct (nth_error (hs_reqs s) q) as [[|c e]|]; try discriminate.
    destruct (nth_error (hs_conns s) c) as [k|]; [|discriminate]. destruct (c_closed k); [|discriminate].
    inversion Hr; subst. revert H. apply h_tbl_inv_same; reflexivity.
  - unfold h_rclosed in Hr. destruct (nth_error (hs_rds s) x) as [y|]; [|discriminate].
    destruct (nth_error (hs_conns s) (hr_conn y)) as [k|]; [|discriminate].
    destruct (hr_pend y && c_closed k); [|discriminate].
    inversion Hr; subst. revert H. apply h_tbl_inv_same; reflexivity.
  - unfold h_rctx in Hr. destruct (nth_error (hs_rds s) x) as [y|]; [|discriminate].
    destruct (hr_pend y && hr_done y); [|discriminate].
    inversion Hr; subst. revert H. apply h_tbl_inv_same; reflexivity.
  - unfold h_wctx in Hr. destruct (nth_error (hs_wrs s) w) as [y|]; [|discriminate].
    destruct (hw_pend y && hw_done y); [|discriminate]. inversion Hr; subst; clear Hr.
    match goal with |- h_tbl_inv (set_wrs ?s2 _ _) => assert (Hi : h_tbl_inv s2) end.
    { apply h_unregister_inv. revert H. apply h_tbl_inv_same; reflexivity. }
    revert Hi. apply h_tbl_inv_same; reflexivity.
  - unfold h_handoff in Hr. destruct (nth_error (hs_reqs s) q) as [[|c e]|]; try discriminate.
    destruct (nth_error (hs_rds s) x) as [y|]; [|discriminate].
    destruct (hr_pend y && Nat.eqb (hr_conn y) c); [|discriminate]. inversion Hr; subst; clear Hr.
    apply bump_inv with (c := c) in H. revert H. apply h_tbl_inv_same; reflexivity.
Qed.

Lemma h_init_tbl_inv {E F} iv tmo now : h_tbl_inv (@h_init E F iv tmo now).
Proof. unfold h_tbl_inv, h_init. cbn. repeat split; [tauto|constructor]. Qed.

Lemma h_tbl_invariant {E F} (dec : F -> option E) rt iv tmo now ls s :
  h_run dec rt iv tmo now ls = Some s -> h_tbl_inv s.
Proof.
  unfold h_run. apply lrun_inv with (P := h_tbl_inv).
  - intros; apply h_ext_tbl_inv; assumption.
  - intros; eapply h_int_tbl_inv; eassumption.
  - apply h_init_tbl_inv.
Qed.

(* ---------- connections only grow; their address never changes ---------- *)
Definition conns_ext (cs cs' : list hconn) : Prop :=
  (length cs <= length cs')%nat /\
  forall c k, nth_error cs c = Some k -> exists k', nth_error cs' c = Some k' /\ c_addr k' = c_addr k /\
                                                    (c_closed k = true -> c_closed k' = true).

Lemma conns_ext_refl cs : conns_ext cs cs.
Proof. split; [lia|]. intros c k H. exists k. auto. Qed.
Lemma conns_ext_trans a b c : conns_ext a b -> conns_ext b c -> conns_ext a c.
Proof.
  intros [L1 H1] [L2 H2]. split; [lia|]. intros i k Hk.
  destruct (H1 _ _ Hk) as (k1 & Hk1 & A1 & C1). destruct (H2 _ _ Hk1) as (k2 & Hk2 & A2 & C2).
  exists k2. repeat split; [exact Hk2|congruence|auto].
Qed.
Lemma conns_ext_upd cs c k x :
  nth_error cs c = Some k -> c_addr x = c_addr k -> (c_closed k = true -> c_closed x = true) ->
  conns_ext cs (upd c x cs).
Proof.
  intros Hk Ha Hc. split; [rewrite upd_length; lia|]. intros i ki Hi. rewrite nth_error_upd.
  destruct (Nat.eqb c i) eqn:E.
  - apply Nat.eqb_eq in E. subst i. rewrite Hk in Hi. inversion Hi; subst ki.
    replace (Nat.ltb c (length cs)) with true by (symmetry; apply Nat.ltb_lt; eapply nth_error_some_lt, Hk).
    exists x. auto.
  - exists ki. auto.
Qed.
Lemma conns_ext_snoc cs x : conns_ext cs (cs ++ [x]).
Proof.
  split; [rewrite app_length; cbn; lia|]. intros i k Hk. exists k.
  rewrite nth_error_app1 by (eapply nth_error_some_lt, Hk). auto.
Qed.

(* a step that leaves the call lists alone *)
Definition same_calls {E F} (s s' : hst E F) : Prop :=
  hs_reqs s' = hs_reqs s /\ hs_rds s' = hs_rds s /\ hs_wrs s' = hs_wrs s /\ conns_ext (hs_conns s) (hs_conns s').

Lemma same_calls_refl {E F} (s : hst E F) : same_calls s s.
Proof. unfold same_calls. repeat split; try reflexivity; apply conns_ext_refl. Qed.

Lemma h_retrieve_calls {E F} (s : hst E F) a s' c fresh : h_retrieve s a = (s', c, fresh) -> same_calls s s'.
Proof.
  unfold h_retrieve. destruct (tbl_lookup a (hs_tbl s)); intro H; inversion H; subst; clear H.
  - apply same_calls_refl.
  - unfold same_calls. cbn [set_conns hs_reqs hs_rds hs_wrs hs_conns].
    split; [reflexivity|]. split; [reflexivity|]. split; [reflexivity|]. apply conns_ext_snoc.
Qed.
Lemma bump_calls {E F} (s : hst E F) c : same_calls s (bump s c).
Proof.
  unfold bump. destruct (nth_error (hs_conns s) c) as [k|] eqn:Ek; [|apply same_calls_refl].
  unfold same_calls. cbn [set_conns hs_reqs hs_rds hs_wrs hs_conns].
  split; [reflexivity|]. split; [reflexivity|]. split; [reflexivity|].
  apply (conns_ext_upd _ _ _ _ Ek); cbn; auto.
Qed.
Lemma h_close_addr_calls {E F} (s : hst E F) a : same_calls s (h_close_addr s a).
Proof.
  unfold h_close_addr. destruct (tbl_lookup a (hs_tbl s)) as [c|]; [|apply same_calls_refl].
  destruct (nth_error (hs_conns s) c) as [k|] eqn:Ek; [|apply same_calls_refl].
  unfold same_calls. cbn [set_conns hs_reqs hs_rds hs_wrs hs_conns].
  split; [reflexivity|]. split; [reflexivity|]. split; [reflexivity|].
  apply (conns_ext_upd _ _ _ _ Ek); cbn; auto.
Qed.
Lemma h_unregister_calls {E F} (s : hst E F) c : same_calls s (h_unregister s c).
Proof.
  unfold h_unregister. destruct (nth_error (hs_conns s) c) as [k|]; [|apply same_calls_refl].
  destruct (tbl_lookup (c_addr k) (hs_tbl s)) as [c'|]; [|apply same_calls_refl].
  destruct (Nat.eqb c c'); [apply h_close_addr_calls|apply same_calls_refl].
Qed.
Lemma same_calls_trans {E F} (a b c : hst E F) : same_calls a b -> same_calls b c -> same_calls a c.
Proof.
  intros (A1 & A2 & A3 & A4) (B1 & B2 & B3 & B4).
  split; [congruence|]. split; [congruence|]. split; [congruence|]. apply (conns_ext_trans _ _ _ A4 B4).
Qed.
Lemma clean_fold_calls {E F} (l : list (Z * nat)) : forall st : hst E F, same_calls st (fold_left clean_step l st).
Proof.
  induction l as [|p l IH]; intro st; cbn [fold_left]; [apply same_calls_refl|].
  eapply same_calls_trans; [|apply IH]. unfold clean_step.
  destruct (nth_error (hs_conns st) (snd p)) as [k|]; [|apply same_calls_refl].
  destruct (idle st k); [apply h_close_addr_calls|apply same_calls_refl].
Qed.

(* ---------- the calls refer to existing connections ---------- *)
Definition h_ref_inv {E F} (s : hst E F) : Prop :=
  (forall r x, nth_error (hs_rds s) r = Some x -> (hr_conn x < length (hs_conns s))%nat) /\
  (forall q c e, nth_error (hs_reqs s) q = Some (QHandoff c e) -> (c < length (hs_conns s))%nat) /\
  (forall w x, nth_error (hs_wrs s) w = Some x -> (hw_conn x < length (hs_conns s))%nat).

Lemma h_ref_same {E F} (s s' : hst E F) : same_calls s s' -> h_ref_inv s -> h_ref_inv s'.
Proof.
  intros (A1 & A2 & A3 & [L _]) (R1 & R2 & R3). unfold h_ref_inv. rewrite A1, A2, A3. repeat split.
  - intros r x H. apply R1 in H. lia.
  - intros q c e H. apply R2 in H. lia.
  - intros w x H. apply R3 in H. lia.
Qed.

Lemma nth_error_snoc_inv {A} (l : list A) x n y :
  nth_error (l ++ [x]) n = Some y -> nth_error l n = Some y \/ (n = length l /\ y = x).
Proof.
  rewrite nth_error_snoc. destruct (Nat.ltb n (length l)); [auto|].
  destruct (Nat.eqb n (length l)) eqn:E; [|discriminate]. apply Nat.eqb_eq in E. intro H. inversion H. auto.
Qed.
Lemma nth_error_upd_inv {A} (l : list A) i x n y :
  nth_error (upd i x l) n = Some y -> (n = i /\ y = x) \/ (n <> i /\ nth_error l n = Some y).
Proof.
  rewrite nth_error_upd. destruct (Nat.eqb i n) eqn:E.
  - apply Nat.eqb_eq in E. subst. destruct (Nat.ltb n (length l)); [|discriminate]. intro H. inversion H. auto.
  - apply Nat.eqb_neq in E. intro H. right. split; [congruence|exact H].
Qed.

Lemma h_ext_ref_inv {E F} (dec : F -> option E) rt (s : hst E F) a :
  h_tbl_inv s -> h_ref_inv s -> h_ref_inv (h_ext dec rt s a).
Proof.
  intros HT H. destruct a as [b|a|c d|r|c d|w ok|w|d|]; cbn [h_ext].
  - destruct (http_classify dec rt b) as [why|a e].
    + destruct H as (R1 & R2 & R3). unfold h_ref_inv. cbn [set_reqs hs_rds hs_reqs hs_wrs hs_conns]. repeat split; auto.
      intros q c e Hq. apply nth_error_snoc_inv in Hq as [Hq|[_ Hq]]; [eauto|discriminate].
    + destruct (h_retrieve s a) as [[s1 c] fresh] eqn:Er.
      pose proof (h_retrieve_calls _ _ _ _ _ Er) as Hc. apply (h_ref_same _ _ Hc) in H.
      assert (Hlt : (c < length (hs_conns s1))%nat).
      { destruct (h_retrieve_inv _ _ _ _ _ Er HT) as [(T1 & _) Hin].
        destruct (T1 _ _ Hin) as (k & Hk & _). eapply nth_error_some_lt, Hk. }
      destruct H as (R1 & R2 & R3). unfold h_ref_inv. cbn [set_reqs hs_rds hs_reqs hs_wrs hs_conns]. repeat split; auto.
      intros q c' e' Hq. apply nth_error_snoc_inv in Hq as [Hq|[_ Hq]]; [eauto|]. inversion Hq; subst. exact Hlt.
  - destruct (h_retrieve s a) as [[s1 c] fresh] eqn:Er. apply (h_ref_same s); [eapply h_retrieve_calls, Er|exact H].
  - destruct (Nat.ltb c (length (hs_conns s))) eqn:L; [|exact H]. apply Nat.ltb_lt in L.
    destruct H as (R1 & R2 & R3). unfold h_ref_inv. cbn [set_rds hs_rds hs_reqs hs_wrs hs_conns]. repeat split; auto.
    intros r x Hr. apply nth_error_snoc_inv in Hr as [Hr|[_ Hr]]; [eauto|]. subst x. exact L.
  - destruct (nth_error (hs_rds s) r) as [x|] eqn:Ex; [|exact H].
    destruct H as (R1 & R2 & R3). unfold h_ref_inv. cbn [set_rds hs_rds hs_reqs hs_wrs hs_conns]. repeat split; auto.
    intros r' x' Hr. apply nth_error_upd_inv in Hr as [[_ ->]|[_ Hr]]; [cbn; eauto|eauto].
  - destruct (Nat.ltb c (length (hs_conns s))) eqn:L; [|exact H]. apply Nat.ltb_lt in L.
    pose proof (bump_calls s c) as Hc. apply (h_ref_same _ _ Hc) in H.
    destruct Hc as (_ & _ & Hw & [Hl _]).
    destruct H as (R1 & R2 & R3). unfold h_ref_inv. cbn [set_wrs hs_rds hs_reqs hs_wrs hs_conns]. repeat split; auto.
    intros w x Hx. apply nth_error_snoc_inv in Hx as [Hx|[_ Hx]]; [rewrite <- Hw in Hx; eauto|]. subst x. cbn. lia.
  - destruct (nth_error (hs_wrs s) w) as [x|] eqn:Ex; [|exact H]. destruct (hw_pend x); [|exact H].
    assert (H1 : h_ref_inv (set_wrs s (upd w (mkHW (hw_conn x) (hw_done x) false) (hs_wrs s)) [])).
    { destruct H as (R1 & R2 & R3). unfold h_ref_inv. cbn [set_wrs hs_rds hs_reqs hs_wrs hs_conns]. repeat split; auto.
      intros w' x' Hw. apply nth_error_upd_inv in Hw as [[_ ->]|[_ Hw]]; [cbn; eauto|eauto]. }
    destruct ok; [exact H1|].
    apply (h_ref_same _ _ (h_unregister_calls _ (hw_conn x))) in H1. exact H1.
  - destruct (nth_error (hs_wrs s) w) as [x|] eqn:Ex; [|exact H].
    destruct H as (R1 & R2 & R3). unfold h_ref_inv. cbn [set_wrs hs_rds hs_reqs hs_wrs hs_conns]. repeat split; auto.
    intros w' x' Hw. apply nth_error_upd_inv in Hw as [[_ ->]|[_ Hw]]; [cbn; eauto|eauto].
  - destruct ((d <? 0) || (hs_interval s <=? 0)); [exact H|]. destruct (hs_now s + d <? hs_next s); exact H.
  - destruct (hs_cl s); exact H.
Qed.

Lemma h_ref_upd_req {E F} (s : hst E F) q evs : h_ref_inv s -> h_ref_inv (set_reqs s (upd q QDone (hs_reqs s)) evs).
Proof.
  intros (R1 & R2 & R3). unfold h_ref_inv. cbn [set_reqs hs_rds hs_reqs hs_wrs hs_conns]. repeat split; auto.
  intros q' c e Hq. apply nth_error_upd_inv in Hq as [[_ Hq]|[_ Hq]]; [discriminate|eauto].
Qed.
Lemma h_ref_upd_rd {E F} (s : hst E F) r x d p evs :
  nth_error (hs_rds s) r = Some x -> h_ref_inv s -> h_ref_inv (set_rds s (upd r (mkHR (hr_conn x) d p) (hs_rds s)) evs).
Proof.
  intros Ex (R1 & R2 & R3). unfold h_ref_inv. cbn [set_rds hs_rds hs_reqs hs_wrs hs_conns]. repeat split; auto.
  intros r' x' Hr. apply nth_error_upd_inv in Hr as [[_ ->]|[_ Hr]]; [cbn; eauto|eauto].
Qed.
Lemma h_ref_upd_wr {E F} (s : hst E F) w x d p evs :
  nth_error (hs_wrs s) w = Some x -> h_ref_inv s -> h_ref_inv (set_wrs s (upd w (mkHW (hw_conn x) d p) (hs_wrs s)) evs).
Proof.
  intros Ex (R1 & R2 & R3). unfold h_ref_inv. cbn [set_wrs hs_rds hs_reqs hs_wrs hs_conns]. repeat split; auto.
  intros w' x' Hw. apply nth_error_upd_inv in Hw as [[_ ->]|[_ Hw]]; [cbn; eauto|eauto].
Qed.

Lemma h_int_ref_inv {E F} (s : hst E F) r s' : h_ref_inv s -> In r (h_rules s) -> r s = Some s' -> h_ref_inv s'.
Proof.
  intros H Hin Hr.
  apply h_rules_cases in Hin as [->|[->|[(q & ->)|[(x & ->)|[(x & ->)|[(w & ->)|(q & x & ->)]]]]]].
  - apply h_clean_unfold in Hr as (_ & _ & ->).
    eapply h_ref_same; [apply clean_fold_calls|]. exact H.
  - unfold h_clexit in Hr. destruct (hs_cl s); try discriminate. inversion Hr; subst. exact H.
  - unfold h_qclosed in Hr. destruct (nth_error (hs_reqs s) q) as [[|c e]|]; try discriminate.
    destruct (nth_error (hs_conns s) c) as [k|]; [|discriminate]. destruct (c_closed k); [|discriminate].
    inversion Hr; subst. apply h_ref_upd_req, H.
  - unfold h_rclosed in Hr. destruct (nth_error (hs_rds s) x) as [y|] eqn:Ey; [|discriminate].
    destruct (nth_error (hs_conns s) (hr_conn y)) as [k|]; [|discriminate].
    destruct (hr_pend y && c_closed k); [|discriminate].
    inversion Hr; subst. apply (h_ref_upd_rd _ _ _ _ _ _ Ey H).
  - unfold h_rctx in Hr. destruct (nth_error (hs_rds s) x) as [y|] eqn:Ey; [|discriminate].
    destruct (hr_pend y && hr_done y); [|discriminate].
    inversion Hr; subst. apply (h_ref_upd_rd _ _ _ _ _ _ Ey H).
  - unfold h_wctx in Hr. destruct (nth_error (hs_wrs s) w) as [y|] eqn:Ey; [|discriminate].
    destruct (hw_pend y && hw_done y); [|discriminate]. inversion Hr; subst; clear Hr.
    pose proof (h_ref_upd_wr _ _ _ (hw_done y) false [] Ey H) as H1.
    apply (h_ref_same _ _ (h_unregister_calls _ (hw_conn y))) in H1. exact H1.
  - unfold h_handoff in Hr. destruct (nth_error (hs_reqs s) q) as [[|c e]|]; try discriminate.
    destruct (nth_error (hs_rds s) x) as [y|] eqn:Ey; [|discriminate].
    destruct (hr_pend y && Nat.eqb (hr_conn y) c); [|discriminate]. inversion Hr; subst; clear Hr.
    pose proof (bump_calls s c) as Hc. apply (h_ref_same _ _ Hc) in H.
    destruct Hc as (_ & Hrd & _ & _).
    apply (h_ref_upd_req _ q []) in H.
    match goal with |- h_ref_inv (set_rds ?s2 _ _) => change (hs_rds s2) with (hs_rds (bump s c)) end.
    rewrite Hrd.
    assert (Ey' : nth_error (hs_rds (set_reqs (bump s c) (upd q QDone (hs_reqs (bump s c))) [])) x = Some y)
      by (cbn [set_reqs hs_rds]; rewrite Hrd; exact Ey).
    pose proof (h_ref_upd_rd _ _ _ (hr_done y) false [HEvDeliver q c x; HEvResp q 200; HEvRead x (HROk e)] Ey' H) as H2.
    cbn [set_reqs hs_rds] in H2. rewrite Hrd in H2. exact H2.
Qed.

Definition h_inv {E F} (s : hst E F) : Prop := h_tbl_inv s /\ h_ref_inv s.

Lemma h_invariant {E F} (dec : F -> option E) rt iv tmo now ls s :
  h_run dec rt iv tmo now ls = Some s -> h_inv s.
Proof.
  unfold h_run. apply lrun_inv with (P := h_inv).
  - intros s0 a [HT HR]. split; [apply h_ext_tbl_inv, HT|apply h_ext_ref_inv; assumption].
  - intros s0 r s1 [HT HR] Hin Hr. split; [eapply h_int_tbl_inv; eassumption|eapply h_int_ref_inv; eassumption].
  - split; [apply h_init_tbl_inv|]. unfold h_ref_inv, h_init. cbn.
    repeat split; intros n; intros; destruct n; discriminate.
Qed.

(* ---------- rule membership ---------- *)
Lemma h_rule_in_fixed {E F} (s : hst E F) : In h_clean (h_rules s) /\ In h_clexit (h_rules s).
Proof. unfold h_rules. cbn; auto. Qed.
Lemma h_rule_in_q {E F} (s : hst E F) q : (q < length (hs_reqs s))%nat -> In (h_qclosed q) (h_rules s).
Proof.
  intro H. unfold h_rules. apply in_or_app; right. apply in_or_app; left.
  apply in_flat_map. exists q. split; [apply in_seq; lia|cbn; auto].
Qed.
Lemma h_rule_in_r {E F} (s : hst E F) r : (r < length (hs_rds s))%nat -> In (h_rclosed r) (h_rules s) /\ In (h_rctx r) (h_rules s).
Proof.
  intro H. unfold h_rules. split; apply in_or_app; right; apply in_or_app; right; apply in_or_app; left;
    apply in_flat_map; exists r; (split; [apply in_seq; lia|cbn; auto]).
Qed.
Lemma h_rule_in_w {E F} (s : hst E F) w : (w < length (hs_wrs s))%nat -> In (h_wctx w) (h_rules s).
Proof.
  intro H. unfold h_rules. apply in_or_app; right; apply in_or_app; right; apply in_or_app; right; apply in_or_app; left.
  apply in_flat_map. exists w. split; [apply in_seq; lia|cbn; auto].
Qed.
Lemma h_rule_in_handoff {E F} (s : hst E F) q r :
  (q < length (hs_reqs s))%nat -> (r < length (hs_rds s))%nat -> In (h_handoff q r) (h_rules s).
Proof.
  intros Hq Hr. unfold h_rules. do 4 (apply in_or_app; right).
  apply in_flat_map. exists q. split; [apply in_seq; lia|]. apply in_map_iff. exists r. split; [reflexivity|apply in_seq; lia].
Qed.

(* ---------- Q-form: what can be blocked at a quiescent point ---------- *)
Lemma h_quiescent_reader {E F} (s : hst E F) r x :
  quiescent h_rules s -> h_ref_inv s -> nth_error (hs_rds s) r = Some x -> hr_pend x = true ->
  hr_done x = false /\
  (exists k, nth_error (hs_conns s) (hr_conn x) = Some k /\ c_closed k = false) /\
  (forall q e, nth_error (hs_reqs s) q <> Some (QHandoff (hr_conn x) e)).
Proof.
  intros Hq (R1 & _ & _) Ex Hp. pose proof (nth_error_some_lt _ _ _ Ex) as Hr.
  destruct (h_rule_in_r s r Hr) as [Hcl Hctx].
  assert (Hk : exists k, nth_error (hs_conns s) (hr_conn x) = Some k).
  { destruct (nth_error (hs_conns s) (hr_conn x)) as [k|] eqn:Ek; [eauto|].
    apply nth_error_None in Ek. apply R1 in Ex. lia. }
  destruct Hk as (k & Ek). repeat split.
  - apply Hq in Hctx. unfold h_rctx in Hctx. rewrite Ex, Hp in Hctx. destruct (hr_done x); [discriminate|reflexivity].
  - exists k. split; [exact Ek|]. apply Hq in Hcl. unfold h_rclosed in Hcl. rewrite Ex, Ek, Hp in Hcl.
    destruct (c_closed k); [discriminate|reflexivity].
  - intros q e Eq. pose proof (nth_error_some_lt _ _ _ Eq) as Hlq.
    pose proof (Hq _ (h_rule_in_handoff s q r Hlq Hr)) as Hh. unfold h_handoff in Hh.
    rewrite Eq, Ex, Hp, Nat.eqb_refl in Hh. discriminate.
Qed.

Lemma h_quiescent_request {E F} (s : hst E F) q c e :
  quiescent h_rules s -> h_ref_inv s -> nth_error (hs_reqs s) q = Some (QHandoff c e) ->
  (exists k, nth_error (hs_conns s) c = Some k /\ c_closed k = false) /\
  (forall r x, nth_error (hs_rds s) r = Some x -> hr_pend x = true -> hr_conn x <> c).
Proof.
  intros Hq (_ & R2 & _) Eq. pose proof (nth_error_some_lt _ _ _ Eq) as Hlq.
  assert (Hk : exists k, nth_error (hs_conns s) c = Some k).
  { destruct (nth_error (hs_conns s) c) as [k|] eqn:Ek; [eauto|]. apply nth_error_None in Ek. apply R2 in Eq. lia. }
  destruct Hk as (k & Ek). split.
  - exists k. split; [exact Ek|]. pose proof (Hq _ (h_rule_in_q s q Hlq)) as Hc. unfold h_qclosed in Hc.
    rewrite Eq, Ek in Hc. destruct (c_closed k); [discriminate|reflexivity].
  - intros r x Ex Hp Hc. pose proof (nth_error_some_lt _ _ _ Ex) as Hr.
    pose proof (Hq _ (h_rule_in_handoff s q r Hlq Hr)) as Hh. unfold h_handoff in Hh.
    rewrite Eq, Ex, Hp, Hc, Nat.eqb_refl in Hh. discriminate.
Qed.

Lemma h_quiescent_writer {E F} (s : hst E F) w x :
  quiescent h_rules s -> nth_error (hs_wrs s) w = Some x -> hw_pend x = true -> hw_done x = false.
Proof.
  intros Hq Ex Hp. pose proof (Hq _ (h_rule_in_w s w (nth_error_some_lt _ _ _ Ex))) as H.
  unfold h_wctx in H. rewrite Ex, Hp in H. destruct (hw_done x); [discriminate|reflexivity].
Qed.

Lemma h_quiescent_cleaner {E F} (s : hst E F) :
  quiescent h_rules s -> hs_cl s <> ClStopping /\ (hs_tick s = true -> hs_cl s = ClDead).
Proof.
  intro Hq. destruct (h_rule_in_fixed s) as [Hc He]. split.
  - apply Hq in He. unfold h_clexit in He. destruct (hs_cl s); try discriminate; congruence.
  - intro Ht. apply Hq in Hc. unfold h_clean in Hc. rewrite Ht in Hc. destruct (hs_cl s); try discriminate. reflexivity.
Qed.

(* ---------- what one cleaner pass does ---------- *)
Lemma idle_same {E F} (s s' : hst E F) k : hs_timeout s' = hs_timeout s -> hs_now s' = hs_now s -> idle s' k = idle s k.
Proof. unfold idle. intros -> ->. reflexivity. Qed.

Lemma h_close_addr_clock {E F} (s : hst E F) a :
  hs_timeout (h_close_addr s a) = hs_timeout s /\ hs_now (h_close_addr s a) = hs_now s.
Proof.
  unfold h_close_addr. destruct (tbl_lookup a (hs_tbl s)) as [c|]; [|auto].
  destruct (nth_error (hs_conns s) c); auto.
Qed.
Lemma clean_step_clock {E F} (s : hst E F) p :
  hs_timeout (clean_step s p) = hs_timeout s /\ hs_now (clean_step s p) = hs_now s.
Proof.
  unfold clean_step. destruct (nth_error (hs_conns s) (snd p)) as [k|]; [|auto].
  destruct (idle s k); [apply h_close_addr_clock|auto].
Qed.

(* closing the address of a registered connection *)
Lemma h_close_addr_effect {E F} (s : hst E F) a c k :
  h_tbl_inv s -> In (a, c) (hs_tbl s) -> nth_error (hs_conns s) c = Some k ->
  hs_tbl (h_close_addr s a) = tbl_remove a (hs_tbl s) /\
  hs_conns (h_close_addr s a) = upd c (mkConn (c_addr k) (c_last k) true) (hs_conns s).
Proof.
  intros (H1 & H2 & H3) Hin Hk. unfold h_close_addr.
  rewrite (tbl_in_lookup _ _ _ H2 Hin), Hk. cbn [set_conns hs_tbl hs_conns]. auto.
Qed.

Lemma tbl_remove_sub a t p : In p (tbl_remove a t) -> In p t.
Proof. destruct p. intro H. apply tbl_remove_in in H. tauto. Qed.

Lemma clean_step_tbl_sub {E F} (s : hst E F) p0 p : In p (hs_tbl (clean_step s p0)) -> In p (hs_tbl s).
Proof.
  unfold clean_step. destruct (nth_error (hs_conns s) (snd p0)) as [k|]; [|auto].
  destruct (idle s k); [|auto]. unfold h_close_addr.
  destruct (tbl_lookup (c_addr k) (hs_tbl s)) as [c|]; [|auto].
  destruct (nth_error (hs_conns s) c); [|auto]. cbn [set_conns hs_tbl]. apply tbl_remove_sub.
Qed.
Lemma clean_fold_tbl_sub {E F} l : forall (s : hst E F) p, In p (hs_tbl (fold_left clean_step l s)) -> In p (hs_tbl s).
Proof.
  induction l as [|p0 l IH]; intros s p H; cbn [fold_left] in H; [exact H|].
  apply IH in H. eapply clean_step_tbl_sub, H.
Qed.

Lemma clean_fold_closed {E F} l : forall (s : hst E F) c k,
  nth_error (hs_conns s) c = Some k -> c_closed k = true ->
  exists k', nth_error (hs_conns (fold_left clean_step l s)) c = Some k' /\ c_closed k' = true.
Proof.
  intros s c k Hk Hc. destruct (clean_fold_calls l s) as (_ & _ & _ & [_ Hx]).
  destruct (Hx _ _ Hk) as (k' & Hk' & _ & Hc'). exists k'. auto.
Qed.

Lemma clean_fold_effect {E F} l : forall (s : hst E F),
  h_tbl_inv s -> incl l (hs_tbl s) -> NoDup (map fst l) ->
  (forall a c k, In (a, c) l -> nth_error (hs_conns s) c = Some k -> idle s k = true ->
     ~ In a (map fst (hs_tbl (fold_left clean_step l s))) /\
     exists k', nth_error (hs_conns (fold_left clean_step l s)) c = Some k' /\ c_closed k' = true) /\
  (forall a c k, In (a, c) (hs_tbl s) -> nth_error (hs_conns s) c = Some k -> idle s k = false ->
     In (a, c) (hs_tbl (fold_left clean_step l s))).
Proof.
  induction l as [|[a0 c0] l IH]; intros s Hinv Hincl Hnd.
  - cbn [fold_left]. split; [intros a c k []|auto].
  - cbn [fold_left].
    assert (Hin0 : In (a0, c0) (hs_tbl s)) by (apply Hincl; left; reflexivity).
    pose proof Hinv as (T1 & T2 & T3).
    destruct (T1 _ _ Hin0) as (k0 & Hk0 & Ha0 & Hc0).
    cbn [map fst] in Hnd. apply NoDup_cons_iff in Hnd as [Hni Hnd'].
    set (s1 := clean_step s (a0, c0)).
    assert (Hinv1 : h_tbl_inv s1).
    { unfold s1, clean_step. cbn [snd]. rewrite Hk0. destruct (idle s k0); [apply h_close_addr_inv, Hinv|exact Hinv]. }
    destruct (clean_step_clock s (a0, c0)) as [Ct Cn]. fold s1 in Ct, Cn.
    (* the other entries keep their place and their connection *)
    assert (Hkeep : forall a c, In (a, c) (hs_tbl s) -> a <> a0 ->
                      In (a, c) (hs_tbl s1) /\ nth_error (hs_conns s1) c = nth_error (hs_conns s) c).
    { intros a c Hin Hne. unfold s1, clean_step. cbn [snd]. rewrite Hk0.
      destruct (idle s k0); [|auto].
      destruct (h_close_addr_effect s (c_addr k0) c0 k0 Hinv) as [-> ->]; [rewrite Ha0; exact Hin0|exact Hk0|].
      split; [apply tbl_remove_in; split; [exact Hin|congruence]|].
      apply nth_error_upd_neq. intro Hc. subst c.
      destruct (T1 _ _ Hin) as (k' & Hk' & Ha' & _). congruence. }
    assert (Hincl1 : incl l (hs_tbl s1)).
    { intros [a c] Hin. apply Hkeep; [apply Hincl; right; exact Hin|].
      intro Heq. subst a. apply Hni. apply in_map_iff. exists (a0, c). auto. }
    destruct (IH s1 Hinv1 Hincl1 Hnd') as [IH1 IH2]. split.
    + intros a c k [Heq|Hin] Hk Hidle.
      * inversion Heq; subst a c. rewrite Hk0 in Hk. inversion Hk; subst k.
        assert (Hs1 : hs_tbl s1 = tbl_remove a0 (hs_tbl s) /\
                      hs_conns s1 = upd c0 (mkConn (c_addr k0) (c_last k0) true) (hs_conns s)).
        { unfold s1, clean_step. cbn [snd]. rewrite Hk0, Hidle. rewrite <- Ha0 at 1.
          apply (h_close_addr_effect s (c_addr k0) c0 k0 Hinv); [rewrite Ha0; exact Hin0|exact Hk0]. }
        destruct Hs1 as [Et Ec]. split.
        -- intro Hin. apply in_map_iff in Hin as ([a' c'] & Ha' & Hin'). cbn in Ha'. subst a'.
           apply clean_fold_tbl_sub in Hin'. rewrite Et in Hin'. apply tbl_remove_in in Hin' as [_ Hne]. congruence.
        -- apply (clean_fold_closed l s1 c0 (mkConn (c_addr k0) (c_last k0) true)); [|reflexivity].
           rewrite Ec. apply nth_error_upd_eq. eapply nth_error_some_lt, Hk0.
      * assert (Hne : a <> a0).
        { intro Heq. subst a. apply Hni. apply in_map_iff. exists (a0, c). auto. }
        destruct (Hkeep a c (Hincl _ (or_intror Hin)) Hne) as [_ Hsame].
        apply (IH1 a c k Hin); [rewrite Hsame; exact Hk|].
        rewrite (idle_same s s1 k Ct Cn). exact Hidle.
    + intros a c k Hin Hk Hidle.
      destruct (Z.eq_dec a a0) as [Heq|Hne].
      * subst a.
        pose proof (tbl_in_lookup _ _ _ T2 Hin) as E1. pose proof (tbl_in_lookup _ _ _ T2 Hin0) as E2.
        rewrite E1 in E2. inversion E2; subst c.
        rewrite Hk0 in Hk. inversion Hk; subst k.
        assert (Es : s1 = s) by (unfold s1, clean_step; cbn [snd]; rewrite Hk0, Hidle; reflexivity).
        apply (IH2 a0 c0 k0); rewrite ?Es; assumption.
      * destruct (Hkeep a c Hin Hne) as [Hin1 Hsame].
        apply (IH2 a c k Hin1); [rewrite Hsame; exact Hk|].
        rewrite (idle_same s s1 k Ct Cn). exact Hidle.
Qed.

(* one pass of the cleaner: every registered connection that has been idle for
   at least the timeout is unregistered and its done channel closed; every other
   registered connection stays registered (and open) *)
Lemma h_clean_effect {E F} (s s' : hst E F) :
  h_tbl_inv s -> h_clean s = Some s' ->
  forall a c k, In (a, c) (hs_tbl s) -> nth_error (hs_conns s) c = Some k ->
    (idle s k = true ->
       ~ In a (map fst (hs_tbl s')) /\ exists k', nth_error (hs_conns s') c = Some k' /\ c_closed k' = true) /\
    (idle s k = false ->
       In (a, c) (hs_tbl s') /\ exists k', nth_error (hs_conns s') c = Some k' /\ c_closed k' = false).
Proof.
  intros Hinv Hc a c k Hin Hk. apply h_clean_unfold in Hc as (_ & _ & ->).
  set (s0 := set_clock s (hs_now s) (hs_next s) false (hs_cl s)).
  assert (Hinv0 : h_tbl_inv s0) by exact Hinv.
  destruct (clean_fold_effect (hs_tbl s) s0 Hinv0) as [C1 C2]; [apply incl_refl|apply Hinv|].
  split; intro Hidle.
  - apply (C1 a c k Hin Hk Hidle).
  - pose proof (C2 a c k Hin Hk Hidle) as Hin'. split; [exact Hin'|].
    pose proof (clean_fold_inv (hs_tbl s) s0 Hinv0) as (T1 & _).
    destruct (T1 _ _ Hin') as (k' & Hk' & _ & Hc'). exists k'. auto.
Qed.

(* ---------- the history of requests ---------- *)
Definition conn_at {E F} (s : hst E F) (c : nat) (a : Z) : Prop :=
  exists k, nth_error (hs_conns s) c = Some k /\ c_addr k = a.

Fixpoint nresp {E F} (q : nat) (log : list (hev E F)) : nat :=
  match log with
  | [] => O
  | HEvResp q' _ :: t => (if Nat.eqb q q' then 1 else 0) + nresp q t
  | _ :: t => nresp q t
  end.
Fixpoint ndeliv {E F} (q : nat) (log : list (hev E F)) : nat :=
  match log with
  | [] => O
  | HEvDeliver q' _ _ :: t => (if Nat.eqb q q' then 1 else 0) + ndeliv q t
  | _ :: t => ndeliv q t
  end.
Fixpoint announced {E F} (log : list (hev E F)) : list nat :=
  match log with
  | [] => []
  | HEvAnnounce _ c :: t => c :: announced t
  | _ :: t => announced t
  end.

Lemma nresp_app {E F} q (a b : list (hev E F)) : nresp q (a ++ b) = (nresp q a + nresp q b)%nat.
Proof. induction a as [|e a IH]; [reflexivity|]. cbn [app nresp]. destruct e; rewrite IH; lia. Qed.
Lemma ndeliv_app {E F} q (a b : list (hev E F)) : ndeliv q (a ++ b) = (ndeliv q a + ndeliv q b)%nat.
Proof. induction a as [|e a IH]; [reflexivity|]. cbn [app ndeliv]. destruct e; rewrite IH; lia. Qed.
Lemma announced_app {E F} (a b : list (hev E F)) : announced (a ++ b) = announced a ++ announced b.
Proof. induction a as [|e a IH]; [reflexivity|]. cbn [app announced]. destruct e; rewrite IH; reflexivity. Qed.

(* events that say nothing about requests, deliveries and announcements *)
Definition quiet_ev {E F} (e : hev E F) : bool :=
  match e with
  | HEvRead _ (HROk _) => false
  | HEvRead _ _ | HEvWrite _ _ | HEvRemoved _ => true
  | _ => false
  end.
Definition quiet_evs {E F} (evs : list (hev E F)) : Prop := forall e, In e evs -> quiet_ev e = true.

Lemma quiet_nresp {E F} q (evs : list (hev E F)) : quiet_evs evs -> nresp q evs = O.
Proof.
  induction evs as [|e evs IH]; intro H; [reflexivity|].
  pose proof (H e (or_introl eq_refl)) as He. cbn [nresp].
  destruct e; try discriminate He; apply IH; intros x Hx; apply H; right; exact Hx.
Qed.
Lemma quiet_ndeliv {E F} q (evs : list (hev E F)) : quiet_evs evs -> ndeliv q evs = O.
Proof.
  induction evs as [|e evs IH]; intro H; [reflexivity|].
  pose proof (H e (or_introl eq_refl)) as He. cbn [ndeliv].
  destruct e; try discriminate He; apply IH; intros x Hx; apply H; right; exact Hx.
Qed.
Lemma quiet_announced {E F} (evs : list (hev E F)) : quiet_evs evs -> announced evs = [].
Proof.
  induction evs as [|e evs IH]; intro H; [reflexivity|].
  pose proof (H e (or_introl eq_refl)) as He. cbn [announced].
  destruct e; try discriminate He; apply IH; intros x Hx; apply H; right; exact Hx.
Qed.
Lemma quiet_app {E F} (a b : list (hev E F)) : quiet_evs a -> quiet_evs b -> quiet_evs (a ++ b).
Proof. intros Ha Hb e He. apply in_app_iff in He as [He|He]; auto. Qed.

Definition h_log_inv {E F} (dec : F -> option E) (rt : E -> route) (s : hst E F) : Prop :=
  let log := hs_log s in
  (forall q b, In (HEvReq q b) log -> (q < length (hs_reqs s))%nat) /\
  (forall q b b', In (HEvReq q b) log -> In (HEvReq q b') log -> b = b') /\
  (forall q, nresp q log = match nth_error (hs_reqs s) q with Some QDone => 1%nat | _ => O end) /\
  (forall q, (ndeliv q log <= nresp q log)%nat) /\
  (forall q code, In (HEvResp q code) log ->
     exists b, In (HEvReq q b) log /\
               match http_classify dec rt b with V400 _ => code = 400 | VDeliver _ _ => code = 200 \/ code = 503 end) /\
  (forall q b why, In (HEvReq q b) log -> http_classify dec rt b = V400 why -> In (HEvResp q 400) log) /\
  (forall q c e, nth_error (hs_reqs s) q = Some (QHandoff c e) ->
     exists b a, In (HEvReq q b) log /\ http_classify dec rt b = VDeliver a e /\ conn_at s c a) /\
  (forall q c r, In (HEvDeliver q c r) log ->
     In (HEvResp q 200) log /\
     exists b a e, In (HEvReq q b) log /\ http_classify dec rt b = VDeliver a e /\ conn_at s c a /\
                   In (HEvRead r (HROk e)) log) /\
  (forall a c, In (HEvAnnounce a c) log -> conn_at s c a) /\
  NoDup (announced log).

(* a step that leaves the requests alone and logs only quiet events *)
Definition quiet_step {E F} (s s' : hst E F) : Prop :=
  hs_reqs s' = hs_reqs s /\ conns_ext (hs_conns s) (hs_conns s') /\
  exists evs, hs_log s' = hs_log s ++ evs /\ quiet_evs evs.

Lemma quiet_step_refl {E F} (s : hst E F) : quiet_step s s.
Proof. split; [reflexivity|]. split; [apply conns_ext_refl|]. exists []. rewrite app_nil_r. split; [reflexivity|intros e []]. Qed.
Lemma quiet_step_trans {E F} (a b c : hst E F) : quiet_step a b -> quiet_step b c -> quiet_step a c.
Proof.
  intros (A1 & A2 & e1 & A3 & A4) (B1 & B2 & e2 & B3 & B4).
  split; [congruence|]. split; [eapply conns_ext_trans; eassumption|].
  exists (e1 ++ e2). rewrite B3, A3, app_assoc. split; [reflexivity|apply quiet_app; assumption].
Qed.

Lemma conn_at_ext {E F} (s s' : hst E F) c a : conns_ext (hs_conns s) (hs_conns s') -> conn_at s c a -> conn_at s' c a.
Proof. intros [_ H] (k & Hk & Ha). destruct (H _ _ Hk) as (k' & Hk' & Ha' & _). exists k'. split; [exact Hk'|congruence]. Qed.

Lemma quiet_in {E F} (log evs : list (hev E F)) e : quiet_evs evs -> quiet_ev e = false -> In e (log ++ evs) -> In e log.
Proof. intros Hq He Hin. apply in_app_iff in Hin as [Hin|Hin]; [exact Hin|]. apply Hq in Hin. congruence. Qed.

Lemma h_log_inv_quiet {E F} (dec : F -> option E) rt (s s' : hst E F) :
  quiet_step s s' -> h_log_inv dec rt s -> h_log_inv dec rt s'.
Proof.
  intros (Hr & Hc & evs & Hl & Hq) (L1 & L2 & L3 & L4 & L5 & L6 & L7 & L8 & A1 & A2).
  unfold h_log_inv. rewrite Hl, Hr.
  assert (Hin : forall e, quiet_ev e = false -> In e (hs_log s ++ evs) -> In e (hs_log s))
    by (intros e He; apply quiet_in; assumption).
  repeat split.
  - intros q b H. apply Hin in H; [eauto|reflexivity].
  - intros q b b' H H'. apply Hin in H; [|reflexivity]. apply Hin in H'; [eauto|reflexivity].
  - intro q. rewrite nresp_app, (quiet_nresp q evs Hq), L3. lia.
  - intro q. rewrite nresp_app, ndeliv_app, (quiet_nresp q evs Hq), (quiet_ndeliv q evs Hq). specialize (L4 q). lia.
  - intros q code H. apply Hin in H; [|reflexivity]. destruct (L5 _ _ H) as (b & Hb & Hm). exists b. split; [apply in_or_app; auto|exact Hm].
  - intros q b why H Hcl. apply Hin in H; [|reflexivity]. apply in_or_app. left. eapply L6; eassumption.
  - intros q c e H. destruct (L7 _ _ _ H) as (b & a & Hb & Hcl & Hca). exists b, a.
    split; [apply in_or_app; auto|]. split; [exact Hcl|eapply conn_at_ext; eassumption].
  - apply Hin in H; [|reflexivity]. apply in_or_app. left. apply (L8 _ _ _ H).
  - apply Hin in H; [|reflexivity]. destruct (L8 _ _ _ H) as (_ & b & a & e & Hb & Hcl & Hca & Hrd).
    exists b, a, e. repeat split; [apply in_or_app; auto|exact Hcl|eapply conn_at_ext; eassumption|apply in_or_app; auto].
  - intros a c H. apply Hin in H; [|reflexivity]. eapply conn_at_ext; [exact Hc|apply A1, H].
  - rewrite announced_app, (quiet_announced evs Hq), app_nil_r. exact A2.
Qed.

(* the primitive updates are quiet *)
Lemma quiet_step_same {E F} (s s' : hst E F) :
  hs_reqs s' = hs_reqs s -> hs_conns s' = hs_conns s -> hs_log s' = hs_log s -> quiet_step s s'.
Proof.
  intros H1 H2 H3. split; [exact H1|]. rewrite H2. split; [apply conns_ext_refl|].
  exists []. rewrite app_nil_r. split; [exact H3|intros e []].
Qed.
Lemma quiet_step_evs {E F} (s s' : hst E F) evs :
  hs_reqs s' = hs_reqs s -> hs_conns s' = hs_conns s -> hs_log s' = hs_log s ++ evs -> quiet_evs evs -> quiet_step s s'.
Proof.
  intros H1 H2 H3 H4. split; [exact H1|]. rewrite H2. split; [apply conns_ext_refl|]. exists evs. auto.
Qed.

Lemma h_retrieve_quiet {E F} (s : hst E F) a s' c fresh : h_retrieve s a = (s', c, fresh) -> quiet_step s s'.
Proof.
  unfold h_retrieve. destruct (tbl_lookup a (hs_tbl s)); intro H; inversion H; subst; clear H.
  - apply quiet_step_refl.
  - split; [reflexivity|]. split; [cbn [set_conns hs_conns]; apply conns_ext_snoc|].
    exists []. cbn [set_conns hs_log]. split; [reflexivity|intros e []].
Qed.
Lemma bump_quiet {E F} (s : hst E F) c : quiet_step s (bump s c).
Proof.
  destruct (bump_calls s c) as (H1 & _ & _ & H4). split; [exact H1|]. split; [exact H4|].
  exists []. unfold bump. destruct (nth_error (hs_conns s) c); cbn [set_conns hs_log]; rewrite ?app_nil_r;
    (split; [reflexivity|intros e []]).
Qed.
Lemma h_close_addr_quiet {E F} (s : hst E F) a : quiet_step s (h_close_addr s a).
Proof.
  destruct (h_close_addr_calls s a) as (H1 & _ & _ & H4). split; [exact H1|]. split; [exact H4|].
  unfold h_close_addr. destruct (tbl_lookup a (hs_tbl s)) as [c|]; [|exists []; rewrite app_nil_r; split; [reflexivity|intros e []]].
  destruct (nth_error (hs_conns s) c) as [k|]; [|exists []; rewrite app_nil_r; split; [reflexivity|intros e []]].
  exists [HEvRemoved c]. cbn [set_conns hs_log]. split; [reflexivity|]. intros e [<-|[]]. reflexivity.
Qed.
Lemma h_unregister_quiet {E F} (s : hst E F) c : quiet_step s (h_unregister s c).
Proof.
  unfold h_unregister. destruct (nth_error (hs_conns s) c) as [k|]; [|apply quiet_step_refl].
  destruct (tbl_lookup (c_addr k) (hs_tbl s)) as [c'|]; [|apply quiet_step_refl].
  destruct (Nat.eqb c c'); [apply h_close_addr_quiet|apply quiet_step_refl].
Qed.
Lemma clean_fold_quiet {E F} (l : list (Z * nat)) : forall st : hst E F, quiet_step st (fold_left clean_step l st).
Proof.
  induction l as [|p l IH]; intro st; cbn [fold_left]; [apply quiet_step_refl|].
  eapply quiet_step_trans; [|apply IH]. unfold clean_step.
  destruct (nth_error (hs_conns st) (snd p)) as [k|]; [|apply quiet_step_refl].
  destruct (idle st k); [apply h_close_addr_quiet|apply quiet_step_refl].
Qed.

Lemma announced_in {E F} (log : list (hev E F)) c : In c (announced log) -> exists a, In (HEvAnnounce a c) log.
Proof.
  induction log as [|e log IH]; cbn [announced]; [intros []|].
  destruct e; try (intro H; destruct (IH H) as (a' & Ha); exists a'; right; exact Ha).
  intros [<-|H]; [eexists; left; reflexivity|]. destruct (IH H) as (a' & Ha). exists a'. right. exact Ha.
Qed.

Lemma conn_at_lt {E F} (s : hst E F) c a : conn_at s c a -> (c < length (hs_conns s))%nat.
Proof. intros (k & Hk & _). eapply nth_error_some_lt, Hk. Qed.

Lemma h_retrieve_fresh {E F} (s : hst E F) a s' c :
  h_retrieve s a = (s', c, true) -> c = length (hs_conns s).
Proof. unfold h_retrieve. destruct (tbl_lookup a (hs_tbl s)); intro H; inversion H; reflexivity. Qed.

(* rejected request *)
Lemma h_log_post400 {E F} (dec : F -> option E) rt (s : hst E F) b why :
  http_classify dec rt b = V400 why -> h_log_inv dec rt s ->
  h_log_inv dec rt (set_reqs s (hs_reqs s ++ [QDone]) [HEvReq (length (hs_reqs s)) b; HEvResp (length (hs_reqs s)) 400]).
Proof.
  intros Hcl (L1 & L2 & L3 & L4 & L5 & L6 & L7 & L8 & A1 & A2).
  set (q := length (hs_reqs s)). unfold h_log_inv. cbn [set_reqs hs_log hs_reqs hs_conns]. repeat split.
  - intros q' b' H. rewrite app_length. cbn [length]. apply in_app_iff in H as [H|[H|[H|[]]]]; [apply L1 in H; lia| |discriminate].
    inversion H; subst. unfold q. lia.
  - intros q' b1 b2 H1 H2. apply in_app_iff in H1 as [H1|[H1|[H1|[]]]]; apply in_app_iff in H2 as [H2|[H2|[H2|[]]]];
      try discriminate.
    + eauto.
    + inversion H2; subst. apply L1 in H1. unfold q in H1. lia.
    + inversion H1; subst. apply L1 in H2. unfold q in H2. lia.
    + congruence.
  - intro q'. rewrite nresp_app, L3, nth_error_snoc. cbn [nresp]. fold q.
    destruct (Nat.ltb q' q) eqn:Hlt.
    + apply Nat.ltb_lt in Hlt. replace (Nat.eqb q' q) with false by (symmetry; apply Nat.eqb_neq; lia). lia.
    + apply Nat.ltb_ge in Hlt. replace (nth_error (hs_reqs s) q') with (@None (qstate E)) by (symmetry; apply nth_error_None; exact Hlt).
      destruct (Nat.eqb q' q); reflexivity.
  - intro q'. rewrite nresp_app, ndeliv_app. cbn [ndeliv nresp]. specialize (L4 q'). lia.
  - intros q' code H. apply in_app_iff in H as [H|[H|[H|[]]]]; [|discriminate|].
    + destruct (L5 _ _ H) as (b' & Hb & Hm). exists b'. split; [apply in_or_app; auto|exact Hm].
    + inversion H; subst. exists b. split; [apply in_or_app; right; left; reflexivity|]. rewrite Hcl. reflexivity.
  - intros q' b' why' H Hc. apply in_app_iff in H as [H|[H|[H|[]]]]; [|inversion H; subst|discriminate].
    + apply in_or_app. left. eapply L6; eassumption.
    + apply in_or_app. right. right. left. reflexivity.
  - intros q' c e H. apply nth_error_snoc_inv in H as [H|[_ H]]; [|discriminate].
    destruct (L7 _ _ _ H) as (b' & a & Hb & Hc & Hca). exists b', a. split; [apply in_or_app; auto|auto].
  - apply in_app_iff in H as [H|[H|[H|[]]]]; try discriminate. apply in_or_app. left. apply (L8 _ _ _ H).
  - apply in_app_iff in H as [H|[H|[H|[]]]]; try discriminate.
    destruct (L8 _ _ _ H) as (_ & b' & a & e & Hb & Hc & Hca & Hrd). exists b', a, e.
    repeat split; [apply in_or_app; auto|exact Hc|exact Hca|apply in_or_app; auto].
  - intros a c H. apply in_app_iff in H as [H|[H|[H|[]]]]; try discriminate. apply A1, H.
  - rewrite announced_app. cbn [announced]. rewrite app_nil_r. exact A2.
Qed.

(* accepted request: parked for the connection of the mapped address *)
Lemma h_log_post_ok {E F} (dec : F -> option E) rt (s : hst E F) b a e c fresh :
  http_classify dec rt b = VDeliver a e -> conn_at s c a ->
  (fresh = true -> ~ In c (announced (hs_log s))) ->
  h_log_inv dec rt s ->
  h_log_inv dec rt (set_reqs s (hs_reqs s ++ [QHandoff c e])
                             (HEvReq (length (hs_reqs s)) b :: if fresh then [HEvAnnounce a c] else [])).
Proof.
  intros Hcl Hca Hfresh (L1 & L2 & L3 & L4 & L5 & L6 & L7 & L8 & A1 & A2).
  set (q := length (hs_reqs s)). set (ann := if fresh then [HEvAnnounce a c] else [] : list (hev E F)).
  assert (Hann : forall x, In x ann -> x = HEvAnnounce a c /\ fresh = true).
  { unfold ann. destruct fresh; intros x H; [destruct H as [<-|[]]; auto|destruct H]. }
  unfold h_log_inv. cbn [set_reqs hs_log hs_reqs hs_conns]. repeat split.
  - intros q' b' H. rewrite app_length. cbn [length]. apply in_app_iff in H as [H|[H|H]]; [apply L1 in H; lia| |].
    + inversion H; subst. unfold q. lia.
    + apply Hann in H as [H _]. discriminate.
  - intros q' b1 b2 H1 H2.
    apply in_app_iff in H1 as [H1|[H1|H1]]; [| |apply Hann in H1 as [H1 _]; discriminate];
    (apply in_app_iff in H2 as [H2|[H2|H2]]; [| |apply Hann in H2 as [H2 _]; discriminate]).
    + eauto.
    + inversion H2; subst. apply L1 in H1. unfold q in H1. lia.
    + inversion H1; subst. apply L1 in H2. unfold q in H2. lia.
    + congruence.
  - intro q'. rewrite nresp_app, L3, nth_error_snoc. fold q.
    assert (Ez : nresp q' (HEvReq q b :: ann) = O) by (unfold ann; destruct fresh; reflexivity).
    rewrite Ez. destruct (Nat.ltb q' q) eqn:Hlt; [lia|].
    apply Nat.ltb_ge in Hlt. replace (nth_error (hs_reqs s) q') with (@None (qstate E)) by (symmetry; apply nth_error_None; exact Hlt).
    destruct (Nat.eqb q' q); reflexivity.
  - intro q'. rewrite nresp_app, ndeliv_app.
    assert (Ez : ndeliv q' (HEvReq q b :: ann) = O) by (unfold ann; destruct fresh; reflexivity).
    rewrite Ez. specialize (L4 q'). lia.
  - intros q' code H. apply in_app_iff in H as [H|[H|H]]; [|discriminate|apply Hann in H as [H _]; discriminate].
    destruct (L5 _ _ H) as (b' & Hb & Hm). exists b'. split; [apply in_or_app; auto|exact Hm].
  - intros q' b' why' H Hc. apply in_app_iff in H as [H|[H|H]]; [| |apply Hann in H as [H _]; discriminate].
    + apply in_or_app. left. eapply L6; eassumption.
    + inversion H; subst. congruence.
  - intros q' c' e' H. apply nth_error_snoc_inv in H as [H|[Hq' H]].
    + destruct (L7 _ _ _ H) as (b' & a' & Hb & Hc & Hca'). exists b', a'. split; [apply in_or_app; auto|auto].
    + inversion H; subst. exists b, a. split; [apply in_or_app; right; left; reflexivity|auto].
  - apply in_app_iff in H as [H|[H|H]]; [|discriminate|apply Hann in H as [H _]; discriminate].
    apply in_or_app. left. apply (L8 _ _ _ H).
  - apply in_app_iff in H as [H|[H|H]]; [|discriminate|apply Hann in H as [H _]; discriminate].
    destruct (L8 _ _ _ H) as (_ & b' & a' & e' & Hb & Hc & Hca' & Hrd). exists b', a', e'.
    repeat split; [apply in_or_app; auto|exact Hc|exact Hca'|apply in_or_app; auto].
  - intros a' c' H. apply in_app_iff in H as [H|[H|H]]; [apply A1, H|discriminate|].
    apply Hann in H as [H _]. inversion H; subst. exact Hca.
  - rewrite announced_app. cbn [announced]. unfold ann. destruct fresh; cbn [announced]; [|rewrite app_nil_r; exact A2].
    apply NoDup_app_snoc; [exact A2|apply Hfresh; reflexivity].
Qed.

(* a parked request is answered (200 with its delivery, or 503) *)
Lemma h_log_answer {E F} (dec : F -> option E) rt (s : hst E F) q c e evs code :
  nth_error (hs_reqs s) q = Some (QHandoff c e) ->
  (code = 200 \/ code = 503) ->
  (forall x, In x evs -> x = HEvResp q code \/ (code = 200 /\ exists r, x = HEvDeliver q c r \/ x = HEvRead r (HROk e))) ->
  nresp q evs = 1%nat -> (forall q', q' <> q -> nresp q' evs = O) ->
  (ndeliv q evs <= 1)%nat -> (forall q', q' <> q -> ndeliv q' evs = O) ->
  (forall r, In (HEvDeliver q c r) evs -> In (HEvRead r (HROk e)) evs) ->
  announced evs = [] ->
  h_log_inv dec rt s ->
  h_log_inv dec rt (set_reqs s (upd q QDone (hs_reqs s)) evs).
Proof.
  intros Hq Hcode Hevs Hn1 Hn0 Hd1 Hd0 Hdr Hann (L1 & L2 & L3 & L4 & L5 & L6 & L7 & L8 & A1 & A2).
  destruct (L7 _ _ _ Hq) as (b0 & a0 & Hb0 & Hcl0 & Hca0).
  assert (Hresp : In (HEvResp q code) evs).
  { clear - Hn1 Hevs. induction evs as [|x evs IH]; [discriminate|]. cbn [nresp] in Hn1.
    destruct (Hevs x (or_introl eq_refl)) as [->|(_ & r & [->| ->])]; [left; reflexivity| |];
      right; apply IH; auto; intros y Hy; apply Hevs; right; exact Hy. }
  unfold h_log_inv. cbn [set_reqs hs_log hs_reqs hs_conns]. repeat split.
  - intros q' b' H. rewrite upd_length. apply in_app_iff in H as [H|H]; [eauto|].
    destruct (Hevs _ H) as [Hx|(_ & r & [Hx|Hx])]; discriminate.
  - intros q' b1 b2 H1 H2.
    apply in_app_iff in H1 as [H1|H1]; [|destruct (Hevs _ H1) as [Hx|(_ & r & [Hx|Hx])]; discriminate].
    apply in_app_iff in H2 as [H2|H2]; [|destruct (Hevs _ H2) as [Hx|(_ & r & [Hx|Hx])]; discriminate]. eauto.
  - intro q'. rewrite nresp_app, L3, nth_error_upd.
    destruct (Nat.eqb q q') eqn:Eq.
    + apply Nat.eqb_eq in Eq. subst q'. rewrite Hq, Hn1.
      replace (Nat.ltb q (length (hs_reqs s))) with true by (symmetry; apply Nat.ltb_lt; eapply nth_error_some_lt, Hq). reflexivity.
    + apply Nat.eqb_neq in Eq. rewrite Hn0 by congruence. lia.
  - intro q'. rewrite nresp_app, ndeliv_app. specialize (L4 q'). destruct (Nat.eq_dec q' q) as [->|Hne].
    + rewrite Hn1. lia.
    + rewrite Hn0, Hd0 by exact Hne. lia.
  - intros q' code' H. apply in_app_iff in H as [H|H].
    + destruct (L5 _ _ H) as (b' & Hb & Hm). exists b'. split; [apply in_or_app; auto|exact Hm].
    + destruct (Hevs _ H) as [Hx|(_ & r & [Hx|Hx])]; try discriminate. inversion Hx; subst.
      exists b0. split; [apply in_or_app; auto|]. rewrite Hcl0. exact Hcode.
  - intros q' b' why' H Hc. apply in_app_iff in H as [H|H]; [|destruct (Hevs _ H) as [Hx|(_ & r & [Hx|Hx])]; discriminate].
    apply in_or_app. left. eapply L6; eassumption.
  - intros q' c' e' H. apply nth_error_upd_inv in H as [[_ H]|[_ H]]; [discriminate|].
    destruct (L7 _ _ _ H) as (b' & a' & Hb & Hc & Hca'). exists b', a'. split; [apply in_or_app; auto|auto].
  - apply in_app_iff in H as [H|H]; [apply in_or_app; left; apply (L8 _ _ _ H)|].
    destruct (Hevs _ H) as [Hx|(Hc200 & r' & [Hx|Hx])]; try discriminate. inversion Hx; subst.
    apply in_or_app. right. exact Hresp.
  - apply in_app_iff in H as [H|H].
    + destruct (L8 _ _ _ H) as (_ & b' & a' & e' & Hb & Hc & Hca' & Hrd). exists b', a', e'.
      repeat split; [apply in_or_app; auto|exact Hc|exact Hca'|apply in_or_app; auto].
    + destruct (Hevs _ H) as [Hx|(Hc200 & r' & [Hx|Hx])]; try discriminate. inversion Hx; subst.
      exists b0, a0, e. repeat split; [apply in_or_app; auto|exact Hcl0|exact Hca0|apply in_or_app; right; apply Hdr, H].
  - intros a' c' H. apply in_app_iff in H as [H|H]; [apply A1, H|].
    destruct (Hevs _ H) as [Hx|(_ & r & [Hx|Hx])]; discriminate.
  - rewrite announced_app, Hann, app_nil_r. exact A2.
Qed.

Lemma h_ext_log_inv {E F} (dec : F -> option E) rt (s : hst E F) a :
  h_tbl_inv s -> h_log_inv dec rt s -> h_log_inv dec rt (h_ext dec rt s a).
Proof.
  intros HT H. destruct a as [b|a|c d|r|c d|w ok|w|d|]; cbn [h_ext].
  - destruct (http_classify dec rt b) as [why|a e] eqn:Hcl.
    + eapply h_log_post400; eassumption.
    + destruct (h_retrieve s a) as [[s1 c] fresh] eqn:Er.
      pose proof (h_retrieve_quiet _ _ _ _ _ Er) as Hq.
      pose proof (h_log_inv_quiet dec rt _ _ Hq H) as H1.
      destruct (h_retrieve_inv _ _ _ _ _ Er HT) as [(T1 & _) Hin].
      assert (Hca : conn_at s1 c a) by (destruct (T1 _ _ Hin) as (k & Hk & Ha & _); exists k; auto).
      assert (Hreq : hs_reqs s1 = hs_reqs s) by apply Hq.
      assert (Hlog : hs_log s1 = hs_log s).
      { unfold h_retrieve in Er. destruct (tbl_lookup a (hs_tbl s)); inversion Er; subst; [reflexivity|].
        cbn [set_conns hs_log]. apply app_nil_r. }
      rewrite <- Hreq. apply h_log_post_ok; auto.
      intros -> Hc. rewrite Hlog in Hc. apply announced_in in Hc as (a' & Ha').
      destruct H as (_ & _ & _ & _ & _ & _ & _ & _ & A1 & _). apply A1, conn_at_lt in Ha'.
      apply h_retrieve_fresh in Er. lia.
  - destruct (h_retrieve s a) as [[s1 c] fresh] eqn:Er. eapply h_log_inv_quiet; [eapply h_retrieve_quiet, Er|exact H].
  - destruct (Nat.ltb c (length (hs_conns s))); [|exact H].
    eapply h_log_inv_quiet; [|exact H]. apply quiet_step_same; cbn [set_rds hs_reqs hs_conns hs_log]; auto using app_nil_r.
  - destruct (nth_error (hs_rds s) r); [|exact H].
    eapply h_log_inv_quiet; [|exact H]. apply quiet_step_same; cbn [set_rds hs_reqs hs_conns hs_log]; auto using app_nil_r.
  - destruct (Nat.ltb c (length (hs_conns s))); [|exact H].
    eapply h_log_inv_quiet; [|exact H]. eapply quiet_step_trans; [apply (bump_quiet s c)|].
    apply quiet_step_same; cbn [set_wrs hs_reqs hs_conns hs_log]; auto using app_nil_r.
  - destruct (nth_error (hs_wrs s) w) as [x|]; [|exact H]. destruct (hw_pend x); [|exact H].
    eapply h_log_inv_quiet; [|exact H].
    set (s1 := set_wrs s (upd w (mkHW (hw_conn x) (hw_done x) false) (hs_wrs s)) []).
    assert (Q1 : quiet_step s s1) by (apply quiet_step_same; cbn [s1 set_wrs hs_reqs hs_conns hs_log]; auto using app_nil_r).
    destruct ok.
    + eapply quiet_step_trans; [exact Q1|].
      apply (quiet_step_evs _ _ [HEvWrite w true]); cbn [set_wrs hs_reqs hs_conns hs_log]; auto.
      intros e [<-|[]]. reflexivity.
    + eapply quiet_step_trans; [exact Q1|]. eapply quiet_step_trans; [apply (h_unregister_quiet s1 (hw_conn x))|].
      apply (quiet_step_evs _ _ [HEvWrite w false]); cbn [set_wrs hs_reqs hs_conns hs_log]; auto.
      intros e [<-|[]]. reflexivity.
  - destruct (nth_error (hs_wrs s) w); [|exact H].
    eapply h_log_inv_quiet; [|exact H]. apply quiet_step_same; cbn [set_wrs hs_reqs hs_conns hs_log]; auto using app_nil_r.
  - destruct ((d <? 0) || (hs_interval s <=? 0)); [exact H|]. destruct (hs_now s + d <? hs_next s); exact H.
  - destruct (hs_cl s); exact H.
Qed.

Lemma h_int_log_inv {E F} (dec : F -> option E) rt (s : hst E F) r s' :
  h_log_inv dec rt s -> In r (h_rules s) -> r s = Some s' -> h_log_inv dec rt s'.
Proof.
  intros H Hin Hr.
  apply h_rules_cases in Hin as [->|[->|[(q & ->)|[(x & ->)|[(x & ->)|[(w & ->)|(q & x & ->)]]]]]].
  - apply h_clean_unfold in Hr as (_ & _ & ->). eapply h_log_inv_quiet; [apply clean_fold_quiet|exact H].
  - unfold h_clexit in Hr. destruct (hs_cl s); try discriminate. inversion Hr; subst. exact H.
  - unfold h_qclosed in Hr. destruct (nth_error (hs_reqs s) q) as [[|c e]|] eqn:Eq; try discriminate.
    destruct (nth_error (hs_conns s) c) as [k|]; [|discriminate]. destruct (c_closed k); [|discriminate].
    inversion Hr; subst; clear Hr.
    apply (h_log_answer dec rt s q c e [HEvResp q 503] 503 Eq); auto.
    + intros y [<-|[]]. auto.
    + cbn. rewrite Nat.eqb_refl. reflexivity.
    + intros q' Hne. cbn. replace (Nat.eqb q' q) with false by (symmetry; apply Nat.eqb_neq; exact Hne). reflexivity.
    + intros r0 [Hx|[]]. discriminate.
  - unfold h_rclosed in Hr. destruct (nth_error (hs_rds s) x) as [y|]; [|discriminate].
    destruct (nth_error (hs_conns s) (hr_conn y)) as [k|]; [|discriminate].
    destruct (hr_pend y && c_closed k); [|discriminate]. inversion Hr; subst; clear Hr.
    eapply h_log_inv_quiet; [|exact H].
    apply (quiet_step_evs _ _ [HEvRead x HRClosed]); cbn [set_rds hs_reqs hs_conns hs_log]; auto.
    intros e [<-|[]]. reflexivity.
  - unfold h_rctx in Hr. destruct (nth_error (hs_rds s) x) as [y|]; [|discriminate].
    destruct (hr_pend y && hr_done y); [|discriminate]. inversion Hr; subst; clear Hr.
    eapply h_log_inv_quiet; [|exact H].
    apply (quiet_step_evs _ _ [HEvRead x HRCtx]); cbn [set_rds hs_reqs hs_conns hs_log]; auto.
    intros e [<-|[]]. reflexivity.
  - unfold h_wctx in Hr. destruct (nth_error (hs_wrs s) w) as [y|]; [|discriminate].
    destruct (hw_pend y && hw_done y); [|discriminate]. inversion Hr; subst; clear Hr.
    eapply h_log_inv_quiet; [|exact H].
    set (s1 := set_wrs s (upd w (mkHW (hw_conn y) (hw_done y) false) (hs_wrs s)) []).
    assert (Q1 : quiet_step s s1) by (apply quiet_step_same; cbn [s1 set_wrs hs_reqs hs_conns hs_log]; auto using app_nil_r).
    eapply quiet_step_trans; [exact Q1|]. eapply quiet_step_trans; [apply (h_unregister_quiet s1 (hw_conn y))|].
    apply (quiet_step_evs _ _ [HEvWrite w false]); cbn [set_wrs hs_reqs hs_conns hs_log]; auto.
    intros e [<-|[]]. reflexivity.
  - unfold h_handoff in Hr. destruct (nth_error (hs_reqs s) q) as [[|c e]|] eqn:Eq; try discriminate.
    destruct (nth_error (hs_rds s) x) as [y|]; [|discriminate].
    destruct (hr_pend y && Nat.eqb (hr_conn y) c); [|discriminate]. inversion Hr; subst; clear Hr.
    pose proof (bump_quiet s c) as Qb. pose proof (h_log_inv_quiet dec rt _ _ Qb H) as H1.
    assert (Eq1 : nth_error (hs_reqs (bump s c)) q = Some (QHandoff c e)) by (destruct Qb as [-> _]; exact Eq).
    pose proof (h_log_answer dec rt (bump s c) q c e [HEvDeliver q c x; HEvResp q 200; HEvRead x (HROk e)] 200 Eq1) as HA.
    match goal with |- h_log_inv _ _ ?st => 
      assert (Est : hs_reqs st = upd q QDone (hs_reqs (bump s c)) /\ hs_conns st = hs_conns (bump s c) /\
                    hs_log st = hs_log (bump s c) ++ [HEvDeliver q c x; HEvResp q 200; HEvRead x (HROk e)])
    end.
    { cbn [set_rds set_reqs hs_reqs hs_conns hs_log]. rewrite app_nil_r. auto. }
    destruct Est as (E1 & E2 & E3).
    assert (HA' : h_log_inv dec rt (set_reqs (bump s c) (upd q QDone (hs_reqs (bump s c))) [HEvDeliver q c x; HEvResp q 200; HEvRead x (HROk e)])).
    { apply HA; auto.
      - intros z [<-|[<-|[<-|[]]]]; [right|left|right]; eauto.
      - cbn. rewrite Nat.eqb_refl. reflexivity.
      - intros q' Hne. cbn. replace (Nat.eqb q' q) with false by (symmetry; apply Nat.eqb_neq; exact Hne). reflexivity.
      - cbn. rewrite Nat.eqb_refl. lia.
      - intros q' Hne. cbn. replace (Nat.eqb q' q) with false by (symmetry; apply Nat.eqb_neq; exact Hne). reflexivity.
      - intros r0 [Hx|[Hx|[Hx|[]]]]; try discriminate. inversion Hx; subst. right. right. left. reflexivity. }
    revert HA'. unfold h_log_inv. cbn [set_reqs hs_reqs hs_conns hs_log conn_at]. unfold conn_at.
    rewrite E1, E3. cbn [set_reqs hs_conns]. rewrite E2. auto.
Qed.

Definition h_full_inv {E F} (dec : F -> option E) rt (s : hst E F) : Prop :=
  h_tbl_inv s /\ h_ref_inv s /\ h_log_inv dec rt s.

Lemma h_init_log_inv {E F} (dec : F -> option E) rt iv tmo now : h_log_inv dec rt (@h_init E F iv tmo now).
Proof.
  unfold h_log_inv, h_init. cbn. repeat split; try (intros; contradiction); try constructor.
  - intro q. destruct q; reflexivity.
  - intros q c e H. destruct q; discriminate.
Qed.

Lemma h_full_invariant {E F} (dec : F -> option E) rt iv tmo now ls s :
  h_run dec rt iv tmo now ls = Some s -> h_full_inv dec rt s.
Proof.
  unfold h_run. apply lrun_inv with (P := h_full_inv dec rt).
  - intros s0 a (HT & HR & HL). split; [apply h_ext_tbl_inv, HT|]. split; [apply h_ext_ref_inv; assumption|apply h_ext_log_inv; assumption].
  - intros s0 r s1 (HT & HR & HL) Hin Hr.
    split; [eapply h_int_tbl_inv; eassumption|]. split; [eapply h_int_ref_inv; eassumption|eapply h_int_log_inv; eassumption].
  - split; [apply h_init_tbl_inv|]. split; [|apply h_init_log_inv].
    unfold h_ref_inv, h_init. cbn. repeat split; intros n; intros; destruct n; discriminate.
Qed.

(* ---------- the HTTP statements of C19 ---------- *)
Lemma http_400_iff {E F} (dec : F -> option E) rt iv tmo now ls (s : hst E F) q :
  h_run dec rt iv tmo now ls = Some s ->
  (In (HEvResp q 400) (hs_log s) <-> exists b why, In (HEvReq q b) (hs_log s) /\ http_classify dec rt b = V400 why).
Proof.
  intro Hrun. destruct (h_full_invariant _ _ _ _ _ _ _ Hrun) as (_ & _ & L1 & L2 & L3 & L4 & L5 & L6 & _).
  split.
  - intro H. destruct (L5 _ _ H) as (b & Hb & Hm). exists b.
    destruct (http_classify dec rt b) as [why|a e]; [eauto|]. destruct Hm; discriminate.
  - intros (b & why & Hb & Hc). eapply L6; eassumption.
Qed.

Lemma http_rejected_not_delivered {E F} (dec : F -> option E) rt iv tmo now ls (s : hst E F) q b why :
  h_run dec rt iv tmo now ls = Some s ->
  In (HEvReq q b) (hs_log s) -> http_classify dec rt b = V400 why ->
  forall c r, ~ In (HEvDeliver q c r) (hs_log s).
Proof.
  intros Hrun Hb Hc c r Hd.
  destruct (h_full_invariant _ _ _ _ _ _ _ Hrun) as (_ & _ & L1 & L2 & L3 & L4 & L5 & L6 & L7 & L8 & _).
  destruct (L8 _ _ _ Hd) as (_ & b' & a & e & Hb' & Hc' & _). rewrite (L2 _ _ _ Hb Hb') in Hc. congruence.
Qed.

Lemma http_delivery_correct {E F} (dec : F -> option E) rt iv tmo now ls (s : hst E F) q c r :
  h_run dec rt iv tmo now ls = Some s -> In (HEvDeliver q c r) (hs_log s) ->
  exists b a e, In (HEvReq q b) (hs_log s) /\ http_classify dec rt b = VDeliver a e /\
                conn_at s c a /\ In (HEvRead r (HROk e)) (hs_log s) /\ In (HEvResp q 200) (hs_log s).
Proof.
  intros Hrun Hd.
  destruct (h_full_invariant _ _ _ _ _ _ _ Hrun) as (_ & _ & L1 & L2 & L3 & L4 & L5 & L6 & L7 & L8 & _).
  destruct (L8 _ _ _ Hd) as (Hr & b & a & e & Hb & Hc & Hca & Hrd). exists b, a, e. auto.
Qed.

Lemma http_at_most_once {E F} (dec : F -> option E) rt iv tmo now ls (s : hst E F) q :
  h_run dec rt iv tmo now ls = Some s -> (nresp q (hs_log s) <= 1)%nat /\ (ndeliv q (hs_log s) <= 1)%nat.
Proof.
  intro Hrun. destruct (h_full_invariant _ _ _ _ _ _ _ Hrun) as (_ & _ & L1 & L2 & L3 & L4 & _).
  specialize (L3 q). specialize (L4 q).
  destruct (nth_error (hs_reqs s) q) as [[|c e]|]; lia.
Qed.

Lemma http_announce_once {E F} (dec : F -> option E) rt iv tmo now ls (s : hst E F) :
  h_run dec rt iv tmo now ls = Some s ->
  NoDup (announced (hs_log s)) /\ forall a c, In (HEvAnnounce a c) (hs_log s) -> conn_at s c a.
Proof.
  intro Hrun. destruct (h_full_invariant _ _ _ _ _ _ _ Hrun) as (_ & _ & _ & _ & _ & _ & _ & _ & _ & _ & A1 & A2). auto.
Qed.

Lemma http_no_crash {E F} (dec : F -> option E) rt iv tmo now ls (s : hst E F) :
  h_run dec rt iv tmo now ls = Some s -> hs_crashed s = false.
Proof. intro Hrun. apply (h_tbl_invariant _ _ _ _ _ _ _ Hrun). Qed.

(* an accepted request creates and announces the connection of its address on first use only *)
Lemma http_post_step {E F} (dec : F -> option E) rt (s : hst E F) b :
  let s' := h_ext dec rt s (HPost b) in
  let q := length (hs_reqs s) in
  match http_classify dec rt b with
  | V400 _ => hs_log s' = hs_log s ++ [HEvReq q b; HEvResp q 400] /\ hs_tbl s' = hs_tbl s /\ hs_conns s' = hs_conns s
  | VDeliver a e =>
      match tbl_lookup a (hs_tbl s) with
      | Some c => hs_log s' = hs_log s ++ [HEvReq q b] /\ nth_error (hs_reqs s') q = Some (QHandoff c e) /\
                  hs_tbl s' = hs_tbl s /\ hs_conns s' = hs_conns s
      | None => let c := length (hs_conns s) in
                hs_log s' = hs_log s ++ [HEvReq q b; HEvAnnounce a c] /\ nth_error (hs_reqs s') q = Some (QHandoff c e) /\
                hs_tbl s' = hs_tbl s ++ [(a, c)] /\ hs_conns s' = hs_conns s ++ [mkConn a 0 false]
      end
  end.
Proof.
  cbn [h_ext]. destruct (http_classify dec rt b) as [why|a e].
  - cbn [set_reqs hs_log hs_tbl hs_conns]. auto.
  - unfold h_retrieve. destruct (tbl_lookup a (hs_tbl s)) as [c|].
    + cbn [set_reqs hs_log hs_tbl hs_conns hs_reqs]. repeat split.
      rewrite nth_error_app2, Nat.sub_diag by lia. reflexivity.
    + cbn [set_reqs set_conns hs_log hs_tbl hs_conns hs_reqs]. rewrite app_nil_r. repeat split.
      rewrite nth_error_app2, Nat.sub_diag by lia. reflexivity.
Qed.

(* ---------- statements of C19 that need the run hypothesis ---------- *)
Lemma http_classify_iff : forall (E F : Type) (dec : F -> option E) rt (b : hbody F),
  (exists why, http_classify dec rt b = V400 why) <->
  (b = BNil \/ b = BUnreadable \/
   exists bs, b = BBytes bs /\
     (dec bs = None \/ exists e, dec bs = Some e /\ (rt e = RtNoHeader \/ rt e = RtEmptySource \/ rt e = RtMapErr))).
Proof.
  intros E F dec rt b. unfold http_classify. destruct b as [| |bs].
  - split; [auto|eauto].
  - split; [auto|eauto].
  - destruct (dec bs) as [e|] eqn:Ed.
    + destruct (rt e) eqn:Er; split.
      * intros _. right. right. exists bs. split; [reflexivity|]. right. exists e. auto.
      * eauto.
      * intros _. right. right. exists bs. split; [reflexivity|]. right. exists e. auto.
      * eauto.
      * intros _. right. right. exists bs. split; [reflexivity|]. right. exists e. auto.
      * eauto.
      * intros [why H]. discriminate.
      * intros [H|[H|(bs' & H & [H'|(e' & H1 & [H2|[H2|H2]])])]]; try discriminate;
          inversion H; subst; congruence.
    + split; [intros _; right; right; exists bs; auto|eauto].
Qed.

Lemma http_idle : forall (E F : Type) (dec : F -> option E) rt iv tmo now ls (s s' : hst E F),
  h_run dec rt iv tmo now ls = Some s -> h_clean s = Some s' ->
  forall a c k, In (a, c) (hs_tbl s) -> nth_error (hs_conns s) c = Some k ->
    (idle s k = true ->
       ~ In a (map fst (hs_tbl s')) /\ exists k', nth_error (hs_conns s') c = Some k' /\ c_closed k' = true) /\
    (idle s k = false ->
       In (a, c) (hs_tbl s') /\ exists k', nth_error (hs_conns s') c = Some k' /\ c_closed k' = false).
Proof.
  intros E F dec rt iv tmo now ls s s' Hrun. apply h_clean_effect. exact (h_tbl_invariant _ _ _ _ _ _ _ Hrun).
Qed.

Lemma http_blocked_read : forall (E F : Type) (dec : F -> option E) rt iv tmo now ls (s : hst E F) r x,
  h_run dec rt iv tmo now ls = Some s -> quiescent h_rules s ->
  nth_error (hs_rds s) r = Some x -> hr_pend x = true ->
  hr_done x = false /\
  (exists k, nth_error (hs_conns s) (hr_conn x) = Some k /\ c_closed k = false) /\
  (forall q e, nth_error (hs_reqs s) q <> Some (QHandoff (hr_conn x) e)).
Proof.
  intros E F dec rt iv tmo now ls s r x Hrun Hq. apply h_quiescent_reader; [exact Hq|].
  apply (h_invariant _ _ _ _ _ _ _ Hrun).
Qed.

Lemma http_parked_request : forall (E F : Type) (dec : F -> option E) rt iv tmo now ls (s : hst E F) q c e,
  h_run dec rt iv tmo now ls = Some s -> quiescent h_rules s ->
  nth_error (hs_reqs s) q = Some (QHandoff c e) ->
  (exists k, nth_error (hs_conns s) c = Some k /\ c_closed k = false) /\
  (forall r x, nth_error (hs_rds s) r = Some x -> hr_pend x = true -> hr_conn x <> c).
Proof.
  intros E F dec rt iv tmo now ls s q c e Hrun Hq. apply h_quiescent_request; [exact Hq|].
  apply (h_invariant _ _ _ _ _ _ _ Hrun).
Qed.

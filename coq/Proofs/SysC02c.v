(* C02, caller side: the caller observes io.EOF only if the handler of that stream returned nil.

   Client fact [CE] (arbitrary environment): an io.EOF reported by RecvMsg comes from an envelope the call took
   from its queue whose classification ([final_of]) is EOF: it carries a trailer, no reset, and no status or
   an OK status.
   Server fact [E] (arbitrary peer): such a frame, when the server writes it, is a unary reply or the trailer
   that SendTrailer built from the return of a stream handler ([SvTrailer]). *)
From Coq Require Import List ZArith Bool Lia Arith.
Import ListNotations.
From Goat Require Import Model.Client Model.Server Proofs.ClientBase Proofs.ClientInv Proofs.ClientLog Proofs.ClientProps
  Proofs.ServerProofs Proofs.ServerInv Proofs.ServerTrace Model.Sys Proofs.SysLog Proofs.SysProofs Proofs.SysFacts Proofs.SysFacts2.
Open Scope Z_scope.

(* ---------- client ---------- *)
Definition eof_just (c : nat) (l : list cev) : Prop := exists e, In (EvTake c e) l /\ final_of e = Some EEof.

Record CE (s : Client.state) : Prop := mkCE {
  ce_l : forall c k, nth_error (calls s) c = Some k -> l_rerr k = Some EEof -> eof_just c (Client.log s);
  ce_s : forall c k, nth_error (calls s) c = Some k -> s_rerr k = Some EEof -> eof_just c (Client.log s);
  ce_ret : forall c, In (EvRecvRet c (RErr EEof)) (Client.log s) -> eof_just c (Client.log s) }.

Lemma eof_just_mono c l evs : eof_just c l -> eof_just c (l ++ evs).
Proof. intros (e & A & B). exists e. split; auto. apply in_or_app. auto. Qed.

Lemma CE_upd s s' c0 k0 k' evs :
  CE s -> calls s' = upd c0 k' (calls s) -> nth_error (calls s) c0 = Some k0 -> Client.log s' = Client.log s ++ evs ->
  (l_rerr k' = Some EEof -> l_rerr k0 = Some EEof \/ eof_just c0 (Client.log s ++ evs)) ->
  (s_rerr k' = Some EEof -> s_rerr k0 = Some EEof \/ l_rerr k0 = Some EEof) ->
  (forall c, In (EvRecvRet c (RErr EEof)) evs -> c = c0 /\ s_rerr k0 = Some EEof) -> CE s'.
Proof.
  intros [Cl Cs Cr] Hc Hn Hl H1 H2 H3. constructor.
  - intros c k P E. rewrite Hl. rewrite Hc in P. destruct (Nat.eq_dec c c0) as [->|Hne].
    + rewrite nth_upd_eq in P by (eapply nth_some_lt; eauto). inversion P; subst k.
      destruct (H1 E) as [A | A]; [apply eof_just_mono; eauto | exact A].
    + rewrite nth_upd_neq in P by auto. apply eof_just_mono; eauto.
  - intros c k P E. rewrite Hl. rewrite Hc in P. destruct (Nat.eq_dec c c0) as [->|Hne].
    + rewrite nth_upd_eq in P by (eapply nth_some_lt; eauto). inversion P; subst k.
      destruct (H2 E) as [A | A]; apply eof_just_mono; eauto.
    + rewrite nth_upd_neq in P by auto. apply eof_just_mono; eauto.
  - intros c Hin. rewrite Hl in *. apply in_app_or in Hin. destruct Hin as [Hin | Hin].
    + apply eof_just_mono; auto.
    + destruct (H3 _ Hin) as (-> & A). apply eof_just_mono; eauto.
Qed.

Lemma CE_same s s' evs :
  CE s -> calls s' = calls s -> Client.log s' = Client.log s ++ evs ->
  (forall c, ~ In (EvRecvRet c (RErr EEof)) evs) -> CE s'.
Proof.
  intros [Cl Cs Cr] Hc Hl H3. constructor.
  - intros c k P E. rewrite Hl. rewrite Hc in P. apply eof_just_mono; eauto.
  - intros c k P E. rewrite Hl. rewrite Hc in P. apply eof_just_mono; eauto.
  - intros c Hin. rewrite Hl in *. apply in_app_or in Hin. destruct Hin as [Hin | Hin]; [apply eof_just_mono; auto | exfalso; eapply H3; eauto].
Qed.

Lemma CE_close_all s s' : CE s -> calls s' = close_all (calls s) -> Client.log s' = Client.log s -> CE s'.
Proof.
  intros [Cl Cs Cr] Hc Hl. constructor; rewrite Hl; auto; intros c k P E; rewrite Hc in P; unfold close_all in P;
    rewrite nth_error_map in P; destruct (nth_error (calls s) c) as [k1|] eqn:E1; try discriminate; simpl in P;
    destruct (k_reg k1); inversion P; subst; csimpl; eauto.
Qed.

Ltac no_eofret := let c := fresh in let X := fresh in
  intros c X; simpl in X; repeat (destruct X as [X | X]; [discriminate X|]); exact X.

Ltac ce_l_tac :=
  let E := fresh "EE" in
  intros E; csimpl;
  first [ left; exact E
        | discriminate E
        | exfalso; unfold closed_err, ctx_status in E;
          repeat match type of E with
                 | context [if ?b then _ else _] => destruct b
                 | context [match k_ctx ?k with _ => _ end] => destruct (k_ctx k)
                 end; discriminate E
        | right; inversion E; subst;
          match goal with F : final_of ?e = Some _ |- _ =>
            exists e; split; [repeat (apply in_or_app; right); simpl; auto | exact F] end
        | right; inversion E; subst;
          match goal with F : final_of ?e = Some _ |- _ =>
            exists e; split; [apply in_or_app; left; apply in_or_app; right; simpl; auto | exact F] end ].

Ltac ce_s_tac :=
  let E := fresh "EE" in intros E; csimpl; first [ left; exact E | right; exact E | discriminate E ].

Ltac ce_ret_tac :=
  let c := fresh in let X := fresh in
  intros c X; simpl in X;
  repeat (destruct X as [X | X];
          [ first [ discriminate X
                  | inversion X; subst; clear X;
                    try match goal with Y : recv_final ?k = _ |- _ => unfold recv_final in Y; destruct (s_rerr k) eqn:?; inversion Y; subst end;
                    try match goal with Y : ctx_status ?k = _ |- _ => unfold ctx_status in Y; destruct (k_ctx k); discriminate Y end;
                    try match goal with Y : RErr (ctx_status ?k) = _ |- _ => unfold ctx_status in Y; destruct (k_ctx k); discriminate Y end;
                    try match goal with Y : (if ?b then _ else _) = _ |- _ => destruct b; discriminate Y end;
                    split; try reflexivity; try assumption; try congruence ] | ]);
  try contradiction.

Ltac CE_done HC :=
  csimpl;
  try match goal with |- context [if k_reg ?k then _ else _] => destruct (k_reg k) eqn:? end;
  csimpl;
  first [ eapply (CE_same _ _ []); [exact HC | reflexivity | csimpl; rewrite app_nil_r; reflexivity | intros ? []]
        | eapply CE_same; [exact HC | reflexivity | csimpl; rewrite <- ?app_assoc; reflexivity | no_eofret]
        | eapply CE_close_all; [exact HC | reflexivity | reflexivity]
        | match goal with E : nth_error (calls ?s) ?c = Some ?k |- CE _ =>
            first [ eapply (CE_upd s _ c k _ []); [exact HC | csimpl; reflexivity | exact E | csimpl; rewrite app_nil_r; reflexivity
                                                  | ce_l_tac | ce_s_tac | intros ? []]
                  | eapply (CE_upd s _ c k); [exact HC | csimpl; reflexivity | exact E | csimpl; rewrite <- ?app_assoc; reflexivity
                                             | ce_l_tac | ce_s_tac | ce_ret_tac] ]
          end ].

Lemma CE_int s r s' : cinv s -> CE s -> In r (Client.rules s) -> r s = Some s' -> CE s'.
Proof.
  intros HI HC Hin H. apply rules_in in Hin. destruct Hin as [->|[->|(c & _ & Hin)]].
  - unfold r_rl_unblock in H. open_rule H; try (CE_done HC).
  - unfold r_rl_read in H. open_rule H; try (CE_done HC).
  - simpl in Hin.
    repeat (destruct Hin as [<-|Hin];
            [ unfold r_check, r_reg, r_wait, r_wait_ctx, r_unreg, r_loop_read, r_loop_read_ctx, r_loop_hand,
                     r_loop_hand_ctx, r_loop_exit, r_loop_unreg, r_recv, r_header, r_trailer, r_send in H;
              open_rule H; try (CE_done HC) | ]).
    all: try destruct Hin.
    all: exfalso; match goal with E : nth_error (calls _) _ = Some ?k, D : s_done ?k = true, N : s_rerr ?k = None |- _ =>
           destruct (ki_done_dead _ (cinv_call _ _ _ HI E) D) as (_ & X & _); rewrite N in X; discriminate X end.
Qed.


Lemma CE_with_call s c g :
  CE s -> (forall k k', g k = Some k' -> l_rerr k' = l_rerr k /\ s_rerr k' = s_rerr k) -> CE (with_call s c g).
Proof.
  intros HC Hg. unfold with_call. destruct (nth_error (calls s) c) as [k|] eqn:E; [|exact HC].
  destruct (g k) as [k'|] eqn:G; [|exact HC]. destruct (Hg _ _ G) as (A & B).
  eapply (CE_upd s _ c k k' []); [exact HC | reflexivity | exact E | simpl; rewrite app_nil_r; reflexivity | | | intros ? []].
  - intros X. left. congruence.
  - intros X. left. congruence.
Qed.

Lemma CE_ext s a : CE s -> CE (Client.ext s a).
Proof.
  intros HC. destruct a; simpl;
    try (apply CE_with_call; [exact HC|]; intros k k' G;
         repeat match type of G with
                | match ?x with _ => _ end = Some _ => destruct x eqn:?; try discriminate G
                end; inversion G; subst; csimpl; auto);
    try (eapply (CE_same _ _ []); [exact HC | reflexivity | simpl; rewrite app_nil_r; reflexivity | intros ? []]).
  - destruct HC as [Cl Cs Cr]. constructor; csimpl; auto;
      intros c k P E; destruct (nth_app_cases _ _ _ _ P) as [(P' & _) | (_ & ->)]; eauto; discriminate E.
  - destruct HC as [Cl Cs Cr]. constructor; csimpl; auto;
      intros c k P E; destruct (nth_app_cases _ _ _ _ P) as [(P' & _) | (_ & ->)]; eauto; discriminate E.
  - destruct (nth_error (calls s) c) as [k|] eqn:E; [|exact HC].
    destruct (k_pc k) eqn:P; try exact HC.
    eapply (CE_upd _ _ c k _ []); [exact HC | csimpl; reflexivity | exact E | csimpl; rewrite app_nil_r; reflexivity | | | intros ? []];
      csimpl; intros X; left; exact X.
Qed.

Theorem CE_reach ls s : Client.lrun Client.init ls = Some s -> CE s.
Proof.
  intros H.
  assert (G : cinv s /\ CE s).
  { revert H. apply (ClientBase.lrun_inv (fun s => cinv s /\ CE s)).
    - intros s0 l s1 (HI & HC) Hs. split; [eapply cinv_step; eauto|].
      destruct l as [a|n]; simpl in Hs.
      + inversion Hs; subst. apply CE_ext; auto.
      + destruct (nth_error (Client.rules s0) n) as [r|] eqn:E; [|discriminate].
        apply nth_error_In in E. eapply CE_int; eauto.
    - split; [apply cinv_init|]. constructor; simpl; try tauto; intros c k P; destruct c; discriminate. }
  apply G.
Qed.

(* ---------- server: where an EOF-like frame comes from ---------- *)
Definition eofl (fr : frame) : Prop := final_of (f_env fr) = Some EEof.

Definition justE (v : Server.state) (fr : frame) : Prop :=
  eofl fr -> exists h k, nth_error (hs v) h = Some k /\ fid (h_req k) = fid fr /\
                         (h_unary k = true \/ In (SvTrailer h fr) (Server.log v)).

Definition EI (v : Server.state) : Prop := forall fr, pending v fr -> justE v fr.

Definition hsig_fwd (s s' : Server.state) : Prop :=
  forall h k, nth_error (hs s) h = Some k -> exists k', nth_error (hs s') h = Some k' /\ h_req k' = h_req k /\ h_unary k' = h_unary k.

Lemma justE_mono s s' fr :
  hsig_fwd s s' -> (exists evs, Server.log s' = Server.log s ++ evs) -> justE s fr -> justE s' fr.
Proof.
  intros HF (evs & E) J He. destruct (J He) as (h & k & Hk & Hid & Hc).
  destruct (HF _ _ Hk) as (k' & Hk' & Hr & Hu). exists h, k'. split; auto. split; [congruence|].
  destruct Hc as [Hc | Hc]; [left; congruence | right; rewrite E; apply in_or_app; auto].
Qed.

Definition pend_oldE (s s' : Server.state) : Prop := forall fr, pending s' fr -> pending s fr \/ ~ eofl fr.

Lemma EI_from_old s s' :
  EI s -> pend_oldE s s' -> hsig_fwd s s' -> (exists evs, Server.log s' = Server.log s ++ evs) -> EI s'.
Proof.
  intros HE PO HF HL fr P. destruct (PO fr P) as [P0 | Ne]; [eapply justE_mono; eauto | intros He; contradiction].
Qed.

Ltac not_eofl := let X := fresh in intros X; unfold eofl, final_of in X; simpl in X; discriminate X.

Ltac pend_oldE_tac :=
  let fr := fresh "fr" in let P := fresh "P" in
  intros fr P; destruct P as [P | wX P | hX kX skX P Q | P]; sproj;
  [ try discriminate P; try (inversion P; subst; clear P); first [ left; eauto using pending; fail | right; not_eofl | eauto using pending ]
  | try (apply nth_upd_cases in P; destruct P as [(-> & P & _) | (_ & P)]; [try discriminate P; try (inversion P; subst; clear P) | ]);
    first [ left; eauto using pending; fail | right; not_eofl | eauto using pending ]
  | try (apply nth_upd_cases in P; destruct P as [(-> & -> & _) | (_ & P)]; [simpl in Q; try discriminate Q; try (inversion Q; subst; clear Q) | ]);
    first [ left; eauto using pending; fail | right; not_eofl | eauto using pending ]
  | in_log P; eauto using pending ].

Ltac hsig_fwd_tac :=
  let h := fresh "hY" in let k := fresh "kY" in let P := fresh "PY" in
  intros h k P; sproj;
  first [ eexists; split; [exact P | split; reflexivity]
        | match goal with E : nth_error (hs ?s) ?h0 = Some ?k0 |- _ =>
            destruct (Nat.eq_dec h h0) as [->|?];
            [ rewrite E in P; inversion P; subst; eexists; split; [apply nth_upd_same; eapply nth_error_lt; eassumption | split; reflexivity]
            | exists k; split; [apply nth_upd_fwd; assumption | split; reflexivity] ]
          end ].

Lemma hsig_fwd_app s s' x : hs s' = hs s ++ [x] -> hsig_fwd s s'.
Proof. intros E h k P. rewrite E. exists k. split; [rewrite nth_error_app1; [exact P | eapply nth_error_lt; eauto] | split; reflexivity]. Qed.

Lemma EI_stream_dispatch s fr0 : EI s -> EI (stream_dispatch s fr0).
Proof.
  intros HE. unfold stream_dispatch.
  destruct (find_reg (fid fr0) (hs s) 0) as [h|].
  - destruct (is_rst fr0).
    + destruct (nth_error (hs s) h) as [k|] eqn:Hn; [|exact HE].
      apply (EI_from_old s); [exact HE | pend_oldE_tac | hsig_fwd_tac | log_ext].
    + apply (EI_from_old s); [exact HE | pend_oldE_tac | hsig_fwd_tac | log_ext].
  - destruct (is_rst fr0); [exact HE|].
    destruct (has_body fr0); [apply (EI_from_old s); [exact HE | pend_oldE_tac | hsig_fwd_tac | log_ext]|].
    destruct (has_trl fr0); [exact HE|].
    destruct (md_bad fr0); [apply (EI_from_old s); [exact HE | pend_oldE_tac | hsig_fwd_tac | log_ext]|].
    apply (EI_from_old s); [exact HE | | apply (hsig_fwd_app _ _ (new_stream fr0)); reflexivity | log_ext].
    intros fr P. left. destruct P as [P | wX P | hX kX skX P Q | P]; sproj; eauto using pending.
    + apply nth_app_new in P. destruct P as [P | (_ & ->)]; [eauto using pending | simpl in Q; discriminate Q].
    + in_log P; eauto using pending.
Qed.

Lemma EI_start_unary s w fr0 : EI s -> EI (start_unary s w fr0).
Proof.
  intros HE. unfold start_unary.
  destruct (negb (has_hdr fr0)); [apply (EI_from_old s); [exact HE | pend_oldE_tac | hsig_fwd_tac | log_ext]|].
  destruct (md_bad fr0); [apply (EI_from_old s); [exact HE | pend_oldE_tac | hsig_fwd_tac | log_ext]|].
  destruct (body_tok fr0 <? 0); [apply (EI_from_old s); [exact HE | pend_oldE_tac | hsig_fwd_tac | log_ext]|].
  apply (EI_from_old s); [exact HE | | apply (hsig_fwd_app _ _ (new_unary fr0)); reflexivity | log_ext].
  intros fr P. left. destruct P as [P | wX P | hX kX skX P Q | P]; sproj; eauto using pending.
  - apply nth_upd_cases in P. destruct P as [(-> & P & _) | (_ & P)]; [discriminate P | eauto using pending].
  - apply nth_app_new in P. destruct P as [P | (_ & ->)]; [eauto using pending | simpl in Q; discriminate Q].
  - in_log P; eauto using pending.
Qed.

Lemma EI_hunregister s g kg : EI s -> nth_error (hs s) g = Some kg -> EI (add_log (set_h s g (hunregister kg)) [SvUnreg g]).
Proof.
  intros HE Hg. apply (EI_from_old s); [exact HE | | hsig_fwd_tac | log_ext].
  intros fr P. left. destruct P as [P | wX P | hX kX skX P Q | P]; sproj; eauto using pending.
  - apply nth_upd_cases in P. destruct P as [(-> & -> & _) | (_ & P)]; [ | eauto using pending].
    eapply PHs; [exact Hg | exact Q].
  - in_log P; eauto using pending.
Qed.

Lemma EI_int s i s' : EI s -> rule_of i s = Some s' -> EI s'.
Proof.
  intros HE H. destruct i; simpl in H.
  all: try solve [ start_rule H; (apply (EI_from_old s); [exact HE | try pend_oldE_tac | try hsig_fwd_tac | try log_ext]) ].
  - unfold r_rd_read in H. destruct (rd s) eqn:Erd; try discriminate.
    destruct (Server.inbox s) as [|fr0 rest] eqn:Ei.
    + destr_in H; inv_some H; apply (EI_from_old s); [exact HE | pend_oldE_tac | hsig_fwd_tac | log_ext | exact HE | pend_oldE_tac | hsig_fwd_tac | log_ext].
    + assert (E1 : EI (add_log (set_inbox s rest) [SvRead fr0])).
      { apply (EI_from_old s); [exact HE | pend_oldE_tac | hsig_fwd_tac | log_ext]. }
      destruct (dispatch fr0); inv_some H.
      * exact E1.
      * apply (EI_from_old s); [exact HE | pend_oldE_tac | hsig_fwd_tac | log_ext].
      * apply EI_stream_dispatch. exact E1.
  - unfold r_rd_offer in H. destruct (rd s) eqn:Erd; try discriminate.
    destruct (find_idle (wk s) 0) as [w|]; [|discriminate]. inv_some H.
    apply EI_start_unary. apply (EI_from_old s); [exact HE | pend_oldE_tac | hsig_fwd_tac | log_ext].
  - unfold r_h_unreg in H. destruct (nth_error (hs s) h) as [k|] eqn:Hn; [|discriminate].
    destruct (h_pc k) eqn:Hpc; try discriminate. destruct (mu_free s); [|discriminate].
    assert (E1 : EI (set_h s h (hset_pc k HDead))).
    { apply (EI_from_old s); [exact HE | pend_oldE_tac | hsig_fwd_tac | log_ext]. }
    destruct (find_reg _ _ _) as [g|]; [destruct (nth_error _ g) as [kg|] eqn:Hg|]; inv_some H; try exact E1.
    apply EI_hunregister; [exact E1 | exact Hg].
Qed.

Lemma hsig_fwd_hstep s h k o : nth_error (hs s) h = Some k -> h_pc k = HGate -> hsig_fwd s (hstep s h k o).
Proof.
  intros Hn Hg. destruct (hstep_shape s h k o Hn Hg) as (k' & Hhs & Hu & _ & _ & _ & Hq & _).
  intros h0 k0 P. rewrite Hhs. destruct (Nat.eq_dec h0 h) as [->|?].
  - rewrite Hn in P. inversion P; subst. exists k'. split; [apply nth_upd_same; eapply nth_error_lt; eauto | auto].
  - exists k0. split; [apply nth_upd_fwd; auto | auto].
Qed.

Lemma EI_hstep s h k o : EI s -> nth_error (hs s) h = Some k -> h_pc k = HGate -> EI (hstep s h k o).
Proof.
  intros HE Hn Hg fr P.
  assert (HF := hsig_fwd_hstep s h k o Hn Hg).
  destruct (hstep_log s h k o) as (evs & Elog & Hev).
  assert (HL : exists evs, Server.log (hstep s h k o) = Server.log s ++ evs) by eauto.
  destruct (hstep_shape s h k o Hn Hg) as (k' & Hhs & Hu & _ & _ & _ & Hq & _).
  assert (Hk' : nth_error (hs (hstep s h k o)) h = Some k').
  { rewrite Hhs. apply nth_upd_same. eapply nth_error_lt; eauto. }
  assert (G : pending s fr \/ ~ eofl fr \/
              (fid fr = fid (h_req k) /\ (h_unary k = true \/ In (SvTrailer h fr) (Server.log (hstep s h k o))))).
  { unfold hstep in *. destruct (h_unary k) eqn:Hun.
    - destruct o; try destruct (h_hsent k) eqn:Hs;
        first [ left; exact P
              | (eapply pend_upd_h in P;
                 [ | sproj; reflexivity | sproj; reflexivity
                   | sproj; first [reflexivity | symmetry; apply upd_same; exact Hn] | sproj; no_write ]);
                [ destruct P as [P | (sk & P)]; [left; exact P | simpl in P; rewrite ?Hg in P; discriminate P] ]
              | idtac ].
      all: destruct P as [P | wX P | hX kX skX P Q | P]; sproj;
        [ left; eauto using pending
        | apply finish_unary_nth in P; destruct P as (p0 & P0 & [(E & _) | (E1 & E2)]);
          [subst p0; left; eauto using pending | inversion E2; subst fr; right; right; split; [reflexivity | left; reflexivity]]
        | apply nth_upd_cases in P; destruct P as [(-> & -> & _) | (_ & P)]; [simpl in Q; discriminate Q | left; eauto using pending]
        | in_log P; left; eauto using pending ].
    - destruct o; try destruct (h_hsent k) eqn:Hs;
        (eapply pend_upd_h in P; [ | sproj; reflexivity | sproj; reflexivity | sproj; try reflexivity | sproj; no_write ]);
        try (destruct P as [P | (sk & P)]; [left; exact P | ]).
      all: try (simpl in P; try discriminate P; inversion P; subst; clear P).
      all: try (right; left; not_eofl).
      all: try (right; right; split; [reflexivity | right; sproj; apply in_or_app; right; simpl; auto]).
      all: try (left; assumption).
      all: try (symmetry; apply upd_same; exact Hn).
      all: try (exfalso; match goal with X : h_pc _ = HInSend _ _ |- _ => rewrite Hg in X; discriminate X end). }
  destruct G as [G | [G | (Hid & Hc)]].
  - eapply justE_mono; eauto.
  - intros He. contradiction.
  - intros _. exists h, k'. split; auto. split; [congruence|]. destruct Hc as [Hc | Hc]; [left; congruence | right; exact Hc].
Qed.

Lemma EI_ext s a : EI s -> EI (Server.ext s a).
Proof.
  intros HE. destruct a; simpl.
  all: try solve [apply (EI_from_old s); [exact HE | pend_oldE_tac | hsig_fwd_tac | log_ext]].
  destruct (nth_error (hs s) h) as [k|] eqn:Hn; [|exact HE]. destruct (h_pc k) eqn:Hg; try exact HE.
  apply EI_hstep; auto.
Qed.

Theorem EI_reach nw ls s : Server.lrun (init_n nw) ls = Some s -> EI s.
Proof.
  apply lrun_inv; [intros; apply EI_ext; auto | intros; eapply EI_int; eauto | ].
  intros fr P. destruct P as [P | w P | h k sk P Q | P]; simpl in *; try discriminate; try tauto.
  - apply nth_error_In in P. apply repeat_spec in P. discriminate.
  - destruct h; discriminate.
Qed.

(* ---------- the trailers SendTrailer builds ---------- *)
Definition TR (v : Server.state) : Prop :=
  forall h fr, In (SvTrailer h fr) (Server.log v) ->
    In (SvRet h) (Server.log v) /\ exists k e, fr = trl_frame k e.

Definition no_trl (evs : list sev) : Prop := forall h fr, ~ In (SvTrailer h fr) evs.

Lemma TR_from_old s s' evs : TR s -> Server.log s' = Server.log s ++ evs -> no_trl evs -> TR s'.
Proof.
  intros HT E Hn h fr Hin. rewrite E in *. apply in_app_or in Hin. destruct Hin as [Hin | Hin]; [|exfalso; eapply Hn; eauto].
  destruct (HT _ _ Hin) as (A & B). split; auto. apply in_or_app. auto.
Qed.

Ltac no_trl_tac := let h := fresh in let fr := fresh in let X := fresh in
  intros h fr X; simpl in X; repeat (destruct X as [X | X]; [discriminate X|]); exact X.

Lemma TR_int s i s' : TR s -> rule_of i s = Some s' -> TR s'.
Proof.
  intros HT H.
  assert (G : exists evs, Server.log s' = Server.log s ++ evs /\ no_trl evs).
  { destruct i; simpl in H.
    all: try solve [ start_rule H; sproj;
                     first [ exists []; (split; [rewrite app_nil_r; reflexivity | intros ? ? []])
                           | eexists; (split; [rewrite <- ?app_assoc; reflexivity | no_trl_tac]) ] ].
    - unfold r_rd_read in H. destruct (rd s); try discriminate. destruct (Server.inbox s) as [|f rest].
      + destr_in H; inv_some H; sproj; exists []; (split; [rewrite app_nil_r; reflexivity | intros ? ? []]).
      + destruct (dispatch f) eqn:Ed; inv_some H.
        * sproj. eexists; (split; [reflexivity | no_trl_tac]).
        * sproj. eexists; (split; [reflexivity | no_trl_tac]).
        * destruct (stream_dispatch_log (add_log (set_inbox s rest) [SvRead f]) f) as (_ & _ & evs & E & Hev).
          exists ([SvRead f] ++ evs). rewrite E. unfold add_log, set_inbox; cbn [Server.log]. rewrite <- app_assoc. split; auto.
          intros h fr Hin. apply in_app_or in Hin. destruct Hin as [[Hin | []] | Hin]; [discriminate Hin|].
          destruct (Hev _ Hin) as (? & ? & ? & ? & ? & ? & X). discriminate X.
    - unfold r_rd_offer in H. destruct (rd s); try discriminate. destruct (find_idle (wk s) 0); [|discriminate]. inv_some H.
      destruct (start_unary_log (add_log (set_rd s RdRead) [SvJob n f]) n f) as (_ & _ & evs & E & Hev).
      exists ([SvJob n f] ++ evs). rewrite E. unfold add_log, set_rd; cbn [Server.log]. rewrite <- app_assoc. split; auto.
      intros h fr Hin. apply in_app_or in Hin. destruct Hin as [[Hin | []] | Hin]; [discriminate Hin|].
      destruct (Hev _ Hin) as (? & ? & ? & ? & ? & ? & X). discriminate X. }
  destruct G as (evs & E & Hn). eapply TR_from_old; eauto.
Qed.

Lemma TR_ext s a : TR s -> TR (Server.ext s a).
Proof.
  intros HT. destruct a; simpl; try exact HT.
  destruct (nth_error (hs s) h) as [k|] eqn:Hn; [|exact HT]. destruct (h_pc k) eqn:Hg; try exact HT.
  unfold hstep. destruct (h_unary k), o; try destruct (h_hsent k); try exact HT;
    try (eapply TR_from_old; [exact HT | sproj; reflexivity | no_trl_tac]).
  all: intros h0 fr Hin; sproj; apply in_app_or in Hin; destruct Hin as [Hin | [Hin | [Hin | []]]]; try discriminate Hin;
    [ destruct (HT _ _ Hin) as (A & B); split; auto; apply in_or_app; auto
    | inversion Hin; subst; split; [apply in_or_app; right; simpl; auto | eauto] ].
Qed.

Theorem TR_reach nw ls s : Server.lrun (init_n nw) ls = Some s -> TR s.
Proof. apply lrun_inv; [intros; apply TR_ext; auto | intros; eapply TR_int; eauto | intros h fr []]. Qed.

Lemma sstatus_ok e : st_code (sstatus e) = 0 -> e = HNil.
Proof. destruct e; simpl; auto; try discriminate. destruct (c =? 0) eqn:E; [discriminate | intros X; apply Z.eqb_neq in E; contradiction]. Qed.

(* C05, the ORDER of what RecvMsg returns: for every stream call the messages RecvMsg returned, in the order of the
   returns, are a prefix (list level) of the bodies of the envelopes the stream took for its id, in the order it took
   them, up to its first final envelope (bodies that do not unmarshal are reported as errors and are not messages). *)
From Coq Require Import List ZArith Bool Lia Arith.
Import ListNotations.
From Goat Require Import Model.Client Proofs.ClientBase Proofs.ClientInv Proofs.ClientLog Proofs.ClientRoute Proofs.ClientLive Proofs.ClientFin.
Open Scope Z_scope.

Definition msgs (c : nat) (l : list cev) : list Z :=
  flat_map (fun ev => match ev with EvRecvRet c' (RMsg b) => if Nat.eqb c' c then [b] else [] | _ => [] end) l.
Lemma msgs_app c l1 l2 : msgs c (l1 ++ l2) = msgs c l1 ++ msgs c l2.
Proof. unfold msgs. apply flat_map_app. Qed.

(* bodies of the envelopes before the first final one *)
Fixpoint stream_bodies (es : list env) : list Z :=
  match es with
  | [] => []
  | e :: t => if is_final e then [] else match ebody e with Some b => b :: stream_bodies t | None => stream_bodies t end
  end.
Definition good (l : list Z) : list Z := filter (fun b => negb (b <? 0)) l.
Definition pfx {A} (a b : list A) : Prop := exists r, b = a ++ r.
Definition pend (k : call) : list Z := match s_loop k with LHand b => good [b] | _ => [] end.

Lemma good_app a b : good (a ++ b) = good a ++ good b. Proof. apply filter_app. Qed.
Lemma pfx_refl {A} (a : list A) : pfx a a. Proof. exists []. symmetry; apply app_nil_r. Qed.
Lemma pfx_trans {A} (a b c : list A) : pfx a b -> pfx b c -> pfx a c.
Proof. intros [r ->] [r' ->]. exists (r ++ r'). rewrite app_assoc. reflexivity. Qed.
Lemma pfx_app {A} (a r : list A) : pfx a (a ++ r). Proof. exists r; reflexivity. Qed.
Lemma pfx_good a b : pfx a b -> pfx (good a) (good b).
Proof. intros [r ->]. rewrite good_app. apply pfx_app. Qed.
Lemma sb_mono t t' : pfx (stream_bodies t) (stream_bodies (t ++ t')).
Proof.
  induction t as [|e t IH]; simpl. exists (stream_bodies t'); reflexivity.
  destruct (is_final e). apply pfx_refl. destruct (ebody e); auto.
  destruct IH as [r ->]. exists r. reflexivity.
Qed.
Lemma sb_app_nf t t' : (forall e, In e t -> is_final e = false) -> stream_bodies (t ++ t') = stream_bodies t ++ stream_bodies t'.
Proof.
  induction t as [|e t IH]; simpl; intros H; auto. rewrite (H e (or_introl eq_refl)).
  destruct (ebody e); rewrite IH; auto.
Qed.

Definition oinv (s : state) : Prop :=
  forall c k, nth_error (calls s) c = Some k ->
    (pc_fresh (k_pc k) = true -> msgs c (log s) = []) /\
    pfx (msgs c (log s) ++ pend k) (good (stream_bodies (taken c (log s)))) /\
    (loop_running k = true -> good (stream_bodies (taken c (log s))) = msgs c (log s) ++ pend k).

Lemma oinv_init : oinv init.
Proof. intros c k H. destruct c; discriminate. Qed.

(* the shapes of a step of call c, as far as the order invariant is concerned *)
Inductive ostep (k k' : call) (te : list env) (me : list Z) : Prop :=
| os_same : s_loop k' = s_loop k -> te = [] -> me = [] -> ostep k k' te me
| os_start : pc_fresh (k_pc k) = true -> s_loop k' = LRead -> te = [] -> me = [] -> ostep k k' te me
| os_take_none e : s_loop k = LRead -> s_loop k' = LRead -> te = [e] -> me = [] -> final_of e = None -> ebody e = None -> ostep k k' te me
| os_take_body e b : s_loop k = LRead -> s_loop k' = LHand b -> te = [e] -> me = [] -> final_of e = None -> ebody e = Some b -> ostep k k' te me
| os_hand b : s_loop k = LHand b -> s_loop k' = LRead -> te = [] -> me = good [b] -> ostep k k' te me
| os_stop : loop_running k' = false -> me = [] -> ostep k k' te me.

Lemma oinv_upd s s' c k k' evs :
  oinv s -> finv s -> nth_error (calls s) c = Some k -> calls s' = upd c k' (calls s) -> log s' = log s ++ evs ->
  (forall c', c' <> c -> taken c' evs = [] /\ msgs c' evs = []) ->
  (pc_fresh (k_pc k') = true -> pc_fresh (k_pc k) = true) ->
  ostep k k' (taken c evs) (msgs c evs) ->
  oinv s'.
Proof.
  intros HO HF Hn Hc Hl Hoth Hp Hs c0 k0 H0. rewrite Hl, taken_app, msgs_app.
  rewrite Hc in H0. apply nth_upd_inv in H0. destruct H0 as [[-> ->]|[Hne H0]].
  2:{ destruct (Hoth _ Hne) as [-> ->]. rewrite !app_nil_r. apply HO; auto. }
  destruct (HO _ _ Hn) as (O1 & O2 & O3). destruct (HF _ _ Hn) as [F1 F2].
  assert (Hpend_nr : forall kk, loop_running kk = false -> pend kk = []).
  { intros kk. unfold loop_running, pend. destruct (s_loop kk); auto; discriminate. }
  destruct Hs as [A B C|A B C D|e A B C D E G|e b A B C D E G|b A B C D|A B].
  - rewrite B, C, !app_nil_r. unfold pend, loop_running. rewrite A. fold (pend k). repeat split; auto.
  - rewrite C, D, !app_nil_r. specialize (O1 A). rewrite O1. rewrite (F2 A). unfold pend, loop_running. rewrite B. simpl.
    repeat split; auto. apply pfx_refl.
  - assert (Hr : loop_running k = true) by (unfold loop_running; rewrite A; auto).
    rewrite C, D, app_nil_r. rewrite (sb_app_nf _ _ (F1 Hr)). simpl. unfold is_final. rewrite E, G. simpl. rewrite app_nil_r.
    specialize (O3 Hr). unfold pend in *. rewrite A in O3. rewrite B. rewrite app_nil_r in *. repeat split.
    + intros Hf. specialize (Hp Hf). pose proof (F2 Hp). auto.
    + rewrite O3. apply pfx_refl.
    + auto.
  - assert (Hr : loop_running k = true) by (unfold loop_running; rewrite A; auto).
    rewrite C, D, app_nil_r. rewrite (sb_app_nf _ _ (F1 Hr)). simpl. unfold is_final. rewrite E, G. simpl.
    specialize (O3 Hr). unfold pend in *. rewrite A in O3. rewrite B. rewrite app_nil_r in O3. rewrite good_app, O3. repeat split.
    + intros Hf. auto.
    + apply pfx_refl.
  - assert (Hr : loop_running k = true) by (unfold loop_running; rewrite A; auto).
    rewrite C, D, app_nil_r. specialize (O3 Hr). unfold pend in *. rewrite A in O3. rewrite B, app_nil_r. repeat split.
    + intros Hf. specialize (Hp Hf). specialize (O1 Hp). rewrite O1 in O3.
      pose proof (F2 Hp) as T0. rewrite T0 in O3. simpl in O3. rewrite O1. simpl. auto.
    + rewrite O3. apply pfx_refl.
    + auto.
  - rewrite B, app_nil_r, (Hpend_nr _ A), app_nil_r. repeat split.
    + auto.
    + eapply pfx_trans; [|apply pfx_good, sb_mono]. eapply pfx_trans; [apply pfx_app|exact O2].
    + rewrite A. discriminate.
Qed.

Lemma oinv_same s s' evs : oinv s -> calls s' = calls s -> log s' = log s ++ evs -> (forall c, taken c evs = [] /\ msgs c evs = []) -> oinv s'.
Proof.
  intros HO Hc Hl Ht c k Hn. rewrite Hl, taken_app, msgs_app. destruct (Ht c) as [-> ->]. rewrite !app_nil_r. rewrite Hc in Hn. eauto.
Qed.

Lemma oinv_chan s s' c k ch r evs :
  oinv s -> nth_error (calls s) c = Some k -> calls s' = upd c (set_chan k ch r) (calls s) -> log s' = log s ++ evs ->
  (forall c, taken c evs = [] /\ msgs c evs = []) -> oinv s'.
Proof.
  intros HO Hn Hc Hl Ht c0 k0 H0. rewrite Hl, taken_app, msgs_app. destruct (Ht c0) as [-> ->]. rewrite !app_nil_r.
  rewrite Hc in H0. apply nth_upd_inv in H0. destruct H0 as [[-> ->]|[_ H0]]; eauto. apply (HO _ _ Hn).
Qed.

Lemma oinv_with_call s c f :
  oinv s -> finv s -> (forall k k', f k = Some k' -> k_pc k' = k_pc k /\ s_loop k' = s_loop k) -> oinv (with_call s c f).
Proof.
  intros HO HF Hf. unfold with_call. destruct (nth_error (calls s) c) eqn:E; auto. destruct (f c0) eqn:Ef; auto.
  destruct (Hf _ _ Ef) as [A B].
  apply (oinv_upd s (set_call s c c1) c c0 c1 [] HO HF E); csimpl; auto.
  - rewrite app_nil_r; auto.
  - rewrite A; auto.
  - apply os_same; auto.
Qed.

Ltac owc k := apply oinv_with_call; auto; intros k k' H;
  repeat match type of H with
         | match ?x with _ => _ end = Some _ => destruct x eqn:?; try discriminate H
         end; inversion H; subst k'; clear H; csimpl; auto.

Lemma in_taken c e l : In (EvTake c e) l -> In e (taken c l).
Proof.
  unfold taken. intros H. apply in_flat_map. exists (EvTake c e). split; auto. rewrite Nat.eqb_refl. left; auto.
Qed.

Lemma msgs_nil s c : linv s -> taken c (log s) = [] -> msgs c (log s) = [].
Proof.
  intros HL Ht. destruct (msgs c (log s)) as [|b m] eqn:E; auto. exfalso.
  assert (Hin : In b (msgs c (log s))) by (rewrite E; left; auto).
  unfold msgs in Hin. apply in_flat_map in Hin. destruct Hin as (ev & Hev & Hb).
  destruct ev; try contradiction. destruct r; try contradiction. destruct (Nat.eqb_spec c0 c); [|contradiction]. subst c0.
  destruct Hb as [<-|[]]. pose proof (li_ev _ HL _ Hev) as J. simpl in J. destruct J as (e & He & _).
  apply in_taken in He. rewrite Ht in He. contradiction.
Qed.

Lemma oinv_ext s a : rinv s -> finv s -> linv s -> oinv s -> oinv (ext s a).
Proof.
  intros HR HF HL HO. destruct a; simpl; try solve [owc k];
    try solve [eapply (oinv_same s _ []); eauto; csimpl; try reflexivity; rewrite app_nil_r; auto].
  - intros c k Hn. csimpl. apply nth_app_cases in Hn. destruct Hn as [[Hn _]|[-> ->]]; [apply (HO _ _ Hn)|].
    destruct (ri_beyond _ HR (length (calls s)) (le_n _)) as (_ & T & _). rewrite (msgs_nil _ _ HL T), T. simpl.
    repeat split; auto; try apply pfx_refl; try (intros; discriminate).
  - intros c k Hn. csimpl. apply nth_app_cases in Hn. destruct Hn as [[Hn _]|[-> ->]]; [apply (HO _ _ Hn)|].
    destruct (ri_beyond _ HR (length (calls s)) (le_n _)) as (_ & T & _). rewrite (msgs_nil _ _ HL T), T. simpl.
    repeat split; auto; try apply pfx_refl; try (intros; discriminate).
  - destruct (nth_error (calls s) c) eqn:E; auto. destruct (k_pc c0) eqn:Ep; auto.
    match goal with |- oinv ?s' => apply (oinv_upd s s' c c0 (set_id (set_pc c0 PReg) (counter s + 1)) [] HO HF E) end; csimpl; auto.
    + rewrite app_nil_r; auto.
    + intros _. rewrite Ep. auto.
    + apply os_same; auto.
Qed.

Ltac oupd HO HF :=
  match goal with
  | E : nth_error (calls ?s) ?c = Some ?k |- oinv ?s' =>
      let cs := eval cbn [calls set_call add_log] in (calls s') in
      let k' := match cs with upd _ ?x _ => x end in
      eapply (oinv_upd s s' c k k' _ HO HF E); csimpl;
      [ reflexivity
      | first [ reflexivity | symmetry; apply app_nil_r | rewrite <- app_assoc; reflexivity ]
      | let cc := fresh "cc" in let Hcc := fresh "Hcc" in
        try (intros cc Hcc; simpl; first [split; reflexivity | destruct (Nat.eqb_spec c cc); [congruence | split; reflexivity]])
      | try match goal with |- context [if k_reg ?x then _ else _] => destruct (k_reg x); csimpl end;
        let Hf := fresh "Hf" in intros Hf; try discriminate Hf;
        try solve [ exact Hf | match goal with Ep : k_pc k = _ |- _ => rewrite Ep end; reflexivity ]
      | simpl; rewrite ?Nat.eqb_refl; simpl;
        try match goal with |- context [if k_reg ?x then _ else _] => destruct (k_reg x); csimpl end;
        first
          [ solve [apply os_same; csimpl; auto]
          | solve [apply os_stop; unfold loop_running; csimpl; auto]
          | solve [apply os_start; csimpl; auto; match goal with Ep : k_pc k = _ |- _ => rewrite Ep end; reflexivity]
          | solve [eapply os_take_none; csimpl; eauto]
          | solve [eapply os_take_body; csimpl; eauto]
          | solve [eapply os_hand; csimpl; eauto; unfold good; simpl; match goal with Eb : (_ <? 0) = _ |- _ => rewrite Eb end; reflexivity]
          | idtac ] ]
  end.

Lemma oinv_step s l s' : cinv s -> rinv s -> linv s -> finv s -> oinv s -> lstep s l = Some s' -> oinv s'.
Proof.
  intros HI HR HL HF HO H. apply lstep_kind in H. destruct H.
  - subst. apply oinv_ext; auto.
  - unfold r_rl_unblock in H. open_rule H.
    + eapply (oinv_same s _ [_]); eauto; csimpl; try reflexivity; try (intros; split; reflexivity).
    + eapply (oinv_chan s _ c c0 _ _ []); eauto; csimpl; try reflexivity; try (rewrite app_nil_r; auto).
  - unfold r_rl_read in H. open_rule H.
    + intros c k' Hn. csimpl. unfold close_all in Hn. apply nth_map_inv in Hn. destruct Hn as (k & Hk & ->).
      destruct (HO _ _ Hk) as (O1 & O2 & O3). unfold pend, loop_running in *. destruct (k_reg k); csimpl; auto.
    + eapply (oinv_same s _ [_]); eauto; csimpl; try reflexivity; try (intros; split; reflexivity).
    + eapply (oinv_chan s _ n c _ _ [_]); eauto; csimpl; try reflexivity; try (intros; split; reflexivity).
    + eapply (oinv_same s _ [_; _]); eauto; csimpl; try (rewrite <- app_assoc; reflexivity); try (intros; split; reflexivity).
  - unfold r_check in H. open_rule H; oupd HO HF.
  - unfold r_reg in H. open_rule H; oupd HO HF.
  - unfold r_wait in H. open_rule H; oupd HO HF.
    apply os_stop; auto. unfold loop_running; csimpl. pose proof (cinv_call _ _ _ HI E) as Kc.
    destruct (s_loop c0) eqn:El; auto; exfalso;
      (assert (Hal : loop_alive c0 = true) by (unfold loop_alive; rewrite El; reflexivity));
      pose proof (ki_loop_open _ Kc Hal) as Hop; rewrite E0 in Hop; discriminate Hop.
  - unfold r_wait_ctx in H. open_rule H; oupd HO HF.
  - unfold r_unreg in H. open_rule H; oupd HO HF.
  - unfold r_loop_read, closed_err in H. open_rule H; oupd HO HF.
  - unfold r_loop_read_ctx in H. open_rule H; oupd HO HF.
  - unfold r_loop_hand in H. open_rule H; destruct (b <? 0) eqn:Eb; oupd HO HF;
      eapply os_hand; csimpl; eauto; unfold good; simpl; rewrite Eb; reflexivity.
  - unfold r_loop_hand_ctx in H. open_rule H; oupd HO HF.
  - unfold r_loop_exit in H. open_rule H; oupd HO HF.
  - unfold r_loop_unreg in H. open_rule H; oupd HO HF.
  - unfold r_recv, recv_final in H. open_rule H; try destruct (s_rerr c0); oupd HO HF.
  - unfold r_header in H. open_rule H; oupd HO HF.
  - unfold r_trailer in H. open_rule H; oupd HO HF.
  - unfold r_send in H. open_rule H; oupd HO HF.
Qed.

Lemma oinv_reach ls s : lrun init ls = Some s -> oinv s.
Proof.
  intros H.
  assert (HH : ((cinv s /\ sinv s /\ linv s /\ rinv s) /\ finv s) /\ oinv s).
  { eapply (lrun_inv (fun s => ((cinv s /\ sinv s /\ linv s /\ rinv s) /\ finv s) /\ oinv s)); eauto.
    - intros s0 l s' [[(HI & HS & HL & HR) HF] HO] Hs.
      split; [split; [split; [|split; [|split]]|]|]; eauto using cinv_step, sinv_step, linv_step, rinv_step, finv_step, oinv_step.
    - split; [split; [split; [|split; [|split]]|]|]. apply cinv_init. apply sinv_init. apply linv_init. apply rinv_init. apply finv_init. apply oinv_init. }
  tauto.
Qed.

(* the order of RecvMsg results *)
Lemma C05_recv_order_l ls s : lrun init ls = Some s ->
  forall c k, nth_error (calls s) c = Some k ->
    pfx (msgs c (log s)) (good (stream_bodies (taken c (log s)))) /\
    (loop_running k = true -> s_loop k = LRead -> msgs c (log s) = good (stream_bodies (taken c (log s)))).
Proof.
  intros H c k Hn. destruct (oinv_reach _ _ H _ _ Hn) as (_ & O2 & O3). split.
  - eapply pfx_trans; [apply pfx_app|exact O2].
  - intros Hr El. rewrite (O3 Hr). unfold pend. rewrite El. rewrite app_nil_r. reflexivity.
Qed.

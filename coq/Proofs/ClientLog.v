(* Invariants of Model/Client.v that relate the history log to the state: every
   success is justified by an envelope the call took from its own queue, every
   taken envelope was read from the transport and routed to that call by its
   id, every id on the wire belongs to a call, nothing panics (C05, C09, C13). *)
From Coq Require Import List ZArith Bool Lia Arith.
Import ListNotations.
From Goat Require Import Model.Client Proofs.ClientBase Proofs.ClientInv.
Open Scope Z_scope.

Definition justified (c : nat) (b : Z) (l : list cev) : Prop := exists e, In (EvTake c e) l /\ ebody e = Some b.
Definition owner (s : state) (c : nat) (id : Z) : Prop := exists k, nth_error (calls s) c = Some k /\ k_id k = id /\ 0 < id.

Definition ev_ok (s : state) (ev : cev) : Prop :=
  match ev with
  | EvUnaryRet c (UOk b) => justified c b (log s)
  | EvRecvRet c (RMsg b) => justified c b (log s)
  | EvTake c e => owner s c (eid e) /\ In (EvRead e (Some c)) (log s)
  | EvRead e (Some c) => owner s c (eid e)
  | EvRead e None => In (EvUnhandled (eid e)) (log s)
  | EvDrop c e => In (EvRead e (Some c)) (log s)
  | EvWrite e => exists c, owner s c (eid e)
  | EvPanic _ => False
  | _ => True
  end.

Record linv (s : state) : Prop := mkLinv {
  li_ev : forall ev, In ev (log s) -> ev_ok s ev;
  li_unreg : forall c k b, nth_error (calls s) c = Some k -> k_pc k = PUnreg (UOk b) -> justified c b (log s);
  li_hand : forall c k b, nth_error (calls s) c = Some k -> s_loop k = LHand b -> justified c b (log s);
  li_buf : forall c k e, nth_error (calls s) c = Some k -> cbuf (k_chan k) = Some e ->
                         eid e = k_id k /\ 0 < k_id k /\ In (EvRead e (Some c)) (log s);
  li_hold : forall c e, rl s = RLHold c e -> In (EvRead e (Some c)) (log s) }.

Lemma linv_init : linv init.
Proof.
  constructor; simpl; intros; try tauto; try discriminate;
  repeat match goal with H : nth_error [] ?i = Some _ |- _ => destruct i; discriminate H end.
Qed.

Definition grows (s s' : state) : Prop :=
  (forall ev, In ev (log s) -> In ev (log s')) /\
  (forall c k, nth_error (calls s) c = Some k -> 0 < k_id k -> exists k', nth_error (calls s') c = Some k' /\ k_id k' = k_id k).

Lemma justified_mono c b l l' : (forall ev, In ev l -> In ev l') -> justified c b l -> justified c b l'.
Proof. intros H (e & Hin & Hb). exists e. auto. Qed.

Lemma owner_mono s s' c id : grows s s' -> owner s c id -> owner s' c id.
Proof.
  intros [_ G] (k & Hn & Hid & Hpos). subst id. destruct (G _ _ Hn Hpos) as (k' & Hn' & Hid'). exists k'. rewrite Hid'. auto.
Qed.

Lemma ev_ok_mono s s' ev : grows s s' -> ev_ok s ev -> ev_ok s' ev.
Proof.
  intros G H. pose proof G as [GL _]. destruct ev; simpl in *; auto.
  - destruct H as (c & H). exists c. eapply owner_mono; eauto.
  - destruct r; auto. eapply justified_mono; eauto.
  - destruct r; auto. eapply justified_mono; eauto.
  - destruct to; auto. eapply owner_mono; eauto.
  - destruct H. split; auto. eapply owner_mono; eauto.
Qed.

Lemma classify_ok e b : classify e = UOk b -> ebody e = Some b.
Proof.
  unfold classify. destruct (estatus e) as [st|]; [destruct (st_code st =? 0)|]; destruct (ebody e) as [x|]; try discriminate;
    destruct (x <? 0); try discriminate; intros H; inversion H; auto.
Qed.

(* the update of one call by one rule: what has to be shown *)
Lemma linv_upd s s' c k k' evs :
  linv s -> nth_error (calls s) c = Some k -> calls s' = upd c k' (calls s) -> log s' = log s ++ evs ->
  (forall c0 e, rl s' = RLHold c0 e -> rl s = RLHold c0 e \/ In (EvRead e (Some c0)) (log s')) ->
  (0 < k_id k -> k_id k' = k_id k) ->
  (forall ev, In ev evs -> ev_ok s' ev) ->
  (forall b, k_pc k' = PUnreg (UOk b) -> k_pc k = PUnreg (UOk b) \/ justified c b (log s')) ->
  (forall b, s_loop k' = LHand b -> s_loop k = LHand b \/ justified c b (log s')) ->
  (forall e, cbuf (k_chan k') = Some e ->
     (cbuf (k_chan k) = Some e /\ k_id k' = k_id k) \/ (eid e = k_id k' /\ 0 < k_id k' /\ In (EvRead e (Some c)) (log s'))) ->
  linv s'.
Proof.
  intros [L1 L2 L3 L4 L5] Hn Hc Hl Hrl Hid Hev Hu Hh Hb.
  assert (GL : forall ev, In ev (log s) -> In ev (log s')) by (intros; rewrite Hl; apply in_or_app; auto).
  assert (G : grows s s').
  { split; auto. intros c0 k0 H0 Hpos. rewrite Hc. destruct (Nat.eq_dec c c0).
    - subst c0. rewrite Hn in H0. inversion H0; subst k0. exists k'. rewrite nth_upd_eq by eauto using nth_some_lt. auto.
    - exists k0. rewrite nth_upd_neq by auto. auto. }
  constructor.
  - intros ev Hin. rewrite Hl in Hin. apply in_app_or in Hin. destruct Hin as [Hin|Hin]; auto. eapply ev_ok_mono; eauto.
  - intros c0 k0 b H0 Hp. rewrite Hc in H0. apply nth_upd_inv in H0. destruct H0 as [[-> ->]|[_ H0]].
    + destruct (Hu _ Hp) as [Hp'|]; auto. eapply justified_mono; eauto.
    + eapply justified_mono; eauto.
  - intros c0 k0 b H0 Hp. rewrite Hc in H0. apply nth_upd_inv in H0. destruct H0 as [[-> ->]|[_ H0]].
    + destruct (Hh _ Hp) as [Hp'|]; auto. eapply justified_mono; eauto.
    + eapply justified_mono; eauto.
  - intros c0 k0 e H0 Hp. rewrite Hc in H0. apply nth_upd_inv in H0. destruct H0 as [[-> ->]|[_ H0]].
    + destruct (Hb _ Hp) as [[Hp' Hi]|]; auto. destruct (L4 _ _ _ Hn Hp') as (A & B & C). rewrite Hi. auto.
    + destruct (L4 _ _ _ H0 Hp) as (A & B & C). auto.
  - intros c0 e Hh'. apply Hrl in Hh'. destruct Hh'; auto.
Qed.

(* a step that only appends to the log *)
Lemma linv_same s s' evs :
  linv s -> calls s' = calls s -> log s' = log s ++ evs ->
  (forall c0 e, rl s' = RLHold c0 e -> rl s = RLHold c0 e \/ In (EvRead e (Some c0)) (log s')) ->
  (forall ev, In ev evs -> ev_ok s' ev) -> linv s'.
Proof.
  intros [L1 L2 L3 L4 L5] Hc Hl Hrl Hev.
  assert (GL : forall ev, In ev (log s) -> In ev (log s')) by (intros; rewrite Hl; apply in_or_app; auto).
  assert (G : grows s s') by (split; auto; intros c0 k0 H0 _; rewrite Hc; eauto).
  constructor; try rewrite Hc.
  - intros ev Hin. rewrite Hl in Hin. apply in_app_or in Hin. destruct Hin as [Hin|Hin]; auto. eapply ev_ok_mono; eauto.
  - intros. eapply justified_mono; eauto.
  - intros. eapply justified_mono; eauto.
  - intros c0 k0 e H0 Hp. destruct (L4 _ _ _ H0 Hp) as (A & B & C). auto.
  - intros c0 e Hh'. apply Hrl in Hh'. destruct Hh'; auto.
Qed.

Lemma linv_with_call s c f :
  linv s -> (forall k k', f k = Some k' -> k_id k' = k_id k /\ k_pc k' = k_pc k /\ s_loop k' = s_loop k /\ k_chan k' = k_chan k) ->
  linv (with_call s c f).
Proof.
  intros HL Hf. unfold with_call. destruct (nth_error (calls s) c) eqn:E; auto.
  destruct (f c0) eqn:Ef; auto. destruct (Hf _ _ Ef) as (A & B & C & D).
  apply (linv_upd s (set_call s c c1) c c0 c1 [] HL E).
  - reflexivity.
  - csimpl. rewrite app_nil_r; auto.
  - auto.
  - auto.
  - simpl; tauto.
  - intros b Hb. left. congruence.
  - intros b Hb. left. congruence.
  - intros e He. left. rewrite <- D. auto.
Qed.

Ltac lwc k := apply linv_with_call; auto; intros k k' H;
  repeat match type of H with
         | match ?x with _ => _ end = Some _ => destruct x eqn:?; try discriminate H
         end; inversion H; subst k'; clear H; csimpl; auto.

Lemma linv_new s s' k0 :
  linv s -> calls s' = calls s ++ [k0] -> log s' = log s -> rl s' = rl s ->
  k_pc k0 = PCheck true \/ k_pc k0 = PCheck false -> s_loop k0 = LDead -> cbuf (k_chan k0) = None -> linv s'.
Proof.
  intros [L1 L2 L3 L4 L5] Hc Hl Hrl Hp Hlp Hb.
  assert (G : grows s s').
  { split. rewrite Hl; auto. intros c0 k1 H0 _. exists k1. rewrite Hc. rewrite nth_error_app1; eauto using nth_some_lt. }
  constructor; rewrite ?Hl, ?Hrl; auto.
  - intros ev Hin. eapply ev_ok_mono; eauto.
  - intros c k b Hn Hpc. rewrite Hc in Hn. apply nth_app_cases in Hn. destruct Hn as [[Hn _]|[_ ->]]; eauto.
    destruct Hp; congruence.
  - intros c k b Hn Hpc. rewrite Hc in Hn. apply nth_app_cases in Hn. destruct Hn as [[Hn _]|[_ ->]]; eauto. congruence.
  - intros c k e Hn Hpc. rewrite Hc in Hn. apply nth_app_cases in Hn. destruct Hn as [[Hn _]|[_ ->]]; eauto. congruence.
Qed.

Lemma linv_ext s a : cinv s -> linv s -> linv (ext s a).
Proof.
  intros HI HL. destruct a; simpl; try solve [lwc k].
  - eapply linv_new; eauto; csimpl; auto. destruct park; auto.
  - eapply linv_new; eauto; csimpl; auto. destruct park; auto.
  - destruct (nth_error (calls s) c) eqn:E; auto. destruct (k_pc c0) eqn:Ep; auto.
    match goal with |- linv ?s' => apply (linv_upd s s' c c0 (set_id (set_pc c0 PReg) (counter s + 1)) [] HL E) end; csimpl.
    + reflexivity.
    + rewrite app_nil_r; auto.
    + auto.
    + intros Hpos. pose proof (ki_noid _ (cinv_call _ _ _ HI E)) as H0. rewrite Ep in H0. specialize (H0 eq_refl). lia.
    + simpl; tauto.
    + intros; discriminate.
    + intros b Hb. left; auto.
    + intros e He. exfalso. destruct (li_buf _ HL _ _ _ E He) as (_ & Hpos & _).
      pose proof (ki_noid _ (cinv_call _ _ _ HI E)) as H0. rewrite Ep in H0. specialize (H0 eq_refl). lia.
  - (* ADeliver *) eapply (linv_same s _ []); eauto; csimpl; try reflexivity. rewrite app_nil_r; auto. simpl; tauto.
  - eapply (linv_same s _ []); eauto; csimpl; try reflexivity. rewrite app_nil_r; auto. simpl; tauto.
  - eapply (linv_same s _ []); eauto; csimpl; try reflexivity. rewrite app_nil_r; auto. simpl; tauto.
Qed.

Lemma in_snoc {A} (x : A) l : In x (l ++ [x]).
Proof. apply in_or_app; right; simpl; auto. Qed.

Lemma in_snoc2 {A} (x y : A) l : In x ((l ++ [x]) ++ [y]).
Proof. apply in_or_app; left. apply in_snoc. Qed.

Ltac lupd HL :=
  match goal with
  | E : nth_error (calls ?s) ?c = Some ?k |- linv ?s' =>
      let cs := eval cbn [calls set_call add_log] in (calls s') in
      let k' := match cs with upd _ ?x _ => x end in
      eapply (linv_upd s s' c k k' _ HL E); csimpl;
      [ reflexivity
      | first [ reflexivity | symmetry; apply app_nil_r | rewrite <- app_assoc; reflexivity ]
      | let Hh := fresh "Hh" in intros ? ? Hh; first [left; exact Hh | congruence]
      | try (intros; reflexivity)
      | simpl; intros evv Hin; repeat (destruct Hin as [<-|Hin]; [simpl|]); try (destruct Hin); try exact I
      | intros bb Hbb; try discriminate Hbb; try (left; assumption); try (left; congruence)
      | intros bb Hbb; try discriminate Hbb; try (left; assumption); try (left; congruence)
      | intros ee Hee; try discriminate Hee; try (left; split; [assumption|reflexivity]) ]
  end.

Lemma owner_upd s s' c k k' :
  nth_error (calls s) c = Some k -> calls s' = upd c k' (calls s) -> 0 < k_id k' -> owner s' c (k_id k').
Proof.
  intros Hn Hc Hp. exists k'. rewrite Hc. rewrite nth_upd_eq by eauto using nth_some_lt. auto.
Qed.

Lemma pos_id k : kinv k -> pc_has_id (k_pc k) = true \/ loop_alive k = true \/ ops_pending k = true -> 0 < k_id k.
Proof.
  intros K [H|[H|H]].
  - apply (ki_id _ K); auto.
  - apply (ki_id _ K). rewrite (ki_loop_open _ K H). reflexivity.
  - apply (ki_id _ K). rewrite (ki_ops_open _ K H). reflexivity.
Qed.

Lemma no_panic k : kinv k -> s_recv k = RFinal -> protected_free k = true -> s_done k = false -> sctx_done k = false -> False.
Proof.
  intros K Hr Hf Hd Hc. pose proof (ki_final _ K) as F. rewrite Hr in F. destruct (F eq_refl) as [F1|F1]; [|congruence].
  pose proof (ki_rch_open _ K F1) as Hp. unfold protected_free in Hf.
  destruct (ki_rch_loop _ K F1) as [El|El]; rewrite El in Hf; try discriminate.
  destruct (ki_dead_done _ K Hp) as [_ D]. unfold loop_alive; rewrite El; auto. congruence.
Qed.

Lemma in_app_l {A} (x : A) l l' : In x l -> In x (l ++ l').
Proof. intros; apply in_or_app; auto. Qed.

(* finishing tactics for the goals [lupd] leaves *)
Ltac kreg_cases := try match goal with |- context [if k_reg ?k then _ else _] => destruct (k_reg k) eqn:?; csimpl end;
                   try match goal with H : context [if k_reg ?k then _ else _] |- _ => destruct (k_reg k) eqn:?; csimpl end.

Ltac pos_tac K :=
  apply (pos_id _ K); unfold loop_alive, ops_pending, recv_pending, header_pending, send_pending, trailer_pending;
  repeat match goal with Ex : ?f ?k = _ |- context [?f ?k] => rewrite Ex end; simpl; auto with bool;
  solve [ left; reflexivity | right; left; reflexivity | right; right; auto with bool | right; right; rewrite ?orb_true_r; reflexivity ].

Ltac own_tac K c :=
  exists c; eexists; split; [csimpl; apply nth_upd_eq; eauto using nth_some_lt | csimpl; split; [reflexivity | pos_tac K]].

Ltac lfin HI HL :=
  match goal with
  | E : nth_error (calls ?s) ?c = Some ?k |- _ =>
      let K := fresh "K" in
      pose proof (cinv_call _ _ _ HI E) as K;
      kreg_cases;
      try solve
        [ intros; reflexivity
        | left; split; [assumption | reflexivity]
        | left; assumption
        | exact I
        | (* owner of a written envelope *) own_tac K c
        | (* taken envelope *)
          match goal with Eb : cbuf (k_chan k) = Some ?e |- _ =>
            destruct (li_buf _ HL _ _ _ E Eb) as (A & B & C);
            split; [ eexists; split; [csimpl; apply nth_upd_eq; eauto using nth_some_lt | csimpl; split; [auto | lia]]
                   | apply in_app_l; exact C ]
          end
        | (* success of a unary call *)
          match goal with |- match ?r with UOk _ => _ | UErr _ => _ end =>
            destruct r; [eapply justified_mono; [|eapply (li_unreg _ HL); eauto]; intros; apply in_app_l; auto | exact I] end
        | match goal with |- match (if ?b <? 0 then _ else _) with RMsg _ => _ | RErr _ => _ end =>
            destruct (b <? 0); [exact I | eapply justified_mono; [|eapply (li_hand _ HL); eauto]; intros; apply in_app_l; auto] end
        | unfold recv_final; destruct (s_rerr k); exact I
        | exfalso; eapply (no_panic k); eauto
        | (* r_wait / r_loop_read: the new result comes from the envelope just taken *)
          match goal with
          | Hbb : PUnreg (classify ?e) = PUnreg (UOk ?bb) |- _ =>
              inversion Hbb; right; exists e; split; [apply in_snoc | apply classify_ok; auto]
          | Hbb : LHand ?b = LHand ?bb |- _ =>
              inversion Hbb; subst; right; eexists; split; [apply in_snoc | assumption]
          end
        | (* a call without id cannot have anything queued *)
          exfalso;
          match goal with
          | Hee : cbuf (k_chan k) = Some _ |- _ =>
              destruct (li_buf _ HL _ _ _ E Hee) as (_ & B & _);
              pose proof (ki_noid _ K) as H0;
              match goal with Ep : k_pc k = _ |- _ => rewrite Ep in H0 end; specialize (H0 eq_refl); lia
          | |- _ =>
              pose proof (ki_noid _ K) as H0;
              match goal with Ep : k_pc k = _ |- _ => rewrite Ep in H0 end; specialize (H0 eq_refl);
              match goal with Hp : 0 < k_id k |- _ => lia end
          end
        | intros Hpos; exfalso; pose proof (ki_noid _ K) as H0;
          match goal with Ep : k_pc k = _ |- _ => rewrite Ep in H0 end; specialize (H0 eq_refl); lia ]
  end.

Lemma was_reg_pos k : kinv k -> was_reg k = true -> 0 < k_id k.
Proof.
  intros K H. unfold was_reg in H. apply orb_true_iff in H. destruct H as [H|H].
  - apply (ki_id _ K). pose proof (ki_reg_pc _ K H). destruct (k_pc k); auto; discriminate.
  - apply (ki_closed_id _ K H).
Qed.

(* closeError: every registered call is closed and dropped *)
Lemma linv_close_all s s' :
  linv s -> calls s' = close_all (calls s) -> log s' = log s -> rl s' = RLDead -> linv s'.
Proof.
  intros [L1 L2 L3 L4 L5] Hc Hl Hrl.
  assert (Hf : forall c k', nth_error (calls s') c = Some k' ->
            exists k, nth_error (calls s) c = Some k /\ k_id k' = k_id k /\ k_pc k' = k_pc k /\ s_loop k' = s_loop k /\
                      cbuf (k_chan k') = cbuf (k_chan k)).
  { intros c k' Hn. rewrite Hc in Hn. unfold close_all in Hn. apply nth_map_inv in Hn. destruct Hn as (k & Hk & ->).
    exists k. destruct (k_reg k); auto. }
  assert (G : grows s s').
  { split. rewrite Hl; auto. intros c k Hn _. rewrite Hc. unfold close_all.
    exists (if k_reg k then set_chan k (mkChan (cbuf (k_chan k)) true) false else k).
    split. apply (map_nth_error (fun k0 => if k_reg k0 then set_chan k0 (mkChan (cbuf (k_chan k0)) true) false else k0) c (calls s) Hn). destruct (k_reg k); auto. }
  constructor; rewrite ?Hl, ?Hrl.
  - intros ev Hin. eapply ev_ok_mono; eauto.
  - intros c k' b Hn Hp. destruct (Hf _ _ Hn) as (k & Hk & _ & P & _). rewrite P in Hp. eauto.
  - intros c k' b Hn Hp. destruct (Hf _ _ Hn) as (k & Hk & _ & _ & P & _). rewrite P in Hp. eauto.
  - intros c k' e Hn Hp. destruct (Hf _ _ Hn) as (k & Hk & I & _ & _ & P). rewrite P in Hp. rewrite I. eauto.
  - intros; discriminate.
Qed.

Lemma linv_step s l s' : cinv s -> sinv s -> linv s -> lstep s l = Some s' -> linv s'.
Proof.
  intros HI HS HL H. apply lstep_kind in H. destruct H; try (subst; apply linv_ext; auto; fail).
  - (* r_rl_unblock *)
    unfold r_rl_unblock in H. open_rule H.
    + (* dropped *)
      match goal with |- linv ?s' => eapply (linv_same s s' [_] HL) end; csimpl; try reflexivity.
      * intros; discriminate.
      * simpl. intros ev [<-|[]]. simpl. apply in_app_l. apply (li_hold _ HL). auto.
    + (* into the queue *)
      destruct (si_hold _ HS _ _ E) as (k1 & Hk1 & Hw & Hid). rewrite E0 in Hk1. inversion Hk1; subst k1.
      pose proof (was_reg_pos _ (cinv_call _ _ _ HI E0) Hw) as Hpos.
      match goal with |- linv ?s' =>
        eapply (linv_upd s s' c c0 (set_chan c0 (mkChan (Some e) (cclosed (k_chan c0))) (k_reg c0)) [] HL E0) end; csimpl.
      * reflexivity.
      * rewrite app_nil_r; auto.
      * intros; discriminate.
      * auto.
      * simpl; tauto.
      * intros b Hb. left; auto.
      * intros b Hb. left; auto.
      * intros ee Hee. inversion Hee; subst ee. right. repeat split; auto. rewrite ?app_nil_r. apply (li_hold _ HL). auto.
  - (* r_rl_read *)
    unfold r_rl_read in H. open_rule H.
    + (* closeError *)
      eapply linv_close_all; eauto; reflexivity.
    + (* held *)
      match goal with E1 : find_reg _ _ 0 = Some _ |- _ => pose proof E1 as E1'; apply find_reg0_some in E1'; destruct E1' as (kk & Hk & Hr & Hid) end.
      assert (Hpos : 0 < k_id kk) by (apply (was_reg_pos _ (cinv_call _ _ _ HI Hk)); unfold was_reg; rewrite Hr; auto).
      match goal with |- linv ?s' => eapply (linv_same s s' [_] HL) end; csimpl; try reflexivity.
      * intros c1 e1 Hh. inversion Hh; subst. right. apply in_snoc.
      * simpl. intros ev [<-|[]]. simpl. exists kk. repeat split; auto; lia.
    + (* into the queue *)
      match goal with E1 : find_reg _ _ 0 = Some _ |- _ => pose proof E1 as E1'; apply find_reg0_some in E1'; destruct E1' as (kk & Hk & Hr & Hid) end.
      match goal with E2 : nth_error _ _ = Some ?k |- _ => rewrite Hk in E2; inversion E2; subst k end.
      assert (Hpos : 0 < k_id kk) by (apply (was_reg_pos _ (cinv_call _ _ _ HI Hk)); unfold was_reg; rewrite Hr; auto).
      match goal with |- linv ?s' =>
        eapply (linv_upd s s' n kk (set_chan kk (mkChan (Some e) false) true) [_] HL Hk) end; csimpl.
      * reflexivity.
      * reflexivity.
      * intros; discriminate.
      * auto.
      * simpl. intros ev [<-|[]]. simpl. eexists. split. apply nth_upd_eq; eauto using nth_some_lt. csimpl. split; auto. lia.
      * intros b Hb. left; auto.
      * intros b Hb. left; auto.
      * intros ee Hee. inversion Hee; subst ee. right. repeat split; auto. apply in_snoc.
    + (* unhandled *)
      match goal with |- linv ?s' => eapply (linv_same s s' [_; _] HL) end; csimpl; try reflexivity.
      * rewrite <- app_assoc. reflexivity.
      * intros; discriminate.
      * simpl. intros ev [<-|[<-|[]]]; simpl; auto. apply in_snoc.
  - unfold r_check in H. open_rule H; lupd HL; lfin HI HL.
  - unfold r_reg in H. open_rule H; lupd HL; lfin HI HL.
  - unfold r_wait in H. open_rule H; lupd HL; lfin HI HL.
  - unfold r_wait_ctx in H. open_rule H; lupd HL; lfin HI HL.
  - unfold r_unreg in H. open_rule H; lupd HL; lfin HI HL.
  - unfold r_loop_read in H. open_rule H; lupd HL; lfin HI HL.
  - unfold r_loop_read_ctx in H. open_rule H; lupd HL; lfin HI HL.
  - unfold r_loop_hand in H. open_rule H; lupd HL; lfin HI HL.
  - unfold r_loop_hand_ctx in H. open_rule H; lupd HL; lfin HI HL.
  - unfold r_loop_exit in H. open_rule H; lupd HL; lfin HI HL.
  - unfold r_loop_unreg in H. open_rule H; lupd HL; lfin HI HL.
  - unfold r_recv in H. open_rule H; lupd HL; lfin HI HL.
  - unfold r_header in H. open_rule H; lupd HL; lfin HI HL.
  - unfold r_trailer in H. open_rule H; lupd HL; lfin HI HL.
  - unfold r_send in H. open_rule H; lupd HL; lfin HI HL.
Qed.

Lemma all_inv_reach ls s : lrun init ls = Some s -> cinv s /\ sinv s /\ linv s.
Proof.
  intros H. eapply (lrun_inv (fun s => cinv s /\ sinv s /\ linv s)); eauto.
  - intros s0 l s' (HI & HS & HL) Hs. split; [|split]; eauto using cinv_step, sinv_step, linv_step.
  - split; [|split]. apply cinv_init. apply sinv_init. apply linv_init.
Qed.

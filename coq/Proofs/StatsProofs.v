From Coq Require Import List Bool Arith Lia.
Import ListNotations.
From Goat Require Import Model.Stats.

(* events that are neither the tagging call, nor Begin, nor End *)
Definition is_plain (e : sev) : bool :=
  match e with TagRPC | Begin | End _ => false | _ => true end.
Definition is_end (e : sev) : bool := match e with End _ => true | _ => false end.

(* the shape of the events of one finished RPC at one handler: the tagging
   call, exactly one Begin before every other event, exactly one End, last, with
   flag b (End.Error == nil) *)
Definition wf_finished (l : list sev) (b : bool) : Prop :=
  exists mid, l = TagRPC :: Begin :: mid ++ [End b] /\ Forall (fun e => is_plain e = true) mid.

Ltac wf_by mid := exists mid; split; [reflexivity | repeat constructor].

(* ---- client, unary ---- *)
(* every exit (those that return an error do return one: cu_wf): one Begin
   first, one End last, End.Error nil iff Invoke returned nil - io.EOF included *)
Lemma cu_wf_finished (x : cu_exit) : cu_wf x = true -> wf_finished (cu_events x) (cu_success x).
Proof.
  destruct x as [r|r| | | |]; try destruct r; cbn; intro H; try discriminate H.
  all: first [ wf_by (@nil sev) | wf_by [OutHeader; OutPayload] | wf_by [OutHeader; OutPayload; InHeader]
             | wf_by [OutHeader; OutPayload; InHeader; InPayload] ].
Qed.

(* ---- client, stream ---- *)
Lemma cs_run_ended (h : bool) (ops : list cs_op) :
  Forall (fun e => e = OutTrailer) (fst (cs_run (mkCs true h) ops)) /\ snd (cs_run (mkCs true h) ops) = mkCs true h.
Proof.
  induction ops as [|o ops IH]; [split; [constructor|reflexivity]|].
  cbn [cs_run].
  assert (Hs : cs_step (mkCs true h) o = ([], mkCs true h) \/ cs_step (mkCs true h) o = ([OutTrailer], mkCs true h)).
  { destruct o; cbn; auto. }
  destruct IH as [IH1 IH2].
  destruct Hs as [Hs|Hs]; rewrite Hs; destruct (cs_run (mkCs true h) ops) as [e2 s2]; cbn in *.
  - split; assumption.
  - split; [constructor; [reflexivity|assumption]|assumption].
Qed.

(* which step ends the stream, and how: the specification of End's flag *)
Fixpoint cs_outcome (hdr : bool) (ops : list cs_op) : option bool :=
  match ops with
  | [] => None
  | o :: r =>
      match o with
      | CSendFail | PReset | PFail => Some false
      | PTrailer ok => Some ok
      | PBadMeta => if hdr then cs_outcome hdr r else Some false
      | PMsg => cs_outcome true r
      | _ => cs_outcome hdr r
      end
  end.

Lemma filter_end_trailers (l : list sev) : Forall (fun e => e = OutTrailer) l -> filter is_end l = [].
Proof. induction 1 as [|e l He _ IH]; [reflexivity|]. subst e. cbn. exact IH. Qed.

Lemma plain_trailers (l : list sev) : Forall (fun e => e = OutTrailer) l -> Forall (fun e => is_plain e = true) l.
Proof. intro H. eapply Forall_impl; [|exact H]. intros e ->. reflexivity. Qed.

(* exactly one End iff some step ended the stream, none otherwise; its flag is
   that of the first ending step *)
Lemma cs_run_ends (h : bool) (ops : list cs_op) :
  filter is_end (fst (cs_run (mkCs false h) ops)) =
  match cs_outcome h ops with None => [] | Some b => [End b] end.
Proof.
  revert h. induction ops as [|o ops IH]; intro h; [reflexivity|].
  cbn [cs_run cs_outcome].
  destruct o as [| | | | | |ok| |]; cbn [cs_step cs_ended cs_header].
  - (* CSendOk *) specialize (IH h). destruct (cs_run (mkCs false h) ops) as [e2 s2]. cbn in *. exact IH.
  - (* CSendFail *)
    pose proof (cs_run_ended h ops) as [H1 _]. destruct (cs_run (mkCs true h) ops) as [e2 s2]. cbn in *.
    rewrite (filter_end_trailers _ H1). reflexivity.
  - (* CCloseSend *) specialize (IH h). destruct (cs_run (mkCs false h) ops) as [e2 s2]. cbn in *. exact IH.
  - (* CRecvOk *) specialize (IH h). destruct (cs_run (mkCs false h) ops) as [e2 s2]. cbn in *. exact IH.
  - (* PMsg *) specialize (IH true). destruct (cs_run (mkCs false true) ops) as [e2 s2].
    destruct h; cbn in *; exact IH.
  - (* PBadMeta *)
    destruct h.
    + specialize (IH true). destruct (cs_run (mkCs false true) ops) as [e2 s2]. cbn in *. exact IH.
    + pose proof (cs_run_ended false ops) as [H1 _]. destruct (cs_run (mkCs true false) ops) as [e2 s2]. cbn in *.
      rewrite (filter_end_trailers _ H1). reflexivity.
  - (* PTrailer *)
    pose proof (cs_run_ended true ops) as [H1 _]. destruct (cs_run (mkCs true true) ops) as [e2 s2].
    destruct h; cbn in *; rewrite (filter_end_trailers _ H1); reflexivity.
  - (* PReset *)
    pose proof (cs_run_ended true ops) as [H1 _]. destruct (cs_run (mkCs true true) ops) as [e2 s2].
    destruct h; cbn in *; rewrite (filter_end_trailers _ H1); reflexivity.
  - (* PFail *)
    pose proof (cs_run_ended h ops) as [H1 _]. destruct (cs_run (mkCs true h) ops) as [e2 s2]. cbn in *.
    rewrite (filter_end_trailers _ H1). reflexivity.
Qed.

(* the events of an open stream: everything before the End is plain, everything
   after it is an OutTrailer of a late CloseSend *)
Lemma cs_run_shape (h : bool) (ops : list cs_op) :
  match cs_outcome h ops with
  | None => Forall (fun e => is_plain e = true) (fst (cs_run (mkCs false h) ops))
  | Some b => exists pre post, fst (cs_run (mkCs false h) ops) = pre ++ End b :: post /\
                Forall (fun e => is_plain e = true) pre /\ Forall (fun e => e = OutTrailer) post
  end.
Proof.
  revert h. induction ops as [|o ops IH]; intro h; [constructor|].
  cbn [cs_run cs_outcome].
  assert (Hcons : forall (e : sev) (hh : bool), is_plain e = true ->
            match cs_outcome hh ops with
            | None => Forall (fun e => is_plain e = true) (fst (cs_run (mkCs false hh) ops))
            | Some b => exists pre post, fst (cs_run (mkCs false hh) ops) = pre ++ End b :: post /\
                          Forall (fun e => is_plain e = true) pre /\ Forall (fun e => e = OutTrailer) post
            end ->
            match cs_outcome hh ops with
            | None => Forall (fun e => is_plain e = true) (e :: fst (cs_run (mkCs false hh) ops))
            | Some b => exists pre post, e :: fst (cs_run (mkCs false hh) ops) = pre ++ End b :: post /\
                          Forall (fun e => is_plain e = true) pre /\ Forall (fun e => e = OutTrailer) post
            end).
  { intros e hh He H. destruct (cs_outcome hh ops) as [b|].
    - destruct H as [pre [post [E [H1 H2]]]]. exists (e :: pre), post. rewrite E. repeat split; [constructor|]; assumption.
    - constructor; assumption. }
  assert (Hend : forall (b hh : bool) (front : list sev), Forall (fun e => is_plain e = true) front ->
            exists pre post, front ++ End b :: fst (cs_run (mkCs true hh) ops) = pre ++ End b :: post /\
              Forall (fun e => is_plain e = true) pre /\ Forall (fun e => e = OutTrailer) post).
  { intros b hh front Hf. exists front, (fst (cs_run (mkCs true hh) ops)). repeat split; [assumption|].
    apply (cs_run_ended hh ops). }
  destruct o as [| | | | | |ok| |]; cbn [cs_step cs_ended cs_header].
  - specialize (IH h). destruct (cs_run (mkCs false h) ops) as [e2 s2] eqn:Er. cbn [fst app].
    replace e2 with (fst (cs_run (mkCs false h) ops)) by (rewrite Er; reflexivity).
    apply Hcons; [reflexivity|]. rewrite Er. exact IH.
  - destruct (cs_run (mkCs true h) ops) as [e2 s2] eqn:Er. cbn [fst app].
    replace e2 with (fst (cs_run (mkCs true h) ops)) by (rewrite Er; reflexivity).
    apply (Hend false h []). constructor.
  - specialize (IH h). destruct (cs_run (mkCs false h) ops) as [e2 s2] eqn:Er. cbn [fst app].
    replace e2 with (fst (cs_run (mkCs false h) ops)) by (rewrite Er; reflexivity).
    apply Hcons; [reflexivity|]. rewrite Er. exact IH.
  - specialize (IH h). destruct (cs_run (mkCs false h) ops) as [e2 s2] eqn:Er. cbn [fst app].
    replace e2 with (fst (cs_run (mkCs false h) ops)) by (rewrite Er; reflexivity).
    apply Hcons; [reflexivity|]. rewrite Er. exact IH.
  - specialize (IH true). destruct (cs_run (mkCs false true) ops) as [e2 s2] eqn:Er.
    destruct h; cbn [fst app].
    + exact IH.
    + replace e2 with (fst (cs_run (mkCs false true) ops)) by (rewrite Er; reflexivity).
      apply Hcons; [reflexivity|]. rewrite Er. exact IH.
  - destruct h.
    + specialize (IH true). destruct (cs_run (mkCs false true) ops) as [e2 s2] eqn:Er. cbn [fst app]. exact IH.
    + destruct (cs_run (mkCs true false) ops) as [e2 s2] eqn:Er. cbn [fst app].
      replace e2 with (fst (cs_run (mkCs true false) ops)) by (rewrite Er; reflexivity).
      apply (Hend false false []). constructor.
  - destruct (cs_run (mkCs true true) ops) as [e2 s2] eqn:Er.
    replace e2 with (fst (cs_run (mkCs true true) ops)) by (rewrite Er; reflexivity).
    destruct h; cbn [fst app].
    + apply (Hend ok true []). constructor.
    + apply (Hend ok true [InHeader]). repeat constructor.
  - destruct (cs_run (mkCs true true) ops) as [e2 s2] eqn:Er.
    replace e2 with (fst (cs_run (mkCs true true) ops)) by (rewrite Er; reflexivity).
    destruct h; cbn [fst app].
    + apply (Hend false true []). constructor.
    + apply (Hend false true [InHeader]). repeat constructor.
  - destruct (cs_run (mkCs true h) ops) as [e2 s2] eqn:Er. cbn [fst app].
    replace e2 with (fst (cs_run (mkCs true h) ops)) by (rewrite Er; reflexivity).
    apply (Hend false h []). constructor.
Qed.

(* a stream that was opened, for every sequence of calls and arrivals *)
Theorem cs_open_events (ops : list cs_op) :
  match cs_outcome false ops with
  | None =>
      (* not finished: Begin first, no End yet *)
      exists mid, cs_events CSO_ok ops = TagRPC :: Begin :: mid /\ Forall (fun e => is_plain e = true) mid
  | Some b =>
      (* finished: one Begin first, one End, flag b; after it only OutTrailers of late CloseSends *)
      exists mid post, cs_events CSO_ok ops = TagRPC :: Begin :: mid ++ End b :: post /\
        Forall (fun e => is_plain e = true) mid /\ Forall (fun e => e = OutTrailer) post
  end.
Proof.
  pose proof (cs_run_shape false ops) as H. unfold cs_events. cbn [app].
  destruct (cs_outcome false ops) as [b|].
  - destruct H as [pre [post [E [H1 H2]]]]. exists (OutHeader :: pre), post. rewrite E.
    repeat split; [constructor; [reflexivity|assumption]|assumption].
  - exists (OutHeader :: fst (cs_run (mkCs false false) ops)). split; [reflexivity|]. constructor; [reflexivity|assumption].
Qed.

Lemma cs_failed_open (op : cs_open) (ops : list cs_op) :
  op <> CSO_ok -> wf_finished (cs_events op ops) false.
Proof. intro H. destruct op; [wf_by (@nil sev)|wf_by (@nil sev)|congruence]. Qed.

(* ---- server, unary ---- *)
Definition res_flag (r : res) : bool := match r with RErr => false | _ => true end.

Lemma su_wf_finished (d : su_dec) (r : res) : wf_finished (su_events (SU_run d r)) (res_flag r).
Proof.
  destruct d, r; cbn;
    first [ wf_by [InHeader; InPayload; OutHeader; OutPayload; OutTrailer] | wf_by [InHeader; OutHeader; OutPayload; OutTrailer] ].
Qed.

Lemma res_flag_ok (r : res) : r <> REof -> res_flag r = res_ok r.
Proof. destruct r; cbn; congruence. Qed.

(* ---- server, stream ---- *)
Lemma ss_run_plain (h : bool) (ops : list ss_op) : Forall (fun e => is_plain e = true) (ss_run h ops).
Proof.
  revert h. induction ops as [|o ops IH]; intro h; [constructor|].
  cbn [ss_run]. destruct o as [| | |w|]; cbn [ss_step].
  - constructor; [reflexivity|apply IH].
  - apply IH.
  - apply IH.
  - destruct h; cbn [app]; [apply IH|constructor; [reflexivity|apply IH]].
  - destruct h; cbn [app]; repeat (constructor; [reflexivity|]); apply IH.
Qed.

Lemma ss_wf_finished (ops : list ss_op) (r : res) : wf_finished (ss_events (SS_run ops r)) (res_flag r).
Proof.
  exists (InHeader :: ss_run false ops ++ [OutTrailer]). split.
  - unfold ss_events. cbn [app]. rewrite <- app_assoc. destruct r; reflexivity.
  - constructor; [reflexivity|]. apply Forall_app. split; [apply ss_run_plain|repeat constructor].
Qed.

(* a SendMsg is counted exactly once, the header event exactly once per accepted
   attempt to send headers *)
Lemma ss_payloads (h : bool) (ops : list ss_op) :
  length (filter (fun e => match e with OutPayload => true | _ => false end) (ss_run h ops)) =
  length (filter (fun o => match o with SSendMsg => true | _ => false end) ops).
Proof.
  revert h. induction ops as [|o ops IH]; intro h; [reflexivity|].
  cbn [ss_run]. destruct o as [| | |w|]; cbn [ss_step]; rewrite ?filter_app; cbn [filter app length]; try apply IH.
  - destruct h; cbn [filter app length]; apply IH.
  - destruct h; cbn [filter app length]; f_equal; apply IH.
Qed.

(* ---- connections ---- *)
Lemma serve_conn (x : serve_exit) : serve_events x = [TagConn; ConnBegin true; ConnEnd true].
Proof. reflexivity. Qed.

(* ---- the tag clause ---- *)
Lemma depths_from_ge pos prefix n i evs :
  i < n -> Forall (fun p : sev * nat => S i <= snd p) (depths_from pos prefix n i evs).
Proof.
  intro H. revert pos. induction evs as [|e evs IH]; intro pos; [constructor|].
  cbn [depths_from]. constructor; [|apply IH].
  cbn [snd]. destruct (Nat.ltb pos prefix); lia.
Qed.

(* every event handler i receives for an RPC is delivered with a context to which
   handler i's own TagRPC has been applied (the context TagRPC returned, or one
   derived from it by the later handlers' TagRPC) *)
Lemma tag_depths_ge server n i evs :
  i < n -> Forall (fun p : sev * nat => S i <= snd p) (tag_depths server n i evs).
Proof. apply depths_from_ge. Qed.

Lemma tag_depths_events server n i evs : map fst (tag_depths server n i evs) = evs.
Proof.
  unfold tag_depths. generalize 0 as pos. induction evs as [|e evs IH]; intro pos; [reflexivity|].
  cbn [depths_from map fst]. rewrite IH. reflexivity.
Qed.


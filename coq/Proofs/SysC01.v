(* C01 over the product model Model/Sys.v: the composition.

   Component facts used:
   - client (proved by work package cl for an arbitrary environment): [honest_l] (a success reported to a
     call carries the body of an envelope read from the transport with that call's id), [J_reach] (the
     envelopes a unary call writes: at most one, [req_env id payload]), [all_inv_reach];
   - wires (Proofs/SysProofs.v): nothing is fabricated, lost, duplicated or reordered;
   - server: [server_fact_reply_origin] below, about an ARBITRARY peer of the server model: proved in
     Proofs/SysFacts.v ([srv_reply_origin], an inductive invariant over every place a frame can be on its way
     to the transport). *)
From Coq Require Import List ZArith Bool Lia Arith.
Import ListNotations.
From Goat Require Import Model.Client Model.Server Proofs.ClientBase Proofs.ClientInv Proofs.ClientLog Proofs.ClientLive
  Proofs.ClientProps Proofs.ProtocolClient Proofs.ServerProofs Model.Sys Proofs.SysLog Proofs.SysProofs Proofs.SysFacts.
Open Scope Z_scope.

Lemma proj_s_run_pol pol ls : forall s s', Sys.lrun pol s ls = Some s' -> srun_pol pol (sv s) (proj_s pol s ls) = Some (sv s').
Proof.
  induction ls as [|l ls IH]; simpl; intros s s' H.
  - inversion H; auto.
  - destruct (Sys.lstep pol s l) as [s1|] eqn:E; [|discriminate].
    pose proof (lstep_cl _ _ _ _ E) as P. specialize (IH _ _ H).
    destruct l as [x|x| |].
    + destruct P as (_ & _ & P). rewrite <- P. exact IH.
    + destruct P as (P & _ & Q & _). cbn [srun_pol]. rewrite Q, P. exact IH.
    + destruct P as (f & rest & P1 & P2 & _). rewrite P1. cbn [srun_pol pol_ok Server.lstep]. rewrite <- P2. exact IH.
    + destruct P as (e & rest & _ & _ & P & _). rewrite <- P. exact IH.
Qed.

(* ---------- the server fact ---------- *)
(* Whatever the peer does: a frame with a body that the server wrote was produced for a handler whose
   starting frame has the same id and was read from the transport; if that handler is unary (and unary
   handlers obey [pol_c01 f]) the body is [f] of the body of its request; if it is a stream handler its
   starting frame had no body (processStreamingRpc resets a first envelope that carries one). *)
Definition server_fact_reply_origin (f : Z -> Z) : Prop :=
  forall ls v fr b, srun_pol (pol_c01 f) Server.init ls = Some v ->
    In (SvWrite fr) (Server.log v) -> ebody (f_env fr) = Some b ->
    exists h k, nth_error (hs v) h = Some k /\ fid (h_req k) = fid fr /\ In (SvRead (h_req k)) (Server.log v) /\
                (if h_unary k then b = f (body_tok (h_req k)) else has_body (h_req k) = false).

(* ---------- client: what a unary call writes ---------- *)
Lemma in_wr_of e l : In (EvWrite e) l -> In e (wr_of l).
Proof. intros H. unfold wr_of. apply in_flat_map. exists (EvWrite e). simpl. auto. Qed.

Lemma unary_writes ls s c k e :
  Client.lrun Client.init ls = Some s -> nth_error (calls s) c = Some k -> k_unary k = true ->
  In (EvWrite e) (Client.log s) -> eid e = k_id k -> e = req_env (k_id k) (k_payload k).
Proof.
  intros H Hn Hu Hin Hid.
  pose proof (J_reach _ _ H) as (_ & _ & HJ). specialize (HJ _ _ Hn).
  destruct (all_inv_reach _ _ H) as (HI & _ & _). pose proof (ki_kind _ (cinv_call _ _ _ HI Hn)) as HK. rewrite Hu in HK.
  assert (Hp : In e (projE (k_id k) (wr s))).
  { unfold projE. apply filter_In. split; [apply in_wr_of; auto | apply Z.eqb_eq; auto]. }
  destruct HJ as (_ & _ & _ & HW & _).
  destruct (k_pc k); try discriminate HK; try (rewrite HW in Hp; destruct Hp as [<-|[]]; reflexivity);
    try (rewrite HW in Hp; destruct Hp).
  - destruct HW as [HW|HW]; rewrite HW in Hp; [destruct Hp | destruct Hp as [<-|[]]; reflexivity].
  - destruct HW as [HW|HW]; rewrite HW in Hp; [destruct Hp | destruct Hp as [<-|[]]; reflexivity].
Qed.

(* ---------- C01_pairing ---------- *)
Theorem C01_pairing_partial f : server_fact_reply_origin f ->
  forall ls s c k b, Sys.lrun (pol_c01 f) Sys.init ls = Some s ->
    nth_error (calls (cl s)) c = Some k -> k_unary k = true ->
    In (EvUnaryRet c (UOk b)) (Client.log (cl s)) -> b = f (k_payload k).
Proof.
  intros SF ls s c k b H Hn Hu Hret.
  pose proof (proj_c_run _ _ _ _ H) as Hc. pose proof (proj_s_run_pol _ _ _ _ H) as Hs.
  destruct (honest_l _ _ Hc) as [HU _]. destruct (HU _ _ Hret) as (e & k' & _ & Hread & Hb & Hn' & Hid).
  rewrite Hn in Hn'. inversion Hn'; subst k'; clear Hn'.
  destruct (client_read_was_written _ _ _ _ _ H Hread) as (fr & Hw & Hfe).
  assert (Hb' : ebody (f_env fr) = Some b) by (rewrite Hfe; exact Hb).
  destruct (SF _ _ _ _ Hs Hw Hb') as (h & kh & Hh & Hfid & Hrd & Hcase).
  destruct (server_read_was_written _ _ _ _ H Hrd) as (_ & Hcw).
  assert (Hrid : eid (f_env (h_req kh)) = k_id k).
  { unfold fid in Hfid. rewrite Hfid, Hfe. exact Hid. }
  pose proof (unary_writes _ _ _ _ _ Hc Hn Hu Hcw Hrid) as Hreq.
  destruct (h_unary kh).
  - subst b. unfold body_tok. rewrite Hreq. reflexivity.
  - exfalso. unfold has_body in Hcase. rewrite Hreq in Hcase. discriminate.
Qed.

Theorem server_fact_reply_origin_holds f : server_fact_reply_origin f.
Proof. intros ls v fr b. apply srv_reply_origin. Qed.

Theorem C01_pairing f ls s c k b :
  Sys.lrun (pol_c01 f) Sys.init ls = Some s ->
  nth_error (calls (cl s)) c = Some k -> k_unary k = true ->
  In (EvUnaryRet c (UOk b)) (Client.log (cl s)) -> b = f (k_payload k).
Proof. apply C01_pairing_partial, server_fact_reply_origin_holds. Qed.

(* ---------- a deterministic scheduler, to exhibit concrete runs (Examples of Props/C01.v, C02.v) ---------- *)
Fixpoint s_first_enabled_idx (rs : list Server.rule) (s : Server.state) (i : nat) : option nat :=
  match rs with
  | [] => None
  | r :: rest => match r s with Some _ => Some i | None => s_first_enabled_idx rest s (S i) end
  end.

Fixpoint gate_unary (l : list hnd) (i : nat) : option (nat * hnd) :=
  match l with
  | [] => None
  | k :: t => if h_unary k && at_gate k then Some (i, k) else gate_unary t (S i)
  end.

(* the next label: an internal rule of the client, else one of the server, else a transfer, else the return
   of a unary handler waiting at its gate *)
Definition next_label (f : Z -> Z) (s : Sys.state) : option label :=
  match first_enabled_idx (Client.rules (cl s)) (cl s) 0 with
  | Some (i, _) => Some (LC (Client.LInt i))
  | None =>
      match s_first_enabled_idx (Server.rules (sv s)) (sv s) 0 with
      | Some i => Some (LS (Server.LInt i))
      | None =>
          match c2s s, s2c s with
          | _ :: _, _ => Some LXferC2S
          | [], _ :: _ => Some LXferS2C
          | [], [] =>
              match gate_unary (hs (sv s)) 0 with
              | Some (h, k) => Some (LS (Server.LExt (AHandlerStep h (HReturn (Some (f (body_tok (h_req k)))) HNil))))
              | None => None
              end
          end
      end
  end.

Fixpoint drive (fuel : nat) (pol : policy) (f : Z -> Z) (s : Sys.state) : list label :=
  match fuel with
  | O => []
  | S n => match next_label f s with
           | Some l => match Sys.lstep pol s l with
                       | Some s' => l :: drive n pol f s'
                       | None => []
                       end
           | None => []
           end
  end.

(* environment labels (user actions, handler steps), each followed by the scheduler until nothing moves *)
Fixpoint drive_labels (pol : policy) (f : Z -> Z) (s : Sys.state) (acts : list label) : list label :=
  match acts with
  | [] => []
  | a :: rest =>
      match Sys.lstep pol s a with
      | Some s1 =>
          let ls := drive 200 pol f s1 in
          match Sys.lrun pol s1 ls with
          | Some s2 => a :: ls ++ drive_labels pol f s2 rest
          | None => []
          end
      | None => []
      end
  end.

Definition mix3 (x : Z) : Z := 3 * x + 1.
Definition U (a : Client.act) : label := LC (Client.LExt a).
Definition Hs (h : nat) (o : hop) : label := LS (Server.LExt (AHandlerStep h o)).

(* three unary calls one after the other *)
Definition demo_c01 : list label :=
  drive_labels (pol_c01 mix3) mix3 Sys.init [U (Client.ANewUnary 5 false); U (Client.ANewUnary 7 false); U (Client.ANewUnary 0 false)].
(* three unary calls in flight at once: all three are started before anything else moves *)
Definition demo_c01_conc : list label :=
  [U (Client.ANewUnary 5 false); U (Client.ANewUnary 7 false); U (Client.ANewUnary 0 false)] ++
  match Sys.lrun (pol_c01 mix3) Sys.init [U (Client.ANewUnary 5 false); U (Client.ANewUnary 7 false); U (Client.ANewUnary 0 false)] with
  | Some s => drive 400 (pol_c01 mix3) mix3 s
  | None => []
  end.
(* one bidirectional stream: two messages echoed, half-close, handler sees EOF and returns nil, caller sees EOF *)
Definition demo_c02 : list label :=
  drive_labels pol_any mix3 Sys.init
    [U (Client.ANewStream false); U (Client.ASend 0 11); Hs 0 HRecv; Hs 0 (HSend 11); U (Client.ARecv 0 false);
     U (Client.ASend 0 12); Hs 0 HRecv; Hs 0 (HSend 12); U (Client.ARecv 0 false);
     U (Client.ACloseSend 0); Hs 0 HRecv; Hs 0 (HReturn None HNil); U (Client.ARecv 0 false)].

(* C14, the outcomes "success / error status / reset by the peer": a stream whose loop is still reading or offering
   has taken no final envelope; hence, in a quiescent state, a stream that took its final envelope has terminated. *)
From Coq Require Import List ZArith Bool Lia Arith.
Import ListNotations.
From Goat Require Import Model.Client Proofs.ClientBase Proofs.ClientInv Proofs.ClientLog Proofs.ClientRoute Proofs.ClientLive.
Open Scope Z_scope.

Definition loop_running (k : call) : bool := match s_loop k with LRead | LHand _ => true | _ => false end.
Definition is_final (e : env) : bool := match final_of e with Some _ => true | None => false end.

Definition finv (s : state) : Prop :=
  forall c k, nth_error (calls s) c = Some k ->
    (loop_running k = true -> forall e, In e (taken c (log s)) -> is_final e = false) /\
    (pc_fresh (k_pc k) = true -> taken c (log s) = []).

Lemma finv_init : finv init.
Proof. intros c k H. destruct c; discriminate. Qed.

Lemma finv_upd s s' c k k' evs :
  finv s -> nth_error (calls s) c = Some k -> calls s' = upd c k' (calls s) -> log s' = log s ++ evs ->
  (forall c', c' <> c -> taken c' evs = []) ->
  (loop_running k' = true -> (loop_running k = true \/ pc_fresh (k_pc k) = true) /\ forall e, In e (taken c evs) -> is_final e = false) ->
  (pc_fresh (k_pc k') = true -> pc_fresh (k_pc k) = true /\ taken c evs = []) ->
  finv s'.
Proof.
  intros HF Hn Hc Hl Ho Hk Hp c0 k0 H0. rewrite Hl, taken_app.
  rewrite Hc in H0. apply nth_upd_inv in H0. destruct H0 as [[-> ->]|[Hne H0]].
  - destruct (HF _ _ Hn) as [F1 F2]. split.
    + intros Hr e He. apply in_app_or in He. destruct (Hk Hr) as [[A|A] B].
      * destruct He as [He|He]; eauto.
      * rewrite (F2 A) in He. destruct He as [[]|He]; eauto.
    + intros Hf. destruct (Hp Hf) as [A B]. rewrite (F2 A), B. reflexivity.
  - rewrite (Ho _ Hne), app_nil_r. apply HF; auto.
Qed.

Ltac fupd HI HF :=
  match goal with
  | E : nth_error (calls ?s) ?c = Some ?k |- finv ?s' =>
      let K := fresh "K" in pose proof (cinv_call _ _ _ HI E) as K;
      let cs := eval cbn [calls set_call add_log] in (calls s') in
      let k' := match cs with upd _ ?x _ => x end in
      eapply (finv_upd s s' c k k' _ HF E); csimpl;
      [ reflexivity
      | first [ reflexivity | symmetry; apply app_nil_r | rewrite <- app_assoc; reflexivity ]
      | let cc := fresh "cc" in let Hcc := fresh "Hcc" in
        try (intros cc Hcc; simpl; first [reflexivity | destruct (Nat.eqb_spec c cc); [congruence | reflexivity]])
      | unfold loop_running; csimpl;
        try match goal with |- context [if k_reg ?x then _ else _] => destruct (k_reg x); csimpl end;
        let Hx := fresh "Hx" in intros Hx; try discriminate Hx;
        try solve
          [ split; [ left; exact Hx | simpl; rewrite ?Nat.eqb_refl; simpl; intros e0 He0;
                     first [ contradiction | destruct He0 as [<-|[]]; unfold is_final; match goal with Ef : final_of _ = None |- _ => rewrite Ef end; reflexivity ] ]
          | split; [ left; match goal with El : s_loop k = _ |- _ => rewrite El end; reflexivity
                   | simpl; rewrite ?Nat.eqb_refl; simpl; intros e0 He0;
                     first [ contradiction | destruct He0 as [<-|[]]; unfold is_final; match goal with Ef : final_of _ = None |- _ => rewrite Ef end; reflexivity ] ]
          | split; [ right; match goal with Ep : k_pc k = _ |- _ => rewrite Ep end; reflexivity | simpl; intros e0 He0; contradiction ]
          | (* a unary call waiting for its reply has no stream loop *)
            exfalso; assert (Hal : loop_alive k = true) by (unfold loop_alive; revert Hx; destruct (s_loop k); intros Hx; try discriminate Hx; reflexivity);
            pose proof (ki_loop_open _ K Hal) as Hop; match goal with Ep : k_pc k = _ |- _ => rewrite Ep in Hop end; discriminate Hop ]
      | try match goal with |- context [if k_reg ?x then _ else _] => destruct (k_reg x); csimpl end;
        let Hf := fresh "Hf" in intros Hf; try discriminate Hf;
        try solve [ split; [ first [ exact Hf | match goal with Ep : k_pc k = _ |- _ => rewrite Ep end; reflexivity ] | simpl; reflexivity ]
                  | exfalso; first
                      [ assert (Hop : k_pc k = POpen) by
                          first [ apply (ki_loop_open _ K); unfold loop_alive; match goal with El : s_loop k = _ |- _ => rewrite El end; reflexivity
                                | apply (ki_ops_open _ K); unfold ops_pending, recv_pending, header_pending, send_pending, trailer_pending;
                                  repeat match goal with Ex : ?f k = _ |- _ => rewrite Ex end; simpl; rewrite ?orb_true_r; reflexivity ];
                        rewrite Hop in Hf; discriminate Hf ] ] ]
  end.

Lemma finv_same s s' evs : finv s -> calls s' = calls s -> log s' = log s ++ evs -> (forall c, taken c evs = []) -> finv s'.
Proof.
  intros HF Hc Hl Ht c k Hn. rewrite Hl, taken_app, Ht, app_nil_r. rewrite Hc in Hn. eauto.
Qed.

Lemma finv_chan s s' c k ch r evs :
  finv s -> nth_error (calls s) c = Some k -> calls s' = upd c (set_chan k ch r) (calls s) -> log s' = log s ++ evs ->
  (forall c, taken c evs = []) -> finv s'.
Proof.
  intros HF Hn Hc Hl Ht c0 k0 H0. rewrite Hl, taken_app, Ht, app_nil_r.
  rewrite Hc in H0. apply nth_upd_inv in H0. destruct H0 as [[-> ->]|[_ H0]]; eauto. apply (HF _ _ Hn).
Qed.

Lemma finv_with_call s c f :
  finv s -> (forall k k', f k = Some k' -> k_pc k' = k_pc k /\ s_loop k' = s_loop k) -> finv (with_call s c f).
Proof.
  intros HF Hf. unfold with_call. destruct (nth_error (calls s) c) eqn:E; auto. destruct (f c0) eqn:Ef; auto.
  destruct (Hf _ _ Ef) as [A B].
  apply (finv_upd s (set_call s c c1) c c0 c1 [] HF E); csimpl; auto.
  - rewrite app_nil_r; auto.
  - unfold loop_running. rewrite B. intros Hx. split; auto. simpl; tauto.
  - rewrite A. auto.
Qed.

Ltac fwc k := apply finv_with_call; auto; intros k k' H;
  repeat match type of H with
         | match ?x with _ => _ end = Some _ => destruct x eqn:?; try discriminate H
         end; inversion H; subst k'; clear H; csimpl; auto.

Lemma finv_ext s a : rinv s -> finv s -> finv (ext s a).
Proof.
  intros HR HF. destruct a; simpl; try solve [fwc k];
    try solve [eapply (finv_same s _ []); eauto; csimpl; try reflexivity; rewrite app_nil_r; auto].
  - intros c k Hn. csimpl. apply nth_app_cases in Hn. destruct Hn as [[Hn _]|[-> ->]]; [apply (HF _ _ Hn)|].
    destruct (ri_beyond _ HR (length (calls s)) (le_n _)) as (_ & T & _). rewrite T. split; auto. intros _ e [].
  - intros c k Hn. csimpl. apply nth_app_cases in Hn. destruct Hn as [[Hn _]|[-> ->]]; [apply (HF _ _ Hn)|].
    destruct (ri_beyond _ HR (length (calls s)) (le_n _)) as (_ & T & _). rewrite T. split; auto. intros _ e [].
  - destruct (nth_error (calls s) c) eqn:E; auto. destruct (k_pc c0) eqn:Ep; auto.
    match goal with |- finv ?s' => apply (finv_upd s s' c c0 (set_id (set_pc c0 PReg) (counter s + 1)) [] HF E) end; csimpl; auto.
    + rewrite app_nil_r; auto.
    + unfold loop_running; csimpl. intros Hx. split; auto. simpl; tauto.
    + intros _. rewrite Ep. auto.
Qed.

Lemma finv_step s l s' : cinv s -> rinv s -> finv s -> lstep s l = Some s' -> finv s'.
Proof.
  intros HI HR HF H. apply lstep_kind in H. destruct H.
  - subst. apply finv_ext; auto.
  - unfold r_rl_unblock in H. open_rule H.
    + eapply (finv_same s _ [_]); eauto; csimpl; try reflexivity; try (intros; reflexivity).
    + eapply (finv_chan s _ c c0 _ _ []); eauto; csimpl; try reflexivity; try (rewrite app_nil_r; auto).
  - unfold r_rl_read in H. open_rule H.
    + intros c k' Hn. csimpl. unfold close_all in Hn. apply nth_map_inv in Hn. destruct Hn as (k & Hk & ->).
      destruct (HF _ _ Hk) as [F1 F2]. destruct (k_reg k); auto.
    + eapply (finv_same s _ [_]); eauto; csimpl; try reflexivity; try (intros; reflexivity).
    + eapply (finv_chan s _ n c _ _ [_]); eauto; csimpl; try reflexivity; try (intros; reflexivity).
    + eapply (finv_same s _ [_; _]); eauto; csimpl; try (rewrite <- app_assoc; reflexivity); try (intros; reflexivity).
  - unfold r_check in H. open_rule H; fupd HI HF.
  - unfold r_reg in H. open_rule H; fupd HI HF.
  - unfold r_wait in H. open_rule H; fupd HI HF.
    (* a unary call waiting for its reply has no stream loop *)
    exfalso. pose proof (cinv_call _ _ _ HI E) as Kc.
    assert (Hal : loop_alive c0 = true) by (unfold loop_alive; destruct (s_loop c0); try discriminate; reflexivity).
    pose proof (ki_loop_open _ Kc Hal) as Hop. rewrite E0 in Hop. discriminate Hop.
  - unfold r_wait_ctx in H. open_rule H; fupd HI HF.
  - unfold r_unreg in H. open_rule H; fupd HI HF.
  - unfold r_loop_read, closed_err in H. open_rule H; fupd HI HF.
  - unfold r_loop_read_ctx in H. open_rule H; fupd HI HF.
  - unfold r_loop_hand in H. open_rule H; fupd HI HF.
  - unfold r_loop_hand_ctx in H. open_rule H; fupd HI HF.
  - unfold r_loop_exit in H. open_rule H; fupd HI HF.
  - unfold r_loop_unreg in H. open_rule H; fupd HI HF.
  - unfold r_recv in H. open_rule H; fupd HI HF.
  - unfold r_header in H. open_rule H; fupd HI HF.
  - unfold r_trailer in H. open_rule H; fupd HI HF.
  - unfold r_send in H. open_rule H; fupd HI HF.
Qed.

Lemma finv_reach ls s : lrun init ls = Some s -> finv s.
Proof.
  intros H.
  assert (HH : (cinv s /\ sinv s /\ linv s /\ rinv s) /\ finv s).
  { eapply (lrun_inv (fun s => (cinv s /\ sinv s /\ linv s /\ rinv s) /\ finv s)); eauto.
    - intros s0 l s' [(HI & HS & HL & HR) HF] Hs.
      split; [split; [|split; [|split]]|]; eauto using cinv_step, sinv_step, linv_step, rinv_step, finv_step.
    - split; [split; [|split; [|split]]|]. apply cinv_init. apply sinv_init. apply linv_init. apply rinv_init. apply finv_init. }
  tauto.
Qed.

(* C14, every peer-driven outcome: in a quiescent state a stream that has taken a final envelope (a trailer with any
   status - success or handler error -, or a reset by the peer) has terminated: loop dead, hence unregistered *)
Lemma C14_final_released_l ls s : lrun init ls = Some s -> quiescent s = true ->
  forall c k e, nth_error (calls s) c = Some k -> k_pc k = POpen -> In e (taken c (log s)) -> is_final e = true -> terminated k = true.
Proof.
  intros H Hq c k e Hn Hp He Hf. pose proof (finv_reach _ _ H _ _ Hn) as [F _]. apply inv_reach in H. destruct H as [HI HS].
  unfold terminated. rewrite Hp. destruct (loop_alive k) eqn:El; auto. exfalso.
  destruct (quiescent_loop _ HI Hq _ _ Hn El) as [_ [(E1 & _)|(b & E1 & _)]];
    (assert (Hr : loop_running k = true) by (unfold loop_running; rewrite E1; auto)); rewrite (F Hr _ He) in Hf; discriminate.
Qed.

(* C05, server half: the ORDER in which a stream handler is handed the envelopes of its id. *)
From Coq Require Import List ZArith Bool Lia Arith.
Import ListNotations.
From Goat Require Import Model.Client Model.Server Proofs.ServerProofs Proofs.ServerInv Proofs.ServerTrace Proofs.ServerRoute Proofs.ServerWriter.
Open Scope Z_scope.

Definition drops (h : nat) (l : list sev) : list frame :=
  flat_map (fun e => match e with SvDrop g f => if Nat.eqb g h then [f] else [] | _ => [] end) l.

Lemma subseq_refl {A} (l : list A) : subseq l l.
Proof. induction l; constructor; assumption. Qed.

Lemma subseq_app_l {A} (c d l : list A) : subseq c d -> subseq c (l ++ d).
Proof. intros H. induction l as [|x l IH]; simpl; [assumption | now constructor]. Qed.

Lemma subseq_app {A} (a b c d : list A) : subseq a b -> subseq c d -> subseq (a ++ c) (b ++ d).
Proof. intros H1 H2. induction H1; simpl; [now apply subseq_app_l | now constructor | now constructor]. Qed.

Lemma subseq_trans {A} (a b c : list A) : subseq a b -> subseq b c -> subseq a c.
Proof.
  intros H1 H2. revert a H1. induction H2 as [l | x b' c' H2 IH | x b' c' H2 IH]; intros a H1.
  - inversion H1; subst. constructor.
  - inversion H1; subst.
    + constructor.
    + constructor. now apply IH.
    + apply sub_skip. now apply IH.
  - apply sub_skip. now apply IH.
Qed.

Lemma fwds_subseq_settled h l : subseq (fwds h l) (settled h l).
Proof.
  unfold fwds, settled. induction l as [|e l IH]; simpl; [constructor|].
  apply subseq_app; [|assumption]. destruct e; try constructor; destruct (Nat.eqb h0 h); repeat constructor.
Qed.

Lemma settled_no_drop h l : drops h l = [] -> settled h l = fwds h l.
Proof.
  unfold drops, settled, fwds. induction l as [|e l IH]; simpl; [reflexivity|]. intros H.
  apply app_eq_nil in H. destruct H as [H1 H2]. rewrite (IH H2). f_equal.
  destruct e; try reflexivity. destruct (Nat.eqb h0 h); [discriminate | reflexivity].
Qed.

(* For stream handler h (record k): the envelopes h has taken from its queue, in the order it took them, are a
   sub-sequence of the envelopes of its id read from the transport while it was registered, in the order read: never
   reordered, never duplicated, none from another id or from outside its registration. And if none was dropped (a drop
   happens only when h's context is already done) the sequence read is EXACTLY: those taken, then the one queued, then
   the one the read loop holds, then at most one abandoned when the connection ended. *)
Theorem srv_stream_order nw ls s : lrun (init_n nw) ls = Some s ->
  forall h k, nth_error (hs s) h = Some k -> h_unary k = false ->
    subseq (takes h (log s)) (routed h (fid (h_req k)) (log s))
    /\ (drops h (log s) = [] ->
        exists tail, routed h (fid (h_req k)) (log s) = takes h (log s) ++ queue k ++ held s h ++ tail
                     /\ (tail = [] \/ (rd_exited s = true /\ exists f, tail = [f]))).
Proof.
  intros H h k Hn U. destruct (srv_route_exact nw ls s H h k Hn U) as [[t [T1 T2]] [Q _]]. split.
  - rewrite T1. apply subseq_app_r. apply (subseq_trans _ (fwds h (log s))); [|apply fwds_subseq_settled].
    rewrite Q. apply subseq_app_r. apply subseq_refl.
  - intros D. exists t. split; [|assumption]. rewrite T1, (settled_no_drop h _ D), Q, <- !app_assoc. reflexivity.
Qed.

(* ---------- what RecvMsg returned: the results, in order, are those of the envelopes taken ---------- *)
Definition is_recv_res (r : opres) : bool :=
  match r with ORecvMsg _ | ORecvEof | ORecvStatus _ | ORecvUnmarshal => true | _ => false end.
Definition recv_ops (h : nat) (l : list sev) : list opres :=
  flat_map (fun e => match e with SvOp g r => if Nat.eqb g h && is_recv_res r then [r] else [] | _ => [] end) l.

Lemma recv_res_is f : is_recv_res (recv_res f) = true.
Proof.
  unfold recv_res. destruct (etrl (f_env f)); [destruct (estatus (f_env f)); [destruct (st_code s =? 0)|]|destruct (ebody (f_env f)); [destruct (z <? 0)|]]; reflexivity.
Qed.

Definition inv_rv (s : state) : Prop := forall h, recv_ops h (log s) = map recv_res (takes h (log s)).

Definition rv_quiet (e : sev) : Prop :=
  match e with SvTake _ _ => False | SvOp _ r => is_recv_res r = false | _ => True end.

Lemma rv_quiet_step s s' evs : inv_rv s -> log s' = log s ++ evs -> (forall e, In e evs -> rv_quiet e) -> inv_rv s'.
Proof.
  intros I E Hq h. rewrite E. unfold recv_ops, takes. rewrite !flat_map_app, map_app. fold (recv_ops h (log s)). fold (takes h (log s)).
  rewrite (I h).
  assert (E1 : flat_map (fun e => match e with SvOp g r => if Nat.eqb g h && is_recv_res r then [r] else [] | _ => [] end) evs = []).
  { clear -Hq. induction evs as [|e evs IH]; [reflexivity|]. simpl. rewrite IH by (intros x Hx; apply Hq; now right).
    specialize (Hq e (or_introl eq_refl)). destruct e; try reflexivity. simpl in Hq. rewrite Hq, andb_false_r. reflexivity. }
  assert (E2 : flat_map (fun e => match e with SvTake g f => if Nat.eqb g h then [f] else [] | _ => [] end) evs = []).
  { clear -Hq. induction evs as [|e evs IH]; [reflexivity|]. simpl. rewrite IH by (intros x Hx; apply Hq; now right).
    specialize (Hq e (or_introl eq_refl)). destruct e; try reflexivity. contradiction. }
  rewrite E1, E2. simpl. now rewrite !app_nil_r.
Qed.

Lemma hstep_rv s h k o : exists evs, log (hstep s h k o) = log s ++ evs /\ forall e, In e evs -> rv_quiet e.
Proof.
  unfold hstep. destruct (h_unary k), o; try destruct (h_hsent k); sproj;
    try (exists []; rewrite app_nil_r; split; [reflexivity | intros ev []]);
    eexists; (split; [reflexivity|]); intros ev Hin; simpl in Hin; repeat destruct Hin as [<- | Hin]; try exact I; try reflexivity; contradiction.
Qed.

Lemma rv_ext s a : inv_rv s -> inv_rv (ext s a).
Proof.
  intros I. destruct a; simpl; try exact I.
  destruct (nth_error (hs s) h) as [k|]; [|exact I]. destruct (h_pc k); try exact I.
  destruct (hstep_rv s h k o) as [evs [E Hev]]. exact (rv_quiet_step s _ evs I E Hev).
Qed.

Ltac rvq I :=
  match goal with |- inv_rv ?s' =>
    first [ exact I
          | eapply (rv_quiet_step _ s' _ I); [sproj; reflexivity | intros e0 Hin0; simpl in Hin0; repeat destruct Hin0 as [<- | Hin0]; try exact Logic.I; try reflexivity; contradiction] ]
  end.

Lemma rv_int s i s' : inv_rv s -> rule_of i s = Some s' -> inv_rv s'.
Proof.
  intros I H. destruct i; simpl in H.
  all: try (start_rule H; rvq I; fail).
  - (* r_rd_read *)
    unfold r_rd_read in H. destruct (rd s); try discriminate. destruct (inbox s) as [|f rest].
    + destr_in H; inv_some H; rvq I.
    + destruct (dispatch f); inv_some H; try (rvq I; fail).
      destruct (stream_dispatch_log (add_log (set_inbox s rest) [SvRead f]) f) as [_ [_ [evs [E2 Hev]]]].
      apply (rv_quiet_step s _ ([SvRead f] ++ evs) I).
      * rewrite E2. sproj. now rewrite app_assoc.
      * intros e Hin. apply in_app_or in Hin. destruct Hin as [[<- | []] | Hin]; [exact Logic.I|].
        destruct (Hev _ Hin) as [? [? [? [? [? [? ->]]]]]]. exact Logic.I.
  - (* r_rd_offer *)
    unfold r_rd_offer in H. destruct (rd s); try discriminate. destruct (find_idle (wk s) 0); [|discriminate]. inv_some H.
    destruct (start_unary_log (add_log (set_rd s RdRead) [SvJob n f]) n f) as [_ [_ [evs [E2 Hev]]]].
    apply (rv_quiet_step s _ ([SvJob n f] ++ evs) I).
    + rewrite E2. sproj. now rewrite app_assoc.
    + intros e Hin. apply in_app_or in Hin. destruct Hin as [[<- | []] | Hin]; [exact Logic.I|].
      destruct (Hev _ Hin) as [? [? [? [? [? [? ->]]]]]]. exact Logic.I.
  - (* r_h_recv *)
    unfold r_h_recv in H. destruct (nth_error (hs s) h) as [k|]; [|discriminate].
    destruct (h_pc k); try discriminate. destruct (h_q k) as [f|]; [|discriminate]. inv_some H.
    intros g. sproj. unfold recv_ops, takes. rewrite !flat_map_app, map_app. fold (recv_ops g (log s)). fold (takes g (log s)).
    rewrite (I g). simpl. rewrite recv_res_is, andb_true_r. destruct (Nat.eqb h g); reflexivity.
Qed.

(* the results RecvMsg returned to handler h, in order, are exactly the decodings of the envelopes it took *)
Theorem srv_recv_results nw ls s : lrun (init_n nw) ls = Some s ->
  forall h, recv_ops h (log s) = map recv_res (takes h (log s)).
Proof. apply (lrun_inv inv_rv); [apply rv_ext | apply rv_int | intros h; reflexivity]. Qed.

(* C02_caller_eof_sound, end to end: if RecvMsg on a stream reported io.EOF then the handler serving that
   stream returned nil (SendTrailer built a trailer with status OK for it, and that trailer is the envelope
   the caller took). *)
From Coq Require Import List ZArith Bool Lia Arith.
Import ListNotations.
From Goat Require Import Model.Client Model.Server Proofs.ClientBase Proofs.ClientInv Proofs.ClientLog Proofs.ClientProps
  Proofs.ServerProofs Proofs.ServerInv Proofs.ServerTrace Model.Sys Proofs.SysLog Proofs.SysProofs Proofs.SysFacts
  Proofs.SysFacts2 Proofs.SysC01 Proofs.SysC01b Proofs.SysC02c.
Open Scope Z_scope.

Theorem C02_caller_eof_sound pol ls s c k :
  Sys.lrun pol Sys.init ls = Some s -> nth_error (calls (cl s)) c = Some k -> k_unary k = false ->
  In (EvRecvRet c (RErr EEof)) (Client.log (cl s)) ->
  exists h kh fr, nth_error (hs (sv s)) h = Some kh /\ h_unary kh = false /\ fid (h_req kh) = k_id k /\
                  In (SvRet h) (Server.log (sv s)) /\ In (SvTrailer h fr) (Server.log (sv s)) /\
                  (exists k2, fr = trl_frame k2 HNil) /\ In (EvTake c (f_env fr)) (Client.log (cl s)).
Proof.
  intros H Hn Hu Hret.
  pose proof (proj_c_run _ _ _ _ H) as Hc. pose proof (proj_s_run _ _ _ _ H) as Hs.
  destruct (ce_ret _ (CE_reach _ _ Hc) _ Hret) as (e0 & Htake & Hfin).
  destruct (C05_take_l _ _ Hc _ _ Htake) as (Hread & k' & Hk' & Hid & Hpos).
  rewrite Hn in Hk'. inversion Hk'; subst k'; clear Hk'.
  destruct (client_read_was_written _ _ _ _ _ H Hread) as (fr & Hw & Hfe).
  assert (He : eofl fr) by (unfold eofl; rewrite Hfe; exact Hfin).
  destruct (EI_reach _ _ _ Hs fr (PLog _ _ Hw) He) as (h & kh & Hkh & Hfid & Hcase).
  assert (Hidk : fid (h_req kh) = k_id k) by (unfold fid in *; rewrite Hfid, Hfe; auto).
  (* the handler is not a unary one: its request frame carries the kind of the call that owns the id *)
  pose proof (o_hs _ (O_reach _ _ _ Hs) _ _ Hkh) as Hrd.
  destruct (server_read_was_written _ _ _ _ H Hrd) as (Hsent & _).
  destruct (sent_ok_init _ _ _ H _ Hsent) as (c1 & k1 & Hk1 & Hid1 & Hpos1 & Hm1 & Hd1).
  assert (c1 = c).
  { destruct (Nat.eq_dec c1 c); auto. exfalso. destruct (all_inv_reach _ _ Hc) as (_ & HS & _).
    eapply (si_id_uniq _ HS c1 c k1 k); eauto. lia. congruence. }
  subst c1. rewrite Hn in Hk1. inversion Hk1; subst k1; clear Hk1.
  assert (Hunh : h_unary kh = false).
  { destruct (h_unary kh) eqn:Hun; auto. exfalso.
    destruct (srv_dispatch _ _ _ Hs) as (_ & Hreq).
    assert (Hsig : In (true, h_req kh) (sigs (sv s))) by (rewrite <- Hun; eapply sig_in; eauto).
    specialize (Hreq _ Hsig). simpl in Hreq. destruct Hreq as (Hdisp & _).
    unfold kind_of in Hm1. rewrite Hu in Hm1. unfold dispatch in Hdisp. rewrite Hm1 in Hdisp.
    destruct (ehdr (f_env (h_req kh))); try discriminate. destruct (f_dst (h_req kh) =? srv_name); discriminate. }
  destruct Hcase as [Hcase | Htr]; [congruence|].
  destruct (TR_reach _ _ _ Hs _ _ Htr) as (Hsr & k2 & e & Hshape).
  (* the trailer belongs to this handler and its status is OK: the handler returned nil *)
  assert (Hnil : e = HNil).
  { apply sstatus_ok. unfold eofl, final_of in He. rewrite Hshape in He. simpl in He.
    destruct (st_code (sstatus e) =? 0) eqn:E; [apply Z.eqb_eq; exact E | discriminate He]. }
  exists h, kh, fr. repeat split; auto.
  - exists k2. rewrite Hshape, Hnil. reflexivity.
  - rewrite Hfe. exact Htake.
Qed.

(* Exact routing accounting of Model/Client.v (C05_route_exact): per call, the
   envelopes the read loop routed to it are, in order and once each, those the
   call has taken, then the one in its queue, then the one the read loop holds
   for it, then the (at most one) envelope dropped because the call had
   unregistered while the read loop was holding it. *)
From Coq Require Import List ZArith Bool Lia Arith.
Import ListNotations.
From Goat Require Import Model.Client Proofs.ClientBase Proofs.ClientInv Proofs.ClientLog.
Open Scope Z_scope.

Definition routed (c : nat) (l : list cev) : list env :=
  flat_map (fun ev => match ev with EvRead e (Some c') => if Nat.eqb c' c then [e] else [] | _ => [] end) l.
Definition taken (c : nat) (l : list cev) : list env :=
  flat_map (fun ev => match ev with EvTake c' e => if Nat.eqb c' c then [e] else [] | _ => [] end) l.
Definition dropped (c : nat) (l : list cev) : list env :=
  flat_map (fun ev => match ev with EvDrop c' e => if Nat.eqb c' c then [e] else [] | _ => [] end) l.
Definition chan_q (k : call) : list env := match cbuf (k_chan k) with Some e => [e] | None => [] end.
Definition held (s : state) (c : nat) : list env :=
  match rl s with RLHold c' e => if Nat.eqb c' c then [e] else [] | _ => [] end.

Lemma routed_app c l1 l2 : routed c (l1 ++ l2) = routed c l1 ++ routed c l2.
Proof. apply flat_map_app. Qed.
Lemma taken_app c l1 l2 : taken c (l1 ++ l2) = taken c l1 ++ taken c l2.
Proof. apply flat_map_app. Qed.
Lemma dropped_app c l1 l2 : dropped c (l1 ++ l2) = dropped c l1 ++ dropped c l2.
Proof. apply flat_map_app. Qed.

Record rinv (s : state) : Prop := mkRinv {
  ri_eq : forall c k, nth_error (calls s) c = Some k ->
            routed c (log s) = taken c (log s) ++ chan_q k ++ held s c ++ dropped c (log s);
  ri_drop_closed : forall c k, nth_error (calls s) c = Some k -> dropped c (log s) <> [] -> cclosed (k_chan k) = true;
  ri_hold_nodrop : forall c e, rl s = RLHold c e -> dropped c (log s) = [];
  ri_drop_once : forall c, (length (dropped c (log s)) <= 1)%nat;
  ri_beyond : forall c, (length (calls s) <= c)%nat -> routed c (log s) = [] /\ taken c (log s) = [] /\ dropped c (log s) = [];
  ri_fresh_buf : forall c k, nth_error (calls s) c = Some k -> pc_fresh (k_pc k) = true -> cbuf (k_chan k) = None }.

Lemma rinv_init : rinv init.
Proof.
  constructor; simpl; intros; auto; try discriminate;
  repeat match goal with H : nth_error [] ?i = Some _ |- _ => destruct i; discriminate H end.
Qed.

Lemma held_beyond s c : sinv s -> (length (calls s) <= c)%nat -> held s c = [].
Proof.
  intros HS Hc. unfold held. destruct (rl s) eqn:E; auto. destruct (Nat.eqb_spec c0 c); auto. subst.
  destruct (si_hold _ HS _ _ E) as (k & Hn & _). apply nth_some_lt in Hn. lia.
Qed.

(* one call updated by one of its own rules: the read loop is untouched, nothing is read or dropped *)
Lemma rinv_call s s' c0 k k' evs :
  rinv s -> nth_error (calls s) c0 = Some k -> calls s' = upd c0 k' (calls s) -> log s' = log s ++ evs -> rl s' = rl s ->
  (forall c, routed c evs = []) -> (forall c, dropped c evs = []) -> (forall c, c <> c0 -> taken c evs = []) ->
  taken c0 evs ++ chan_q k' = chan_q k ->
  (cclosed (k_chan k) = true -> cclosed (k_chan k') = true) ->
  (pc_fresh (k_pc k') = true -> cbuf (k_chan k') = None \/ (pc_fresh (k_pc k) = true /\ cbuf (k_chan k') = cbuf (k_chan k))) ->
  rinv s'.
Proof.
  intros [R1 R2 R3 R4 R5 R6] Hn Hc Hl Hrl Hr Hd Ht Hq Hcl Hf.
  assert (Hheld : forall c, held s' c = held s c) by (intros; unfold held; rewrite Hrl; auto).
  constructor.
  - intros c kc Hk. rewrite Hl, routed_app, taken_app, dropped_app, Hr, Hd, Hheld, !app_nil_r.
    rewrite Hc in Hk. apply nth_upd_inv in Hk. destruct Hk as [[-> ->]|[Hne Hk]].
    + rewrite (R1 _ _ Hn). rewrite <- Hq. rewrite <- !app_assoc. reflexivity.
    + rewrite Ht by auto. rewrite app_nil_r. auto.
  - intros c kc Hk. rewrite Hl, dropped_app, Hd, app_nil_r. intros Hne.
    rewrite Hc in Hk. apply nth_upd_inv in Hk. destruct Hk as [[-> ->]|[_ Hk]]; eauto.
  - intros c e Hh. rewrite Hrl in Hh. rewrite Hl, dropped_app, Hd, app_nil_r. eauto.
  - intros c. rewrite Hl, dropped_app, Hd, app_nil_r. auto.
  - intros c Hlen. rewrite Hc, length_upd in Hlen. rewrite Hl, routed_app, taken_app, dropped_app, Hr, Hd, !app_nil_r.
    rewrite Ht. rewrite app_nil_r. auto. apply nth_some_lt in Hn. lia.
  - intros c kc Hk Hp. rewrite Hc in Hk. apply nth_upd_inv in Hk. destruct Hk as [[-> ->]|[_ Hk]]; eauto.
    destruct (Hf Hp) as [|[Hp' Hb]]; auto. rewrite Hb. eauto.
Qed.

Lemma rinv_with_call s c f :
  rinv s -> (forall k k', f k = Some k' -> k_pc k' = k_pc k /\ k_chan k' = k_chan k) -> rinv (with_call s c f).
Proof.
  intros HR Hf. unfold with_call. destruct (nth_error (calls s) c) eqn:E; auto.
  destruct (f c0) eqn:Ef; auto. destruct (Hf _ _ Ef) as (A & B).
  apply (rinv_call s (set_call s c c1) c c0 c1 [] HR E); csimpl; auto.
  - rewrite app_nil_r; auto.
  - unfold chan_q. rewrite B. auto.
  - rewrite B; auto.
  - intros Hp. right. rewrite A in Hp. rewrite B. auto.
Qed.

Ltac rwc k := apply rinv_with_call; auto; intros k k' H;
  repeat match type of H with
         | match ?x with _ => _ end = Some _ => destruct x eqn:?; try discriminate H
         end; inversion H; subst k'; clear H; csimpl; auto.

Lemma rinv_new s s' k0 :
  sinv s -> rinv s -> calls s' = calls s ++ [k0] -> log s' = log s -> rl s' = rl s -> cbuf (k_chan k0) = None -> rinv s'.
Proof.
  intros HS [R1 R2 R3 R4 R5 R6] Hc Hl Hrl Hb.
  assert (Hheld : forall c, held s' c = held s c) by (intros; unfold held; rewrite Hrl; auto).
  constructor; rewrite ?Hl.
  - intros c k Hn. rewrite Hheld. rewrite Hc in Hn. apply nth_app_cases in Hn. destruct Hn as [[Hn _]|[-> ->]]; auto.
    destruct (R5 (length (calls s)) (le_n _)) as (A & B & C). rewrite A, B, C. unfold chan_q. rewrite Hb.
    rewrite held_beyond; auto.
  - intros c k Hn Hne. rewrite Hc in Hn. apply nth_app_cases in Hn. destruct Hn as [[Hn _]|[-> ->]]; eauto.
    destruct (R5 (length (calls s)) (le_n _)) as (A & B & C). congruence.
  - rewrite Hrl. auto.
  - auto.
  - intros c Hlen. rewrite Hc, app_length in Hlen. simpl in Hlen. apply R5. lia.
  - intros c k Hn Hp. rewrite Hc in Hn. apply nth_app_cases in Hn. destruct Hn as [[Hn _]|[-> ->]]; eauto.
Qed.

Lemma rinv_same s s' :
  rinv s -> calls s' = calls s -> log s' = log s -> rl s' = rl s -> rinv s'.
Proof.
  intros [R1 R2 R3 R4 R5 R6] Hc Hl Hrl.
  constructor; rewrite ?Hl, ?Hc, ?Hrl; auto.
  intros c k Hn. unfold held. rewrite Hrl. apply R1; auto.
Qed.

Lemma rinv_ext s a : cinv s -> sinv s -> rinv s -> rinv (ext s a).
Proof.
  intros HI HS HR. destruct a; simpl; try solve [rwc k]; try solve [eapply rinv_same; eauto].
  - eapply rinv_new; eauto; reflexivity.
  - eapply rinv_new; eauto; reflexivity.
  - destruct (nth_error (calls s) c) eqn:E; auto. destruct (k_pc c0) eqn:Ep; auto.
    match goal with |- rinv ?s' => apply (rinv_call s s' c c0 (set_id (set_pc c0 PReg) (counter s + 1)) [] HR E) end; csimpl; auto.
    + rewrite app_nil_r; auto.
    + intros _. right. rewrite Ep. auto.
Qed.

Ltac rupd HR :=
  match goal with
  | E : nth_error (calls ?s) ?c = Some ?k |- rinv ?s' =>
      let cs := eval cbn [calls set_call add_log] in (calls s') in
      let k' := match cs with upd _ ?x _ => x end in
      eapply (rinv_call s s' c k k' _ HR E); csimpl;
      [ reflexivity
      | first [ reflexivity | symmetry; apply app_nil_r | rewrite <- app_assoc; reflexivity ]
      | reflexivity
      | intros; reflexivity
      | intros; reflexivity
      | let cc := fresh "cc" in let Hcc := fresh "Hcc" in
        intros cc Hcc; simpl; first [reflexivity | destruct (Nat.eqb_spec c cc); [congruence | reflexivity]]
      | unfold chan_q; simpl; rewrite ?Nat.eqb_refl; csimpl;
        try match goal with |- context [if k_reg ?x then _ else _] => destruct (k_reg x); csimpl end;
        repeat match goal with Eb : cbuf (k_chan k) = _ |- _ => rewrite Eb end; try reflexivity
      | try match goal with |- context [if k_reg ?x then _ else _] => destruct (k_reg x); csimpl end; auto
      | try match goal with |- context [if k_reg ?x then _ else _] => destruct (k_reg x); csimpl end;
        let Hp := fresh "Hp" in intros Hp; try discriminate Hp;
        try (right; split; [ repeat match goal with Ep : k_pc k = _ |- _ => rewrite Ep end; reflexivity | reflexivity ]) ]
  end.

Ltac rfin HI HR :=
  match goal with
  | E : nth_error (calls ?s) ?c = Some ?k |- _ =>
      try solve
        [ left; reflexivity
        | right; split; [assumption | reflexivity]
        | (* r_reg: a call that never registered has an empty, open queue *)
          unfold chan_q; rewrite (ri_fresh_buf _ HR _ _ E) by (match goal with Ep : k_pc k = _ |- _ => rewrite Ep end; reflexivity); reflexivity
        | symmetry; unfold chan_q; rewrite (ri_fresh_buf _ HR _ _ E) by (match goal with Ep : k_pc k = _ |- _ => rewrite Ep end; reflexivity); reflexivity
        | let Hc := fresh "Hc" in intros Hc; rewrite (ki_fresh _ (cinv_call _ _ _ HI E)) in Hc
            by (match goal with Ep : k_pc k = _ |- _ => rewrite Ep end; reflexivity); discriminate Hc ]
  end.

Lemma rinv_step s l s' : cinv s -> sinv s -> rinv s -> lstep s l = Some s' -> rinv s'.
Proof.
  intros HI HS HR H. apply lstep_kind in H. destruct H; try (subst; apply rinv_ext; auto; fail).
  - (* r_rl_unblock *)
    unfold r_rl_unblock in H. open_rule H.
    + (* dropped: the call has unregistered (queue closed) while the read loop was holding e for it *)
      pose proof HR as [R1 R2 R3 R4 R5 R6].
      constructor; csimpl.
      * intros c1 k1 Hk1. rewrite routed_app, taken_app, dropped_app. simpl. unfold held; csimpl.
        rewrite (R1 _ _ Hk1). unfold held. rewrite E. rewrite !app_nil_r.
        destruct (Nat.eqb_spec c c1).
        -- subst c1. rewrite (R3 _ _ E). reflexivity.
        -- rewrite !app_nil_r. reflexivity.
      * intros c1 k1 Hk1. rewrite dropped_app. simpl. destruct (Nat.eqb_spec c c1).
        -- subst c1. intros _. rewrite E0 in Hk1. inversion Hk1; subst k1. auto.
        -- rewrite !app_nil_r. eauto.
      * intros; discriminate.
      * intros c1. rewrite dropped_app. simpl. destruct (Nat.eqb_spec c c1).
        -- subst c1. rewrite (R3 _ _ E). simpl. lia.
        -- rewrite !app_nil_r. auto.
      * intros c1 Hlen. rewrite routed_app, taken_app, dropped_app. simpl.
        destruct (R5 _ Hlen) as (A & B & C). rewrite A, B, C.
        destruct (Nat.eqb_spec c c1); auto. subst c1. apply nth_some_lt in E0. lia.
      * auto.
    + (* the held envelope goes into the queue *)
      pose proof HR as [R1 R2 R3 R4 R5 R6].
      constructor; csimpl.
      * intros c1 k1 Hk1. unfold held; csimpl. apply nth_upd_inv in Hk1. destruct Hk1 as [[-> ->]|[Hne Hk1]].
        -- rewrite (R1 _ _ E0). unfold held, chan_q. rewrite E, E1, Nat.eqb_refl. csimpl. reflexivity.
        -- rewrite (R1 _ _ Hk1). unfold held. rewrite E. destruct (Nat.eqb_spec c c1); [congruence|]. reflexivity.
      * intros c1 k1 Hk1 Hne. apply nth_upd_inv in Hk1. destruct Hk1 as [[-> ->]|[_ Hk1]]; csimpl; eauto.
      * intros; discriminate.
      * auto.
      * intros c1 Hlen. rewrite length_upd in Hlen. auto.
      * intros c1 k1 Hk1 Hp. apply nth_upd_inv in Hk1. destruct Hk1 as [[-> ->]|[_ Hk1]]; csimpl; eauto.
        exfalso.
        destruct (si_hold _ HS _ _ E) as (k2 & Hk2 & Hw & _). rewrite E0 in Hk2. inversion Hk2; subst k2.
        pose proof (cinv_call _ _ _ HI E0) as K. unfold was_reg in Hw. apply orb_true_iff in Hw. destruct Hw as [Hw|Hw].
        -- pose proof (ki_reg_pc _ K Hw). destruct (k_pc c0); discriminate.
        -- rewrite (ki_fresh _ K Hp) in Hw. discriminate.
  - (* r_rl_read *)
    unfold r_rl_read in H. open_rule H.
    + (* closeError *)
      pose proof HR as [R1 R2 R3 R4 R5 R6].
      assert (Hf : forall c k', nth_error (close_all (calls s)) c = Some k' ->
                exists k, nth_error (calls s) c = Some k /\ k_pc k' = k_pc k /\ cbuf (k_chan k') = cbuf (k_chan k) /\
                          (cclosed (k_chan k) = true -> cclosed (k_chan k') = true)).
      { intros c k' Hn. unfold close_all in Hn. apply nth_map_inv in Hn. destruct Hn as (k & Hk & ->).
        exists k. destruct (k_reg k); auto. }
      constructor; csimpl.
      * intros c k' Hn. destruct (Hf _ _ Hn) as (k & Hk & _ & Hb & _). unfold held; csimpl.
        rewrite (R1 _ _ Hk). unfold held, chan_q. rewrite E, Hb. reflexivity.
      * intros c k' Hn Hne. destruct (Hf _ _ Hn) as (k & Hk & _ & _ & Hcl). eauto.
      * intros; discriminate.
      * auto.
      * intros c Hlen. unfold close_all in Hlen. rewrite map_length in Hlen. auto.
      * intros c k' Hn Hp. destruct (Hf _ _ Hn) as (k & Hk & Hpc & Hb & _). rewrite Hb. rewrite Hpc in Hp. eauto.
    + (* routed to call n, queue full: held *)
      match goal with E1 : find_reg _ _ 0 = Some _ |- _ => pose proof E1 as E1'; apply find_reg0_some in E1'; destruct E1' as (kk & Hk & Hr & Hid) end.
      match goal with E2 : nth_error _ _ = Some ?k |- _ => rewrite Hk in E2; inversion E2; subst k end.
      pose proof HR as [R1 R2 R3 R4 R5 R6].
      assert (Hnd : dropped n (log s) = []).
      { destruct (dropped n (log s)) eqn:Ed; auto. exfalso.
        assert (Hc : cclosed (k_chan kk) = true) by (apply (R2 _ _ Hk); congruence).
        rewrite (ki_reg_notclosed _ (cinv_call _ _ _ HI Hk) Hr) in Hc. discriminate. }
      constructor; csimpl.
      * intros c1 k1 Hk1. rewrite routed_app, taken_app, dropped_app. simpl. unfold held; csimpl. rewrite !app_nil_r.
        rewrite (R1 _ _ Hk1). unfold held. rewrite E.
        destruct (Nat.eqb_spec n c1).
        -- subst c1. rewrite Hnd. simpl. rewrite !app_nil_r. rewrite <- app_assoc. reflexivity.
        -- rewrite !app_nil_r. reflexivity.
      * intros c1 k1 Hk1. rewrite dropped_app. simpl. rewrite app_nil_r. eauto.
      * intros c1 e1 Hh. inversion Hh; subst. rewrite dropped_app. simpl. rewrite app_nil_r. auto.
      * intros c1. rewrite dropped_app. simpl. rewrite app_nil_r. auto.
      * intros c1 Hlen. rewrite routed_app, taken_app, dropped_app. simpl.
        destruct (R5 _ Hlen) as (A & B & C). rewrite A, B, C.
        destruct (Nat.eqb_spec n c1); auto. subst c1. apply nth_some_lt in Hk. lia.
      * auto.
    + (* routed to call n, into its empty queue *)
      match goal with E1 : find_reg _ _ 0 = Some _ |- _ => pose proof E1 as E1'; apply find_reg0_some in E1'; destruct E1' as (kk & Hk & Hr & Hid) end.
      match goal with E2 : nth_error _ _ = Some ?k |- _ => rewrite Hk in E2; inversion E2; subst k end.
      pose proof HR as [R1 R2 R3 R4 R5 R6].
      assert (Hnd : dropped n (log s) = []).
      { destruct (dropped n (log s)) eqn:Ed; auto. exfalso.
        assert (Hc : cclosed (k_chan kk) = true) by (apply (R2 _ _ Hk); congruence).
        rewrite (ki_reg_notclosed _ (cinv_call _ _ _ HI Hk) Hr) in Hc. discriminate. }
      constructor; csimpl.
      * intros c1 k1 Hk1. rewrite routed_app, taken_app, dropped_app. simpl. unfold held; csimpl. rewrite !app_nil_r.
        apply nth_upd_inv in Hk1. destruct Hk1 as [[-> ->]|[Hne Hk1]].
        -- rewrite (R1 _ _ Hk). unfold held, chan_q. rewrite E, Nat.eqb_refl. csimpl.
           match goal with Eb : cbuf (k_chan kk) = None |- _ => rewrite Eb end. rewrite Hnd. simpl. rewrite !app_nil_r. reflexivity.
        -- rewrite (R1 _ _ Hk1). unfold held. rewrite E. destruct (Nat.eqb_spec n c1); [congruence|]. rewrite !app_nil_r. reflexivity.
      * intros c1 k1 Hk1. rewrite dropped_app. simpl. rewrite app_nil_r. intros Hne.
        apply nth_upd_inv in Hk1. destruct Hk1 as [[-> ->]|[_ Hk1]]; eauto; try congruence.
      * intros; discriminate.
      * intros c1. rewrite dropped_app. simpl. rewrite app_nil_r. auto.
      * intros c1 Hlen. rewrite length_upd in Hlen. rewrite routed_app, taken_app, dropped_app. simpl.
        destruct (R5 _ Hlen) as (A & B & C). rewrite A, B, C.
        destruct (Nat.eqb_spec n c1); auto. subst c1. apply nth_some_lt in Hk. lia.
      * intros c1 k1 Hk1 Hp. apply nth_upd_inv in Hk1. destruct Hk1 as [[-> ->]|[_ Hk1]]; csimpl; eauto.
        exfalso. pose proof (ki_reg_pc _ (cinv_call _ _ _ HI Hk) Hr). destruct (k_pc kk); discriminate.
    + (* unhandled *)
      pose proof HR as [R1 R2 R3 R4 R5 R6].
      constructor; csimpl.
      * intros c1 k1 Hk1. rewrite !routed_app, !taken_app, !dropped_app. simpl. unfold held; csimpl. rewrite !app_nil_r.
        rewrite (R1 _ _ Hk1). unfold held. rewrite E. reflexivity.
      * intros c1 k1 Hk1. rewrite !dropped_app. simpl. rewrite !app_nil_r. eauto.
      * intros; discriminate.
      * intros c1. rewrite !dropped_app. simpl. rewrite !app_nil_r. auto.
      * intros c1 Hlen. rewrite !routed_app, !taken_app, !dropped_app. simpl. rewrite !app_nil_r. auto.
      * auto.
  - unfold r_check in H. open_rule H; rupd HR; rfin HI HR.
  - unfold r_reg in H. open_rule H; rupd HR; rfin HI HR.
  - unfold r_wait in H. open_rule H; rupd HR; rfin HI HR.
  - unfold r_wait_ctx in H. open_rule H; rupd HR; rfin HI HR.
  - unfold r_unreg in H. open_rule H; rupd HR; rfin HI HR.
  - unfold r_loop_read in H. open_rule H; rupd HR; rfin HI HR.
  - unfold r_loop_read_ctx in H. open_rule H; rupd HR; rfin HI HR.
  - unfold r_loop_hand in H. open_rule H; rupd HR; rfin HI HR.
  - unfold r_loop_hand_ctx in H. open_rule H; rupd HR; rfin HI HR.
  - unfold r_loop_exit in H. open_rule H; rupd HR; rfin HI HR.
  - unfold r_loop_unreg in H. open_rule H; rupd HR; rfin HI HR.
  - unfold r_recv in H. open_rule H; rupd HR; rfin HI HR.
  - unfold r_header in H. open_rule H; rupd HR; rfin HI HR.
  - unfold r_trailer in H. open_rule H; rupd HR; rfin HI HR.
  - unfold r_send in H. open_rule H; rupd HR; rfin HI HR.
Qed.

Lemma all4_reach ls s : lrun init ls = Some s -> cinv s /\ sinv s /\ linv s /\ rinv s.
Proof.
  intros H. eapply (lrun_inv (fun s => cinv s /\ sinv s /\ linv s /\ rinv s)); eauto.
  - intros s0 l s' (HI & HS & HL & HR) Hs. split; [|split; [|split]]; eauto using cinv_step, sinv_step, linv_step, rinv_step.
  - split; [|split; [|split]]. apply cinv_init. apply sinv_init. apply linv_init. apply rinv_init.
Qed.

(* C05_route_exact *)
Lemma C05_route_exact_l ls s : lrun init ls = Some s ->
  forall c k, nth_error (calls s) c = Some k ->
    routed c (log s) = taken c (log s) ++ chan_q k ++ held s c ++ dropped c (log s) /\
    (length (dropped c (log s)) <= 1)%nat /\
    (dropped c (log s) <> [] -> k_reg k = false /\ cclosed (k_chan k) = true /\ held s c = []) /\
    (forall e, In (EvDrop c e) (log s) -> In (EvRead e (Some c)) (log s)).
Proof.
  intros H c k Hn. apply all4_reach in H. destruct H as (HI & HS & HL & HR).
  split; [apply (ri_eq _ HR _ _ Hn)|]. split; [apply (ri_drop_once _ HR)|]. split.
  - intros Hne. pose proof (ri_drop_closed _ HR _ _ Hn Hne) as Hc. split; [|split]; auto.
    + destruct (k_reg k) eqn:Er; auto. rewrite (ki_reg_notclosed _ (cinv_call _ _ _ HI Hn) Er) in Hc. discriminate.
    + unfold held. destruct (rl s) eqn:Erl; auto. destruct (Nat.eqb_spec c0 c); auto. subst c0.
      exfalso. apply Hne. apply (ri_hold_nodrop _ HR _ _ Erl).
  - intros e Hin. apply (li_ev _ HL _ Hin).
Qed.

(* nobody beyond the calls issued is ever routed anything *)
Lemma C05_route_nobody_l ls s : lrun init ls = Some s ->
  forall c, (length (calls s) <= c)%nat -> routed c (log s) = [] /\ taken c (log s) = [].
Proof.
  intros H c Hc. apply all4_reach in H. destruct H as (_ & _ & _ & HR). destruct (ri_beyond _ HR _ Hc) as (A & B & _). auto.
Qed.

(* Invariants of Model/Client.v over all label sequences.
   [kinv] is the part that speaks of one call record only (program counters of
   the call thread, the stream loop and the pending operations against the
   registration flag, the queue, the latch and the terminal state); [sinv] ties
   the calls to the connection-wide state (read error, id counter, read loop). *)
From Coq Require Import List ZArith Bool Lia Arith.
Import ListNotations.
From Goat Require Import Model.Client Proofs.ClientBase.
Open Scope Z_scope.

(* ---------- classifiers ---------- *)
Definition pc_holds_reg (p : cpc) : bool :=
  match p with PWait | PUnreg _ | POpenUnreg _ | POpen => true | _ => false end.
Definition pc_has_id (p : cpc) : bool :=
  match p with PReg | PWait | PUnreg _ | POpenUnreg _ | POpen => true | _ => false end.
Definition pc_unary (p : cpc) : bool :=
  match p with POpen | POpenUnreg _ | POpenFailed => false | _ => true end.
Definition pc_stream (p : cpc) : bool :=
  match p with PWait | PUnreg _ | PRet => false | _ => true end.
Definition latch_due (l : slpc) : bool := match l with LRead => false | _ => true end.
Definition in_defer (l : slpc) : bool := match l with LExit | LTdUnreg => true | _ => false end.
Definition ops_pending (k : call) : bool :=
  recv_pending k || header_pending k || send_pending k || trailer_pending k.
Definition is_some {A} (o : option A) : bool := match o with Some _ => true | None => false end.
Definition recv_final_pc (r : rpc) : bool := match r with RFinal => true | _ => false end.
Definition pc_fresh (p : cpc) : bool := match p with PCheck _ | PParked | PReg => true | _ => false end.
Definition pc_noid (p : cpc) : bool := match p with PCheck _ | PParked => true | _ => false end.

Definition was_reg (k : call) : bool := k_reg k || cclosed (k_chan k).

(* the header latch (cs.ready, a WaitGroup: a second Done() panics) *)
Definition loop_runs (l : slpc) : bool := match l with LRead | LHand _ => true | _ => false end.
Definition latch_noerr (x : option (mdv + cerr)) : bool := match x with Some (inr _) => false | _ => true end.
Definition latch_none (x : option (mdv + cerr)) : bool := match x with None => true | _ => false end.

Record kinv (k : call) : Prop := mkKinv {
  ki_latch_run : loop_runs (s_loop k) = true -> latch_noerr (s_latch k) = true;
  ki_latch_fresh : pc_fresh (k_pc k) = true -> latch_none (s_latch k) = true;
  ki_reg_pc : k_reg k = true -> pc_holds_reg (k_pc k) = true;
  ki_reg_open : k_reg k = true -> k_pc k = POpen -> loop_alive k = true;
  ki_loop_open : loop_alive k = true -> k_pc k = POpen;
  ki_unreg_closed : k_reg k = false -> (k_pc k = PWait \/ loop_alive k = true) -> cclosed (k_chan k) = true;
  ki_reg_notclosed : k_reg k = true -> cclosed (k_chan k) = false;
  ki_ops_open : ops_pending k = true -> k_pc k = POpen;
  ki_dead_done : k_pc k = POpen -> loop_alive k = false -> s_rchclosed k = true /\ s_done k = true;
  ki_rch_loop : s_rchclosed k = true -> s_loop k = LTdUnreg \/ s_loop k = LDead;
  ki_rch_open : s_rchclosed k = true -> k_pc k = POpen;
  ki_done_dead : s_done k = true -> loop_alive k = false /\ is_some (s_rerr k) = true /\ k_pc k = POpen;
  ki_latch : k_pc k = POpen -> latch_due (s_loop k) = true -> is_some (s_latch k) = true;
  ki_exit_rerr : in_defer (s_loop k) = true -> is_some (l_rerr k) = true;
  ki_kind : if k_unary k then pc_unary (k_pc k) = true else pc_stream (k_pc k) = true;
  ki_id : pc_has_id (k_pc k) = true -> 0 < k_id k;
  ki_id0 : 0 <= k_id k;
  ki_final : recv_final_pc (s_recv k) = true -> s_rchclosed k = true \/ sctx_done k = true;
  ki_ctxc : s_ctxc k = true -> k_pc k = POpen;
  ki_fresh : pc_fresh (k_pc k) = true -> cclosed (k_chan k) = false;
  ki_noid : pc_noid (k_pc k) = true -> k_id k = 0;
  ki_closed_id : cclosed (k_chan k) = true -> 0 < k_id k }.

Ltac kinv_solve :=
  constructor; csimpl; unfold ops_pending, recv_pending, header_pending, send_pending, trailer_pending, loop_alive in *; csimpl;
  intros;
  unfold loop_runs, latch_noerr, latch_none in *;
  repeat match goal with x : option (mdv + cerr) |- _ => destruct x as [[?|?]|] end;
  try match goal with |- context [match ?x with Some _ => _ | None => _ end] => is_var x; destruct x end;
  repeat match goal with
         | H : ?a = ?a -> _ |- _ => specialize (H eq_refl)
         | H : _ /\ _ |- _ => destruct H
         end;
  try solve [ auto | discriminate | congruence | lia
            | intuition (try discriminate; try congruence; auto with bool; try lia)
            | rewrite ?orb_true_iff, ?andb_true_iff, ?negb_true_iff in *;
              intuition (try discriminate; try congruence; auto with bool; try lia)
            | repeat match goal with p : cpc |- _ => destruct p end; simpl in *;
              intuition (try discriminate; try congruence; try lia) ].

Lemma kinv_new u p park : kinv (new_call u p park).
Proof. destruct u; kinv_solve. Qed.

Definition cinv (s : state) : Prop := Forall kinv (calls s) /\ 0 <= counter s.

Lemma cinv_init : cinv init.
Proof. split. constructor. simpl. lia. Qed.

Lemma kinv_set ks c k k' : Forall kinv ks -> nth_error ks c = Some k -> (kinv k -> kinv k') -> Forall kinv (upd c k' ks).
Proof. intros HF Hn Hk. apply Forall_upd; auto. apply Hk. eapply Forall_nth; eauto. Qed.

(* [kinv k -> kinv k'] where k' is an explicit update of k: take k apart, substitute what is known of its fields *)
Ltac use_kinv k :=
  let K := fresh "K" in
  intros K;
  destruct k as [ku kp kpc kid kch kreg kctx sl sc sla srch sd sre str lre ltr lht lab srv shd ssq stq];
  csimpl; subst; destruct K; csimpl;
  try match goal with |- context [if ?b then _ else _] => destruct b end;
  kinv_solve.

Lemma cinv_with_call s c f :
  cinv s -> (forall k k', kinv k -> f k = Some k' -> kinv k') -> cinv (with_call s c f).
Proof.
  intros [HF HC] Hf. unfold with_call. destruct (nth_error (calls s) c) eqn:E; [|split; auto].
  destruct (f c0) eqn:Ef; [|split; auto]. split; csimpl; auto. eapply kinv_set; eauto.
Qed.

Ltac wc k := apply cinv_with_call; auto; intros k k' K H; revert K;
  repeat match type of H with
         | match ?x with _ => _ end = Some _ => destruct x eqn:?; try discriminate H
         end; inversion H; subst k'; clear H; use_kinv k.

Lemma cinv_ext s a : cinv s -> cinv (ext s a).
Proof.
  intros HF. destruct a; simpl; try solve [wc k]; try solve [destruct HF; split; auto].
  - destruct HF as [HF HC]. split; csimpl; auto. apply Forall_app; split; auto. constructor; auto. apply kinv_new.
  - destruct HF as [HF HC]. split; csimpl; auto. apply Forall_app; split; auto. constructor; auto. apply kinv_new.
  - destruct HF as [HF HC]. destruct (nth_error (calls s) c) eqn:E; [|split; auto]. destruct (k_pc c0) eqn:Ep; try (split; auto; fail).
    split; csimpl; [|lia]. eapply kinv_set; eauto. use_kinv c0.
Qed.

Lemma kinv_close_all ks : Forall kinv ks -> Forall kinv (close_all ks).
Proof.
  intros HF. unfold close_all. apply Forall_forall. intros k' Hin. apply in_map_iff in Hin.
  destruct Hin as (k & <- & Hin). rewrite Forall_forall in HF. specialize (HF _ Hin).
  destruct (k_reg k) eqn:E; auto. revert HF. use_kinv k.
Qed.

(* after [open_rule]: the updated call satisfies kinv *)
Ltac step_cinv HF HC :=
  split; csimpl; [| try lia];
  try match goal with
      | E : nth_error (calls ?s) ?c = Some ?k |- Forall kinv (upd ?c _ (calls ?s)) =>
          eapply kinv_set; [exact HF | exact E | use_kinv k]
      end; auto.

Lemma cinv_step s l s' : cinv s -> lstep s l = Some s' -> cinv s'.
Proof.
  intros HI H. apply lstep_kind in H. destruct H; try (subst; apply cinv_ext; auto; fail); destruct HI as [HF HC].
  - unfold r_rl_unblock in H. open_rule H; step_cinv HF HC.
  - unfold r_rl_read in H. open_rule H;
      try match goal with
          | E : find_reg _ _ 0 = Some ?c, E2 : nth_error _ ?c = Some _ |- _ =>
              let E' := fresh in pose proof E as E'; apply find_reg0_some in E';
              destruct E' as (kk & Hk & Hr & Hid); rewrite Hk in E2; inversion E2; subst kk
          end;
      try (step_cinv HF HC; fail).
    split; csimpl; auto. apply kinv_close_all; auto.
  - unfold r_check in H. open_rule H; step_cinv HF HC.
  - unfold r_reg in H. open_rule H; step_cinv HF HC.
  - unfold r_wait in H. open_rule H; step_cinv HF HC.
  - unfold r_wait_ctx in H. open_rule H; step_cinv HF HC.
  - unfold r_unreg in H. open_rule H; step_cinv HF HC.
  - unfold r_loop_read in H. open_rule H; step_cinv HF HC.
  - unfold r_loop_read_ctx in H. open_rule H; step_cinv HF HC.
  - unfold r_loop_hand in H. open_rule H; step_cinv HF HC.
  - unfold r_loop_hand_ctx in H. open_rule H; step_cinv HF HC.
  - unfold r_loop_exit in H. open_rule H; step_cinv HF HC.
  - unfold r_loop_unreg in H. open_rule H; step_cinv HF HC.
  - unfold r_recv in H. open_rule H; step_cinv HF HC.
  - unfold r_header in H. open_rule H; step_cinv HF HC.
  - unfold r_trailer in H. open_rule H; step_cinv HF HC.
  - unfold r_send in H. open_rule H; step_cinv HF HC.
Qed.

Lemma cinv_reach ls s : lrun init ls = Some s -> cinv s.
Proof. intros H. eapply lrun_inv; eauto using cinv_step, cinv_init. Qed.

Lemma cinv_call s c k : cinv s -> nth_error (calls s) c = Some k -> kinv k.
Proof. intros [HF _] Hn. eapply Forall_nth; eauto. Qed.

(* ---------- connection-wide invariants ---------- *)
Record sinv (s : state) : Prop := mkSinv {
  si_rerr_dead : rerr s = true <-> rl s = RLDead;
  si_rerr_unreg : rerr s = true -> forall c k, nth_error (calls s) c = Some k -> k_reg k = false;
  si_hold : forall c e, rl s = RLHold c e -> exists k, nth_error (calls s) c = Some k /\ was_reg k = true /\ k_id k = eid e;
  si_id_le : forall c k, nth_error (calls s) c = Some k -> k_id k <= counter s;
  si_id_uniq : forall c1 c2 k1 k2, nth_error (calls s) c1 = Some k1 -> nth_error (calls s) c2 = Some k2 ->
                                   c1 <> c2 -> 0 < k_id k1 -> k_id k1 <> k_id k2 }.

Lemma sinv_init : sinv init.
Proof.
  constructor; simpl; intros; try discriminate;
  repeat match goal with H : nth_error [] ?i = Some _ |- _ => destruct i; discriminate H end.
  split; discriminate.
Qed.

(* a step that keeps the read error and the counter, keeps every id, registers nobody unless the connection is
   healthy, forgets no registration history; the read loop may give up a held envelope *)
Definition call_frame (re : bool) (k k' : call) : Prop :=
  k_id k' = k_id k /\ (k_reg k' = true -> k_reg k = true \/ re = false) /\ (was_reg k = true -> was_reg k' = true).

Lemma call_frame_refl re k : call_frame re k k.
Proof. repeat split; auto. Qed.

Lemma sinv_frame s s' :
  sinv s -> (rl s' = RLDead <-> rl s = RLDead) -> (forall c e, rl s' = RLHold c e -> rl s = RLHold c e) ->
  rerr s' = rerr s -> counter s' = counter s ->
  (forall c k', nth_error (calls s') c = Some k' -> exists k, nth_error (calls s) c = Some k /\ call_frame (rerr s) k k') ->
  (forall c k, nth_error (calls s) c = Some k -> exists k', nth_error (calls s') c = Some k') ->
  sinv s'.
Proof.
  intros [S1 S2 S3 S4 S5] Hrl Hrh Hre Hco Hfr Hex. constructor.
  - rewrite Hrl, Hre. auto.
  - rewrite Hre. intros Hr c k' Hn. destruct (Hfr _ _ Hn) as (k & Hk & _ & F & _).
    destruct (k_reg k') eqn:E; auto. destruct F as [F|F]; auto; try congruence. rewrite (S2 Hr _ _ Hk) in F. discriminate.
  - intros c e Hh. apply Hrh in Hh. destruct (S3 _ _ Hh) as (k & Hk & Hw & Hid).
    destruct (Hex _ _ Hk) as (k' & Hk'). destruct (Hfr _ _ Hk') as (k0 & Hk0 & Fi & _ & Fw).
    rewrite Hk in Hk0. inversion Hk0; subst k0. exists k'. repeat split; auto. congruence.
  - rewrite Hco. intros c k' Hn. destruct (Hfr _ _ Hn) as (k & Hk & Fi & _). rewrite Fi. eauto.
  - intros c1 c2 k1 k2 H1 H2 Hne Hpos.
    destruct (Hfr _ _ H1) as (x1 & X1 & F1 & _). destruct (Hfr _ _ H2) as (x2 & X2 & F2 & _).
    rewrite F1, F2 in *. eauto.
Qed.

Lemma frame_upd re ks c k k' :
  nth_error ks c = Some k -> call_frame re k k' ->
  (forall c0 k0', nth_error (upd c k' ks) c0 = Some k0' -> exists k0, nth_error ks c0 = Some k0 /\ call_frame re k0 k0') /\
  (forall c0 k0, nth_error ks c0 = Some k0 -> exists k0', nth_error (upd c k' ks) c0 = Some k0').
Proof.
  intros Hn Hf. split.
  - intros c0 k0' H. apply nth_upd_inv in H. destruct H as [[-> ->]|[_ H]]; eauto using call_frame_refl.
  - intros c0 k0 H. destruct (Nat.eq_dec c c0).
    + subst. rewrite nth_upd_eq; eauto using nth_some_lt.
    + rewrite nth_upd_neq; eauto.
Qed.

Lemma sinv_upd s s' c k k' :
  sinv s -> nth_error (calls s) c = Some k -> calls s' = upd c k' (calls s) ->
  (rl s' = RLDead <-> rl s = RLDead) -> (forall c e, rl s' = RLHold c e -> rl s = RLHold c e) ->
  rerr s' = rerr s -> counter s' = counter s -> call_frame (rerr s) k k' -> sinv s'.
Proof.
  intros HS Hn Hc Hrl Hrh Hre Hco Hf. destruct (frame_upd _ _ _ _ _ Hn Hf) as [F1 F2].
  eapply sinv_frame; eauto; rewrite Hc; auto.
Qed.

Lemma sinv_same s s' :
  sinv s -> calls s' = calls s -> (rl s' = RLDead <-> rl s = RLDead) -> (forall c e, rl s' = RLHold c e -> rl s = RLHold c e) ->
  rerr s' = rerr s -> counter s' = counter s -> sinv s'.
Proof.
  intros HS Hc Hrl Hrh Hre Hco. eapply sinv_frame; eauto; rewrite Hc; eauto using call_frame_refl.
Qed.

Ltac frame_solve k :=
  destruct k as [ku kp kpc kid kch kreg kctx sl sc sla srch sd sre str lre ltr lht lab srv shd ssq stq];
  unfold call_frame, was_reg; csimpl; subst;
  try match goal with |- context [if ?b then _ else _] => destruct b eqn:? end; csimpl;
  repeat split; intros; auto;
  try solve [ auto | discriminate | congruence
            | rewrite ?orb_true_iff in *; intuition (try discriminate; try congruence; auto with bool) ].

Lemma sinv_with_call s c f :
  sinv s -> (forall k k', f k = Some k' -> call_frame (rerr s) k k') -> sinv (with_call s c f).
Proof.
  intros HS Hf. unfold with_call. destruct (nth_error (calls s) c) eqn:E; auto.
  destruct (f c0) eqn:Ef; auto. eapply (sinv_upd s _ c c0 c1); eauto; try reflexivity; tauto.
Qed.

Ltac swc k := apply sinv_with_call; auto; intros k k' H;
  repeat match type of H with
         | match ?x with _ => _ end = Some _ => destruct x eqn:?; try discriminate H
         end; inversion H; subst k'; clear H; frame_solve k.

Lemma nth_app_new {A} (l : list A) x c y :
  nth_error (l ++ [x]) c = Some y -> nth_error l c = Some y \/ (c = length l /\ y = x).
Proof. intros H. apply nth_app_cases in H. tauto. Qed.

Lemma sinv_new s s' k0 :
  sinv s -> cinv s -> calls s' = calls s ++ [k0] -> k_id k0 = 0 -> k_reg k0 = false ->
  rl s' = rl s -> rerr s' = rerr s -> counter s' = counter s -> sinv s'.
Proof.
  intros [S1 S2 S3 S4 S5] [HF HC] Hc Hid Hreg Hrl Hre Hco. constructor.
  - rewrite Hrl, Hre; auto.
  - rewrite Hre, Hc. intros Hr c k Hn. apply nth_app_new in Hn. destruct Hn as [Hn|[_ ->]]; eauto.
  - rewrite Hrl, Hc. intros c e Hh. destruct (S3 _ _ Hh) as (k & Hk & R). exists k. split; auto.
    rewrite nth_error_app1; eauto using nth_some_lt.
  - rewrite Hco, Hc. intros c k Hn. apply nth_app_new in Hn. destruct Hn as [Hn|[_ ->]]; eauto. lia.
  - rewrite Hc. intros c1 c2 k1 k2 H1 H2 Hne Hpos.
    apply nth_app_new in H1. apply nth_app_new in H2.
    destruct H1 as [H1|[-> ->]]; destruct H2 as [H2|[-> ->]]; eauto; try lia.
Qed.

(* allocation of the next id to call c *)
Lemma sinv_alloc s s' c k k' :
  sinv s -> nth_error (calls s) c = Some k -> k_id k = 0 -> k_id k' = counter s + 1 ->
  (k_reg k' = true -> k_reg k = true) -> was_reg k = false ->
  calls s' = upd c k' (calls s) -> rl s' = rl s -> rerr s' = rerr s -> counter s' = counter s + 1 -> sinv s'.
Proof.
  intros [S1 S2 S3 S4 S5] Hn Hid0 Hid Hreg Hw Hc Hrl Hre Hco. constructor.
  - rewrite Hrl, Hre; auto.
  - rewrite Hre, Hc. intros Hr c0 k0 H0. apply nth_upd_inv in H0. destruct H0 as [[-> ->]|[_ H0]]; eauto.
    destruct (k_reg k') eqn:E; auto. rewrite (S2 Hr _ _ Hn) in Hreg. symmetry; auto.
  - rewrite Hrl, Hc. intros c0 e Hh. destruct (S3 _ _ Hh) as (k0 & Hk0 & Hw0 & Hi0).
    destruct (Nat.eq_dec c c0).
    + subst c0. rewrite Hn in Hk0. inversion Hk0; subst k0.
      congruence.
    + exists k0. rewrite nth_upd_neq by auto. auto.
  - rewrite Hco, Hc. intros c0 k0 H0. apply nth_upd_inv in H0. destruct H0 as [[-> ->]|[_ H0]]; [lia|].
    specialize (S4 _ _ H0). lia.
  - rewrite Hc. intros c1 c2 k1 k2 H1 H2 Hne Hpos.
    apply nth_upd_inv in H1. apply nth_upd_inv in H2.
    destruct H1 as [[-> ->]|[N1 H1]]; destruct H2 as [[-> ->]|[N2 H2]]; try lia; eauto.
    + specialize (S4 _ _ H2). lia.
    + specialize (S4 _ _ H1). lia.
Qed.

Ltac rl_ok := csimpl; solve [ tauto | split; intros; congruence | intros; congruence | auto ].

Ltac step_sinv HS :=
  match goal with
  | E : nth_error (calls ?s) ?c = Some ?k |- sinv ?s' =>
      eapply (sinv_upd s s' c k);
      [exact HS | exact E | reflexivity | rl_ok | rl_ok | reflexivity | reflexivity | frame_solve k]
  end.

Lemma fresh_not_was_reg k : kinv k -> pc_noid (k_pc k) = true -> was_reg k = false /\ k_id k = 0.
Proof.
  intros K Hp. split; [|apply (ki_noid _ K); auto]. unfold was_reg.
  destruct (k_reg k) eqn:Er.
  - apply (ki_reg_pc _ K) in Er. destruct (k_pc k); discriminate.
  - simpl. apply (ki_fresh _ K). destruct (k_pc k); auto; discriminate.
Qed.

Lemma sinv_ext s a : cinv s -> sinv s -> sinv (ext s a).
Proof.
  intros HI HS. destruct a; simpl; try solve [swc k];
    try solve [eapply sinv_same; eauto; csimpl; tauto].
  - eapply sinv_new; eauto; reflexivity.
  - eapply sinv_new; eauto; reflexivity.
  - destruct (nth_error (calls s) c) eqn:E; auto. destruct (k_pc c0) eqn:Ep; auto.
    destruct (fresh_not_was_reg c0) as [Hw Hid]; eauto using cinv_call. rewrite Ep; auto.
    eapply (sinv_alloc s _ c c0 (set_id (set_pc c0 PReg) (counter s + 1))); eauto; try reflexivity;
      try (csimpl; intros Hr; unfold was_reg in Hw; apply orb_false_iff in Hw; destruct Hw; congruence).
Qed.

Lemma sinv_step s l s' : cinv s -> sinv s -> lstep s l = Some s' -> sinv s'.
Proof.
  intros HI HS H. apply lstep_kind in H. destruct H; try (subst; apply sinv_ext; auto; fail).
  - (* r_rl_unblock *)
    unfold r_rl_unblock in H. open_rule H.
    + eapply sinv_same; eauto; csimpl; try reflexivity. rewrite E; split; discriminate. intros; discriminate.
    + match goal with
      | E : nth_error (calls ?s) ?c = Some ?k |- sinv ?s' =>
          eapply (sinv_upd s s' c k); [exact HS | exact E | reflexivity | csimpl | csimpl | reflexivity | reflexivity | frame_solve k]
      end.
      * rewrite E. split; discriminate.
      * intros; discriminate.
  - (* r_rl_read *)
    unfold r_rl_read in H. open_rule H.
    + (* closeError *)
      destruct HS as [S1 S2 S3 S4 S5]. constructor; csimpl.
      * tauto.
      * intros _ c k Hn. unfold close_all in Hn. apply nth_map_inv in Hn. destruct Hn as (k0 & Hk0 & ->).
        destruct (k_reg k0) eqn:Er; auto.
      * intros; discriminate.
      * intros c k Hn. unfold close_all in Hn. apply nth_map_inv in Hn. destruct Hn as (k0 & Hk0 & ->).
        specialize (S4 _ _ Hk0). destruct (k_reg k0); auto.
      * intros c1 c2 k1 k2 H1 H2 Hne Hpos. unfold close_all in H1, H2.
        apply nth_map_inv in H1. apply nth_map_inv in H2.
        destruct H1 as (x1 & X1 & ->). destruct H2 as (x2 & X2 & ->).
        assert (forall x, k_id (if k_reg x then set_chan x (mkChan (cbuf (k_chan x)) true) false else x) = k_id x) as Hid
          by (intros x; destruct (k_reg x); auto).
        rewrite (Hid x1) in *. rewrite (Hid x2) in *. eauto.
    + (* held *)
      match goal with E1 : find_reg _ _ 0 = Some _ |- _ => pose proof E1 as E1'; apply find_reg0_some in E1'; destruct E1' as (kk & Hk & Hr & Hid) end.
      destruct HS as [S1 S2 S3 S4 S5]. constructor; csimpl; auto.
      * rewrite E in S1. split; intros; try discriminate. apply S1 in H. discriminate.
      * intros c' e' Hh. inversion Hh; subst. exists kk. unfold was_reg. rewrite Hr. auto.
    + (* delivered into the queue *)
      match goal with E1 : find_reg _ _ 0 = Some _ |- _ => pose proof E1 as E1'; apply find_reg0_some in E1'; destruct E1' as (kk & Hk & Hr & Hid) end.
      match goal with E2 : nth_error _ _ = Some ?k |- _ => rewrite Hk in E2; inversion E2; subst k end.
      match goal with
      | E : nth_error (calls ?s) ?c = Some ?k |- sinv ?s' =>
          eapply (sinv_upd s s' c k); [exact HS | exact E | reflexivity | rl_ok | rl_ok | reflexivity | reflexivity |]
      end.
      unfold call_frame, was_reg. csimpl. rewrite Hr. simpl. auto.
    + (* unhandled *)
      eapply sinv_same; eauto; try reflexivity; rl_ok.
  - (* r_check *)
    unfold r_check in H. open_rule H; try (step_sinv HS; fail).
    destruct (fresh_not_was_reg c0) as [Hw Hid]; eauto using cinv_call. rewrite E0; auto.
    eapply (sinv_alloc s _ c c0 (set_id (set_pc c0 PReg) (counter s + 1))); eauto; try reflexivity;
      try (csimpl; intros Hr; unfold was_reg in Hw; apply orb_false_iff in Hw; destruct Hw; congruence).
  - unfold r_reg in H. open_rule H; step_sinv HS.
  - unfold r_wait in H. open_rule H; step_sinv HS.
  - unfold r_wait_ctx in H. open_rule H; step_sinv HS.
  - unfold r_unreg in H. open_rule H; step_sinv HS.
  - unfold r_loop_read in H. open_rule H; step_sinv HS.
  - unfold r_loop_read_ctx in H. open_rule H; step_sinv HS.
  - unfold r_loop_hand in H. open_rule H; step_sinv HS.
  - unfold r_loop_hand_ctx in H. open_rule H; step_sinv HS.
  - unfold r_loop_exit in H. open_rule H; step_sinv HS.
  - unfold r_loop_unreg in H. open_rule H; step_sinv HS.
  - unfold r_recv in H. open_rule H; step_sinv HS.
  - unfold r_header in H. open_rule H; step_sinv HS.
  - unfold r_trailer in H. open_rule H; step_sinv HS.
  - unfold r_send in H. open_rule H; step_sinv HS.
Qed.

Lemma inv_reach ls s : lrun init ls = Some s -> cinv s /\ sinv s.
Proof.
  intros H. eapply (lrun_inv (fun s => cinv s /\ sinv s)); eauto.
  - intros s0 l s' [HI HS] Hs. split; eauto using cinv_step, sinv_step.
  - split. apply cinv_init. apply sinv_init.
Qed.

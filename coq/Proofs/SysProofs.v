(* The product model Model/Sys.v: (1) every run of the system projects to a run
   of the client model and to a run of the server model (so every invariant of a
   component, proved for an ARBITRARY environment, holds of the component inside
   the system); (2) the wires are reliable FIFO queues: what the server has read
   or can still read, followed by what is in flight, is exactly the sequence of
   frames the client wrote, in order, once each - and symmetrically. *)
From Coq Require Import List ZArith Bool Lia Arith.
Import ListNotations.
From Goat Require Import Model.Client Model.Server Proofs.ClientBase Proofs.ServerProofs Model.Sys Proofs.SysLog.
Open Scope Z_scope.

(* ---------- (1) projections ---------- *)
Lemma lstep_cl pol s l s' :
  Sys.lstep pol s l = Some s' ->
  match l with
  | LC x => Client.lstep (cl s) x = Some (cl s') /\ client_label_ok x = true /\ sv s' = sv s
  | LS x => Server.lstep (sv s) x = Some (sv s') /\ server_label_ok x = true /\ pol_ok pol (sv s) x = true /\ cl s' = cl s
  | LXferC2S => exists f rest, c2s s = f :: rest /\ sv s' = Server.ext (sv s) (Server.ADeliver f) /\ cl s' = cl s /\ c2s s' = rest
  | LXferS2C => exists e rest, s2c s = e :: rest /\ cl s' = Client.ext (cl s) (Client.ADeliver e) /\ sv s' = sv s /\ s2c s' = rest
  end.
Proof.
  destruct l as [x|x| |]; simpl; intros H.
  - destruct (client_label_ok x) eqn:Ok; [|discriminate]. destruct (Client.lstep (cl s) x) eqn:E; [|discriminate].
    inversion H; subst; simpl; auto.
  - destruct (server_label_ok x && pol_ok pol (sv s) x) eqn:Ok; [|discriminate]. apply andb_prop in Ok. destruct Ok.
    destruct (Server.lstep (sv s) x) eqn:E; [|discriminate]. inversion H; subst; simpl; auto.
  - destruct (c2s s) as [|f rest] eqn:E; [discriminate|]. inversion H; subst; simpl. eauto 10.
  - destruct (s2c s) as [|e rest] eqn:E; [discriminate|]. inversion H; subst; simpl. eauto 10.
Qed.

Theorem proj_c_run pol ls : forall s s', Sys.lrun pol s ls = Some s' -> Client.lrun (cl s) (proj_c pol s ls) = Some (cl s').
Proof.
  induction ls as [|l ls IH]; simpl; intros s s' H.
  - inversion H; auto.
  - destruct (Sys.lstep pol s l) as [s1|] eqn:E; [|discriminate].
    pose proof (lstep_cl _ _ _ _ E) as P. specialize (IH _ _ H).
    destruct l as [x|x| |].
    + destruct P as (P & _). cbn [Client.lrun]. rewrite P. exact IH.
    + destruct P as (_ & _ & _ & P). rewrite <- P. exact IH.
    + destruct P as (f & rest & _ & _ & P & _). rewrite <- P. exact IH.
    + destruct P as (e & rest & P1 & P2 & _). rewrite P1. cbn [Client.lrun Client.lstep]. rewrite <- P2. exact IH.
Qed.

Theorem proj_s_run pol ls : forall s s', Sys.lrun pol s ls = Some s' -> Server.lrun (sv s) (proj_s pol s ls) = Some (sv s').
Proof.
  induction ls as [|l ls IH]; simpl; intros s s' H.
  - inversion H; auto.
  - destruct (Sys.lstep pol s l) as [s1|] eqn:E; [|discriminate].
    pose proof (lstep_cl _ _ _ _ E) as P. specialize (IH _ _ H).
    destruct l as [x|x| |].
    + destruct P as (_ & _ & P). rewrite <- P. exact IH.
    + destruct P as (P & _). cbn [Server.lrun]. rewrite P. exact IH.
    + destruct P as (f & rest & P1 & P2 & _). rewrite P1. cbn [Server.lrun Server.lstep]. rewrite <- P2. exact IH.
    + destruct P as (e & rest & _ & _ & P & _). rewrite <- P. exact IH.
Qed.

Corollary client_reachable pol ls s : Sys.lrun pol Sys.init ls = Some s -> Client.reachable (cl s).
Proof. intros H. exists (proj_c pol Sys.init ls). exact (proj_c_run _ _ _ _ H). Qed.

Corollary server_reachable pol ls s : Sys.lrun pol Sys.init ls = Some s -> Server.reachable (sv s).
Proof. intros H. exists (proj_s pol Sys.init ls). exact (proj_s_run _ _ _ _ H). Qed.

(* ---------- (2) the wires ---------- *)
Record winv (s : Sys.state) : Prop := mkWinv {
  (* the history of the client->server wire is the client's write log *)
  w_sent : map f_env (sent_c2s s) = cwrites (Client.log (cl s));
  (* read by the server ++ waiting at the server ++ in flight = everything sent, in order *)
  w_c2s : sreads (Server.log (sv s)) ++ Server.inbox (sv s) ++ c2s s = sent_c2s s;
  (* read by the client ++ waiting at the client ++ in flight = everything the server wrote, in order *)
  w_s2c : creads (Client.log (cl s)) ++ Client.inbox (cl s) ++ s2c s = map f_env (swrites (Server.log (sv s))) }.

Lemma skipn_app_len {A} (l evs : list A) : skipn (length l) (l ++ evs) = evs.
Proof. induction l; simpl; auto. Qed.

Lemma map_env_frame c l : map f_env (map (frame_of c) l) = l.
Proof. induction l; simpl; congruence. Qed.

Lemma winv_init : winv Sys.init.
Proof. constructor; reflexivity. Qed.

Lemma winv_step pol s l s' : winv s -> Sys.lstep pol s l = Some s' -> winv s'.
Proof.
  intros [W1 W2 W3] H. destruct l as [x|x| |]; simpl in H.
  - destruct (client_label_ok x) eqn:Ok; [|discriminate]. destruct (Client.lstep (cl s) x) as [c'|] eqn:E; [|discriminate].
    inversion H; subst s'; clear H. destruct (cstep_nodeliver _ _ _ E Ok) as (evs & EL & ER).
    unfold new_cwrites. rewrite EL, skipn_app_len.
    constructor; cbn [cl sv c2s s2c sent_c2s].
    + rewrite map_app, map_env_frame, W1, EL, cwrites_app. reflexivity.
    + rewrite <- W2, <- !app_assoc. reflexivity.
    + rewrite <- W3. rewrite app_assoc, ER, <- app_assoc. reflexivity.
  - destruct (server_label_ok x && pol_ok pol (sv s) x) eqn:Ok; [|discriminate]. apply andb_prop in Ok. destruct Ok as [Ok _].
    destruct (Server.lstep (sv s) x) as [v'|] eqn:E; [|discriminate].
    inversion H; subst s'; clear H. destruct (sstep_nodeliver _ _ _ E Ok) as (evs & EL & ER).
    unfold new_swrites. rewrite EL, skipn_app_len.
    constructor; cbn [cl sv c2s s2c sent_c2s].
    + exact W1.
    + rewrite <- W2. rewrite !app_assoc, ER. reflexivity.
    + rewrite EL, swrites_app, map_app, <- W3, <- !app_assoc. reflexivity.
  - destruct (c2s s) as [|f rest] eqn:E; [discriminate|]. inversion H; subst s'; clear H.
    constructor; cbn [cl sv c2s s2c sent_c2s]; auto.
    rewrite <- W2. simpl. rewrite <- !app_assoc. reflexivity.
  - destruct (s2c s) as [|e rest] eqn:E; [discriminate|]. inversion H; subst s'; clear H.
    constructor; cbn [cl sv c2s s2c sent_c2s]; auto.
    rewrite <- W3. simpl. rewrite <- !app_assoc. reflexivity.
Qed.

Theorem winv_run pol ls : forall s s', winv s -> Sys.lrun pol s ls = Some s' -> winv s'.
Proof.
  induction ls as [|l ls IH]; simpl; intros s s' W H.
  - inversion H; subst; auto.
  - destruct (Sys.lstep pol s l) eqn:E; [|discriminate]. eapply IH; [eapply winv_step; eauto | exact H].
Qed.

Theorem winv_reach pol ls s : Sys.lrun pol Sys.init ls = Some s -> winv s.
Proof. apply winv_run, winv_init. Qed.

(* ---------- consequences ---------- *)
Definition is_prefix {A} (p l : list A) : Prop := exists r, l = p ++ r.

(* no loss, duplication, reordering or alteration on the wires: what a side has read is a prefix of what
   the other side wrote *)
Theorem wire_c2s_prefix pol ls s : Sys.lrun pol Sys.init ls = Some s ->
  is_prefix (map f_env (sreads (Server.log (sv s)))) (cwrites (Client.log (cl s))).
Proof.
  intros H. destruct (winv_reach _ _ _ H) as [W1 W2 _]. rewrite <- W1, <- W2, map_app. eexists; reflexivity.
Qed.

Theorem wire_s2c_prefix pol ls s : Sys.lrun pol Sys.init ls = Some s ->
  is_prefix (creads (Client.log (cl s))) (map f_env (swrites (Server.log (sv s)))).
Proof. intros H. destruct (winv_reach _ _ _ H) as [_ _ W3]. rewrite <- W3. eexists; reflexivity. Qed.

(* with both wires empty and nothing waiting to be read, each side has read exactly what the other wrote *)
Theorem wire_complete pol ls s : Sys.lrun pol Sys.init ls = Some s ->
  c2s s = [] -> s2c s = [] -> Server.inbox (sv s) = [] -> Client.inbox (cl s) = [] ->
  map f_env (sreads (Server.log (sv s))) = cwrites (Client.log (cl s)) /\
  creads (Client.log (cl s)) = map f_env (swrites (Server.log (sv s))).
Proof.
  intros H E1 E2 E3 E4. destruct (winv_reach _ _ _ H) as [W1 W2 W3].
  rewrite E1, E3 in W2. rewrite E2, E4 in W3. rewrite !app_nil_r in *. rewrite W2, W1. auto.
Qed.

Lemma in_sreads f l : In f (sreads l) <-> In (SvRead f) l.
Proof.
  induction l as [|x l IH]; simpl; [tauto|]. destruct x; simpl; rewrite ?IH; try (split; [auto | intros [X|X]; [discriminate|auto]]).
  split; [intros [->|X]; auto | intros [X|X]; [inversion X; auto | auto]].
Qed.

Lemma in_creads e l : In e (creads l) <-> exists to, In (EvRead e to) l.
Proof.
  induction l as [|x l IH]; simpl; [split; [tauto | intros [? []]]|].
  destruct x; simpl; rewrite ?IH;
    try (split; [intros [to X]; exists to; auto | intros [to [X|X]]; [discriminate | exists to; auto]]).
  split.
  - intros [->|(t & X)]; [exists to; auto | exists t; auto].
  - intros [t [X|X]]; [inversion X; auto | right; exists t; auto].
Qed.

Lemma in_cwrites e l : In e (cwrites l) <-> In (EvWrite e) l.
Proof.
  induction l as [|x l IH]; simpl; [tauto|]. destruct x; simpl; rewrite ?IH; try (split; [auto | intros [X|X]; [discriminate|auto]]).
  split; [intros [->|X]; auto | intros [X|X]; [inversion X; auto | auto]].
Qed.

Lemma in_swrites f l : In f (swrites l) <-> In (SvWrite f) l.
Proof.
  induction l as [|x l IH]; simpl; [tauto|]. destruct x; simpl; rewrite ?IH; try (split; [auto | intros [X|X]; [discriminate|auto]]).
  split; [intros [->|X]; auto | intros [X|X]; [inversion X; auto | auto]].
Qed.

(* every frame the server read was written by the client (as envelope), every envelope the client read was
   written by the server: nothing is fabricated by the wires *)
Theorem server_read_was_written pol ls s f : Sys.lrun pol Sys.init ls = Some s ->
  In (SvRead f) (Server.log (sv s)) -> In f (sent_c2s s) /\ In (EvWrite (f_env f)) (Client.log (cl s)).
Proof.
  intros H Hin. destruct (winv_reach _ _ _ H) as [W1 W2 _].
  assert (I : In f (sent_c2s s)) by (rewrite <- W2; apply in_or_app; left; apply in_sreads; auto).
  split; auto. apply in_cwrites. rewrite <- W1. apply in_map. auto.
Qed.

Theorem client_read_was_written pol ls s e to : Sys.lrun pol Sys.init ls = Some s ->
  In (EvRead e to) (Client.log (cl s)) -> exists f, In (SvWrite f) (Server.log (sv s)) /\ f_env f = e.
Proof.
  intros H Hin. destruct (winv_reach _ _ _ H) as [_ _ W3].
  assert (I : In e (map f_env (swrites (Server.log (sv s))))).
  { rewrite <- W3. apply in_or_app. left. apply in_creads. eauto. }
  apply in_map_iff in I. destruct I as (f & Ef & If). exists f. split; auto. apply in_swrites; auto.
Qed.

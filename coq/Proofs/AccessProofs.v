(* Soundness of the lockset discipline for the execution model of Model/Access.v. *)
From Coq Require Import List ZArith Bool Lia.
Import ListNotations.
From Goat Require Import Model.Access.
Open Scope Z_scope.

(* ---------- happens-before respects the trace order ---------- *)
Lemma hb_lt tr i j : hb tr i j -> (i < j)%nat.
Proof. induction 1; lia. Qed.

(* ---------- the holder of a mutex along the trace ---------- *)
Lemma mutex_eqb_eq a b : mutex_eqb a b = true <-> a = b.
Proof.
  destruct a as [a1 a2], b as [b1 b2]. unfold mutex_eqb. cbn [fst snd].
  rewrite andb_true_iff, !Z.eqb_eq. split; [intros [-> ->]; reflexivity|intro H; inversion H; auto].
Qed.
Lemma mutex_eqb_refl a : mutex_eqb a a = true.
Proof. apply mutex_eqb_eq. reflexivity. Qed.

Lemma firstn_S_nth {A} (l : list A) n x : nth_error l n = Some x -> firstn (S n) l = firstn n l ++ [x].
Proof.
  revert n. induction l as [|h t IH]; intros [|n] H; cbn in *; try discriminate.
  - inversion H. reflexivity.
  - f_equal. apply IH, H.
Qed.
Lemma firstn_S_none {A} (l : list A) n : nth_error l n = None -> firstn (S n) l = firstn n l.
Proof.
  intro H. apply nth_error_None in H. rewrite !firstn_all2 by lia. reflexivity.
Qed.

Lemma holder_step tr n e m :
  nth_error tr n = Some e -> holder (firstn (S n) tr) m = step_holder m (holder (firstn n tr) m) e.
Proof. intro H. unfold holder. rewrite (firstn_S_nth _ _ _ H), fold_left_app. reflexivity. Qed.

Lemma holder_past tr n m : nth_error tr n = None -> holder (firstn (S n) tr) m = holder (firstn n tr) m.
Proof. intro H. rewrite (firstn_S_none _ _ H). reflexivity. Qed.

(* while t holds m, the next event on m is t's Unlock *)
Lemma first_unlock tr m t : wf_trace tr -> forall d i,
  holder (firstn i tr) m = Some t -> holder (firstn (i + d) tr) m <> Some t ->
  exists u, (i <= u < i + d)%nat /\ nth_error tr u = Some (Unlock t m) /\ holder (firstn (S u) tr) m = None.
Proof.
  intro Hwf. induction d as [|d IH]; intros i Hi Hd.
  - rewrite Nat.add_0_r in Hd. contradiction.
  - destruct (holder (firstn (i + d) tr) m) as [t'|] eqn:Hh.
    + assert (Hdec : t' = t \/ t' <> t) by (destruct (Z.eq_dec t' t); auto). destruct Hdec as [->|Hne].
      * (* still held at i+d: the event number i+d releases it *)
        replace (i + S d)%nat with (S (i + d)) in Hd by lia.
        destruct (nth_error tr (i + d)) as [e|] eqn:He.
        -- rewrite (holder_step _ _ _ _ He), Hh in Hd. pose proof (Hwf _ _ He) as Hw.
           destruct e as [? ? ? ?|t1 m1|t1 m1|? ?|? ? ?|? ? ?]; cbn [step_holder] in Hd; try congruence.
           ++ destruct (mutex_eqb m m1) eqn:Em; [|congruence]. apply mutex_eqb_eq in Em. subst m1. rewrite Hh in Hw. discriminate.
           ++ destruct (mutex_eqb m m1) eqn:Em; [|congruence]. apply mutex_eqb_eq in Em. subst m1. rewrite Hh in Hw.
              inversion Hw; subst t1. exists (i + d)%nat. split; [lia|]. split; [exact He|].
              rewrite (holder_step _ _ _ _ He), Hh. cbn [step_holder]. rewrite mutex_eqb_refl. reflexivity.
        -- rewrite (holder_past _ _ _ He), Hh in Hd. congruence.
      * destruct (IH i Hi) as (u & Hu & H1 & H2); [rewrite Hh; congruence|]. exists u. split; [lia|auto].
    + destruct (IH i Hi) as (u & Hu & H1 & H2); [rewrite Hh; discriminate|]. exists u. split; [lia|auto].
Qed.

(* if t holds m at the end of an interval but not at its start, t locked it in between *)
Lemma lock_between tr m t : forall d i,
  holder (firstn i tr) m <> Some t -> holder (firstn (i + d) tr) m = Some t ->
  exists v, (i <= v < i + d)%nat /\ nth_error tr v = Some (Lock t m).
Proof.
  induction d as [|d IH]; intros i Hi Hd.
  - rewrite Nat.add_0_r in Hd. contradiction.
  - assert (Hdec : holder (firstn (i + d) tr) m = Some t \/ holder (firstn (i + d) tr) m <> Some t).
    { destruct (holder (firstn (i + d) tr) m) as [t'|]; [|right; discriminate].
      destruct (Z.eq_dec t' t) as [->|]; [left; reflexivity|right; congruence]. }
    destruct Hdec as [Hh|Hh].
    + destruct (IH i Hi Hh) as (v & Hv & H). exists v. split; [lia|exact H].
    + replace (i + S d)%nat with (S (i + d)) in Hd by lia.
      destruct (nth_error tr (i + d)) as [e|] eqn:He.
      * rewrite (holder_step _ _ _ _ He) in Hd.
        destruct e as [? ? ? ?|t1 m1|t1 m1|? ?|? ? ?|? ? ?]; cbn [step_holder] in Hd; try congruence.
        -- destruct (mutex_eqb m m1) eqn:Em; [|congruence]. apply mutex_eqb_eq in Em. subst m1.
           inversion Hd; subst t1. exists (i + d)%nat. split; [lia|exact He].
        -- destruct (mutex_eqb m m1); congruence.
      * rewrite (holder_past _ _ _ He) in Hd. congruence.
Qed.

(* two accesses made while holding the same mutex are ordered *)
Lemma mutex_hb tr m i j e1 e2 t1 t2 :
  wf_trace tr -> (i < j)%nat -> nth_error tr i = Some e1 -> nth_error tr j = Some e2 ->
  thread_of e1 = t1 -> thread_of e2 = t2 -> t1 <> t2 ->
  (forall t' m', e1 <> Unlock t' m') ->
  holds tr i t1 m -> holds tr j t2 m -> hb tr i j.
Proof.
  intros Hwf Hij He1 He2 Ht1 Ht2 Hne Hnu H1 H2. unfold holds in *.
  destruct (first_unlock tr m t1 Hwf (j - i) i H1) as (u & Hu & Hun & Hnone).
  { replace (i + (j - i))%nat with j by lia. rewrite H2. congruence. }
  assert (Hiu : (i < u)%nat).
  { destruct (Nat.eq_dec i u) as [->|]; [|lia]. rewrite He1 in Hun. inversion Hun. exfalso. eapply Hnu; eassumption. }
  destruct (lock_between tr m t2 (j - S u) (S u)) as (v & Hv & Hlk).
  { rewrite Hnone. discriminate. }
  { replace (S u + (j - S u))%nat with j by lia. exact H2. }
  apply hb_trans with u.
  - eapply hb_po; [exact Hiu|exact He1|exact Hun|]. cbn. exact Ht1.
  - apply hb_trans with v.
    + eapply hb_sync; [|exact Hun|exact Hlk|reflexivity]. lia.
    + eapply hb_po; [|exact Hlk|exact He2|]. lia. cbn. symmetry. exact Ht2.
Qed.

(* ---------- the classical statement: one discipline per location ---------- *)
Theorem lockset_sound_classes tr :
  wf_trace tr -> (forall l, exists d, obeys tr l d) -> race_free tr.
Proof.
  intros Hwf Hd i j (Hij & t & t' & l & w & w' & a & a' & Hi & Hj & Hne & Hw & Ha).
  destruct (Hd l) as (d & Hob). pose proof (Hob _ _ _ _ Hi) as Oi. pose proof (Hob _ _ _ _ Hj) as Oj.
  destruct d as [m| |t0|t0 p].
  - eapply (mutex_hb tr m i j); try eassumption; try reflexivity. intros; discriminate.
  - subst a a'. discriminate.
  - congruence.
  - destruct Oi as ((e & Hp & Hte) & Wi & Ni). destruct Oj as (_ & Wj & Nj).
    destruct w.
    + (* the earlier access is a write: by t0 before p; the later one is by another thread, after p *)
      destruct (Wi eq_refl) as [-> Hip].
      apply hb_trans with p; [|apply Nj; congruence].
      eapply hb_po; [exact Hip|exact Hi|exact Hp|]. cbn. symmetry. exact Hte.
    + (* the later access is the write: it precedes p, which precedes the earlier access: impossible *)
      cbn in Hw. destruct (Wj Hw) as [-> Hjp].
      assert (Hpi : hb tr p i) by (apply Ni; congruence). apply hb_lt in Hpi. lia.
Qed.

(* ---------- the table ---------- *)
Lemma share_lock_common r1 r2 : share_lock r1 r2 = true -> exists m, In m (r_locks r1) /\ In m (r_locks r2).
Proof.
  unfold share_lock. rewrite existsb_exists. intros (m & H1 & H2). apply existsb_exists in H2 as (m' & H2 & E).
  apply Z.eqb_eq in E. subst m'. eauto.
Qed.

Lemma race_free_table_pair tbl r1 r2 :
  race_free_table tbl = true -> In r1 tbl -> In r2 tbl -> r_field r1 = r_field r2 -> pair_safe r1 r2 = true.
Proof.
  unfold race_free_table. rewrite forallb_forall. intros H H1 H2 Hf.
  specialize (H _ H1). rewrite forallb_forall in H. specialize (H _ H2).
  rewrite Hf, Z.eqb_refl in H. exact H.
Qed.

(* a go statement happens before every event of the goroutine it starts; so does everything
   the parent did before the go statement *)
Lemma hb_go_child tr p g i ep eg ei t0 t1 :
  (p <= g)%nat -> (g < i)%nat ->
  nth_error tr p = Some ep -> nth_error tr g = Some eg -> nth_error tr i = Some ei ->
  thread_of ep = t0 -> eg = Go t0 t1 -> thread_of ei = t1 -> hb tr p i.
Proof.
  intros Hpg Hgi Hp Hg Hi Htp -> Hti.
  assert (Hgo : hb tr g i) by (eapply hb_sync; [exact Hgi|exact Hg|exact Hi|exact Hti]).
  destruct (Nat.eq_dec p g) as [->|Hne]; [exact Hgo|].
  apply hb_trans with g; [|exact Hgo].
  eapply hb_po; [|exact Hp|exact Hg|exact Htp]. lia.
Qed.

(* the same through a channel: what the sender did before the send happens before
   everything the receiver does after the matching receive *)
Lemma hb_send_recv tr p s r i ep er ei t0 t1 c k :
  (p <= s)%nat -> (s < r)%nat -> (r <= i)%nat ->
  nth_error tr p = Some ep -> nth_error tr s = Some (Send t0 c k) -> nth_error tr r = Some er ->
  nth_error tr i = Some ei ->
  thread_of ep = t0 -> er = Recv t1 c k -> thread_of ei = t1 -> hb tr p i.
Proof.
  intros Hps Hsr Hri Hp Hs Hr Hi Htp -> Hti.
  assert (Hsr' : hb tr s r) by (eapply hb_sync; [exact Hsr|exact Hs|exact Hr|cbn; auto]).
  assert (Hsi : hb tr s i).
  { destruct (Nat.eq_dec r i) as [<-|Hne]; [exact Hsr'|].
    apply hb_trans with r; [exact Hsr'|]. eapply hb_po; [|exact Hr|exact Hi|cbn; auto]. lia. }
  destruct (Nat.eq_dec p s) as [->|Hne]; [exact Hsi|].
  apply hb_trans with s; [|exact Hsi].
  eapply hb_po; [|exact Hp|exact Hs|exact Htp]. lia.
Qed.

Lemma same_pub_tag r1 r2 : same_pub r1 r2 = true -> exists x, r_class r1 = JPub x /\ r_class r2 = JPub x.
Proof.
  unfold same_pub. destruct (r_class r1) as [| | |?|x|?]; try discriminate.
  destruct (r_class r2) as [| | |?|y|?]; try discriminate.
  intro E. apply Z.eqb_eq in E. subst y. eauto.
Qed.
Lemma pub_after_tag r1 r2 : pub_after r1 r2 = true -> exists x, r_class r1 = JPub x /\ r_class r2 = JAfter x.
Proof.
  unfold pub_after. destruct (r_class r1) as [| | |?|x|?]; try discriminate.
  destruct (r_class r2) as [| | |?|?|y]; try discriminate.
  intro E. apply Z.eqb_eq in E. subst y. eauto.
Qed.

Theorem lockset_sound tbl tr I :
  wf_trace tr -> conforms tbl tr I -> race_free_table tbl = true -> race_free tr.
Proof.
  intros Hwf [Hrows Hconf] Htbl i j (Hij & t & t' & [o f] & w & w' & a & a' & Hi & Hj & Hne & Hw & Ha).
  destruct (Hrows _ _ _ _ _ _ Hi) as (r & Hr & Hf & Hrw & Hat & Hlk & Hin & Hnin & Hpub & Haft).
  destruct (Hrows _ _ _ _ _ _ Hj) as (r' & Hr' & Hf' & Hrw' & Hat' & Hlk' & Hin' & Hnin' & Hpub' & Haft').
  pose proof (race_free_table_pair tbl r r' Htbl (nth_error_In _ _ Hr) (nth_error_In _ _ Hr') (eq_trans Hf (eq_sym Hf'))) as Hs.
  unfold pair_safe in Hs. rewrite !orb_true_iff in Hs.
  destruct Hs as [[[[[[[[Hs|Hs]|Hs]|Hs]|Hs]|Hs]|Hs]|Hs]|Hs].
  - (* two reads *) rewrite Hrw, Hrw' in Hs. destruct w, w'; discriminate.
  - (* both atomic *) rewrite Hat, Hat' in Hs. rewrite Hs in Ha. discriminate.
  - (* the earlier access is an initialisation *)
    destruct (Hin Hs) as (Ht & Hip & e & Hp & Hte).
    destruct (is_init r') eqn:Hi'.
    + destruct (Hin' eq_refl) as (Ht' & _). congruence.
    + destruct (Hnin' eq_refl) as [Ht'|Hhb]; [congruence|].
      apply hb_trans with (pubidx I o); [|exact Hhb].
      eapply hb_po; [exact Hip|exact Hi|exact Hp|]. cbn. congruence.
  - (* the later access is an initialisation: the earlier one cannot be by another thread *)
    destruct (Hin' Hs) as (Ht' & Hjp & _).
    destruct (is_init r) eqn:Hi0.
    + destruct (Hin eq_refl) as (Ht & _). congruence.
    + destruct (Hnin eq_refl) as [Ht|Hhb]; [congruence|]. apply hb_lt in Hhb. lia.
  - (* confined to one goroutine *) exfalso. apply Hne. eapply Hconf; eassumption.
  - (* two sites of the publishing goroutine *)
    apply same_pub_tag in Hs as (x & Hc & Hc').
    destruct (Hpub _ Hc) as (Ht & _). destruct (Hpub' _ Hc') as (Ht' & _). congruence.
  - (* the earlier access is the publishing write, the later one a site listed after it *)
    apply pub_after_tag in Hs as (x & Hc & Hc').
    destruct (Hpub _ Hc) as (Ht & Hip & e & Hp & Hte & _).
    destruct (Haft' _ Hc') as [Ht'|Hhb]; [congruence|].
    apply hb_trans with (pubat I o x); [|exact Hhb].
    eapply hb_po; [exact Hip|exact Hi|exact Hp|]. cbn. congruence.
  - (* the later access is the publishing write: a listed site of another thread cannot precede it *)
    apply pub_after_tag in Hs as (x & Hc' & Hc).
    destruct (Hpub' _ Hc') as (Ht' & Hjp & _).
    destruct (Haft _ Hc) as [Ht|Hhb]; [congruence|]. apply hb_lt in Hhb. lia.
  - (* a common mutex *)
    apply share_lock_common in Hs as (m & Hm & Hm').
    eapply (mutex_hb tr (lockobj I o m, m) i j); try eassumption; try reflexivity; auto. intros; discriminate.
Qed.

(* the checker is what it says: every two rows of one field are pairwise safe *)
Lemma race_free_table_spec tbl :
  race_free_table tbl = true <->
  forall r1 r2, In r1 tbl -> In r2 tbl -> r_field r1 = r_field r2 -> pair_safe r1 r2 = true.
Proof.
  split; [intros H r1 r2; apply race_free_table_pair, H|].
  intro H. unfold race_free_table. apply forallb_forall. intros r1 H1. apply forallb_forall. intros r2 H2.
  destruct (r_field r1 =? r_field r2) eqn:E; [|reflexivity]. apply Z.eqb_eq in E. cbn. auto.
Qed.

(* a field whose locking is inconsistent is rejected *)
Lemma unguarded_write_rejected tbl r1 r2 :
  In r1 tbl -> In r2 tbl -> r_field r1 = r_field r2 ->
  r_write r1 = true -> r_class r1 = JPlain -> r_class r2 = JPlain -> share_lock r1 r2 = false ->
  race_free_table tbl = false.
Proof.
  intros H1 H2 Hf Hw Hc1 Hc2 Hs. destruct (race_free_table tbl) eqn:E; [|reflexivity].
  pose proof (race_free_table_pair tbl r1 r2 E H1 H2 Hf) as Hp.
  unfold pair_safe, is_init, is_atomic, same_owner, same_pub, pub_after in Hp.
  rewrite Hw, Hc1, Hc2, Hs in Hp. discriminate.
Qed.

(* field-level publication covers only the listed sites: a publishing write and any
   site of the field that is neither an object-level initialisation, nor a site of
   the publisher, nor listed as after THIS publication, and shares no mutex with
   it (in particular: a plain, unlisted access) => the table is rejected *)
Lemma pub_unlisted_rejected tbl r1 r2 tag :
  In r1 tbl -> In r2 tbl -> r_field r1 = r_field r2 ->
  r_write r1 = true -> r_class r1 = JPub tag ->
  r_class r2 <> JInit -> r_class r2 <> JPub tag -> r_class r2 <> JAfter tag ->
  share_lock r1 r2 = false ->
  race_free_table tbl = false.
Proof.
  intros H1 H2 Hf Hw Hc1 Hn1 Hn2 Hn3 Hs. destruct (race_free_table tbl) eqn:E; [|reflexivity].
  pose proof (race_free_table_pair tbl r1 r2 E H1 H2 Hf) as Hp.
  unfold pair_safe, is_init, is_atomic, same_owner, same_pub, pub_after in Hp.
  rewrite Hw, Hc1, Hs in Hp. cbn in Hp.
  destruct (r_class r2) as [| | |y|y|y]; cbn in Hp; try discriminate; try congruence.
  - rewrite !orb_false_r in Hp. apply Z.eqb_eq in Hp. congruence.
  - rewrite !orb_false_r in Hp. apply Z.eqb_eq in Hp. congruence.
Qed.

(* C02, direction handler -> caller, the client half: a stream call loses nothing that is read for its id while
   it is registered.  PC: the envelopes read under the id of an open stream are EXACTLY what the call took from
   its queue, then what sits in the queue, then what the read loop holds for it - then (only once the call has
   unregistered) what was dropped.  Needs one fact about the environment: nothing is read under an id before that
   id was allocated and registered (true of the system: the server answers only ids it has read). *)
From Coq Require Import List ZArith Bool Lia Arith.
Import ListNotations.
From Goat Require Import Model.Client Model.Server Proofs.ClientBase Proofs.ClientInv Proofs.ClientLog Proofs.ClientProps Proofs.ProtocolClient
  Model.Sys Proofs.SysLog Proofs.SysProofs Proofs.SysC02 Proofs.SysC02e Proofs.SysC02f Proofs.SysC01b Proofs.SysC02h Proofs.SysFacts Proofs.SysFacts2 Proofs.SysC01d.
Open Scope Z_scope.

Definition idr (i : Z) (l : list cev) : list env := by_id i (creads l).

Lemma creads_app a b : creads (a ++ b) = creads a ++ creads b.
Proof. induction a as [|x a IH]; simpl; auto. destruct x; simpl; rewrite ?IH; auto. Qed.

Lemma idr_app i a b : idr i (a ++ b) = idr i a ++ idr i b.
Proof. unfold idr. rewrite creads_app. apply by_id_app. Qed.

Definition PCh (s : Client.state) (c : nat) (k : call) : Prop :=
  k_pc k = POpen ->
  exists post, idr (k_id k) (Client.log s) = ctakes c (Client.log s) ++ bufpart k ++ holdpart c (rl s) ++ post /\
               (k_reg k = true -> post = []).
Definition PC (s : Client.state) : Prop := forall c k, nth_error (calls s) c = Some k -> PCh s c k.

Definition quiet3 (evs : list cev) : Prop := (forall i, idr i evs = []) /\ forall c, ctakes c evs = [].

Lemma PC_upd s s' c0 k0 k' evs :
  PC s -> calls s' = upd c0 k' (calls s) -> nth_error (calls s) c0 = Some k0 ->
  Client.log s' = Client.log s ++ evs -> quiet3 evs -> rl s' = rl s ->
  (k_pc k' = POpen -> k_pc k0 = POpen /\ k_id k' = k_id k0 /\ bufpart k' = bufpart k0 /\ (k_reg k' = true -> k_reg k0 = true)) ->
  PC s'.
Proof.
  intros HP Hc Hn Hl (Q1 & Q2) Hrl Hk c k P Hp. rewrite Hl, idr_app, ctakes_app, Q1, Q2, !app_nil_r, Hrl. rewrite Hc in P. destruct (Nat.eq_dec c c0) as [->|Hne].
  - rewrite nth_upd_eq in P by (eapply nth_some_lt; eauto). inversion P; subst k.
    destruct (Hk Hp) as (A & B & C & D). destruct (HP _ _ Hn A) as (post & E & R).
    exists post. rewrite B, C. split; [exact E | intros X; apply R; apply D; exact X].
  - rewrite nth_upd_neq in P by auto. apply (HP _ _ P Hp).
Qed.

Lemma PC_same s s' evs :
  PC s -> calls s' = calls s -> Client.log s' = Client.log s ++ evs -> quiet3 evs -> rl s' = rl s -> PC s'.
Proof.
  intros HP Hc Hl (Q1 & Q2) Hrl c k P Hp. rewrite Hl, idr_app, ctakes_app, Q1, Q2, !app_nil_r, Hrl. rewrite Hc in P. apply (HP _ _ P Hp).
Qed.

Lemma PC_take s s' c0 k0 k' e :
  PC s -> calls s' = upd c0 k' (calls s) -> nth_error (calls s) c0 = Some k0 ->
  Client.log s' = Client.log s ++ [EvTake c0 e] -> rl s' = rl s ->
  cbuf (k_chan k0) = Some e -> cbuf (k_chan k') = None ->
  (k_pc k' = POpen -> k_pc k0 = POpen /\ k_id k' = k_id k0 /\ (k_reg k' = true -> k_reg k0 = true)) -> PC s'.
Proof.
  intros HP Hc Hn Hl Hrl Hb Hb' Hk c k P Hp. rewrite Hl, idr_app, ctakes_app, Hrl. change (idr (k_id k) [EvTake c0 e]) with (@nil env). simpl. rewrite !app_nil_r.
  rewrite Hc in P. destruct (Nat.eq_dec c c0) as [->|Hne].
  - rewrite nth_upd_eq in P by (eapply nth_some_lt; eauto). inversion P; subst k. rewrite Nat.eqb_refl.
    destruct (Hk Hp) as (A & B & D). destruct (HP _ _ Hn A) as (post & E & R).
    exists post. rewrite B. unfold bufpart in *. rewrite Hb in E. rewrite Hb'. simpl in *. rewrite <- app_assoc. simpl.
    split; [exact E | intros X; apply R; apply D; exact X].
  - rewrite nth_upd_neq in P by auto. destruct (Nat.eqb_spec c0 c) as [->|_]; [contradiction|]. rewrite app_nil_r. apply (HP _ _ P Hp).
Qed.

Ltac quiet3_tac := split; [let i := fresh in intros i; reflexivity | let c := fresh in intros c; reflexivity].

Ltac pc_side :=
  csimpl; let hZ := fresh "hZ" in intros hZ;
  first [ discriminate hZ
        | repeat split; first [ exact hZ | reflexivity | assumption | (intros; first [assumption | discriminate | congruence]) ] ].

Ltac PC_done HP :=
  csimpl;
  try match goal with |- context [if k_reg ?k then _ else _] => destruct (k_reg k) eqn:? end;
  csimpl;
  first [ eapply (PC_same _ _ []); [exact HP | reflexivity | csimpl; rewrite app_nil_r; reflexivity | quiet3_tac | reflexivity]
        | eapply PC_same; [exact HP | reflexivity | csimpl; rewrite <- ?app_assoc; reflexivity | quiet3_tac | reflexivity]
        | match goal with E : nth_error (calls ?s) ?c = Some ?k |- PC _ =>
            first [ eapply (PC_upd s _ c k _ []); [exact HP | csimpl; reflexivity | exact E | csimpl; rewrite app_nil_r; reflexivity
                                                  | quiet3_tac | reflexivity | unfold bufpart; pc_side]
                  | eapply (PC_upd s _ c k); [exact HP | csimpl; reflexivity | exact E | csimpl; rewrite <- ?app_assoc; reflexivity
                                             | quiet3_tac | reflexivity | unfold bufpart; pc_side] ]
          end ].

Ltac PC_take_tac HP :=
  match goal with E : nth_error (calls ?s) ?c = Some ?k, B : cbuf (k_chan ?k) = Some ?e |- PC _ =>
    eapply (PC_take s _ c k _ e); [exact HP | csimpl; reflexivity | exact E | csimpl; reflexivity | reflexivity | exact B | csimpl; reflexivity | pc_side]
  end.

(* nothing was read under the id of a call that has not registered yet *)
Definition fresh_ok (s : Client.state) : Prop :=
  forall c k, nth_error (calls s) c = Some k -> k_pc k = PReg -> idr (k_id k) (Client.log s) = [].

Lemma in_idr i e l : In e (idr i l) <-> eid e = i /\ exists to, In (EvRead e to) l.
Proof. unfold idr, by_id. rewrite filter_In, in_creads, Z.eqb_eq. tauto. Qed.

Lemma idr_read i e to : idr i [EvRead e to] = if eid e =? i then [e] else [].
Proof. reflexivity. Qed.

Lemma kinv_nth s c k : cinv s -> nth_error (calls s) c = Some k -> kinv k.
Proof. intros [HI _] Hn. rewrite Forall_forall in HI. apply HI. eapply nth_error_In; eauto. Qed.

Lemma fresh_facts s c k : linv s -> fresh_ok s -> nth_error (calls s) c = Some k -> k_pc k = PReg ->
  idr (k_id k) (Client.log s) = [] /\ ctakes c (Client.log s) = [] /\ holdpart c (rl s) = [].
Proof.
  intros HL HF Hn Hp. pose proof (HF _ _ Hn Hp) as Z.
  assert (N : forall e, ~ In (EvRead e (Some c)) (Client.log s)).
  { intros e Hin. destruct (li_ev _ HL _ Hin) as (k1 & Hk1 & Hid & _). rewrite Hn in Hk1. inversion Hk1; subst k1.
    assert (X : In e (idr (k_id k) (Client.log s))) by (apply in_idr; split; eauto). rewrite Z in X. destruct X. }
  split; [exact Z | split].
  - apply ctakes_none. intros e Hin. destruct (li_ev _ HL _ Hin) as (_ & Hr). apply (N _ Hr).
  - unfold holdpart. destruct (rl s) as [|c1 e1|] eqn:Erl; auto. destruct (Nat.eqb_spec c1 c) as [->|]; auto.
    exfalso. apply (N e1). apply (li_hold _ HL). exact Erl.
Qed.

Lemma open_pos k : kinv k -> k_pc k = POpen -> 0 < k_id k.
Proof. intros HK Hp. apply (ki_id _ HK). rewrite Hp. reflexivity. Qed.

Lemma PC_int s r s' : cinv s -> sinv s -> linv s -> fresh_ok s -> PC s -> In r (Client.rules s) -> r s = Some s' -> PC s'.
Proof.
  intros HI HS HL HF HP Hin H. apply rules_in in Hin. destruct Hin as [->|[->|(c & _ & Hin)]].
  - (* the read loop gets room, or drops *)
    unfold r_rl_unblock in H. destruct (rl s) as [|c0 e0|] eqn:Erl; try discriminate.
    destruct (nth_error (calls s) c0) as [k0|] eqn:E0; [|discriminate].
    destruct (cbuf (k_chan k0)) as [eb|] eqn:Eb.
    + destruct (cclosed (k_chan k0)) eqn:Ecl; [|discriminate]. inversion H; subst s'; clear H.
      intros c k P Hp. csimpl. rewrite idr_app, ctakes_app. change (idr (k_id k) [EvDrop c0 e0]) with (@nil env). simpl. rewrite ?app_nil_r.
      destruct (HP c k P Hp) as (post & E & R). rewrite Erl in E. simpl in E.
      destruct (Nat.eqb_spec c0 c) as [->|Hne].
      * rewrite E0 in P. inversion P; subst k. exists (e0 :: post). split; [exact E|].
        intros X. pose proof (ki_reg_notclosed _ (kinv_nth _ _ _ HI E0) X). congruence.
      * exists post. split; auto.
    + inversion H; subst s'; clear H. intros c k P Hp. csimpl.
      destruct (Nat.eq_dec c c0) as [->|Hne].
      * rewrite nth_upd_eq in P by (eapply nth_some_lt; eauto). inversion P; subst k. csimpl.
        destruct (HP c0 k0 E0 Hp) as (post & E & R). rewrite Erl in E. unfold bufpart in *. rewrite Eb in E. csimpl. simpl in *.
        rewrite Nat.eqb_refl in E. exists post. split; auto.
      * rewrite nth_upd_neq in P by auto. destruct (HP c k P Hp) as (post & E & R). rewrite Erl in E. simpl in *.
        destruct (Nat.eqb_spec c0 c) as [->|_]; [contradiction|]. exists post. split; auto.
  - (* the read loop takes the next envelope *)
    unfold r_rl_read in H. destruct (rl s) eqn:Erl; try discriminate.
    destruct (Client.inbox s) as [|e0 rest] eqn:Ei.
    + destruct (Client.inbox_failed s); [|discriminate]. inversion H; subst s'; clear H.
      intros c k P Hp. csimpl. unfold close_all in P. rewrite nth_error_map in P.
      destruct (nth_error (calls s) c) as [k1|] eqn:E1; [|discriminate]. simpl in P.
      assert (Hp1 : k_pc k1 = POpen) by (destruct (k_reg k1); inversion P; subst k; exact Hp).
      assert (B : bufpart k = bufpart k1 /\ k_id k = k_id k1 /\ (k_reg k = true -> k_reg k1 = true)).
      { destruct (k_reg k1) eqn:Er; inversion P; subst k; unfold bufpart; csimpl;
          (split; [reflexivity | split; [reflexivity | intros X; first [exact X | discriminate X | congruence]]]). }
      destruct (HP c k1 E1 Hp1) as (post & E & R). rewrite Erl in E. simpl in E.
      destruct B as (B1 & B2 & B3). rewrite B1, B2. simpl. exists post. split; auto.
    + cbv zeta in H. destruct (Client.find_reg (eid e0) (calls s) 0) as [c0|] eqn:Ef.
      * destruct (nth_error (calls s) c0) as [k0|] eqn:E0; [|discriminate].
        destruct (find_reg0_some _ _ _ Ef) as (k0' & E0' & Hreg & Hid). rewrite E0 in E0'. inversion E0'; subst k0'.
        assert (Hoth : forall c k, nth_error (calls s) c = Some k -> k_pc k = POpen -> c <> c0 -> (eid e0 =? k_id k) = false).
        { intros c k P Hp Hne. apply Z.eqb_neq. intros X.
          apply (si_id_uniq _ HS c c0 k k0 P E0 Hne (open_pos _ (kinv_nth _ _ _ HI P) Hp)). congruence. }
        destruct (cbuf (k_chan k0)) as [eb|] eqn:Eb; inversion H; subst s'; clear H.
        -- (* held *)
           intros c k P Hp. csimpl. rewrite idr_app, ctakes_app, idr_read. simpl. rewrite app_nil_r.
           destruct (HP c k P Hp) as (post & E & R). rewrite Erl in E. simpl in E.
           destruct (Nat.eqb_spec c0 c) as [->|Hne].
           ++ rewrite E0 in P. inversion P; subst k. rewrite <- Hid, Z.eqb_refl. rewrite (R Hreg) in *. exists []. split; auto.
              rewrite E, !app_nil_r, <- app_assoc. reflexivity.
           ++ rewrite (Hoth _ _ P Hp (not_eq_sym Hne)), app_nil_r. exists post. split; auto.
        -- (* queued *)
           intros c k P Hp. csimpl. rewrite idr_app, ctakes_app, idr_read. simpl. rewrite !app_nil_r.
           destruct (Nat.eq_dec c c0) as [->|Hne].
           ++ rewrite nth_upd_eq in P by (eapply nth_some_lt; eauto). inversion P; subst k. csimpl.
              destruct (HP c0 k0 E0 Hp) as (post & E & R). rewrite Erl in E. unfold bufpart in *. rewrite Eb in E. csimpl. simpl in *.
              rewrite <- Hid, Z.eqb_refl. rewrite (R Hreg) in *. exists []. split; auto. rewrite E, !app_nil_r. reflexivity.
           ++ rewrite nth_upd_neq in P by auto. destruct (HP c k P Hp) as (post & E & R). rewrite Erl in E. simpl in E.
              rewrite (Hoth _ _ P Hp Hne), app_nil_r. exists post. split; auto.
      * inversion H; subst s'; clear H. intros c k P Hp. csimpl. rewrite !idr_app, !ctakes_app, idr_read. simpl. rewrite ?app_nil_r.
        destruct (HP c k P Hp) as (post & E & R). rewrite Erl in E. simpl in E.
        change (idr (k_id k) [EvUnhandled (eid e0)]) with (@nil env). rewrite ?app_nil_r.
        destruct (Z.eqb_spec (eid e0) (k_id k)) as [Hid|Hne].
        -- exists (post ++ [e0]). split; [rewrite E, <- !app_assoc; reflexivity|].
           intros X. exfalso. apply (find_reg_none _ _ _ Ef k (nth_error_In _ _ P) X). auto.
        -- rewrite ?app_nil_r. exists post. split; auto.
  - simpl in Hin.
    repeat (destruct Hin as [<-|Hin];
            [ unfold r_check, r_reg, r_wait, r_wait_ctx, r_unreg, r_loop_read, r_loop_read_ctx, r_loop_hand,
                     r_loop_hand_ctx, r_loop_exit, r_loop_unreg, r_recv, r_header, r_trailer, r_send in H;
              open_rule H; try (PC_done HP); try (PC_take_tac HP) | ]).
    all: try destruct Hin.
    (* r_reg: the stream opens *)
    match goal with Hn : nth_error (calls s) c = Some ?k0, Hp0 : k_pc ?k0 = PReg |- _ =>
      destruct (fresh_facts _ _ _ HL HF Hn Hp0) as (Z1 & Z2 & Z3); rename Hn into Hn0 end.
    intros c' k P Hp. csimpl. rewrite idr_app, ctakes_app.
    destruct (Nat.eq_dec c' c) as [->|Hne].
    + rewrite nth_upd_eq in P by (eapply nth_some_lt; eauto). inversion P; subst k. csimpl.
      rewrite Z1, Z2, Z3. exists []. split; [reflexivity | auto].
    + rewrite nth_upd_neq in P by auto. destruct (HP _ _ P Hp) as (post & E & R). exists post. split; [|exact R].
      simpl. rewrite !app_nil_r. exact E.
Qed.

Lemma PC_with_call s c g :
  PC s -> (forall k k', g k = Some k' -> k_chan k' = k_chan k /\ k_pc k' = k_pc k /\ k_id k' = k_id k /\ k_reg k' = k_reg k) -> PC (with_call s c g).
Proof.
  intros HP Hg. unfold with_call. destruct (nth_error (calls s) c) as [k|] eqn:E; [|exact HP].
  destruct (g k) as [k'|] eqn:G; [|exact HP]. destruct (Hg _ _ G) as (A & B & C & D).
  eapply (PC_upd s _ c k k' []); [exact HP | reflexivity | exact E | simpl; rewrite app_nil_r; reflexivity | quiet3_tac | reflexivity | ].
  intros X. unfold bufpart. rewrite A, <- B, C, D. auto.
Qed.

Lemma PC_ext s a : PC s -> PC (Client.ext s a).
Proof.
  intros HP. destruct a; simpl;
    try (apply PC_with_call; [exact HP|]; intros k k' G;
         repeat match type of G with
                | match ?x with _ => _ end = Some _ => destruct x eqn:?; try discriminate G
                end; inversion G; subst; csimpl; auto);
    try (eapply (PC_same _ _ []); [exact HP | reflexivity | simpl; rewrite app_nil_r; reflexivity | quiet3_tac | reflexivity]).
  - intros c k P Hp. csimpl. destruct (nth_app_cases _ _ _ _ P) as [(P' & _) | (-> & ->)]; [apply (HP _ _ P' Hp)|]. discriminate Hp.
  - intros c k P Hp. csimpl. destruct (nth_app_cases _ _ _ _ P) as [(P' & _) | (-> & ->)]; [apply (HP _ _ P' Hp)|]. discriminate Hp.
  - destruct (nth_error (calls s) c) as [k|] eqn:E; [|exact HP].
    destruct (k_pc k) eqn:P; try exact HP.
    eapply (PC_upd _ _ c k _ []); [exact HP | csimpl; reflexivity | exact E | csimpl; rewrite app_nil_r; reflexivity | quiet3_tac | reflexivity | pc_side].
Qed.

Lemma PC_step ls s l s' : Client.lrun Client.init ls = Some s -> fresh_ok s -> PC s -> Client.lstep s l = Some s' -> PC s'.
Proof.
  intros Hrun HF HP H. destruct (all_inv_reach _ _ Hrun) as (HI & HS & HL). destruct l as [a|n]; simpl in H.
  - inversion H; subst. apply PC_ext; auto.
  - destruct (nth_error (Client.rules s) n) as [r|] eqn:E; [|discriminate]. apply nth_error_In in E. eapply PC_int; eauto.
Qed.

(* ---------- the system provides the environment fact ---------- *)
Lemma fresh_sys pol ls s : Sys.lrun pol Sys.init ls = Some s -> fresh_ok (cl s).
Proof.
  intros H c k Hn Hp.
  destruct (idr (k_id k) (Client.log (cl s))) as [|e l0] eqn:E; [reflexivity|exfalso].
  assert (X : In e (idr (k_id k) (Client.log (cl s)))) by (rewrite E; left; reflexivity).
  apply in_idr in X. destruct X as (Hid & to & Hr).
  destruct (client_read_was_written _ _ _ _ _ H Hr) as (f & Hw & Hf).
  destruct (srv_write_origin _ _ _ _ (proj_s_run _ _ _ _ H) Hw) as (rq & Hrd & Hq).
  destruct (server_read_was_written _ _ _ _ H Hrd) as (_ & Hcw).
  pose proof (J_reach _ _ (proj_c_run _ _ _ _ H)) as (_ & _ & HJ).
  destruct (HJ _ _ Hn) as (_ & _ & _ & HW & _). rewrite Hp in HW. unfold projE, wr in HW. rewrite wr_of_cwrites in HW.
  assert (Y : In (f_env rq) (by_id (k_id k) (cwrites (Client.log (cl s))))).
  { unfold by_id. apply filter_In. split; [apply in_cwrites; exact Hcw|]. apply Z.eqb_eq.
    unfold fid in Hq. rewrite Hq, Hf. exact Hid. }
  unfold by_id in Y. rewrite HW in Y. destruct Y.
Qed.

Theorem PC_sys pol ls : forall s, Sys.lrun pol Sys.init ls = Some s -> PC (cl s).
Proof.
  induction ls as [|l ls IH] using rev_ind; intros s H.
  - inversion H; subst. intros c k P. destruct c; discriminate P.
  - destruct (sys_lrun_snoc _ _ _ _ _ H) as (s1 & H1 & Hl). pose proof (IH _ H1) as HP.
    pose proof (lstep_cl _ _ _ _ Hl) as X. destruct l as [x|x| |].
    + destruct X as (Hc & _ & _). eapply PC_step; [exact (proj_c_run _ _ _ _ H1) | eapply fresh_sys; eauto | exact HP | exact Hc].
    + destruct X as (_ & _ & _ & ->). exact HP.
    + destruct X as (f & rest & _ & _ & -> & _). exact HP.
    + destruct X as (e & rest & _ & -> & _). apply PC_ext. exact HP.
Qed.

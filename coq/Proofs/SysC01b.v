(* C01 over Model/Sys.v, continued: every frame on the client->server wire carries the kind of the call that
   owns its id ([sent_ok]); every unary handler invocation belongs to exactly one call and received that call's
   payload ([C01_no_fabrication]); the handler runs exactly once for a returned call ([C01_exactly_once]). *)
From Coq Require Import List ZArith Bool Lia Arith.
Import ListNotations.
From Goat Require Import Model.Client Model.Server Proofs.ClientBase Proofs.ClientInv Proofs.ClientLog Proofs.ClientLive
  Proofs.ClientProps Proofs.ProtocolClient Proofs.ServerProofs Proofs.ServerInv Proofs.ServerTrace
  Model.Sys Proofs.SysLog Proofs.SysProofs Proofs.SysFacts Proofs.SysC01.
Open Scope Z_scope.

Definition kind_of (k : call) : mkind := if k_unary k then MUnary 0 else MStream 0.

Definition frame_ok (c : Client.state) (fr : frame) : Prop :=
  exists n k, nth_error (calls c) n = Some k /\ k_id k = fid fr /\ 0 < fid fr /\ f_mth fr = kind_of k /\ f_dst fr = srv_name.

Definition sent_ok (s : Sys.state) : Prop := forall fr, In fr (sent_c2s s) -> frame_ok (cl s) fr.

Lemma frame_ok_pers c c' fr : cpers c c' -> frame_ok c fr -> frame_ok c' fr.
Proof.
  intros HP (n & k & Hn & Hid & Hpos & Hm & Hd). destruct (HP _ _ Hn) as (k' & Hn' & U & _ & I).
  exists n, k'. repeat split; auto.
  - rewrite I; auto. lia.
  - unfold kind_of in *. rewrite U. exact Hm.
Qed.

Lemma mk_of_owner c n k :
  sinv c -> nth_error (calls c) n = Some k -> 0 < k_id k -> mk_of c (k_id k) = kind_of k.
Proof.
  intros HS Hn Hpos. unfold mk_of.
  destruct (find (fun k0 => k_id k0 =? k_id k) (calls c)) as [k2|] eqn:F.
  - apply find_some in F. destruct F as (Hin & Heq). apply Z.eqb_eq in Heq.
    apply In_nth_error in Hin. destruct Hin as (n2 & Hn2).
    destruct (Nat.eq_dec n n2) as [->|Hne].
    + rewrite Hn in Hn2. inversion Hn2; subst. reflexivity.
    + exfalso. eapply (si_id_uniq _ HS n n2 k k2); eauto.
  - exfalso. pose proof (find_none _ _ F k (nth_error_In _ _ Hn)) as X. simpl in X. rewrite Z.eqb_refl in X. discriminate X.
Qed.

Lemma in_skipn {A} (x : A) n l : In x (skipn n l) -> In x l.
Proof. revert l. induction n; intros l H; simpl in H; auto. destruct l; simpl in *; auto. Qed.

Definition cl_inv (s : Sys.state) : Prop := exists cls, Client.lrun Client.init cls = Some (cl s).

Lemma sent_ok_step pol s l s' : cl_inv s -> sent_ok s -> Sys.lstep pol s l = Some s' -> cl_inv s' /\ sent_ok s'.
Proof.
  intros (cls & Hc) HS H. pose proof (lstep_cl _ _ _ _ H) as P.
  destruct (all_inv_reach _ _ Hc) as (HI & HSi & HL).
  destruct l as [x|x| |]; cbn [Sys.lstep] in H.
  - clear P. destruct (client_label_ok x) eqn:P2; [|discriminate].
    destruct (Client.lstep (cl s) x) as [c'|] eqn:P1; [|discriminate].
    inversion H; subst s'; clear H. cbn [cl sent_c2s] in *.
    assert (Hc' : Client.lrun Client.init (cls ++ [x]) = Some c') by (eapply lrun_snoc; eauto).
    split; [eexists; eauto|].
    intros fr Hin. apply in_app_or in Hin. destruct Hin as [Hin | Hin].
    + eapply frame_ok_pers; [eapply cpers_step; eauto | auto].
    + apply in_map_iff in Hin. destruct Hin as (e & <- & Hin).
      unfold new_cwrites in Hin. apply in_cwrites in Hin. apply in_skipn in Hin.
      destruct (C05_wire_l _ _ Hc' e Hin) as (n & k & Hn & Hid & Hpos & _).
      destruct (all_inv_reach _ _ Hc') as (_ & HS' & _).
      exists n, k. unfold frame_of, fid. cbn [f_env f_mth f_dst]. repeat split; auto.
      rewrite <- Hid. apply (mk_of_owner _ n); auto. lia.
  - destruct P as (_ & _ & _ & P). split; [exists cls; rewrite P; auto|].
    destruct (server_label_ok x && pol_ok pol (sv s) x); [|discriminate]. destruct (Server.lstep (sv s) x); [|discriminate].
    inversion H; subst s'. cbn [cl sent_c2s] in *. exact HS.
  - clear P. destruct (c2s s) as [|f0 rest] eqn:E; [discriminate|]. injection H as <-. cbn [cl sent_c2s].
    split; [exists cls; auto | exact HS].
  - clear P. destruct (s2c s) as [|e rest] eqn:E; [discriminate|]. injection H as <-. cbn [cl sent_c2s].
    assert (Hc' : Client.lrun Client.init (cls ++ [Client.LExt (Client.ADeliver e)]) = Some (Client.ext (cl s) (Client.ADeliver e))).
    { eapply lrun_snoc; eauto. }
    split; [eexists; eauto|].
    unfold sent_ok. cbn [cl sent_c2s]. intros fr Hin. eapply frame_ok_pers; [|apply HS; exact Hin]. apply cpers_same. reflexivity.
Qed.

Lemma sent_ok_reach pol ls : forall s s', cl_inv s -> sent_ok s -> Sys.lrun pol s ls = Some s' -> sent_ok s'.
Proof.
  induction ls as [|l ls IH]; simpl; intros s s' HC HS H.
  - inversion H; subst; auto.
  - destruct (Sys.lstep pol s l) as [s1|] eqn:E; [|discriminate].
    destruct (sent_ok_step _ _ _ _ HC HS E). eauto.
Qed.

Theorem sent_ok_init pol ls s : Sys.lrun pol Sys.init ls = Some s -> sent_ok s.
Proof. apply sent_ok_reach; [exists []; reflexivity | intros fr []]. Qed.

(* ---------- the invocation log of the server ---------- *)
Lemma invs_from_in n l h u id m p md :
  In (SvInvoke h u id m p md) (invs_from n l) ->
  exists rq, nth_error l (h - n) = Some (u, rq) /\ (n <= h)%nat /\ id = fid rq /\ m = f_mth rq /\ p = (if u then body_tok rq else 0).
Proof.
  revert n. induction l as [|[u0 rq0] l IH]; intros n H; simpl in H; [contradiction|].
  destruct H as [H | H].
  - inversion H; subst. exists rq0. rewrite Nat.sub_diag. simpl. repeat split; auto.
  - destruct (IH _ H) as (rq & Hn & Hle & R). exists rq. replace (h - n)%nat with (S (h - S n)) by lia. simpl. repeat split; auto; try lia; apply R.
Qed.

(* every unary invocation belongs to exactly one call, which is unary, and received that call's payload *)
Theorem C01_no_fabrication f ls s h id m p md :
  Sys.lrun (pol_c01 f) Sys.init ls = Some s ->
  In (SvInvoke h true id m p md) (Server.log (sv s)) ->
  exists c k, nth_error (calls (cl s)) c = Some k /\ k_id k = id /\ k_unary k = true /\ p = k_payload k /\
              (forall c' k', nth_error (calls (cl s)) c' = Some k' -> k_id k' = id -> c' = c).
Proof.
  intros H Hinv.
  pose proof (proj_c_run _ _ _ _ H) as Hc. pose proof (proj_s_run_pol _ _ _ _ H) as Hs.
  pose proof (srun_lrun _ _ _ _ Hs) as Hsl.
  destruct (srv_dispatch _ _ _ Hsl) as (Hf & Hreq).
  assert (Hin : In (SvInvoke h true id m p md) (invs_from 0 (sigs (sv s)))).
  { rewrite <- Hf. apply filter_In. split; auto. }
  destruct (invs_from_in _ _ _ _ _ _ _ _ Hin) as (rq & Hn & _ & -> & -> & ->).
  apply nth_error_In in Hn.
  assert (HK : K f (sv s)) by (eapply K_run; [apply inv_hdr_init | apply K_init | exact Hs]).
  pose proof (k_read _ _ HK _ _ Hn) as Hr.
  destruct (server_read_was_written _ _ _ _ H Hr) as (Hsent & Hw).
  destruct (sent_ok_init _ _ _ H rq Hsent) as (c & k & Hk & Hid & Hpos & Hm & Hd).
  specialize (Hreq _ Hn). simpl in Hreq. destruct Hreq as (Hdisp & _).
  assert (Hu : k_unary k = true).
  { unfold kind_of in Hm. destruct (k_unary k); auto. unfold dispatch in Hdisp. rewrite Hm in Hdisp.
    destruct (ehdr (f_env rq)); try discriminate. destruct (f_dst rq =? srv_name); discriminate. }
  exists c, k. repeat split; auto.
  - pose proof (unary_writes _ _ _ _ _ Hc Hk Hu Hw) as E. unfold fid in Hid. specialize (E (eq_sym Hid)).
    unfold body_tok. rewrite E. reflexivity.
  - intros c' k' Hk' Hid'. destruct (Nat.eq_dec c' c); auto. exfalso.
    destruct (all_inv_reach _ _ Hc) as (_ & HS & _).
    eapply (si_id_uniq _ HS c c' k k'); eauto. lia. congruence.
Qed.

(* ---------- exactly once ---------- *)
Definition is_unary_invoke (id : Z) (e : sev) : bool :=
  match e with SvInvoke _ true i _ _ _ => i =? id | _ => false end.
Definition inv_count (id : Z) (l : list sev) : nat := length (filter (is_unary_invoke id) l).

Lemma inv_count_filter id l : inv_count id (filter is_invoke l) = inv_count id l.
Proof.
  unfold inv_count. induction l as [|e l IH]; simpl; auto.
  destruct e; simpl; auto. destruct unary; simpl; auto. destruct (id0 =? id); simpl; auto.
Qed.

Lemma inv_count_sigs id n sg : (inv_count id (invs_from n sg) <= cnt id (map snd sg))%nat.
Proof.
  revert n. induction sg as [|[u rq] sg IH]; intros n; simpl; auto.
  specialize (IH (S n)). unfold inv_count, cnt in *. simpl.
  destruct u; simpl; destruct (fid rq =? id); simpl; lia.
Qed.

Lemma cnt_env id l : cnt id l = length (filter (fun e => eid e =? id) (map f_env l)).
Proof. unfold cnt. induction l as [|fr l IH]; simpl; auto. unfold fid at 1. destruct (eid (f_env fr) =? id); simpl; auto. Qed.

Lemma prefix_filter_le {A} (g : A -> bool) p l : is_prefix p l -> (length (filter g p) <= length (filter g l))%nat.
Proof. intros [r ->]. rewrite filter_app, app_length. lia. Qed.

Lemma wr_of_cwrites l : wr_of l = cwrites l.
Proof. induction l as [|e l IH]; simpl; auto. destruct e; simpl; auto. f_equal. exact IH. Qed.

Lemma unary_writes_le1 ls s c k :
  Client.lrun Client.init ls = Some s -> nth_error (calls s) c = Some k -> k_unary k = true ->
  (length (filter (fun e => Z.eqb (eid e) (k_id k)) (cwrites (Client.log s))) <= 1)%nat.
Proof.
  intros H Hn Hu.
  pose proof (J_reach _ _ H) as (_ & _ & HJ). specialize (HJ _ _ Hn).
  destruct (all_inv_reach _ _ H) as (HI & _ & _). pose proof (ki_kind _ (cinv_call _ _ _ HI Hn)) as HK. rewrite Hu in HK.
  unfold projE, wr in HJ. rewrite wr_of_cwrites in HJ.
  destruct HJ as (_ & _ & _ & HW & _).
  destruct (k_pc k); try discriminate HK; try (rewrite HW; simpl; lia).
  - destruct HW as [HW|HW]; rewrite HW; simpl; lia.
  - destruct HW as [HW|HW]; rewrite HW; simpl; lia.
Qed.

Lemma inv_count_ge1 id rq sg : In (true, rq) sg -> fid rq = id -> forall n, (1 <= inv_count id (invs_from n sg))%nat.
Proof.
  intros Hin Hid. induction sg as [|[u rq0] sg IH]; intros n; [destruct Hin|].
  destruct Hin as [E | Hin].
  - inversion E; subst. unfold inv_count. simpl. rewrite Z.eqb_refl. simpl. lia.
  - specialize (IH Hin (S n)). unfold inv_count in *. simpl. destruct u; simpl; try destruct (fid rq0 =? id); simpl; lia.
Qed.

(* for a unary call that returned successfully, the handler-invocation log of the server has exactly one
   unary entry with the call's id (and by C01_no_fabrication its payload is the call's) *)
Theorem C01_exactly_once f ls s c k b :
  Sys.lrun (pol_c01 f) Sys.init ls = Some s ->
  nth_error (calls (cl s)) c = Some k -> k_unary k = true ->
  In (EvUnaryRet c (UOk b)) (Client.log (cl s)) ->
  inv_count (k_id k) (Server.log (sv s)) = 1%nat.
Proof.
  intros H Hn Hu Hret.
  pose proof (proj_c_run _ _ _ _ H) as Hc. pose proof (proj_s_run_pol _ _ _ _ H) as Hs.
  pose proof (srun_lrun _ _ _ _ Hs) as Hsl.
  destruct (srv_dispatch _ _ _ Hsl) as (Hf & Hreq).
  assert (HK : K f (sv s)) by (eapply K_run; [apply inv_hdr_init | apply K_init | exact Hs]).
  assert (Hle : (inv_count (k_id k) (Server.log (sv s)) <= 1)%nat).
  { rewrite <- inv_count_filter, Hf.
    eapply Nat.le_trans; [apply inv_count_sigs|].
    eapply Nat.le_trans; [|apply (unary_writes_le1 _ _ _ _ Hc Hn Hu)].
    pose proof (k_count _ _ HK (k_id k)) as Kc.
    eapply Nat.le_trans; [|apply (prefix_filter_le _ _ _ (wire_c2s_prefix _ _ _ H))].
    rewrite <- cnt_env. lia. }
  assert (Hge : (1 <= inv_count (k_id k) (Server.log (sv s)))%nat).
  { destruct (honest_l _ _ Hc) as [HU _]. destruct (HU _ _ Hret) as (e & k' & _ & Hread & Hb & Hn' & Hid).
    rewrite Hn in Hn'. inversion Hn'; subst k'; clear Hn'.
    destruct (client_read_was_written _ _ _ _ _ H Hread) as (fr & Hw & Hfe).
    assert (Hb' : ebody (f_env fr) = Some b) by (rewrite Hfe; exact Hb).
    destruct (srv_reply_origin _ _ _ _ _ Hs Hw Hb') as (h & kh & Hh & Hfid & Hrd & Hcase).
    destruct (server_read_was_written _ _ _ _ H Hrd) as (_ & Hcw).
    assert (Hrid : eid (f_env (h_req kh)) = k_id k) by (unfold fid in Hfid; rewrite Hfid, Hfe; exact Hid).
    pose proof (unary_writes _ _ _ _ _ Hc Hn Hu Hcw Hrid) as Hreq'.
    destruct (h_unary kh) eqn:Hun.
    - assert (Hs' : In (true, h_req kh) (sigs (sv s))) by (rewrite <- Hun; eapply sig_in; eauto).
      rewrite <- inv_count_filter, Hf. eapply inv_count_ge1; eauto.
    - exfalso. unfold has_body in Hcase. rewrite Hreq' in Hcase. discriminate. }
  lia.
Qed.

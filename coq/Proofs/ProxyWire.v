(* C16: the proxy between a source record and a destination record as an ordered wire (C16_wire), the no-loss
   theorem in terms of outstanding envelopes, and the return route. *)
From Coq Require Import List ZArith Bool Lia.
Import ListNotations.
From Goat Require Import Model.Proxy Proofs.ProxyProofs Proofs.ProxyOrder.

Lemma subseq_trans {A} (b c : list A) : Subseq b c -> forall a, Subseq a b -> Subseq a c.
Proof.
  induction 1; intros a0 Ha.
  - inversion Ha; subst. constructor.
  - inversion Ha; subst.
    + constructor.
    + apply SubTake. auto.
    + apply SubSkip. auto.
  - apply SubSkip. auto.
Qed.

(* what was enqueued for record i, each envelope with the record it came from *)
Definition enqs_from (i : nat) (l : list pev) : list (nat * env) :=
  pick (fun ev => match ev with EvFwd j _ i' e' true => if Nat.eqb i' i then Some (j, e') else None | _ => None end) l.
(* the envelopes accepted from record j and routed to record i: (as received, with the route applied) *)
Definition routed (j i : nat) (l : list pev) : list (env * env) :=
  pick (fun ev => match ev with
                  | EvFwd j' e i' e' _ => if Nat.eqb j' j && Nat.eqb i' i then Some (e, e') else None
                  | _ => None end) l.

Lemma enqs_from_snd i l : map snd (enqs_from i l) = enqs i l.
Proof.
  unfold enqs_from, enqs. induction l; simpl; auto.
  destruct a; auto. destruct ok; auto. destruct (Nat.eqb i0 i); simpl; auto. f_equal. auto.
Qed.

Lemma enqs_from_filter j i l :
  map snd (filter (fun p => Nat.eqb (fst p) j) (enqs_from i l)) = map snd (pairs j i l).
Proof.
  unfold enqs_from, pairs. induction l; simpl; auto.
  destruct a; auto. destruct ok; auto.
  destruct (Nat.eqb i0 i) eqn:Ei; simpl.
  - destruct (Nat.eqb j0 j) eqn:Ej; simpl; auto. f_equal. auto.
  - rewrite andb_false_r. auto.
Qed.

Lemma routed_pairs j i l : dropped i l = [] -> routed j i l = pairs j i l.
Proof.
  unfold dropped, routed, pairs. induction l; simpl; auto. intros H.
  destruct a; auto. destruct ok; simpl in *.
  - destruct (Nat.eqb i0 i); simpl in *.
    + destruct (Nat.eqb j0 j); simpl; auto. f_equal. auto.
    + rewrite andb_false_r. auto.
  - destruct (Nat.eqb i0 i); simpl in *; try discriminate. rewrite andb_false_r. auto.
Qed.

Lemma routed_accepted j i l : Subseq (map fst (routed j i l)) (accepted j l).
Proof.
  apply pick_subseq. intros x y. destruct x; try discriminate.
  destruct (Nat.eqb j0 j); simpl; try discriminate. destruct (Nat.eqb i0 i); simpl; try discriminate.
  intros E. inversion E. auto.
Qed.

Lemma routed_in j i l e e' : In (e, e') (routed j i l) -> exists ok, In (EvFwd j e i e' ok) l.
Proof.
  unfold routed. intros H. apply pick_In in H. destruct H as (ev & Hin & Hf).
  destruct ev; try discriminate.
  destruct (Nat.eqb_spec j0 j); simpl in Hf; try discriminate.
  destruct (Nat.eqb_spec i0 i); simpl in Hf; try discriminate.
  inversion Hf; subst. eauto.
Qed.

(* C16_wire: when nothing was ever dropped for destination record i, then for every source record j the
   envelopes of j among what i's connection is handed / is about to be handed (enqueued sequence = handed
   ++ failed write ++ being written ++ buffered) are, in order and once each, exactly the envelopes accepted from
   j and routed to i, with the route transformation applied - and those were received from j in that order *)
Lemma C16_wire_l : forall cf ls s, lrun cf init ls = Some s -> forall j i, dropped i (log s) = [] ->
  map snd (enqs_from i (log s)) = outs i (log s) ++ wfails i (log s) ++ wr_pend s i ++ buf_of s i /\
  map snd (filter (fun p => Nat.eqb (fst p) j) (enqs_from i (log s))) = map snd (routed j i (log s)) /\
  Subseq (map fst (routed j i (log s))) (cmds j (log s)) /\
  (forall e e', In (e, e') (routed j i (log s)) ->
     exists cj ci, nth_error (clients s) j = Some cj /\ nth_error (clients s) i = Some ci /\
                   forward cf (p_name cj) e = FRoute (p_name ci) e').
Proof.
  intros cf ls s H j i Hd. split; [|split; [|split]].
  - rewrite enqs_from_snd. apply (C16_accounting_l _ _ _ H i).
  - rewrite enqs_from_filter, routed_pairs; auto.
  - eapply subseq_trans; [|apply routed_accepted]. apply (C16_pair_order_l _ _ _ H j i).
  - intros e e' Hin. apply routed_in in Hin. destruct Hin as (ok & Hin).
    apply (f_ok _ _ (ex_reach _ _ _ H) _ _ _ _ _ Hin).
Qed.

(* ---------- no loss in terms of outstanding envelopes ---------- *)
(* in every prefix of the history: what record i's connection was handed had been taken from the buffer before *)
Definition inv_p (s : state) : Prop :=
  forall i pre post, log s = pre ++ post -> (length (outs i pre) <= length (takes i pre))%nat.

Definition not_out (ev : pev) : Prop := match ev with EvOut _ _ => False | _ => True end.

Lemma outs_none i evs : Forall not_out evs -> outs i evs = [].
Proof. induction 1; simpl; auto. unfold outs in *. simpl. destruct x; simpl in *; try tauto; auto. Qed.

Lemma forall_prefix {A} (P : A -> Prop) (p q : list A) : Forall P (p ++ q) -> Forall P p.
Proof. intros H. apply Forall_app in H. tauto. Qed.

Lemma inv_p_app_noout l evs :
  (forall i pre post, l = pre ++ post -> (length (outs i pre) <= length (takes i pre))%nat) ->
  Forall not_out evs ->
  forall i pre post, l ++ evs = pre ++ post -> (length (outs i pre) <= length (takes i pre))%nat.
Proof.
  intros I N i pre post H. apply app_eq_app in H. destruct H as (m & [[H1 H2]|[H1 H2]]).
  - eapply I; eauto.
  - subst pre. unfold outs, takes. rewrite !pick_app, !app_length.
    fold (outs i l) (takes i l) (outs i m). rewrite (outs_none i m); [|subst evs; eapply forall_prefix; eauto].
    simpl. specialize (I i l [] (eq_sym (app_nil_r l))). lia.
Qed.

Lemma inv_p_step cf s l s' : inv_w cf s -> inv_p s -> lstep cf s l = Some s' -> inv_p s'.
Proof.
  unfold inv_p. intros W I H. apply lstep_shape in H.
  destruct H; subst; simpl; auto.
  - (* local *)
    inversion H0; subst; try (apply inv_p_app_noout; auto; repeat constructor; fail).
    + (* LoWrOk: the envelope written had been taken *)
      intros i pre post Hl. apply app_eq_app in Hl. destruct Hl as (m & [[Hm1 Hm2]|[Hm1 Hm2]]).
      * eapply I; eauto.
      * subst pre. destruct m as [|x m].
        -- rewrite app_nil_r. apply (I i (log s) [] (eq_sym (app_nil_r _))).
        -- destruct m; [|destruct post; discriminate]. simpl in Hm2. inversion Hm2; subst.
           unfold outs, takes. rewrite !pick_app, !app_length. simpl.
           fold (outs i (log s)) (takes i (log s)).
           destruct (Nat.eqb_spec j i); simpl.
           ++ subst. specialize (W i). rewrite H in W. destruct W as (_ & B & _).
              unfold wpend in B.
              match goal with Hw : p_wr _ = WRWrite _ |- _ => rewrite Hw in B end.
              rewrite B. rewrite !app_length. simpl. lia.
           ++ specialize (I i (log s) [] (eq_sym (app_nil_r _))). lia.
  - apply inv_p_app_noout; auto. repeat constructor.
  - apply inv_p_app_noout; auto. repeat constructor.
Qed.

Lemma p_ok cf s : reachable cf s -> inv_p s.
Proof.
  intros R. assert (inv_w cf s /\ inv_p s) as [_ D]; auto. revert s R.
  apply (reachable_inv cf (fun s => inv_w cf s /\ inv_p s)).
  - split. intros i; destruct i; simpl; auto.
    intros i pre post H. simpl in H. destruct pre; [simpl; lia|discriminate].
  - intros s l s' [W D] H. split. eapply inv_w_step; eauto. eapply inv_p_step; eauto.
Qed.

Lemma enqs_le_fwds i l : (length (enqs i l) <= length (fwds i l))%nat.
Proof.
  unfold enqs, fwds. induction l; simpl; auto. destruct a; auto.
  destruct ok; destruct (Nat.eqb i0 i); simpl; lia.
Qed.

(* C16_no_loss as the property states it: if never more than B <= buffer envelopes are outstanding for destination
   record i (outstanding after any prefix of the history = accepted and routed to i so far, minus handed to i's
   connection so far), nothing for i is ever dropped: everything accepted for i is, in order and once each, handed
   to the connection / being written / waiting *)
Lemma C16_no_loss_outstanding_l : forall cf ls s, lrun cf init ls = Some s -> forall i B,
  (0 < cf_buf cf)%nat -> (B <= cf_buf cf)%nat ->
  (forall pre post, log s = pre ++ post -> (length (fwds i pre) <= length (outs i pre) + B)%nat) ->
  dropped i (log s) = [] /\
  fwds i (log s) = outs i (log s) ++ wfails i (log s) ++ wr_pend s i ++ buf_of s i.
Proof.
  intros cf ls s H i B Hpos HB Hout. apply (C16_no_loss_l _ _ _ H i).
  intros pre j e e' ok post Hl.
  pose proof (p_ok _ _ (ex_reach _ _ _ H) i pre _ Hl) as Hp.
  assert (log s = (pre ++ [EvFwd j e i e' ok]) ++ post) as Hl' by (rewrite <- app_assoc; exact Hl).
  specialize (Hout _ _ Hl'). unfold fwds, outs in Hout. rewrite !pick_app, !app_length in Hout. simpl in Hout.
  rewrite Nat.eqb_refl in Hout. simpl in Hout. fold (fwds i pre) (outs i pre) in Hout.
  pose proof (enqs_le_fwds i pre). unfold occupancy. lia.
Qed.

(* ---------- the return route ---------- *)
(* [reply_of]: Model/Proxy.v *)

(* C16_return_route: let the proxy forward a request e as e' (so e' carries the request's route record plus this
   proxy's name). The server's reply to e', coming in over the connection attached as the request's destination,
   is routed to the hop the request came from - the last entry of the request's route record, which is popped off
   the return route - or, when the request came from a peer attached here (empty record), to the (rewritten)
   name of the request's source: back to the origin, along the path the request took *)
Lemma C16_return_route_l : forall cf n e d e' pay d2,
  forward cf n e = FRoute d e' ->
  cf_icp cf (e_dst e') (e_src e') = Some d2 ->
  exists r', forward cf (e_dst e') (reply_of e' pay) =
               FRoute (match e_rec e with [] => d2 | _ => last (e_rec e) 0%Z end) r' /\
             e_dst r' = d2 /\ e_src r' = e_dst e' /\ e_pay r' = pay /\ e_rec r' = [cf_name cf] /\
             e_next r' = match e_rec e with
                         | [] => None
                         | _ => Some (removelast (e_rec e)) end.
Proof.
  intros cf n e d e' pay d2 Hf Hi. apply forward_route in Hf.
  destruct Hf as (_ & _ & _ & _ & _ & _ & Hrec & _).
  unfold forward, forward_gen, reply_of. simpl. rewrite Z.eqb_refl. simpl. rewrite Hi.
  rewrite Hrec, app_length. simpl. rewrite removelast_last.
  destruct (e_rec e) as [|x l] eqn:Er; simpl.
  - eexists. split; [reflexivity|]. simpl. repeat split; auto.
  - replace (Nat.ltb 1 (S (length l + 1))) with true by (symmetry; apply Nat.ltb_lt; lia).
    eexists. split; [reflexivity|]. simpl. repeat split; auto.
Qed.

(* ---------- (Q) delivery ---------- *)
(* (Q) delivery: in a quiescent state, a record whose write loop sits in its select (alive, not inside a blocked
   Write, not failed) has nothing buffered and nothing in flight: everything that was ever enqueued for it HAS been
   handed to its connection, in order, once; and when nothing was dropped for it, everything accepted for it *)
Lemma C16_delivered_Q_l : forall cf ls s, lrun cf init ls = Some s -> quiescent cf s = true ->
  forall i ci, nth_error (clients s) i = Some ci -> p_wr ci = WRSel ->
  buf_of s i = [] /\ wr_pend s i = [] /\ wfails i (log s) = [] /\
  outs i (log s) = enqs i (log s) /\
  (dropped i (log s) = [] -> outs i (log s) = fwds i (log s)).
Proof.
  intros cf ls s H Q i ci Hi Hw.
  pose proof (w_ok _ _ (ex_reach _ _ _ H) i) as W. rewrite Hi in W.
  destruct W as (A & B & C & _).
  assert (p_buf ci = []) as Hb.
  { destruct (p_buf ci) as [|e rest] eqn:Eb; auto. exfalso.
    assert (In (r_wr_take i) (rules cf s)) as Hin.
    { apply rules_has_client. eapply nth_some_lt; eauto. unfold per_client_rules. simpl. tauto. }
    pose proof (quiescent_none _ _ _ Q Hin) as N. unfold r_wr_take in N. rewrite Hi, Hw, Eb in N. discriminate. }
  assert (wfails i (log s) = []) as Hf.
  { destruct C as [C|[[C|C] _]]; auto; rewrite Hw in C; discriminate. }
  unfold buf_of, wr_pend. rewrite Hi, Hw, Hb.
  unfold wpend in B. rewrite Hw in B. rewrite Hf in B. simpl in B. rewrite app_nil_r in B.
  rewrite Hb, app_nil_r in A.
  repeat split; auto.
  - congruence.
  - intros D. rewrite (no_drop_fwds _ _ D). congruence.
Qed.

(* C12 composed: the Q-forms of Props/C12.v for runs in which only the peer and the handlers act, with the
   "connection not ended" hypotheses discharged by srv_stays_serving. *)
From Coq Require Import List ZArith Bool Lia Arith.
Import ListNotations.
From Goat Require Import Model.Client Model.Server Proofs.ServerProofs Proofs.ServerInv Proofs.ServerLive Proofs.ServerTrace Proofs.ServerRoute Proofs.ServerDispatch Proofs.ServerProbe Proofs.ServerWriter Proofs.ServerResetW Proofs.ServerServing.
Open Scope Z_scope.

(* ---------- composed: what a peer-only run looks like wherever it comes to rest ---------- *)
Lemma outcomes_all_written l : (forall f, ~ In (SvWFail f) l) -> map snd (outcomes l) = written l.
Proof.
  unfold outcomes, written. induction l as [|e l IH]; intros H; [reflexivity|]. simpl. rewrite map_app, IH.
  - destruct e; try reflexivity. exfalso. apply (H f). now left.
  - intros f Hin. apply (H f). now right.
Qed.

(* in a run in which only the peer and the handlers act, at rest with a transport that does not block writes,
   everything the writer took from writeChan - unary replies, stream headers, messages and trailers, resets - is on
   the wire, in the order taken *)
Theorem srv_peer_taken_written nw ls s : forallb peer_only ls = true -> lrun (init_n nw) ls = Some s ->
  quiescent s = true -> wblock s = false -> taken_of (log s) = written (log s).
Proof.
  intros Hp H Q Hb. destruct (serving_hctx s (srv_stays_serving nw ls s Hp H)) as [Hc _].
  pose proof (inv_reach nw ls s H) as Iv.
  destruct (q_writer nw s Iv Q (or_introl Hb)) as [[_ Hw] | [Hc' _]]; [|congruence].
  rewrite (srv_taken_written nw ls s H). unfold inflight. rewrite Hw, app_nil_r.
  apply outcomes_all_written. intros f Hin. pose proof (srv_wfail_cancels nw ls s H f Hin). congruence.
Qed.

Theorem srv_peer_cannot_stall nw ls s : (1 <= nw)%nat -> forallb peer_only ls = true -> lrun (init_n nw) ls = Some s ->
  crashed s = false
  /\ (hctx_done s = false /\ cctx_done s = false /\ rd_exited s = false /\ wr s <> WrDead
      /\ (forall w, nth_error (wk s) w <> Some WkDead))
  /\ (quiescent s = true ->
      ((exists w, nth_error (wk s) w = Some WkIdle) ->
         ureads (log s) = jobs (log s) /\ ureqs s = filter unary_ok (ureads (log s)))
      /\ (wblock s = false ->
          filter is_rst (written (log s)) = map rst_reply (rst_due (log s))
          /\ taken_of (log s) = written (log s)
          /\ (all_returned s ->
              rd s = RdRead /\ inbox s = [] /\ wr s = WrSel
              /\ (forall w p, nth_error (wk s) w = Some p -> p = WkIdle)
              /\ (forall h k, nth_error (hs s) h = Some k -> h_pc k = HDead)
              /\ registry_size s = 0%nat
              /\ ureads (log s) = jobs (log s) /\ ureqs s = filter unary_ok (ureads (log s))
              /\ (forall h f, In (SvReply h f) (log s) -> In (SvWrite f) (log s))))).
Proof.
  intros Hnw Hp H. pose proof (srv_stays_serving nw ls s Hp H) as S. destruct (serving_hctx s S) as [Hc Hcc].
  pose proof (inv_reach nw ls s H) as Iv.
  split; [exact (srv_no_crash nw ls s H)|]. split.
  { destruct S as [_ [_ [_ [_ [_ [_ [G [W K]]]]]]]]. auto. }
  intros Q. assert (Hx : rd_exited s = false) by (destruct S as [_ [_ [_ [_ [_ [_ [G _]]]]]]]; exact G).
  split; [exact (srv_dispatch_complete nw ls s H Q Hx)|].
  intros Hb. split; [exact (srv_reset_written nw ls s H Q Hb Hc)|].
  split; [exact (srv_peer_taken_written nw ls s Hp H Q Hb)|].
  intros Hret. destruct (srv_quiescent_idle nw s Hnw Iv Q Hret Hb Hc) as [A [B [C [D [E F]]]]].
  assert (Hidle : exists w, nth_error (wk s) w = Some WkIdle).
  { exists 0%nat. pose proof (i_wk nw s Iv) as L. destruct (wk s) as [|p ws] eqn:Ew; [simpl in L; lia|].
    simpl. f_equal. apply (D 0%nat). reflexivity. }
  destruct (srv_dispatch_complete nw ls s H Q Hx Hidle) as [U1 U2].
  repeat (split; [assumption|]). exact (srv_probe nw ls s Hnw H Q Hret Hb Hc).
Qed.

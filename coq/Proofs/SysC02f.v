(* C02, order towards the caller: the messages RecvMsg returned on a stream, in order, are a subsequence of the
   bodies of the envelopes the call took from its queue, which are a subsequence of the envelopes routed to
   the call by the read loop - hence, through the wire, of the envelopes the server wrote: nothing reordered,
   duplicated, fabricated or altered towards the caller. Arbitrary environment, all runs. *)
From Coq Require Import List ZArith Bool Lia Arith.
Import ListNotations.
From Goat Require Import Model.Client Model.Server Proofs.ClientBase Proofs.ClientInv Proofs.ClientLog Proofs.ClientProps Proofs.ProtocolClient
  Model.Sys Proofs.SysLog Proofs.SysProofs Proofs.SysC02 Proofs.SysC02e.
Open Scope Z_scope.

Fixpoint ctakes (c : nat) (l : list cev) : list env :=
  match l with
  | [] => []
  | EvTake c' e :: t => if Nat.eqb c' c then e :: ctakes c t else ctakes c t
  | _ :: t => ctakes c t
  end.

Fixpoint routed (c : nat) (l : list cev) : list env :=
  match l with
  | [] => []
  | EvRead e (Some c') :: t => if Nat.eqb c' c then e :: routed c t else routed c t
  | _ :: t => routed c t
  end.

Lemma ctakes_app c a b : ctakes c (a ++ b) = ctakes c a ++ ctakes c b.
Proof. induction a as [|x a IH]; simpl; auto. destruct x; auto. destruct (Nat.eqb c0 c); simpl; rewrite IH; auto. Qed.

Lemma routed_app c a b : routed c (a ++ b) = routed c a ++ routed c b.
Proof.
  induction a as [|x a IH]; simpl; auto. destruct x; auto. destruct to as [c'|]; auto.
  destruct (Nat.eqb c' c); simpl; rewrite IH; auto.
Qed.

Definition bufpart (k : call) : list env := match cbuf (k_chan k) with Some e => [e] | None => [] end.
Definition holdpart (c : nat) (p : rlpc) : list env := match p with RLHold c' e => if Nat.eqb c' c then [e] else [] | _ => [] end.

Definition FC (s : Client.state) : Prop :=
  forall c k, nth_error (calls s) c = Some k ->
    subseq (ctakes c (Client.log s) ++ bufpart k ++ holdpart c (rl s)) (routed c (Client.log s)).

Definition quiet (evs : list cev) : Prop := forall c, ctakes c evs = [] /\ routed c evs = [].

(* a step that changes one call without touching its queue content (or emptying it), logs neither a take nor
   a routed read, and leaves the read loop alone *)
Lemma FC_upd s s' c0 k0 k' evs :
  FC s -> calls s' = upd c0 k' (calls s) -> nth_error (calls s) c0 = Some k0 ->
  Client.log s' = Client.log s ++ evs -> quiet evs -> rl s' = rl s ->
  (bufpart k' = bufpart k0 \/ bufpart k' = []) -> FC s'.
Proof.
  intros HF Hc Hn Hl Hq Hrl Hb c k P. rewrite Hl, ctakes_app, routed_app, (proj1 (Hq c)), (proj2 (Hq c)), !app_nil_r, Hrl.
  rewrite Hc in P. destruct (Nat.eq_dec c c0) as [->|Hne].
  - rewrite nth_upd_eq in P by (eapply nth_some_lt; eauto). inversion P; subst k.
    specialize (HF _ _ Hn). destruct Hb as [-> | ->]; auto. simpl. apply (subseq_del_mid _ (bufpart k0)). exact HF.
  - rewrite nth_upd_neq in P by auto. apply HF. exact P.
Qed.

Lemma FC_same s s' evs :
  FC s -> calls s' = calls s -> Client.log s' = Client.log s ++ evs -> quiet evs -> rl s' = rl s -> FC s'.
Proof.
  intros HF Hc Hl Hq Hrl c k P. rewrite Hl, ctakes_app, routed_app, (proj1 (Hq c)), (proj2 (Hq c)), !app_nil_r, Hrl.
  rewrite Hc in P. apply HF. exact P.
Qed.

Ltac quiet_tac := let c := fresh in intros c; simpl; split; reflexivity.
Ltac buf_tac := unfold bufpart; csimpl; first [left; reflexivity | right; reflexivity].

Ltac FC_done HF :=
  csimpl;
  try match goal with |- context [if k_reg ?k then _ else _] => destruct (k_reg k) eqn:? end;
  csimpl;
  first [ eapply (FC_same _ _ []); [exact HF | reflexivity | csimpl; rewrite app_nil_r; reflexivity | quiet_tac | reflexivity]
        | eapply FC_same; [exact HF | reflexivity | csimpl; rewrite <- ?app_assoc; reflexivity | quiet_tac | reflexivity]
        | match goal with E : nth_error (calls ?s) ?c = Some ?k |- FC _ =>
            first [ eapply (FC_upd s _ c k _ []); [exact HF | csimpl; reflexivity | exact E | csimpl; rewrite app_nil_r; reflexivity
                                                  | quiet_tac | reflexivity | buf_tac]
                  | eapply (FC_upd s _ c k); [exact HF | csimpl; reflexivity | exact E | csimpl; rewrite <- ?app_assoc; reflexivity
                                             | quiet_tac | reflexivity | buf_tac] ]
          end ].

Lemma FC_take s s' c0 k0 k' e :
  FC s -> calls s' = upd c0 k' (calls s) -> nth_error (calls s) c0 = Some k0 ->
  Client.log s' = Client.log s ++ [EvTake c0 e] -> rl s' = rl s ->
  cbuf (k_chan k0) = Some e -> cbuf (k_chan k') = None -> FC s'.
Proof.
  intros HF Hc Hn Hl Hrl Hb Hb' c k P. rewrite Hl, ctakes_app, routed_app, Hrl. simpl. rewrite app_nil_r.
  rewrite Hc in P. destruct (Nat.eq_dec c c0) as [->|Hne].
  - rewrite nth_upd_eq in P by (eapply nth_some_lt; eauto). inversion P; subst k. rewrite Nat.eqb_refl.
    specialize (HF _ _ Hn). unfold bufpart in *. rewrite Hb in HF. rewrite Hb'. simpl in *. rewrite <- app_assoc. exact HF.
  - rewrite nth_upd_neq in P by auto. destruct (Nat.eqb_spec c0 c) as [->|_]; [contradiction|]. rewrite app_nil_r. apply HF. exact P.
Qed.

Ltac FC_take_tac HF :=
  match goal with E : nth_error (calls ?s) ?c = Some ?k, B : cbuf (k_chan ?k) = Some ?e |- FC _ =>
    eapply (FC_take s _ c k _ e); [exact HF | csimpl; reflexivity | exact E | csimpl; reflexivity | reflexivity | exact B | csimpl; reflexivity]
  end.

Lemma FC_int s r s' : FC s -> In r (Client.rules s) -> r s = Some s' -> FC s'.
Proof.
  intros HF Hin H. apply rules_in in Hin. destruct Hin as [->|[->|(c & _ & Hin)]].
  - (* the read loop gets room, or drops *)
    unfold r_rl_unblock in H. destruct (rl s) as [|c0 e0|] eqn:Erl; try discriminate.
    destruct (nth_error (calls s) c0) as [k0|] eqn:E0; [|discriminate].
    destruct (cbuf (k_chan k0)) as [eb|] eqn:Eb.
    + destruct (cclosed (k_chan k0)); [|discriminate]. inversion H; subst s'; clear H.
      intros c k P. csimpl. rewrite ctakes_app, routed_app. simpl. rewrite ?app_nil_r.
      specialize (HF c k P). rewrite Erl in HF. simpl in HF.
      destruct (Nat.eqb c0 c); [rewrite app_assoc in HF; apply subseq_drop_last in HF | rewrite app_nil_r in HF]; exact HF.
    + inversion H; subst s'; clear H. intros c k P. csimpl.
      destruct (Nat.eq_dec c c0) as [->|Hne].
      * rewrite nth_upd_eq in P by (eapply nth_some_lt; eauto). inversion P; subst k.
        specialize (HF c0 k0 E0). rewrite Erl in HF. unfold bufpart in *. rewrite Eb in HF. csimpl. simpl in *.
        rewrite Nat.eqb_refl in HF. rewrite ?app_nil_r. exact HF.
      * rewrite nth_upd_neq in P by auto. specialize (HF c k P). rewrite Erl in HF. simpl in *.
        destruct (Nat.eqb_spec c0 c) as [->|_]; [contradiction|]. exact HF.
  - (* the read loop takes the next envelope *)
    unfold r_rl_read in H. destruct (rl s) eqn:Erl; try discriminate.
    destruct (Client.inbox s) as [|e0 rest] eqn:Ei.
    + destruct (Client.inbox_failed s); [|discriminate]. inversion H; subst s'; clear H.
      intros c k P. csimpl. unfold close_all in P. rewrite nth_error_map in P.
      destruct (nth_error (calls s) c) as [k1|] eqn:E1; [|discriminate]. simpl in P.
      specialize (HF c k1 E1). rewrite Erl in HF. simpl in *.
      assert (B : bufpart k = bufpart k1) by (destruct (k_reg k1); inversion P; subst k; reflexivity).
      rewrite B. exact HF.
    + cbv zeta in H. destruct (Client.find_reg (eid e0) (calls s) 0) as [c0|] eqn:Ef.
      * destruct (nth_error (calls s) c0) as [k0|] eqn:E0; [|discriminate].
        destruct (cbuf (k_chan k0)) as [eb|] eqn:Eb; inversion H; subst s'; clear H.
        -- (* held *)
           intros c k P. csimpl. rewrite ctakes_app, routed_app. simpl. rewrite app_nil_r.
           specialize (HF c k P). rewrite Erl in HF. simpl in HF. rewrite app_nil_r in HF.
           destruct (Nat.eqb c0 c); [rewrite app_assoc; apply subseq_snoc | rewrite !app_nil_r]; exact HF.
        -- (* queued *)
           intros c k P. csimpl. rewrite ctakes_app, routed_app. simpl. rewrite !app_nil_r.
           destruct (Nat.eq_dec c c0) as [->|Hne].
           ++ rewrite nth_upd_eq in P by (eapply nth_some_lt; eauto). inversion P; subst k.
              specialize (HF c0 k0 E0). rewrite Erl in HF. unfold bufpart in *. rewrite Eb in HF. csimpl. simpl in *.
              rewrite Nat.eqb_refl. rewrite app_nil_r in HF. apply subseq_snoc. exact HF.
           ++ rewrite nth_upd_neq in P by auto. specialize (HF c k P). rewrite Erl in HF. simpl in HF. rewrite app_nil_r in HF.
              destruct (Nat.eqb_spec c0 c) as [->|_]; [contradiction|]. rewrite app_nil_r. exact HF.
      * inversion H; subst s'; clear H. intros c k P. csimpl. rewrite !ctakes_app, !routed_app. simpl. rewrite !app_nil_r.
        specialize (HF c k P). rewrite Erl in HF. simpl in HF. rewrite app_nil_r in HF. exact HF.
  - simpl in Hin.
    repeat (destruct Hin as [<-|Hin];
            [ unfold r_check, r_reg, r_wait, r_wait_ctx, r_unreg, r_loop_read, r_loop_read_ctx, r_loop_hand,
                     r_loop_hand_ctx, r_loop_exit, r_loop_unreg, r_recv, r_header, r_trailer, r_send in H;
              open_rule H; try (FC_done HF); try (FC_take_tac HF) | ]).
    all: try destruct Hin.
Qed.

Lemma ctakes_none c l : (forall e, ~ In (EvTake c e) l) -> ctakes c l = [].
Proof.
  induction l as [|x l IH]; intros Hn; simpl; auto.
  assert (IH' : ctakes c l = []) by (apply IH; intros e0 Hin; apply (Hn e0); right; exact Hin).
  destruct x; auto.
  match goal with |- context [Nat.eqb ?a c] => destruct (Nat.eqb_spec a c) as [->|Hne] end; auto.
  exfalso. eapply Hn. left. reflexivity.
Qed.

Lemma FC_with_call s c g :
  FC s -> (forall k k', g k = Some k' -> k_chan k' = k_chan k) -> FC (with_call s c g).
Proof.
  intros HF Hg. unfold with_call. destruct (nth_error (calls s) c) as [k|] eqn:E; [|exact HF].
  destruct (g k) as [k'|] eqn:G; [|exact HF].
  eapply (FC_upd s _ c k k' []); [exact HF | reflexivity | exact E | simpl; rewrite app_nil_r; reflexivity | quiet_tac | reflexivity | ].
  left. unfold bufpart. rewrite (Hg _ _ G). reflexivity.
Qed.

Lemma hold_fresh s : sinv s -> holdpart (length (calls s)) (rl s) = [].
Proof.
  intros HS. unfold holdpart. destruct (rl s) as [|c e|] eqn:E; auto.
  destruct (si_hold _ HS _ _ E) as (k & Hk & _). apply nth_some_lt in Hk.
  destruct (Nat.eqb_spec c (length (calls s))); [lia | reflexivity].
Qed.

Lemma FC_ext s a : sinv s -> linv s -> FC s -> FC (Client.ext s a).
Proof.
  intros HS HL HF. destruct a; simpl;
    try (apply FC_with_call; [exact HF|]; intros k k' G;
         repeat match type of G with
                | match ?x with _ => _ end = Some _ => destruct x eqn:?; try discriminate G
                end; inversion G; subst; csimpl; auto);
    try (eapply (FC_same _ _ []); [exact HF | reflexivity | simpl; rewrite app_nil_r; reflexivity | quiet_tac | reflexivity]).
  - intros c k P. csimpl. destruct (nth_app_cases _ _ _ _ P) as [(P' & _) | (-> & ->)]; [apply HF; exact P'|].
    rewrite (hold_fresh s HS), ctakes_none; [simpl; apply sub_nil|]. intros e Hin. destruct (li_ev _ HL _ Hin) as ((k1 & Hk1 & _) & _).
    apply nth_some_lt in Hk1. lia.
  - intros c k P. csimpl. destruct (nth_app_cases _ _ _ _ P) as [(P' & _) | (-> & ->)]; [apply HF; exact P'|].
    rewrite (hold_fresh s HS), ctakes_none; [simpl; apply sub_nil|]. intros e Hin. destruct (li_ev _ HL _ Hin) as ((k1 & Hk1 & _) & _).
    apply nth_some_lt in Hk1. lia.
  - destruct (nth_error (calls s) c) as [k|] eqn:E; [|exact HF].
    destruct (k_pc k) eqn:P; try exact HF.
    eapply (FC_upd _ _ c k _ []); [exact HF | csimpl; reflexivity | exact E | csimpl; rewrite app_nil_r; reflexivity | quiet_tac | reflexivity | buf_tac].
Qed.

Theorem FC_reach ls s : Client.lrun Client.init ls = Some s -> FC s.
Proof.
  intros H.
  assert (G : (cinv s /\ sinv s /\ linv s) /\ FC s).
  { revert H. apply (ClientBase.lrun_inv (fun s => (cinv s /\ sinv s /\ linv s) /\ FC s)).
    - intros s0 l s1 ((HI & HS & HL) & HF) Hs. split.
      + split; [|split]; eauto using cinv_step, sinv_step, linv_step.
      + destruct l as [a|n]; simpl in Hs.
        * inversion Hs; subst. apply FC_ext; auto.
        * destruct (nth_error (Client.rules s0) n) as [r|] eqn:E; [|discriminate].
          apply nth_error_In in E. eapply FC_int; eauto.
    - split; [split; [apply cinv_init | split; [apply sinv_init | apply linv_init]]|].
      intros c k P. destruct c; discriminate. }
  apply G.
Qed.

(* what a call took from its queue, in order, is a subsequence of what the read loop routed to it *)
Theorem cl_takes_subseq ls s c k : Client.lrun Client.init ls = Some s -> nth_error (calls s) c = Some k ->
  subseq (ctakes c (Client.log s)) (routed c (Client.log s)).
Proof. intros H Hn. pose proof (FC_reach _ _ H c k Hn) as X. apply subseq_drop_last in X. exact X. Qed.

(* ---------- the messages RecvMsg returned vs. the envelopes taken ---------- *)
Fixpoint msgs (c : nat) (l : list cev) : list Z :=
  match l with
  | [] => []
  | EvRecvRet c' (RMsg b) :: t => if Nat.eqb c' c then b :: msgs c t else msgs c t
  | _ :: t => msgs c t
  end.

Lemma msgs_app c a b : msgs c (a ++ b) = msgs c a ++ msgs c b.
Proof.
  induction a as [|x a IH]; simpl; auto. destruct x; auto. destruct r; auto.
  destruct (Nat.eqb c0 c); simpl; rewrite IH; auto.
Qed.

Definition tbodies (l : list env) : list Z := flat_map (fun e => match ebody e with Some b => [b] | None => [] end) l.

Lemma tbodies_app a b : tbodies (a ++ b) = tbodies a ++ tbodies b.
Proof. unfold tbodies. apply flat_map_app. Qed.

Definition handpart (k : call) : list Z := match s_loop k with LHand b => if b <? 0 then [] else [b] | _ => [] end.

Definition RC (s : Client.state) : Prop :=
  forall c k, nth_error (calls s) c = Some k -> subseq (msgs c (Client.log s) ++ handpart k) (tbodies (ctakes c (Client.log s))).

Definition quiet2 (evs : list cev) : Prop := forall c, msgs c evs = [] /\ ctakes c evs = [].

Lemma RC_upd s s' c0 k0 k' evs :
  RC s -> calls s' = upd c0 k' (calls s) -> nth_error (calls s) c0 = Some k0 ->
  Client.log s' = Client.log s ++ evs -> quiet2 evs -> (handpart k' = handpart k0 \/ handpart k' = []) -> RC s'.
Proof.
  intros HR Hc Hn Hl Hq Hh c k P. rewrite Hl, msgs_app, ctakes_app, (proj1 (Hq c)), (proj2 (Hq c)), !app_nil_r.
  rewrite Hc in P. destruct (Nat.eq_dec c c0) as [->|Hne].
  - rewrite nth_upd_eq in P by (eapply nth_some_lt; eauto). inversion P; subst k.
    specialize (HR _ _ Hn). destruct Hh as [-> | ->]; auto. rewrite app_nil_r. apply subseq_drop_last in HR. exact HR.
  - rewrite nth_upd_neq in P by auto. apply HR. exact P.
Qed.

Lemma RC_same s s' evs : RC s -> calls s' = calls s -> Client.log s' = Client.log s ++ evs -> quiet2 evs -> RC s'.
Proof.
  intros HR Hc Hl Hq c k P. rewrite Hl, msgs_app, ctakes_app, (proj1 (Hq c)), (proj2 (Hq c)), !app_nil_r.
  rewrite Hc in P. apply HR. exact P.
Qed.

Lemma RC_close_all s s' : RC s -> calls s' = close_all (calls s) -> Client.log s' = Client.log s -> RC s'.
Proof.
  intros HR Hc Hl c k P. rewrite Hl. rewrite Hc in P. unfold close_all in P. rewrite nth_error_map in P.
  destruct (nth_error (calls s) c) as [k1|] eqn:E1; [|discriminate]. simpl in P.
  assert (B : handpart k = handpart k1) by (destruct (k_reg k1); inversion P; subst k; reflexivity).
  rewrite B. apply HR. exact E1.
Qed.

(* a take: the right-hand side grows by the body of the envelope; the left-hand side may grow by the same body *)
Lemma RC_take s s' c0 k0 k' e :
  RC s -> calls s' = upd c0 k' (calls s) -> nth_error (calls s) c0 = Some k0 ->
  Client.log s' = Client.log s ++ [EvTake c0 e] -> handpart k0 = [] ->
  (handpart k' = [] \/ exists b, ebody e = Some b /\ handpart k' = [b]) -> RC s'.
Proof.
  intros HR Hc Hn Hl Hh0 Hh c k P. rewrite Hl, msgs_app, ctakes_app. simpl. rewrite app_nil_r.
  rewrite Hc in P. destruct (Nat.eq_dec c c0) as [->|Hne].
  - rewrite nth_upd_eq in P by (eapply nth_some_lt; eauto). inversion P; subst k. rewrite Nat.eqb_refl.
    specialize (HR _ _ Hn). rewrite Hh0, app_nil_r in HR. rewrite tbodies_app.
    destruct Hh as [-> | (b & Hb & ->)].
    + rewrite app_nil_r. apply subseq_app_r. exact HR.
    + unfold tbodies at 2. simpl. rewrite Hb. simpl. apply subseq_snoc. exact HR.
  - rewrite nth_upd_neq in P by auto. destruct (Nat.eqb_spec c0 c) as [->|_]; [contradiction|]. rewrite app_nil_r. apply HR. exact P.
Qed.

Ltac quiet2_tac := let c := fresh in intros c; simpl; split; reflexivity.
Ltac hand_tac := unfold handpart; csimpl;
  first [ left; reflexivity | right; reflexivity
        | match goal with E : s_loop _ = _ |- _ => rewrite E; first [left; reflexivity | right; reflexivity] end ].

Ltac RC_done HR :=
  csimpl;
  try match goal with |- context [if k_reg ?k then _ else _] => destruct (k_reg k) eqn:? end;
  csimpl;
  first [ eapply (RC_same _ _ []); [exact HR | reflexivity | csimpl; rewrite app_nil_r; reflexivity | quiet2_tac]
        | eapply RC_same; [exact HR | reflexivity | csimpl; rewrite <- ?app_assoc; reflexivity | quiet2_tac]
        | eapply RC_close_all; [exact HR | reflexivity | reflexivity]
        | match goal with E : nth_error (calls ?s) ?c = Some ?k |- RC _ =>
            first [ eapply (RC_upd s _ c k _ []); [exact HR | csimpl; reflexivity | exact E | csimpl; rewrite app_nil_r; reflexivity
                                                  | quiet2_tac | hand_tac]
                  | eapply (RC_upd s _ c k); [exact HR | csimpl; reflexivity | exact E | csimpl; rewrite <- ?app_assoc; reflexivity
                                             | quiet2_tac | hand_tac]
                  | eapply (RC_take s _ c k); [exact HR | csimpl; reflexivity | exact E | csimpl; reflexivity | hand_tac_nil | take_tac ] ]
          end ]
with hand_tac_nil := unfold handpart; match goal with E : s_loop _ = _ |- _ => rewrite E; reflexivity end
with take_tac := unfold handpart; csimpl;
  first [ left; reflexivity
        | match goal with |- context [if ?z <? 0 then _ else _] =>
            destruct (z <? 0); [left; reflexivity | right; eexists; split; [eassumption | reflexivity]] end ].

Lemma RC_hand s s' c0 k0 k' b :
  RC s -> calls s' = upd c0 k' (calls s) -> nth_error (calls s) c0 = Some k0 ->
  Client.log s' = Client.log s ++ [EvRecvRet c0 (RMsg b)] -> handpart k0 = [b] -> handpart k' = [] -> RC s'.
Proof.
  intros HR Hc Hn Hl Hh0 Hh c k P. rewrite Hl, msgs_app, ctakes_app. simpl. rewrite !app_nil_r.
  rewrite Hc in P. destruct (Nat.eq_dec c c0) as [->|Hne].
  - rewrite nth_upd_eq in P by (eapply nth_some_lt; eauto). inversion P; subst k. rewrite Nat.eqb_refl, Hh, app_nil_r.
    specialize (HR _ _ Hn). rewrite Hh0 in HR. exact HR.
  - rewrite nth_upd_neq in P by auto. destruct (Nat.eqb_spec c0 c) as [->|_]; [contradiction|]. rewrite app_nil_r. apply HR. exact P.
Qed.

Lemma RC_int s r s' : cinv s -> RC s -> In r (Client.rules s) -> r s = Some s' -> RC s'.
Proof.
  intros HI HR Hin H. apply rules_in in Hin. destruct Hin as [->|[->|(c & _ & Hin)]].
  - unfold r_rl_unblock in H. open_rule H; try (RC_done HR).
  - unfold r_rl_read in H. open_rule H; try (RC_done HR).
  - simpl in Hin.
    repeat (destruct Hin as [<-|Hin];
            [ unfold r_check, r_reg, r_wait, r_wait_ctx, r_unreg, r_loop_read, r_loop_read_ctx, r_loop_hand,
                     r_loop_hand_ctx, r_loop_exit, r_loop_unreg, r_recv, r_header, r_trailer, r_send in H;
              open_rule H; try (RC_done HR) | ]).
    all: try destruct Hin.
    + (* r_wait: a unary call has no stream loop *)
      pose proof (cinv_call _ _ _ HI E) as K.
      assert (X : s_loop c0 = LDead) by (apply (kinv_dead _ K); rewrite E0; discriminate).
      eapply (RC_take s _ c c0); [exact HR | csimpl; reflexivity | exact E | csimpl; reflexivity | unfold handpart; rewrite X; reflexivity | ].
      left. unfold handpart. csimpl. rewrite X. reflexivity.
    + (* r_loop_read, an envelope without body and without trailer *)
      eapply (RC_take s _ c c0); [exact HR | csimpl; reflexivity | exact E | csimpl; reflexivity | unfold handpart; rewrite E0; reflexivity | ].
      left. unfold handpart. csimpl. rewrite E0. reflexivity.
    + (* r_loop_hand *)
      destruct (b <? 0) eqn:Eb.
      * eapply (RC_upd s _ c c0); [exact HR | csimpl; reflexivity | exact E | csimpl; reflexivity | quiet2_tac | ].
        left. unfold handpart. csimpl. rewrite E0, Eb. reflexivity.
      * eapply (RC_hand s _ c c0 _ b); [exact HR | csimpl; reflexivity | exact E | csimpl; reflexivity | unfold handpart; rewrite E0, Eb; reflexivity | reflexivity].
    + unfold recv_final. destruct (s_rerr c0); (eapply (RC_upd s _ c c0); [exact HR | csimpl; reflexivity | exact E | csimpl; reflexivity | quiet2_tac | left; reflexivity]).
    + unfold recv_final. destruct (s_rerr c0); (eapply (RC_upd s _ c c0); [exact HR | csimpl; reflexivity | exact E | csimpl; reflexivity | quiet2_tac | left; reflexivity]).
Qed.


Lemma RC_with_call s c g :
  RC s -> (forall k k', g k = Some k' -> s_loop k' = s_loop k) -> RC (with_call s c g).
Proof.
  intros HR Hg. unfold with_call. destruct (nth_error (calls s) c) as [k|] eqn:E; [|exact HR].
  destruct (g k) as [k'|] eqn:G; [|exact HR].
  eapply (RC_upd s _ c k k' []); [exact HR | reflexivity | exact E | simpl; rewrite app_nil_r; reflexivity | quiet2_tac | ].
  left. unfold handpart. rewrite (Hg _ _ G). reflexivity.
Qed.

Lemma msgs_none c l : (forall b, ~ In (EvRecvRet c (RMsg b)) l) -> msgs c l = [].
Proof.
  induction l as [|x l IH]; intros Hn; simpl; auto.
  assert (IH' : msgs c l = []) by (apply IH; intros b0 Hin; apply (Hn b0); right; exact Hin).
  destruct x; auto. destruct r; auto.
  match goal with |- context [Nat.eqb ?a c] => destruct (Nat.eqb_spec a c) as [->|Hne] end; auto.
  exfalso. eapply Hn. left. reflexivity.
Qed.

Lemma RC_ext s a : linv s -> RC s -> RC (Client.ext s a).
Proof.
  intros HL HR. destruct a; simpl;
    try (apply RC_with_call; [exact HR|]; intros k k' G;
         repeat match type of G with
                | match ?x with _ => _ end = Some _ => destruct x eqn:?; try discriminate G
                end; inversion G; subst; csimpl; auto);
    try (eapply (RC_same _ _ []); [exact HR | reflexivity | simpl; rewrite app_nil_r; reflexivity | quiet2_tac]).
  - intros c k P. csimpl. destruct (nth_app_cases _ _ _ _ P) as [(P' & _) | (-> & ->)]; [apply HR; exact P'|].
    rewrite msgs_none; [simpl; apply sub_nil|]. intros b Hin. destruct (li_ev _ HL _ Hin) as (e & He & _).
    destruct (li_ev _ HL _ He) as ((k1 & Hk1 & _) & _). apply nth_some_lt in Hk1. lia.
  - intros c k P. csimpl. destruct (nth_app_cases _ _ _ _ P) as [(P' & _) | (-> & ->)]; [apply HR; exact P'|].
    rewrite msgs_none; [simpl; apply sub_nil|]. intros b Hin. destruct (li_ev _ HL _ Hin) as (e & He & _).
    destruct (li_ev _ HL _ He) as ((k1 & Hk1 & _) & _). apply nth_some_lt in Hk1. lia.
  - destruct (nth_error (calls s) c) as [k|] eqn:E; [|exact HR].
    destruct (k_pc k) eqn:P; try exact HR.
    eapply (RC_upd _ _ c k _ []); [exact HR | csimpl; reflexivity | exact E | csimpl; rewrite app_nil_r; reflexivity | quiet2_tac | left; reflexivity].
Qed.

Theorem RC_reach ls s : Client.lrun Client.init ls = Some s -> RC s.
Proof.
  intros H.
  assert (G : (cinv s /\ sinv s /\ linv s) /\ RC s).
  { revert H. apply (ClientBase.lrun_inv (fun s => (cinv s /\ sinv s /\ linv s) /\ RC s)).
    - intros s0 l s1 ((HI & HS & HL) & HR) Hs. split.
      + split; [|split]; eauto using cinv_step, sinv_step, linv_step.
      + destruct l as [a|n]; simpl in Hs.
        * inversion Hs; subst. apply RC_ext; auto.
        * destruct (nth_error (Client.rules s0) n) as [r|] eqn:E; [|discriminate].
          apply nth_error_In in E. eapply RC_int; eauto.
    - split; [split; [apply cinv_init | split; [apply sinv_init | apply linv_init]]|].
      intros c k P. destruct c; discriminate. }
  apply G.
Qed.

(* ---------- composition ---------- *)
Lemma routed_sub_creads c l : subseq (routed c l) (creads l).
Proof.
  induction l as [|x l IH]; simpl; [apply sub_nil|]. destruct x; auto.
  destruct to as [c'|]; [destruct (Nat.eqb c' c); [apply sub_take | apply sub_skip] | apply sub_skip]; auto.
Qed.

Lemma tbodies_subseq a l : subseq a l -> subseq (tbodies a) (tbodies l).
Proof.
  induction 1; simpl.
  - apply sub_nil.
  - unfold tbodies in *. simpl. destruct (ebody x); simpl; [apply sub_skip|]; auto.
  - unfold tbodies in *. simpl. destruct (ebody x); simpl; [apply sub_take|]; auto.
Qed.

(* end to end: the messages RecvMsg returned on a call, in order, are a subsequence of the bodies of the
   envelopes the server wrote, in the order of writing (the envelopes routed to the call are those carrying its
   id: C05) *)
Theorem C02_caller_order pol ls s c k :
  Sys.lrun pol Sys.init ls = Some s -> nth_error (calls (cl s)) c = Some k ->
  subseq (msgs c (Client.log (cl s))) (tbodies (map f_env (swrites (Server.log (sv s))))).
Proof.
  intros H Hn. pose proof (proj_c_run _ _ _ _ H) as Hc.
  pose proof (RC_reach _ _ Hc c k Hn) as X1. apply subseq_drop_last in X1.
  pose proof (cl_takes_subseq _ _ _ _ Hc Hn) as X2.
  pose proof (routed_sub_creads c (Client.log (cl s))) as X3.
  pose proof (wire_s2c_prefix _ _ _ H) as X4.
  eapply subseq_trans; [exact X1|]. apply tbodies_subseq.
  eapply subseq_trans; [exact X2|]. eapply subseq_trans; [exact X3|]. eapply subseq_prefix; [apply subseq_refl | exact X4].
Qed.

Lemma subseq_filter_r {A} (g : A -> bool) a l : subseq a l -> (forall x, In x a -> g x = true) -> subseq a (filter g l).
Proof.
  induction 1; intros Hall; simpl.
  - apply sub_nil.
  - destruct (g x); [apply sub_skip|]; auto.
  - rewrite (Hall x (or_introl eq_refl)). apply sub_take. apply IHsubseq. intros y Hy. apply Hall. right. exact Hy.
Qed.

Lemma in_routed c e l : In e (routed c l) -> In (EvRead e (Some c)) l.
Proof.
  induction l as [|x l IH]; simpl; [tauto|]. destruct x; auto. destruct to as [c'|]; auto.
  destruct (Nat.eqb_spec c' c) as [->|Hne]; simpl; [intros [->|H]; auto | auto].
Qed.

(* per stream: the messages RecvMsg returned on call c, in order, are a subsequence of the bodies of the
   envelopes the server wrote WITH THE CALL'S ID, in the order of writing *)
Theorem C02_caller_order_id pol ls s c k :
  Sys.lrun pol Sys.init ls = Some s -> nth_error (calls (cl s)) c = Some k ->
  subseq (msgs c (Client.log (cl s))) (tbodies (by_id (k_id k) (map f_env (swrites (Server.log (sv s)))))).
Proof.
  intros H Hn. pose proof (proj_c_run _ _ _ _ H) as Hc.
  pose proof (RC_reach _ _ Hc c k Hn) as X1. apply subseq_drop_last in X1.
  pose proof (cl_takes_subseq _ _ _ _ Hc Hn) as X2.
  pose proof (routed_sub_creads c (Client.log (cl s))) as X3.
  pose proof (wire_s2c_prefix _ _ _ H) as X4.
  eapply subseq_trans; [exact X1|]. apply tbodies_subseq.
  eapply subseq_trans; [exact X2|].
  apply subseq_filter_r.
  - eapply subseq_trans; [exact X3|]. eapply subseq_prefix; [apply subseq_refl | exact X4].
  - intros e Hin. apply in_routed in Hin. destruct (proj1 (C05_read_l _ _ Hc e) c Hin) as (k' & Hk' & Hid & _).
    rewrite Hn in Hk'. inversion Hk'; subst k'. apply Z.eqb_eq. auto.
Qed.

(* Facts about ONE component and an arbitrary environment that the end-to-end composition (SysC01.v) needs
   and that the component work packages do not provide.

   Server: every frame with a body that the server hands to its transport is the reply of a handler that
   was started for a frame read from the transport with the same id; for a unary handler obeying the policy
   [pol_c01 f] the body is [f] of the body of that frame. *)
From Coq Require Import List ZArith Bool Lia Arith.
Import ListNotations.
From Goat Require Import Model.Client Model.Server Proofs.ClientBase Proofs.ServerProofs Proofs.ServerInv Proofs.ServerTrace Model.Sys Proofs.SysLog.
Open Scope Z_scope.

Definition justf (f : Z -> Z) (sg : list (bool * frame)) (fr : frame) : Prop :=
  forall b, ebody (f_env fr) = Some b ->
    exists u rq, In (u, rq) sg /\ fid rq = fid fr /\ (u = true -> b = f (body_tok rq)).

Lemma justf_mono f sg sg' fr : incl sg sg' -> justf f sg fr -> justf f sg' fr.
Proof. intros Hi H b Hb. destruct (H b Hb) as (u & rq & Hin & R). exists u, rq. split; auto. Qed.

Lemma justf_nobody f sg fr : ebody (f_env fr) = None -> justf f sg fr.
Proof. intros H b Hb. congruence. Qed.

(* the places where a frame on its way to the transport can be *)
Inductive pending (v : Server.state) (fr : frame) : Prop :=
| PWr : wr v = WrWrite fr -> pending v fr
| PWk w : nth_error (wk v) w = Some (WkHand fr) -> pending v fr
| PHs h k sk : nth_error (hs v) h = Some k -> h_pc k = HInSend fr sk -> pending v fr
| PLog : In (SvWrite fr) (Server.log v) -> pending v fr.

(* counting frames by id: the handlers ever started (plus the unary request on offer to the workers) are
   not more, per id, than the frames read from the transport with that id *)
Definition cnt (i : Z) (l : list frame) : nat := length (filter (fun fr => fid fr =? i) l).
Definition offer_cnt (i : Z) (p : rdpc) : nat := match p with RdOffer fr => if fid fr =? i then 1%nat else 0%nat | _ => 0%nat end.
Definition one_if (i : Z) (fr : frame) : nat := if fid fr =? i then 1%nat else 0%nat.

Lemma cnt_app i a b : cnt i (a ++ b) = (cnt i a + cnt i b)%nat.
Proof. unfold cnt. rewrite filter_app, app_length. reflexivity. Qed.

Lemma cnt_one i fr : cnt i [fr] = one_if i fr.
Proof. unfold cnt, one_if. simpl. destruct (fid fr =? i); reflexivity. Qed.

Record K (f : Z -> Z) (v : Server.state) : Prop := mkK {
  k_pend : forall fr, pending v fr -> justf f (sigs v) fr;
  k_read : forall u rq, In (u, rq) (sigs v) -> In (SvRead rq) (Server.log v);
  k_offer : forall fr, rd v = RdOffer fr -> In (SvRead fr) (Server.log v);
  k_count : forall i, (cnt i (map snd (sigs v)) + offer_cnt i (rd v) <= cnt i (sreads (Server.log v)))%nat }.

Lemma K_init f nw : K f (init_n nw).
Proof.
  constructor; simpl; try tauto; try discriminate; try (intros; apply Nat.le_refl).
  intros fr P. destruct P as [P | w P | h k sk P Q | P]; simpl in *; try discriminate; try tauto.
  - apply nth_error_In in P. apply repeat_spec in P. discriminate.
  - destruct h; discriminate.
Qed.

Lemma step_ok_incl s s' : step_ok s s' -> incl (sigs s) (sigs s') /\ exists evs, Server.log s' = Server.log s ++ evs.
Proof.
  intros [(evs & E & _ & S) | (evs & p & E & _ & S & _)].
  - rewrite S. split; [apply incl_refl | eauto].
  - rewrite S. split; [apply incl_appl, incl_refl | rewrite E; eauto].
Qed.

(* a step under which every pending frame was already pending, or has no body *)
Definition pend_old (s s' : Server.state) : Prop :=
  forall fr, pending s' fr -> pending s fr \/ ebody (f_env fr) = None.

Ltac in_log H :=
  repeat (apply in_app_or in H; destruct H as [H | H]);
  try (simpl in H; repeat (destruct H as [H | H]; [try discriminate H; try (inversion H; subst; clear H) | ]); try contradiction).

Ltac pend_old_tac :=
  let fr := fresh "fr" in let P := fresh "P" in
  intros fr P; destruct P as [P | wX P | hX kX skX P Q | P]; sproj;
  [ try discriminate P; try (inversion P; subst; clear P); eauto using pending
  | try (apply nth_upd_cases in P; destruct P as [(-> & P & _) | (_ & P)]; [try discriminate P; try (inversion P; subst; clear P) | ]); eauto using pending
  | try (apply nth_upd_cases in P; destruct P as [(-> & -> & _) | (_ & P)]; [simpl in Q; try discriminate Q; try (inversion Q; subst; clear Q) | ]); eauto using pending
  | in_log P; eauto using pending ].

Ltac sigs_same :=
  unfold sigs; sproj; try reflexivity;
  repeat match goal with Hn : nth_error (hs _) ?h = Some ?k |- _ => rewrite (map_upd_same hsig h k _ _ Hn) by reflexivity end;
  reflexivity.

Lemma K_from_old f s s' :
  K f s -> pend_old s s' -> sigs s' = sigs s -> (exists evs, Server.log s' = Server.log s ++ evs) ->
  (forall fr, rd s' = RdOffer fr -> rd s = RdOffer fr) -> K f s'.
Proof.
  intros [Kp Kr Ko Kc] PO SS (evs & Hlog) Hrd. constructor.
  - intros fr P. rewrite SS. destruct (PO fr P) as [P0 | Nb]; [auto | apply justf_nobody; auto].
  - rewrite SS, Hlog. intros u rq Hin. apply in_or_app. left. eauto.
  - intros fr E. rewrite Hlog. apply in_or_app. left. auto.
  - intros i. rewrite SS, Hlog, sreads_app, cnt_app. specialize (Kc i).
    assert (offer_cnt i (rd s') <= offer_cnt i (rd s))%nat; [|lia].
    destruct (rd s') eqn:E; simpl; try lia. rewrite (Hrd _ eq_refl). simpl. lia.
Qed.

Ltac log_ext := sproj; first [ exists []; rewrite app_nil_r; reflexivity | eexists; rewrite <- ?app_assoc; reflexivity ].
Ltac rd_same := sproj; intros ? E; first [ discriminate E | exact E | left; exact E | congruence | left; congruence ].

Lemma K_from_step f s s' :
  K f s -> pend_old s s' -> incl (sigs s) (sigs s') ->
  (forall u rq, In (u, rq) (sigs s') -> In (u, rq) (sigs s) \/ In (SvRead rq) (Server.log s')) ->
  (exists evs, Server.log s' = Server.log s ++ evs) ->
  (forall fr, rd s' = RdOffer fr -> rd s = RdOffer fr \/ In (SvRead fr) (Server.log s')) ->
  (forall i, (cnt i (map snd (sigs s')) + offer_cnt i (rd s') <= cnt i (sreads (Server.log s')))%nat) -> K f s'.
Proof.
  intros [Kp Kr Ko Kc] PO SS NS (evs & Hlog) Hrd Hc. constructor; [ | | | exact Hc].
  - intros fr P. destruct (PO fr P) as [P0 | Nb]; [eapply justf_mono; eauto | apply justf_nobody; auto].
  - intros u rq Hin. destruct (NS u rq Hin) as [O | N]; auto. rewrite Hlog. apply in_or_app. left. eauto.
  - intros fr E. destruct (Hrd fr E) as [O | N]; auto. rewrite Hlog. apply in_or_app. left. auto.
Qed.

Ltac pend_app_tac :=
  let fr := fresh "fr" in let P := fresh "P" in
  intros fr P; destruct P as [P | wX P | hX kX skX P Q | P]; sproj;
  [ try discriminate P; try (inversion P; subst; clear P); eauto using pending
  | try (apply nth_upd_cases in P; destruct P as [(-> & P & _) | (_ & P)]; [try discriminate P; try (inversion P; subst; clear P) | ]); eauto using pending
  | try (apply nth_app_new in P; destruct P as [P | (_ & ->)]; [ | simpl in Q; discriminate Q]); eauto using pending
  | in_log P; eauto using pending ].

Lemma K_stream_dispatch f s fr0 :
  K f s -> In (SvRead fr0) (Server.log s) -> rd s = RdRead ->
  (forall i, (cnt i (map snd (sigs s)) + one_if i fr0 <= cnt i (sreads (Server.log s)))%nat) ->
  K f (stream_dispatch s fr0).
Proof.
  intros HK Hr Erd Hslack. unfold stream_dispatch.
  destruct (find_reg (fid fr0) (hs s) 0) as [h|].
  - destruct (is_rst fr0).
    + destruct (nth_error (hs s) h) as [k|] eqn:Hn; [|exact HK].
      apply (K_from_old f s); [exact HK | pend_old_tac | sigs_same | log_ext | rd_same].
    + apply (K_from_old f s); [exact HK | pend_old_tac | sigs_same | log_ext | rd_same].
  - destruct (is_rst fr0); [exact HK|].
    destruct (has_body fr0); [apply (K_from_old f s); [exact HK | pend_old_tac | sigs_same | log_ext | rd_same]|].
    destruct (has_trl fr0); [exact HK|].
    destruct (md_bad fr0); [apply (K_from_old f s); [exact HK | pend_old_tac | sigs_same | log_ext | rd_same]|].
    apply (K_from_step f s); [exact HK | pend_app_tac | | | log_ext | | ].
    + unfold sigs; sproj. rewrite map_app. apply incl_appl, incl_refl.
    + unfold sigs; sproj. rewrite map_app. intros u rq Hin. apply in_app_or in Hin. destruct Hin as [Hin | [Hin | []]]; auto.
      inversion Hin; subst. right. apply in_or_app. left. exact Hr.
    + sproj. rewrite Erd. intros ? E. discriminate E.
    + intros i. unfold sigs; sproj. rewrite Erd. rewrite !map_app, cnt_app, sreads_app, cnt_app. simpl map. rewrite cnt_one.
      specialize (Hslack i). unfold sigs in Hslack. simpl. lia.
Qed.

Lemma K_start_unary f s w fr0 :
  K f s -> In (SvRead fr0) (Server.log s) -> rd s = RdRead ->
  (forall i, (cnt i (map snd (sigs s)) + one_if i fr0 <= cnt i (sreads (Server.log s)))%nat) ->
  K f (start_unary s w fr0).
Proof.
  intros HK Hr Erd Hslack. unfold start_unary.
  destruct (negb (has_hdr fr0)); [apply (K_from_old f s); [exact HK | pend_old_tac | sigs_same | log_ext | rd_same]|].
  destruct (md_bad fr0).
  { apply (K_from_old f s); [exact HK | | sigs_same | log_ext | rd_same]. pend_old_tac. }
  destruct (body_tok fr0 <? 0).
  { apply (K_from_old f s); [exact HK | | sigs_same | log_ext | rd_same]. pend_old_tac. }
  apply (K_from_step f s); [exact HK | | | | log_ext | rd_same | ].
  4: { intros i. unfold sigs; sproj. rewrite Erd. rewrite !map_app, cnt_app, sreads_app, cnt_app. simpl map. rewrite cnt_one.
       specialize (Hslack i). unfold sigs in Hslack. simpl. lia. }
  - intros fr P. destruct P as [P | wX P | hX kX skX P Q | P]; sproj.
    + eauto using pending.
    + apply nth_upd_cases in P. destruct P as [(-> & P & _) | (_ & P)]; [discriminate P | eauto using pending].
    + apply nth_app_new in P. destruct P as [P | (_ & ->)]; [eauto using pending | simpl in Q; discriminate Q].
    + in_log P; eauto using pending.
  - unfold sigs; sproj. rewrite map_app. apply incl_appl, incl_refl.
  - unfold sigs; sproj. rewrite map_app. intros u rq Hin. apply in_app_or in Hin. destruct Hin as [Hin | [Hin | []]]; auto.
    inversion Hin; subst. right. apply in_or_app. left. exact Hr.
Qed.

Lemma K_hunregister f s g kg : K f s -> nth_error (hs s) g = Some kg -> K f (add_log (set_h s g (hunregister kg)) [SvUnreg g]).
Proof.
  intros HK Hg. apply (K_from_old f s); [exact HK | | | log_ext | rd_same].
  - intros fr P. destruct P as [P | wX P | hX kX skX P Q | P]; sproj; eauto using pending.
    + apply nth_upd_cases in P. destruct P as [(-> & -> & _) | (_ & P)]; [ | eauto using pending].
      left. eapply PHs; [exact Hg | exact Q].
    + in_log P; eauto using pending.
  - unfold sigs; sproj. rewrite (map_upd_same hsig g kg _ _ Hg) by reflexivity. reflexivity.
Qed.

Lemma K_int f s i s' : inv_hdr s -> K f s -> rule_of i s = Some s' -> K f s'.
Proof.
  intros Ih HK H. destruct i; simpl in H.
  all: try solve [ start_rule H; (apply (K_from_old f s); [exact HK | try pend_old_tac | try sigs_same | try log_ext | try rd_same]) ].
  - (* r_rd_read *)
    unfold r_rd_read in H. destruct (rd s) eqn:Erd; try discriminate.
    destruct (Server.inbox s) as [|fr0 rest] eqn:Ei.
    + destr_in H; inv_some H; apply (K_from_old f s); [exact HK | pend_old_tac | sigs_same | log_ext | rd_same | exact HK | pend_old_tac | sigs_same | log_ext | rd_same].
    + assert (K1 : K f (add_log (set_inbox s rest) [SvRead fr0])).
      { apply (K_from_old f s); [exact HK | pend_old_tac | sigs_same | log_ext | rd_same]. }
      destruct (dispatch fr0); inv_some H.
      * exact K1.
      * apply (K_from_step f s); [exact HK | pend_old_tac | unfold sigs; sproj; apply incl_refl | unfold sigs; sproj; auto | log_ext | | ].
        -- sproj. intros ? E. inversion E; subst. right. apply in_or_app. right. simpl. auto.
        -- intros i. pose proof (k_count _ _ HK i) as Kc. rewrite Erd in Kc. unfold sigs in *; sproj.
           rewrite sreads_app, cnt_app. simpl sreads. rewrite cnt_one. unfold one_if. simpl in *. lia.
      * apply K_stream_dispatch; [exact K1 | sproj; apply in_or_app; right; simpl; auto | sproj; exact Erd | ].
        intros i. pose proof (k_count _ _ HK i) as Kc. rewrite Erd in Kc. unfold sigs in *; sproj.
        rewrite sreads_app, cnt_app. simpl sreads. rewrite cnt_one. simpl in *. lia.
  - (* r_rd_offer *)
    unfold r_rd_offer in H. destruct (rd s) eqn:Erd; try discriminate.
    destruct (find_idle (wk s) 0) as [w|]; [|discriminate]. inv_some H.
    assert (Hr : In (SvRead f0) (Server.log s)) by (apply (k_offer _ _ HK); exact Erd).
    assert (K1 : K f (add_log (set_rd s RdRead) [SvJob w f0])).
    { apply (K_from_old f s); [exact HK | pend_old_tac | sigs_same | log_ext | rd_same]. }
    apply K_start_unary; [exact K1 | sproj; apply in_or_app; left; exact Hr | sproj; reflexivity | ].
    intros i. pose proof (k_count _ _ HK i) as Kc. rewrite Erd in Kc. unfold sigs in *; sproj.
    rewrite sreads_app, cnt_app. simpl in *. unfold one_if. lia.
  - (* r_h_unreg *)
    unfold r_h_unreg in H. destruct (nth_error (hs s) h) as [k|] eqn:Hn; [|discriminate].
    destruct (h_pc k) eqn:Hpc; try discriminate. destruct (mu_free s); [|discriminate].
    assert (K1 : K f (set_h s h (hset_pc k HDead))).
    { apply (K_from_old f s); [exact HK | pend_old_tac | sigs_same | log_ext | rd_same]. }
    destruct (find_reg _ _ _) as [g|]; [destruct (nth_error _ g) as [kg|] eqn:Hg|]; inv_some H; try exact K1.
    apply K_hunregister; [exact K1 | exact Hg].
Qed.

(* ---------- environment actions ---------- *)
Lemma K_from_step3 f s s' :
  K f s ->
  (forall fr, pending s' fr -> pending s fr \/ ebody (f_env fr) = None \/ justf f (sigs s') fr) ->
  sigs s' = sigs s -> (exists evs, Server.log s' = Server.log s ++ evs) ->
  (forall fr, rd s' = RdOffer fr -> rd s = RdOffer fr) -> K f s'.
Proof.
  intros [Kp Kr Ko Kc] PO SS (evs & Hlog) Hrd. constructor.
  - intros fr P. destruct (PO fr P) as [P0 | [Nb | J]]; [rewrite SS; auto | apply justf_nobody; auto | exact J].
  - rewrite SS, Hlog. intros u rq Hin. apply in_or_app. left. eauto.
  - intros fr E. rewrite Hlog. apply in_or_app. left. auto.
  - intros i. rewrite SS, Hlog, sreads_app, cnt_app. specialize (Kc i).
    assert (offer_cnt i (rd s') <= offer_cnt i (rd s))%nat; [|lia].
    destruct (rd s') eqn:E; simpl; try lia. rewrite (Hrd _ eq_refl). simpl. lia.
Qed.

Lemma sig_in s h k : nth_error (hs s) h = Some k -> In (h_unary k, h_req k) (sigs s).
Proof. intros Hn. unfold sigs. apply in_map_iff. exists k. split; [reflexivity | eapply nth_error_In; eauto]. Qed.

Lemma hstep_sigs s h k o : nth_error (hs s) h = Some k -> h_pc k = HGate -> sigs (hstep s h k o) = sigs s.
Proof.
  intros Hn Hg. destruct (hstep_shape s h k o Hn Hg) as (k' & Hhs & Hu & _ & _ & _ & Hq & _).
  unfold sigs. rewrite Hhs. apply (map_upd_same hsig h k k' _ Hn). unfold hsig. now rewrite Hu, Hq.
Qed.

Lemma pend_upd_h s s' h k' fr :
  wr s' = wr s -> wk s' = wk s -> hs s' = upd h k' (hs s) ->
  (exists evs, Server.log s' = Server.log s ++ evs /\ forall x, ~ In (SvWrite x) evs) ->
  pending s' fr -> pending s fr \/ exists sk, h_pc k' = HInSend fr sk.
Proof.
  intros Ewr Ewk Ehs (evs & Elog & Hno) P. destruct P as [P | wX P | hX kX skX P Q | P].
  - left. apply PWr. congruence.
  - left. eapply PWk. rewrite <- Ewk. eauto.
  - rewrite Ehs in P. apply nth_upd_cases in P. destruct P as [(-> & -> & _) | (_ & P)]; [right; eauto | left; eauto using pending].
  - rewrite Elog in P. apply in_app_or in P. destruct P as [P | P]; [left; eauto using pending | exfalso; eapply Hno; eauto].
Qed.

Ltac no_write := first [ exists []; split; [rewrite app_nil_r; reflexivity | intros ? []]
                       | eexists; split; [reflexivity | intros ? Hx; simpl in Hx; repeat (destruct Hx as [Hx | Hx]; [discriminate Hx | ]); exact Hx ] ].

Lemma K_hstep f s h k o :
  K f s -> nth_error (hs s) h = Some k -> h_pc k = HGate -> pol_c01 f s h o = true -> K f (hstep s h k o).
Proof.
  intros HK Hn Hg Hpol.
  assert (SS := hstep_sigs s h k o Hn Hg).
  assert (Sin := sig_in s h k Hn).
  apply (K_from_step3 f s); [exact HK | | exact SS | | ].
  - rewrite SS. unfold pol_c01 in Hpol. rewrite Hn in Hpol. unfold hstep in *.
    destruct (h_unary k) eqn:Hu.
    + (* unary: the policy leaves the return of f (request) *)
      destruct o; try discriminate Hpol. destruct rep as [r|]; [|discriminate Hpol]. destruct e; try discriminate Hpol.
      apply Z.eqb_eq in Hpol. subst r.
      intros fr P. destruct P as [P | wX P | hX kX skX P Q | P]; sproj.
      * eauto using pending.
      * apply finish_unary_nth in P. destruct P as (p0 & P0 & [(E & _) | (E1 & E2)]).
        -- subst p0. eauto using pending.
        -- inversion E2; subst fr. right. right. intros b Hb. simpl in Hb. inversion Hb; subst b.
           exists true, (h_req k). split; [exact Sin|]. split; [reflexivity | auto].
      * apply nth_upd_cases in P. destruct P as [(-> & -> & _) | (_ & P)]; [simpl in Q; discriminate Q | eauto using pending].
      * in_log P; eauto using pending.
    + (* stream handler: any operation; the only new frame is the one in the handler's HInSend *)
      intros fr P.
      assert (G : pending s fr \/ exists k' sk, h_pc k' = HInSend fr sk /\
                    (k' = k \/ ebody (f_env fr) = None \/ exists b, fr = msg_frame k b)).
      { destruct o; try destruct (h_hsent k) eqn:Hs;
          (eapply pend_upd_h in P; [ | sproj; reflexivity | sproj; reflexivity | sproj; try reflexivity | sproj; no_write ]);
          try (destruct P as [P | (sk & P)]; [left; exact P | right; eexists; exists sk; split; [exact P|]]).
        all: try (simpl in P; try discriminate P; inversion P; subst; clear P).
        all: try (right; left; reflexivity).
        all: try (right; right; eexists; reflexivity).
        all: try (left; reflexivity).
        all: try (symmetry; apply upd_same; exact Hn).
        all: try (exfalso; match goal with X : h_pc _ = HInSend _ _ |- _ => rewrite Hg in X; discriminate X end). }
      destruct G as [G | (k' & sk & Hpc & [-> | [Nb | (b0 & ->)]])]; auto.
      * rewrite Hg in Hpc. discriminate Hpc.
      * right. right. intros b1 Hb. exists false, (h_req k). split; [exact Sin|]. split; [reflexivity | intros X; discriminate X].
  - destruct (hstep_log s h k o) as (evs & E & _). eauto.
  - destruct (hstep_rd_crashed s h k o) as [E _]. rewrite E. auto.
Qed.

Lemma K_ext f s a : K f s -> pol_ok (pol_c01 f) s (Server.LExt a) = true -> K f (Server.ext s a).
Proof.
  intros HK Hpol. destruct a; simpl.
  all: try solve [apply (K_from_old f s); [exact HK | pend_old_tac | sigs_same | log_ext | rd_same]].
  destruct (nth_error (hs s) h) as [k|] eqn:Hn; [|exact HK].
  destruct (h_pc k) eqn:Hg; try exact HK.
  apply K_hstep; auto.
Qed.

(* ---------- over runs ---------- *)
Fixpoint srun_pol (pol : policy) (v : Server.state) (ls : list Server.label) : option Server.state :=
  match ls with
  | [] => Some v
  | l :: rest =>
      if pol_ok pol v l then
        match Server.lstep v l with Some v' => srun_pol pol v' rest | None => None end
      else None
  end.

Lemma srun_lrun pol ls : forall v v', srun_pol pol v ls = Some v' -> Server.lrun v ls = Some v'.
Proof.
  induction ls as [|l ls IH]; simpl; intros v v' H; auto.
  destruct (pol_ok pol v l); [|discriminate]. destruct (Server.lstep v l); [|discriminate]. auto.
Qed.

Lemma K_run f ls : forall v v', inv_hdr v -> K f v -> srun_pol (pol_c01 f) v ls = Some v' -> K f v'.
Proof.
  induction ls as [|l ls IH]; simpl; intros v v' Ih HK H.
  - inversion H; subst; auto.
  - destruct (pol_ok (pol_c01 f) v l) eqn:Hp; [|discriminate].
    destruct (Server.lstep v l) as [v1|] eqn:E; [|discriminate].
    apply (IH v1); auto.
    + destruct l as [a|n]; simpl in E.
      * inversion E; subst. apply inv_hdr_ext; auto.
      * destruct (nth_error (Server.rules v) n) as [r|] eqn:En; [|discriminate].
        apply nth_error_In in En. apply rules_cases in En. destruct En as [i ->]. eapply inv_hdr_int; eauto.
    + destruct l as [a|n]; simpl in E.
      * inversion E; subst. apply K_ext; auto.
      * destruct (nth_error (Server.rules v) n) as [r|] eqn:En; [|discriminate].
        apply nth_error_In in En. apply rules_cases in En. destruct En as [i ->]. eapply K_int; eauto.
Qed.

(* the server fact of SysC01.v *)
Theorem srv_reply_origin f ls v fr b :
  srun_pol (pol_c01 f) Server.init ls = Some v ->
  In (SvWrite fr) (Server.log v) -> ebody (f_env fr) = Some b ->
  exists h k, nth_error (hs v) h = Some k /\ fid (h_req k) = fid fr /\ In (SvRead (h_req k)) (Server.log v) /\
              (if h_unary k then b = f (body_tok (h_req k)) else has_body (h_req k) = false).
Proof.
  intros H Hw Hb.
  assert (HK : K f v) by (eapply K_run; [apply inv_hdr_init | apply K_init | exact H]).
  destruct (k_pend _ _ HK fr (PLog _ _ Hw) b Hb) as (u & rq & Hin & Hid & Hu).
  pose proof (k_read _ _ HK _ _ Hin) as Hr.
  unfold sigs in Hin. apply in_map_iff in Hin. destruct Hin as (k & Hk & Hin). apply In_nth_error in Hin. destruct Hin as (h & Hn).
  unfold hsig in Hk. inversion Hk; subst u rq. exists h, k. repeat split; auto.
  destruct (h_unary k) eqn:Hun; [auto|].
  apply srun_lrun in H. destruct (srv_dispatch _ _ _ H) as (_ & Hreq).
  assert (Hs : In (false, h_req k) (sigs v)) by (rewrite <- Hun; apply sig_in with h; auto).
  specialize (Hreq _ Hs). simpl in Hreq. tauto.
Qed.

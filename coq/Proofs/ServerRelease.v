(* C14, server half: what a finished RPC still holds on a server connection, per handler (no global hypothesis),
   and the bounds of the per-connection collections. *)
From Coq Require Import List ZArith Bool Lia Arith.
Import ListNotations.
From Goat Require Import Model.Client Model.Server Proofs.ServerProofs Proofs.ServerInv Proofs.ServerLive.
Open Scope nat_scope.

(* ---------- released, in every reachable state ---------- *)
(* a handler whose goroutine has ended (unary: the handler function returned; stream: the trailer hand-over and the
   unregistration are done) holds nothing: it is not in the registry, it is no goroutine, no worker runs it, the read
   loop holds no envelope for it, and whatever entry the registry has under its id belongs to another, live handler
   (a later stream that reuses the id) *)
Theorem srv_released_when_ended nw s h k :
  inv nw s -> nth_error (hs s) h = Some k -> h_pc k = HDead ->
  h_reg k = false /\ hs_alive k = false
  /\ (forall w, nth_error (wk s) w <> Some (WkRun h))
  /\ (forall f, rd s <> RdFwd h f)
  /\ (forall g, find_reg (fid (h_req k)) (hs s) 0 = Some g ->
        g <> h /\ exists kg, nth_error (hs s) g = Some kg /\ hs_alive kg = true).
Proof.
  intros I Hn Hp. destruct (i_h nw s I h k Hn) as [K1 [K2 _]].
  assert (R : h_reg k = false).
  { destruct (h_unary k) eqn:U; [apply (K1 eq_refl) | rewrite (K2 eq_refl); unfold pc_dead; now rewrite Hp]. }
  split; [assumption|]. split; [unfold hs_alive, h_alive; rewrite Hp; apply andb_false_r|]. split; [|split].
  - intros w Hw. destruct (i_wk_run nw s I w h Hw) as [k0 [H1 [_ H3]]]. congruence.
  - intros f E. pose proof (i_rd nw s I) as Hrd. rewrite E in Hrd. destruct Hrd as [k0 [H1 [H2 _]]]. congruence.
  - intros g Hg. destruct (find_reg_some _ _ _ _ Hg) as [_ [kg [G1 [G2 _]]]]. rewrite Nat.sub_0_r in G1.
    split; [intros ->; congruence|]. exists kg. split; [assumption|]. now rewrite <- (reg_alive nw s g kg I G1).
Qed.

(* between the hand-over of the trailer and that state lies one step, unregisterStream, which needs the registry lock
   only: whenever the read loop does not hold it the step is enabled, and it ends the goroutine and deletes the entry *)
Theorem srv_release_enabled nw s h k :
  inv nw s -> nth_error (hs s) h = Some k -> h_pc k = HUnreg -> mu_free s = true ->
  exists s', r_h_unreg h s = Some s'
    /\ nth_error (hs s') h = Some (hunregister (hset_pc k HDead))
    /\ length (hs s') = length (hs s).
Proof.
  intros I Hn Hp Hmu. assert (Hl := nth_error_lt _ _ _ Hn).
  destruct (unreg_self nw s h k I Hn Hp) as [Ef _].
  unfold r_h_unreg. rewrite Hn, Hp, Hmu. unfold set_h at 1 2 3. cbn [hs set_hs]. rewrite Ef.
  rewrite nth_upd_same by assumption. eexists. split; [reflexivity|]. sproj. rewrite upd_upd.
  split; [now apply nth_upd_same | apply upd_length].
Qed.

(* (Q) per handler, without "every handler has returned": wherever the connection is at rest, a stream handler that has
   returned is gone - provided the transport does not block writes (or the connection is over) and the read loop is not
   parked, holding the registry lock, on ANOTHER stream whose handler does not drain its queue (needed:
   C14_server_release_refuted) *)
Theorem srv_released_Q nw s h k :
  inv nw s -> quiescent s = true -> nth_error (hs s) h = Some k -> h_returned k = true ->
  wblock s = false \/ hctx_done s = true ->
  (forall g f, rd s = RdFwd g f -> g = h) ->
  h_pc k = HDead.
Proof.
  intros I Q Hn Hr Hb Hfw. assert (Hl := nth_error_lt _ _ _ Hn).
  destruct (i_h nw s I h k Hn) as [K1 [K2 [K3 K4]]].
  destruct (hctx_done s) eqn:Hc.
  - assert (Hx : rd_exited s = true).
    { unfold rd_exited. destruct (rd s) eqn:Erd; auto; exfalso.
      - pose proof (q_fixed s RRdRead Q Logic.I) as H1. simpl in H1. unfold r_rd_read in H1. rewrite Erd, Hc in H1.
        destruct (inbox s); [destruct (inbox_failed s); discriminate | destruct (dispatch f); discriminate].
      - pose proof (q_fixed s RRdOfferCtx Q Logic.I) as H1. simpl in H1. unfold r_rd_offer_ctx in H1.
        rewrite Erd, Hc in H1. discriminate.
      - pose proof (q_fixed s RRdFwdHctx Q Logic.I) as H1. simpl in H1. unfold r_rd_fwd_hctx in H1.
        rewrite Erd, Hc in H1. discriminate.
      - pose proof (q_fixed s RRdRstCtx Q Logic.I) as H1. simpl in H1. unfold r_rd_rst_ctx in H1.
        rewrite Erd, Hc in H1. discriminate. }
    destruct (exited_hctx nw s I Hx) as [_ Hcc].
    assert (Hd : hdone s k = true) by (unfold hdone; rewrite Hcc; apply orb_true_r).
    assert (Hmu : mu_free s = true) by (unfold mu_free; unfold rd_exited in Hx; destruct (rd s); auto; discriminate).
    exact (q_handler_dead nw s h k I Q Hn Hr Hmu (or_intror Hd)).
  - destruct Hb as [Hb | ?]; [|discriminate].
    destruct (q_writer nw s I Q (or_introl Hb)) as [[_ Hw] | [Hc' _]]; [|congruence].
    destruct (mu_free s) eqn:Hmu; [exact (q_handler_dead nw s h k I Q Hn Hr Hmu (or_introl Hw))|].
    exfalso. unfold mu_free in Hmu. destruct (rd s) eqn:Erd; try discriminate.
    + assert (h0 = h) by (eapply Hfw; reflexivity). subst h0.
      unfold h_returned in Hr. destruct (h_pc k) eqn:Hp; try discriminate.
      * destruct k0; try discriminate.
        pose proof (q_h s h r_h_send Q Hl ltac:(simpl; tauto)) as H1. unfold r_h_send in H1.
        rewrite Hn, Hw, Hp in H1. discriminate.
      * pose proof (q_fixed s RRdFwdGone Q Logic.I) as H1. simpl in H1. unfold r_rd_fwd_gone in H1.
        rewrite Erd, Hn in H1. unfold hdone in H1. rewrite (K3 eq_refl) in H1. discriminate.
      * pose proof (i_rd nw s I) as Hrd. rewrite Erd in Hrd. destruct Hrd as [k0 [H1 [H2 _]]].
        assert (k0 = k) by congruence. subst k0.
        rewrite (reg_alive nw s h k I Hn) in H2. unfold hs_alive, h_alive in H2. rewrite Hp, andb_false_r in H2. discriminate.
    + pose proof (q_fixed s RRdRst Q Logic.I) as H1. simpl in H1. unfold r_rd_rst in H1.
      rewrite Erd, Hw in H1. destruct (has_hdr f); discriminate.
Qed.

(* ---------- bounded: every per-connection collection, in every reachable state ---------- *)
Definition live_streams (s : state) : nat := length (filter hs_alive (hs s)).
(* envelopes sitting in the queues of registered streams *)
Definition queued_frames (s : state) : nat :=
  length (filter (fun k => h_reg k && match h_q k with Some _ => true | None => false end) (hs s)).
(* goroutines of the connection: the read loop (= Serve's caller, until it returns), the writer, the workers, one per live stream handler *)
Definition goroutines (s : state) : nat :=
  (if serve_returned s then 0 else 1) + (if wr_alive s then 1 else 0) + length (filter wk_alive (wk s)) + live_streams s.
(* envelopes in the hands of the read loop, the writer and the workers (the channels are unbuffered) *)
Definition in_hands (s : state) : nat :=
  (match rd s with RdOffer _ | RdFwd _ _ | RdRst _ => 1 | _ => 0 end) + (match wr s with WrWrite _ => 1 | _ => 0 end)
  + length (filter (fun p => match p with WkHand _ => true | _ => false end) (wk s)).

Lemma filter_and_le {A} (p q : A -> bool) l : length (filter (fun x => p x && q x) l) <= length (filter p l).
Proof. induction l as [|x l IH]; simpl; [lia|]. destruct (p x), (q x); simpl; lia. Qed.
Lemma filter_le {A} (p : A -> bool) l : length (filter p l) <= length l.
Proof. induction l as [|x l IH]; simpl; [lia|]. destruct (p x); simpl; lia. Qed.

Theorem srv_collections_bounded nw s : inv nw s ->
  registry_size s = live_streams s
  /\ queued_frames s <= live_streams s
  /\ goroutines s <= live_streams s + nw + 2
  /\ in_hands s <= nw + 2.
Proof.
  intros I. pose proof (srv_registry_bound nw s I) as R. fold (live_streams s) in R.
  split; [assumption|]. split; [|split].
  - rewrite <- R. unfold queued_frames, registry_size. apply filter_and_le.
  - unfold goroutines. pose proof (filter_le wk_alive (wk s)) as L. rewrite (i_wk nw s I) in L.
    destruct (serve_returned s), (wr_alive s); lia.
  - unfold in_hands. pose proof (filter_le (fun p => match p with WkHand _ => true | _ => false end) (wk s)) as L.
    rewrite (i_wk nw s I) in L. destruct (rd s), (wr s); lia.
Qed.

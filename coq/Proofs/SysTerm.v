(* (T) for the product Model/Sys.v, closed system: internal rules of both components, the two wire transfers and
   returns of handlers. One weighted sum decreases with every such step:
     mu (client, Proofs/ClientTerm.v) + 201 * wcap (client: envelopes its calls can still write, Proofs/ClientWcap.v)
     + 10 * measure (server, Proofs/ServerTerm.v) + 201 per envelope in flight to the server + 9 per envelope in flight
     to the client.
   Constants: a transfer to the server adds one unread envelope there (20 * 10 < 201), a transfer to the client one
   unread envelope there (8 < 9); a server rule writes at most one envelope (9 < 10) and lowers its measure; a client
   rule that writes consumes one unit of wcap (201 <= 201) and lowers mu. *)
From Coq Require Import List ZArith Bool Lia Arith.
Import ListNotations.
From Goat Require Import Model.Client Model.Server Proofs.ClientBase Proofs.ServerProofs Model.Sys Proofs.SysLog Proofs.SysProofs.
From Goat Require Proofs.ClientTerm Proofs.ServerInv Proofs.ServerLive Proofs.ServerTerm Proofs.ServerClosed.
From Goat Require Proofs.ClientWcap Proofs.ServerWrites.
Local Open Scope nat_scope.

Definition sys_measure (s : Sys.state) : nat :=
  ClientTerm.mu (cl s) + 201 * ClientWcap.wcap (cl s) + 10 * ServerTerm.measure (sv s)
  + 201 * length (c2s s) + 9 * length (s2c s).

(* the labels of the closed system *)
Definition sys_closed_at (s : Sys.state) (l : Sys.label) : bool :=
  match l with
  | LC (Client.LInt _) => true
  | LC (Client.LExt _) => false
  | LS x => ServerClosed.closed_at (sv s) x
  | LXferC2S | LXferS2C => true
  end.

Fixpoint sys_crun (pol : policy) (s : Sys.state) (ls : list Sys.label) : option Sys.state :=
  match ls with
  | [] => Some s
  | l :: rest => if sys_closed_at s l then match Sys.lstep pol s l with Some s' => sys_crun pol s' rest | None => None end else None
  end.

Lemma sys_crun_lrun pol s ls s' : sys_crun pol s ls = Some s' -> Sys.lrun pol s ls = Some s'.
Proof.
  revert s. induction ls as [|l ls IH]; intros s H; simpl in *; [assumption|].
  destruct (sys_closed_at s l); [|discriminate]. destruct (Sys.lstep pol s l); [auto | discriminate].
Qed.

Lemma sys_lrun_app pol s a b : Sys.lrun pol s (a ++ b) = match Sys.lrun pol s a with Some s1 => Sys.lrun pol s1 b | None => None end.
Proof. revert s. induction a as [|l a IH]; intros s; simpl; [reflexivity|]. destruct (Sys.lstep pol s l); [apply IH | reflexivity]. Qed.

(* closed labels are fault-free and cancel nothing *)
Lemma sys_crun_fault_free pol s ls s' : sys_crun pol s ls = Some s' -> fault_free ls = true /\ no_cancel ls = true.
Proof.
  revert s. induction ls as [|l ls IH]; intros s H; [split; reflexivity|]. cbn [sys_crun] in H.
  destruct (sys_closed_at s l) eqn:C; [|discriminate]. destruct (Sys.lstep pol s l) as [s1|]; [|discriminate].
  destruct (IH s1 H) as [F N]. unfold fault_free, no_cancel in *. simpl. rewrite F, N, !andb_true_r.
  destruct l as [x|x| |]; simpl in *; try (split; reflexivity).
  - destruct x; [discriminate | split; reflexivity].
  - destruct x as [a|n]; [|split; reflexivity]. destruct a; try discriminate. split; reflexivity.
Qed.

(* ---------- every closed step decreases the measure ---------- *)
Lemma server_reach pol ls s : Sys.lrun pol Sys.init ls = Some s -> exists ls', Server.lrun (init_n nworkers) ls' = Some (sv s).
Proof. intros H. exact (server_reachable pol ls s H). Qed.

Lemma sys_closed_step pol ls s l s' :
  Sys.lrun pol Sys.init ls = Some s -> sys_closed_at s l = true -> Sys.lstep pol s l = Some s' ->
  sys_measure s' < sys_measure s.
Proof.
  intros R C H. destruct l as [x|x| |]; simpl in H, C.
  - (* client internal rule *)
    destruct x as [a|n]; [discriminate|]. cbn [client_label_ok] in H.
    destruct (Client.lstep (cl s) (Client.LInt n)) as [c'|] eqn:E; [|discriminate]. inversion H; subst s'; clear H.
    cbn [Client.lstep] in E. destruct (nth_error (Client.rules (cl s)) n) as [r|] eqn:En; [|discriminate].
    apply nth_error_In in En.
    pose proof (ClientTerm.mu_step _ _ _ En E) as Hmu.
    destruct (ClientWcap.wstep_rule _ _ _ En E) as [evs [El Hw]].
    unfold sys_measure; cbn [cl sv c2s s2c]. unfold new_cwrites. rewrite El, skipn_app_len, app_length, map_length. lia.
  - (* server: internal rule or handler return *)
    destruct (server_label_ok x && pol_ok pol (sv s) x) eqn:Ok; [|discriminate].
    destruct (Server.lstep (sv s) x) as [v'|] eqn:E; [|discriminate]. inversion H; subst s'; clear H.
    destruct (server_reach pol ls s R) as [ls' R'].
    pose proof (ServerClosed.closed_step_measure nworkers ls' (sv s) x v' R' C E) as Hm.
    assert (Hw : length (new_swrites (sv s) v') <= 1).
    { destruct x as [a|n].
      - destruct a; try discriminate.
        change (Server.lstep (sv s) (Server.LExt (AHandlerStep h o))) with (Some (Server.ext (sv s) (AHandlerStep h o))) in E.
        injection E as <-.
        pose proof (ServerWrites.srv_hstep_writes (sv s) (AHandlerStep h o) Logic.I) as W. cbn [Server.ext] in W. rewrite W. simpl. lia.
      - cbn [Server.lstep] in E. destruct (nth_error (Server.rules (sv s)) n) as [r|] eqn:En; [|discriminate].
        apply nth_error_In in En. apply rules_cases in En. destruct En as [i ->].
        exact (ServerWrites.srv_int_writes (sv s) i v' E). }
    unfold sys_measure; cbn [cl sv c2s s2c]. rewrite app_length, map_length. lia.
  - (* transfer to the server *)
    destruct (c2s s) as [|f rest] eqn:E; [discriminate|]. inversion H; subst s'; clear H.
    unfold sys_measure; cbn [cl sv c2s s2c]. rewrite E.
    assert (Hm : ServerTerm.measure (Server.ext (sv s) (Server.ADeliver f)) = ServerTerm.measure (sv s) + 20).
    { unfold ServerTerm.measure. simpl. rewrite app_length. simpl. lia. }
    cbn [Server.ext] in Hm. rewrite Hm. simpl length. lia.
  - (* transfer to the client *)
    destruct (s2c s) as [|e rest] eqn:E; [discriminate|]. inversion H; subst s'; clear H.
    unfold sys_measure; cbn [cl sv c2s s2c]. rewrite E.
    assert (Hm : ClientTerm.mu (Client.ext (cl s) (Client.ADeliver e)) = ClientTerm.mu (cl s) + 8).
    { unfold ClientTerm.mu. simpl. rewrite app_length. simpl. lia. }
    assert (Hc : ClientWcap.wcap (Client.ext (cl s) (Client.ADeliver e)) = ClientWcap.wcap (cl s)) by reflexivity.
    cbn [Client.ext] in Hm, Hc. rewrite Hm, Hc. simpl length. lia.
Qed.

(* (T): every closed continuation of a reachable state of the product is at most [sys_measure s] steps long *)
Theorem Sys_closed_terminates_l pol ls s : Sys.lrun pol Sys.init ls = Some s ->
  forall ls' s', sys_crun pol s ls' = Some s' -> length ls' + sys_measure s' <= sys_measure s.
Proof.
  intros H ls'. revert ls s H. induction ls' as [|l ls' IH]; intros ls s H s' Hr.
  - simpl in Hr. inversion Hr; subst. simpl. lia.
  - cbn [sys_crun] in Hr. destruct (sys_closed_at s l) eqn:Hc; [|discriminate].
    destruct (Sys.lstep pol s l) as [s1|] eqn:E; [|discriminate].
    assert (H1 : Sys.lrun pol Sys.init (ls ++ [l]) = Some s1) by (rewrite sys_lrun_app, H; simpl; now rewrite E).
    specialize (IH (ls ++ [l]) s1 H1 s' Hr).
    pose proof (sys_closed_step pol ls s l s1 H Hc E). simpl length. lia.
Qed.

(* ---------- a closed run that cannot be extended ends in a quiescent state of the product ---------- *)
(* a policy that lets every handler in its body return (somehow) *)
Definition pol_returns (pol : policy) : Prop :=
  forall v h k, nth_error (hs v) h = Some k -> h_pc k = HGate -> exists rep e, pol v h (HReturn rep e) = true.

Lemma pol_any_returns : pol_returns pol_any.
Proof. intros v h k _ _. exists None, HNil. reflexivity. Qed.

Lemma pol_c01_returns f : pol_returns (pol_c01 f).
Proof.
  intros v h k Hn _. unfold pol_c01. rewrite Hn. destruct (h_unary k).
  - exists (Some (f (body_tok (h_req k)))), HNil. apply Z.eqb_refl.
  - exists None, HNil. reflexivity.
Qed.

Lemma not_quiescent_closed_step pol s : pol_returns pol -> Sys.quiescent s = false ->
  exists l s', sys_closed_at s l = true /\ Sys.lstep pol s l = Some s'.
Proof.
  intros P Q. unfold Sys.quiescent in Q.
  destruct (Client.quiescent (cl s)) eqn:Qc.
  2:{ destruct (ClientTerm.not_quiescent_step _ Qc) as [n [c' Hs]]. exists (LC (Client.LInt n)). eexists. split; [reflexivity|].
      cbn [Sys.lstep client_label_ok]. rewrite Hs. reflexivity. }
  destruct (Server.quiescent (sv s)) eqn:Qs.
  2:{ unfold Server.quiescent in Qs. destruct (first_enabled (Server.rules (sv s)) (sv s)) as [v'|] eqn:E; [|discriminate].
      apply ServerClosed.first_enabled_some in E. destruct E as [r [Hin Hr]]. apply In_nth_error in Hin. destruct Hin as [n Hn].
      exists (LS (Server.LInt n)). eexists. split; [reflexivity|]. cbn [Sys.lstep server_label_ok pol_ok andb Server.lstep]. rewrite Hn, Hr. reflexivity. }
  destruct (c2s s) as [|f rest] eqn:E1.
  2:{ exists LXferC2S. eexists. split; [reflexivity|]. cbn [Sys.lstep]. rewrite E1. reflexivity. }
  destruct (s2c s) as [|e rest] eqn:E2.
  2:{ exists LXferS2C. eexists. split; [reflexivity|]. cbn [Sys.lstep]. rewrite E2. reflexivity. }
  simpl in Q. apply negb_false_iff in Q. apply existsb_exists in Q. destruct Q as [k [Hin Hg]].
  apply In_nth_error in Hin. destruct Hin as [h Hn].
  assert (Hp : h_pc k = HGate) by (unfold Sys.at_gate in Hg; destruct (h_pc k); try discriminate; reflexivity).
  destruct (P (sv s) h k Hn Hp) as [rep [e Hpol]].
  exists (LS (Server.LExt (AHandlerStep h (HReturn rep e)))). eexists. split.
  - simpl. unfold ServerClosed.at_gate, ServerClosed.is_gate. now rewrite Hn, Hp.
  - cbn [Sys.lstep server_label_ok pol_ok andb Server.lstep]. rewrite Hpol. reflexivity.
Qed.

Theorem Sys_closed_reaches_final_l pol ls s : pol_returns pol -> Sys.lrun pol Sys.init ls = Some s ->
  exists ls' s', sys_crun pol s ls' = Some s' /\ Sys.quiescent s' = true.
Proof.
  intros P.
  assert (G : forall n ls s, Sys.lrun pol Sys.init ls = Some s -> sys_measure s < n ->
                             exists ls' s', sys_crun pol s ls' = Some s' /\ Sys.quiescent s' = true).
  { induction n as [|n IH]; intros ls0 s0 H Hm; [lia|].
    destruct (Sys.quiescent s0) eqn:Q; [exists [], s0; auto|].
    destruct (not_quiescent_closed_step pol s0 P Q) as [l [s1 [C E]]].
    assert (H1 : Sys.lrun pol Sys.init (ls0 ++ [l]) = Some s1) by (rewrite sys_lrun_app, H; simpl; now rewrite E).
    pose proof (sys_closed_step pol ls0 s0 l s1 H C E) as Hd.
    destruct (IH _ _ H1 ltac:(lia)) as [ls' [s' [R F]]]. exists (l :: ls'), s'. split; [|assumption].
    cbn [sys_crun]. rewrite C, E. exact R. }
  intros H. apply (G (S (sys_measure s)) ls s H). lia.
Qed.

(* "no closed step is enabled" is exactly [Sys.quiescent] *)
Lemma final_iff_quiescent pol s : pol_returns pol ->
  (Sys.quiescent s = true <-> forall l, sys_closed_at s l = true -> Sys.lstep pol s l = None).
Proof.
  intros P. split.
  - intros Q l C. unfold Sys.quiescent in Q.
    apply andb_true_iff in Q. destruct Q as [Q Q5]. apply andb_true_iff in Q. destruct Q as [Q Q4].
    apply andb_true_iff in Q. destruct Q as [Q Q3]. apply andb_true_iff in Q. destruct Q as [Q1 Q2].
    destruct l as [x|x| |]; cbn [sys_closed_at ServerClosed.closed_at] in C; cbn [Sys.lstep].
    + destruct x as [a|n]; [discriminate|]. cbn [client_label_ok Client.lstep].
      destruct (nth_error (Client.rules (cl s)) n) as [r|] eqn:En; [|reflexivity].
      rewrite (ClientBase.quiescent_none (cl s) r Q1 (nth_error_In _ _ En)). reflexivity.
    + destruct x as [a|n].
      * destruct a; try discriminate. destruct o; try discriminate. exfalso.
        unfold ServerClosed.closed_at, ServerClosed.at_gate in C. destruct (nth_error (hs (sv s)) h) as [k|] eqn:Hn; [|discriminate].
        apply negb_true_iff in Q5. assert (X : existsb Sys.at_gate (hs (sv s)) = true).
        { apply existsb_exists. exists k. split; [eapply nth_error_In; eassumption|]. unfold Sys.at_gate. unfold ServerClosed.is_gate in C. exact C. }
        congruence.
      * cbn [server_label_ok pol_ok andb Server.lstep].
        destruct (nth_error (Server.rules (sv s)) n) as [r|] eqn:En; [|reflexivity].
        rewrite (ServerLive.quiescent_none (sv s) Q2 r (nth_error_In _ _ En)). reflexivity.
    + destruct (c2s s); [reflexivity | discriminate].
    + destruct (s2c s); [reflexivity | discriminate].
  - intros F. destruct (Sys.quiescent s) eqn:Q; [reflexivity|]. exfalso.
    destruct (not_quiescent_closed_step pol s P Q) as [l [s' [C E]]]. rewrite (F l C) in E. discriminate.
Qed.

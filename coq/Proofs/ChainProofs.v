From Coq Require Import List Arith Lia.
Import ListNotations.
From Goat Require Import Model.Chain.

Section ChainProofs.
  Context {A B : Type}.
  Notation interceptor := (interceptor A B).
  Notation handler := (handler A B).

  Lemma get_chain_suffix (pre : list interceptor) (i : interceptor) (post : list interceptor) (h : handler) :
    get_chain (length post) (pre ++ i :: post) (length pre) h = nest post h.
  Proof.
    revert pre i. induction post as [|j post IH]; intros pre i; [reflexivity|].
    cbn [length get_chain nest fold_right].
    replace (length pre + 1) with (length (pre ++ [i])) by (rewrite app_length; cbn; lia).
    replace (pre ++ i :: j :: post) with ((pre ++ [i]) ++ j :: post) by (rewrite <- app_assoc; reflexivity).
    rewrite nth_error_app2 by lia. rewrite Nat.sub_diag. cbn [nth_error].
    rewrite IH. reflexivity.
  Qed.

  (* For every non-empty interceptor list and every final handler, the chain
     built by the index recursion is the right-nested composition in
     registration order (equal as functions, no extensionality needed). *)
  Theorem chain_is_nest (i0 : interceptor) (rest : list interceptor) (c : interceptor) :
    chain (i0 :: rest) = Some c -> forall h : handler, c h = nest (i0 :: rest) h.
  Proof.
    unfold chain. intros H h. injection H as <-.
    cbn [length]. rewrite Nat.sub_0_r.
    pose proof (get_chain_suffix [] i0 rest h) as E. cbn [app length] in E.
    rewrite E. reflexivity.
  Qed.

  Theorem chain_empty : chain (@nil interceptor) = None.
  Proof. reflexivity. Qed.
End ChainProofs.

(* Effects: handlers return a result together with an event log. A logging
   pass-through interceptor [tag] records pre/post events around the next stage. *)
Section Events.
  Context {Req Rep : Type}.
  Inductive event := Pre (tag : nat) | Post (tag : nat) | Handler.
  Definition eh := handler Req (Rep * list event).

  Definition logging (tag : nat) : interceptor Req (Rep * list event) :=
    fun k req => let (r, l) := k req in (r, Pre tag :: l ++ [Post tag]).

  Definition final_of (f : Req -> Rep) : eh := fun req => (f req, [Handler]).

  Lemma nest_logging tags f req :
    nest (map logging tags) (final_of f) req =
    (f req, map Pre tags ++ [Handler] ++ map Post (rev tags)).
  Proof.
    induction tags as [|t tags IH]; [reflexivity|].
    cbn [map nest fold_right]. unfold logging at 1.
    change (fold_right (fun i k => i k) (final_of f) (map logging tags))
      with (nest (map logging tags) (final_of f)).
    rewrite IH. cbn [rev]. rewrite map_app. cbn [map app].
    f_equal. f_equal. rewrite <- !app_assoc. reflexivity.
  Qed.

  (* pre 1 .. pre n, handler, post n .. post 1: every stage exactly once *)
  Theorem chain_event_order t0 tags c f req :
    chain (map logging (t0 :: tags)) = Some c ->
    c (final_of f) req = (f req, map Pre (t0 :: tags) ++ [Handler] ++ map Post (rev (t0 :: tags))).
  Proof.
    intro H. cbn [map] in H. rewrite (chain_is_nest _ _ _ H).
    change (logging t0 :: map logging tags) with (map logging (t0 :: tags)).
    apply nest_logging.
  Qed.
End Events.

(* ---- stream twin ---- *)
Section SChainProofs.
  Context {Srv SS E : Type}.
  Notation sinterceptor := (sinterceptor Srv SS E).
  Notation shandler := (shandler Srv SS E).

  Lemma get_schain_suffix (pre : list sinterceptor) (i : sinterceptor) (post : list sinterceptor) (h : shandler) :
    get_schain (length post) (pre ++ i :: post) (length pre) h = snest post h.
  Proof.
    revert pre i. induction post as [|j post IH]; intros pre i; [reflexivity|].
    cbn [length get_schain snest fold_right].
    replace (length pre + 1) with (length (pre ++ [i])) by (rewrite app_length; cbn; lia).
    replace (pre ++ i :: j :: post) with ((pre ++ [i]) ++ j :: post) by (rewrite <- app_assoc; reflexivity).
    rewrite nth_error_app2 by lia. rewrite Nat.sub_diag. cbn [nth_error].
    rewrite IH. reflexivity.
  Qed.

  Theorem schain_is_nest (i0 : sinterceptor) (rest : list sinterceptor) (c : sinterceptor) :
    schain (i0 :: rest) = Some c -> forall (srv : Srv) (ss : SS) (h : shandler), c srv ss h = snest (i0 :: rest) h srv ss.
  Proof.
    unfold schain. intros H srv ss h. injection H as <-.
    cbn [length]. rewrite Nat.sub_0_r.
    pose proof (get_schain_suffix [] i0 rest h) as E0. cbn [app length] in E0.
    rewrite E0. reflexivity.
  Qed.

  Theorem schain_empty : schain (@nil sinterceptor) = None.
  Proof. reflexivity. Qed.
End SChainProofs.

(* stream twin of the event order: a logging stream interceptor *)
Section SEvents.
  Context {Srv SS : Type}.
  Definition slogging (tag : nat) : sinterceptor Srv SS (nat * list event) :=
    fun srv ss k => let (e, l) := k srv ss in (e, Pre tag :: l ++ [Post tag]).
  Definition sfinal_of (f : Srv -> SS -> nat) : shandler Srv SS (nat * list event) :=
    fun srv ss => (f srv ss, [Handler]).

  Lemma snest_logging tags f srv ss :
    snest (map slogging tags) (sfinal_of f) srv ss =
    (f srv ss, map Pre tags ++ [Handler] ++ map Post (rev tags)).
  Proof.
    induction tags as [|t tags IH]; [reflexivity|].
    cbn [map snest fold_right]. unfold slogging at 1.
    change (fold_right (fun i k => fun srv ss => i srv ss k) (sfinal_of f) (map slogging tags))
      with (snest (map slogging tags) (sfinal_of f)).
    rewrite IH. cbn [rev]. rewrite map_app. cbn [map app].
    f_equal. f_equal. rewrite <- !app_assoc. reflexivity.
  Qed.

  Theorem schain_event_order t0 tags c f srv ss :
    schain (map slogging (t0 :: tags)) = Some c ->
    c srv ss (sfinal_of f) = (f srv ss, map Pre (t0 :: tags) ++ [Handler] ++ map Post (rev (t0 :: tags))).
  Proof.
    intro H. cbn [map] in H. rewrite (schain_is_nest _ _ _ H).
    change (slogging t0 :: map slogging tags) with (map slogging (t0 :: tags)).
    apply snest_logging.
  Qed.
End SEvents.

(* ---- installation and call sites ---- *)
Section SiteProofs.
  Context {A B : Type}.
  Notation interceptor := (interceptor A B).
  Notation handler := (handler A B).

  (* the last option that touches the field decides *)
  Lemma installed_app_single (opts : list (sopt A B)) (i : interceptor) :
    installed (opts ++ [OSingle i]) = Some (Some i).
  Proof. unfold installed. rewrite fold_left_app. reflexivity. Qed.

  Lemma installed_app_chain (opts : list (sopt A B)) (is : list interceptor) :
    installed (opts ++ [OChain is]) = Some (chain is).
  Proof. unfold installed. rewrite fold_left_app. reflexivity. Qed.

  Lemma installed_app_other (opts : list (sopt A B)) :
    installed (opts ++ [OOther]) = installed opts.
  Proof. unfold installed. rewrite fold_left_app. reflexivity. Qed.

  Lemma fold_other (opts : list (sopt A B)) cur :
    Forall (fun o => o = OOther) opts -> fold_left apply_opt opts cur = cur.
  Proof.
    revert cur. induction opts as [|o opts IH]; intros cur HF; [reflexivity|].
    inversion HF as [|? ? Ho HF']; subst. cbn. apply IH. exact HF'.
  Qed.

  (* no interceptor option: the handler is called directly, exactly once *)
  Theorem site_none (opts : list (sopt A B)) (h : handler) (a : A) :
    Forall (fun o => o = OOther) opts -> site (installed opts) h a = Some (h a).
  Proof. intro HF. unfold installed. rewrite fold_other by exact HF. reflexivity. Qed.

  (* single interceptor, then options that do not touch the field *)
  Theorem site_single (pre post : list (sopt A B)) (i : interceptor) (h : handler) (a : A) :
    Forall (fun o => o = OOther) post ->
    site (installed (pre ++ OSingle i :: post)) h a = Some (i h a).
  Proof.
    intro HF. unfold installed. rewrite fold_left_app. cbn [fold_left apply_opt].
    rewrite fold_other by exact HF. reflexivity.
  Qed.

  (* chain: the RPC runs the nesting, in registration order, around the handler *)
  Theorem site_chain (pre post : list (sopt A B)) (i0 : interceptor) (rest : list interceptor) (h : handler) (a : A) :
    Forall (fun o => o = OOther) post ->
    site (installed (pre ++ OChain (i0 :: rest) :: post)) h a = Some (nest (i0 :: rest) h a).
  Proof.
    intro HF. unfold installed. rewrite fold_left_app. cbn [fold_left apply_opt].
    rewrite fold_other by exact HF.
    destruct (chain (i0 :: rest)) as [c|] eqn:Ec; [|discriminate Ec].
    cbn [site]. rewrite (chain_is_nest _ _ _ Ec). reflexivity.
  Qed.

  (* what every stage changes is what the next stage receives, and what it
     makes of the result is what the previous stage gets back *)
  Definition pre_all (ps : list ((A -> A) * (B -> B))) (a : A) : A := fold_left (fun x p => fst p x) ps a.
  Definition post_all (ps : list ((A -> A) * (B -> B))) (b : B) : B := fold_right (fun p y => snd p y) b ps.

  Lemma nest_transform (ps : list ((A -> A) * (B -> B))) (h : handler) (a : A) :
    nest (map (fun p => transform (fst p) (snd p)) ps) h a = post_all ps (h (pre_all ps a)).
  Proof.
    revert a. induction ps as [|p ps IH]; intro a; [reflexivity|].
    cbn [map nest fold_right]. unfold transform at 1.
    change (fold_right (fun i k => i k) h (map (fun p0 => transform (fst p0) (snd p0)) ps))
      with (nest (map (fun p0 => transform (fst p0) (snd p0)) ps) h).
    rewrite IH. reflexivity.
  Qed.

  Theorem chain_transform p0 (ps : list ((A -> A) * (B -> B))) c (h : handler) (a : A) :
    chain (map (fun p => transform (fst p) (snd p)) (p0 :: ps)) = Some c ->
    c h a = post_all (p0 :: ps) (h (pre_all (p0 :: ps) a)).
  Proof.
    intro H. cbn [map] in H. rewrite (chain_is_nest _ _ _ H).
    change (transform (fst p0) (snd p0) :: map (fun p => transform (fst p) (snd p)) ps)
      with (map (fun p => transform (fst p) (snd p)) (p0 :: ps)).
    apply nest_transform.
  Qed.

  (* client side: zero or one interceptor around invoke / newStream *)
  Theorem client_site_none (invoke : handler) (a : A) : client_site None invoke a = invoke a.
  Proof. reflexivity. Qed.
  Theorem client_site_some (i : interceptor) (invoke : handler) (a : A) : client_site (Some i) invoke a = i invoke a.
  Proof. reflexivity. Qed.
End SiteProofs.

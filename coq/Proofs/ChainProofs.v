From Coq Require Import List Arith Lia.
Import ListNotations.
From Goat Require Import Model.Chain.

Section ChainProofs.
  Context {A B : Type}.
  Notation interceptor := (interceptor A B).
  Notation handler := (handler A B).

  Lemma get_chain_suffix (pre : list interceptor) (i : interceptor) (post : list interceptor) (h : handler) :
    get_chain (length post) (pre ++ i :: post) (length pre) h = nest post h.
  Proof.
    revert pre i. induction post as [|j post IH]; intros pre i; [reflexivity|].
    cbn [length get_chain nest fold_right].
    replace (length pre + 1) with (length (pre ++ [i])) by (rewrite app_length; cbn; lia).
    replace (pre ++ i :: j :: post) with ((pre ++ [i]) ++ j :: post) by (rewrite <- app_assoc; reflexivity).
    rewrite nth_error_app2 by lia. rewrite Nat.sub_diag. cbn [nth_error].
    rewrite IH. reflexivity.
  Qed.

  (* For every non-empty interceptor list and every final handler, the chain
     built by the index recursion is the right-nested composition in
     registration order (equal as functions, no extensionality needed). *)
  Theorem chain_is_nest (i0 : interceptor) (rest : list interceptor) (c : interceptor) :
    chain (i0 :: rest) = Some c -> forall h : handler, c h = nest (i0 :: rest) h.
  Proof.
    unfold chain. intros H h. injection H as <-.
    cbn [length]. rewrite Nat.sub_0_r.
    pose proof (get_chain_suffix [] i0 rest h) as E. cbn [app length] in E.
    rewrite E. reflexivity.
  Qed.

  Theorem chain_empty : chain (@nil interceptor) = None.
  Proof. reflexivity. Qed.
End ChainProofs.

(* Effects: handlers return a result together with an event log. A logging
   pass-through interceptor [tag] records pre/post events around the next stage. *)
Section Events.
  Context {Req Rep : Type}.
  Inductive event := Pre (tag : nat) | Post (tag : nat) | Handler.
  Definition eh := handler Req (Rep * list event).

  Definition logging (tag : nat) : interceptor Req (Rep * list event) :=
    fun k req => let (r, l) := k req in (r, Pre tag :: l ++ [Post tag]).

  Definition final_of (f : Req -> Rep) : eh := fun req => (f req, [Handler]).

  Lemma nest_logging tags f req :
    nest (map logging tags) (final_of f) req =
    (f req, map Pre tags ++ [Handler] ++ map Post (rev tags)).
  Proof.
    induction tags as [|t tags IH]; [reflexivity|].
    cbn [map nest fold_right]. unfold logging at 1.
    change (fold_right (fun i k => i k) (final_of f) (map logging tags))
      with (nest (map logging tags) (final_of f)).
    rewrite IH. cbn [rev]. rewrite map_app. cbn [map app].
    f_equal. f_equal. rewrite <- !app_assoc. reflexivity.
  Qed.

  (* pre 1 .. pre n, handler, post n .. post 1: every stage exactly once *)
  Theorem chain_event_order t0 tags c f req :
    chain (map logging (t0 :: tags)) = Some c ->
    c (final_of f) req = (f req, map Pre (t0 :: tags) ++ [Handler] ++ map Post (rev (t0 :: tags))).
  Proof.
    intro H. cbn [map] in H. rewrite (chain_is_nest _ _ _ H).
    change (logging t0 :: map logging tags) with (map logging (t0 :: tags)).
    apply nest_logging.
  Qed.
End Events.

From Coq Require Import List ZArith Bool Lia.
Import ListNotations.
From Goat Require Import Model.Status.
Open Scope Z_scope.

Definition code_ok (c : Z) : Prop := 0 <= c < two32.

Lemma i32_roundtrip c : code_ok c -> of_i32 (to_i32 c) = c.
Proof.
  unfold code_ok, of_i32, to_i32, two31, two32. intros [H0 H1].
  destruct (c <? 2147483648) eqn:E1.
  - apply Z.ltb_lt in E1. destruct (c <? 0) eqn:E2; [apply Z.ltb_lt in E2; lia|reflexivity].
  - apply Z.ltb_ge in E1. destruct (c - 4294967296 <? 0) eqn:E2; [lia|apply Z.ltb_ge in E2; lia].
Qed.

Lemma i32_zero c : code_ok c -> (to_i32 c =? 0) = (c =? 0).
Proof.
  unfold code_ok, to_i32, two31, two32. intros [H0 H1].
  destruct (c <? 2147483648) eqn:E1; [reflexivity|].
  apply Z.ltb_ge in E1.
  destruct (c - 4294967296 =? 0) eqn:E2; [apply Z.eqb_eq in E2; lia|].
  symmetry. apply Z.eqb_neq. lia.
Qed.

Lemma of_i32_zero w : - two31 <= w < two31 -> (of_i32 w =? 0) = (w =? 0).
Proof.
  unfold of_i32, two31, two32. intros [H0 H1].
  destruct (w <? 0) eqn:E1; [|reflexivity].
  apply Z.ltb_lt in E1.
  destruct (w =? 0) eqn:E2; [apply Z.eqb_eq in E2; lia|].
  apply Z.eqb_neq. lia.
Qed.

Section StatusProofs.
  Context {M D P E : Type}.
  Notation status := (status M D).
  Notation wstatus := (wstatus M D).
  Notation fenv := (fenv M D P).

  Lemma wire_roundtrip (st : status) : code_ok (st_code st) -> of_wire (to_wire st) = st.
  Proof.
    intro H. destruct st as [c m d]. unfold of_wire, to_wire. cbn.
    rewrite (i32_roundtrip c H). reflexivity.
  Qed.

  Lemma of_wire_internal (m : M) (d : list D) : of_wire (mkWs cInternal m d) = mkSt cInternal m d.
  Proof. reflexivity. Qed.

  (* ---- the final envelope of a unary call, classified by the client ---- *)
  Theorem unary_roundtrip (from_error : E -> status * bool) (from_ctx : E -> status) (decodes : P -> bool)
          (h : option E) (reply : option P) :
    (forall e, code_ok (st_code (fst (from_error e)))) ->
    (forall e, code_ok (st_code (from_ctx e))) ->
    client_unary decodes (unary_final from_error from_ctx h reply) =
    match h with
    | None => match reply with
              | Some b => if decodes b then UOk b else UBadBody
              | None => UMalformed
              end
    | Some e => UErr (spec_unary from_error from_ctx e)
    end.
  Proof.
    intros Hfe Hfc. destruct h as [e|]; [|reflexivity].
    unfold unary_final, client_unary, unary_status, spec_unary. cbn [e_status e_body].
    pose proof (Hfe e) as H1. pose proof (Hfc e) as H2.
    destruct (from_error e) as [st ok]. cbn [fst] in H1.
    set (st' := if ok then st else from_ctx e).
    assert (Hst' : code_ok (st_code st')) by (subst st'; destruct ok; assumption).
    unfold force_nonok. cbn [to_wire ws_code ws_msg ws_det].
    rewrite (i32_zero _ Hst').
    destruct (st_code st' =? 0) eqn:Ez.
    - cbn [ws_code]. change (cInternal =? 0) with false. cbn [negb]. unfold cOK. rewrite Ez. reflexivity.
    - assert (Hn : (ws_code (to_wire st') =? 0) = false).
      { unfold to_wire. cbn [ws_code]. rewrite (i32_zero _ Hst'). exact Ez. }
      rewrite Hn. cbn [negb]. unfold cOK. rewrite Ez.
      rewrite (wire_roundtrip _ Hst'). reflexivity.
  Qed.

  (* ---- the trailer of a stream, classified by the client ---- *)
  Theorem stream_roundtrip (from_error : E -> status * bool) (m_ok m_reset : M) (h : option E) :
    (forall e, code_ok (st_code (fst (from_error e)))) ->
    client_stream_final m_reset (@stream_final M D P E from_error m_ok h) =
    Some (match h with
          | None => SEof
          | Some e => SErr (spec_stream from_error e)
          end).
  Proof.
    intro Hfe. unfold stream_final, client_stream_final. cbn [e_reset e_trailer e_status negb].
    destruct h as [e|]; [|reflexivity].
    unfold trailer_status, spec_stream, force_nonok.
    pose proof (Hfe e) as H1. destruct (from_error e) as [st ok]. cbn [fst] in *.
    destruct (st_code st =? cOK) eqn:Ez.
    - cbn. reflexivity.
    - assert (Hn : (ws_code (to_wire st) =? 0) = false).
      { unfold to_wire. cbn [ws_code]. rewrite (i32_zero _ H1). exact Ez. }
      rewrite Hn. rewrite (wire_roundtrip _ H1). reflexivity.
  Qed.

  (* the expected status is never OK *)
  Lemma force_nonok_nonok (st : status) : st_code (force_nonok st) <> cOK.
  Proof.
    unfold force_nonok. destruct (st_code st =? cOK) eqn:Ez.
    - cbn. unfold cInternal, cOK. lia.
    - apply Z.eqb_neq in Ez. exact Ez.
  Qed.

  Lemma force_nonok_id (st : status) : st_code st <> cOK -> force_nonok st = st.
  Proof. intro H. unfold force_nonok. apply Z.eqb_neq in H. rewrite H. reflexivity. Qed.

  Lemma force_nonok_fields (st : status) :
    st_msg (force_nonok st) = st_msg st /\ st_det (force_nonok st) = st_det st.
  Proof. unfold force_nonok. destruct (st_code st =? cOK); split; reflexivity. Qed.

  (* ---- no false success: unary ---- *)
  Theorem unary_success_only_if (decodes : P -> bool) (v : fenv) (b : P) :
    client_unary decodes v = UOk b ->
    e_body v = Some b /\ decodes b = true /\
    (e_status v = None \/ exists ws, e_status v = Some ws /\ ws_code ws = 0).
  Proof.
    unfold client_unary. intro H.
    destruct (e_status v) as [ws|] eqn:Es.
    - destruct (ws_code ws =? 0) eqn:Ez; cbn [negb] in H; [|discriminate H].
      destruct (e_body v) as [b'|]; [|discriminate H].
      destruct (decodes b') eqn:Ed; [|discriminate H].
      injection H as ->. repeat split; try assumption.
      right. exists ws. split; [reflexivity|]. apply Z.eqb_eq. exact Ez.
    - destruct (e_body v) as [b'|]; [|discriminate H].
      destruct (decodes b') eqn:Ed; [|discriminate H].
      injection H as ->. repeat split; try assumption. left. reflexivity.
  Qed.

  (* and conversely: exactly these envelopes are successes *)
  Theorem unary_success_if (decodes : P -> bool) (v : fenv) (b : P) :
    e_body v = Some b -> decodes b = true ->
    (e_status v = None \/ exists ws, e_status v = Some ws /\ ws_code ws = 0) ->
    client_unary decodes v = UOk b.
  Proof.
    intros Hb Hd [Hs|[ws [Hs Hz]]]; unfold client_unary; rewrite Hs, Hb.
    - rewrite Hd. reflexivity.
    - rewrite Hz. cbn. rewrite Hd. reflexivity.
  Qed.

  Theorem unary_ok_with_body (decodes : P -> bool) (m : M) (d : list D) (b : P) (tr rst : bool) :
    decodes b = true ->
    client_unary decodes (mkEnv (Some (mkWs 0 m d)) (Some b) tr rst) = UOk b.
  Proof. intro H. unfold client_unary. cbn. rewrite H. reflexivity. Qed.

  (* a non-OK status wins over a body; the caller's status is the wire status *)
  Theorem unary_status_wins (decodes : P -> bool) (ws : wstatus) (ob : option P) (tr rst : bool) :
    ws_code ws <> 0 ->
    client_unary decodes (mkEnv (Some ws) ob tr rst) = UErr (of_wire ws).
  Proof.
    intro H. unfold client_unary. cbn [e_status]. apply Z.eqb_neq in H. rewrite H. reflexivity.
  Qed.

  (* unary replies: trailer and reset fields are not consulted *)
  Theorem unary_ignores_trailer_reset (decodes : P -> bool) (os : option wstatus) (ob : option P) (tr rst tr' rst' : bool) :
    client_unary decodes (mkEnv os ob tr rst) = client_unary decodes (mkEnv os ob tr' rst').
  Proof. reflexivity. Qed.

  (* the server's own reset envelope, received by a unary call, is an error *)
  Theorem unary_reset_env (decodes : P -> bool) : client_unary decodes (@reset_env M D P) = UMalformed.
  Proof. reflexivity. Qed.

  (* ---- no false success: stream ---- *)
  Theorem stream_eof_only_if (m_reset : M) (v : fenv) :
    client_stream_final m_reset v = Some SEof ->
    e_reset v = false /\ e_trailer v = true /\
    (e_status v = None \/ exists ws, e_status v = Some ws /\ ws_code ws = 0).
  Proof.
    unfold client_stream_final. intro H.
    destruct (e_reset v); [discriminate H|].
    destruct (e_trailer v); cbn [negb] in H; [|discriminate H].
    split; [reflexivity|]. split; [reflexivity|].
    destruct (e_status v) as [ws|]; [|left; reflexivity].
    destruct (ws_code ws =? 0) eqn:Ez; [|discriminate H].
    right. exists ws. split; [reflexivity|]. apply Z.eqb_eq. exact Ez.
  Qed.

  Theorem stream_eof_if (m_reset : M) (v : fenv) :
    e_reset v = false -> e_trailer v = true ->
    (e_status v = None \/ exists ws, e_status v = Some ws /\ ws_code ws = 0) ->
    client_stream_final m_reset v = Some SEof.
  Proof.
    intros Hr Ht Hs. unfold client_stream_final. rewrite Hr, Ht. cbn [negb].
    destruct Hs as [Hs|[ws [Hs Hz]]]; rewrite Hs; [reflexivity|]. rewrite Hz. reflexivity.
  Qed.

  (* any envelope with a reset (with or without trailer, status, body) ends the
     stream with Unavailable *)
  Theorem stream_reset (m_reset : M) (v : fenv) :
    e_reset v = true -> client_stream_final m_reset v = Some (SErr (mkSt cUnavailable m_reset [])).
  Proof. intro H. unfold client_stream_final. rewrite H. reflexivity. Qed.

  (* without reset and without trailer an envelope never ends the stream,
     whatever status it carries *)
  Theorem stream_no_trailer (m_reset : M) (os : option wstatus) (ob : option P) :
    client_stream_final m_reset (mkEnv os ob false false) = None.
  Proof. reflexivity. Qed.

  (* trailer with a non-OK status: that status, whatever else is there *)
  Theorem stream_trailer_status (m_reset : M) (ws : wstatus) (ob : option P) :
    ws_code ws <> 0 ->
    client_stream_final m_reset (mkEnv (Some ws) ob true false) = Some (SErr (of_wire ws)).
  Proof.
    intro H. unfold client_stream_final. cbn. apply Z.eqb_neq in H. rewrite H. reflexivity.
  Qed.

  (* the caller's status error is never OK when the wire code is a non-zero int32 *)
  Lemma of_wire_nonok (ws : wstatus) : - two31 <= ws_code ws < two31 -> ws_code ws <> 0 -> st_code (of_wire ws) <> cOK.
  Proof.
    intros Hr Hz. unfold of_wire. cbn [st_code]. unfold cOK.
    pose proof (of_i32_zero _ Hr) as H. apply Z.eqb_neq in Hz. rewrite Hz in H. apply Z.eqb_neq. exact H.
  Qed.

  (* ---- the read loop over a whole response sequence ---- *)
  Definition bodies (vs : list fenv) : list P :=
    flat_map (fun v => match e_body v with Some b => [b] | None => [] end) vs.

  Lemma run_app (m_reset : M) (pre : list fenv) (v : fenv) (post : list fenv) (o : soutcome M D) :
    Forall (fun x => client_stream_final m_reset x = None) pre ->
    client_stream_final m_reset v = Some o ->
    client_stream_run m_reset (pre ++ v :: post) = (bodies pre, Some o).
  Proof.
    intros Hpre Hv. induction Hpre as [|x pre Hx Hpre IH]; cbn [app client_stream_run bodies flat_map].
    - rewrite Hv. reflexivity.
    - rewrite Hx, IH. destruct (e_body x); reflexivity.
  Qed.

  Lemma run_inv (m_reset : M) (vs : list fenv) (bs : list P) (o : soutcome M D) :
    client_stream_run m_reset vs = (bs, Some o) ->
    exists pre v post, vs = pre ++ v :: post /\
      Forall (fun x => client_stream_final m_reset x = None) pre /\
      client_stream_final m_reset v = Some o /\ bs = bodies pre.
  Proof.
    revert bs. induction vs as [|x vs IH]; intros bs H; cbn [client_stream_run] in H; [discriminate H|].
    destruct (client_stream_final m_reset x) as [o'|] eqn:Ex.
    - injection H as <- <-. exists [], x, vs. repeat split; [constructor|exact Ex].
    - destruct (client_stream_run m_reset vs) as [bs' o'] eqn:Er.
      assert (o' = Some o) by (destruct (e_body x); injection H; auto). subst o'.
      destruct (IH bs' eq_refl) as [pre [v [post [-> [Hpre [Hv ->]]]]]].
      exists (x :: pre), v, post. repeat split; [constructor; assumption|exact Hv|].
      cbn [bodies flat_map]. destruct (e_body x); injection H as <-; reflexivity.
  Qed.

  (* whatever a peer sends: a clean end of stream is reported only when the
     first stream-ending envelope is a trailer without reset and without a
     non-OK status; everything before it was delivered in order *)
  Theorem run_eof_only_if (m_reset : M) (vs : list fenv) (bs : list P) :
    client_stream_run m_reset vs = (bs, Some SEof) ->
    exists pre v post, vs = pre ++ v :: post /\
      Forall (fun x => e_reset x = false /\ e_trailer x = false) pre /\
      e_reset v = false /\ e_trailer v = true /\
      (e_status v = None \/ exists ws, e_status v = Some ws /\ ws_code ws = 0) /\
      bs = bodies pre.
  Proof.
    intro H. destruct (run_inv _ _ _ _ H) as [pre [v [post [-> [Hpre [Hv ->]]]]]].
    exists pre, v, post. split; [reflexivity|]. split.
    - eapply Forall_impl; [|exact Hpre]. intros x Hx. unfold client_stream_final in Hx.
      destruct (e_reset x); [discriminate Hx|]. destruct (e_trailer x); cbn [negb] in Hx.
      + destruct (match e_status x with Some ws => ws_code ws | None => 0 end =? 0); [discriminate Hx|].
        destruct (e_status x); discriminate Hx.
      + split; reflexivity.
    - destruct (stream_eof_only_if _ _ Hv) as [H1 [H2 H3]]. repeat split; assumption.
  Qed.

  (* a handler that sends the messages ms and then returns h, at every position
     (ms = [] : before any message): the caller receives exactly ms, then the
     handler's outcome *)
  Definition msg_env (b : P) : fenv := mkEnv None (Some b) false false.

  Theorem stream_program (from_error : E -> status * bool) (m_ok m_reset : M) (ms : list P) (h : option E) (late : list fenv) :
    (forall e, code_ok (st_code (fst (from_error e)))) ->
    client_stream_run m_reset (map msg_env ms ++ @stream_final M D P E from_error m_ok h :: late) =
    (ms, Some (match h with None => SEof | Some e => SErr (spec_stream from_error e) end)).
  Proof.
    intro Hfe.
    rewrite (run_app m_reset (map msg_env ms) _ late
               (match h with None => SEof | Some e => SErr (spec_stream from_error e) end)).
    - f_equal. unfold bodies. induction ms as [|b ms IH]; [reflexivity|]. cbn. rewrite IH. reflexivity.
    - apply Forall_forall. intros x Hx. apply in_map_iff in Hx as [b [<- _]]. reflexivity.
    - apply stream_roundtrip. exact Hfe.
  Qed.

  (* ---- under the laws of grpc's conversions ---- *)
  (* a status error (possibly wrapped): FromError finds its status st *)
  Theorem unary_status_error (from_error : E -> status * bool) (from_ctx : E -> status) (decodes : P -> bool)
          (e : E) (st : status) (reply : option P) :
    (forall e, code_ok (st_code (fst (from_error e)))) ->
    (forall e, code_ok (st_code (from_ctx e))) ->
    from_error e = (st, true) ->
    client_unary decodes (unary_final from_error from_ctx (Some e) reply) =
    UErr (if st_code st =? cOK then mkSt cInternal (st_msg st) (st_det st) else st).
  Proof.
    intros H1 H2 Hfe. rewrite (unary_roundtrip from_error from_ctx decodes (Some e) reply H1 H2).
    unfold spec_unary. rewrite Hfe. reflexivity.
  Qed.

  (* any other error: grpc gives Unknown + text from FromError (ok = false) and
     Canceled / DeadlineExceeded / Unknown + text from FromContextError *)
  Theorem unary_plain_error (from_error : E -> status * bool) (from_ctx : E -> status) (decodes : P -> bool)
          (text : E -> M) (e : E) (st : status) (reply : option P) :
    (forall e, code_ok (st_code (fst (from_error e)))) ->
    (forall e, code_ok (st_code (from_ctx e))) ->
    (forall e, st_code (from_ctx e) <> cOK /\ st_msg (from_ctx e) = text e /\ st_det (from_ctx e) = []) ->
    from_error e = (st, false) ->
    exists c, c <> cOK /\
      client_unary decodes (unary_final from_error from_ctx (Some e) reply) = UErr (mkSt c (text e) []).
  Proof.
    intros H1 H2 Hlaw Hfe. rewrite (unary_roundtrip from_error from_ctx decodes (Some e) reply H1 H2).
    unfold spec_unary. rewrite Hfe. destruct (Hlaw e) as [Hc [Hm Hd]].
    exists (st_code (from_ctx e)). split; [exact Hc|].
    rewrite (force_nonok_id _ Hc). destruct (from_ctx e) as [c m d]. cbn in *. subst. reflexivity.
  Qed.

  Theorem stream_status_error (from_error : E -> status * bool) (m_ok m_reset : M) (e : E) (st : status) (ok : bool) :
    (forall e, code_ok (st_code (fst (from_error e)))) ->
    from_error e = (st, ok) ->
    client_stream_final m_reset (@stream_final M D P E from_error m_ok (Some e)) =
    Some (SErr (if st_code st =? cOK then mkSt cInternal (st_msg st) (st_det st) else st)).
  Proof.
    intros H1 Hfe. rewrite (stream_roundtrip from_error m_ok m_reset (Some e) H1).
    unfold spec_stream. rewrite Hfe. reflexivity.
  Qed.
End StatusProofs.

(* A client fact for C01 ("never two results for one call"): in every reachable state of Model/Client.v,
   whatever the environment does, the log holds at most one EvUnaryRet per call - exactly one iff the call
   has returned. *)
From Coq Require Import List ZArith Bool Lia Arith.
Import ListNotations.
From Goat Require Import Model.Client Proofs.ClientBase Proofs.ClientInv Model.Sys Proofs.SysLog.
Open Scope Z_scope.

Definition is_uret (c : nat) (e : cev) : bool := match e with EvUnaryRet c' _ => Nat.eqb c' c | _ => false end.
Definition ret_count (c : nat) (l : list cev) : nat := length (filter (is_uret c) l).
Definition is_ret (k : call) : bool := match k_pc k with PRet => true | _ => false end.
Definition b2n (b : bool) : nat := if b then 1%nat else 0%nat.

Definition R (s : Client.state) : Prop :=
  forall c, ret_count c (Client.log s) = match nth_error (calls s) c with Some k => b2n (is_ret k) | None => 0%nat end.

Lemma ret_count_app c a b : ret_count c (a ++ b) = (ret_count c a + ret_count c b)%nat.
Proof. unfold ret_count. rewrite filter_app, app_length. reflexivity. Qed.

Lemma R_upd s s' c k k' evs :
  R s -> calls s' = upd c k' (calls s) -> nth_error (calls s) c = Some k -> Client.log s' = Client.log s ++ evs ->
  (ret_count c evs + b2n (is_ret k) = b2n (is_ret k'))%nat ->
  (forall c0, c0 <> c -> ret_count c0 evs = 0%nat) -> R s'.
Proof.
  intros HR Hc Hn Hl Hcnt Hoth c0. rewrite Hl, ret_count_app, Hc, (HR c0).
  destruct (Nat.eq_dec c0 c) as [->|Hne].
  - rewrite nth_upd_eq by (eapply nth_some_lt; eauto). rewrite Hn. lia.
  - rewrite nth_upd_neq by auto. rewrite (Hoth _ Hne). lia.
Qed.

Lemma R_same s s' evs :
  R s -> calls s' = calls s -> Client.log s' = Client.log s ++ evs -> (forall c0, ret_count c0 evs = 0%nat) -> R s'.
Proof. intros HR Hc Hl H0 c0. rewrite Hl, ret_count_app, Hc, (HR c0), H0. lia. Qed.

Lemma R_close_all s s' :
  R s -> calls s' = close_all (calls s) -> Client.log s' = Client.log s -> R s'.
Proof.
  intros HR Hc Hl c0. rewrite Hl, Hc, (HR c0). unfold close_all. rewrite nth_error_map.
  destruct (nth_error (calls s) c0) as [k|]; simpl; auto. destruct (k_reg k); reflexivity.
Qed.

Lemma R_app s s' x :
  R s -> calls s' = calls s ++ [x] -> Client.log s' = Client.log s -> is_ret x = false -> R s'.
Proof.
  intros HR Hc Hl Hx c0. rewrite Hl, Hc, (HR c0).
  destruct (lt_dec c0 (length (calls s))) as [Hlt|Hge].
  - rewrite nth_error_app1 by auto. reflexivity.
  - assert (E : nth_error (calls s) c0 = None) by (apply nth_error_None; lia). rewrite E.
    destruct (Nat.eq_dec c0 (length (calls s))) as [->|Hne].
    + rewrite nth_app_last. rewrite Hx. reflexivity.
    + assert (E' : nth_error (calls s ++ [x]) c0 = None) by (apply nth_error_None; rewrite app_length; simpl; lia).
      rewrite E'. reflexivity.
Qed.

Ltac pc_rw := repeat match goal with E : k_pc _ = _ |- _ => rewrite E end.

Ltac R_done HR :=
  csimpl;
  try match goal with |- context [if k_reg ?k then _ else _] => destruct (k_reg k) end;
  csimpl;
  first [ eapply (R_same _ _ []); [exact HR | reflexivity | csimpl; rewrite app_nil_r; reflexivity | intros; reflexivity]
        | eapply R_same; [exact HR | reflexivity | csimpl; rewrite <- ?app_assoc; reflexivity | intros; reflexivity]
        | eapply R_close_all; [exact HR | reflexivity | reflexivity]
        | match goal with E : nth_error (calls ?s) ?c = Some ?k |- R _ =>
            first [ eapply (R_upd s _ c k _ []); [exact HR | csimpl; reflexivity | exact E | csimpl; rewrite app_nil_r; reflexivity
                                                  | unfold is_ret; csimpl; pc_rw; reflexivity | intros; reflexivity]
                  | eapply (R_upd s _ c k); [exact HR | csimpl; reflexivity | exact E | csimpl; rewrite <- ?app_assoc; reflexivity
                                             | unfold is_ret, ret_count; csimpl; pc_rw; simpl; rewrite ?Nat.eqb_refl; simpl; reflexivity
                                             | let cX := fresh "cX" in let HX := fresh "HX" in
                                               intros cX HX; unfold ret_count; simpl;
                                               try (rewrite (proj2 (Nat.eqb_neq c cX)) by auto); reflexivity ] ]
          end ].

Lemma R_int s r s' : R s -> In r (Client.rules s) -> r s = Some s' -> R s'.
Proof.
  intros HR Hin H. apply rules_in in Hin. destruct Hin as [->|[->|(c & _ & Hin)]].
  - unfold r_rl_unblock in H. open_rule H; R_done HR.
  - unfold r_rl_read in H. open_rule H; R_done HR.
  - simpl in Hin.
    repeat (destruct Hin as [<-|Hin];
            [ unfold r_check, r_reg, r_wait, r_wait_ctx, r_unreg, r_loop_read, r_loop_read_ctx, r_loop_hand,
                     r_loop_hand_ctx, r_loop_exit, r_loop_unreg, r_recv, r_header, r_trailer, r_send in H;
              open_rule H; try (R_done HR) | ]).
    all: try destruct Hin.
Qed.

Lemma R_with_call s c g :
  R s -> (forall k k', g k = Some k' -> k_pc k' = k_pc k) -> R (with_call s c g).
Proof.
  intros HR Hg. unfold with_call. destruct (nth_error (calls s) c) as [k|] eqn:E; [|exact HR].
  destruct (g k) as [k'|] eqn:G; [|exact HR].
  eapply (R_upd s _ c k k' []); [exact HR | reflexivity | exact E | simpl; rewrite app_nil_r; reflexivity | | intros; reflexivity].
  unfold is_ret. rewrite (Hg _ _ G). reflexivity.
Qed.

Lemma R_ext s a : R s -> R (Client.ext s a).
Proof.
  intros HR. destruct a; simpl;
    try (eapply R_app; [exact HR | reflexivity | reflexivity | reflexivity]);
    try (eapply (R_same _ _ []); [exact HR | reflexivity | simpl; rewrite app_nil_r; reflexivity | intros; reflexivity]);
    try (apply R_with_call; [exact HR|]; intros k k' G;
         repeat match type of G with
                | match ?x with _ => _ end = Some _ => destruct x eqn:?; try discriminate G
                end; inversion G; subst; csimpl; auto).
  destruct (nth_error (calls s) c) as [k|] eqn:E; [|exact HR].
  destruct (k_pc k) eqn:P; try exact HR.
  eapply (R_upd _ _ c k _ []); [exact HR | csimpl; reflexivity | exact E | csimpl; rewrite app_nil_r; reflexivity | | intros; reflexivity].
  unfold is_ret. csimpl. rewrite P. reflexivity.
Qed.

Lemma R_init : R Client.init.
Proof. intros c. simpl. destruct c; reflexivity. Qed.

Theorem R_reach ls s : Client.lrun Client.init ls = Some s -> R s.
Proof.
  apply (lrun_inv R); [|apply R_init].
  intros s0 l s1 HR H. destruct l as [a|n]; simpl in H.
  - inversion H; subst. apply R_ext; auto.
  - destruct (nth_error (Client.rules s0) n) as [r|] eqn:E; [|discriminate].
    apply nth_error_In in E. eapply R_int; eauto.
Qed.

(* never two results: at most one EvUnaryRet per call; exactly one iff the call has returned *)
Theorem ret_at_most_once ls s c : Client.lrun Client.init ls = Some s -> (ret_count c (Client.log s) <= 1)%nat.
Proof.
  intros H. rewrite (R_reach _ _ H c). destruct (nth_error (calls s) c) as [k|]; [destruct (is_ret k)|]; simpl; lia.
Qed.


(* C02, direction handler -> caller, the client half, continued: the stream loop hands every message it takes to
   RecvMsg before it takes the next envelope.  RE: while the loop runs, and still after it has taken an
   end-of-stream trailer, the messages RecvMsg returned are EXACTLY the bodies of the non-final envelopes the call
   took (the one in the hand-off excepted) - so a caller that is told io.EOF has been given every message that
   preceded the trailer, whatever the contexts did. *)
From Coq Require Import List ZArith Bool Lia Arith.
Import ListNotations.
From Goat Require Import Model.Client Model.Server Proofs.ClientBase Proofs.ClientInv Proofs.ClientLog Proofs.ClientProps Proofs.ProtocolClient
  Model.Sys Proofs.SysLog Proofs.SysProofs Proofs.SysC02 Proofs.SysC02e Proofs.SysC02f Proofs.SysC02i Proofs.SysC01d.
Open Scope Z_scope.

(* the message an envelope carries towards RecvMsg *)
Definition tb (e : env) : list Z :=
  match final_of e with
  | Some _ => []
  | None => match ebody e with Some b => if b <? 0 then [] else [b] | None => [] end
  end.
Definition pb (l : list env) : list Z := flat_map tb l.
Lemma pb_app a b : pb (a ++ b) = pb a ++ pb b.
Proof. apply flat_map_app. Qed.

Definition eof_taken (c : nat) (l : list cev) : Prop := exists e, In e (ctakes c l) /\ final_of e = Some EEof.

Definition REh (s : Client.state) (c : nat) (k : call) : Prop :=
  k_unary k = false ->
  (running_loop (s_loop k) = true -> pb (ctakes c (Client.log s)) = msgs c (Client.log s) ++ handpart k) /\
  (eof_taken c (Client.log s) -> running_loop (s_loop k) = false /\ pb (ctakes c (Client.log s)) = msgs c (Client.log s)) /\
  is_prefix (msgs c (Client.log s)) (pb (ctakes c (Client.log s))) /\
  (forall e, In e (ctakes c (Client.log s)) -> final_of e <> None ->
             running_loop (s_loop k) = false /\ exists P, ctakes c (Client.log s) = P ++ [e]).
Definition RE (s : Client.state) : Prop := forall c k, nth_error (calls s) c = Some k -> REh s c k.

Lemma RE_upd s s' c0 k0 k' evs :
  RE s -> calls s' = upd c0 k' (calls s) -> nth_error (calls s) c0 = Some k0 ->
  Client.log s' = Client.log s ++ evs -> quiet2 evs ->
  (k_unary k' = false -> k_unary k0 = false /\ (s_loop k' = s_loop k0 \/ running_loop (s_loop k') = false)) -> RE s'.
Proof.
  intros HR Hc Hn Hl Hq Hk c k P Hu. unfold RE, REh, eof_taken in *. rewrite Hl, msgs_app, ctakes_app, (proj1 (Hq c)), (proj2 (Hq c)), !app_nil_r.
  rewrite Hc in P. destruct (Nat.eq_dec c c0) as [->|Hne].
  - rewrite nth_upd_eq in P by (eapply nth_some_lt; eauto). inversion P; subst k.
    destruct (Hk Hu) as (A & B). destruct (HR _ _ Hn A) as (R1 & R2 & R3 & R4). destruct B as [B|B].
    + unfold handpart in *. rewrite B. split; auto.
    + split; [intros X; congruence|]. split; [|split; [exact R3|]].
      * intros X. destruct (R2 X) as (_ & Y). auto.
      * intros e0 Hin0 Hf0. destruct (R4 e0 Hin0 Hf0) as (_ & Y). auto.
  - rewrite nth_upd_neq in P by auto. apply (HR _ _ P Hu).
Qed.

Lemma RE_same s s' evs : RE s -> calls s' = calls s -> Client.log s' = Client.log s ++ evs -> quiet2 evs -> RE s'.
Proof.
  intros HR Hc Hl Hq c k P. unfold RE, REh, eof_taken in *. rewrite Hl, msgs_app, ctakes_app, (proj1 (Hq c)), (proj2 (Hq c)), !app_nil_r.
  rewrite Hc in P. apply HR. exact P.
Qed.

Lemma RE_close_all s s' : RE s -> calls s' = close_all (calls s) -> Client.log s' = Client.log s -> RE s'.
Proof.
  intros HR Hc Hl c k P. unfold RE, REh, eof_taken in *. rewrite Hl. rewrite Hc in P. unfold close_all in P. rewrite nth_error_map in P.
  destruct (nth_error (calls s) c) as [k1|] eqn:E1; [|discriminate]. simpl in P.
  assert (B : s_loop k = s_loop k1 /\ k_unary k = k_unary k1) by (destruct (k_reg k1); inversion P; subst k; split; reflexivity).
  destruct B as (B1 & B2). unfold handpart. rewrite B1, B2. apply HR. exact E1.
Qed.

(* a step of a unary call *)
Lemma RE_unary s s' c0 k0 k' evs :
  RE s -> calls s' = upd c0 k' (calls s) -> nth_error (calls s) c0 = Some k0 ->
  Client.log s' = Client.log s ++ evs -> (forall c, c <> c0 -> msgs c evs = [] /\ ctakes c evs = []) -> k_unary k' = true -> RE s'.
Proof.
  intros HR Hc Hn Hl Hq Hk c k P Hu. rewrite Hc in P. destruct (Nat.eq_dec c c0) as [->|Hne].
  - rewrite nth_upd_eq in P by (eapply nth_some_lt; eauto). inversion P; subst k. congruence.
  - rewrite nth_upd_neq in P by auto. unfold RE, REh, eof_taken in *. rewrite Hl, msgs_app, ctakes_app, (proj1 (Hq c Hne)), (proj2 (Hq c Hne)), !app_nil_r. apply (HR _ _ P Hu).
Qed.

Ltac re_side :=
  csimpl; let hZ := fresh "hZ" in intros hZ;
  first [ discriminate hZ | congruence
        | split; [exact hZ | first [left; reflexivity | right; reflexivity
                                    | match goal with E : s_loop _ = _ |- _ => rewrite E; first [left; reflexivity | right; reflexivity] end ] ] ].

Ltac RE_done HR :=
  csimpl;
  try match goal with |- context [if k_reg ?k then _ else _] => destruct (k_reg k) eqn:? end;
  csimpl;
  first [ eapply (RE_same _ _ []); [exact HR | reflexivity | csimpl; rewrite app_nil_r; reflexivity | quiet2_tac]
        | eapply RE_same; [exact HR | reflexivity | csimpl; rewrite <- ?app_assoc; reflexivity | quiet2_tac]
        | eapply RE_close_all; [exact HR | reflexivity | reflexivity]
        | match goal with E : nth_error (calls ?s) ?c = Some ?k |- RE _ =>
            first [ eapply (RE_upd s _ c k _ []); [exact HR | csimpl; reflexivity | exact E | csimpl; rewrite app_nil_r; reflexivity
                                                  | quiet2_tac | re_side]
                  | eapply (RE_upd s _ c k); [exact HR | csimpl; reflexivity | exact E | csimpl; rewrite <- ?app_assoc; reflexivity
                                             | quiet2_tac | re_side] ]
          end ].

Lemma RE_take s s' c0 k0 k' e :
  RE s -> calls s' = upd c0 k' (calls s) -> nth_error (calls s) c0 = Some k0 ->
  Client.log s' = Client.log s ++ [EvTake c0 e] -> s_loop k0 = LRead -> k_unary k' = k_unary k0 ->
  ((final_of e = None /\ running_loop (s_loop k') = true /\ handpart k' = tb e) \/ running_loop (s_loop k') = false) -> RE s'.
Proof.
  intros HR Hc Hn Hl Hl0 Hu0 Hk c k P Hu. unfold RE, REh, eof_taken in *. rewrite Hl, msgs_app, ctakes_app. simpl. rewrite app_nil_r.
  rewrite Hc in P. destruct (Nat.eq_dec c c0) as [->|Hne].
  - rewrite nth_upd_eq in P by (eapply nth_some_lt; eauto). inversion P; subst k. rewrite Nat.eqb_refl.
    rewrite Hu0 in Hu. destruct (HR _ _ Hn Hu) as (R1 & R2 & R3 & R4). rewrite Hl0 in R1, R2, R4. unfold handpart in R1. rewrite Hl0 in R1. simpl in R1.
    rewrite app_nil_r in R1. specialize (R1 eq_refl).
    assert (R3' : is_prefix (msgs c0 (Client.log s)) (pb (ctakes c0 (Client.log s)) ++ tb e)) by (rewrite R1; eexists; reflexivity).
    assert (NE : ~ exists e0, In e0 (ctakes c0 (Client.log s)) /\ final_of e0 = Some EEof).
    { intros X. destruct (R2 X) as (Y & _). discriminate Y. }
    rewrite pb_app. simpl. rewrite app_nil_r.
    destruct Hk as [(F & Rn & Hh) | Rn].
    + split; [intros _; rewrite Hh, R1; reflexivity|]. split; [|split; [exact R3'|]].
      2: { intros e1 Hin1 Hf1. apply in_app_or in Hin1. destruct Hin1 as [Hin1 | [<- | []]]; [destruct (R4 _ Hin1 Hf1) as (Y & _); discriminate Y | congruence]. }
      intros (e0 & Hin & He). exfalso. apply in_app_or in Hin. destruct Hin as [Hin | [<- | []]]; [apply NE; eauto | congruence].
    + split; [intros X; congruence|]. split; [|split; [exact R3'|]].
      2: { intros e1 Hin1 Hf1. apply in_app_or in Hin1. destruct Hin1 as [Hin1 | [<- | []]]; [destruct (R4 _ Hin1 Hf1) as (Y & _); discriminate Y|].
           split; [exact Rn | eexists; reflexivity]. }
      intros (e0 & Hin & He). split; [exact Rn|]. apply in_app_or in Hin. destruct Hin as [Hin | [<- | []]]; [exfalso; apply NE; eauto|].
      unfold tb. rewrite He. rewrite app_nil_r. exact R1.
  - rewrite nth_upd_neq in P by auto. destruct (Nat.eqb_spec c0 c) as [->|_]; [contradiction|]. rewrite app_nil_r. apply (HR _ _ P Hu).
Qed.

Lemma RE_hand s s' c0 k0 k' b :
  RE s -> calls s' = upd c0 k' (calls s) -> nth_error (calls s) c0 = Some k0 ->
  Client.log s' = Client.log s ++ [EvRecvRet c0 (if b <? 0 then RErr EUnmarshal else RMsg b)] ->
  s_loop k0 = LHand b -> s_loop k' = LRead -> k_unary k' = k_unary k0 -> RE s'.
Proof.
  intros HR Hc Hn Hl Hl0 Hl1 Hu0 c k P Hu. unfold RE, REh, eof_taken in *. rewrite Hl, msgs_app, ctakes_app.
  rewrite Hc in P. destruct (Nat.eq_dec c c0) as [->|Hne].
  - rewrite nth_upd_eq in P by (eapply nth_some_lt; eauto). inversion P; subst k.
    rewrite Hu0 in Hu. destruct (HR _ _ Hn Hu) as (R1 & R2 & R3 & R4). unfold handpart in *. rewrite Hl0 in R1, R2, R4. rewrite Hl1. specialize (R1 eq_refl).
    assert (Z1 : ctakes c0 [EvRecvRet c0 (if b <? 0 then RErr EUnmarshal else RMsg b)] = []) by (destruct (b <? 0); reflexivity).
    rewrite Z1, !app_nil_r.
    assert (Q : pb (ctakes c0 (Client.log s)) = msgs c0 (Client.log s) ++ msgs c0 [EvRecvRet c0 (if b <? 0 then RErr EUnmarshal else RMsg b)]).
    { rewrite R1. destruct (b <? 0); simpl; [reflexivity | rewrite Nat.eqb_refl; reflexivity]. }
    split; [intros _; exact Q|]. split; [|split; [rewrite Q; exists []; rewrite app_nil_r; reflexivity|]].
    * intros X. destruct (R2 X) as (Y & _). discriminate Y.
    * intros e1 Hin1 Hf1. destruct (R4 _ Hin1 Hf1) as (Y & _). discriminate Y.
  - rewrite nth_upd_neq in P by auto.
    assert (Z1 : ctakes c [EvRecvRet c0 (if b <? 0 then RErr EUnmarshal else RMsg b)] = []) by (destruct (b <? 0); reflexivity).
    assert (Z2 : msgs c [EvRecvRet c0 (if b <? 0 then RErr EUnmarshal else RMsg b)] = []).
    { destruct (b <? 0); simpl; auto. destruct (Nat.eqb_spec c0 c) as [->|_]; [contradiction | reflexivity]. }
    rewrite Z1, Z2, !app_nil_r. apply (HR _ _ P Hu).
Qed.

Lemma in_ctakes c e l : In (EvTake c e) l -> In e (ctakes c l).
Proof.
  induction l as [|x l IH]; simpl; [tauto|]. intros [->|Hin].
  - rewrite Nat.eqb_refl. left. reflexivity.
  - destruct x; auto. destruct (Nat.eqb c0 c); [right|]; auto.
Qed.

Lemma RE_int s r s' : cinv s -> sinv s -> linv s -> fresh_ok s -> RE s -> In r (Client.rules s) -> r s = Some s' -> RE s'.
Proof.
  intros HI HS HL HF HR Hin H. apply rules_in in Hin. destruct Hin as [->|[->|(c & _ & Hin)]].
  - unfold r_rl_unblock in H. open_rule H; try (RE_done HR).
  - unfold r_rl_read in H. open_rule H; try (RE_done HR).
  - simpl in Hin.
    repeat (destruct Hin as [<-|Hin];
            [ unfold r_check, r_reg, r_wait, r_wait_ctx, r_unreg, r_loop_read, r_loop_read_ctx, r_loop_hand,
                     r_loop_hand_ctx, r_loop_exit, r_loop_unreg, r_recv, r_header, r_trailer, r_send in H;
              open_rule H; try (RE_done HR) | ]).
    all: try destruct Hin.
    + (* r_reg: the stream opens *)
      match goal with Hn : nth_error (calls s) c = Some ?k0, Hp0 : k_pc ?k0 = PReg |- _ =>
        destruct (fresh_facts _ _ _ HL HF Hn Hp0) as (Z1 & Z2 & Z3); rename Hn into Hn0 end.
      assert (Z4 : msgs c (Client.log s) = []).
      { apply msgs_none. intros b Hin. destruct (li_ev _ HL _ Hin) as (e & He & _). apply in_ctakes in He. rewrite Z2 in He. destruct He. }
      intros c' k P Hu. unfold eof_taken. csimpl. rewrite msgs_app, ctakes_app. simpl. rewrite !app_nil_r.
      destruct (Nat.eq_dec c' c) as [->|Hne].
      * rewrite nth_upd_eq in P by (eapply nth_some_lt; eauto). inversion P; subst k. csimpl. rewrite Z2, Z4.
        split; [intros _; reflexivity | split; [intros (e0 & [] & _) | split; [exists []; reflexivity | intros e0 []]]].
      * rewrite nth_upd_neq in P by auto. apply (HR _ _ P Hu).
    + (* r_wait: a unary call *)
      pose proof (ki_kind _ (cinv_call _ _ _ HI E)) as K. rewrite E0 in K.
      eapply (RE_unary s _ c c0); [exact HR | csimpl; reflexivity | exact E | csimpl; reflexivity | | csimpl; destruct (k_unary c0); [reflexivity | discriminate K]].
      intros c' Hne. simpl. destruct (Nat.eqb_spec c c') as [->|_]; [contradiction | split; reflexivity].
    + eapply (RE_take s _ c c0 _ e); [exact HR | csimpl; reflexivity | exact E | csimpl; reflexivity | exact E0 | reflexivity | right; reflexivity].
    + eapply (RE_take s _ c c0 _ e); [exact HR | csimpl; reflexivity | exact E | csimpl; reflexivity | exact E0 | reflexivity | right; reflexivity].
    + eapply (RE_take s _ c c0 _ e); [exact HR | csimpl; reflexivity | exact E | csimpl; reflexivity | exact E0 | reflexivity | left].
      split; [assumption | split; [reflexivity|]]. unfold handpart, tb. csimpl.
      repeat match goal with X : final_of e = None |- _ => rewrite X | X : ebody e = Some _ |- _ => rewrite X end. reflexivity.
    + eapply (RE_take s _ c c0 _ e); [exact HR | csimpl; reflexivity | exact E | csimpl; reflexivity | exact E0 | reflexivity | left].
      split; [assumption | split; [csimpl; rewrite E0; reflexivity|]]. unfold handpart, tb. csimpl.
      repeat match goal with X : final_of e = None |- _ => rewrite X | X : ebody e = None |- _ => rewrite X end. rewrite E0. reflexivity.
    + eapply (RE_hand s _ c c0 _ b); [exact HR | csimpl; reflexivity | exact E | csimpl; reflexivity | exact E0 | reflexivity | reflexivity].
    + unfold recv_final. destruct (s_rerr c0); RE_done HR.
    + unfold recv_final. destruct (s_rerr c0); RE_done HR.
Qed.

Lemma RE_with_call s c g :
  RE s -> (forall k k', g k = Some k' -> s_loop k' = s_loop k /\ k_unary k' = k_unary k) -> RE (with_call s c g).
Proof.
  intros HR Hg. unfold with_call. destruct (nth_error (calls s) c) as [k|] eqn:E; [|exact HR].
  destruct (g k) as [k'|] eqn:G; [|exact HR]. destruct (Hg _ _ G) as (A & B).
  eapply (RE_upd s _ c k k' []); [exact HR | reflexivity | exact E | simpl; rewrite app_nil_r; reflexivity | quiet2_tac | ].
  intros X. split; [congruence | left; exact A].
Qed.

Lemma RE_new s k0 : linv s -> RE s -> s_loop k0 = LDead ->
  RE (Client.mkState (counter s) (rerr s) (rl s) (Client.inbox s) (Client.inbox_failed s) (Client.wfail s) (calls s ++ [k0]) (Client.log s)).
Proof.
  intros HL HR Hd c k P Hu. csimpl. destruct (nth_app_cases _ _ _ _ P) as [(P' & _) | (-> & ->)]; [apply (HR _ _ P' Hu)|].
  assert (Z0 : ctakes (length (calls s)) (Client.log s) = []).
  { apply ctakes_none. intros e0 Hin0. destruct (li_ev _ HL _ Hin0) as ((k1 & Hk1 & _) & _). apply nth_some_lt in Hk1. lia. }
  assert (Z1 : msgs (length (calls s)) (Client.log s) = []).
  { apply msgs_none. intros b Hin. destruct (li_ev _ HL _ Hin) as (e & He & _). apply in_ctakes in He. rewrite Z0 in He. destruct He. }
  unfold eof_taken. rewrite Z0, Z1. split; [rewrite Hd; discriminate|]. split; [intros (e & [] & _) | split; [exists []; reflexivity | intros e []]].
Qed.

Lemma RE_ext s a : linv s -> RE s -> RE (Client.ext s a).
Proof.
  intros HL HR. destruct a; simpl;
    try (apply RE_with_call; [exact HR|]; intros k k' G;
         repeat match type of G with
                | match ?x with _ => _ end = Some _ => destruct x eqn:?; try discriminate G
                end; inversion G; subst; csimpl; auto);
    try (eapply (RE_same _ _ []); [exact HR | reflexivity | simpl; rewrite app_nil_r; reflexivity | quiet2_tac]).
  - apply RE_new; auto.
  - apply RE_new; auto.
  - destruct (nth_error (calls s) c) as [k|] eqn:E; [|exact HR].
    destruct (k_pc k) eqn:P; try exact HR.
    eapply (RE_upd _ _ c k _ []); [exact HR | csimpl; reflexivity | exact E | csimpl; rewrite app_nil_r; reflexivity | quiet2_tac | ].
    csimpl. intros X. split; [exact X | left; reflexivity].
Qed.

Lemma RE_step ls s l s' : Client.lrun Client.init ls = Some s -> fresh_ok s -> RE s -> Client.lstep s l = Some s' -> RE s'.
Proof.
  intros Hrun HF HP H. destruct (all_inv_reach _ _ Hrun) as (HI & HS & HL). destruct l as [a|n]; simpl in H.
  - inversion H; subst. apply RE_ext; auto.
  - destruct (nth_error (Client.rules s) n) as [r|] eqn:E; [|discriminate]. apply nth_error_In in E. eapply RE_int; eauto.
Qed.

Theorem RE_sys pol ls : forall s, Sys.lrun pol Sys.init ls = Some s -> RE (cl s).
Proof.
  induction ls as [|l ls IH] using rev_ind; intros s H.
  - inversion H; subst. intros c k P. destruct c; discriminate P.
  - destruct (SysC01d.sys_lrun_snoc _ _ _ _ _ H) as (s1 & H1 & Hl). pose proof (IH _ H1) as HP.
    pose proof (lstep_cl _ _ _ _ Hl) as X. destruct l as [x|x| |].
    + destruct X as (Hc & _ & _). eapply RE_step; [exact (proj_c_run _ _ _ _ H1) | eapply fresh_sys; eauto | exact HP | exact Hc].
    + destruct X as (_ & _ & _ & ->). exact HP.
    + destruct X as (f & rest & _ & _ & -> & _). exact HP.
    + destruct X as (e & rest & _ & -> & _). apply RE_ext; [|exact HP].
      destruct (all_inv_reach _ _ (proj_c_run _ _ _ _ H1)) as (_ & _ & HL). exact HL.
Qed.

(* ---------- towards the caller, all runs: what RecvMsg returned is a PREFIX of what the server wrote ---------- *)
Lemma prefix_trans {A} (a b c : list A) : is_prefix a b -> is_prefix b c -> is_prefix a c.
Proof. intros [r ->] [r' ->]. exists (r ++ r'). rewrite app_assoc. reflexivity. Qed.

Lemma pb_prefix a b : is_prefix a b -> is_prefix (pb a) (pb b).
Proof. intros [r ->]. exists (pb r). apply pb_app. Qed.

Theorem cl_takes_prefix pol ls s c k :
  Sys.lrun pol Sys.init ls = Some s -> nth_error (calls (cl s)) c = Some k -> k_pc k = POpen ->
  is_prefix (ctakes c (Client.log (cl s))) (by_id (k_id k) (map f_env (swrites (Server.log (sv s))))).
Proof.
  intros H Hn Hp. destruct (PC_sys _ _ _ H _ _ Hn Hp) as (post & E & _).
  eapply prefix_trans; [|eapply wire_s2c_prefix_id; eauto].
  unfold idr in E. rewrite E. eexists. reflexivity.
Qed.

Theorem C02_caller_prefix pol ls s c k :
  Sys.lrun pol Sys.init ls = Some s -> nth_error (calls (cl s)) c = Some k -> k_unary k = false -> k_pc k = POpen ->
  is_prefix (msgs c (Client.log (cl s))) (pb (by_id (k_id k) (map f_env (swrites (Server.log (sv s)))))).
Proof.
  intros H Hn Hu Hp. destruct (RE_sys _ _ _ H _ _ Hn Hu) as (_ & _ & R3 & _).
  eapply prefix_trans; [exact R3|]. apply pb_prefix. eapply cl_takes_prefix; eauto.
Qed.

(* C18, liveness of the run loop: the run loop of a demultiplexer ends only because Stop was called or the
   shared transport's Read failed -- never because of a Cancel(key), an envelope, a logical Read/Write or a
   cancelled call context. *)
From Coq Require Import List ZArith Bool Lia.
Import ListNotations.
From Goat Require Import Model.Demux Proofs.DemuxProofs.

Definition inv_alive (s : state) : Prop := rn s = RNDead -> stopped s = true \/ rfail s = true.

Lemma ext_flags s a : (stopped s = true \/ rfail s = true) -> stopped (ext s a) = true \/ rfail (ext s a) = true.
Proof.
  intros H. destruct a; simpl; auto;
    repeat match goal with |- context [match ?x with _ => _ end] => destruct x eqn:?; simpl; auto end.
Qed.

Lemma inv_alive_step s l s' : inv_alive s -> lstep s l = Some s' -> inv_alive s'.
Proof.
  unfold inv_alive. intros I H. apply lstep_kind in H. destruct H.
  - subst. rewrite ext_rn. intros D. apply ext_flags. auto.
  - unfold r_rn_read in H; open_rule H; simpl in *; try discriminate; auto.
  - unfold r_rn_readerr in H; open_rule H; simpl in *; intros _.
    apply orb_true_iff in E0. destruct E0 as [E0|E0]; auto.
    apply andb_true_iff in E0. tauto.
  - unfold r_rn_hand_done in H; open_rule H; simpl in *; try discriminate; auto.
  - unfold r_rn_hand_stop in H; open_rule H; simpl in *; auto.
  - unfold r_read_rdv in H; open_rule H; simpl in *; try discriminate; auto.
  - unfold r_call_ctx in H; open_rule H; simpl in *; auto.
  - unfold r_call_done in H; open_rule H; simpl in *; auto.
  - unfold r_write_rdv in H; open_rule H; simpl in *; auto.
  - unfold r_dw_exit in H; open_rule H; simpl in *; auto.
  - unfold r_dw_write in H; open_rule H; simpl in *; auto.
Qed.

Lemma C18_run_alive_l : forall ls s, lrun init ls = Some s -> rn s = RNDead -> stopped s = true \/ rfail s = true.
Proof.
  intros ls s H. change (inv_alive s). eapply lrun_inv; [exact inv_alive_step| |exact H].
  unfold inv_alive; simpl; discriminate.
Qed.

(* ---------- C18, first use after a Cancel: a fresh instance ---------- *)
Open Scope Z_scope.

(* after Cancel(k) no instance of key k is left that is not done *)
Lemma cancel_all_done s k : valid s ->
  forall c x, nth_error (conns (ext s (ACancelKey k))) c = Some x -> c_key x = k -> c_done x = true.
Proof.
  intros V c x Hx Hk. cbn [ext] in Hx.
  destruct (find_reg k (conns s) 0) as [c0|] eqn:F.
  - destruct (find_reg0_some _ _ _ F) as (x0 & Hx0 & Hr0 & Hk0). rewrite Hx0 in Hx. cbn [conns] in Hx.
    rewrite nth_upd in Hx. destruct (Nat.eqb_spec c0 c) as [->|Hne].
    + destruct (Nat.ltb_spec c (length (conns s))); [|discriminate]. inversion Hx; subst x. reflexivity.
    + (* another instance with key k: it is done, by uniqueness *)
      destruct (c_done x) eqn:D; [reflexivity|exfalso].
      pose proof (v_conn _ V _ _ Hx0) as R0. rewrite Hr0 in R0.
      assert (D0 : c_done x0 = false) by (destruct (c_done x0); [discriminate|reflexivity]).
      destruct (Nat.lt_ge_cases c c0) as [Hlt|Hge].
      * pose proof (v_uniq _ V c c0 x x0 Hx Hx0 (eq_trans Hk (eq_sym Hk0)) Hlt). congruence.
      * assert (Hlt : (c0 < c)%nat) by lia.
        pose proof (v_uniq _ V c0 c x0 x Hx0 Hx (eq_trans Hk0 (eq_sym Hk)) Hlt). congruence.
  - pose proof (find_reg_none _ _ _ F x (nth_error_In _ _ Hx)) as N.
    pose proof (v_conn _ V _ _ Hx) as R. destruct (c_done x); [reflexivity|]. cbn in R. exfalso. apply (N R Hk).
Qed.

Lemma app_self_nil {A} (l e : list A) : l = l ++ e -> e = [].
Proof. intros H. apply (f_equal (@length A)) in H. rewrite app_length in H. destruct e; [reflexivity|simpl in H; lia]. Qed.

(* the instance an envelope is routed to is live (not cancelled) at the moment of the routing, and carries the envelope's key *)
Lemma shread_live s l s' : valid s -> lstep s l = Some s' ->
  forall evs, log s' = log s ++ evs -> forall c e, In (EvShRead c e) evs ->
  exists x, nth_error (conns s') c = Some x /\ c_key x = ekey e /\ c_done x = false.
Proof.
  intros V H evs Hlog c e Hin.
  pose proof H as H0. apply lstep_kind in H0. destruct H0 as [a H0|H0|H0|H0|H0|i H0|i H0|i H0|i H0|n H0|n H0].
  - subst s'. rewrite ext_log in Hlog. apply app_self_nil in Hlog. subst evs. destruct Hin.
  - unfold r_rn_read in H0; open_rule H0; simpl in *; apply app_inv_head in Hlog; subst evs; simpl in Hin.
    + destruct Hin as [Hin|[]]. inversion Hin; subst.
      destruct (find_reg0_some _ _ _ E1) as (x & Hx & Hr & Hk). exists x. split; [exact Hx|]. split; [exact Hk|].
      pose proof (v_conn _ V _ _ Hx) as R. rewrite Hr in R. destruct (c_done x); [discriminate|reflexivity].
    + destruct Hin as [Hin|[Hin|[]]]; [discriminate|]. inversion Hin; subst.
      exists (mkConn (ekey e) true false DWSel). split; [apply nth_app_last|]. split; reflexivity.
  - unfold r_rn_readerr in H0; open_rule H0. simpl in Hlog. apply app_self_nil in Hlog. subst evs. destruct Hin.
  - unfold r_rn_hand_done in H0; open_rule H0; simpl in *; apply app_inv_head in Hlog; subst evs; simpl in Hin;
      intuition discriminate.
  - unfold r_rn_hand_stop in H0; open_rule H0; simpl in *; apply app_inv_head in Hlog; subst evs; simpl in Hin;
      intuition discriminate.
  - unfold r_read_rdv in H0; open_rule H0; simpl in *; apply app_inv_head in Hlog; subst evs; simpl in Hin;
      intuition discriminate.
  - unfold r_call_ctx in H0; open_rule H0; simpl in *; apply app_inv_head in Hlog; subst evs; simpl in Hin;
      intuition discriminate.
  - unfold r_call_done in H0; open_rule H0; simpl in *; apply app_inv_head in Hlog; subst evs; simpl in Hin;
      intuition discriminate.
  - unfold r_write_rdv in H0; open_rule H0; simpl in *; apply app_inv_head in Hlog; subst evs; simpl in Hin;
      intuition discriminate.
  - unfold r_dw_exit in H0; open_rule H0; simpl in *. apply app_self_nil in Hlog. subst evs. destruct Hin.
  - unfold r_dw_write in H0; open_rule H0; simpl in *; apply app_inv_head in Hlog; subst evs; simpl in Hin;
      intuition discriminate.
Qed.

(* what holds from a Cancel(k) on: n0 = number of instances at the Cancel, l0 = the log at the Cancel *)
Definition inv_fresh (n0 : nat) (k : Z) (l0 : list dev) (s : state) : Prop :=
  valid s /\ (n0 <= length (conns s))%nat /\
  (forall c x, (c < n0)%nat -> nth_error (conns s) c = Some x -> c_key x = k -> c_done x = true) /\
  exists evs, log s = l0 ++ evs /\ forall c e, In (EvShRead c e) evs -> ekey e = k -> (n0 <= c)%nat.

Lemma inv_fresh_step n0 k l0 s l s' : inv_fresh n0 k l0 s -> lstep s l = Some s' -> inv_fresh n0 k l0 s'.
Proof.
  intros (V & Hlen & Hold & evs & Hlog & Hnew) H.
  assert (V' : valid s') by (eapply valid_step; eauto).
  assert (Hlen' : (n0 <= length (conns s'))%nat).
  { destruct (conns_length_step _ _ _ H) as [E|[E _]]; lia. }
  assert (Hold' : forall c x, (c < n0)%nat -> nth_error (conns s') c = Some x -> c_key x = k -> c_done x = true).
  { intros c x' Hc Hx' Hk.
    destruct (nth_error (conns s) c) as [x|] eqn:Hx.
    - destruct (key_stable _ _ _ _ _ H Hx) as (x'' & Hx'' & Hk''). rewrite Hx' in Hx''. inversion Hx''; subst x''.
      assert (D : conn_done s c = true). { unfold conn_done. rewrite Hx. apply (Hold c x Hc Hx). congruence. }
      pose proof (done_mono _ _ _ _ H D) as D'. unfold conn_done in D'. rewrite Hx' in D'. exact D'.
    - apply nth_error_None in Hx. lia. }
  split; [exact V'|]. split; [exact Hlen'|]. split; [exact Hold'|].
  destruct (log_grows _ _ _ H) as (evs2 & Hlog2). exists (evs ++ evs2). split.
  - rewrite Hlog2, Hlog. symmetry. apply app_assoc.
  - intros c e Hin Hk. apply in_app_or in Hin. destruct Hin as [Hin|Hin]; [eauto|].
    destruct (shread_live _ _ _ V H evs2 Hlog2 c e Hin) as (x & Hx & Hkx & Hd).
    destruct (Nat.lt_ge_cases c n0) as [Hlt|Hge]; [|exact Hge].
    rewrite (Hold' c x Hlt Hx (eq_trans Hkx Hk)) in Hd. discriminate.
Qed.

Lemma cancel_conns_length s k : length (conns (ext s (ACancelKey k))) = length (conns s).
Proof.
  cbn [ext]. destruct (find_reg k (conns s) 0); [|reflexivity]. destruct (nth_error (conns s) n); [|reflexivity].
  cbn [conns]. apply length_upd.
Qed.

(* After Cancel(k) has been processed, every envelope with key k that the run loop reads is routed to an instance
   created AFTER the Cancel (its index is at least the number of instances that existed at the Cancel): never to
   the cancelled one, whatever happens in between (no envelope of another key is needed to "flush" anything).
   The instance exists - so it was announced, once, in creation order (announce_once) - carries the key, and was
   live when the envelope was routed to it (shread_live). *)
Theorem after_cancel_fresh s : reachable s -> forall k ls' s', lrun (ext s (ACancelKey k)) ls' = Some s' ->
  exists evs, log s' = log s ++ evs /\
    forall c e, In (EvShRead c e) evs -> ekey e = k ->
      (length (conns s) <= c)%nat /\ exists x, nth_error (conns s') c = Some x /\ c_key x = k.
Proof.
  intros R k ls' s' Hrun.
  pose proof (reachable_valid _ R) as V.
  assert (V0 : valid (ext s (ACancelKey k))) by (apply (valid_step s (LExt (ACancelKey k))); [exact V|reflexivity]).
  assert (I0 : inv_fresh (length (conns s)) k (log s) (ext s (ACancelKey k))).
  { split; [exact V0|]. split; [rewrite cancel_conns_length; lia|]. split.
    - intros c x _ Hx Hk. exact (cancel_all_done s k V c x Hx Hk).
    - exists []. rewrite ext_log, app_nil_r. split; [reflexivity|]. intros c e []. }
  pose proof (lrun_inv (inv_fresh (length (conns s)) k (log s)) (inv_fresh_step _ _ _) ls' _ _ I0 Hrun)
    as (V' & _ & _ & evs & Hlog & Hnew).
  exists evs. split; [exact Hlog|]. intros c e Hin Hk. split; [eauto|].
  assert (R' : reachable s').
  { apply (reachable_lrun s (LExt (ACancelKey k) :: ls') s' R). cbn [lrun lstep]. exact Hrun. }
  destruct (route_key _ R' c e) as (x & Hx & Hkx).
  { rewrite Hlog. apply in_or_app. right. exact Hin. }
  exists x. split; [exact Hx|congruence].
Qed.

Lemma C18_after_cancel_fresh_l : forall ls s, lrun init ls = Some s ->
  forall k ls' s', lrun (ext s (ACancelKey k)) ls' = Some s' ->
  exists evs, log s' = log s ++ evs /\
    forall c e, In (EvShRead c e) evs -> ekey e = k ->
      (length (conns s) <= c)%nat /\ exists x, nth_error (conns s') c = Some x /\ c_key x = k.
Proof. intros ls s H. apply after_cancel_fresh. exists ls. exact H. Qed.

(* C18, liveness of the run loop: the run loop of a demultiplexer ends only because Stop was called or the
   shared transport's Read failed -- never because of a Cancel(key), an envelope, a logical Read/Write or a
   cancelled call context. *)
From Coq Require Import List ZArith Bool Lia.
Import ListNotations.
From Goat Require Import Model.Demux Proofs.DemuxProofs.

Definition inv_alive (s : state) : Prop := rn s = RNDead -> stopped s = true \/ rfail s = true.

Lemma ext_flags s a : (stopped s = true \/ rfail s = true) -> stopped (ext s a) = true \/ rfail (ext s a) = true.
Proof.
  intros H. destruct a; simpl; auto;
    repeat match goal with |- context [match ?x with _ => _ end] => destruct x eqn:?; simpl; auto end.
Qed.

Lemma inv_alive_step s l s' : inv_alive s -> lstep s l = Some s' -> inv_alive s'.
Proof.
  unfold inv_alive. intros I H. apply lstep_kind in H. destruct H.
  - subst. rewrite ext_rn. intros D. apply ext_flags. auto.
  - unfold r_rn_read in H; open_rule H; simpl in *; try discriminate; auto.
  - unfold r_rn_readerr in H; open_rule H; simpl in *; intros _.
    apply orb_true_iff in E0. destruct E0 as [E0|E0]; auto.
    apply andb_true_iff in E0. tauto.
  - unfold r_rn_hand_done in H; open_rule H; simpl in *; try discriminate; auto.
  - unfold r_rn_hand_stop in H; open_rule H; simpl in *; auto.
  - unfold r_read_rdv in H; open_rule H; simpl in *; try discriminate; auto.
  - unfold r_call_ctx in H; open_rule H; simpl in *; auto.
  - unfold r_call_done in H; open_rule H; simpl in *; auto.
  - unfold r_write_rdv in H; open_rule H; simpl in *; auto.
  - unfold r_dw_exit in H; open_rule H; simpl in *; auto.
  - unfold r_dw_write in H; open_rule H; simpl in *; auto.
Qed.

Lemma C18_run_alive_l : forall ls s, lrun init ls = Some s -> rn s = RNDead -> stopped s = true \/ rfail s = true.
Proof.
  intros ls s H. change (inv_alive s). eapply lrun_inv; [exact inv_alive_step| |exact H].
  unfold inv_alive; simpl; discriminate.
Qed.

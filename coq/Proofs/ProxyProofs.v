(* Invariants of Model/Proxy.v over all label sequences, and the lemmas the
   theorems of Props/C16.v and Props/C17.v are closed with. *)
From Coq Require Import List ZArith Bool Lia Arith.
Import ListNotations.
From Goat Require Import Model.Proxy.
Open Scope Z_scope.

(* ---------- lists ---------- *)
Lemma length_upd {A} (n : nat) (x : A) l : length (upd n x l) = length l.
Proof. revert n; induction l; destruct n; simpl; auto. Qed.

Lemma nth_upd_eq {A} (n : nat) (x : A) l : (n < length l)%nat -> nth_error (upd n x l) n = Some x.
Proof. revert n; induction l; destruct n; simpl; intros; try lia; auto. apply IHl; lia. Qed.

Lemma nth_upd_neq {A} (n m : nat) (x : A) l : n <> m -> nth_error (upd n x l) m = nth_error l m.
Proof. revert n m; induction l; destruct n, m; simpl; intros; try congruence; auto. Qed.

Lemma nth_upd {A} (n m : nat) (x : A) l :
  nth_error (upd n x l) m = if Nat.eqb n m then (if Nat.ltb n (length l) then Some x else None) else nth_error l m.
Proof.
  destruct (Nat.eqb_spec n m).
  - subst. destruct (Nat.ltb_spec m (length l)).
    + apply nth_upd_eq; auto.
    + apply nth_error_None. rewrite length_upd. lia.
  - apply nth_upd_neq; auto.
Qed.

Lemma nth_some_lt {A} (l : list A) n x : nth_error l n = Some x -> (n < length l)%nat.
Proof. intros H. apply nth_error_Some. congruence. Qed.

Lemma nth_app_last {A} (l : list A) x : nth_error (l ++ [x]) (length l) = Some x.
Proof. rewrite nth_error_app2 by lia. rewrite Nat.sub_diag. reflexivity. Qed.

Lemma map_upd {A B} (f : A -> B) n x l y :
  nth_error l n = Some y -> f x = f y -> map f (upd n x l) = map f l.
Proof.
  revert n; induction l; destruct n; simpl; intros; try congruence.
  f_equal. eauto.
Qed.

Lemma pick_app {A B} (f : A -> option B) l1 l2 : pick f (l1 ++ l2) = pick f l1 ++ pick f l2.
Proof. induction l1; simpl; auto. destruct (f a); simpl; congruence. Qed.

Lemma pick_In {A B} (f : A -> option B) l y : In y (pick f l) <-> exists x, In x l /\ f x = Some y.
Proof.
  induction l; simpl.
  - split; [tauto | intros (x & [] & _)].
  - destruct (f a) eqn:E; simpl; rewrite IHl; split.
    + intros [-> | (x & Hx & Hf)]; eauto.
    + intros (x & [-> | Hx] & Hf); [left; congruence | eauto].
    + intros (x & Hx & Hf); eauto.
    + intros (x & [-> | Hx] & Hf); [congruence | eauto].
Qed.

Lemma pick_ext_in {A B} (f g : A -> option B) l : (forall x, In x l -> f x = g x) -> pick f l = pick g l.
Proof.
  induction l; simpl; intros; auto.
  rewrite (H a) by auto. rewrite IHl by auto. reflexivity.
Qed.


Lemma nth_upd_inv {A} n (x' : A) l c y :
  nth_error (upd n x' l) c = Some y -> (c = n /\ y = x') \/ (c <> n /\ nth_error l c = Some y).
Proof.
  rewrite nth_upd. destruct (Nat.eqb_spec n c).
  - subst. destruct (Nat.ltb c (length l)); intros H; inversion H; auto.
  - intros; right; split; auto.
Qed.

Lemma nth_app_cases {A} (l : list A) y n x :
  nth_error (l ++ [y]) n = Some x -> (nth_error l n = Some x /\ (n < length l)%nat) \/ (n = length l /\ x = y).
Proof.
  intros H. destruct (Nat.ltb_spec n (length l)).
  - rewrite nth_error_app1 in H by auto. auto.
  - rewrite nth_error_app2 in H by auto. destruct (n - length l)%nat eqn:E; simpl in H.
    + inversion H. right. split; auto. lia.
    + destruct n0; discriminate.
Qed.

(* ---------- find_reg ---------- *)
Lemma find_reg_some n cs k c :
  find_reg n cs k = Some c ->
  (k <= c)%nat /\ exists x, nth_error cs (c - k) = Some x /\ p_reg x = true /\ p_name x = n.
Proof.
  revert k; induction cs; simpl; intros; try discriminate.
  destruct (p_reg a && (p_name a =? n)) eqn:E.
  - inversion H; subst. split; [lia|]. rewrite Nat.sub_diag. simpl. exists a.
    apply andb_true_iff in E. destruct E. split; auto. split; auto. lia.
  - apply IHcs in H. destruct H as (Hle & x & Hn & Hr & Hk). split; [lia|].
    exists x. replace (c - k)%nat with (S (c - S k)) by lia. simpl. auto.
Qed.

Lemma find_reg_none n cs k :
  find_reg n cs k = None -> forall x, In x cs -> p_reg x = true -> p_name x <> n.
Proof.
  revert k; induction cs; simpl; intros; try tauto.
  destruct (p_reg a && (p_name a =? n)) eqn:E; try discriminate.
  destruct H0.
  - subst. rewrite H1 in E. simpl in E. lia.
  - eauto.
Qed.

Lemma find_reg0_some n cs c :
  find_reg n cs 0 = Some c -> exists x, nth_error cs c = Some x /\ p_reg x = true /\ p_name x = n.
Proof. intros H. apply find_reg_some in H. rewrite Nat.sub_0_r in H. tauto. Qed.

(* ---------- case analysis of one step ---------- *)
Inductive step_kind (cf : cfg) (s s' : state) : Prop :=
| SkExt (a : act) (H : s' = ext s a)
| SkFwExit (H : r_fw_exit s = Some s')
| SkFwCmd (j : nat) (H : r_fw_cmd cf j s = Some s')
| SkFwErrRd (j : nat) (H : r_fw_err_rd j s = Some s')
| SkFwErrWr (j : nat) (H : r_fw_err_wr j s = Some s')
| SkFwErrDl (j : nat) (H : r_fw_err_dl j s = Some s')
| SkRdRead (j : nat) (H : r_rd_read j s = Some s')
| SkRdCtx (j : nat) (H : r_rd_ctx j s = Some s')
| SkRdGiveup (j : nat) (H : r_rd_giveup j s = Some s')
| SkWrTake (j : nat) (H : r_wr_take j s = Some s')
| SkWrExit (j : nat) (H : r_wr_exit j s = Some s')
| SkWrWrite (j : nat) (H : r_wr_write j s = Some s')
| SkWrCtx (j : nat) (H : r_wr_ctx j s = Some s')
| SkWrGiveup (j : nat) (H : r_wr_giveup j s = Some s')
| SkDlGiveup (j : nat) (H : r_dl_giveup j s = Some s').

Lemma rules_in cf r s :
  In r (rules cf s) -> r = r_fw_exit \/ exists j, In r (map (fun r0 : nat -> rule => r0 j) (per_client_rules cf)).
Proof.
  unfold rules. intros [<-|H]; auto. right. apply in_flat_map in H. destruct H as (j & _ & H). eauto.
Qed.

Lemma lstep_kind cf s l s' : lstep cf s l = Some s' -> step_kind cf s s'.
Proof.
  destruct l; simpl; intros H.
  - inversion H. eapply SkExt; eauto.
  - destruct (nth_error (rules cf s) n) eqn:E; try discriminate.
    apply nth_error_In in E. apply rules_in in E. destruct E as [->|(j & E)].
    + apply SkFwExit; auto.
    + simpl in E.
      destruct E as [<-|[<-|[<-|[<-|[<-|[<-|[<-|[<-|[<-|[<-|[<-|[<-|[<-|[]]]]]]]]]]]]]].
      * eapply SkFwCmd; eauto.
      * eapply SkFwErrRd; eauto.
      * eapply SkFwErrWr; eauto.
      * eapply SkFwErrDl; eauto.
      * eapply SkRdRead; eauto.
      * eapply SkRdCtx; eauto.
      * eapply SkRdGiveup; eauto.
      * eapply SkWrTake; eauto.
      * eapply SkWrExit; eauto.
      * eapply SkWrWrite; eauto.
      * eapply SkWrCtx; eauto.
      * eapply SkWrGiveup; eauto.
      * eapply SkDlGiveup; eauto.
Qed.

Lemma rules_has_client cf r j s : (j < length (clients s))%nat -> In r (per_client_rules cf) -> In (r j) (rules cf s).
Proof.
  intros Hi Hr. unfold rules. right. apply in_flat_map. exists j. split. apply in_seq; lia.
  apply (in_map (fun r0 : nat -> rule => r0 j)); auto.
Qed.

Lemma rules_has_exit cf s : In r_fw_exit (rules cf s).
Proof. unfold rules. left. auto. Qed.

Lemma quiescent_none cf s r : quiescent cf s = true -> In r (rules cf s) -> r s = None.
Proof.
  unfold quiescent. intros H Hin. apply negb_true_iff in H.
  destruct (r s) eqn:E; auto.
  assert (existsb (enabled s) (rules cf s) = true).
  { apply existsb_exists. exists r. split; auto. unfold enabled. rewrite E. auto. }
  congruence.
Qed.

Lemma lrun_inv cf (P : state -> Prop) :
  (forall s l s', P s -> lstep cf s l = Some s' -> P s') ->
  forall ls s s', P s -> lrun cf s ls = Some s' -> P s'.
Proof.
  intros Hstep. induction ls; simpl; intros.
  - inversion H0; subst; auto.
  - destruct (lstep cf s a) eqn:E; try discriminate. eauto.
Qed.

Lemma reachable_inv cf (P : state -> Prop) :
  P init -> (forall s l s', P s -> lstep cf s l = Some s' -> P s') -> forall s, reachable cf s -> P s.
Proof. intros H0 Hs s (ls & Hr). eapply lrun_inv; eauto. Qed.

Ltac open_rule H :=
  repeat match type of H with
         | match ?x with _ => _ end = Some _ => let E := fresh "E" in destruct x eqn:E; try discriminate H
         | (if ?x then _ else _) = Some _ => let E := fresh "E" in destruct x eqn:E; try discriminate H
         end;
  try (inversion H; subst; clear H).

Ltac nu :=
  repeat match goal with
         | H : context [nth_error (upd ?n ?x ?l) ?m] |- _ => rewrite (nth_upd n m x l) in H
         | |- context [nth_error (upd ?n ?x ?l) ?m] => rewrite (nth_upd n m x l)
         | H : context [length (upd _ _ _)] |- _ => rewrite length_upd in H
         | |- context [length (upd _ _ _)] => rewrite length_upd
         end.

Lemma nth_upd_some {A} (l : list A) j i x y :
  nth_error l j = Some y -> nth_error (upd j x l) i = if Nat.eqb j i then Some x else nth_error l i.
Proof.
  intros H. rewrite nth_upd. destruct (Nat.eqb_spec j i); auto. subst.
  apply nth_some_lt in H. destruct (Nat.ltb_spec i (length l)); auto. lia.
Qed.

(* ---------- the shape of one step, in normal form ---------- *)
(* what the environment can do to one record *)
Inductive env_upd : client -> client -> Prop :=
| EuDeliver c e :
    env_upd c (mkClient (p_name c) (p_dialled c) (p_reg c) (p_dl c) (p_rd c) (p_wr c) (p_gctx c) (p_buf c)
                        (p_inbox c ++ [e]) (p_rfail c) (p_wmode c) (p_honour c) (p_delivered c ++ [e]))
| EuFailRead c :
    env_upd c (mkClient (p_name c) (p_dialled c) (p_reg c) (p_dl c) (p_rd c) (p_wr c) (p_gctx c) (p_buf c)
                        (p_inbox c) true (p_wmode c) (p_honour c) (p_delivered c))
| EuSetWrite c m :
    env_upd c (mkClient (p_name c) (p_dialled c) (p_reg c) (p_dl c) (p_rd c) (p_wr c) (p_gctx c) (p_buf c)
                        (p_inbox c) (p_rfail c) m (p_honour c) (p_delivered c))
| EuDialOk c h : p_dl c = DLDial ->
    env_upd c (mkClient (p_name c) (p_dialled c) (p_reg c) DLDead RDRead WRSel (p_gctx c) (p_buf c)
                        (p_inbox c) (p_rfail c) (p_wmode c) h (p_delivered c))
| EuDialFail c : p_dl c = DLDial -> env_upd c (set_dl c DLOffer).

(* the internal transitions that touch one record only: record before, record after, events logged *)
Inductive local (cf : cfg) (s : state) (j : nat) : client -> client -> list pev -> Prop :=
| LoBad c e : fw s = true -> p_rd c = RDOffer e -> forward cf (p_name c) e = FBad ->
    local cf s j c (set_rd c RDRead false) [EvCmd j e; EvBad j e]
| LoRej c e : fw s = true -> p_rd c = RDOffer e -> forward cf (p_name c) e = FReject ->
    local cf s j c (set_rd c RDRead false) [EvCmd j e; EvRej j e]
| LoErrRd c : fw s = true -> p_rd c = RDOfferErr ->
    local cf s j c (set_reg (set_rd c RDDead true) false) [EvDisc j (p_name c) (p_reg c)]
| LoErrWr c : fw s = true -> p_wr c = WROfferErr ->
    local cf s j c (set_reg (set_wr c WRDead true) false) [EvDisc j (p_name c) (p_reg c)]
| LoErrDl c : fw s = true -> p_dl c = DLOffer ->
    local cf s j c (set_reg (set_dl c DLDead) false) [EvDisc j (p_name c) (p_reg c)]
| LoRdRead c e rest : p_rd c = RDRead -> p_inbox c = e :: rest ->
    local cf s j c (set_inbox (set_rd c (RDOffer e) false) rest) []
| LoRdFail c : p_rd c = RDRead -> p_inbox c = [] -> p_rfail c = true ->
    local cf s j c (set_rd c RDOfferErr false) []
| LoRdCtx c : p_rd c = RDRead -> ctx_done s c = true -> p_honour c = true ->
    local cf s j c (set_rd c RDOfferErr false) []
| LoRdGiveup c e : p_rd c = RDOffer e -> ctx_done s c = true ->
    local cf s j c (set_rd c RDDead true) [EvRdLost j e]
| LoRdGiveupErr c : p_rd c = RDOfferErr -> ctx_done s c = true ->
    local cf s j c (set_rd c RDDead true) []
| LoWrTake c e rest : p_wr c = WRSel -> p_buf c = e :: rest ->
    local cf s j c (set_buf (set_wr c (WRWrite e) false) rest) [EvTake j e]
| LoWrExit c : p_wr c = WRSel -> ctx_done s c = true ->
    local cf s j c (set_wr c WRDead true) []
| LoWrOk c e : p_wr c = WRWrite e -> p_wmode c = WOk ->
    local cf s j c (set_wr c WRSel false) [EvOut j e]
| LoWrFail c e : p_wr c = WRWrite e -> p_wmode c = WFail ->
    local cf s j c (set_wr c WROfferErr false) [EvWFail j e]
| LoWrCtx c e : p_wr c = WRWrite e -> p_wmode c = WBlock -> ctx_done s c = true -> p_honour c = true ->
    local cf s j c (set_wr c WROfferErr false) [EvWFail j e]
| LoWrGiveup c : p_wr c = WROfferErr -> ctx_done s c = true ->
    local cf s j c (set_wr c WRDead true) []
| LoDlGiveup c : p_dl c = DLOffer -> cancelled s = true ->
    local cf s j c (set_dl c DLDead) [].

Inductive shape (cf : cfg) (s s' : state) : Prop :=
| ShSame : s' = s -> shape cf s s'
| ShEnvUpd j c c' : nth_error (clients s) j = Some c -> env_upd c c' ->
    s' = set_clients s (upd j c' (clients s)) -> shape cf s s'
| ShAttachNew n h : find_reg n (clients s) 0 = None ->
    s' = set_clients s (clients s ++ [new_attached n h]) -> shape cf s s'
| ShAttachOver n h i c : find_reg n (clients s) 0 = Some i -> nth_error (clients s) i = Some c ->
    s' = set_clients s (upd i (set_reg c false) (clients s) ++ [new_attached n h]) -> shape cf s s'
| ShCancel : s' = mkState (fw s) true (clients s) (crashed s) (log s) -> shape cf s s'
| ShFwExit : fw s = true -> cancelled s = true ->
    s' = mkState false (cancelled s) (clients s) (crashed s) (log s) -> shape cf s s'
| ShLocal j c c' evs : nth_error (clients s) j = Some c -> local cf s j c c' evs ->
    s' = add_log (set_clients s (upd j c' (clients s))) evs -> shape cf s s'
| ShRoute j cj e d e' i ci :
    fw s = true -> nth_error (clients s) j = Some cj -> p_rd cj = RDOffer e -> forward cf (p_name cj) e = FRoute d e' ->
    find_reg d (upd j (set_rd cj RDRead false) (clients s)) 0 = Some i ->
    nth_error (upd j (set_rd cj RDRead false) (clients s)) i = Some ci ->
    s' = add_log (set_clients s (upd i (fst (enqueue_c cf ci e')) (upd j (set_rd cj RDRead false) (clients s))))
                 [EvCmd j e; EvFwd j e i e' (snd (enqueue_c cf ci e'))] -> shape cf s s'
| ShDial j cj e d e' :
    fw s = true -> nth_error (clients s) j = Some cj -> p_rd cj = RDOffer e -> forward cf (p_name cj) e = FRoute d e' ->
    find_reg d (upd j (set_rd cj RDRead false) (clients s)) 0 = None ->
    s' = add_log (set_clients s (upd j (set_rd cj RDRead false) (clients s) ++ [fst (enqueue_c cf (new_dialled d) e')]))
                 [EvCmd j e; EvDial (length (clients s)) d;
                  EvFwd j e (length (clients s)) e' (snd (enqueue_c cf (new_dialled d) e'))] -> shape cf s s'.

Lemma forward_no_crash cf n e : forward cf n e <> FCrash.
Proof.
  unfold forward, forward_gen.
  destruct (negb (e_hdr e) || negb (e_src e =? n)); try discriminate.
  destruct (cf_icp cf (e_src e) (e_dst e)); try discriminate.
  destruct (e_next e) as [[|x l]|]; discriminate.
Qed.

Lemma lstep_shape cf s l s' : lstep cf s l = Some s' -> shape cf s s'.
Proof.
  intros H. apply lstep_kind in H.
  destruct H as [a H|H|j H|j H|j H|j H|j H|j H|j H|j H|j H|j H|j H|j H|j H].
  - subst. destruct a; simpl; unfold with_client.
    + destruct (find_reg n (clients s) 0) eqn:E.
      * destruct (nth_error (clients s) n0) eqn:E1.
        -- eapply ShAttachOver; eauto.
        -- apply find_reg0_some in E. destruct E as (x & Hx & _). congruence.
      * eapply ShAttachNew; eauto.
    + destruct (nth_error (clients s) j) eqn:E; [|apply ShSame; auto]. eapply ShEnvUpd; eauto. apply EuDeliver.
    + destruct (nth_error (clients s) j) eqn:E; [|apply ShSame; auto]. eapply ShEnvUpd; eauto. apply EuFailRead.
    + destruct (nth_error (clients s) j) eqn:E; [|apply ShSame; auto]. eapply ShEnvUpd; eauto. apply EuSetWrite.
    + destruct (nth_error (clients s) j) eqn:E; [|apply ShSame; auto].
      destruct (p_dl c) eqn:Ed; try (apply ShSame; auto; fail). eapply ShEnvUpd; eauto. apply EuDialOk; auto.
    + destruct (nth_error (clients s) j) eqn:E; [|apply ShSame; auto].
      destruct (p_dl c) eqn:Ed; try (apply ShSame; auto; fail). eapply ShEnvUpd; eauto. apply EuDialFail; auto.
    + apply ShCancel; auto.
  - unfold r_fw_exit in H. open_rule H. apply andb_true_iff in E. destruct E. eapply ShFwExit; eauto.
  - unfold r_fw_cmd in H. open_rule H.
    + eapply ShLocal; eauto. eapply LoBad; eauto.
    + eapply ShLocal; eauto. eapply LoRej; eauto.
    + exfalso. eapply forward_no_crash; eauto.
    + eapply ShRoute; eauto.
    + rewrite length_upd. eapply ShDial; eauto.
  - unfold r_fw_err_rd, disconnect in H. open_rule H. eapply ShLocal; eauto. eapply LoErrRd; eauto.
  - unfold r_fw_err_wr, disconnect in H. open_rule H. eapply ShLocal; eauto. eapply LoErrWr; eauto.
  - unfold r_fw_err_dl, disconnect in H. open_rule H. eapply ShLocal; eauto. eapply LoErrDl; eauto.
  - unfold r_rd_read in H. open_rule H.
    + eapply ShLocal with (evs := []); [eassumption | eapply LoRdFail; eauto | unfold add_log, set_clients; simpl; rewrite app_nil_r; reflexivity].
    + eapply ShLocal with (evs := []); [eassumption | eapply LoRdRead; eauto | unfold add_log, set_clients; simpl; rewrite app_nil_r; reflexivity].
  - unfold r_rd_ctx in H. open_rule H. apply andb_true_iff in E1. destruct E1.
    eapply ShLocal with (evs := []); [eassumption | eapply LoRdCtx; eauto | unfold add_log, set_clients; simpl; rewrite app_nil_r; reflexivity].
  - unfold r_rd_giveup in H. open_rule H.
    + eapply ShLocal; eauto. eapply LoRdGiveup; eauto.
    + eapply ShLocal with (evs := []); [eassumption | eapply LoRdGiveupErr; eauto | unfold add_log, set_clients; simpl; rewrite app_nil_r; reflexivity].
  - unfold r_wr_take in H. open_rule H. eapply ShLocal; eauto. eapply LoWrTake; eauto.
  - unfold r_wr_exit in H. open_rule H.
    eapply ShLocal with (evs := []); [eassumption | eapply LoWrExit; eauto | unfold add_log, set_clients; simpl; rewrite app_nil_r; reflexivity].
  - unfold r_wr_write in H. open_rule H.
    + eapply ShLocal; eauto. eapply LoWrOk; eauto.
    + eapply ShLocal; eauto. eapply LoWrFail; eauto.
  - unfold r_wr_ctx in H. open_rule H. apply andb_true_iff in E2. destruct E2.
    eapply ShLocal; eauto. eapply LoWrCtx; eauto.
  - unfold r_wr_giveup in H. open_rule H.
    eapply ShLocal with (evs := []); [eassumption | eapply LoWrGiveup; eauto | unfold add_log, set_clients; simpl; rewrite app_nil_r; reflexivity].
  - unfold r_dl_giveup in H. open_rule H.
    eapply ShLocal with (evs := []); [eassumption | eapply LoDlGiveup; eauto | unfold add_log, set_clients; simpl; rewrite app_nil_r; reflexivity].
Qed.

Ltac proj :=
  unfold cmds, rd_lost, fwds, enqs, dropped, takes, outs, wfails, dials, discs in *;
  rewrite ?pick_app in *; simpl in *.

(* ---------- records keep their name and origin; the table entry of a record can only be lost ---------- *)
Lemma env_upd_static c c' : env_upd c c' ->
  p_name c' = p_name c /\ p_dialled c' = p_dialled c /\ p_reg c' = p_reg c /\ p_buf c' = p_buf c /\ p_gctx c' = p_gctx c.
Proof. intros H; inversion H; subst; simpl; auto. Qed.

Lemma local_static cf s j c c' evs : local cf s j c c' evs ->
  p_name c' = p_name c /\ p_dialled c' = p_dialled c /\ (p_reg c' = true -> p_reg c = true).
Proof. intros H; inversion H; subst; simpl; auto; repeat split; auto; discriminate. Qed.

Lemma enqueue_static cf c e : 
  p_name (fst (enqueue_c cf c e)) = p_name c /\ p_dialled (fst (enqueue_c cf c e)) = p_dialled c /\
  p_reg (fst (enqueue_c cf c e)) = p_reg c.
Proof. unfold enqueue_c. destruct (Nat.ltb _ _); simpl; auto. Qed.

(* where the record at index i of the new state comes from *)
Inductive origin (s : state) (i : nat) (c' : client) : Prop :=
| OrOld c : nth_error (clients s) i = Some c -> p_name c' = p_name c -> p_dialled c' = p_dialled c ->
            (p_reg c' = true -> p_reg c = true) -> origin s i c'
| OrNew : i = length (clients s) -> p_reg c' = true -> origin s i c'.

Lemma shape_origin cf s s' i c' : shape cf s s' -> nth_error (clients s') i = Some c' -> origin s i c'.
Proof.
  intros Sh H. destruct Sh; subst; simpl in *.
  - eapply OrOld; eauto.
  - apply nth_upd_inv in H. destruct H as [[-> ->]|[_ H]].
    + destruct (env_upd_static _ _ H1) as (A & B & C & _). eapply OrOld; eauto; congruence.
    + eapply OrOld; eauto.
  - apply nth_app_cases in H. destruct H as [[H _]|[-> ->]]; [eapply OrOld; eauto | apply OrNew; auto].
  - apply nth_app_cases in H. destruct H as [[H _]|[-> ->]].
    + apply nth_upd_inv in H. destruct H as [[-> ->]|[_ H]]; eapply OrOld; eauto. simpl. discriminate.
    + rewrite length_upd. apply OrNew; auto.
  - eapply OrOld; eauto.
  - eapply OrOld; eauto.
  - apply nth_upd_inv in H. destruct H as [[-> ->]|[_ H]].
    + destruct (local_static _ _ _ _ _ _ H1) as (A & B & C). eapply OrOld; eauto.
    + eapply OrOld; eauto.
  - apply nth_upd_inv in H. destruct H as [[-> ->]|[_ H]].
    + destruct (enqueue_static cf ci e') as (A & B & C).
      apply nth_upd_inv in H5. destruct H5 as [[-> ->]|[_ H5]]; eapply OrOld; eauto; rewrite ?A, ?B, ?C; auto.
    + apply nth_upd_inv in H. destruct H as [[-> ->]|[_ H]]; eapply OrOld; eauto.
  - apply nth_app_cases in H. destruct H as [[H _]|[-> ->]].
    + apply nth_upd_inv in H. destruct H as [[-> ->]|[_ H]]; eapply OrOld; eauto.
    + rewrite length_upd. apply OrNew; auto. destruct (enqueue_static cf (new_dialled d) e') as (_ & _ & C). rewrite C. auto.
Qed.

(* the new state has at least the old records *)
Lemma shape_length cf s s' : shape cf s s' -> (length (clients s) <= length (clients s'))%nat.
Proof.
  intros Sh. destruct Sh; subst; simpl; rewrite ?app_length, ?length_upd; simpl; lia.
Qed.

(* ---------- the log of a step ---------- *)
Lemma shape_log cf s s' : shape cf s s' -> exists evs, log s' = log s ++ evs.
Proof.
  intros Sh. destruct Sh; subst; simpl; eauto; exists []; rewrite app_nil_r; auto.
Qed.

(* ---------- names: of two records with the same name the earlier one has lost the table entry ---------- *)
Definition inv_names (s : state) : Prop :=
  forall i1 i2 c1 c2, nth_error (clients s) i1 = Some c1 -> nth_error (clients s) i2 = Some c2 ->
    p_name c1 = p_name c2 -> (i1 < i2)%nat -> p_reg c1 = false.

Lemma not_true_false b : (b = true -> False) -> b = false.
Proof. destruct b; auto. intros H; exfalso; auto. Qed.

Lemma inv_names_step cf s l s' : inv_names s -> lstep cf s l = Some s' -> inv_names s'.
Proof.
  intros I H. apply lstep_shape in H. intros i1 i2 c1 c2 H1 H2 Hn Hlt.
  pose proof (shape_origin _ _ _ _ _ H H1) as O1. pose proof (shape_origin _ _ _ _ _ H H2) as O2.
  destruct O1 as [d1 D1 N1 _ R1|E1 _].
  2:{ apply nth_some_lt in H2. subst i1. exfalso.
      assert (length (clients s') <= S (length (clients s)))%nat.
      { destruct H; subst; simpl; rewrite ?app_length, ?length_upd; simpl; lia. }
      lia. }
  destruct O2 as [d2 D2 N2 _ _|E2 _].
  - apply not_true_false. intros T. apply R1 in T. rewrite (I _ _ _ _ D1 D2) in T; try discriminate; auto. congruence.
  - (* the later record was created by this step *)
    subst i2. apply not_true_false. intros T. destruct H; subst; simpl in *;
      try (apply nth_some_lt in H2; rewrite ?length_upd in H2; lia).
    + (* AddClient, name not in the table *)
      rewrite nth_app_last in H2. inversion H2; subst c2. simpl in Hn.
      rewrite nth_error_app1 in H1 by (eapply nth_some_lt; eauto).
      pose proof (find_reg_none _ _ _ H c1 (nth_error_In _ _ H1) T). congruence.
    + (* AddClient replacing record i *)
      rewrite <- (length_upd i (set_reg c false) (clients s)) in H2. rewrite nth_app_last in H2. inversion H2; subst c2.
      simpl in Hn. rewrite nth_error_app1 in H1 by (rewrite length_upd; eapply nth_some_lt; eauto).
      apply nth_upd_inv in H1. destruct H1 as [[-> ->]|[Hne H1]]; [simpl in T; discriminate|].
      apply find_reg0_some in H. destruct H as (x & Hx & Hr & Hk). rewrite Hx in H0. inversion H0; subst x.
      destruct (Nat.lt_trichotomy i1 i) as [L|[L|L]]; try lia.
      * rewrite (I _ _ _ _ H1 Hx) in T; try discriminate; auto. congruence.
      * rewrite (I _ _ _ _ Hx H1) in Hr; try discriminate; auto. congruence.
    + (* dial on demand *)
      rewrite <- (length_upd j (set_rd cj RDRead false) (clients s)) in H2. rewrite nth_app_last in H2. inversion H2; subst c2.
      destruct (enqueue_static cf (new_dialled d) e') as (A & _ & _). rewrite A in Hn. simpl in Hn.
      rewrite nth_error_app1 in H1 by (rewrite length_upd; eapply nth_some_lt; eauto).
      match goal with Hf : find_reg _ _ _ = None |- _ => pose proof (find_reg_none _ _ _ Hf c1 (nth_error_In _ _ H1) T) end.
      congruence.
Qed.

Lemma names_ok cf s : reachable cf s -> inv_names s.
Proof.
  apply (reachable_inv cf inv_names); [|apply inv_names_step].
  intros i1 i2 c1 c2 H. destruct i1; discriminate.
Qed.

(* a name has at most one table entry *)
Lemma reg_unique cf s : reachable cf s -> forall i1 i2 c1 c2,
  nth_error (clients s) i1 = Some c1 -> nth_error (clients s) i2 = Some c2 ->
  p_name c1 = p_name c2 -> p_reg c1 = true -> p_reg c2 = true -> i1 = i2.
Proof.
  intros R i1 i2 c1 c2 H1 H2 Hn R1 R2. pose proof (names_ok _ _ R) as I.
  destruct (Nat.lt_trichotomy i1 i2) as [L|[L|L]]; auto.
  - rewrite (I _ _ _ _ H1 H2 Hn L) in R1. discriminate.
  - rewrite (I _ _ _ _ H2 H1 (eq_sym Hn) L) in R2. discriminate.
Qed.

(* ---------- C16: write-side accounting per record ---------- *)
Definition wpend (c : client) : list env := match p_wr c with WRWrite e => [e] | _ => [] end.

(* E enqueued, T taken by the write loop, O handed to the connection, F failed writes *)
Definition wok (cf : cfg) (c : client) (E T O F : list env) : Prop :=
  E = T ++ p_buf c /\ T = O ++ F ++ wpend c /\
  (F = [] \/ ((p_wr c = WROfferErr \/ p_wr c = WRDead) /\ length F = 1%nat)) /\
  (length (p_buf c) <= cf_buf cf)%nat /\
  (p_dl c = DLDial -> p_wr c = WRIdle).

Definition inv_w (cf : cfg) (s : state) : Prop :=
  forall i, match nth_error (clients s) i with
            | Some c => wok cf c (enqs i (log s)) (takes i (log s)) (outs i (log s)) (wfails i (log s))
            | None => enqs i (log s) = [] /\ takes i (log s) = [] /\ outs i (log s) = [] /\ wfails i (log s) = []
            end.

Lemma wok_env cf c c' E T O F : env_upd c c' -> wok cf c E T O F -> wok cf c' E T O F.
Proof.
  intros U W. inversion U; subst; destruct W as (A & B & C & D & G); unfold wok, wpend in *; simpl; auto.
  - rewrite (G H) in *. simpl in *. repeat split; auto.
    + destruct C as [C|[[C|C] _]]; auto; discriminate.
    + intros; discriminate.
  - repeat split; auto.
Qed.

Lemma wok_set_reg cf c b E T O F : wok cf c E T O F -> wok cf (set_reg c b) E T O F.
Proof. unfold wok, wpend; simpl; auto. Qed.

Lemma wok_set_rd cf c r g E T O F : wok cf c E T O F -> wok cf (set_rd c r g) E T O F.
Proof. unfold wok, wpend; simpl; auto. Qed.

Lemma wok_enqueue cf c e' E T O F : wok cf c E T O F ->
  wok cf (fst (enqueue_c cf c e')) (E ++ (if snd (enqueue_c cf c e') then [e'] else [])) T O F.
Proof.
  intros (A & B & C & D & G). unfold enqueue_c. destruct (Nat.ltb_spec (length (p_buf c)) (cf_buf cf)); simpl.
  - unfold wok, wpend in *; simpl. repeat split; auto.
    + rewrite A, app_assoc. auto.
    + rewrite app_length. simpl. lia.
  - rewrite app_nil_r. unfold wok; auto.
Qed.

(* the projections of the events a local transition of record j logs, seen from record i *)
Ltac rw_pcs :=
  repeat match goal with
         | H : p_wr _ = _ |- _ => progress (rewrite H in * )
         | H : p_rd _ = _ |- _ => progress (rewrite H in * )
         | H : p_dl _ = _ |- _ => progress (rewrite H in * )
         | H : p_buf _ = _ |- _ => progress (rewrite H in * )
         | H : p_inbox _ = _ |- _ => progress (rewrite H in * )
         end.

Lemma local_w cf s j c c' evs E T O F : local cf s j c c' evs -> wok cf c E T O F ->
  wok cf c' (E ++ enqs j evs) (T ++ takes j evs) (O ++ outs j evs) (F ++ wfails j evs).
Proof.
  intros L W.
  inversion L; subst; destruct W as (A & B & C & D & G); proj; rewrite ?Nat.eqb_refl, ?app_nil_r;
    unfold wok, wpend in *; simpl in *; rw_pcs; simpl in *; rewrite ?app_nil_r in *;
    repeat split; auto;
    try (intros X; discriminate X); try (intros X; apply G in X; discriminate X); try (simpl in *; lia);
    try (destruct C as [C|[[C|C] C']]; try discriminate C; auto; fail);
    try (destruct C as [C|[[C|C] C']]; try discriminate C; subst; simpl; rewrite <- ?app_assoc, ?app_nil_r; simpl; auto; fail).
Qed.

Lemma local_w_other cf s j c c' evs i : local cf s j c c' evs -> i <> j ->
  enqs i evs = [] /\ takes i evs = [] /\ outs i evs = [] /\ wfails i evs = [].
Proof.
  intros L Hne. assert (Nat.eqb j i = false) as X by (apply Nat.eqb_neq; auto).
  inversion L; subst; proj; rewrite ?X; auto.
Qed.

Lemma inv_w_step cf s l s' : inv_w cf s -> lstep cf s l = Some s' -> inv_w cf s'.
Proof.
  intros I H. apply lstep_shape in H. intros k. pose proof (I k) as Ik.
  destruct H; subst; simpl.
  - auto.
  - (* environment on one record *)
    rewrite (nth_upd_some _ _ _ _ _ H). destruct (Nat.eqb_spec j k); auto. subst.
    rewrite H in Ik. eapply wok_env; eauto.
  - (* attach new *)
    destruct (nth_error (clients s) k) eqn:E.
    + rewrite nth_error_app1 by (eapply nth_some_lt; eauto). rewrite E. auto.
    + destruct Ik as (A & B & C & D). rewrite A, B, C, D.
      destruct (nth_error (clients s ++ _) k) eqn:E2; auto.
      apply nth_app_cases in E2. destruct E2 as [[E2 _]|[_ ->]]; [congruence|].
      unfold wok, wpend; simpl. repeat split; auto. lia. intros; discriminate.
  - (* attach over *)
    destruct (nth_error (clients s) k) eqn:E.
    + rewrite nth_error_app1 by (rewrite length_upd; eapply nth_some_lt; eauto).
      rewrite (nth_upd_some _ _ _ _ _ H0). destruct (Nat.eqb_spec i k); auto.
      * subst. rewrite H0 in E. inversion E; subst. apply wok_set_reg. auto.
      * rewrite E. auto.
    + destruct Ik as (A & B & C & D). rewrite A, B, C, D.
      destruct (nth_error (upd i _ (clients s) ++ _) k) eqn:E2; auto.
      apply nth_app_cases in E2. destruct E2 as [[E2 _]|[_ ->]].
      * apply nth_upd_inv in E2. destruct E2 as [[-> _]|[_ E2]]; congruence.
      * unfold wok, wpend; simpl. repeat split; auto. lia. intros; discriminate.
  - auto.
  - auto.
  - (* local *)
    rewrite (nth_upd_some _ _ _ _ _ H). proj. destruct (Nat.eqb_spec j k).
    + subst. rewrite H in Ik. apply (local_w _ _ _ _ _ _ _ _ _ _ H0) in Ik. proj. auto.
    + destruct (local_w_other _ _ _ _ _ _ k H0) as (A & B & C & D); auto. proj.
      rewrite A, B, C, D, !app_nil_r. auto.
  - (* route *)
    pose proof (wok_enqueue cf ci e') as WE. destruct (enqueue_c cf ci e') as [ci' ok] eqn:EQ. simpl in WE. simpl.
    rewrite (nth_upd_some _ _ _ _ _ H4).
    destruct (Nat.eqb_spec i k).
    + subst.
      assert (wok cf ci (enqs k (log s)) (takes k (log s)) (outs k (log s)) (wfails k (log s))) as W.
      { apply nth_upd_inv in H4. destruct H4 as [[-> ->]|[_ H4]].
        - rewrite H0 in Ik. apply wok_set_rd. auto.
        - rewrite H4 in Ik. auto. }
      apply WE in W. proj. rewrite Nat.eqb_refl, ?app_nil_r. destruct ok; simpl; rewrite ?app_nil_r in *; auto.
    + assert (Nat.eqb i k = false) as X by (apply Nat.eqb_neq; auto).
      proj. rewrite X. replace (if ok then [] else []) with (@nil env) by (destruct ok; auto).
      destruct ok; simpl; rewrite !app_nil_r; (rewrite (nth_upd_some _ _ _ _ _ H0); destruct (Nat.eqb_spec j k); auto;
      subst; rewrite H0 in Ik; apply wok_set_rd; auto).
  - (* dial *)
    pose proof (wok_enqueue cf (new_dialled d) e') as WE.
    destruct (enqueue_c cf (new_dialled d) e') as [cn ok] eqn:EQ. simpl in WE. simpl.
    destruct (nth_error (clients s) k) eqn:E.
    + pose proof (nth_some_lt _ _ _ E) as Hlt.
      rewrite nth_error_app1 by (rewrite length_upd; auto).
      assert (Nat.eqb (length (clients s)) k = false) as X by (apply Nat.eqb_neq; lia).
      proj. rewrite X. destruct ok; simpl; rewrite !app_nil_r; (rewrite (nth_upd_some _ _ _ _ _ H0); destruct (Nat.eqb_spec j k);
      [subst; rewrite H0 in E; inversion E; subst; apply wok_set_rd; auto | rewrite E; auto]).
    + destruct Ik as (A & B & C & D).
      destruct (nth_error (upd j _ (clients s) ++ _) k) eqn:E2.
      * apply nth_app_cases in E2. destruct E2 as [[E2 _]|[E2 ->]].
        -- apply nth_upd_inv in E2. destruct E2 as [[-> _]|[_ E2]]; congruence.
        -- rewrite length_upd in E2. subst k.
           assert (wok cf (new_dialled d) [] [] [] []) as W.
           { unfold wok, wpend; simpl. repeat split; auto. lia. }
           apply WE in W. proj. rewrite A, B, C, D, Nat.eqb_refl. destruct ok; simpl in *; auto.
      * apply nth_error_None in E2. rewrite app_length, length_upd in E2. simpl in E2.
        assert (Nat.eqb (length (clients s)) k = false) as X by (apply Nat.eqb_neq; lia).
        proj. rewrite A, B, C, D, X. destruct ok; auto.
Qed.

Lemma w_ok cf s : reachable cf s -> inv_w cf s.
Proof. apply (reachable_inv cf (inv_w cf)); [|apply inv_w_step]. intros i. destruct i; simpl; auto. Qed.

(* ---------- C16: an envelope is dropped only when the destination's buffer is full ---------- *)
Definition drops_full (cap : nat) (l : list pev) : Prop :=
  forall pre j e i e' post, l = pre ++ EvFwd j e i e' false :: post -> occupancy i pre = cap.

Lemma drops_full_app cap l evs :
  drops_full cap l ->
  (forall pre' j e i e' post', evs = pre' ++ EvFwd j e i e' false :: post' -> occupancy i (l ++ pre') = cap) ->
  drops_full cap (l ++ evs).
Proof.
  intros D N pre j e i e' post H. apply app_eq_app in H. destruct H as (m & [[H1 H2]|[H1 H2]]).
  - destruct m as [|x m'].
    + simpl in H2. rewrite app_nil_r in H1. subst l. rewrite <- (app_nil_r pre). eapply N. rewrite <- H2. reflexivity.
    + simpl in H2. inversion H2; subst. eapply D. reflexivity.
  - subst pre. eapply N. eauto.
Qed.

Lemma occupancy_buf cf s i c : inv_w cf s -> nth_error (clients s) i = Some c ->
  occupancy i (log s) = length (p_buf c).
Proof.
  intros I H. specialize (I i). rewrite H in I. destruct I as (A & _). unfold occupancy. rewrite A, app_length. lia.
Qed.

Lemma occupancy_none cf s i : inv_w cf s -> nth_error (clients s) i = None -> occupancy i (log s) = 0%nat.
Proof.
  intros I H. specialize (I i). rewrite H in I. destruct I as (A & B & _). unfold occupancy. rewrite A, B. auto.
Qed.

Ltac no_drop_in H :=
  let pre' := fresh "pre" in
  intros pre' ? ? ? ? ? H;
  repeat (destruct pre' as [|? pre']; simpl in H; try discriminate H; inversion H; subst);
  try discriminate.

Definition inv_d (cf : cfg) (s : state) : Prop := drops_full (cf_buf cf) (log s).

Definition not_drop (ev : pev) : Prop := match ev with EvFwd _ _ _ _ false => False | _ => True end.

Lemma no_drop_forall evs : Forall not_drop evs ->
  forall pre' j0 e i e' post', evs = pre' ++ EvFwd j0 e i e' false :: post' -> False.
Proof.
  intros F pre' j0 e i e' post' H. rewrite Forall_forall in F.
  apply (F (EvFwd j0 e i e' false)). rewrite H. apply in_elt.
Qed.

Lemma local_no_drop cf s j c c' evs : local cf s j c c' evs ->
  forall pre' j0 e i e' post', evs = pre' ++ EvFwd j0 e i e' false :: post' -> False.
Proof. intros L. apply no_drop_forall. inversion L; subst; repeat constructor. Qed.

Lemma drop_in_2 a ev pre j e i e' post : not_drop a ->
  [a; ev] = pre ++ EvFwd j e i e' false :: post -> pre = [a] /\ ev = EvFwd j e i e' false.
Proof.
  intros Na H. destruct pre as [|x pre]; simpl in H.
  - inversion H; subst. simpl in Na. tauto.
  - inversion H; subst. destruct pre as [|y pre]; simpl in *.
    + inversion H2; auto.
    + inversion H2. destruct pre; discriminate.
Qed.

Lemma drop_in_3 a b ev pre j e i e' post : not_drop a -> not_drop b ->
  [a; b; ev] = pre ++ EvFwd j e i e' false :: post -> pre = [a; b] /\ ev = EvFwd j e i e' false.
Proof.
  intros Na Nb H. destruct pre as [|x pre]; simpl in H.
  - inversion H; subst. simpl in Na. tauto.
  - inversion H; subst. apply drop_in_2 in H2; auto. destruct H2 as [-> ->]. auto.
Qed.

Lemma inv_d_step cf s l s' : inv_w cf s -> inv_d cf s -> lstep cf s l = Some s' -> inv_d cf s'.
Proof.
  unfold inv_d. intros W I H. apply lstep_shape in H. destruct H; subst; simpl; auto.
  - (* local *)
    apply drops_full_app; auto. intros. exfalso. eapply local_no_drop; eauto.
  - (* route *)
    apply drops_full_app; auto. intros pre' j0 e0 i0 e0' post' Heq.
    apply drop_in_2 in Heq; [|simpl; auto]. destruct Heq as [-> Heq].
    assert (snd (enqueue_c cf ci e') = false /\ i0 = i) as [H9 ->] by (inversion Heq; auto). clear Heq.
    assert (exists c0, nth_error (clients s) i = Some c0 /\ p_buf c0 = p_buf ci) as (c0 & Hc0 & Hb).
    { apply nth_upd_inv in H4. destruct H4 as [[-> ->]|[_ H4]]; eauto. }
    unfold occupancy. proj. rewrite !app_nil_r.
    pose proof (occupancy_buf _ _ _ _ W Hc0) as Ho. unfold occupancy in Ho. proj. rewrite Ho, Hb.
    unfold enqueue_c in H9. destruct (Nat.ltb_spec (length (p_buf ci)) (cf_buf cf)); simpl in H9; try discriminate.
    specialize (W i). rewrite Hc0 in W. destruct W as (_ & _ & _ & Wl & _). rewrite Hb in Wl. lia.
  - (* dial *)
    apply drops_full_app; auto. intros pre' j0 e0 i0 e0' post' Heq.
    apply drop_in_3 in Heq; [|simpl; auto|simpl; auto]. destruct Heq as [-> Heq].
    assert (snd (enqueue_c cf (new_dialled d) e') = false /\ i0 = length (clients s)) as [H10 ->] by (inversion Heq; auto).
    clear Heq.
    assert (nth_error (clients s) (length (clients s)) = None) as Hn by (apply nth_error_None; lia).
    unfold occupancy. proj. rewrite !app_nil_r.
    pose proof (occupancy_none _ _ _ W Hn) as Ho. unfold occupancy in Ho. proj. rewrite Ho.
    unfold enqueue_c in H10. simpl in H10. destruct (Nat.ltb_spec 0 (cf_buf cf)); simpl in H10; try discriminate. lia.
Qed.

Lemma d_ok cf s : reachable cf s -> inv_d cf s.
Proof.
  intros R. assert (inv_w cf s /\ inv_d cf s) as [_ D]; auto. revert s R.
  apply (reachable_inv cf (fun s => inv_w cf s /\ inv_d cf s)).
  - split. intros i; destruct i; simpl; auto. intros pre j e i e' post H. destruct pre; discriminate.
  - intros s l s' [W D] H. split. eapply inv_w_step; eauto. eapply inv_d_step; eauto.
Qed.

(* no drop in the history of record i: everything routed to it was enqueued *)
Lemma no_drop_fwds i l : dropped i l = [] -> fwds i l = enqs i l.
Proof.
  unfold dropped, fwds, enqs. induction l; simpl; auto. intros H.
  destruct a; auto. destruct ok; simpl in *.
  - destruct (Nat.eqb i0 i); simpl; auto. f_equal; auto.
  - destruct (Nat.eqb i0 i); simpl in *; auto. discriminate.
Qed.

Lemma dropped_split i l x : In x (dropped i l) -> exists pre j e post, l = pre ++ EvFwd j e i x false :: post.
Proof.
  unfold dropped. intros H. apply pick_In in H. destruct H as (ev & Hin & Hf).
  destruct ev; try discriminate. destruct ok; try discriminate.
  destruct (Nat.eqb_spec i0 i); try discriminate. inversion Hf; subst.
  apply in_split in Hin. destruct Hin as (pre & post & ->). eauto.
Qed.

(* C16 no loss: while the offered load never finds the destination's buffer full, nothing is dropped *)
Lemma no_loss cf s : reachable cf s -> forall i,
  (forall pre j e e' ok post, log s = pre ++ EvFwd j e i e' ok :: post -> (occupancy i pre < cf_buf cf)%nat) ->
  dropped i (log s) = [] /\ fwds i (log s) = enqs i (log s).
Proof.
  intros R i Hload.
  assert (dropped i (log s) = []) as Hd.
  { destruct (dropped i (log s)) eqn:E; auto. exfalso.
    assert (In e (dropped i (log s))) as Hin by (rewrite E; left; auto).
    apply dropped_split in Hin. destruct Hin as (pre & j & e0 & post & Hl).
    pose proof (d_ok _ _ R _ _ _ _ _ _ Hl) as Hfull. specialize (Hload _ _ _ _ _ _ Hl). lia. }
  split; auto. apply no_drop_fwds; auto.
Qed.

(* ---------- the route decision ---------- *)
Lemma forward_route cf n e d e' : forward cf n e = FRoute d e' ->
  e_hdr e = true /\ e_src e = n /\
  (exists d1, cf_icp cf (e_src e) (e_dst e) = Some d1 /\ e_dst e' = d1 /\
              d = match e_next e with Some (x :: l) => last (x :: l) 0 | _ => d1 end) /\
  e_hdr e' = true /\ e_src e' = e_src e /\ e_pay e' = e_pay e /\
  e_rec e' = e_rec e ++ [cf_name cf] /\
  e_next e' = match e_next e with Some (x :: l) => Some (removelast (x :: l)) | o => o end.
Proof.
  unfold forward, forward_gen. intros H.
  destruct (e_hdr e) eqn:Eh; simpl in H; try discriminate.
  destruct (Z.eqb_spec (e_src e) n); simpl in H; try discriminate.
  destruct (cf_icp cf (e_src e) (e_dst e)) as [d1|] eqn:Ei; try discriminate.
  destruct (e_next e) as [[|x l]|] eqn:En; inversion H; subst; simpl; repeat split; auto; eexists; repeat split; eauto.
Qed.

Lemma forward_bad cf n e : forward cf n e = FBad <-> (e_hdr e = false \/ e_src e <> n).
Proof.
  unfold forward, forward_gen. destruct (e_hdr e); simpl.
  - destruct (Z.eqb_spec (e_src e) n); simpl.
    + split; [|intros [X|X]; [discriminate | contradiction]].
      destruct (cf_icp cf (e_src e) (e_dst e)); try discriminate. destruct (e_next e) as [[|x l]|]; discriminate.
    + split; auto.
  - split; auto.
Qed.

(* the code before D-17d: an empty non-nil return route crashes the forwarding loop *)
Lemma forward_prefix_crash : exists cf n e, forward_gen true false cf n e = FCrash.
Proof.
  exists (mkCfg 0 16 (fun _ d => Some d)), 1, (mkEnv true 1 2 [] (Some []) 7). vm_compute. reflexivity.
Qed.

(* ---------- records stay where they are ---------- *)
Lemma shape_keeps cf s s' k c : shape cf s s' -> nth_error (clients s) k = Some c ->
  exists c', nth_error (clients s') k = Some c' /\ p_name c' = p_name c /\ p_dialled c' = p_dialled c.
Proof.
  intros Sh H. pose proof (nth_some_lt _ _ _ H) as Hlt.
  assert (exists c', nth_error (clients s') k = Some c') as (c' & Hc').
  { destruct (nth_error (clients s') k) eqn:E; eauto. apply nth_error_None in E.
    pose proof (shape_length _ _ _ Sh). lia. }
  exists c'. split; auto. destruct (shape_origin _ _ _ _ _ Sh Hc') as [c0 H0 N D _|E _].
  - rewrite H in H0. inversion H0; subst. auto.
  - lia.
Qed.

Lemma cancelled_mono cf s s' : shape cf s s' -> cancelled s = true -> cancelled s' = true.
Proof. intros Sh H. destruct Sh; subst; simpl; auto. Qed.

(* ---------- C16 / C17: every forwarded envelope passed the source check and was routed by the rule ---------- *)
Definition inv_f (cf : cfg) (s : state) : Prop :=
  forall j e i e' ok, In (EvFwd j e i e' ok) (log s) ->
    exists cj ci, nth_error (clients s) j = Some cj /\ nth_error (clients s) i = Some ci /\
                  forward cf (p_name cj) e = FRoute (p_name ci) e'.

Definition not_fwd (ev : pev) : Prop := match ev with EvFwd _ _ _ _ _ => False | _ => True end.

Lemma local_no_fwd cf s j c c' evs : local cf s j c c' evs -> Forall not_fwd evs.
Proof. intros L. inversion L; subst; repeat constructor. Qed.

Lemma inv_f_step cf s l s' : inv_f cf s -> lstep cf s l = Some s' -> inv_f cf s'.
Proof.
  intros I H. apply lstep_shape in H. intros j0 e0 i0 e0' ok Hin.
  assert (In (EvFwd j0 e0 i0 e0' ok) (log s) ->
          exists cj ci, nth_error (clients s') j0 = Some cj /\ nth_error (clients s') i0 = Some ci /\
                        forward cf (p_name cj) e0 = FRoute (p_name ci) e0') as Hold.
  { intros Hi. destruct (I _ _ _ _ _ Hi) as (cj & ci & Hj & Hi' & Hf).
    destruct (shape_keeps _ _ _ _ _ H Hj) as (cj' & Hj' & Nj & _).
    destruct (shape_keeps _ _ _ _ _ H Hi') as (ci' & Hi'' & Ni & _).
    exists cj', ci'. rewrite Nj, Ni. auto. }
  destruct H; subst; simpl in *; auto.
  - (* local *)
    apply in_app_or in Hin. destruct Hin as [Hin|Hin]; auto.
    pose proof (local_no_fwd _ _ _ _ _ _ H0) as F. rewrite Forall_forall in F. apply F in Hin. simpl in Hin. tauto.
  - (* route *)
    apply in_app_or in Hin. destruct Hin as [Hin|Hin]; auto.
    simpl in Hin. destruct Hin as [Hin|[Hin|[]]]; inversion Hin; subst.
    apply find_reg0_some in H3. destruct H3 as (x & Hx & _ & Hname). rewrite H4 in Hx. inversion Hx; subst x.
    destruct (enqueue_static cf ci e0') as (A & _ & _).
    exists (match Nat.eqb i0 j0 with true => fst (enqueue_c cf ci e0') | false => set_rd cj RDRead false end), (fst (enqueue_c cf ci e0')).
    split; [|split].
    + rewrite nth_upd. destruct (Nat.eqb_spec i0 j0).
      * subst. rewrite length_upd. pose proof (nth_some_lt _ _ _ H0). destruct (Nat.ltb_spec j0 (length (clients s))); auto. lia.
      * rewrite (nth_upd_some _ _ _ _ _ H0). rewrite Nat.eqb_refl. auto.
    + apply nth_upd_eq. eapply nth_some_lt; eauto.
    + rewrite A, Hname. destruct (Nat.eqb_spec i0 j0).
      * subst. rewrite A. rewrite (nth_upd_some _ _ _ _ _ H0), Nat.eqb_refl in H4. inversion H4; subst. simpl. auto.
      * simpl. auto.
  - (* dial *)
    apply in_app_or in Hin. destruct Hin as [Hin|Hin]; auto.
    simpl in Hin. destruct Hin as [Hin|[Hin|[Hin|[]]]]; inversion Hin; subst.
    destruct (enqueue_static cf (new_dialled d) e0') as (A & _ & _).
    exists (set_rd cj RDRead false), (fst (enqueue_c cf (new_dialled d) e0')). split; [|split].
    + rewrite nth_error_app1 by (rewrite length_upd; eapply nth_some_lt; eauto).
      rewrite (nth_upd_some _ _ _ _ _ H0), Nat.eqb_refl. auto.
    + rewrite <- (length_upd j0 (set_rd cj RDRead false) (clients s)). apply nth_app_last.
    + rewrite A. simpl. auto.
Qed.

Lemma f_ok cf s : reachable cf s -> inv_f cf s.
Proof. apply (reachable_inv cf (inv_f cf)); [|apply inv_f_step]. intros j e i e' ok []. Qed.

(* ---------- C16: read-side accounting per record (per-source order) ---------- *)
Definition rpend (c : client) : list env := match p_rd c with RDOffer e => [e] | _ => [] end.

(* C received by the forwarding loop, L lost (offer abandoned when the context ended) *)
Definition rok (c : client) (C L : list env) : Prop :=
  p_delivered c = C ++ rpend c ++ L ++ p_inbox c /\
  (L = [] \/ (p_rd c = RDDead /\ length L = 1%nat)) /\
  (p_dl c = DLDial -> p_rd c = RDIdle).

Definition inv_r (s : state) : Prop :=
  forall j, match nth_error (clients s) j with
            | Some c => rok c (cmds j (log s)) (rd_lost j (log s))
            | None => cmds j (log s) = [] /\ rd_lost j (log s) = []
            end.

Lemma rok_env c c' C L : env_upd c c' -> rok c C L -> rok c' C L.
Proof.
  intros U W. inversion U; subst; destruct W as (A & B & G); unfold rok, rpend in *; simpl; auto.
  - rewrite A. rewrite <- !app_assoc. auto.
  - rewrite (G H) in *. simpl in *. repeat split; auto.
    + destruct B as [B|[B _]]; auto; discriminate.
    + intros; discriminate.
Qed.

Lemma rok_set_reg c b C L : rok c C L -> rok (set_reg c b) C L.
Proof. unfold rok, rpend; simpl; auto. Qed.

Lemma rok_enqueue cf c e' C L : rok c C L -> rok (fst (enqueue_c cf c e')) C L.
Proof. unfold enqueue_c. destruct (Nat.ltb _ _); simpl; auto. Qed.

(* the forwarding loop takes the offered envelope *)
Lemma rok_cmd c e C L : p_rd c = RDOffer e -> rok c C L -> rok (set_rd c RDRead false) (C ++ [e]) L.
Proof.
  intros H (A & B & G). unfold rok, rpend in *; simpl. rewrite H in *. simpl in *.
  destruct B as [->|[B _]]; try discriminate. simpl in *. repeat split; auto.
  - rewrite A. rewrite <- app_assoc. auto.
  - intros X. apply G in X. discriminate.
Qed.

Lemma local_r cf s j c c' evs C L : local cf s j c c' evs -> rok c C L ->
  rok c' (C ++ cmds j evs) (L ++ rd_lost j evs).
Proof.
  intros Lo W.
  inversion Lo; subst; try (apply (rok_cmd _ _ _ _ H0) in W); destruct W as (A & B & G); proj;
    rewrite ?Nat.eqb_refl, ?app_nil_r; unfold rok, rpend in *; simpl in *; rw_pcs; simpl in *; rewrite ?app_nil_r in *;
    repeat split; auto;
    try (intros X; discriminate X); try (intros X; apply G in X; discriminate X);
    try (destruct B as [B|[B B']]; try discriminate B; auto; fail);
    try (destruct B as [B|[B B']]; try discriminate B; subst; simpl in *; rewrite <- ?app_assoc, ?app_nil_r; simpl; auto; fail).
Qed.

Lemma local_r_other cf s j c c' evs i : local cf s j c c' evs -> i <> j -> cmds i evs = [] /\ rd_lost i evs = [].
Proof.
  intros L Hne. assert (Nat.eqb j i = false) as X by (apply Nat.eqb_neq; auto).
  inversion L; subst; proj; rewrite ?X; auto.
Qed.

Lemma inv_r_step cf s l s' : inv_r s -> lstep cf s l = Some s' -> inv_r s'.
Proof.
  intros I H. apply lstep_shape in H. intros k. pose proof (I k) as Ik.
  destruct H; subst; simpl.
  - auto.
  - rewrite (nth_upd_some _ _ _ _ _ H). destruct (Nat.eqb_spec j k); auto. subst.
    rewrite H in Ik. eapply rok_env; eauto.
  - destruct (nth_error (clients s) k) eqn:E.
    + rewrite nth_error_app1 by (eapply nth_some_lt; eauto). rewrite E. auto.
    + destruct Ik as (A & B). rewrite A, B.
      destruct (nth_error (clients s ++ _) k) eqn:E2; auto.
      apply nth_app_cases in E2. destruct E2 as [[E2 _]|[_ ->]]; [congruence|].
      unfold rok, rpend; simpl. repeat split; auto. intros; discriminate.
  - destruct (nth_error (clients s) k) eqn:E.
    + rewrite nth_error_app1 by (rewrite length_upd; eapply nth_some_lt; eauto).
      rewrite (nth_upd_some _ _ _ _ _ H0). destruct (Nat.eqb_spec i k); auto.
      * subst. rewrite H0 in E. inversion E; subst. apply rok_set_reg. auto.
      * rewrite E. auto.
    + destruct Ik as (A & B). rewrite A, B.
      destruct (nth_error (upd i _ (clients s) ++ _) k) eqn:E2; auto.
      apply nth_app_cases in E2. destruct E2 as [[E2 _]|[_ ->]].
      * apply nth_upd_inv in E2. destruct E2 as [[-> _]|[_ E2]]; congruence.
      * unfold rok, rpend; simpl. repeat split; auto. intros; discriminate.
  - auto.
  - auto.
  - rewrite (nth_upd_some _ _ _ _ _ H). proj. destruct (Nat.eqb_spec j k).
    + subst. rewrite H in Ik. apply (local_r _ _ _ _ _ _ _ _ H0) in Ik. proj. auto.
    + destruct (local_r_other _ _ _ _ _ _ k H0) as (A & B); auto. proj. rewrite A, B, !app_nil_r. auto.
  - (* route: record j hands its envelope over, record i only gets a longer buffer *)
    proj. rewrite !app_nil_r. rewrite (nth_upd_some _ _ _ _ _ H4).
    assert (match nth_error (upd j (set_rd cj RDRead false) (clients s)) k with
            | Some c => rok c (cmds k (log s) ++ (if Nat.eqb j k then [e] else [])) (rd_lost k (log s))
            | None => cmds k (log s) ++ (if Nat.eqb j k then [e] else []) = [] /\ rd_lost k (log s) = []
            end) as Mid.
    { rewrite (nth_upd_some _ _ _ _ _ H0). destruct (Nat.eqb_spec j k).
      - subst. rewrite H0 in Ik. apply rok_cmd; auto.
      - rewrite app_nil_r. auto. }
    proj. destruct (Nat.eqb_spec i k).
    + subst. rewrite H4 in Mid. apply rok_enqueue. destruct (Nat.eqb j k); auto.
    + destruct (Nat.eqb j k); auto.
  - (* dial *)
    proj. rewrite !app_nil_r.
    destruct (nth_error (clients s) k) eqn:E.
    + rewrite nth_error_app1 by (rewrite length_upd; eapply nth_some_lt; eauto).
      rewrite (nth_upd_some _ _ _ _ _ H0). destruct (Nat.eqb_spec j k).
      * subst. rewrite H0 in E. inversion E; subst. apply rok_cmd; auto.
      * rewrite E, app_nil_r. auto.
    + destruct Ik as (A & B). rewrite A, B.
      assert (Nat.eqb j k = false) as X.
      { apply Nat.eqb_neq. intro; subst. congruence. }
      rewrite X. simpl.
      destruct (nth_error (upd j _ (clients s) ++ _) k) eqn:E2; auto.
      apply nth_app_cases in E2. destruct E2 as [[E2 _]|[_ ->]].
      * apply nth_upd_inv in E2. destruct E2 as [[-> _]|[_ E2]]; congruence.
      * apply rok_enqueue. unfold rok, rpend; simpl. repeat split; auto.
Qed.

Lemma r_ok cf s : reachable cf s -> inv_r s.
Proof. apply (reachable_inv cf inv_r); [|apply inv_r_step]. intros i. destruct i; simpl; auto. Qed.

(* ---------- C16 dial: one dial per record created on demand ---------- *)
Lemma dialled_app cs c k : dialled_from (cs ++ [c]) k =
  dialled_from cs k ++ (if p_dialled c then [((k + length cs)%nat, p_name c)] else []).
Proof.
  revert k. induction cs; simpl; intros.
  - rewrite Nat.add_0_r, app_nil_r. auto.
  - rewrite IHcs. rewrite <- app_assoc. replace (S k + length cs)%nat with (k + S (length cs))%nat by lia. auto.
Qed.

Lemma dialled_upd cs i c c' k : nth_error cs i = Some c -> p_name c' = p_name c -> p_dialled c' = p_dialled c ->
  dialled_from (upd i c' cs) k = dialled_from cs k.
Proof.
  revert i k. induction cs; destruct i; simpl; intros; try discriminate; auto.
  - inversion H; subst. rewrite H0, H1. auto.
  - f_equal. eauto.
Qed.

Definition inv_l (s : state) : Prop := dials (log s) = dialled_from (clients s) 0.

Definition not_dial (ev : pev) : Prop := match ev with EvDial _ _ => False | _ => True end.

Lemma dials_none evs : Forall not_dial evs -> dials evs = [].
Proof. unfold dials. induction 1; simpl; auto. destruct x; simpl in *; auto. tauto. Qed.

Lemma local_no_dial cf s j c c' evs : local cf s j c c' evs -> Forall not_dial evs.
Proof. intros L. inversion L; subst; repeat constructor. Qed.

Lemma inv_l_step cf s l s' : inv_l s -> lstep cf s l = Some s' -> inv_l s'.
Proof.
  unfold inv_l. intros I H. apply lstep_shape in H. destruct H; subst; simpl; auto.
  - destruct (env_upd_static _ _ H0) as (A & B & _). rewrite (dialled_upd _ _ _ _ _ H); auto.
  - rewrite dialled_app. simpl. rewrite app_nil_r. auto.
  - rewrite dialled_app. simpl. rewrite app_nil_r. rewrite (dialled_upd _ _ _ _ _ H0); auto.
  - destruct (local_static _ _ _ _ _ _ H0) as (A & B & _). rewrite (dialled_upd _ _ _ _ _ H); auto.
    unfold dials in *. rewrite pick_app. fold (dials evs). rewrite (dials_none _ (local_no_dial _ _ _ _ _ _ H0)), app_nil_r. auto.
  - destruct (enqueue_static cf ci e') as (A & B & _).
    assert (exists c0, nth_error (clients s) i = Some c0 /\ p_name ci = p_name c0 /\ p_dialled ci = p_dialled c0) as (c0 & Hc0 & N0 & D0).
    { pose proof H4 as H4'. apply nth_upd_inv in H4'. destruct H4' as [[-> ->]|[_ H4']]; eauto. }
    rewrite (dialled_upd _ _ _ _ _ H4); auto. rewrite (dialled_upd _ _ _ _ _ H0); auto.
    proj. rewrite app_nil_r. auto.
  - destruct (enqueue_static cf (new_dialled d) e') as (A & B & _).
    rewrite dialled_app, length_upd. rewrite (dialled_upd _ _ _ _ _ H0); auto. rewrite B, A. simpl.
    proj. rewrite I. auto.
Qed.

Lemma l_ok cf s : reachable cf s -> inv_l s.
Proof. apply (reachable_inv cf inv_l); [|apply inv_l_step]. reflexivity. Qed.

(* ---------- C17 remove: failures are reported; only the failed record is forgotten ---------- *)
Definition xok (can : bool) (c : client) (Ds : list (Z * bool)) : Prop :=
  (p_gctx c = true -> can = true \/ Ds <> []) /\
  (Ds <> [] -> p_reg c = false) /\
  ((p_rd c = RDDead \/ p_wr c = WRDead) -> p_gctx c = true) /\
  (p_dl c = DLDead -> p_rd c = RDIdle -> can = true \/ Ds <> []) /\
  (p_dl c = DLDial \/ p_dl c = DLOffer -> p_rd c = RDIdle /\ p_wr c = WRIdle).

Definition inv_x (s : state) : Prop :=
  forall i, match nth_error (clients s) i with
            | Some c => xok (cancelled s) c (discs i (log s))
            | None => discs i (log s) = []
            end.

Lemma xok_env can c c' Ds : env_upd c c' -> xok can c Ds -> xok can c' Ds.
Proof.
  intros U W. inversion U; subst; destruct W as (A & B & C & D & G); unfold xok in *; simpl; auto.
  - destruct (G (or_introl H)) as [G1 G2]. repeat split; auto; try (intros; discriminate);
      try (intros [X|X]; discriminate);
      try match goal with Hx : DLDead = _ \/ DLDead = _ |- _ => destruct Hx as [Hx|Hx]; discriminate Hx end.
  - repeat split; auto; try (intros; discriminate); try (apply G; auto);
      try match goal with Hx : DLOffer = _ \/ DLOffer = _ |- _ => apply G; auto end.
Qed.

Lemma xok_set_reg can c Ds : xok can c Ds -> xok can (set_reg c false) Ds.
Proof. unfold xok; simpl. intuition auto. Qed.

Lemma xok_set_rd can c Ds : xok can c Ds -> p_rd c <> RDIdle -> p_rd c <> RDDead -> xok can (set_rd c RDRead false) Ds.
Proof.
  unfold xok; simpl. rewrite orb_false_r. intros (A & B & C & D & G) N1 N2. repeat split; auto;
    try (intros; discriminate);
    try (intros [X|X]; [discriminate|auto]);
    try match goal with Hx : _ \/ _ |- _ => apply G in Hx; tauto end.
Qed.

Lemma xok_enqueue cf can c e' Ds : xok can c Ds -> xok can (fst (enqueue_c cf c e')) Ds.
Proof. unfold enqueue_c. destruct (Nat.ltb _ _); simpl; auto. Qed.

Lemma xok_cancel c Ds can : xok can c Ds -> xok true c Ds.
Proof. unfold xok. intuition auto. Qed.

Lemma app_not_nil {A} (l : list A) x : l ++ [x] <> [].
Proof. destruct l; discriminate. Qed.

Lemma local_x cf s j c c' evs Ds : local cf s j c c' evs -> xok (cancelled s) c Ds -> xok (cancelled s) c' (Ds ++ discs j evs).
Proof.
  intros Lo W.
  inversion Lo; subst; destruct W as (A & B & C & D & G); proj; rewrite ?Nat.eqb_refl, ?app_nil_r;
    unfold xok, ctx_done in *; simpl in *; rw_pcs; simpl in *; rewrite ?orb_false_r, ?orb_true_r in *;
    repeat split; auto;
    try (intros; discriminate);
    try (intros X; apply app_not_nil in X; tauto);
    try (intros _; right; apply app_not_nil);
    try (intros _ _; right; apply app_not_nil);
    try (intros [X|X]; try discriminate X; auto; fail);
    try (intros X; apply G in X; destruct X; discriminate);
    try (intros X; destruct X as [X|X]; try discriminate X; apply G in X; destruct X; discriminate);
    try (intros X; destruct X as [X|X]; [apply G in X|apply G in X]; destruct X; try discriminate; auto; fail);
    try (intros _; match goal with Hc : _ || _ = true |- _ => apply orb_true_iff in Hc; destruct Hc as [Hc|Hc]; auto end; fail);
    try (intros _ _; auto; fail);
    try (match goal with Hx : _ \/ _ |- _ =>
           first [ apply G in Hx; destruct Hx as [Hx1 Hx2]; try discriminate Hx1; try discriminate Hx2; auto; congruence
                 | destruct Hx as [Hx|Hx]; discriminate Hx ] end).
Qed.

Lemma local_x_other cf s j c c' evs i : local cf s j c c' evs -> i <> j -> discs i evs = [].
Proof.
  intros L Hne. assert (Nat.eqb j i = false) as X by (apply Nat.eqb_neq; auto).
  inversion L; subst; proj; rewrite ?X; auto.
Qed.

Lemma xok_new_attached can n h : xok can (new_attached n h) [].
Proof.
  unfold xok; simpl. repeat split; try (intros; discriminate); try tauto;
    try (intros [X|X]; discriminate); try match goal with Hx : _ \/ _ |- _ => destruct Hx as [Hx|Hx]; discriminate Hx end.
Qed.

Lemma xok_new_dialled can n : xok can (new_dialled n) [].
Proof.
  unfold xok; simpl. repeat split; try (intros; discriminate); try tauto;
    try (intros [X|X]; discriminate); try match goal with Hx : _ \/ _ |- _ => destruct Hx as [Hx|Hx]; discriminate Hx end.
Qed.

Lemma inv_x_step cf s l s' : inv_x s -> lstep cf s l = Some s' -> inv_x s'.
Proof.
  intros I H. apply lstep_shape in H. intros k. pose proof (I k) as Ik.
  destruct H; subst; simpl.
  - auto.
  - rewrite (nth_upd_some _ _ _ _ _ H). destruct (Nat.eqb_spec j k); auto. subst.
    rewrite H in Ik. eapply xok_env; eauto.
  - destruct (nth_error (clients s) k) eqn:E.
    + rewrite nth_error_app1 by (eapply nth_some_lt; eauto). rewrite E. auto.
    + rewrite Ik. destruct (nth_error (clients s ++ _) k) eqn:E2; auto.
      apply nth_app_cases in E2. destruct E2 as [[E2 _]|[_ ->]]; [congruence|]. apply xok_new_attached.
  - destruct (nth_error (clients s) k) eqn:E.
    + rewrite nth_error_app1 by (rewrite length_upd; eapply nth_some_lt; eauto).
      rewrite (nth_upd_some _ _ _ _ _ H0). destruct (Nat.eqb_spec i k); auto.
      * subst. rewrite H0 in E. inversion E; subst. apply xok_set_reg. auto.
      * rewrite E. auto.
    + rewrite Ik. destruct (nth_error (upd i _ (clients s) ++ _) k) eqn:E2; auto.
      apply nth_app_cases in E2. destruct E2 as [[E2 _]|[_ ->]].
      * apply nth_upd_inv in E2. destruct E2 as [[-> _]|[_ E2]]; congruence.
      * apply xok_new_attached.
  - destruct (nth_error (clients s) k); auto. eapply xok_cancel; eauto.
  - auto.
  - rewrite (nth_upd_some _ _ _ _ _ H). proj. destruct (Nat.eqb_spec j k).
    + subst. rewrite H in Ik. apply (local_x _ _ _ _ _ _ _ H0) in Ik. proj. auto.
    + pose proof (local_x_other _ _ _ _ _ _ k H0) as Hx. proj. rewrite Hx, app_nil_r; auto.
  - (* route *)
    proj. rewrite !app_nil_r. rewrite (nth_upd_some _ _ _ _ _ H4).
    assert (match nth_error (upd j (set_rd cj RDRead false) (clients s)) k with
            | Some c => xok (cancelled s) c (discs k (log s))
            | None => discs k (log s) = []
            end) as Mid.
    { rewrite (nth_upd_some _ _ _ _ _ H0). destruct (Nat.eqb_spec j k); auto.
      subst. rewrite H0 in Ik. apply xok_set_rd; auto; rewrite H1; discriminate. }
    proj. destruct (Nat.eqb_spec i k); auto. subst. rewrite H4 in Mid. apply xok_enqueue. auto.
  - (* dial *)
    proj. rewrite !app_nil_r.
    destruct (nth_error (clients s) k) eqn:E.
    + rewrite nth_error_app1 by (rewrite length_upd; eapply nth_some_lt; eauto).
      rewrite (nth_upd_some _ _ _ _ _ H0). destruct (Nat.eqb_spec j k).
      * subst. rewrite H0 in E. inversion E; subst. apply xok_set_rd; auto; rewrite H1; discriminate.
      * rewrite E. auto.
    + rewrite Ik.
      destruct (nth_error (upd j _ (clients s) ++ _) k) eqn:E2; auto.
      apply nth_app_cases in E2. destruct E2 as [[E2 _]|[_ ->]].
      * apply nth_upd_inv in E2. destruct E2 as [[-> _]|[_ E2]]; congruence.
      * apply xok_enqueue. apply xok_new_dialled.
Qed.

Lemma x_ok cf s : reachable cf s -> inv_x s.
Proof. apply (reachable_inv cf inv_x); [|apply inv_x_step]. intros i. destruct i; simpl; auto. Qed.

(* ---------- C17: no crash ---------- *)
Lemma no_crash cf s : reachable cf s -> crashed s = false.
Proof.
  apply (reachable_inv cf (fun s => crashed s = false)); auto.
  intros s0 l s' I H. apply lstep_shape in H. destruct H; subst; simpl; auto.
Qed.

(* ---------- C17 isolation: the forwarding loop is never blocked by a peer ---------- *)
(* whatever the state of every other record, an offered envelope / error of record j is taken in one step *)
Lemma fw_cmd_enabled cf s j cj e : reachable cf s -> fw s = true ->
  nth_error (clients s) j = Some cj -> p_rd cj = RDOffer e -> exists s', r_fw_cmd cf j s = Some s'.
Proof.
  intros R F H Hr. unfold r_fw_cmd. rewrite F, H, Hr.
  destruct (forward cf (p_name cj) e) eqn:Ef; eauto.
  destruct (find_reg d (upd j (set_rd cj RDRead false) (clients s)) 0) eqn:Efr; eauto.
  apply find_reg0_some in Efr. destruct Efr as (x & Hx & _). rewrite Hx. eauto.
Qed.

Lemma fw_err_enabled s j cj : fw s = true -> nth_error (clients s) j = Some cj ->
  (p_rd cj = RDOfferErr -> exists s', r_fw_err_rd j s = Some s') /\
  (p_wr cj = WROfferErr -> exists s', r_fw_err_wr j s = Some s') /\
  (p_dl cj = DLOffer -> exists s', r_fw_err_dl j s = Some s').
Proof.
  intros F H. unfold r_fw_err_rd, r_fw_err_wr, r_fw_err_dl. rewrite F, H.
  repeat split; intros X; rewrite X; eauto.
Qed.

(* live traffic: p offers an envelope for q (registered, write loop idle, transport working): three steps
   of p's and q's own goroutines hand it to q's connection, whatever the other records are doing *)
Lemma fw_delivers cf s p cp e d e' q cq : reachable cf s -> fw s = true ->
  nth_error (clients s) p = Some cp -> p_rd cp = RDOffer e -> forward cf (p_name cp) e = FRoute d e' ->
  find_reg d (upd p (set_rd cp RDRead false) (clients s)) 0 = Some q -> q <> p ->
  nth_error (clients s) q = Some cq -> p_wr cq = WRSel -> p_buf cq = [] -> p_wmode cq = WOk -> (0 < cf_buf cf)%nat ->
  exists s1 s2 s3, r_fw_cmd cf p s = Some s1 /\ r_wr_take q s1 = Some s2 /\ r_wr_write q s2 = Some s3 /\
                   outs q (log s3) = outs q (log s) ++ [e'].
Proof.
  intros R F Hp Hr Hf Hq Hne Hcq Hw Hb Hm Hcap.
  assert (nth_error (upd p (set_rd cp RDRead false) (clients s)) q = Some cq) as Hq1.
  { rewrite nth_upd_neq; auto. }
  unfold r_fw_cmd. rewrite F, Hp, Hr, Hf, Hq, Hq1.
  unfold enqueue_c. rewrite Hb. simpl. destruct (Nat.ltb_spec 0 (cf_buf cf)); try lia. simpl.
  eexists. eexists. eexists. split; [reflexivity|].
  pose proof (nth_some_lt _ _ _ Hcq) as Hlt.
  unfold r_wr_take. simpl. rewrite nth_upd_eq by (rewrite length_upd; auto). simpl. rewrite Hw. simpl.
  split; [reflexivity|].
  unfold r_wr_write. simpl. rewrite nth_upd_eq by (rewrite !length_upd; auto). simpl. rewrite Hm.
  split; [reflexivity|]. simpl. proj. rewrite Nat.eqb_refl, !app_nil_r. auto.
Qed.

(* ---------- C17 remove: what handling an error command does ---------- *)
Lemma disconnect_effect s j c0 cj : nth_error (clients s) j = Some c0 ->
  forall s', s' = disconnect s j cj ->
    log s' = log s ++ [EvDisc j (p_name cj) (p_reg cj)] /\
    (forall i, i <> j -> nth_error (clients s') i = nth_error (clients s) i) /\
    (exists cj', nth_error (clients s') j = Some cj' /\ p_reg cj' = false).
Proof.
  intros H s' ->. unfold disconnect; simpl. split; auto. split.
  - intros i Hne. rewrite nth_upd_neq; auto.
  - rewrite nth_upd_eq by (eapply nth_some_lt; eauto). eexists; split; eauto.
Qed.

(* ---------- C17 shutdown (Q) ---------- *)
Lemma shutdown_quiescent cf s : quiescent cf s = true -> cancelled s = true ->
  (forall i c, nth_error (clients s) i = Some c -> p_honour c = true /\ dial_pending c = false) ->
  fw s = false /\ forall i c, nth_error (clients s) i = Some c -> client_alive c = false.
Proof.
  intros Q Can Hon. split.
  - destruct (fw s) eqn:F; auto.
    pose proof (quiescent_none _ _ _ Q (rules_has_exit cf s)) as X. unfold r_fw_exit in X. rewrite F, Can in X. discriminate.
  - intros i c H. destruct (Hon _ _ H) as [Hh Hd]. pose proof (nth_some_lt _ _ _ H) as Hlt.
    assert (forall r, In r (per_client_rules cf) -> r i s = None) as QN.
    { intros r Hr. apply (quiescent_none cf); auto. apply rules_has_client; auto. }
    unfold client_alive, rd_alive, wr_alive, dl_alive, dial_pending in *.
    assert (ctx_done s c = true) as Hctx by (unfold ctx_done; rewrite Can; apply orb_true_r).
    destruct (p_rd c) eqn:Er.
    + destruct (p_wr c) eqn:Ew.
      * destruct (p_dl c) eqn:Ed; auto; try discriminate.
        assert (r_dl_giveup i s = None) as X by (apply QN; simpl; tauto).
        unfold r_dl_giveup in X. rewrite H, Ed, Can in X. discriminate.
      * assert (r_wr_exit i s = None) as X by (apply QN; simpl; tauto).
        unfold r_wr_exit in X. rewrite H, Ew, Hctx in X. discriminate.
      * destruct (p_wmode c) eqn:Em.
        -- assert (r_wr_write i s = None) as X by (apply QN; simpl; tauto).
           unfold r_wr_write in X. rewrite H, Ew, Em in X. discriminate.
        -- assert (r_wr_write i s = None) as X by (apply QN; simpl; tauto).
           unfold r_wr_write in X. rewrite H, Ew, Em in X. discriminate.
        -- assert (r_wr_ctx i s = None) as X by (apply QN; simpl; tauto).
           unfold r_wr_ctx in X. rewrite H, Ew, Em, Hctx, Hh in X. discriminate.
      * assert (r_wr_giveup i s = None) as X by (apply QN; simpl; tauto).
        unfold r_wr_giveup in X. rewrite H, Ew, Hctx in X. discriminate.
      * destruct (p_dl c) eqn:Ed; auto; try discriminate.
        assert (r_dl_giveup i s = None) as X by (apply QN; simpl; tauto).
        unfold r_dl_giveup in X. rewrite H, Ed, Can in X. discriminate.
    + assert (r_rd_ctx i s = None) as X by (apply QN; simpl; tauto).
      unfold r_rd_ctx in X. rewrite H, Er, Hctx, Hh in X. discriminate.
    + assert (r_rd_giveup i s = None) as X by (apply QN; simpl; tauto).
      unfold r_rd_giveup in X. rewrite H, Er, Hctx in X. discriminate.
    + assert (r_rd_giveup i s = None) as X by (apply QN; simpl; tauto).
      unfold r_rd_giveup in X. rewrite H, Er, Hctx in X. discriminate.
    + destruct (p_wr c) eqn:Ew.
      * destruct (p_dl c) eqn:Ed; auto; try discriminate.
        assert (r_dl_giveup i s = None) as X by (apply QN; simpl; tauto).
        unfold r_dl_giveup in X. rewrite H, Ed, Can in X. discriminate.
      * assert (r_wr_exit i s = None) as X by (apply QN; simpl; tauto).
        unfold r_wr_exit in X. rewrite H, Ew, Hctx in X. discriminate.
      * destruct (p_wmode c) eqn:Em.
        -- assert (r_wr_write i s = None) as X by (apply QN; simpl; tauto).
           unfold r_wr_write in X. rewrite H, Ew, Em in X. discriminate.
        -- assert (r_wr_write i s = None) as X by (apply QN; simpl; tauto).
           unfold r_wr_write in X. rewrite H, Ew, Em in X. discriminate.
        -- assert (r_wr_ctx i s = None) as X by (apply QN; simpl; tauto).
           unfold r_wr_ctx in X. rewrite H, Ew, Em, Hctx, Hh in X. discriminate.
      * assert (r_wr_giveup i s = None) as X by (apply QN; simpl; tauto).
        unfold r_wr_giveup in X. rewrite H, Ew, Hctx in X. discriminate.
      * destruct (p_dl c) eqn:Ed; auto; try discriminate.
        assert (r_dl_giveup i s = None) as X by (apply QN; simpl; tauto).
        unfold r_dl_giveup in X. rewrite H, Ed, Can in X. discriminate.
Qed.

(* (Q) while the proxy runs, in a quiescent state every failure has been reported: no goroutine is left
   offering an error *)
Lemma errors_reported cf s : quiescent cf s = true -> fw s = true ->
  forall i c, nth_error (clients s) i = Some c ->
    p_rd c <> RDOfferErr /\ p_wr c <> WROfferErr /\ p_dl c <> DLOffer /\ (forall e, p_rd c <> RDOffer e \/ crashed s = true).
Proof.
  intros Q F i c H. pose proof (nth_some_lt _ _ _ H) as Hlt.
  assert (forall r, In r (per_client_rules cf) -> r i s = None) as QN.
  { intros r Hr. apply (quiescent_none cf); auto. apply rules_has_client; auto. }
  repeat split.
  - intros X. assert (r_fw_err_rd i s = None) as Y by (apply QN; simpl; tauto).
    unfold r_fw_err_rd in Y. rewrite F, H, X in Y. discriminate.
  - intros X. assert (r_fw_err_wr i s = None) as Y by (apply QN; simpl; tauto).
    unfold r_fw_err_wr in Y. rewrite F, H, X in Y. discriminate.
  - intros X. assert (r_fw_err_dl i s = None) as Y by (apply QN; simpl; tauto).
    unfold r_fw_err_dl in Y. rewrite F, H, X in Y. discriminate.
  - intros e. left. intros X. assert (r_fw_cmd cf i s = None) as Y by (apply QN; simpl; tauto).
    unfold r_fw_cmd in Y. rewrite F, H, X in Y.
    destruct (forward cf (p_name c) e) eqn:Ef; try discriminate.
    destruct (find_reg d (upd i (set_rd c RDRead false) (clients s)) 0) eqn:Efr; try discriminate.
    apply find_reg0_some in Efr. destruct Efr as (x & Hx & _). rewrite Hx in Y. discriminate.
Qed.

(* ---------- the statements of Props/C16.v and Props/C17.v ---------- *)
Lemma ex_reach cf ls s : lrun cf init ls = Some s -> reachable cf s.
Proof. intros H. exists ls. auto. Qed.

Lemma enqs_fwdsb i l : enqs i l = map fst (filter snd (fwdsb i l)) /\ fwds i l = map fst (fwdsb i l).
Proof.
  unfold enqs, fwds, fwdsb. induction l; simpl; auto. destruct IHl as [A B].
  destruct a; auto. destruct (Nat.eqb i0 i); destruct ok; simpl; auto; split; congruence.
Qed.

Lemma C16_accounting_l : forall cf ls s, lrun cf init ls = Some s -> forall i,
  enqs i (log s) = outs i (log s) ++ wfails i (log s) ++ wr_pend s i ++ buf_of s i /\
  (length (wfails i (log s)) <= 1)%nat /\
  enqs i (log s) = map fst (filter snd (fwdsb i (log s))) /\
  (length (buf_of s i) <= cf_buf cf)%nat.
Proof.
  intros cf ls s H i. pose proof (w_ok _ _ (ex_reach _ _ _ H) i) as W. unfold wr_pend, buf_of.
  destruct (enqs_fwdsb i (log s)) as [Ef _].
  destruct (nth_error (clients s) i).
  - destruct W as (A & B & C & D & _). unfold wpend in B. rewrite A, B. rewrite <- !app_assoc. repeat split; auto.
    + destruct C as [->|[_ ->]]; simpl; lia.
    + rewrite <- Ef, A, B, <- !app_assoc. auto.
  - destruct W as (A & B & C & D). rewrite A, C, D. simpl. repeat split; auto; try lia. rewrite <- Ef; auto.
Qed.

Lemma C16_route_l : forall cf ls s, lrun cf init ls = Some s -> forall j e i e' ok, In (EvFwd j e i e' ok) (log s) ->
  exists cj ci, nth_error (clients s) j = Some cj /\ nth_error (clients s) i = Some ci /\
    e_hdr e = true /\ e_src e = p_name cj /\
    (exists d1, cf_icp cf (e_src e) (e_dst e) = Some d1 /\ e_dst e' = d1 /\
                p_name ci = match e_next e with Some (x :: l) => last (x :: l) 0 | _ => d1 end) /\
    e_hdr e' = true /\ e_src e' = e_src e /\ e_pay e' = e_pay e /\
    e_rec e' = e_rec e ++ [cf_name cf] /\
    e_next e' = match e_next e with Some (x :: l) => Some (removelast (x :: l)) | o => o end.
Proof.
  intros cf ls s H j e i e' ok Hin. destruct (f_ok _ _ (ex_reach _ _ _ H) _ _ _ _ _ Hin) as (cj & ci & Hj & Hi & Hf).
  exists cj, ci. split; auto. split; auto. apply forward_route in Hf. tauto.
Qed.

Lemma C16_drop_only_when_full_l : forall cf ls s, lrun cf init ls = Some s -> drops_only_when_full (cf_buf cf) (log s).
Proof. intros cf ls s H. apply (d_ok _ _ (ex_reach _ _ _ H)). Qed.

Lemma C16_no_loss_l : forall cf ls s, lrun cf init ls = Some s -> forall i,
  (forall pre j e e' ok post, log s = pre ++ EvFwd j e i e' ok :: post -> (occupancy i pre < cf_buf cf)%nat) ->
  dropped i (log s) = [] /\
  fwds i (log s) = outs i (log s) ++ wfails i (log s) ++ wr_pend s i ++ buf_of s i.
Proof.
  intros cf ls s H i Hl. destruct (no_loss _ _ (ex_reach _ _ _ H) i Hl) as [A B]. split; auto.
  rewrite B. apply (C16_accounting_l _ _ _ H i).
Qed.

Lemma C16_source_order_l : forall cf ls s, lrun cf init ls = Some s -> forall j,
  delivered_of s j = cmds j (log s) ++ rd_pend s j ++ rd_lost j (log s) ++ inbox_of s j /\
  (length (rd_lost j (log s)) <= 1)%nat.
Proof.
  intros cf ls s H j. pose proof (r_ok _ _ (ex_reach _ _ _ H) j) as R. unfold delivered_of, rd_pend, inbox_of.
  destruct (nth_error (clients s) j).
  - destruct R as (A & B & _). unfold rpend in A. split; auto. destruct B as [->|[_ ->]]; simpl; lia.
  - destruct R as (A & B). rewrite A, B. simpl. split; auto.
Qed.

Lemma C16_dial_once_l : forall cf ls s, lrun cf init ls = Some s ->
  dials (log s) = dialled_from (clients s) 0 /\
  (forall i1 i2 c1 c2, nth_error (clients s) i1 = Some c1 -> nth_error (clients s) i2 = Some c2 ->
     p_name c1 = p_name c2 -> (i1 < i2)%nat -> p_reg c1 = false).
Proof.
  intros cf ls s H. split. apply (l_ok _ _ (ex_reach _ _ _ H)). apply (names_ok _ _ (ex_reach _ _ _ H)).
Qed.

Lemma C17_source_l : forall cf ls s, lrun cf init ls = Some s ->
  (forall j e i e' ok, In (EvFwd j e i e' ok) (log s) ->
     exists cj, nth_error (clients s) j = Some cj /\ e_hdr e = true /\ e_src e = p_name cj) /\
  (forall i x, In x (outs i (log s)) -> exists j e, In (EvFwd j e i x true) (log s)).
Proof.
  intros cf ls s H. split.
  - intros j e i e' ok Hin. destruct (C16_route_l _ _ _ H _ _ _ _ _ Hin) as (cj & ci & Hj & _ & A & B & _). eauto.
  - intros i x Hin. destruct (C16_accounting_l _ _ _ H i) as (A & _).
    assert (In x (enqs i (log s))) as He by (rewrite A; apply in_or_app; auto).
    unfold enqs in He. apply pick_In in He. destruct He as (ev & Hev & Hf).
    destruct ev; try discriminate. destruct ok; try discriminate.
    destruct (Nat.eqb_spec i0 i); try discriminate. inversion Hf; subst. eauto.
Qed.

Lemma C17_no_crash_l : forall cf ls s, lrun cf init ls = Some s -> crashed s = false.
Proof. intros cf ls s H. apply (no_crash _ _ (ex_reach _ _ _ H)). Qed.

Lemma C17_isolation_l : forall cf ls s, lrun cf init ls = Some s -> fw s = true ->
  forall j cj, nth_error (clients s) j = Some cj ->
    (forall e, p_rd cj = RDOffer e -> exists s', r_fw_cmd cf j s = Some s') /\
    (p_rd cj = RDOfferErr -> exists s', r_fw_err_rd j s = Some s') /\
    (p_wr cj = WROfferErr -> exists s', r_fw_err_wr j s = Some s') /\
    (p_dl cj = DLOffer -> exists s', r_fw_err_dl j s = Some s').
Proof.
  intros cf ls s H F j cj Hj. split.
  - intros e He. eapply fw_cmd_enabled; eauto. eapply ex_reach; eauto.
  - apply fw_err_enabled; auto.
Qed.

Lemma C17_live_traffic_l : forall cf ls s, lrun cf init ls = Some s -> fw s = true ->
  forall p cp e d e' q cq,
  nth_error (clients s) p = Some cp -> p_rd cp = RDOffer e -> forward cf (p_name cp) e = FRoute d e' ->
  find_reg d (upd p (set_rd cp RDRead false) (clients s)) 0 = Some q -> q <> p ->
  nth_error (clients s) q = Some cq -> p_wr cq = WRSel -> p_buf cq = [] -> p_wmode cq = WOk -> (0 < cf_buf cf)%nat ->
  exists s1 s2 s3, r_fw_cmd cf p s = Some s1 /\ r_wr_take q s1 = Some s2 /\ r_wr_write q s2 = Some s3 /\
                   outs q (log s3) = outs q (log s) ++ [e'].
Proof. intros cf ls s H F. intros. eapply fw_delivers; eauto. eapply ex_reach; eauto. Qed.

Lemma C17_remove_step_l : forall cf ls s, lrun cf init ls = Some s -> forall j s',
  (r_fw_err_rd j s = Some s' \/ r_fw_err_wr j s = Some s' \/ r_fw_err_dl j s = Some s') ->
  exists cj, nth_error (clients s) j = Some cj /\
    log s' = log s ++ [EvDisc j (p_name cj) (p_reg cj)] /\
    (forall i, i <> j -> nth_error (clients s') i = nth_error (clients s) i) /\
    (exists cj', nth_error (clients s') j = Some cj' /\ p_reg cj' = false).
Proof.
  intros cf ls s _ j s' [H|[H|H]].
  - unfold r_fw_err_rd in H. open_rule H. exists c. split; auto.
    apply (disconnect_effect s j c (set_rd c RDDead true)); auto.
  - unfold r_fw_err_wr in H. open_rule H. exists c. split; auto.
    apply (disconnect_effect s j c (set_wr c WRDead true)); auto.
  - unfold r_fw_err_dl in H. open_rule H. exists c. split; auto.
    apply (disconnect_effect s j c (set_dl c DLDead)); auto.
Qed.

Lemma C17_remove_l : forall cf ls s, lrun cf init ls = Some s -> cancelled s = false ->
  forall i c, nth_error (clients s) i = Some c ->
    (p_rd c = RDDead \/ p_wr c = WRDead \/ (p_dl c = DLDead /\ p_rd c = RDIdle)) ->
    discs i (log s) <> [] /\ p_reg c = false.
Proof.
  intros cf ls s H Can i c Hc Hdead. pose proof (x_ok _ _ (ex_reach _ _ _ H) i) as X. rewrite Hc in X.
  destruct X as (A & B & C & D & _).
  assert (discs i (log s) <> []) as Hd.
  { destruct Hdead as [Hd|[Hd|[Hd1 Hd2]]].
    - destruct (A (C (or_introl Hd))); auto. congruence.
    - destruct (A (C (or_intror Hd))); auto. congruence.
    - destruct (D Hd1 Hd2); auto. congruence. }
  split; auto.
Qed.

Lemma C17_shutdown_l : forall cf ls s, lrun cf init ls = Some s -> cancelled s = true -> quiescent cf s = true ->
  (forall i c, nth_error (clients s) i = Some c -> p_honour c = true /\ dial_pending c = false) ->
  fw s = false /\ forall i c, nth_error (clients s) i = Some c -> client_alive c = false.
Proof. intros cf ls s _ Can Q. apply (shutdown_quiescent cf); auto. Qed.

Lemma C17_errors_reported_l : forall cf ls s, lrun cf init ls = Some s -> quiescent cf s = true -> fw s = true ->
  forall i c, nth_error (clients s) i = Some c ->
    p_rd c <> RDOfferErr /\ p_wr c <> WROfferErr /\ p_dl c <> DLOffer /\ (forall e, p_rd c <> RDOffer e).
Proof.
  intros cf ls s H Q F i c Hc. destruct (errors_reported _ _ Q F _ _ Hc) as (A & B & C & D).
  repeat split; auto. intros e. destruct (D e) as [X|X]; auto. rewrite (C17_no_crash_l _ _ _ H) in X. discriminate.
Qed.

(* C02_args_prefix_c2h: fault-free, no reset written under the stream's id: the messages a stream handler's RecvMsg was
   given (the bodies of the envelopes it took, in order) are a PREFIX of the ARGUMENTS of the caller's SendMsg calls
   that returned nil, in call order - no envelope in the statement. *)
From Coq Require Import List ZArith Bool Lia Arith.
Import ListNotations.
From Goat Require Import Model.Client Model.Server Proofs.ClientBase Proofs.ClientInv Proofs.ClientLog Proofs.ClientProps Proofs.ProtocolClient
  Proofs.ServerProofs Proofs.ServerInv Proofs.ServerTrace
  Model.Sys Proofs.SysLog Proofs.SysProofs Proofs.SysFacts Proofs.SysFacts2 Proofs.SysC01 Proofs.SysC01b Proofs.SysC01d
  Proofs.SysC02 Proofs.SysC02b Proofs.SysC02e Proofs.SysC02f Proofs.SysC02g Proofs.SysC02h Proofs.SysC02j Proofs.SysC02o.
Open Scope Z_scope.

Lemma tbodies_body_env i l : tbodies (map (body_env i) l) = l.
Proof. induction l as [|b l IH]; simpl; [reflexivity|]. unfold tbodies in *. simpl. rewrite IH. reflexivity. Qed.

Lemma tbodies_filter l : tbodies (filter hasb l) = tbodies l.
Proof.
  induction l as [|e l IH]; [reflexivity|]. unfold tbodies in *. simpl. unfold hasb at 1.
  destruct (ebody e) eqn:E; simpl; rewrite ?E; simpl; rewrite IH; reflexivity.
Qed.

Lemma tbodies_prefix a b : is_prefix a b -> is_prefix (tbodies a) (tbodies b).
Proof. intros [r ->]. exists (tbodies r). apply tbodies_app. Qed.

Theorem C02_args_prefix_c2h pol ls s h k c kc :
  Sys.lrun pol Sys.init ls = Some s -> fault_free ls = true ->
  (forall e, In (EvWrite e) (Client.log (cl s)) -> eid e = fid (h_req k) -> erst e = false) ->
  nth_error (hs (sv s)) h = Some k -> h_unary k = false ->
  nth_error (calls (cl s)) c = Some kc -> k_unary kc = false -> k_id kc = fid (h_req k) ->
  exists fs, recv_results h (Server.log (sv s)) = map recv_res fs /\
             is_prefix (tbodies (map f_env fs)) (csent c (Client.log (cl s))).
Proof.
  intros H Hff Hnr Hn Hu Hc Huc Hid.
  pose proof (proj_c_run _ _ _ _ H) as Hcl. pose proof (proj_s_run _ _ _ _ H) as Hs.
  destruct (C02_prefix_c2h _ _ _ _ _ H Hff Hnr Hn Hu) as (fs & E & P).
  exists fs. split; [exact E|].
  (* the first envelope under the id is the opening one: it has no body *)
  destruct (stream_PIh _ _ _ _ _ H Hff Hnr Hn Hu) as (_ & _ & T & HT0 & _).
  assert (Q : is_prefix (map f_env (idreads (fid (h_req k)) (Server.log (sv s)))) (by_id (fid (h_req k)) (cwrites (Client.log (cl s))))).
  { rewrite map_env_idreads. eapply wire_c2s_prefix_id; eauto. }
  rewrite HT0 in Q. simpl in Q. destruct Q as [r Q].
  destruct (srv_dispatch _ _ _ Hs) as (_ & HD). pose proof (HD _ (sig_in _ _ _ Hn)) as Rq. unfold hsig in Rq. simpl in Rq. rewrite Hu in Rq.
  destruct Rq as (_ & _ & Hb & _).
  assert (Hh : hasb (f_env (h_req k)) = false) by (unfold hasb; unfold has_body in Hb; destruct (ebody (f_env (h_req k))); [discriminate Hb | reflexivity]).
  pose proof (C02_args_c2h _ _ _ _ Hcl Hc Huc) as A. rewrite Hid, Q in A. simpl in A. rewrite Hh in A.
  rewrite Q in P. simpl in P.
  apply tbodies_prefix in P. rewrite <- (tbodies_body_env (fid (h_req k)) (csent c (Client.log (cl s)))).
  rewrite <- A, tbodies_filter. exact P.
Qed.

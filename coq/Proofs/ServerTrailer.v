(* C06_trailer_present on Model/Server.v: a stream handler that has returned has handed its trailer to the writer,
   unless its context was done: the caller's reset had been read, or the context given to Serve had ended / Serve was
   leaving. (The model has no GRPC-Timeout: the handler's OWN deadline - finding trailer-lost-on-handler-deadline - is
   outside it.) *)
From Coq Require Import List ZArith Bool Lia Arith.
Import ListNotations.
From Goat Require Import Model.Client Model.Protocol Model.Server Proofs.ServerProofs Proofs.ServerInv Proofs.ServerTrace
  Proofs.SysLog Proofs.ServerCancel Proofs.ServerOrigin Proofs.ServerWriter Proofs.ServerProto.
Open Scope Z_scope.

Definition rst_read (i : Z) (l : list sev) : Prop :=
  exists g, In (SvRead g) l /\ Server.is_rst g = true /\ fid g = i /\ dispatch g = DStream.

Lemma rst_read_mono i l evs : rst_read i l -> rst_read i (l ++ evs).
Proof. intros (g & A & B). exists g. split; auto. apply in_or_app; auto. Qed.

Definition returned (k : hnd) : Prop := h_pc k = HUnreg \/ h_pc k = HDead.

Definition excused (s : state) (k : hnd) : Prop := rst_read (fid (h_req k)) (log s) \/ cctx_done s = true.

Record tinv (s : state) : Prop := mkTinv {
  t_cancel : forall h k, nth_error (hs s) h = Some k -> h_unary k = false -> h_cancel k = true -> returned k \/ excused s k;
  t_ret : forall h k, nth_error (hs s) h = Some k -> h_unary k = false -> returned k ->
            exists f, fid f = fid (h_req k) /\ is_trailer (pf f) = true /\
                      (In (SvTaken f) (log s) \/ (In (SvLost f) (log s) /\ excused s k));
  t_pend : forall h k f, nth_error (hs s) h = Some k -> h_unary k = false -> h_pc k = HInSend f KTrl ->
             fid f = fid (h_req k) /\ is_trailer (pf f) = true;
  t_exit : rd_exited s = true -> cctx_done s = true }.

Lemma tinv_init nw : tinv (init_n nw).
Proof.
  constructor; simpl; intros; try discriminate.
  - destruct h; discriminate.
  - destruct h; discriminate.
  - destruct h; discriminate.
Qed.

Ltac ttac :=
  repeat match goal with
         | H : nth_error (upd _ _ _) _ = Some _ |- _ => apply nth_upd_inv' in H; destruct H as [(? & ? & _)|[? H]]; subst
         | H : nth_error (_ ++ [_]) _ = Some _ |- _ => apply nth_app_new in H; destruct H as [H|[? ?]]; subst
         end.

Ltac tfin T1 T2 T3 T4 :=
  unfold returned, excused, rd_exited, cctx_done in *; sproj; ttac;
  cbn [h_req h_pc h_cancel h_unary hset_pc hset_q hset_cancel hset_donesig hset_md hunregister new_stream new_unary] in *;
  try discriminate; try congruence;
  try (match goal with
       | H : h_pc ?k = HUnreg \/ h_pc ?k = HDead |- _ => destruct H; try congruence; try discriminate
       end);
  eauto.

Definition ret_ok (s : state) (k : hnd) : Prop :=
  exists f, fid f = fid (h_req k) /\ is_trailer (pf f) = true /\
            (In (SvTaken f) (log s) \/ (In (SvLost f) (log s) /\ excused s k)).

Lemma tinv_frame s s' evs :
  tinv s -> log s' = log s ++ evs -> (cctx_done s = true -> cctx_done s' = true) -> (rd_exited s' = true -> cctx_done s' = true) ->
  (forall h k', nth_error (hs s') h = Some k' ->
     h_unary k' = true \/ (h_cancel k' = false /\ h_pc k' = HGate) \/
     exists k, nth_error (hs s) h = Some k /\ h_req k' = h_req k /\ h_unary k' = h_unary k /\
               (returned k -> returned k') /\
               (h_cancel k' = true -> h_cancel k = true \/ returned k' \/ excused s' k') /\
               (returned k' -> returned k \/ ret_ok s' k') /\
               (forall f, h_pc k' = HInSend f KTrl -> h_pc k = HInSend f KTrl \/ (fid f = fid (h_req k) /\ is_trailer (pf f) = true))) ->
  tinv s'.
Proof.
  intros [T1 T2 T3 T4] El Hc Hx Hh.
  assert (Em : forall k k', h_req k' = h_req k -> excused s k -> excused s' k').
  { intros k k' Hq [A|A]; [left; rewrite El, Hq; apply rst_read_mono; auto | right; auto]. }
  assert (Rm : forall k k', h_req k' = h_req k -> ret_ok s k -> ret_ok s' k').
  { intros k k' Hq (f & A & B & C). exists f. rewrite Hq. repeat split; auto. rewrite El.
    destruct C as [C|[C D]]; [left; apply in_or_app; auto | right; split; [apply in_or_app; auto | eapply Em; eauto]]. }
  constructor; auto.
  - intros h k' Hn Hu Hcn. destruct (Hh _ _ Hn) as [X|[[X _]|(k & Hk & Hq & Hun & R & A & B & C)]]; try congruence.
    destruct (A Hcn) as [A1|[A1|A1]]; auto.
    destruct (T1 _ _ Hk ltac:(congruence) A1) as [R1|E]; [left; auto | right; eapply Em; eauto].
  - intros h k' Hn Hu Hr. destruct (Hh _ _ Hn) as [X|[[_ X]|(k & Hk & Hq & Hun & R & A & B & C)]]; try congruence.
    + destruct Hr as [Hr|Hr]; congruence.
    + destruct (B Hr) as [B1|B1]; auto. eapply Rm; eauto. apply (T2 _ _ Hk); auto. congruence.
  - intros h k' f Hn Hu Hp. destruct (Hh _ _ Hn) as [X|[[_ X]|(k & Hk & Hq & Hun & R & A & B & C)]]; try congruence.
    destruct (C _ Hp) as [C1|C1]; [|rewrite Hq; auto]. rewrite Hq. eapply T3; eauto; congruence.
Qed.


Ltac side T :=
  let T4 := fresh "T4" in pose proof (t_exit _ T) as T4; unfold rd_exited, cctx_done in *; sproj;
  repeat match goal with E : rd _ = _ |- _ => rewrite E in * end; simpl in *;
  intros; rewrite ?orb_true_r; auto with bool.

Ltac hmap :=
  let h := fresh "h" in let k' := fresh "k'" in let Hn := fresh "Hn" in
  intros h k' Hn; sproj; ttac;
  [ .. | right; right; exists k'; repeat split; auto ].

Ltac hsame := let h := fresh "h" in let k' := fresh "k'" in let Hn := fresh "Hn" in
  intros h k' Hn; sproj; right; right; exists k'; repeat split; auto.

Ltac hupd_t :=
  let h := fresh "h" in let k' := fresh "k'" in let Hn := fresh "Hn" in
  intros h k' Hn; sproj; ttac;
  [ right; right; eexists; split; [eassumption|];
    unfold returned;
    cbn [h_req h_pc h_cancel h_unary hset_pc hset_q hset_cancel hset_donesig hset_md hunregister];
    repeat split; auto;
    try (intros [X|X]; congruence); try (intros; congruence); try (intros ? X; inversion X; fail)
  | right; right; exists k'; repeat split; auto ].

Ltac gen T :=
  match goal with
  | |- tinv (add_log _ ?evs) => eapply (tinv_frame _ _ evs T)
  | |- tinv _ => eapply (tinv_frame _ _ [] T)
  end;
  [ sproj; rewrite ?app_nil_r; reflexivity | side T | side T | first [solve [hsame] | solve [hupd_t]] ].

Lemma tinv_int nw s j s' : inv nw s -> tinv s -> rule_of j s = Some s' -> tinv s'.
Proof.
  intros Iv T H. destruct j; simpl in H.
  all: try (start_rule H; try solve [gen T]).
  - (* a unary-method envelope read *)
    eapply (tinv_frame _ _ [SvRead f] T); [sproj; reflexivity | side T | side T | hsame].
  - (* a stream-method envelope read *)
    unfold stream_dispatch. sproj.
    destruct (find_reg (fid f) (hs s) 0) as [g|] eqn:Ef.
    + destruct (find_reg_some _ _ _ _ Ef) as (_ & kg & Hg & Hrg & Hig). rewrite Nat.sub_0_r in Hg.
      destruct (Server.is_rst f) eqn:Hrst.
      * rewrite Hg. sproj. eapply (tinv_frame _ _ [SvRead f] T); [sproj; reflexivity | side T | side T |].
        intros h k' Hn; sproj; ttac; [|right; right; exists k'; repeat split; auto].
        right; right. exists kg. split; auto. unfold returned. cbn [h_req h_pc h_cancel h_unary hset_cancel].
        repeat split; auto. intros _. right. right. left. exists f. repeat split; auto. apply in_or_app. right. left. auto.
      * eapply (tinv_frame _ _ [SvRead f] T); [sproj; reflexivity | side T | side T | hsame].
    + destruct (Server.is_rst f); [eapply (tinv_frame _ _ [SvRead f] T); [sproj; reflexivity | side T | side T | hsame]|].
      destruct (has_body f); [eapply (tinv_frame _ _ [SvRead f] T); [sproj; reflexivity | side T | side T | hsame]|].
      destruct (has_trl f); [eapply (tinv_frame _ _ [SvRead f] T); [sproj; reflexivity | side T | side T | hsame]|].
      destruct (md_bad f); [eapply (tinv_frame _ _ [SvRead f] T); [sproj; reflexivity | side T | side T | hsame]|].
      eapply (tinv_frame _ _ [SvRead f; SvInvoke (length (hs s)) false (fid f) (f_mth f) 0 (md_tok f)] T);
        [sproj; rewrite <- app_assoc; reflexivity | side T | side T |].
      intros h k' Hn; sproj; ttac; [right; right; exists k'; repeat split; auto | right; left; split; reflexivity].
  - (* the unary hand-off *)
    unfold start_unary. destruct (negb (has_hdr f)); [eapply (tinv_frame _ _ [SvJob n f] T); [sproj; reflexivity | side T | side T | hsame]|]. destruct (md_bad f); [eapply (tinv_frame _ _ [SvJob n f] T); [sproj; reflexivity | side T | side T | hsame]|]. destruct (body_tok f <? 0); [eapply (tinv_frame _ _ [SvJob n f] T); [sproj; reflexivity | side T | side T | hsame]|].
    eapply (tinv_frame _ _ [SvJob n f; SvInvoke (length (hs s)) true (fid f) (f_mth f) (body_tok f) (md_tok f)] T);
      [sproj; rewrite <- app_assoc; reflexivity | side T | side T |].
    intros h k' Hn; sproj; ttac; [right; right; exists k'; repeat split; auto | left; reflexivity].
  - (* the trailer is handed to the writer *)
    eapply (tinv_frame _ _ [SvTaken f] T); [sproj; reflexivity | side T | side T |].
    intros h1 k' Hn; sproj; ttac; [|right; right; exists k'; repeat split; auto].
    destruct (h_unary h0) eqn:Hu; [left; simpl; exact Hu|]. right; right. exists h0. split; auto.
    unfold returned. cbn [h_req h_pc h_cancel h_unary hset_pc hset_cancel]. repeat split; auto.
    + intros _. right. destruct (t_pend _ T _ _ _ Heqo Hu Heqh1) as [A B].
      exists f. repeat split; auto. left. apply in_or_app. right. left. auto.
    + intros g X. discriminate.
  - (* the trailer is given up: the handler's context is done *)
    eapply (tinv_frame _ _ [SvLost f] T); [sproj; reflexivity | side T | side T |].
    intros h1 k' Hn; sproj; ttac; [|right; right; exists k'; repeat split; auto].
    destruct (h_unary h0) eqn:Hu; [left; simpl; exact Hu|]. right; right. exists h0. split; auto.
    unfold returned. cbn [h_req h_pc h_cancel h_unary hset_pc hset_cancel]. repeat split; auto.
    + intros _. right. destruct (t_pend _ T _ _ _ Heqo Hu Heqh1) as [A B].
      exists f. repeat split; auto. right. split; [apply in_or_app; right; left; auto|].
      unfold hdone in Heqb. apply orb_true_iff in Heqb. destruct Heqb as [Hc|Hc].
      * destruct (t_cancel _ T _ _ Heqo Hu Hc) as [[R|R]|E]; try congruence.
        destruct E as [E|E]; [left; apply rst_read_mono; exact E | right; exact E].
      * right. exact Hc.
    + intros g X. discriminate.
  - (* unregisterStream *)
    assert (T1 : tinv (set_h s h (hset_pc h0 HDead))).
    { clear Heqo0 Heqo1. eapply (tinv_frame _ _ [] T); [sproj; rewrite app_nil_r; reflexivity | side T | side T |].
      intros h2 k' Hn; sproj; ttac; [|right; right; exists k'; repeat split; auto].
      right; right. exists h0. split; auto. unfold returned. cbn [h_req h_pc h_cancel h_unary hset_pc]. repeat split; auto.
      intros g X. discriminate. }
    assert (Hd : h_pc h1 = HDead).
    { destruct (unreg_self _ _ _ _ Iv Heqo Heqh1) as (Ef & _ & _). sproj. rewrite Ef in Heqo0. inversion Heqo0; subst n.
      rewrite nth_upd_same in Heqo1 by (eapply nth_error_lt; eauto). inversion Heqo1. reflexivity. }
    remember (set_h s h (hset_pc h0 HDead)) as s1 eqn:Es1. clear Es1 T Iv Heqo.
    eapply (tinv_frame _ _ [SvUnreg n] T1); [sproj; reflexivity | side T1 | side T1 |].
    intros h2 k' Hn; sproj; ttac; [|right; right; exists k'; repeat split; auto].
    right; right. exists h1. split; auto. unfold returned. cbn [h_req h_pc h_cancel h_unary hunregister]. repeat split; auto.
  - (* cancelAndWaitForStreams cancels a handler: Serve is leaving *)
    eapply (tinv_frame _ _ [] T); [sproj; rewrite app_nil_r; reflexivity | side T | side T |].
    intros h2 k' Hn; sproj; ttac; [|right; right; exists k'; repeat split; auto].
    right; right. exists h0. split; auto. unfold returned. cbn [h_req h_pc h_cancel h_unary hset_cancel]. repeat split; auto.
    intros _. right. right. right. pose proof (t_exit _ T) as X. unfold rd_exited in X. rewrite Heqr in X. sproj. apply X. reflexivity.
Qed.

Lemma trl_frame_ok k e : fid (trl_frame k e) = fid (h_req k) /\ is_trailer (pf (trl_frame k e)) = true.
Proof. unfold trl_frame, resp, pf, fid, is_trailer. simpl. split; reflexivity. Qed.

Lemma tinv_ext s a : tinv s -> tinv (ext s a).
Proof.
  intros T. destruct a; simpl; try solve [gen T].
  destruct (nth_error (hs s) h) as [k|] eqn:Hn; [|exact T].
  destruct (h_pc k) eqn:Hp; try exact T.
  unfold hstep. destruct (h_unary k) eqn:Hu.
  - destruct o; try exact T; try destruct (h_hsent k) eqn:Hs.
    all: match goal with
         | |- tinv (add_log _ ?evs) => eapply (tinv_frame _ _ evs T)
         | |- tinv _ => eapply (tinv_frame _ _ [] T)
         end; [ sproj; rewrite ?app_nil_r; reflexivity | side T | side T | ].
    all: intros h2 k' Hn2; sproj; ttac; try (left; simpl; exact Hu); right; right; exists k'; repeat split; auto.
  - destruct o; try destruct (h_hsent k) eqn:Hs.
    all: match goal with
         | |- tinv (add_log _ ?evs) => eapply (tinv_frame _ _ evs T)
         | |- tinv _ => eapply (tinv_frame _ _ [] T)
         end; [ sproj; rewrite ?app_nil_r; reflexivity | side T | side T | ].
    all: intros h2 k' Hn2; sproj; ttac; try (right; right; exists k'; repeat split; auto; fail).
    all: right; right; exists k; split; auto; unfold returned;
         cbn [h_req h_pc h_cancel h_unary hset_pc hset_md]; repeat split; auto;
         try (intros [X|X]; congruence); try (intros g X; try discriminate).
    all: inversion X; subst; right; apply trl_frame_ok.
Qed.

Theorem tinv_reach nw ls s : lrun (init_n nw) ls = Some s -> tinv s.
Proof.
  intros H.
  cut (inv nw s /\ tinv s); [tauto|].
  apply (lrun_inv (fun s => inv nw s /\ tinv s)) with (ls := ls) (s0 := init_n nw); auto.
  - intros s0 a [A B]. split; [apply inv_ext; auto | apply tinv_ext; auto].
  - intros s0 i s' [A B] R. split; [eapply inv_int; eauto | eapply tinv_int; eauto].
  - split; [apply inv_init | apply tinv_init].
Qed.

Lemma in_outcomes l f : In f (map snd (outcomes l)) -> In (SvWrite f) l \/ In (SvWFail f) l.
Proof.
  intros H. apply in_map_iff in H. destruct H as ([b g] & E & Hin). simpl in E. subst g.
  unfold outcomes in Hin. apply in_flat_map in Hin. destruct Hin as (e & He & Hf).
  destruct e; try contradiction; destruct Hf as [X|[]]; inversion X; subst; auto.
Qed.

(* what became of the envelope: the transport took it, refused it, or the writer is in its Write call with it *)
Definition writer_fate (s : state) (f : frame) : Prop :=
  In (SvWrite f) (log s) \/ In (SvWFail f) (log s) \/ wr s = WrWrite f.

(* C06_trailer_present: in every reachable state, for every stream handler that has returned, a trailer envelope of
   its stream id was handed to the writer (and then written, refused by the transport, or is being written) - unless
   the handler's context was done when it offered the trailer: then the envelope may be given up (SvLost), and in that
   case the caller's reset for the id had been read, or the context of the connection was done (the context given to
   Serve cancelled, or Serve leaving). *)
Theorem C06_trailer_present_l nw ls s h k :
  lrun (init_n nw) ls = Some s -> nth_error (hs s) h = Some k -> h_unary k = false -> returned k ->
  exists f, fid f = fid (h_req k) /\ is_trailer (pf f) = true /\
            ((In (SvTaken f) (log s) /\ writer_fate s f) \/ (In (SvLost f) (log s) /\ excused s k)).
Proof.
  intros H Hn Hu Hr. pose proof (tinv_reach _ _ _ H) as T.
  destruct (t_ret _ T _ _ Hn Hu Hr) as (f & A & B & C). exists f. split; auto. split; auto.
  destruct C as [C|C]; [left; split; auto | right; auto].
  pose proof (srv_taken_written _ _ _ H) as W.
  assert (X : In f (taken_of (log s))) by (apply in_taken; auto).
  rewrite W in X. apply in_app_or in X. unfold writer_fate. destruct X as [X|X].
  - apply in_outcomes in X. tauto.
  - unfold inflight in X. destruct (wr s); try contradiction. destruct X as [<-|[]]. auto.
Qed.

(* with nothing to excuse it: no reset read for the id, the connection's context live: the trailer was taken *)
Corollary C06_trailer_taken_l nw ls s h k :
  lrun (init_n nw) ls = Some s -> nth_error (hs s) h = Some k -> h_unary k = false -> returned k ->
  ~ rst_read (fid (h_req k)) (log s) -> cctx_done s = false ->
  exists f, fid f = fid (h_req k) /\ is_trailer (pf f) = true /\ In (SvTaken f) (log s) /\ writer_fate s f.
Proof.
  intros H Hn Hu Hr N1 N2. destruct (C06_trailer_present_l _ _ _ _ _ H Hn Hu Hr) as (f & A & B & [C|[_ [C|C]]]).
  - exists f. tauto.
  - contradiction.
  - congruence.
Qed.
Print Assumptions C06_trailer_present_l.

(* C02_prefix, direction caller -> handler, end to end (fault-free, no reset): the RecvMsg results of a stream
   handler are the classifications of the FIRST n envelopes its caller wrote on the stream after the opening
   one: nothing lost, duplicated, reordered or altered. *)
From Coq Require Import List ZArith Bool Lia Arith.
Import ListNotations.
From Goat Require Import Model.Client Model.Server Proofs.ClientBase Proofs.ClientInv Proofs.ClientLog Proofs.ClientProps
  Proofs.ProtocolClient Proofs.ServerProofs Proofs.ServerInv Proofs.ServerTrace Model.Sys Proofs.SysLog Proofs.SysProofs
  Proofs.SysFacts Proofs.SysFacts2 Proofs.SysC01 Proofs.SysC01b Proofs.SysC01d Proofs.SysC02 Proofs.SysC02b Proofs.SysC02e Proofs.SysC02g.
Open Scope Z_scope.

(* ---------- client: only the first envelope written under an id can be an opening one ---------- *)
Definition eopener (e : env) : bool :=
  match ebody e, etrl e with None, None => negb (erst e) | _, _ => false end.

Definition OPN (s : Client.state) : Prop :=
  forall i e, In e (tl (by_id i (cwrites (Client.log s)))) -> eopener e = false.

Lemma by_id_app i a b : by_id i (a ++ b) = by_id i a ++ by_id i b.
Proof. unfold by_id. apply filter_app. Qed.

Lemma OPN_grow s s' evs :
  OPN s -> Client.log s' = Client.log s ++ evs ->
  (cwrites evs = [] \/ exists e, cwrites evs = [e] /\ (eopener e = false \/ by_id (eid e) (cwrites (Client.log s)) = [])) ->
  OPN s'.
Proof.
  intros HO E Hw i e Hin. rewrite E, cwrites_app, by_id_app in Hin.
  destruct Hw as [Hw | (e0 & Hw & Hc)]; rewrite Hw in Hin; [simpl in Hin; rewrite app_nil_r in Hin; eapply HO; eauto|].
  unfold by_id at 2 in Hin. simpl in Hin. destruct (Z.eqb_spec (eid e0) i) as [<-|Hne]; [|rewrite app_nil_r in Hin; eapply HO; eauto].
  destruct (by_id (eid e0) (cwrites (Client.log s))) as [|x l0] eqn:E0.
  - simpl in Hin. destruct Hin.
  - simpl in Hin. apply in_app_or in Hin. destruct Hin as [Hin | [<- | []]].
    + apply (HO (eid e0)). rewrite E0. exact Hin.
    + destruct Hc as [Hc | Hc]; [exact Hc | discriminate Hc].
Qed.

Ltac opn_tac :=
  csimpl;
  first [ left; reflexivity
        | right; eexists; split; [reflexivity | left; reflexivity] ].

Lemma OPN_step ls s l s' : Client.lrun Client.init ls = Some s -> OPN s -> Client.lstep s l = Some s' -> OPN s'.
Proof.
  intros Hrun HO H. destruct l as [a|n]; simpl in H.
  - inversion H; subst. intros i e Hin. rewrite clog_ext in Hin. eapply HO; eauto.
  - destruct (nth_error (Client.rules s) n) as [r|] eqn:E; [|discriminate]. apply nth_error_In in E.
    pose proof (J_reach _ _ Hrun) as (_ & _ & HJ).
    apply rules_in in E. destruct E as [->|[->|(c & _ & Hin)]].
    + unfold r_rl_unblock in H. open_rule H; (eapply OPN_grow; [exact HO | csimpl; first [rewrite <- ?app_assoc; reflexivity | symmetry; apply app_nil_r] | opn_tac]).
    + unfold r_rl_read in H. open_rule H; (eapply OPN_grow; [exact HO | csimpl; first [rewrite <- ?app_assoc; reflexivity | symmetry; apply app_nil_r] | opn_tac]).
    + simpl in Hin.
      repeat (destruct Hin as [<-|Hin];
              [ unfold r_check, r_reg, r_wait, r_wait_ctx, r_unreg, r_loop_read, r_loop_read_ctx, r_loop_hand,
                       r_loop_hand_ctx, r_loop_exit, r_loop_unreg, r_recv, r_header, r_trailer, r_send in H;
                open_rule H; try (eapply OPN_grow; [exact HO | csimpl; first [rewrite <- ?app_assoc; reflexivity | symmetry; apply app_nil_r] | opn_tac]) | ]).
      all: try destruct Hin.
      (* r_reg of a stream: the opening envelope is the first under its id *)
      all: eapply OPN_grow; [exact HO | csimpl; reflexivity | ].
      all: right; eexists; split; [reflexivity | right].
      all: match goal with Hn : nth_error (calls _) ?c = Some ?k, Hp : k_pc ?k = PReg |- _ =>
             destruct (HJ _ _ Hn) as (_ & _ & _ & HW & _); rewrite Hp in HW; unfold projE, wr in HW; rewrite wr_of_cwrites in HW; exact HW end.
Qed.

Theorem OPN_reach ls : forall s, Client.lrun Client.init ls = Some s -> OPN s.
Proof.
  induction ls as [|l ls IH] using rev_ind; intros s H.
  - inversion H; subst. intros i e Hin. simpl in Hin. destruct Hin.
  - destruct (lrun_snoc_inv _ _ _ _ H) as (s1 & H1 & Hl). eapply OPN_step; eauto.
Qed.

(* ---------- the system: the server's peer respects the per-stream shape ---------- *)
Lemma in_tl_prefix {A} (x : A) p l : In x (tl p) -> is_prefix p l -> In x (tl l).
Proof. intros H [r ->]. apply in_tl_app. exact H. Qed.

Lemma in_tl_map {A B} (g : A -> B) x l : In x (tl l) -> In (g x) (tl (map g l)).
Proof. destruct l; simpl; [tauto|]. apply in_map. Qed.

Lemma filter_prefix' {A} (g : A -> bool) p l : is_prefix p l -> is_prefix (filter g p) (filter g l).
Proof. intros [r ->]. exists (filter g r). apply filter_app. Qed.

Lemma sys_reads_prefix pol ls s : Sys.lrun pol Sys.init ls = Some s -> is_prefix (sreads (Server.log (sv s))) (sent_c2s s).
Proof. intros H. destruct (winv_reach _ _ _ H) as [_ W2 _]. rewrite <- W2. eexists. reflexivity. Qed.

Lemma dispatch_eq f g : ehdr (f_env f) = ehdr (f_env g) -> f_mth f = f_mth g -> f_dst f = f_dst g -> dispatch f = dispatch g.
Proof. intros A B C. unfold dispatch. rewrite A, B, C. reflexivity. Qed.

Lemma wshape_hdr e : wshape e -> ehdr e = Some (MdOk 0).
Proof. intros [(b & ->) | [-> | [-> | ->]]]; reflexivity. Qed.

Theorem sys_good_id pol ls s i :
  Sys.lrun pol Sys.init ls = Some s ->
  (forall e, In (EvWrite e) (Client.log (cl s)) -> eid e = i -> erst e = false) ->
  good i (Server.log (sv s)).
Proof.
  intros H Hnr.
  pose proof (proj_c_run _ _ _ _ H) as Hc.
  pose proof (sys_reads_prefix _ _ _ H) as Hp.
  destruct (winv_reach _ _ _ H) as [W1 _ _].
  assert (Hsent : forall f, In f (idreads i (Server.log (sv s))) -> In f (sent_c2s s) /\ fid f = i).
  { intros f Hin. unfold idreads in Hin. apply filter_In in Hin. destruct Hin as (Hin & Hid). apply Z.eqb_eq in Hid.
    split; auto. destruct Hp as [r ->]. apply in_or_app. auto. }
  assert (Hw : forall f, In f (sent_c2s s) -> In (EvWrite (f_env f)) (Client.log (cl s))).
  { intros f Hin. apply in_cwrites. rewrite <- W1. apply in_map. exact Hin. }
  repeat split.
  - intros f Hin. destruct (Hsent _ Hin) as (Hs & Hi). unfold is_rst. apply Hnr; [apply Hw; exact Hs | exact Hi].
  - intros f g Hf Hg. destruct (Hsent _ Hf) as (Hsf & Hif). destruct (Hsent _ Hg) as (Hsg & Hig).
    destruct (sent_ok_init _ _ _ H _ Hsf) as (c1 & k1 & Hk1 & Hid1 & Hpos1 & Hm1 & Hd1).
    destruct (sent_ok_init _ _ _ H _ Hsg) as (c2 & k2 & Hk2 & Hid2 & Hpos2 & Hm2 & Hd2).
    assert (c1 = c2).
    { destruct (Nat.eq_dec c1 c2); auto. exfalso. destruct (all_inv_reach _ _ Hc) as (_ & HS & _).
      eapply (si_id_uniq _ HS c1 c2 k1 k2); eauto. lia. congruence. }
    subst c2. rewrite Hk1 in Hk2. inversion Hk2; subst k2.
    apply dispatch_eq; [|congruence|congruence].
    rewrite (wshape_hdr _ (WS_reach _ _ Hc _ (Hw _ Hsf))), (wshape_hdr _ (WS_reach _ _ Hc _ (Hw _ Hsg))). reflexivity.
  - intros f Hin.
    assert (X : In (f_env f) (tl (by_id i (cwrites (Client.log (cl s)))))).
    { apply (in_tl_map f_env) in Hin. rewrite map_env_idreads in Hin.
      eapply in_tl_prefix; [exact Hin|]. eapply wire_c2s_prefix_id; eauto. }
    pose proof (OPN_reach _ _ Hc i _ X) as Ho.
    assert (Hr : erst (f_env f) = false).
    { assert (Y : In f (idreads i (Server.log (sv s)))) by (destruct (idreads i (Server.log (sv s))); [destruct Hin | right; exact Hin]).
      apply Hnr; [apply Hw; apply (Hsent _ Y) | apply (Hsent _ Y)]. }
    unfold eopener in Ho. unfold opener, has_body, has_trl. rewrite Hr in Ho.
    destruct (ebody (f_env f)); [reflexivity|]. destruct (etrl (f_env f)); [reflexivity | discriminate Ho].
Qed.

Theorem sys_good pol ls s :
  Sys.lrun pol Sys.init ls = Some s ->
  (forall e, In (EvWrite e) (Client.log (cl s)) -> erst e = false) ->
  Good (Server.log (sv s)).
Proof. intros H Hnr i. apply (sys_good_id _ _ _ _ H). intros e He _. auto. Qed.

(* the pipeline invariant of ONE stream: only resets written under ITS id matter *)
Lemma stream_PIh pol ls s h k :
  Sys.lrun pol Sys.init ls = Some s -> fault_free ls = true ->
  (forall e, In (EvWrite e) (Client.log (cl s)) -> eid e = fid (h_req k) -> erst e = false) ->
  nth_error (hs (sv s)) h = Some k -> h_unary k = false -> PIh (sv s) h k.
Proof.
  intros H Hff Hnr Hn Hu.
  pose proof (proj_s_run _ _ _ _ H) as Hs.
  apply (PIs_reach (fun j => j =? fid (h_req k)) _ _ _ Hs (proj_s_lbl_ok _ _ _ Hff)); auto; [|apply Z.eqb_refl].
  intros i Si. apply Z.eqb_eq in Si. subst i. eapply sys_good_id; eauto.
Qed.

(* ---------- C02_prefix, caller -> handler ---------- *)
Theorem C02_prefix_c2h pol ls s h k :
  Sys.lrun pol Sys.init ls = Some s -> fault_free ls = true ->
  (forall e, In (EvWrite e) (Client.log (cl s)) -> eid e = fid (h_req k) -> erst e = false) ->
  nth_error (hs (sv s)) h = Some k -> h_unary k = false ->
  exists fs, recv_results h (Server.log (sv s)) = map recv_res fs /\
             is_prefix (map f_env fs) (tl (by_id (fid (h_req k)) (cwrites (Client.log (cl s))))).
Proof.
  intros H Hff Hnr Hn Hu.
  pose proof (proj_s_run _ _ _ _ H) as Hs.
  pose proof (stream_PIh _ _ _ _ _ H Hff Hnr Hn Hu) as (Hce & Hd & T & HT0 & Hb & Hcc).
  exists (takes h (Server.log (sv s))). split; [apply (RR_reach _ _ _ Hs)|].
  assert (P : is_prefix (takes h (Server.log (sv s))) T).
  { destruct (h_cancel k) eqn:C; [apply Hcc; reflexivity|]. rewrite (Hb eq_refl). eexists. reflexivity. }
  assert (Q : is_prefix (map f_env (idreads (fid (h_req k)) (Server.log (sv s)))) (by_id (fid (h_req k)) (cwrites (Client.log (cl s))))).
  { rewrite map_env_idreads. eapply wire_c2s_prefix_id; eauto. }
  rewrite HT0 in Q. simpl in Q. destruct Q as [r Q]. rewrite Q. simpl.
  destruct P as [r' ->]. rewrite map_app. exists (map f_env r' ++ r). rewrite <- app_assoc. reflexivity.
Qed.

From Coq Require Import List Bool Arith Lia.
Import ListNotations.
From Goat Require Import Model.Stats Model.StatsAuto Proofs.StatsProofs.

(* one step of inversion of a run from a concrete, non-final program point *)
Ltac inv_run H :=
  let Hin := fresh "Hin" in let Hrest := fresh "Hrest" in
  inversion H as [ | ? ? ? ? ? Hin Hrest]; subst; clear H;
  simpl in Hin;
  repeat (destruct Hin as [Hin|Hin]; [injection Hin as <- <- | ]); try contradiction.

Lemma run_done evs s : arun Done evs s -> evs = [] /\ s = Done.
Proof. intro H. inversion H as [ | ? ? ? ? ? Hin _]; subst; [split; reflexivity|destruct Hin]. Qed.

Ltac fin H := apply run_done in H; destruct H as [-> _].

(* follow every path from a concrete program point to Done *)
Ltac explore :=
  repeat match goal with
         | H : arun Done _ _ |- _ => apply run_done in H; destruct H as [-> _]
         | H : arun _ _ Done |- _ => inv_run H
         end.

Lemma step1 s evs s1 rest s2 : In (evs, s1) (anext s) -> arun s1 rest s2 -> arun s (evs ++ rest) s2.
Proof. apply AStep. Qed.

Lemma arun_app s a s1 b s2 : arun s a s1 -> arun s1 b s2 -> arun s (a ++ b) s2.
Proof.
  induction 1 as [s|s evs s1 rest s2' Hin _ IH]; intro H2; [exact H2|].
  rewrite <- app_assoc. eapply AStep; [exact Hin|apply IH; exact H2].
Qed.

(* ---------- client, unary: the table is the path language ---------- *)
Theorem cu_language evs :
  apath CU_entry evs <-> exists x, cu_wf x = true /\ evs = cu_events x.
Proof.
  unfold apath. split.
  - intro H. explore.
    all: first [ exists (CU_marshal RErr); split; reflexivity | exists (CU_marshal REof); split; reflexivity
               | exists (CU_early RErr); split; reflexivity | exists (CU_early REof); split; reflexivity
               | exists CU_status; split; reflexivity | exists CU_malformed; split; reflexivity
               | exists CU_unmarshal; split; reflexivity | exists CU_ok; split; reflexivity ].
  - intros [x [Hwf ->]].
    destruct x as [r|r| | | |]; try destruct r; try discriminate Hwf; cbn [cu_events app].
    all: eapply (AStep CU_entry [TagRPC; Begin]); [simpl; tauto|].
    1,2: eapply (AStep CU_started [_] Done []); [simpl; tauto|apply ARefl].
    all: eapply (AStep CU_started [OutHeader; OutPayload]); [simpl; tauto|].
    1,2: eapply (AStep CU_sent_events [_] Done []); [simpl; tauto|apply ARefl].
    all: eapply (AStep CU_sent_events [InHeader]); [simpl; tauto|].
    1,2: eapply (AStep CU_got_response [End false] Done []); [simpl; tauto|apply ARefl].
    all: eapply (AStep CU_got_response []); [simpl; tauto|].
    all: eapply (AStep CU_got_body [InPayload; _] Done []); [simpl; tauto|apply ARefl].
Qed.

(* ---------- server, unary ---------- *)
Definition su_ok (x : su_exit) : Prop :=
  match x with SU_run DecErr r => r = RErr | _ => True end.

Theorem su_language evs :
  apath SU_entry evs <-> exists x, su_ok x /\ evs = su_events x.
Proof.
  unfold apath. split.
  - intro H. explore.
    all: first [ exists SU_bad_metadata; split; [exact I|reflexivity]
               | exists (SU_run DecOk RNil); split; [exact I|reflexivity] | exists (SU_run DecOk RErr); split; [exact I|reflexivity]
               | exists (SU_run DecOk REof); split; [exact I|reflexivity]
               | exists (SU_run DecEmpty RNil); split; [exact I|reflexivity] | exists (SU_run DecEmpty RErr); split; [exact I|reflexivity]
               | exists (SU_run DecEmpty REof); split; [exact I|reflexivity]
               | exists (SU_run DecErr RErr); split; reflexivity ].
  - intros [x [Hok ->]]. destruct x as [| |d r].
    + eapply (AStep SU_entry [] Done []); [simpl; tauto|apply ARefl].
    + eapply (AStep SU_entry [] Done []); [simpl; tauto|apply ARefl].
    + cbn [su_events]. eapply (AStep SU_entry [TagRPC; Begin; InHeader]); [simpl; tauto|].
      destruct d.
      * eapply (AStep SU_started [InPayload]); [simpl; tauto|].
        eapply (AStep (SU_decoded false) [] (SU_returned r)); [destruct r; simpl; tauto|].
        eapply (AStep (SU_returned r) [OutHeader; OutPayload; OutTrailer]); [simpl; tauto|].
        eapply (AStep (SU_replied r) [end_helper r] Done []); [simpl; tauto|apply ARefl].
      * eapply (AStep SU_started [] (SU_decoded false)); [simpl; tauto|].
        eapply (AStep (SU_decoded false) [] (SU_returned r)); [destruct r; simpl; tauto|].
        eapply (AStep (SU_returned r) [OutHeader; OutPayload; OutTrailer]); [simpl; tauto|].
        eapply (AStep (SU_replied r) [end_helper r] Done []); [simpl; tauto|apply ARefl].
      * cbn in Hok. subst r.
        eapply (AStep SU_started [] (SU_decoded true)); [simpl; tauto|].
        eapply (AStep (SU_decoded true) [] (SU_returned RErr)); [simpl; tauto|].
        eapply (AStep (SU_returned RErr) [OutHeader; OutPayload; OutTrailer]); [simpl; tauto|].
        eapply (AStep (SU_replied RErr) [end_helper RErr] Done []); [simpl; tauto|apply ARefl].
Qed.

(* ---------- server, stream ---------- *)
Lemma ss_running_paths h evs :
  arun (SS_running h) evs Done -> exists ops r, evs = ss_run h ops ++ [OutTrailer; end_helper r].
Proof.
  intro H. remember (SS_running h) as s0 eqn:Es. remember Done as sd eqn:Ed. revert h Es.
  induction H as [s|s evs s1 rest s2 Hin Hrun IH]; intros h Es; subst.
  - discriminate Es.
  - cbn [anext] in Hin. apply in_app_or in Hin. destruct Hin as [Hin|Hin].
    + apply in_map_iff in Hin. destruct Hin as (o & Ho & _).
      destruct (ss_step h o) as [e h'] eqn:Est. injection Ho as <- <-.
      destruct (IH eq_refl h' eq_refl) as (ops & r & ->). exists (o :: ops), r.
      cbn [ss_run]. rewrite Est. rewrite <- app_assoc. reflexivity.
    + apply in_map_iff in Hin. destruct Hin as (r & Hr & _). injection Hr as <- <-. clear IH.
      explore. exists [], r. reflexivity.
Qed.

Lemma ss_running_runs h ops r : arun (SS_running h) (ss_run h ops ++ [OutTrailer; end_helper r]) Done.
Proof.
  revert h. induction ops as [|o ops IH]; intro h.
  - cbn [ss_run app].
    eapply (AStep (SS_running h) [] (SS_returned r)); [cbn [anext]; apply in_or_app; right; destruct r; simpl; tauto|].
    eapply (AStep (SS_returned r) [OutTrailer] (SS_trailed r)); [simpl; tauto|].
    eapply (AStep (SS_trailed r) [end_helper r] Done []); [simpl; tauto|apply ARefl].
  - cbn [ss_run]. destruct (ss_step h o) as [e h'] eqn:Est. rewrite <- app_assoc.
    eapply (AStep (SS_running h) e (SS_running h')); [|apply IH].
    cbn [anext]. apply in_or_app. left. apply in_map_iff. exists o. rewrite Est. split; [reflexivity|].
    destruct o as [| | |w|]; try destruct w; simpl; tauto.
Qed.

Theorem ss_language evs :
  apath SS_entry evs <-> evs = ss_events SS_bad_metadata \/ exists ops r, evs = ss_events (SS_run ops r).
Proof.
  unfold apath. split.
  - intro H. inv_run H.
    + fin Hrest. left. reflexivity.
    + right. destruct (ss_running_paths _ _ Hrest) as (ops & r & ->). exists ops, r. reflexivity.
  - intros [->|(ops & r & ->)].
    + eapply (AStep SS_entry [] Done []); [simpl; tauto|apply ARefl].
    + cbn [ss_events]. eapply (AStep SS_entry [TagRPC; Begin; InHeader]); [simpl; tauto|apply ss_running_runs].
Qed.

(* ---------- client, stream ---------- *)
Lemma cs_open_runs e h evs s' :
  arun (CS_open e h) evs s' ->
  exists ops, evs = fst (cs_run (mkCs e h) ops) /\ s' = CS_open (cs_ended (snd (cs_run (mkCs e h) ops))) (cs_header (snd (cs_run (mkCs e h) ops))).
Proof.
  intro H. remember (CS_open e h) as s0 eqn:Es. revert e h Es.
  induction H as [s|s evs s1 rest s2 Hin Hrun IH]; intros e h Es; subst.
  - exists []. split; reflexivity.
  - cbn [anext] in Hin. apply in_map_iff in Hin. destruct Hin as (o & Ho & _).
    destruct (cs_step (mkCs e h) o) as [ev st] eqn:Est. injection Ho as <- <-.
    destruct (IH (cs_ended st) (cs_header st) eq_refl) as (ops & -> & ->).
    exists (o :: ops). cbn [cs_run]. rewrite Est. destruct st as [e1 h1]. cbn [cs_ended cs_header].
    destruct (cs_run (mkCs e1 h1) ops) as [e2 s2']. cbn. split; reflexivity.
Qed.

Lemma cs_open_reaches e h ops :
  arun (CS_open e h) (fst (cs_run (mkCs e h) ops))
       (CS_open (cs_ended (snd (cs_run (mkCs e h) ops))) (cs_header (snd (cs_run (mkCs e h) ops)))).
Proof.
  revert e h. induction ops as [|o ops IH]; intros e h; [apply ARefl|].
  cbn [cs_run]. destruct (cs_step (mkCs e h) o) as [ev st] eqn:Est. destruct st as [e1 h1].
  specialize (IH e1 h1). destruct (cs_run (mkCs e1 h1) ops) as [e2 s2]. cbn [fst snd] in *.
  eapply (AStep (CS_open e h) ev (CS_open e1 h1)); [|exact IH].
  cbn [anext]. apply in_map_iff. exists o. rewrite Est. split; [reflexivity|].
  destruct o as [| | | | | |b| |]; try destruct b; simpl; tauto.
Qed.

(* an opened stream: the events up to ANY point are cs_events of the calls and
   arrivals so far; a failed open is a complete path *)
Theorem cs_language evs :
  (apath CS_entry evs <-> evs = cs_events CSO_refused [] \/ evs = cs_events CSO_write_fail []) /\
  ((exists e h, arun CS_entry evs (CS_open e h)) <-> exists ops, evs = cs_events CSO_ok ops).
Proof.
  split; split.
  - unfold apath. intro H. inv_run H. inv_run Hrest.
    + fin Hrest0. left. reflexivity.
    + inv_run Hrest0.
      * fin Hrest. right. reflexivity.
      * exfalso. destruct (cs_open_runs _ _ _ _ Hrest) as (ops & _ & Hd). discriminate Hd.
  - intros [->| ->]; cbn [cs_events app].
    + eapply (AStep CS_entry [TagRPC; Begin]); [simpl; tauto|].
      eapply (AStep CS_started [End false] Done []); [simpl; tauto|apply ARefl].
    + eapply (AStep CS_entry [TagRPC; Begin]); [simpl; tauto|].
      eapply (AStep CS_started [] CS_registered); [simpl; tauto|].
      eapply (AStep CS_registered [End false] Done []); [simpl; tauto|apply ARefl].
  - intros (e & h & H). inv_run H. inv_run Hrest.
    + apply run_done in Hrest0. destruct Hrest0 as [_ Hd]. discriminate Hd.
    + inv_run Hrest0.
      * apply run_done in Hrest. destruct Hrest as [_ Hd]. discriminate Hd.
      * destruct (cs_open_runs _ _ _ _ Hrest) as (ops & -> & _). exists ops. reflexivity.
  - intros (ops & ->). cbn [cs_events app].
    eexists; eexists.
    eapply (AStep CS_entry [TagRPC; Begin]); [simpl; tauto|].
    eapply (AStep CS_started [] CS_registered); [simpl; tauto|].
    eapply (AStep CS_registered [OutHeader]); [simpl; tauto|].
    apply cs_open_reaches.
Qed.

(* ---------- theorems about ALL paths ---------- *)
(* a complete path of a unary or server role: nothing at all (the request was
   refused before dispatch) or tagging call, one Begin first, plain events, one
   End last *)
Theorem complete_paths_wf s0 evs :
  s0 = CU_entry \/ s0 = SU_entry \/ s0 = SS_entry \/ s0 = CS_entry ->
  apath s0 evs -> evs = [] \/ exists b, wf_finished evs b.
Proof.
  intros [->|[->|[->| ->]]] H.
  - apply cu_language in H. destruct H as (x & Hwf & ->). right. exists (cu_success x). apply cu_wf_finished. exact Hwf.
  - apply su_language in H. destruct H as (x & _ & ->). destruct x as [| |d r]; [left; reflexivity|left; reflexivity|].
    right. exists (res_flag r). apply su_wf_finished.
  - apply ss_language in H. destruct H as [->|(ops & r & ->)]; [left; reflexivity|].
    right. exists (res_flag r). apply ss_wf_finished.
  - apply (proj1 (cs_language evs)) in H. destruct H as [->| ->]; right; exists false; apply cs_failed_open; discriminate.
Qed.

(* order: on every complete path of a unary or server role every InPayload and
   every Out* event comes after the role's InHeader / Begin as the code has it:
   InPayload is preceded by InHeader *)
Definition before (a b : sev) (evs : list sev) : Prop :=
  forall pre post, evs = pre ++ b :: post -> In a pre.

Lemma before_split a b front rest : a <> b -> ~ In b front -> before a b (front ++ a :: rest).
Proof.
  intros Hab. induction front as [|f front IH]; intros Hn pre post E.
  - destruct pre as [|x pre]; cbn [app] in E; injection E as E1 E2; [congruence|subst x; left; reflexivity].
  - destruct pre as [|x pre]; cbn [app] in E; injection E as E1 E2.
    + exfalso. apply Hn. left. exact E1.
    + right. apply (IH (fun H => Hn (or_intror H)) pre post E2).
Qed.

Theorem inheader_before_inpayload s0 evs :
  s0 = CU_entry \/ s0 = SU_entry \/ s0 = SS_entry -> apath s0 evs -> before InHeader InPayload evs.
Proof.
  intros Hs H.
  assert (Hno : forall l : list sev, ~ In InPayload l -> before InHeader InPayload l).
  { intros l Hn pre post E. exfalso. apply Hn. rewrite E. apply in_or_app. right. left. reflexivity. }
  destruct Hs as [->|[->| ->]].
  - apply cu_language in H. destruct H as (x & Hwf & ->).
    destruct x as [r|r| | | |]; try destruct r; try discriminate Hwf; cbn [cu_events app end_helper_client res_ok].
    all: first [ apply Hno; simpl; intuition discriminate
               | apply (before_split InHeader InPayload [TagRPC; Begin; OutHeader; OutPayload]); [discriminate|simpl; intuition discriminate] ].
  - apply su_language in H. destruct H as (x & _ & ->). destruct x as [| |d r].
    1,2: apply Hno; simpl; tauto.
    cbn [su_events app]. apply (before_split InHeader InPayload [TagRPC; Begin]); [discriminate|simpl; intuition discriminate].
  - apply ss_language in H. destruct H as [->|(ops & r & ->)]; [apply Hno; simpl; tauto|].
    cbn [ss_events app]. apply (before_split InHeader InPayload [TagRPC; Begin]); [discriminate|simpl; intuition discriminate].
Qed.

(* the two halves of wf_finished, as the property words them *)
Lemma wf_begin_first evs b : wf_finished evs b ->
  exists rest, evs = TagRPC :: Begin :: rest /\ ~ In Begin rest /\ ~ In TagRPC rest.
Proof.
  intros (mid & -> & Hm). exists (mid ++ [End b]). split; [reflexivity|].
  split; intro Hin; apply in_app_or in Hin; destruct Hin as [Hin|[Hin|[]]]; try discriminate Hin;
    rewrite Forall_forall in Hm; specialize (Hm _ Hin); discriminate Hm.
Qed.

Lemma wf_end_once_last evs b : wf_finished evs b ->
  exists pre, evs = pre ++ [End b] /\ forall b', ~ In (End b') pre.
Proof.
  intros (mid & -> & Hm). exists (TagRPC :: Begin :: mid). split; [reflexivity|].
  intros b' [Hin|[Hin|Hin]]; try discriminate Hin.
  rewrite Forall_forall in Hm. specialize (Hm _ Hin). discriminate Hm.
Qed.

Theorem begin_first_all_paths s0 evs :
  s0 = CU_entry \/ s0 = SU_entry \/ s0 = SS_entry \/ s0 = CS_entry -> apath s0 evs ->
  evs = [] \/ exists rest, evs = TagRPC :: Begin :: rest /\ ~ In Begin rest /\ ~ In TagRPC rest.
Proof.
  intros Hs H. destruct (complete_paths_wf s0 evs Hs H) as [->|(b & Hw)]; [left; reflexivity|right; eapply wf_begin_first; exact Hw].
Qed.

Theorem end_once_last_all_paths s0 evs :
  s0 = CU_entry \/ s0 = SU_entry \/ s0 = SS_entry \/ s0 = CS_entry -> apath s0 evs ->
  evs = [] \/ exists pre b, evs = pre ++ [End b] /\ forall b', ~ In (End b') pre.
Proof.
  intros Hs H. destruct (complete_paths_wf s0 evs Hs H) as [->|(b & Hw)]; [left; reflexivity|].
  right. destruct (wf_end_once_last _ _ Hw) as (pre & E & Hn). exists pre, b. split; assumption.
Qed.

Lemma stream_paths evs : (exists e h, arun CS_entry evs (CS_open e h)) -> exists ops, evs = cs_events CSO_ok ops.
Proof. apply (proj2 (cs_language evs)). Qed.
